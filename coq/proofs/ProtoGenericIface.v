(* Value.Interface() as coded with every repair applied (ProtoGenericAlg.a_interface all_fixes) computes the Go-value
   image to_gval of the element, on canonical encodings of well-formed values. *)
From Coq Require Import ZArith List Bool Lia.
From DG Require Import CaseFormat ProtoWireRef ProtoWireRefProofs ProtoMsg ProtoMsgProofs ProtoGeneric ProtoGenericAlg ProtoGenericDom ProtoGenericProofs ProtoGenericRefine.
Import ListNotations.
Local Open Scope Z_scope.

(* the node every lookup / iteration returns for a value: type, bytes, descriptor *)
Definition vnode (lbl : flabel) (t : ftype) (num : Z) (v : pval) : anode :=
  mk_anode (node_type lbl t) (node_raw lbl num v) 0 false lbl t num.
(* an element of a list / a value of a map *)
Definition enode (t : ftype) (x : pval) : anode := mk_anode (kind_of_type t) (encode_elem x) 0 false LSingular t 0.

(* what the map loop accumulates: string keys as read, integer keys as Go ints *)
Definition foldS (kvs : list (mkey * pval)) (si : list (list Z * gval)) : list (list Z * gval) :=
  fold_left (fun a kx => match fst kx with KStr b => upsert_b b (to_gval (snd kx)) a | KInt _ _ => a end) kvs si.
Definition foldI (kvs : list (mkey * pval)) (ii : list (Z * gval)) : list (Z * gval) :=
  fold_left (fun a kx => match fst kx with KInt _ x => upsert_z (to_s 64 x) (to_gval (snd kx)) a | KStr _ => a end) kvs ii.

(* ------------------------------------------------------------------ upserts of fresh keys append *)
Lemma upsert_z_fresh {B} k (v : B) l : Forall (fun kv => (fst kv =? k) = false) l -> upsert_z k v l = l ++ [(k, v)].
Proof.
  unfold upsert_z. induction l as [|[k' v'] l IH]; intros H; [reflexivity|].
  inversion H as [|? ? Hk Hl]; subst. cbn [fst] in Hk. cbn [app]. rewrite Hk. f_equal. apply IH. exact Hl.
Qed.

Lemma upsert_b_fresh {B} k (v : B) l : Forall (fun kv => bytes_eqb (fst kv) k = false) l -> upsert_b k v l = l ++ [(k, v)].
Proof.
  unfold upsert_b. induction l as [|[k' v'] l IH]; intros H; [reflexivity|].
  inversion H as [|? ? Hk Hl]; subst. cbn [fst] in Hk. cbn [app]. rewrite Hk. f_equal. apply IH. exact Hl.
Qed.

Lemma nodupb_mid {A} (eqb : A -> A -> bool) l1 y l2 : nodupb eqb (l1 ++ y :: l2) = true -> Forall (fun a => eqb a y = false) l1.
Proof.
  induction l1 as [|a l1 IH]; cbn [app nodupb]; intros H; [constructor|].
  apply andb_true_iff in H as [Hx H]. apply negb_true_iff in Hx. rewrite existsb_app in Hx. apply orb_false_iff in Hx as [_ Hx].
  cbn [existsb] in Hx. apply orb_false_iff in Hx as [Hx _]. constructor; [exact Hx|apply IH; exact H].
Qed.

Lemma fold_upsert_z {A B} (kf : A -> Z) (vf : A -> B) l : forall acc,
  nodupb Z.eqb (map fst acc ++ map kf l) = true ->
  fold_left (fun a x => upsert_z (kf x) (vf x) a) l acc = acc ++ map (fun x => (kf x, vf x)) l.
Proof.
  induction l as [|x l IH]; intros acc H; [cbn [fold_left map]; rewrite app_nil_r; reflexivity|].
  cbn [map fold_left] in *.
  assert (Hf : Forall (fun kv => (fst kv =? kf x) = false) acc).
  { apply nodupb_mid in H. rewrite Forall_map in H. exact H. }
  rewrite (upsert_z_fresh _ _ _ Hf). rewrite IH.
  - rewrite <- app_assoc. reflexivity.
  - rewrite map_app, <- app_assoc. exact H.
Qed.

Lemma fold_upsert_b {A B} (kf : A -> list Z) (vf : A -> B) l : forall acc,
  nodupb bytes_eqb (map fst acc ++ map kf l) = true ->
  fold_left (fun a x => upsert_b (kf x) (vf x) a) l acc = acc ++ map (fun x => (kf x, vf x)) l.
Proof.
  induction l as [|x l IH]; intros acc H; [cbn [fold_left map]; rewrite app_nil_r; reflexivity|].
  cbn [map fold_left] in *.
  assert (Hf : Forall (fun kv => bytes_eqb (fst kv) (kf x) = false) acc).
  { apply nodupb_mid in H. rewrite Forall_map in H. exact H. }
  rewrite (upsert_b_fresh _ _ _ Hf). rewrite IH.
  - rewrite <- app_assoc. reflexivity.
  - rewrite map_app, <- app_assoc. exact H.
Qed.

Lemma fold_left_ext_Forall {A B} (f g : A -> B -> A) (P : B -> Prop) l :
  (forall a x, P x -> f a x = g a x) -> Forall P l -> forall acc, fold_left f l acc = fold_left g l acc.
Proof.
  intros Hfg H. induction H as [|x l Hx _ IH]; intros acc; [reflexivity|]. cbn [fold_left]. rewrite (Hfg _ _ Hx). apply IH.
Qed.

(* distinctness is preserved by a map that reflects equality *)
Lemma nodupb_map_inj {A B} (ea : A -> A -> bool) (eb : B -> B -> bool) (f : A -> B) l :
  (forall x y, In x l -> In y l -> eb (f x) (f y) = true -> ea x y = true) ->
  nodupb ea l = true -> nodupb eb (map f l) = true.
Proof.
  induction l as [|a l IH]; intros Hinj H; [reflexivity|].
  cbn [map nodupb] in *. apply andb_true_iff in H as [Hx H]. apply andb_true_iff. split.
  - apply negb_true_iff in Hx. apply negb_true_iff. destruct (existsb (eb (f a)) (map f l)) eqn:E; [|reflexivity].
    apply existsb_exists in E. destruct E as [b [Hb E]]. apply in_map_iff in Hb. destruct Hb as [y [<- Hy]].
    assert (existsb (ea a) l = true).
    { apply existsb_exists. exists y. split; [exact Hy|]. apply Hinj; [left; reflexivity|right; exact Hy|exact E]. }
    congruence.
  - apply IH; [|exact H]. intros x y Hx' Hy'. apply Hinj; right; assumption.
Qed.

(* ------------------------------------------------------------------ small copies (ProtoGenericRefine2 is not imported) *)
Lemma i_fuel_split (a b : nat) : (a <= b)%nat -> exists f, Datatypes.S b = (a + Datatypes.S f)%nat.
Proof. intros. exists (b - a)%nat. lia. Qed.

Lemma i_encode_msg_cons n v fs : encode_msg ((n, v) :: fs) = wenc (wfld n v) ++ encode_msg fs.
Proof. unfold encode_msg, msg_wire. cbn [flat_map fst snd]. apply wenc_app. Qed.

Lemma i_encode_msg_len S md fs : fields_wf S md fs -> (length fs <= length (encode_msg fs))%nat.
Proof.
  intros H. induction H as [|[n v] fs [fd [_ [_ Hv]]] _ IH]; [cbn; lia|].
  rewrite i_encode_msg_cons, app_length. cbn [length snd] in *.
  destruct (wfld_fvals _ _ _ _ n Hv) as [E Hne]. destruct (fvals v) as [|w0 ws]; [contradiction|]. rewrite E. cbn [map].
  rewrite wenc_cons, app_length. pose proof (wenc_field_plen_pos (n, w0)) as Hp. unfold plen in Hp. lia.
Qed.

Lemma i_penc_len k xs : (length xs <= length (penc k xs))%nat.
Proof. unfold penc. apply flat_map_length_ge. intros x. apply scalar_enc_cons. Qed.

Lemma i_wenc_len w : (length w <= length (wenc w))%nat.
Proof. unfold wenc. apply flat_map_length_ge. intros x. apply wenc_field_cons. Qed.

(* ------------------------------------------------------------------ SkipAllElements over the records of one field *)
Lemma sae_packed pre num k xs rest :
  1 <= num <= MAX_FIELD_NUMBER -> is_numeric k = true -> Forall (fun x => scalar_okb k x = true) xs ->
  plen (penc k xs) < 9223372036854775808 ->
  skip_all_elements all_fixes (pre ++ wenc_field (num, WBytes (penc k xs)) ++ rest) (plen pre) num true (wt_of_kind k)
  = SaOk (plen pre + plen (wenc_field (num, WBytes (penc k xs)))) (plen xs).
Proof.
  intros Hn Hk Hall Hlen.
  unfold skip_all_elements. change (f703 all_fixes) with true. cbv iota.
  pose proof (plen_nonneg (penc k xs)) as Hp0.
  set (lenb := varint_enc (plen (penc k xs))). set (tg := tagb num 2).
  assert (E0 : pre ++ wenc_field (num, WBytes (penc k xs)) ++ rest = pre ++ tg ++ (lenb ++ penc k xs ++ rest)).
  { rewrite wenc_field_tagb. cbn [fst snd wt_of_wval wenc_val]. fold tg lenb. repeat rewrite <- app_assoc. reflexivity. }
  rewrite E0. unfold tg at 1. rewrite ctag_enc; [|exact Hn|unfold wt_ok; auto]. fold tg.
  unfold aread_length. rewrite app_assoc, <- plen_app. unfold lenb at 1.
  rewrite cvar_enc by (change (2 ^ 64) with 18446744073709551616; lia). fold lenb.
  rewrite to_s64_small by lia.
  destruct (Z.ltb_spec (plen (penc k xs)) 0); [lia|]. cbn [orb].
  assert (Hfit : plen (pre ++ tg) + plen lenb + plen (penc k xs) <= plen ((pre ++ tg) ++ lenb ++ penc k xs ++ rest)).
  { rewrite !plen_app. pose proof (plen_nonneg rest). lia. }
  destruct (Z.gtb_spec (plen (pre ++ tg) + plen lenb + plen (penc k xs)) (plen ((pre ++ tg) ++ lenb ++ penc k xs ++ rest))); [lia|].
  assert (Hxl : (length xs <= length ((pre ++ tg) ++ lenb ++ penc k xs ++ rest))%nat).
  { rewrite !app_length. pose proof (i_penc_len k xs). lia. }
  replace (Datatypes.S (length ((pre ++ tg) ++ lenb ++ penc k xs ++ rest)))
    with (length xs + Datatypes.S (length ((pre ++ tg) ++ lenb ++ penc k xs ++ rest) - length xs))%nat by lia.
  rewrite app_assoc. rewrite <- plen_app.
  rewrite (sap_run k xs ((pre ++ tg) ++ lenb) rest _ 0 _ Hk Hall eq_refl).
  rewrite Z.eqb_refl. f_equal; try lia.
  rewrite wenc_field_tagb. cbn [fst snd wt_of_wval wenc_val]. fold tg lenb. rewrite !plen_app. lia.
Qed.

Lemma sae_run pre num vals w2 ewt :
  wf_wire (map (pair num) vals) = true -> inert num w2 ->
  skip_all_elements all_fixes (pre ++ wenc (map (pair num) vals) ++ wenc w2) (plen pre) num false ewt
  = SaOk (plen pre + plen (wenc (map (pair num) vals))) (plen vals).
Proof.
  intros Hwf Hin. unfold skip_all_elements. cbv iota.
  set (buf := pre ++ wenc (map (pair num) vals) ++ wenc w2).
  assert (Hlen : (length vals <= length buf)%nat).
  { unfold buf. rewrite !app_length. pose proof (wenc_length_ge (map (pair num) vals)) as H. rewrite map_length in H. lia. }
  replace (Datatypes.S (length buf)) with (length vals + Datatypes.S (length buf - length vals))%nat by lia.
  unfold buf. rewrite sau_run by assumption. f_equal; lia.
Qed.

Lemma sae_val S lbl t num v pre w2 :
  lbl <> LSingular -> wf_fld S lbl t v = true -> 1 <= num <= MAX_FIELD_NUMBER -> inert num w2 ->
  plen (pre ++ wenc (wfld num v) ++ wenc w2) < 9223372036854775808 ->
  skip_all_elements all_fixes (pre ++ wenc (wfld num v) ++ wenc w2) (plen pre) num (desc_packed lbl t) (elem_wt t)
  = SaOk (plen pre + plen (wenc (wfld num v))) (size_of v).
Proof.
  intros Hl Hwf Hn Hin Hlen. pose proof (wfld_wire _ _ _ _ num Hwf Hn) as Hww.
  destruct lbl as [|p|kk]; [contradiction| |].
  - destruct v as [| | |q vs|]; cbn [wf_fld] in Hwf; try discriminate. fold (wf_fld S (LRepeated p) t (VList q vs)) in Hwf.
    assert (Hwf' : wf_fld S (LRepeated p) t (VList q vs) = true) by exact Hwf.
    destruct (wf_list_facts _ _ _ _ _ num Hwf') as [Hq [Hne [Hall Hcase]]].
    cbn [size_of]. destruct q.
    + destruct Hcase as [k [xs [-> [Hk [-> [Hxs [Ew Hl']]]]]]]. rewrite Ew in *. cbn [wenc flat_map] in *. rewrite app_nil_r in *.
      rewrite !plen_app in Hlen. unfold wenc_field in Hlen. cbn [fst snd wenc_val] in Hlen. rewrite !plen_app in Hlen.
      pose proof (plen_nonneg pre). pose proof (plen_nonneg (wenc w2)). pose proof (plen_nonneg (penc k xs)).
      pose proof (plen_nonneg (varint_enc (num * 8 + wt_of_wval (WBytes (penc k xs))))). pose proof (plen_nonneg (varint_enc (plen (penc k xs)))).
      cbn [desc_packed]. rewrite <- Hq. unfold elem_wt. cbn [kind_of_type].
      rewrite (sae_packed pre num k xs (wenc w2) Hn Hk Hxs) by lia.
      f_equal. unfold plen. rewrite map_length. reflexivity.
    + rewrite Hcase in *. cbn [desc_packed]. rewrite <- Hq.
      rewrite (sae_run pre num (map sval vs) w2 _ Hww Hin).
      f_equal. unfold plen. rewrite map_length. reflexivity.
  - destruct v as [| | | |kvs]; cbn [wf_fld] in Hwf; try discriminate. fold (wf_fld S (LMap kk) t (VMap kvs)) in Hwf.
    assert (Hwf' : wf_fld S (LMap kk) t (VMap kvs) = true) by exact Hwf.
    destruct (wf_map_facts _ _ _ _ num Hwf') as [Hne [Ew Hall]].
    cbn [size_of desc_packed]. rewrite Ew in *.
    assert (Em : map (erec num) (map entry_of kvs) = map (pair num) (map (fun e => WBytes (ebody e)) (map entry_of kvs))).
    { rewrite !map_map. reflexivity. }
    rewrite Em in *.
    rewrite (sae_run pre num _ w2 _ Hww Hin).
    f_equal. unfold plen. rewrite !map_length. reflexivity.
Qed.

(* ------------------------------------------------------------------ the list loop *)

Lemma if_list_packed (rec : anode -> ires) k xs : forall pre fuel acc,
  is_numeric k = true -> Forall (fun x => scalar_okb k x = true) xs ->
  Forall (fun x => rec (enode (TScalar k) (VScalar k x)) = IOk (to_gval (VScalar k x))) xs ->
  if_list rec (length xs + Datatypes.S fuel) (pre ++ penc k xs) (plen pre) (wt_of_kind k) true (TScalar k) acc =
  IOk (GList (acc ++ map to_gval (map (VScalar k) xs))).
Proof.
  induction xs as [|x xs IH]; intros pre fuel acc Hk Hall Hrec.
  - cbn [length plus if_list map penc flat_map]. rewrite !app_nil_r. rewrite Z.ltb_irrefl. reflexivity.
  - assert (Hx : scalar_okb k x = true) by (inversion Hall; assumption).
    assert (Hxs : Forall (fun x => scalar_okb k x = true) xs) by (inversion Hall; assumption).
    assert (Hrx : rec (enode (TScalar k) (VScalar k x)) = IOk (to_gval (VScalar k x))) by (inversion Hrec; assumption).
    assert (Hrxs : Forall (fun x => rec (enode (TScalar k) (VScalar k x)) = IOk (to_gval (VScalar k x))) xs) by (inversion Hrec; assumption).
    rewrite penc_cons. pose proof (scalar_val_plen_pos k x). pose proof (plen_nonneg (penc k xs)).
    cbn [length plus if_list].
    destruct (Z.ltb_spec (plen pre) (plen (pre ++ wenc_val (scalar_to_wire k x) ++ penc k xs))); [|rewrite !plen_app in *; lia].
    destruct (scalar_rt k x Hk Hx) as [_ [Hwf Hwt]].
    unfold list_next. rewrite <- Hwt.
    rewrite (askip_val pre (scalar_to_wire k x) (penc k xs) Hwf).
    rewrite slice_app.
    assert (En : mk_anode (kind_of_type (TScalar k)) (wenc_val (scalar_to_wire k x)) 0 false LSingular (TScalar k) 0 = enode (TScalar k) (VScalar k x)) by reflexivity.
    rewrite En, Hrx.
    replace (plen pre + plen (wenc_val (scalar_to_wire k x))) with (plen (pre ++ wenc_val (scalar_to_wire k x))) by (rewrite plen_app; lia).
    rewrite app_assoc. rewrite Hwt.
    rewrite (IH (pre ++ wenc_val (scalar_to_wire k x)) fuel (acc ++ [to_gval (VScalar k x)]) Hk Hxs Hrxs).
    cbn [map]. rewrite <- app_assoc. reflexivity.
Qed.

Lemma if_list_unpacked (rec : anode -> ires) S t vs : forall pre fuel fnum acc,
  Forall (fun x => wf_fld S LSingular t x = true) vs -> wf_wire (map (pair fnum) (map sval vs)) = true ->
  Forall (fun x => rec (enode t x) = IOk (to_gval x)) vs ->
  if_list rec (length vs + Datatypes.S fuel) (pre ++ wenc (map (pair fnum) (map sval vs))) (plen pre) (elem_wt t) false t acc =
  IOk (GList (acc ++ map to_gval vs)).
Proof.
  induction vs as [|x vs IH]; intros pre fuel fnum acc Hall Hww Hrec.
  - cbn [length plus if_list map wenc flat_map]. rewrite !app_nil_r. rewrite Z.ltb_irrefl. reflexivity.
  - assert (Hx : wf_fld S LSingular t x = true) by (inversion Hall; assumption).
    assert (Hxs : Forall (fun x => wf_fld S LSingular t x = true) vs) by (inversion Hall; assumption).
    assert (Hrx : rec (enode t x) = IOk (to_gval x)) by (inversion Hrec; assumption).
    assert (Hrxs : Forall (fun x => rec (enode t x) = IOk (to_gval x)) vs) by (inversion Hrec; assumption).
    cbn [map] in *. cbn [wf_wire forallb] in Hww. apply andb_true_iff in Hww as [Hf Hws]. fold (wf_wire (map (pair fnum) (map sval vs))) in Hws.
    destruct (wf_singular_facts _ _ _ Hx) as [Hw [Hwt [Htt Ee]]].
    rewrite wenc_cons. cbn [length plus if_list].
    destruct (record_skip pre (fnum, sval x) (wenc (map (pair fnum) (map sval vs))) Hf) as [Hc Hs]. cbn [fst snd] in Hc, Hs.
    pose proof (wenc_field_plen_pos (fnum, sval x)). pose proof (plen_nonneg (wenc (map (pair fnum) (map sval vs)))).
    destruct (Z.ltb_spec (plen pre) (plen (pre ++ wenc_field (fnum, sval x) ++ wenc (map (pair fnum) (map sval vs))))); [|rewrite !plen_app in *; lia].
    unfold list_next. rewrite Hc. rewrite <- Hwt. rewrite Hs.
    set (tg := tagb fnum (wt_of_wval (sval x))).
    assert (Eb : pre ++ wenc_field (fnum, sval x) ++ wenc (map (pair fnum) (map sval vs)) =
                 (pre ++ tg) ++ wenc_val (sval x) ++ wenc (map (pair fnum) (map sval vs))).
    { rewrite wenc_field_tagb. cbn [fst snd]. fold tg. repeat rewrite <- app_assoc. reflexivity. }
    rewrite Eb.
    replace (plen pre + plen tg) with (plen (pre ++ tg)) by (rewrite plen_app; lia).
    replace (plen pre + plen (wenc_field (fnum, sval x))) with (plen (pre ++ tg) + plen (wenc_val (sval x)))
      by (rewrite wenc_field_tagb; cbn [fst snd]; fold tg; rewrite !plen_app; lia).
    rewrite slice_app. rewrite <- Ee. fold (enode t x). rewrite Hrx.
    rewrite Ee.
    replace (plen (pre ++ tg) + plen (wenc_val (sval x))) with (plen ((pre ++ tg) ++ wenc_val (sval x))) by (rewrite !plen_app; lia).
    rewrite app_assoc. rewrite Hwt.
    rewrite (IH ((pre ++ tg) ++ wenc_val (sval x)) fuel fnum (acc ++ [to_gval x]) Hxs Hws Hrxs).
    rewrite <- app_assoc. reflexivity.
Qed.

(* ------------------------------------------------------------------ the map loop *)

Lemma if_map_run (rec : anode -> ires) S kk t kvs : forall pre fuel fnum si ii,
  (kk =? 9) || kind_is_int kk = true -> 1 <= fnum <= MAX_FIELD_NUMBER ->
  Forall (fun kx => key_okb kk (fst kx) = true /\ wf_fld S LSingular t (snd kx) = true /\ wf_entry (entry_of kx) = true) kvs ->
  Forall (fun kx => rec (enode t (snd kx)) = IOk (to_gval (snd kx))) kvs ->
  if_map rec (length kvs + Datatypes.S fuel) (pre ++ wenc (map (erec fnum) (map entry_of kvs))) (plen pre) kk (elem_wt t) t si ii =
  IOk (if kk =? 9 then GMapS (foldS kvs si) else GMapI (foldI kvs ii)).
Proof.
  induction kvs as [|[k x] kvs IH]; intros pre fuel fnum si ii Hkk Hn Hall Hrec.
  - cbn [length plus if_map map wenc flat_map]. rewrite app_nil_r, Z.ltb_irrefl. reflexivity.
  - assert (Hkx : key_okb kk k = true /\ wf_fld S LSingular t x = true /\ wf_entry (entry_of (k, x)) = true) by (inversion Hall; assumption).
    assert (Hall' : Forall (fun kx => key_okb kk (fst kx) = true /\ wf_fld S LSingular t (snd kx) = true /\ wf_entry (entry_of kx) = true) kvs)
      by (inversion Hall; assumption).
    assert (Hrx : rec (enode t x) = IOk (to_gval x)) by (inversion Hrec; assumption).
    assert (Hrec' : Forall (fun kx => rec (enode t (snd kx)) = IOk (to_gval (snd kx))) kvs) by (inversion Hrec; assumption).
    destruct Hkx as [Hk [Hx Hwe]]. cbn [fst snd] in Hk, Hx.
    destruct (wf_singular_facts _ _ _ Hx) as [Hw [Hwt [Htt Ee]]].
    set (e := entry_of (k, x)) in *. set (rest := wenc (map (erec fnum) (map entry_of kvs))).
    unfold wf_entry in Hwe. apply andb_true_iff in Hwe as [Hwe Hl]. apply andb_true_iff in Hwe as [Hkw Hxw]. apply Z.ltb_lt in Hl.
    pose proof (ebody_plen_pos e) as Hpos.
    set (tg := tagb fnum 2). set (lenb := varint_enc (plen (ebody e))).
    set (t1 := tagb 1 (wt_of_wval (kval (fst e)))). set (kb := wenc_val (kval (fst e))).
    set (t2 := tagb 2 (wt_of_wval (snd e))). set (xb := wenc_val (snd e)).
    cbn [map]. fold e. rewrite wenc_cons. fold rest.
    set (buf := pre ++ wenc_field (erec fnum e) ++ rest).
    assert (E0 : buf = pre ++ tg ++ (lenb ++ t1 ++ kb ++ t2 ++ xb ++ rest)).
    { unfold buf. rewrite erec_enc. unfold evalb. fold tg lenb. unfold ebody. fold t1 kb t2 xb. repeat rewrite <- app_assoc. reflexivity. }
    assert (E1 : buf = (pre ++ tg) ++ lenb ++ (t1 ++ kb ++ t2 ++ xb ++ rest)) by (rewrite E0; repeat rewrite <- app_assoc; reflexivity).
    assert (E2 : buf = (pre ++ tg ++ lenb) ++ t1 ++ (kb ++ t2 ++ xb ++ rest)) by (rewrite E0; repeat rewrite <- app_assoc; reflexivity).
    assert (E3 : buf = (pre ++ tg ++ lenb ++ t1) ++ kb ++ (t2 ++ xb ++ rest)) by (rewrite E0; repeat rewrite <- app_assoc; reflexivity).
    assert (E4 : buf = (pre ++ tg ++ lenb ++ t1 ++ kb) ++ t2 ++ (xb ++ rest)) by (rewrite E0; repeat rewrite <- app_assoc; reflexivity).
    assert (E5 : buf = (pre ++ tg ++ lenb ++ t1 ++ kb ++ t2) ++ xb ++ rest) by (rewrite E0; repeat rewrite <- app_assoc; reflexivity).
    assert (E6 : buf = (pre ++ wenc_field (erec fnum e)) ++ rest) by (unfold buf; rewrite <- app_assoc; reflexivity).
    assert (Hlt : plen pre < plen buf).
    { rewrite E0, !plen_app. unfold tg, tagb. destruct (varint_enc_cons (fnum * 8 + 2)) as [b [tt E]]. rewrite E, plen_cons.
      pose proof (plen_nonneg tt). pose proof (plen_nonneg lenb). pose proof (plen_nonneg t1). pose proof (plen_nonneg kb).
      pose proof (plen_nonneg t2). pose proof (plen_nonneg xb). pose proof (plen_nonneg rest). lia. }
    cbn [length plus if_map]. destruct (Z.ltb_spec (plen pre) (plen buf)); [|lia].
    set (k' := match k with KInt _ v => KInt kk (to_s 64 v) | KStr b => KStr b end).
    assert (Hc0 : ctag buf (plen pre) = Some (fnum, 2, plen tg)).
    { rewrite E0. unfold tg. apply ctag_enc; [exact Hn|unfold wt_ok; auto]. }
    assert (Hal : aread_length buf (plen pre + plen tg) = Some (to_s 64 (plen (ebody e)), plen (pre ++ tg ++ lenb))).
    { unfold aread_length. rewrite <- plen_app. rewrite E1. unfold lenb. rewrite cvar_enc by lia.
      fold lenb. rewrite !plen_app. f_equal. f_equal. lia. }
    assert (Hc1 : ctag buf (plen (pre ++ tg ++ lenb)) = Some (1, wt_of_wval (kval (fst e)), plen t1)).
    { rewrite E2. unfold t1. apply ctag_enc; [unfold MAX_FIELD_NUMBER; lia|apply wt_of_wval_ok]. }
    assert (Hkwt : wt_of_wval (kval (fst e)) = wt_of_kind kk).
    { unfold e, entry_of, kval. cbn [fst snd]. destruct k as [k0 v|bs]; cbn [key_okb key_field snd] in *.
      - apply andb_true_iff in Hk as [Hk Hok]. apply andb_true_iff in Hk as [Ek Hnum]. apply Z.eqb_eq in Ek. subst k0.
        apply (scalar_rt kk v Hnum Hok).
      - apply andb_true_iff in Hk as [Ek Hlb]. apply Z.eqb_eq in Ek. subst kk. reflexivity. }
    assert (Hkey : (if kk =? 9
                    then match aread_string buf (plen (pre ++ tg ++ lenb ++ t1)) with Some (b, r) => Some (KStr b, r) | None => None end
                    else match aread_int buf (plen (pre ++ tg ++ lenb ++ t1)) kk with Some (x0, r) => Some (KInt kk x0, r) | None => None end)
                   = Some (k', plen (pre ++ tg ++ lenb ++ t1 ++ kb))).
    { unfold e, entry_of in kb, t1. cbn [fst snd] in kb, t1. unfold kb, kval in *. unfold k'.
      destruct k as [k0 v|bs]; cbn [key_okb] in Hk.
      - apply andb_true_iff in Hk as [Hk Hok]. apply andb_true_iff in Hk as [Ek Hnum]. apply Z.eqb_eq in Ek. subst k0.
        destruct (Z.eqb_spec kk 9) as [->|_]; [cbn in Hnum; discriminate|].
        assert (Hki : kind_is_int kk = true) by (apply orb_true_iff in Hkk; destruct Hkk as [E|E]; [discriminate E|exact E]).
        cbn [key_field snd] in *. rewrite E3. rewrite aread_int_enc by assumption.
        rewrite !plen_app. f_equal. f_equal. unfold kval. cbn [key_field snd fst]. lia.
      - apply andb_true_iff in Hk as [Ek Hlb]. apply Z.eqb_eq in Ek. subst kk. cbn [Z.eqb Pos.eqb]. apply Z.ltb_lt in Hlb.
        cbn [key_field snd] in *. rewrite E3. unfold kval. cbn [key_field snd fst]. rewrite aread_string_enc by exact Hlb.
        rewrite !plen_app. f_equal. f_equal. unfold kval. cbn [key_field snd fst]. lia. }
    assert (Hc2 : ctag buf (plen (pre ++ tg ++ lenb ++ t1 ++ kb)) = Some (2, wt_of_wval (snd e), plen t2)).
    { rewrite E4. unfold t2. apply ctag_enc; [unfold MAX_FIELD_NUMBER; lia|apply wt_of_wval_ok]. }
    assert (Hxwt : wt_of_wval (snd e) = elem_wt t) by (unfold e, entry_of; cbn [snd]; exact Hwt).
    assert (Eend : plen (pre ++ tg ++ lenb ++ t1 ++ kb ++ t2) + plen (wenc_val (sval x)) = plen (pre ++ wenc_field (erec fnum e))).
    { rewrite erec_enc. unfold evalb. fold tg lenb. unfold ebody. fold t1 kb t2 xb. unfold xb, e, entry_of. cbn [snd]. rewrite !plen_app. lia. }
    assert (Hsk : askip buf (plen (pre ++ tg ++ lenb ++ t1 ++ kb ++ t2)) (elem_wt t) = SkOk (plen (pre ++ wenc_field (erec fnum e)))).
    { rewrite <- Hwt, E5. unfold xb, e, entry_of. cbn [snd]. rewrite askip_val by exact Hw. rewrite Eend. reflexivity. }
    assert (Hpn : pair_next buf (plen pre) kk (elem_wt t) =
                  PrOk k' (plen (pre ++ tg ++ lenb ++ t1 ++ kb ++ t2)) (plen (pre ++ wenc_field (erec fnum e))) (plen (pre ++ wenc_field (erec fnum e)))).
    { unfold pair_next. rewrite Hc0, Hal, Hc1, Hkwt, Z.eqb_refl. cbn [negb].
      replace (plen (pre ++ tg ++ lenb) + plen t1) with (plen (pre ++ tg ++ lenb ++ t1)) by (rewrite !plen_app; lia).
      rewrite Hkey, Hc2, Hxwt, Z.eqb_refl. cbn [negb].
      replace (plen (pre ++ tg ++ lenb ++ t1 ++ kb) + plen t2) with (plen (pre ++ tg ++ lenb ++ t1 ++ kb ++ t2)) by (rewrite !plen_app; lia).
      rewrite Hsk. reflexivity. }
    rewrite Hpn.
    assert (Hsl : slice buf (plen (pre ++ tg ++ lenb ++ t1 ++ kb ++ t2)) (plen (pre ++ wenc_field (erec fnum e))) = encode_elem x).
    { rewrite <- Eend, E5. unfold xb, e, entry_of. cbn [snd]. rewrite slice_app. symmetry. exact Ee. }
    rewrite Hsl. fold (enode t x). rewrite Hrx. rewrite E6. unfold rest.
    unfold k'. destruct k as [k0 v|bs].
    + rewrite (IH (pre ++ wenc_field (erec fnum e)) fuel fnum si (upsert_z (to_s 64 v) (to_gval x) ii) Hkk Hn Hall' Hrec'). reflexivity.
    + rewrite (IH (pre ++ wenc_field (erec fnum e)) fuel fnum (upsert_b bs (to_gval x) si) ii Hkk Hn Hall' Hrec'). reflexivity.
Qed.

(* ------------------------------------------------------------------ the message loop *)
Lemma if_msg_fields (rec : anode -> ires) S md fs : forall pre fuel acc,
  fields_wf S md fs -> nodupb Z.eqb (map fst fs) = true ->
  plen (pre ++ encode_msg fs) < 9223372036854775808 ->
  Forall (fun nv => forall fd, find_field md (fst nv) = Some fd ->
                    rec (vnode (fd_label fd) (fd_type fd) (fst nv) (snd nv)) = IOk (to_gval (snd nv))) fs ->
  if_msg all_fixes rec (length fs + Datatypes.S fuel) md (pre ++ encode_msg fs) (plen pre) acc =
  IOk (GMapI (fold_left (fun a nv => upsert_z (fst nv) (to_gval (snd nv)) a) fs acc)).
Proof.
  induction fs as [|[n v] fs IH]; intros pre fuel acc Hf Hnd Hlen Hrec.
  - cbn [length plus if_msg fold_left]. change (encode_msg []) with (@nil Z). rewrite app_nil_r, Z.ltb_irrefl. reflexivity.
  - cbn [map fst nodupb] in Hnd. apply andb_true_iff in Hnd as [Hx Hnd].
    inversion Hf as [|? ? [fd [Hfd [Hn Hv]]] Hf']; subst. cbn [fst snd] in *.
    inversion Hrec as [|? ? Hr Hrec']; subst. cbn [fst snd] in Hr. specialize (Hr fd Hfd).
    destruct (fields_wf_wire _ _ _ Hf') as [Hw2 Hne2].
    assert (Hin : inert n (msg_wire fs)).
    { split; [exact Hw2|]. apply Hne2. apply Forall_forall. intros [m x] Hmx E. cbn [fst] in E. subst m.
      apply negb_true_iff in Hx. assert (existsb (Z.eqb n) (map fst fs) = true).
      { apply existsb_exists. exists n. split; [apply (in_map fst _ _ Hmx)|apply Z.eqb_refl]. } congruence. }
    rewrite i_encode_msg_cons in *.
    destruct (val_tag S (fd_label fd) (fd_type fd) n v pre (encode_msg fs) Hv Hn) as [w0 [ws [Ef [Hw0 [Hws [Hc Eb]]]]]].
    set (buf := pre ++ wenc (wfld n v) ++ encode_msg fs) in *.
    set (tg := tagb n (wt_of_wval w0)) in *.
    assert (Hsk : askip buf (plen pre + plen tg) (wt_of_wval w0) = SkOk (plen (pre ++ tg) + plen (wenc_val w0))).
    { rewrite Eb, <- plen_app. apply askip_val. exact Hw0. }
    assert (Hlt : plen pre < plen buf).
    { unfold buf. rewrite !plen_app. destruct (wfld_fvals _ _ _ _ n Hv) as [E Hne]. rewrite Ef in E. rewrite E. cbn [map].
      rewrite wenc_cons, plen_app. pose proof (wenc_field_plen_pos (n, w0)). pose proof (plen_nonneg (wenc (map (pair n) ws))). pose proof (plen_nonneg (encode_msg fs)). lia. }
    assert (Eb2 : buf = (pre ++ wenc (wfld n v)) ++ encode_msg fs) by (unfold buf; rewrite <- app_assoc; reflexivity).
    assert (Hnext : forall g, if_msg all_fixes rec (length fs + Datatypes.S fuel) md buf (plen pre + plen (wenc (wfld n v))) (upsert_z n g acc) =
                              IOk (GMapI (fold_left (fun a nv => upsert_z (fst nv) (to_gval (snd nv)) a) fs (upsert_z n g acc)))).
    { intros g. rewrite Eb2, <- plen_app. apply IH; [exact Hf'|exact Hnd|rewrite <- Eb2; exact Hlen|exact Hrec']. }
    cbn [length plus if_msg fold_left fst snd].
    destruct (Z.ltb_spec (plen pre) (plen buf)); [|lia].
    rewrite Hc. fold tg. rewrite Hsk, Hfd.
    destruct (fd_label fd) as [|p|kk] eqn:El.
    + destruct (wf_singular_facts _ _ _ Hv) as [Hw [Hwt [Htt Ee]]].
      assert (Ew : w0 = sval v /\ ws = []) by (destruct v; cbn [wf_fld] in Hv; try discriminate; cbn [fvals] in Ef; inversion Ef; auto).
      destruct Ew as [-> ->].
      assert (Hs : slice buf (plen pre + plen tg) (plen (pre ++ tg) + plen (wenc_val (sval v))) = encode_elem v).
      { rewrite Eb, <- plen_app, Ee. apply slice_app. }
      rewrite Hs. change (mk_anode (kind_of_type (fd_type fd)) (encode_elem v) 0 false LSingular (fd_type fd) n) with (vnode LSingular (fd_type fd) n v).
      rewrite Hr.
      replace (plen (pre ++ tg) + plen (wenc_val (sval v))) with (plen pre + plen (wenc (wfld n v))).
      2:{ rewrite (wfld_single _ _ _ n Hv). cbn [wenc flat_map]. rewrite app_nil_r, wenc_field_tagb. cbn [fst snd]. fold tg. rewrite !plen_app. lia. }
      apply Hnext.
    + assert (Hlbl : LRepeated p <> LSingular) by discriminate.
      unfold buf, encode_msg. rewrite (sae_val S (LRepeated p) (fd_type fd) n v pre (msg_wire fs) Hlbl Hv Hn Hin Hlen).
      fold (encode_msg fs). fold buf.
      assert (Hs : slice buf (plen pre) (plen pre + plen (wenc (wfld n v))) = wenc (wfld n v)) by (unfold buf; apply slice_app).
      rewrite Hs. change (mk_anode (node_type (LRepeated p) (fd_type fd)) (wenc (wfld n v)) 0 false (LRepeated p) (fd_type fd) n) with (vnode (LRepeated p) (fd_type fd) n v).
      rewrite Hr. apply Hnext.
    + assert (Hlbl : LMap kk <> LSingular) by discriminate.
      unfold buf, encode_msg. rewrite (sae_val S (LMap kk) (fd_type fd) n v pre (msg_wire fs) Hlbl Hv Hn Hin Hlen).
      fold (encode_msg fs). fold buf.
      assert (Hs : slice buf (plen pre) (plen pre + plen (wenc (wfld n v))) = wenc (wfld n v)) by (unfold buf; apply slice_app).
      rewrite Hs. change (mk_anode (node_type (LMap kk) (fd_type fd)) (wenc (wfld n v)) 0 false (LMap kk) (fd_type fd) n) with (vnode (LMap kk) (fd_type fd) n v).
      rewrite Hr. apply Hnext.
Qed.

(* ------------------------------------------------------------------ scalars, strings, bytes *)

(* ------------------------------------------------------------------ scalars *)
Lemma cvar0 v : 0 <= v < 2 ^ 64 -> cvar (varint_enc v) 0 = Some (v, plen (varint_enc v)).
Proof.
  intros H. pose proof (cvar_enc [] v [] H) as E. rewrite app_nil_r in E. cbn [app] in E.
  change (plen (@nil Z)) with 0 in E. exact E.
Qed.

Lemma le_dec_enc_nil n v : 0 <= v < 256 ^ Z.of_nat n -> le_dec n (le_enc n v) = v.
Proof. intros H. rewrite <- (app_nil_r (le_enc n v)). apply le_dec_enc. exact H. Qed.

Lemma aread_string0 bs : plen bs < 2 ^ 64 ->
  aread_string (wenc_val (WBytes bs)) 0 = Some (bs, plen (wenc_val (WBytes bs))).
Proof.
  intros H. pose proof (aread_string_enc [] bs [] H) as E. rewrite app_nil_r in E. cbn [app] in E.
  change (plen (@nil Z)) with 0 in E. rewrite Z.add_0_l in E. exact E.
Qed.

Lemma scalar_interface_num k x : is_numeric k = true -> scalar_okb k x = true ->
  scalar_interface all_fixes k (wenc_val (scalar_to_wire k x)) = IOk (to_gval (VScalar k x)).
Proof.
  intros Hn Hok. apply is_numeric_cases in Hn. cbn [In] in Hn.
  change (2 ^ 64) with 18446744073709551616 in *.
  repeat (destruct Hn as [<-|Hn]); try contradiction;
  unfold scalar_okb in Hok; cbn [Z.eqb Pos.eqb orb] in Hok;
  unfold scalar_interface, scalar_to_wire, scalar_of_u, wt_of_kind, to_gval, is_signed_kind, is_unsigned_kind;
  change (f709 all_fixes) with true;
  cbn [Z.eqb Pos.eqb orb andb negb wenc_val];
  change (2 ^ 64) with 18446744073709551616; change (2 ^ 32) with 4294967296.
  (* 1 double *)
  - kill_bounds Hok. rewrite Z.mod_small by lia.
    rewrite le_dec_enc_nil by (change (256 ^ Z.of_nat 8) with 18446744073709551616; lia). reflexivity.
  (* 2 float *)
  - kill_bounds Hok. rewrite Z.mod_small by lia.
    rewrite le_dec_enc_nil by (change (256 ^ Z.of_nat 4) with 4294967296; lia). reflexivity.
  (* 3 int64 *)
  - kill_bounds Hok. rewrite cvar0 by (change (2 ^ 64) with 18446744073709551616; apply Z.mod_pos_bound; lia).
    rewrite to_s64_mod64 by lia. reflexivity.
  (* 4 uint64 *)
  - kill_bounds Hok. rewrite Z.mod_small by lia.
    rewrite cvar0 by (change (2 ^ 64) with 18446744073709551616; lia). reflexivity.
  (* 5 int32 *)
  - kill_bounds Hok. rewrite cvar0 by (change (2 ^ 64) with 18446744073709551616; apply Z.mod_pos_bound; lia).
    rewrite to_s32_mod64 by lia. reflexivity.
  (* 6 fixed64 *)
  - kill_bounds Hok. rewrite Z.mod_small by lia.
    rewrite le_dec_enc_nil by (change (256 ^ Z.of_nat 8) with 18446744073709551616; lia). reflexivity.
  (* 7 fixed32 *)
  - kill_bounds Hok. rewrite Z.mod_small by lia.
    rewrite le_dec_enc_nil by (change (256 ^ Z.of_nat 4) with 4294967296; lia). reflexivity.
  (* 8 bool *)
  - apply orb_true_iff in Hok. destruct Hok as [E|E]; apply Z.eqb_eq in E; subst x;
    rewrite Z.mod_small by lia; rewrite cvar0 by (change (2 ^ 64) with 18446744073709551616; lia); reflexivity.
  (* 13 uint32 *)
  - kill_bounds Hok. rewrite (Z.mod_small x 18446744073709551616) by lia.
    rewrite cvar0 by (change (2 ^ 64) with 18446744073709551616; lia). rewrite Z.mod_small by lia. reflexivity.
  (* 14 enum *)
  - kill_bounds Hok. rewrite cvar0 by (change (2 ^ 64) with 18446744073709551616; apply Z.mod_pos_bound; lia).
    rewrite to_s32_mod64 by lia. reflexivity.
  (* 15 sfixed32 *)
  - kill_bounds Hok.
    rewrite le_dec_enc_nil by (change (256 ^ Z.of_nat 4) with 4294967296; apply Z.mod_pos_bound; lia).
    rewrite to_s32_mod32 by lia. reflexivity.
  (* 16 sfixed64 *)
  - kill_bounds Hok.
    rewrite le_dec_enc_nil by (change (256 ^ Z.of_nat 8) with 18446744073709551616; apply Z.mod_pos_bound; lia).
    rewrite to_s64_mod64 by lia. reflexivity.
  (* 17 sint32 *)
  - kill_bounds Hok. pose proof (zigzag_enc_range32 x ltac:(lia)).
    rewrite cvar0 by (change (2 ^ 64) with 18446744073709551616; lia).
    rewrite Z.mod_small by lia. rewrite zigzag_dec_enc. reflexivity.
  (* 18 sint64 *)
  - kill_bounds Hok. pose proof (zigzag_enc_range64 x ltac:(lia)).
    rewrite cvar0 by (change (2 ^ 64) with 18446744073709551616; lia). rewrite zigzag_dec_enc. reflexivity.
Qed.

Lemma scalar_interface_bytes k b : is_byteskind k = true -> plen b < 2 ^ 64 ->
  scalar_interface all_fixes k (wenc_val (WBytes b)) = IOk (to_gval (VBytes k b)).
Proof.
  intros H Hb. unfold is_byteskind in H. apply orb_true_iff in H. destruct H as [E|E]; apply Z.eqb_eq in E; subst k;
  unfold scalar_interface, to_gval, is_signed_kind; cbn [Z.eqb Pos.eqb orb andb negb];
  rewrite aread_string0 by exact Hb; reflexivity.
Qed.

Lemma scalar_interface_ok S t v : wf_fld S LSingular t v = true ->
  (match v with VScalar _ _ | VBytes _ _ => True | _ => False end) ->
  scalar_interface all_fixes (kind_of_type t) (encode_elem v) = IOk (to_gval v).
Proof.
  intros H Hv. destruct (wf_singular_facts S t v H) as [_ [_ [_ Ee]]]. rewrite Ee.
  destruct v as [k x|k b|fs| |]; try contradiction; cbn [wf_fld] in H.
  - destruct t as [k'|]; [|discriminate].
    apply andb_true_iff in H as [H Hok]. apply andb_true_iff in H as [Hk Hn]. apply Z.eqb_eq in Hk. subst k'.
    cbn [sval kind_of_type]. apply scalar_interface_num; assumption.
  - destruct t as [k'|]; [|discriminate].
    apply andb_true_iff in H as [H Hl]. apply andb_true_iff in H as [Hk Hb]. apply Z.eqb_eq in Hk. subst k'.
    cbn [sval kind_of_type]. apply scalar_interface_bytes; [exact Hb|apply Z.ltb_lt; exact Hl].
Qed.

Lemma to_s64_inj_okb kk x y : kind_is_int kk = true -> scalar_okb kk x = true -> scalar_okb kk y = true ->
  to_s 64 x = to_s 64 y -> x = y.
Proof.
  intros H Hx Hy E. apply kind_is_int_cases in H. cbn [In] in H.
  repeat (destruct H as [<-|H]); try contradiction;
  unfold scalar_okb in Hx, Hy; cbn [Z.eqb Pos.eqb orb] in *;
  kill_bounds Hx; kill_bounds Hy;
  unfold to_s in *; change (2 ^ (64 - 1)) with 9223372036854775808 in *;
  change (2 ^ 64) with 18446744073709551616 in *; Z.div_mod_to_equations; lia.
Qed.

(* ------------------------------------------------------------------ the measure of the induction: nesting of nodes *)
Fixpoint height (v : pval) : nat :=
  match v with
  | VMsg fs => Datatypes.S (fold_right (fun nv m => Nat.max (height (snd nv)) m) O fs)
  | VList _ vs => Datatypes.S (fold_right (fun x m => Nat.max (height x) m) O vs)
  | VMap kvs => Datatypes.S (fold_right (fun kx m => Nat.max (height (snd kx)) m) O kvs)
  | _ => 1%nat
  end.

Lemma fold_max_le {A} (f : A -> nat) l x : In x l -> (f x <= fold_right (fun y m => Nat.max (f y) m) O l)%nat.
Proof. induction l as [|a l IH]; intros H; [destruct H|]. cbn [fold_right]. destruct H as [->|H]; [lia|]. specialize (IH H). lia. Qed.

(* ------------------------------------------------------------------ the bytes of a child lie inside the bytes of its parent *)
Lemma in_flat_map_plen {A} (f : A -> list Z) l x : In x l -> plen (f x) <= plen (flat_map f l).
Proof.
  induction l as [|a l IH]; intros H; [destruct H|]. cbn [flat_map]. rewrite plen_app.
  pose proof (plen_nonneg (f a)). pose proof (plen_nonneg (flat_map f l)). destruct H as [->|H]; [lia|]. specialize (IH H). lia.
Qed.

Lemma node_raw_le S lbl t n v : wf_fld S lbl t v = true -> plen (node_raw lbl n v) <= plen (wenc (wfld n v)).
Proof.
  intros H. destruct lbl; cbn [node_raw]; try lia.
  rewrite (single_field_bytes S t v n H), plen_app. pose proof (plen_nonneg (varint_enc (n * 8 + wt_of_wval (sval v)))). lia.
Qed.

Lemma field_raw_le fs n v : In (n, v) fs -> plen (wenc (wfld n v)) <= plen (encode_msg fs).
Proof.
  induction fs as [|[m x] fs IH]; intros H; [destruct H|]. rewrite i_encode_msg_cons, plen_app.
  pose proof (plen_nonneg (wenc (wfld m x))). pose proof (plen_nonneg (encode_msg fs)).
  destruct H as [E|H]; [inversion E; subst; lia|specialize (IH H); lia].
Qed.

Lemma val_le_field n w : plen (wenc_val w) <= plen (wenc_field (n, w)).
Proof. rewrite wenc_field_tagb, plen_app. cbn [fst snd]. pose proof (plen_nonneg (tagb n (wt_of_wval w))). lia. Qed.

Lemma elem_raw_le_list S p t q vs num x : wf_fld S (LRepeated p) t (VList q vs) = true -> In x vs ->
  plen (encode_elem x) <= plen (wenc (wfld num (VList q vs))).
Proof.
  intros Hwf Hx. destruct (wf_list_facts _ _ _ _ _ num Hwf) as [Hq [Hne [Hall Hshape]]]. destruct q.
  - destruct Hshape as [k [xs [Et [Hk [Evs [Hxs [Ew Hpl]]]]]]]. subst t vs. rewrite Ew.
    apply in_map_iff in Hx. destruct Hx as [x0 [<- Hx0]].
    change (encode_elem (VScalar k x0)) with (wenc_val (scalar_to_wire k x0)).
    cbn [wenc flat_map]. rewrite app_nil_r.
    pose proof (val_le_field num (WBytes (penc k xs))) as H1. cbn [wenc_val] in H1. rewrite plen_app in H1.
    pose proof (plen_nonneg (varint_enc (plen (penc k xs)))).
    pose proof (in_flat_map_plen (fun x => wenc_val (scalar_to_wire k x)) xs x0 Hx0) as H2. unfold penc in *. lia.
  - rewrite Hshape. rewrite Forall_forall in Hall. destruct (wf_singular_facts _ _ _ (Hall _ Hx)) as [_ [_ [_ Ee]]]. rewrite Ee.
    assert (Hin : In (num, sval x) (map (pair num) (map sval vs))) by (apply in_map; apply in_map; exact Hx).
    pose proof (in_flat_map_plen wenc_field _ _ Hin) as H1. fold (wenc (map (pair num) (map sval vs))) in H1.
    pose proof (val_le_field num (sval x)). lia.
Qed.

Lemma entry_val_le num e : plen (wenc_val (snd e)) <= plen (wenc_field (erec num e)).
Proof.
  rewrite erec_enc. unfold evalb, ebody. rewrite !plen_app.
  pose proof (plen_nonneg (tagb num 2)).
  match goal with |- context [plen (varint_enc ?x)] => pose proof (plen_nonneg (varint_enc x)) end.
  pose proof (plen_nonneg (tagb 1 (wt_of_wval (kval (fst e))))). pose proof (plen_nonneg (wenc_val (kval (fst e)))).
  pose proof (plen_nonneg (tagb 2 (wt_of_wval (snd e)))). lia.
Qed.

Lemma elem_raw_le_map S kk t kvs num kx : wf_fld S (LMap kk) t (VMap kvs) = true -> In kx kvs ->
  plen (encode_elem (snd kx)) <= plen (wenc (wfld num (VMap kvs))).
Proof.
  intros Hwf Hx. destruct (wf_map_facts _ _ _ _ num Hwf) as [Hne [Ew Hall]]. rewrite Ew.
  rewrite Forall_forall in Hall. destruct (Hall _ Hx) as [_ [Hv _]].
  destruct (wf_singular_facts _ _ _ Hv) as [_ [_ [_ Ee]]]. rewrite Ee.
  assert (Hin : In (erec num (entry_of kx)) (map (erec num) (map entry_of kvs))) by (apply in_map; apply in_map; exact Hx).
  pose proof (in_flat_map_plen wenc_field _ _ Hin) as H1. fold (wenc (map (erec num) (map entry_of kvs))) in H1.
  pose proof (entry_val_le num (entry_of kx)) as H2. unfold entry_of in H2 at 1. cbn [snd] in H2. lia.
Qed.

(* ------------------------------------------------------------------ the accumulated map is the Go map of the value *)
Definition skey (kx : mkey * pval) : list Z := match fst kx with KStr s => s | KInt _ _ => [] end.
Definition ikey (kx : mkey * pval) : Z := match fst kx with KInt _ i => to_s 64 i | KStr _ => 0 end.

Lemma map_gval_str kvs : kvs <> [] -> Forall (fun kx => key_okb 9 (fst kx) = true) kvs ->
  nodupb mkey_eqb (map fst kvs) = true -> GMapS (foldS kvs []) = to_gval (VMap kvs).
Proof.
  intros Hne Hk Hnd.
  assert (Hs : Forall (fun kx => exists b, fst kx = KStr b) kvs).
  { eapply Forall_impl; [|exact Hk]. intros [k x] H. cbn [fst] in *. destruct k as [k' v|b]; [|eexists; reflexivity].
    cbn [key_okb] in H. apply andb_true_iff in H as [H _]. apply andb_true_iff in H as [_ H]. vm_compute in H. discriminate H. }
  assert (E : foldS kvs [] = map (fun kx => (skey kx, to_gval (snd kx))) kvs).
  { unfold foldS.
    rewrite (fold_left_ext_Forall _ (fun a kx => upsert_b (skey kx) (to_gval (snd kx)) a) (fun kx => exists b, fst kx = KStr b) kvs);
      [|intros a x [b Hb]; unfold skey; rewrite Hb; reflexivity|exact Hs].
    rewrite (fold_upsert_b skey (fun kx => to_gval (snd kx)) kvs []); [reflexivity|].
    cbn [map app].
    assert (Em : map skey kvs = map (fun k => match k with KStr s => s | KInt _ _ => [] end) (map fst kvs)) by (rewrite map_map; reflexivity).
    rewrite Em. apply (nodupb_map_inj mkey_eqb bytes_eqb); [|exact Hnd].
    intros x y Hx Hy Hb. apply in_map_iff in Hx. destruct Hx as [kx [<- Hkx]]. apply in_map_iff in Hy. destruct Hy as [ky [<- Hky]].
    rewrite Forall_forall in Hs. destruct (Hs _ Hkx) as [b1 E1]. destruct (Hs _ Hky) as [b2 E2]. rewrite E1, E2 in *. cbn [mkey_eqb]. exact Hb. }
  rewrite E. destruct kvs as [|[k0 x0] kvs']; [contradiction|]. inversion Hs as [|? ? [b Hb] _]; subst. cbn [fst] in Hb. subst k0. reflexivity.
Qed.

Lemma map_gval_int kk kvs : (kk =? 9) = false -> kind_is_int kk = true -> kvs <> [] ->
  Forall (fun kx => key_okb kk (fst kx) = true) kvs ->
  nodupb mkey_eqb (map fst kvs) = true -> GMapI (foldI kvs []) = to_gval (VMap kvs).
Proof.
  intros H9 Hki Hne Hk Hnd.
  assert (Hs : Forall (fun kx => exists i, fst kx = KInt kk i /\ scalar_okb kk i = true) kvs).
  { eapply Forall_impl; [|exact Hk]. intros [k x] H. cbn [fst] in *. destruct k as [k' v|b]; cbn [key_okb] in H.
    - apply andb_true_iff in H as [H Hok]. apply andb_true_iff in H as [Ek _]. apply Z.eqb_eq in Ek. subst k'. exists v. auto.
    - rewrite H9 in H. discriminate H. }
  assert (E : foldI kvs [] = map (fun kx => (ikey kx, to_gval (snd kx))) kvs).
  { unfold foldI.
    rewrite (fold_left_ext_Forall _ (fun a kx => upsert_z (ikey kx) (to_gval (snd kx)) a) (fun kx => exists i, fst kx = KInt kk i /\ scalar_okb kk i = true) kvs);
      [|intros a x [i [Hi _]]; unfold ikey; rewrite Hi; reflexivity|exact Hs].
    rewrite (fold_upsert_z ikey (fun kx => to_gval (snd kx)) kvs []); [reflexivity|].
    cbn [map app].
    assert (Em : map ikey kvs = map (fun k => match k with KInt _ i => to_s 64 i | KStr _ => 0 end) (map fst kvs)) by (rewrite map_map; reflexivity).
    rewrite Em. apply (nodupb_map_inj mkey_eqb Z.eqb); [|exact Hnd].
    intros x y Hx Hy Hb. apply in_map_iff in Hx. destruct Hx as [kx [<- Hkx]]. apply in_map_iff in Hy. destruct Hy as [ky [<- Hky]].
    rewrite Forall_forall in Hs. destruct (Hs _ Hkx) as [i1 [E1 O1]]. destruct (Hs _ Hky) as [i2 [E2 O2]]. rewrite E1, E2 in *.
    apply Z.eqb_eq in Hb. pose proof (to_s64_inj_okb kk i1 i2 Hki O1 O2 Hb) as Ei. subst i2. cbn [mkey_eqb]. rewrite !Z.eqb_refl. reflexivity. }
  rewrite E. destruct kvs as [|[k0 x0] kvs']; [contradiction|]. inversion Hs as [|? ? [i [Hi _]] _]; subst. cbn [fst] in Hi. subst k0. reflexivity.
Qed.

Lemma sval_bytes_i S t x : wf_fld S LSingular t x = true -> type_numeric t = false -> exists b, sval x = WBytes b.
Proof.
  intros H Hn. destruct x as [k v|k b|fs| |]; cbn [wf_fld] in H; try discriminate.
  - destruct t as [k'|]; [|discriminate]. apply andb_true_iff in H as [H _]. apply andb_true_iff in H as [Hk Hnum].
    apply Z.eqb_eq in Hk. subst k'. cbn [type_numeric] in Hn. congruence.
  - eexists; reflexivity.
  - eexists; reflexivity.
Qed.

(* ------------------------------------------------------------------ the induction over the nesting of nodes *)
Section Main.
  Variable S : schema.
  Hypothesis HS : schema_okb S = true.
  Hypothesis HP : schema_packed_okb S = true.

  (* LIST nodes: Interface() decides packed-ness by the element type (type_numeric), so the declared label must agree;
     MAP nodes: the key kind is string or one ReadInt reads; both are reached through a field number *)
  Definition label_ok (lbl : flabel) (t : ftype) (num : Z) : Prop :=
    match lbl with
    | LSingular => True
    | LRepeated p => p = type_numeric t /\ 1 <= num <= MAX_FIELD_NUMBER
    | LMap kk => (kk =? 9) || kind_is_int kk = true /\ 1 <= num <= MAX_FIELD_NUMBER
    end.

  Definition good (rec : anode -> ires) (n : nat) : Prop :=
    forall lbl t num v, (height v <= n)%nat -> wf_fld S lbl t v = true -> label_ok lbl t num ->
      plen (node_raw lbl num v) < 9223372036854775808 -> rec (vnode lbl t num v) = IOk (to_gval v).

  (* the field loop of a message node, from the first field (root: pre = []; nested: pre = the length prefix) *)
  Lemma iface_msg_loop rec n name md fs pre :
    good rec n -> find_msg S name = Some md -> wf_fld S LSingular (TMsg name) (VMsg fs) = true ->
    (height (VMsg fs) <= Datatypes.S n)%nat -> plen (pre ++ encode_msg fs) < 9223372036854775808 ->
    if_msg all_fixes rec (Datatypes.S (length (pre ++ encode_msg fs))) md (pre ++ encode_msg fs) (plen pre) [] = IOk (to_gval (VMsg fs)).
  Proof.
    intros Hg Hfm Hwf Hh Hlen. destruct (wf_msg_facts _ _ _ Hwf) as [md' [Hfm' [Hnd [_ Hfs]]]].
    rewrite Hfm in Hfm'. inversion Hfm'; subst md'. clear Hfm'.
    assert (Hfu : (length fs <= length (pre ++ encode_msg fs))%nat) by (rewrite app_length; pose proof (i_encode_msg_len _ _ _ Hfs); lia).
    destruct (i_fuel_split _ _ Hfu) as [f Ef]. rewrite Ef.
    rewrite (if_msg_fields rec S md fs pre f [] Hfs Hnd Hlen).
    - rewrite (fold_upsert_z fst (fun nv => to_gval (snd nv)) fs []) by exact Hnd. reflexivity.
    - apply Forall_forall. intros [m x] Hin fd Hfd. cbn [fst snd] in *.
      unfold fields_wf in Hfs. rewrite Forall_forall in Hfs. destruct (Hfs _ Hin) as [fd' [Hfd' [Hm Hv]]]. cbn [fst snd] in *.
      rewrite Hfd in Hfd'. inversion Hfd'; subst fd'. clear Hfd'.
      apply Hg.
      + cbn [height] in Hh. pose proof (fold_max_le (fun nv => height (snd nv)) fs (m, x) Hin). cbn [snd] in *. lia.
      + exact Hv.
      + pose proof (schema_md _ _ _ HS Hfm) as Hmd. unfold mdesc_okb in Hmd. apply andb_true_iff in Hmd as [_ Hfo].
        assert (Hfin : In fd (md_fields md)) by (unfold find_field in Hfd; apply find_some in Hfd; tauto).
        assert (Hmin : In md S) by (unfold find_msg in Hfm; apply find_some in Hfm; tauto).
        pose proof HP as HP'. unfold schema_packed_okb in HP'. rewrite forallb_forall in HP'. pose proof (HP' _ Hmin) as Hpk.
        rewrite forallb_forall in Hpk, Hfo.
        specialize (Hpk _ Hfin). specialize (Hfo _ Hfin). unfold field_packed_okb in Hpk. unfold field_okb in Hfo.
        unfold label_ok. destruct (fd_label fd); [exact I|split; [apply eqb_prop; exact Hpk|exact Hm]|split; [exact Hfo|exact Hm]].
      + pose proof (node_raw_le S _ _ m x Hv). pose proof (field_raw_le fs m x Hin). rewrite plen_app in Hlen. pose proof (plen_nonneg pre). lia.
  Qed.

  Lemma node_step rec n : good rec n -> good (interface_node all_fixes S rec) (Datatypes.S n).
  Proof.
    intros Hg lbl t num v Hh Hwf Hlo Hlen. destruct lbl as [|p|kk].
    - (* singular *)
      destruct (wf_singular_facts _ _ _ Hwf) as [Hw [Hwt [[Htt1 Htt2] Ee]]].
      destruct v as [k x|k b|fs|?|?]; try (cbn [wf_fld] in Hwf; discriminate).
      + (* scalar *)
        assert (Hnm : kind_of_type t <> K_MESSAGE).
        { destruct t as [k'|]; [|cbn [wf_fld] in Hwf; discriminate]. cbn [kind_of_type]. intros ->. cbn [wf_fld] in Hwf.
          apply andb_true_iff in Hwf as [Hwf _]. apply andb_true_iff in Hwf as [Ek Hnum]. apply Z.eqb_eq in Ek. subst k. vm_compute in Hnum. discriminate Hnum. }
        unfold interface_node, vnode. cbn [an_t an_raw node_type node_raw].
        destruct (Z.eqb_spec (kind_of_type t) K_MESSAGE); [contradiction|].
        destruct (Z.eqb_spec (kind_of_type t) T_LIST); [contradiction|].
        destruct (Z.eqb_spec (kind_of_type t) T_MAP); [contradiction|].
        apply (scalar_interface_ok S t _ Hwf). exact I.
      + (* string / bytes *)
        assert (Hnm : kind_of_type t <> K_MESSAGE).
        { destruct t as [k'|]; [|cbn [wf_fld] in Hwf; discriminate]. cbn [kind_of_type]. intros ->. cbn [wf_fld] in Hwf.
          apply andb_true_iff in Hwf as [Hwf _]. apply andb_true_iff in Hwf as [Ek Hnum]. apply Z.eqb_eq in Ek. subst k. vm_compute in Hnum. discriminate Hnum. }
        unfold interface_node, vnode. cbn [an_t an_raw node_type node_raw].
        destruct (Z.eqb_spec (kind_of_type t) K_MESSAGE); [contradiction|].
        destruct (Z.eqb_spec (kind_of_type t) T_LIST); [contradiction|].
        destruct (Z.eqb_spec (kind_of_type t) T_MAP); [contradiction|].
        apply (scalar_interface_ok S t _ Hwf). exact I.
      + (* nested message *)
        destruct t as [|name]; [cbn [wf_fld] in Hwf; discriminate|].
        destruct (wf_msg_facts _ _ _ Hwf) as [md [Hfm [_ [Hl64 _]]]].
        unfold interface_node, vnode. cbn [an_t an_raw an_root an_ty node_type node_raw kind_of_type msg_of].
        change (K_MESSAGE =? K_MESSAGE) with true. cbv iota. rewrite Hfm.
        cbn [node_raw] in Hlen. rewrite Ee in *. cbn [sval wenc_val] in *.
        set (body := encode_msg fs) in *. set (lenb := varint_enc (plen body)) in *.
        pose proof (plen_nonneg body) as Hb0.
        assert (Hal : aread_length (lenb ++ body) 0 = Some (to_s 64 (plen body), plen lenb)).
        { unfold aread_length. pose proof (cvar_enc [] (plen body) body (conj Hb0 Hl64)) as Hc. cbn [app] in Hc.
          change (plen (@nil Z)) with 0 in Hc. fold lenb in Hc. rewrite Hc. reflexivity. }
        rewrite Hal. apply (iface_msg_loop rec n name md fs lenb Hg Hfm Hwf Hh Hlen).
    - (* list *)
      destruct v as [| | |q vs|]; try (cbn [wf_fld] in Hwf; discriminate).
      destruct Hlo as [Hp Hn].
      destruct (wf_list_facts _ _ _ _ _ num Hwf) as [Hq [Hne [Hall Hshape]]].
      cbn [node_raw] in Hlen.
      assert (Hel : Forall (fun x => rec (enode t x) = IOk (to_gval x)) vs).
      { apply Forall_forall. intros x Hx. change (enode t x) with (vnode LSingular t 0 x). apply Hg.
        - cbn [height] in Hh. pose proof (fold_max_le height vs x Hx). lia.
        - rewrite Forall_forall in Hall. apply Hall. exact Hx.
        - exact I.
        - cbn [node_raw]. pose proof (elem_raw_le_list S p t q vs num x Hwf Hx). lia. }
      unfold interface_node, vnode. cbn [an_t an_raw an_lbl an_ty node_type node_raw].
      change (T_LIST =? K_MESSAGE) with false. change (T_LIST =? T_LIST) with true. cbv iota.
      destruct q.
      + destruct Hshape as [k [xs [Et [Hk [Evs [Hxs [Ew Hpl]]]]]]]. subst t vs. cbn [type_numeric]. rewrite Hk.
        rewrite Ew in *. set (tg := tagb num 2). set (lenb := varint_enc (plen (penc k xs))).
        assert (E0 : wenc [(num, WBytes (penc k xs))] = [] ++ tg ++ lenb ++ penc k xs).
        { unfold wenc. cbn [flat_map]. rewrite app_nil_r, wenc_field_tagb. reflexivity. }
        set (buf := wenc [(num, WBytes (penc k xs))]) in *.
        assert (Hc : ctag buf 0 = Some (num, 2, plen tg)).
        { rewrite E0. change 0 with (plen (@nil Z)). unfold tg. apply ctag_enc; [exact Hn|unfold wt_ok; auto]. }
        rewrite Hc. change (2 =? 2) with true. cbn [negb]. cbv iota.
        pose proof (plen_nonneg (penc k xs)) as Hpn.
        assert (Hal : aread_length buf (plen tg) = Some (to_s 64 (plen (penc k xs)), plen (tg ++ lenb))).
        { unfold aread_length. replace buf with (tg ++ lenb ++ penc k xs ++ []) by (rewrite E0, app_nil_r; reflexivity).
          unfold lenb. rewrite cvar_enc by lia. fold lenb. rewrite !plen_app. reflexivity. }
        rewrite Hal.
        assert (Eb : buf = (tg ++ lenb) ++ penc k xs) by (rewrite E0, <- app_assoc; reflexivity).
        assert (Hfu : (length xs <= length buf)%nat).
        { rewrite Eb, app_length. pose proof (i_penc_len k xs). lia. }
        destruct (i_fuel_split _ _ Hfu) as [f Ef]. rewrite Ef.
        rewrite Forall_map in Hel.
        rewrite Eb. unfold elem_wt. cbn [kind_of_type].
        rewrite (if_list_packed rec k xs (tg ++ lenb) f [] Hk Hxs Hel). reflexivity.
      + symmetry in Hq. rewrite <- Hp in Hq. assert (Hnn : type_numeric t = false) by (destruct p; [discriminate Hq|congruence]).
        rewrite Hnn. rewrite Hshape in *.
        assert (Hw : wf_wire (map (pair num) (map sval vs)) = true).
        { destruct (wfld_fvals _ _ _ _ num Hwf) as [E _]. rewrite Hshape in E. rewrite E. apply map_pair_wf; [exact Hn|apply (fvals_wf _ _ _ _ Hwf)]. }
        destruct vs as [|x0 vs']; [contradiction|].
        assert (Hx0 : wf_fld S LSingular t x0 = true) by (inversion Hall; assumption).
        destruct (sval_bytes_i _ _ _ Hx0 Hnn) as [b0 Eb0].
        set (buf := wenc (map (pair num) (map sval (x0 :: vs')))) in *.
        assert (Hc : exists tn, ctag buf 0 = Some (num, 2, tn)).
        { unfold buf. cbn [map]. rewrite Eb0. rewrite wenc_cons.
          assert (Hf : wf_wfield (num, WBytes b0) = true).
          { cbn [map] in Hw. rewrite Eb0 in Hw. cbn [wf_wire forallb] in Hw. apply andb_true_iff in Hw as [Hf _]. exact Hf. }
          destruct (record_skip [] (num, WBytes b0) (wenc (map (pair num) (map sval vs'))) Hf) as [Ht _].
          cbn [app fst snd wt_of_wval] in Ht. change (plen (@nil Z)) with 0 in Ht. eexists. exact Ht. }
        destruct Hc as [tn Hc]. rewrite Hc. change (2 =? 2) with true. cbn [negb]. cbv iota.
        assert (Hfu : (length (x0 :: vs') <= length buf)%nat).
        { pose proof (i_wenc_len (map (pair num) (map sval (x0 :: vs')))) as H. rewrite !map_length in H. exact H. }
        destruct (i_fuel_split _ _ Hfu) as [f Ef]. rewrite Ef.
        pose proof (if_list_unpacked rec S t (x0 :: vs') [] f num [] Hall Hw Hel) as H.
        cbn [app] in H. change (plen (@nil Z)) with 0 in H. exact H.
    - (* map *)
      destruct v as [| | | |kvs]; try (cbn [wf_fld] in Hwf; discriminate).
      destruct Hlo as [Hkk Hn].
      destruct (wf_map_facts _ _ _ _ num Hwf) as [Hne [Ew Hall]].
      cbn [node_raw] in Hlen.
      assert (Hel : Forall (fun kx => rec (enode t (snd kx)) = IOk (to_gval (snd kx))) kvs).
      { apply Forall_forall. intros kx Hx. change (enode t (snd kx)) with (vnode LSingular t 0 (snd kx)). apply Hg.
        - cbn [height] in Hh. pose proof (fold_max_le (fun kx => height (snd kx)) kvs kx Hx). cbn beta in *. lia.
        - rewrite Forall_forall in Hall. destruct (Hall _ Hx) as [_ [Hv _]]. exact Hv.
        - exact I.
        - cbn [node_raw]. pose proof (elem_raw_le_map S kk t kvs num kx Hwf Hx). lia. }
      assert (Hnd : nodupb mkey_eqb (map fst kvs) = true).
      { cbn [wf_fld] in Hwf. apply andb_true_iff in Hwf as [Hwf _]. apply andb_true_iff in Hwf as [_ Hnd]. exact Hnd. }
      assert (Hks : Forall (fun kx => key_okb kk (fst kx) = true) kvs).
      { eapply Forall_impl; [|exact Hall]. intros kx [Hk _]. exact Hk. }
      unfold interface_node, vnode. cbn [an_t an_raw an_lbl an_ty node_type node_raw].
      change (T_MAP =? K_MESSAGE) with false. change (T_MAP =? T_LIST) with false. change (T_MAP =? T_MAP) with true. cbv iota.
      rewrite Hkk. cbn [negb]. cbv iota.
      rewrite Ew in *.
      destruct kvs as [|kx0 kvs']; [contradiction|].
      set (buf := wenc (map (erec num) (map entry_of (kx0 :: kvs')))) in *.
      assert (Hc : exists tn, ctag buf 0 = Some (num, 2, tn)).
      { unfold buf. cbn [map]. rewrite wenc_cons, erec_enc, <- app_assoc.
        pose proof (ctag_enc [] num 2 (evalb (entry_of kx0) ++ wenc (map (erec num) (map entry_of kvs'))) Hn) as Ht.
        cbn [app] in Ht. change (plen (@nil Z)) with 0 in Ht. eexists. apply Ht. unfold wt_ok. auto. }
      destruct Hc as [tn Hc]. rewrite Hc. change (2 =? 2) with true. cbn [negb]. cbv iota.
      assert (Hfu : (length (kx0 :: kvs') <= length buf)%nat).
      { pose proof (i_wenc_len (map (erec num) (map entry_of (kx0 :: kvs')))) as H. rewrite !map_length in H. exact H. }
      destruct (i_fuel_split _ _ Hfu) as [f Ef]. rewrite Ef.
      pose proof (if_map_run rec S kk t (kx0 :: kvs') [] f num [] [] Hkk Hn Hall Hel) as H.
      cbn [app] in H. change (plen (@nil Z)) with 0 in H. fold buf in H. rewrite H. f_equal.
      destruct (Z.eqb_spec kk 9) as [->|Hk9].
      + apply map_gval_str; assumption.
      + assert (H9 : (kk =? 9) = false) by (apply Z.eqb_neq; exact Hk9).
        cbn [orb] in Hkk. apply (map_gval_int kk); assumption.
  Qed.

  Lemma a_interface_good n : good (a_interface n all_fixes S) n.
  Proof.
    induction n as [|n IH].
    - intros lbl t num v Hh. exfalso. destruct v; cbn [height] in Hh; lia.
    - change (a_interface (Datatypes.S n) all_fixes S) with (interface_node all_fixes S (a_interface n all_fixes S)).
      apply node_step. exact IH.
  Qed.
End Main.

(* ------------------------------------------------------------------ the theorems *)
(* Interface() does not look at the element count or the field number stored in the node *)
Lemma a_interface_size_num fuel S tt raw sz sz' r lbl t num num' :
  a_interface fuel all_fixes S (mk_anode tt raw sz r lbl t num) = a_interface fuel all_fixes S (mk_anode tt raw sz' r lbl t num').
Proof. destruct fuel; reflexivity. Qed.

(* every node a lookup / an iteration returns for a well-formed value: fuel = the nesting of nodes below it suffices *)
Theorem a_interface_value S lbl t num v fuel :
  schema_okb S = true -> schema_packed_okb S = true ->
  wf_fld S lbl t v = true -> label_ok lbl t num -> plen (node_raw lbl num v) < 2 ^ 63 ->
  (height v <= fuel)%nat ->
  a_interface fuel all_fixes S (vnode lbl t num v) = IOk (to_gval v).
Proof.
  intros HS HP Hwf Hlo Hlen Hh. change (2 ^ 63) with 9223372036854775808 in Hlen.
  apply (a_interface_good S HS HP fuel lbl t num v Hh Hwf Hlo Hlen).
Qed.

(* the root message *)
Theorem a_interface_root S root m fuel :
  schema_okb S = true -> schema_packed_okb S = true ->
  wf_msg S root m = true -> plen (encode_msg m) < 2 ^ 63 ->
  (height (VMsg m) <= fuel)%nat ->
  a_interface fuel all_fixes S (root_node root (encode_msg m)) = IOk (to_gval (VMsg m)).
Proof.
  intros HS HP Hwf Hlen Hh. change (2 ^ 63) with 9223372036854775808 in Hlen.
  destruct fuel as [|f]; [cbn [height] in Hh; lia|].
  unfold wf_msg in Hwf. destruct (wf_msg_facts _ _ _ Hwf) as [md [Hfm _]].
  cbn [a_interface]. unfold interface_node, root_node. cbn [an_t an_raw an_root an_ty msg_of].
  change (K_MESSAGE =? K_MESSAGE) with true. cbv iota. rewrite Hfm.
  pose proof (iface_msg_loop S HS HP (a_interface f all_fixes S) f root md m [] (a_interface_good S HS HP f) Hfm Hwf Hh) as H.
  cbn [app] in H. change (plen (@nil Z)) with 0 in H. apply H. exact Hlen.
Qed.

(* nested message nodes *)
Theorem a_interface_msg S name fs num fuel :
  schema_okb S = true -> schema_packed_okb S = true ->
  wf_fld S LSingular (TMsg name) (VMsg fs) = true -> plen (encode_elem (VMsg fs)) < 2 ^ 63 ->
  (height (VMsg fs) <= fuel)%nat ->
  a_interface fuel all_fixes S (mk_anode K_MESSAGE (encode_elem (VMsg fs)) 0 false LSingular (TMsg name) num) = IOk (to_gval (VMsg fs)).
Proof. intros HS HP Hwf Hlen Hh. apply (a_interface_value S LSingular (TMsg name) num (VMsg fs) fuel HS HP Hwf I Hlen Hh). Qed.

(* LIST nodes, packed or unpacked (the declared packed-ness is the one Interface() assumes: type_numeric of the element type) *)
Theorem a_interface_list S p t num sz q vs fuel :
  schema_okb S = true -> schema_packed_okb S = true ->
  p = type_numeric t -> 1 <= num <= MAX_FIELD_NUMBER ->
  wf_fld S (LRepeated p) t (VList q vs) = true -> plen (wenc (wfld num (VList q vs))) < 2 ^ 63 ->
  (height (VList q vs) <= fuel)%nat ->
  a_interface fuel all_fixes S (mk_anode T_LIST (wenc (wfld num (VList q vs))) sz false (LRepeated p) t num) = IOk (to_gval (VList q vs)).
Proof.
  intros HS HP Hp Hn Hwf Hlen Hh. rewrite (a_interface_size_num fuel S T_LIST _ sz 0 false (LRepeated p) t num num).
  apply (a_interface_value S (LRepeated p) t num (VList q vs) fuel HS HP Hwf (conj Hp Hn) Hlen Hh).
Qed.

(* MAP nodes, string or integer keys *)
Theorem a_interface_map S kk t num sz kvs fuel :
  schema_okb S = true -> schema_packed_okb S = true ->
  (kk =? 9) || kind_is_int kk = true -> 1 <= num <= MAX_FIELD_NUMBER ->
  wf_fld S (LMap kk) t (VMap kvs) = true -> plen (wenc (wfld num (VMap kvs))) < 2 ^ 63 ->
  (height (VMap kvs) <= fuel)%nat ->
  a_interface fuel all_fixes S (mk_anode T_MAP (wenc (wfld num (VMap kvs))) sz false (LMap kk) t num) = IOk (to_gval (VMap kvs)).
Proof.
  intros HS HP Hkk Hn Hwf Hlen Hh. rewrite (a_interface_size_num fuel S T_MAP _ sz 0 false (LMap kk) t num num).
  apply (a_interface_value S (LMap kk) t num (VMap kvs) fuel HS HP Hwf (conj Hkk Hn) Hlen Hh).
Qed.

(* scalars / strings / bytes as nodes (fuel 1 suffices) *)
Theorem a_interface_scalar S t v num fuel :
  wf_fld S LSingular t v = true -> (match v with VScalar _ _ | VBytes _ _ => True | _ => False end) ->
  (1 <= fuel)%nat ->
  a_interface fuel all_fixes S (mk_anode (kind_of_type t) (encode_elem v) 0 false LSingular t num) = IOk (to_gval v).
Proof.
  intros Hwf Hv Hf. destruct fuel as [|f]; [lia|].
  destruct (wf_singular_facts _ _ _ Hwf) as [_ [_ [[Htt1 Htt2] _]]].
  assert (Hnm : kind_of_type t <> K_MESSAGE).
  { destruct v as [k x|k b| | |]; try contradiction; (destruct t as [k'|]; [|cbn [wf_fld] in Hwf; discriminate]); cbn [kind_of_type]; intros ->; cbn [wf_fld] in Hwf;
    apply andb_true_iff in Hwf as [Hwf _]; apply andb_true_iff in Hwf as [Ek Hnum]; apply Z.eqb_eq in Ek; subst k; vm_compute in Hnum; discriminate Hnum. }
  cbn [a_interface]. unfold interface_node. cbn [an_t an_raw].
  destruct (Z.eqb_spec (kind_of_type t) K_MESSAGE); [contradiction|].
  destruct (Z.eqb_spec (kind_of_type t) T_LIST); [contradiction|].
  destruct (Z.eqb_spec (kind_of_type t) T_MAP); [contradiction|].
  apply (scalar_interface_ok S t v Hwf Hv).
Qed.

(* schema_packed_okb is needed: a repeated numeric field declared [packed = false] is written unpacked (wire type 0),
   and Interface() on its LIST node, which decides packed-ness by the element type alone, answers an error *)
Example a_interface_unpacked_numeric_refuted :
  let S_u : schema := [mk_mdesc [77] [mk_fdesc 2 [98] [98] (LRepeated false) (TScalar 5)]] in
  let m_u : pmsg := [(2, VList false [VScalar 5 7; VScalar 5 8])] in
  schema_okb S_u = true /\ schema_packed_okb S_u = false /\ wf_msg S_u [77] m_u = true /\
  a_interface 5 all_fixes S_u (root_node [77] (encode_msg m_u)) = IErr /\
  to_gval (VMsg m_u) = GMapI [(2, GList [GInt 7; GInt 8])].
Proof. vm_compute. repeat split. Qed.
