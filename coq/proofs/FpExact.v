(* Correct rounding on exactly representable inputs: fp_mag returns the bits of a value that is already a member of the format.
   Generic in the format (p, emin); used for binary64 (53, -1074) and binary32 (24, -149). *)
From Coq Require Import ZArith List Bool Lia.
From DG Require Import Json Num.
Import ListNotations.
Local Open Scope Z_scope.

Definition fp_tail (p emin : Z) (N D : Z) : Z :=
  let inf := (2 * (2 - emin - p) + 1) * 2 ^ (p - 1) in
  let k0 := Z.log2 N - Z.log2 D - p in
  let k1 := Z.max k0 emin in
  let q1 := if 0 <=? k1 then N / (D * 2 ^ k1) else (N * 2 ^ (- k1)) / D in
  let k := if 2 ^ p <=? q1 then k1 + 1 else k1 in
  let num := if 0 <=? k then N else N * 2 ^ (- k) in
  let den := if 0 <=? k then D * 2 ^ k else D in
  let q := num / den in
  let r := num mod den in
  let q' := if 2 * r <? den then q else if den <? 2 * r then q + 1 else if Z.even q then q else q + 1 in
  let bits := (k - emin) * 2 ^ (p - 1) + q' in
  if inf <=? bits then inf else bits.

Lemma fp_mag_unfold p emin m e : fp_mag p emin m e =
  if m <=? 0 then 0 else
  if e + Z.log2 m / 3 + 1 <? (emin - p) / 3 - 8 then 0 else
  if (2 - emin) / 3 + 8 <? e then (2 * (2 - emin - p) + 1) * 2 ^ (p - 1) else
  fp_tail p emin (if 0 <=? e then m * 10 ^ e else m) (if 0 <=? e then 1 else 10 ^ (- e)).
Proof. reflexivity. Qed.

Lemma pow2_pos n : 0 <= n -> 0 < 2 ^ n.
Proof. intros. apply Z.pow_pos_nonneg; lia. Qed.

(* normal numbers: value = m * 2^(a-d) with a full-width mantissa *)
Lemma fp_tail_exact p emin m A a d : 2 <= p -> 0 < A -> 0 <= a -> 0 <= d -> 2 ^ (p - 1) <= m < 2 ^ p ->
  emin <= a - d <= 3 - emin - 2 * p ->
  fp_tail p emin (m * A * 2 ^ a) (A * 2 ^ d) = (a - d - emin) * 2 ^ (p - 1) + m.
Proof.
  intros Hp HA Ha Hd Hm He.
  assert (HP : 0 < 2 ^ (p - 1)) by (apply pow2_pos; lia).
  assert (HP2 : 2 ^ p = 2 * 2 ^ (p - 1)).
  { rewrite <- Z.pow_succ_r by lia. f_equal. lia. }
  set (P := 2 ^ (p - 1)) in *.
  assert (Hm0 : 0 < m) by lia.
  assert (HmA : 0 < m * A) by (apply Z.mul_pos_pos; lia).
  assert (Lm : Z.log2 m = p - 1).
  { apply Z.log2_unique; [lia|]. replace (Z.succ (p - 1)) with p by lia. exact Hm. }
  pose proof (Z.log2_mul_below m A Hm0 HA) as Hb.
  pose proof (Z.log2_mul_above m A (Z.lt_le_incl _ _ Hm0) (Z.lt_le_incl _ _ HA)) as Hab.
  assert (LN : Z.log2 (m * A * 2 ^ a) = Z.log2 (m * A) + a) by (rewrite Z.log2_mul_pow2 by lia; lia).
  assert (LD : Z.log2 (A * 2 ^ d) = Z.log2 A + d) by (rewrite Z.log2_mul_pow2 by lia; lia).
  unfold fp_tail. rewrite LN, LD. fold P. rewrite HP2.
  set (e := a - d) in *.
  set (k0 := Z.log2 (m * A) + a - (Z.log2 A + d) - p).
  assert (Hk0 : k0 = e - 1 \/ k0 = e) by (unfold k0, e; lia).
  assert (Hk1 : exists j, (j = 0 \/ j = 1) /\ Z.max k0 emin = e - j).
  { destruct Hk0 as [E|E]; rewrite E.
    - destruct (Z.eq_dec e emin) as [E2|E2]; [exists 0; split; [left; reflexivity|lia] | exists 1; split; [right; reflexivity|lia]].
    - exists 0. split; [left; reflexivity|lia]. }
  destruct Hk1 as (j & Hj & Hmax). rewrite Hmax. clear Hmax Hk0. clearbody k0.
  assert (Hq1 : (if 0 <=? e - j then m * A * 2 ^ a / (A * 2 ^ d * 2 ^ (e - j)) else m * A * 2 ^ a * 2 ^ (- (e - j)) / (A * 2 ^ d)) = m * 2 ^ j).
  { destruct (Z.leb_spec 0 (e - j)) as [Hq|Hn].
    - replace (m * A * 2 ^ a) with (m * 2 ^ j * (A * 2 ^ d * 2 ^ (e - j))).
      + apply Z.div_mul. pose proof (pow2_pos d Hd). pose proof (pow2_pos (e - j) Hq). nia.
      + assert (Ea : 2 ^ a = 2 ^ j * (2 ^ d * 2 ^ (e - j))).
        { rewrite <- !Z.pow_add_r by lia. f_equal. unfold e. lia. }
        rewrite Ea. ring.
    - replace (m * A * 2 ^ a * 2 ^ (- (e - j))) with (m * 2 ^ j * (A * 2 ^ d)).
      + apply Z.div_mul. pose proof (pow2_pos d Hd). nia.
      + assert (Ea : 2 ^ a * 2 ^ (- (e - j)) = 2 ^ j * 2 ^ d).
        { rewrite <- !Z.pow_add_r by lia. f_equal. unfold e. lia. }
        replace (m * A * 2 ^ a * 2 ^ (- (e - j))) with (m * A * (2 ^ a * 2 ^ (- (e - j)))) by ring.
        rewrite Ea. ring. }
  rewrite Hq1. clear Hq1.
  assert (Hk : (if 2 * P <=? m * 2 ^ j then e - j + 1 else e - j) = e).
  { destruct Hj as [->| ->].
    - change (2 ^ 0) with 1. destruct (Z.leb_spec (2 * P) (m * 1)); lia.
    - change (2 ^ 1) with 2. destruct (Z.leb_spec (2 * P) (m * 2)); lia. }
  rewrite Hk. clear Hk.
  assert (Hqr : (if 0 <=? e then m * A * 2 ^ a else m * A * 2 ^ a * 2 ^ (- e)) = m * (if 0 <=? e then A * 2 ^ d * 2 ^ e else A * 2 ^ d)).
  { destruct (Z.leb_spec 0 e) as [Hq|Hn].
    - assert (Ea : 2 ^ a = 2 ^ d * 2 ^ e) by (rewrite <- Z.pow_add_r by lia; f_equal; unfold e; lia).
      rewrite Ea. ring.
    - assert (Ea : 2 ^ a * 2 ^ (- e) = 2 ^ d) by (rewrite <- Z.pow_add_r by lia; f_equal; unfold e; lia).
      replace (m * A * 2 ^ a * 2 ^ (- e)) with (m * A * (2 ^ a * 2 ^ (- e))) by ring. rewrite Ea. ring. }
  rewrite Hqr. clear Hqr.
  set (den := if 0 <=? e then A * 2 ^ d * 2 ^ e else A * 2 ^ d).
  assert (Hden : 0 < den).
  { unfold den. pose proof (pow2_pos d Hd). destruct (Z.leb_spec 0 e) as [Hq|Hn]; [pose proof (pow2_pos e Hq)|]; nia. }
  rewrite Z.div_mul by lia. rewrite Z.mod_mul by lia.
  change (2 * 0) with 0. destruct (Z.ltb_spec 0 den) as [_|]; [|lia].
  destruct (Z.leb_spec ((2 * (2 - emin - p) + 1) * P) ((e - emin) * P + m)) as [Hover|_]; [exfalso; nia|].
  reflexivity.
Qed.

(* subnormal numbers: value = m * 2^emin with a short mantissa *)
Lemma fp_tail_sub p emin m A a d : 2 <= p -> 0 < A -> 0 <= a -> 0 <= d -> 0 < m < 2 ^ (p - 1) -> a - d = emin -> emin < 0 ->
  3 - emin - 2 * p >= emin ->
  fp_tail p emin (m * A * 2 ^ a) (A * 2 ^ d) = m.
Proof.
  intros Hp HA Ha Hd Hm He Hemin Hrange.
  assert (HP : 0 < 2 ^ (p - 1)) by (apply pow2_pos; lia).
  assert (HP2 : 2 ^ p = 2 * 2 ^ (p - 1)).
  { rewrite <- Z.pow_succ_r by lia. f_equal. lia. }
  set (P := 2 ^ (p - 1)) in *.
  assert (Hm0 : 0 < m) by lia.
  assert (Lm : Z.log2 m < p - 1) by (apply Z.log2_lt_pow2; [lia|fold P; lia]).
  pose proof (Z.log2_mul_above m A (Z.lt_le_incl _ _ Hm0) (Z.lt_le_incl _ _ HA)) as Hab.
  assert (HmA : 0 < m * A) by (apply Z.mul_pos_pos; lia).
  assert (LN : Z.log2 (m * A * 2 ^ a) = Z.log2 (m * A) + a) by (rewrite Z.log2_mul_pow2 by lia; lia).
  assert (LD : Z.log2 (A * 2 ^ d) = Z.log2 A + d) by (rewrite Z.log2_mul_pow2 by lia; lia).
  unfold fp_tail. rewrite LN, LD. fold P. rewrite HP2.
  rewrite Z.max_r by lia.
  assert (Ea : 2 ^ a * 2 ^ (- emin) = 2 ^ d) by (rewrite <- Z.pow_add_r by lia; f_equal; lia).
  assert (HD : 0 < A * 2 ^ d) by (pose proof (pow2_pos d Hd); nia).
  assert (Hnum : m * A * 2 ^ a * 2 ^ (- emin) = m * (A * 2 ^ d)).
  { replace (m * A * 2 ^ a * 2 ^ (- emin)) with (m * A * (2 ^ a * 2 ^ (- emin))) by ring. rewrite Ea. ring. }
  destruct (Z.leb_spec 0 emin) as [H0|H0]; [lia|].
  rewrite Hnum. rewrite Z.div_mul by lia.
  destruct (Z.leb_spec (2 * P) m) as [|_]; [lia|].
  destruct (Z.leb_spec 0 emin) as [|_]; [lia|].
  rewrite Hnum. rewrite Z.div_mul by lia. rewrite Z.mod_mul by lia.
  change (2 * 0) with 0. destruct (Z.ltb_spec 0 (A * 2 ^ d)) as [_|]; [|lia].
  rewrite Z.sub_diag, Z.mul_0_l, Z.add_0_l.
  destruct (Z.leb_spec ((2 * (2 - emin - p) + 1) * P) m) as [|_]; [exfalso; nia|]. reflexivity.
Qed.
