(* C06 — proofs about the explicit-cursor machines of model/Robust.v (arbitrary input bytes).
   Stated in props/Properties_C06.v. *)
From Coq Require Import ZArith List Bool Lia.
From DG Require Import ProtoWireRef ProtoWireRefProofs ThriftWire ThriftEnvelope Gen_protowire GenProtowireProofs Robust.
Import ListNotations.
Local Open Scope Z_scope.

(* ------------------------------------------------------------------ specification predicates *)

(* the cursor is inside the buffer and every index ever fetched was inside the buffer *)
Definition inv (bs : list Z) (s : st) : Prop :=
  0 <= cur s <= zlen bs /\ Forall (fun i => 0 <= i < zlen bs) (tr s).

(* a result is safe: no over-read, and the final state (error and panic states included) satisfies [inv] *)
Definition safe (bs : list Z) (o : out) : Prop :=
  match o with
  | Ok s | Er _ s | Panic s => inv bs s
  | OverRead _ => False
  | OutOfFuel => True
  end.

Lemma inv_st0 bs : inv bs st0.
Proof. unfold inv, st0, zlen; cbn [cur tr]. split; [lia | constructor]. Qed.

(* ------------------------------------------------------------------ primitives *)

Section Prims.
Variable bs : list Z.

(* [s'] differs from [s] only by its read trace *)
Definition same (s s' : st) : Prop :=
  cur s' = cur s /\ cost s' = cost s /\ deep s' = deep s /\ inv bs s'.

Lemma same_refl s : inv bs s -> same s s.
Proof. unfold same; auto. Qed.

Ltac unf :=
  unfold same, inv, adv, charge, enter, logrd in *; cbn [cur cost deep tr] in *.
Ltac fin :=
  unf; repeat match goal with H : _ /\ _ |- _ => destruct H end;
  repeat split; try assumption; try lia.

Lemma rd1_some i : 0 <= i < zlen bs -> exists b, rd1 bs i = Some b /\ nth_error bs (Z.to_nat i) = Some b.
Proof.
  intros Hi. unfold rd1. destruct (Z.ltb_spec i 0); [lia|].
  destruct (nth_error bs (Z.to_nat i)) as [b|] eqn:E; [eauto|].
  apply nth_error_None in E. unfold zlen in Hi. lia.
Qed.

Lemma fetch_spec n : forall i acc s,
  inv bs s -> 0 <= i -> i + Z.of_nat n <= zlen bs ->
  exists v s', fetch bs n i acc s = Some (v, s') /\ same s s'.
Proof.
  induction n as [|n IH]; intros i acc s Hs Hi Hn; cbn [fetch].
  - exists acc, s. split; [reflexivity | apply same_refl; assumption].
  - destruct (rd1_some i) as (b & Hb & _); [lia|]. rewrite Hb.
    destruct (IH (i + 1) (acc * 256 + b) (logrd i s)) as (v & s' & Hf & Hsame); try lia.
    + fin. constructor; [lia | assumption].
    + exists v, s'. split; [assumption|]. fin.
Qed.

Lemma fetch1_value i s :
  inv bs s -> 0 <= i < zlen bs ->
  exists y s', fetch bs 1 i 0 s = Some (y, s') /\ same s s' /\ nth_error bs (Z.to_nat i) = Some y.
Proof.
  intros Hs Hi. cbn [fetch]. destruct (rd1_some i) as (b & Hb & Hn); [lia|]. rewrite Hb.
  exists b, (logrd i s). split; [f_equal; f_equal; lia|]. split; [|assumption].
  fin. constructor; [lia | assumption].
Qed.

Lemma get_wp (P : out -> Prop) n off s k :
  inv bs s -> 0 <= off -> cur s + off + Z.of_nat n <= zlen bs ->
  (forall v s', same s s' -> P (k v s')) ->
  P (get bs n off s k).
Proof.
  intros Hs Ho Hn Hk. unfold get.
  destruct (fetch_spec n (cur s + off) 0 s) as (v & s' & Hf & Hsame); try assumption; [fin|].
  rewrite Hf. apply Hk. assumption.
Qed.

Lemma next_be_wp (P : out -> Prop) n s k :
  inv bs s -> P (Er E_EOF s) ->
  (forall v s', same s s' -> cur s + Z.of_nat n <= zlen bs -> P (k v (adv (Z.of_nat n) s'))) ->
  P (next_be bs n s k).
Proof.
  intros Hs He Hk. unfold next_be.
  destruct (Z.gtb_spec (cur s + Z.of_nat n) (zlen bs)); [assumption|].
  apply get_wp; [assumption | lia | lia |]. intros v s' Hsame. apply Hk; [assumption | lia].
Qed.

Lemma skipn_wp (P : out -> Prop) n s :
  P (Er E_EOF s) -> (cur s + n <= zlen bs -> P (Ok (adv n s))) -> P (skipn_m bs n s).
Proof.
  intros He Hk. unfold skipn_m. destruct (Z.gtb_spec (cur s + n) (zlen bs)); [assumption|].
  apply Hk. lia.
Qed.

Lemma skipstr_wp (P : out -> Prop) s :
  inv bs s ->
  (forall e s', same s s' -> P (Er e s')) ->
  (forall sz s', same s s' -> 0 <= sz -> cur s + 4 + sz <= zlen bs -> P (Ok (adv (4 + sz) s'))) ->
  P (skipstr_m bs s).
Proof.
  intros Hs He Hk. unfold skipstr_m.
  destruct (Z.gtb_spec (cur s + 4) (zlen bs)); [apply He, same_refl; assumption|].
  apply get_wp; [assumption | lia | lia |]. intros sz s' Hsame.
  destruct (Z.ltb_spec sz 0); [apply He; assumption|].
  destruct (Z.gtb_spec (cur s' + 4 + sz) (zlen bs)); [apply He; assumption|].
  apply Hk; [assumption | lia | fin].
Qed.

End Prims.

Ltac unf :=
  unfold same, inv, adv, charge, enter, logrd in *; cbn [cur cost deep tr] in *.
Ltac fin :=
  unf; repeat match goal with H : _ /\ _ |- _ => destruct H end;
  repeat split; try assumption; try lia.

(* ------------------------------------------------------------------ Thrift SkipGo *)

Section Skip.
Variable bs : list Z.

Definition sneed (k : stask) (s : st) : Z :=
  zlen bs - cur s + match k with KVal _ _ => 2 | KFields _ => 1 | _ => 3 end.
Definition sadv (k : stask) : Z :=
  match k with KVal _ _ => 1 | KFields _ => 1 | KElems n _ _ => Z.max n 0 | KPairs n _ _ _ => Z.max n 0 end.

(* combined postcondition of one run: cursor in bounds, cursor advance, nesting bound, no allocation,
   and fuel exhaustion only below the measure *)
Definition spost (f : nat) (k : stask) (s : st) (o : out) : Prop :=
  match o with
  | Ok s' => inv bs s' /\ cur s + sadv k <= cur s' /\ deep s' <= Z.max (deep s) skip_limit /\ cost s' = cost s
  | Er _ s' => inv bs s' /\ cur s <= cur s' /\ deep s' <= Z.max (deep s) skip_limit /\ cost s' = cost s
  | OverRead _ => False
  | Panic _ => False
  | OutOfFuel => Z.of_nat f < sneed k s
  end.

Ltac sfin := cbn [seq_out]; unfold spost, sneed, sadv in *; fin.

(* use the induction hypothesis at a recursive call and case on its result *)
Ltac srec IH k s s' :=
  let H := fresh "Hrec" in
  assert (H : spost _ k s (srun bs _ k s)) by (apply IH; sfin);
  destruct (srun bs _ k s) as [s'|? ?|?|?|]; cbn [seq_out]; [|sfin ..].
Ltac slast IH k s :=
  let H := fresh "Hrec" in
  assert (H : spost _ k s (srun bs _ k s)) by (apply IH; sfin);
  destruct (srun bs _ k s); solve [sfin].

Lemma srun_post : forall f k s, inv bs s -> spost f k s (srun bs f k s).
Proof.
  induction f as [|f IH]; intros k s Hs; [destruct k; cbn [srun]; sfin|].
  destruct k as [t d|d|n et d|n kt vt d]; cbn [srun]; cbv zeta.
  - (* KVal *)
    destruct (Z.leb_spec d 0); [sfin|].
    set (s0 := enter (skip_limit - d + 1) s).
    assert (Hc0 : cur s0 = cur s) by reflexivity.
    assert (Hk0 : cost s0 = cost s) by reflexivity.
    assert (Hd0 : deep s0 <= Z.max (deep s) skip_limit) by (subst s0; fin).
    assert (Hi0 : inv bs s0) by (subst s0; fin).
    clearbody s0.
    destruct (Z.gtb_spec (fixed_size t) 0).
    { apply skipn_wp; intros; sfin. }
    destruct (t =? T_STRING).
    { apply skipstr_wp; [assumption | intros; sfin | intros; sfin]. }
    destruct (t =? T_STRUCT).
    { slast IH (KFields d) s0. }
    destruct (t =? T_MAP).
    { destruct (Z.gtb_spec (cur s0 + 6) (zlen bs)); [sfin|].
      apply get_wp; [assumption | lia | lia |]. intros kt s1 E1.
      apply get_wp; [fin | lia | fin |]. intros vt s2 E2.
      apply get_wp; [fin | lia | fin |]. intros szu s3 E3.
      destruct (Z.ltb_spec (to_s 32 szu) 0); [sfin|].
      destruct (Z.gtb_spec (fixed_size kt) 0); destruct (Z.gtb_spec (fixed_size vt) 0); cbn [andb];
        try (slast IH (KPairs (to_s 32 szu) kt vt d) (adv 6 s3)).
      apply skipn_wp; intros; [sfin|].
      assert (0 <= to_s 32 szu * (fixed_size kt + fixed_size vt)) by nia. sfin. }
    destruct ((t =? T_SET) || (t =? T_LIST)); [|sfin].
    destruct (Z.gtb_spec (cur s0 + 5) (zlen bs)); [sfin|].
    apply get_wp; [assumption | lia | lia |]. intros et s1 E1.
    apply get_wp; [fin | lia | fin |]. intros szu s2 E2.
    destruct (Z.ltb_spec (to_s 32 szu) 0); [sfin|].
    destruct (Z.gtb_spec (fixed_size et) 0).
    { apply skipn_wp; intros; [sfin|].
      assert (0 <= to_s 32 szu * fixed_size et) by nia. sfin. }
    slast IH (KElems (to_s 32 szu) et d) (adv 5 s2).
  - (* KFields *)
    destruct (Z.gtb_spec (cur s + 1) (zlen bs)); [sfin|].
    apply get_wp; [assumption | lia | lia |]. intros tp s1 E1.
    destruct (tp =? 0); [sfin|].
    apply skipn_wp; [sfin|]. intros Hn2. cbn [seq_out].
    destruct (Z.gtb_spec (fixed_size tp) 0).
    + apply skipn_wp; [sfin|]. intros Hn3. cbn [seq_out].
      slast IH (KFields d) (adv (fixed_size tp) (adv 2 (adv 1 s1))).
    + srec IH (KVal tp (d - 1)) (adv 2 (adv 1 s1)) s2.
      slast IH (KFields d) s2.
  - (* KElems *)
    destruct (Z.leb_spec n 0); [sfin|].
    destruct (et =? T_STRING).
    + apply skipstr_wp; [assumption | intros; sfin |]. intros sz s1 E1 Hsz Hb. cbn [seq_out].
      slast IH (KElems (n - 1) et d) (adv (4 + sz) s1).
    + srec IH (KVal et (d - 1)) s s1.
      slast IH (KElems (n - 1) et d) s1.
  - (* KPairs *)
    destruct (Z.leb_spec n 0); [sfin|].
    (* the key *)
    assert (Hone : forall (P : out -> Prop) t s1,
      inv bs s1 ->
      (forall e s', inv bs s' -> cur s1 <= cur s' -> deep s' <= Z.max (deep s1) skip_limit -> cost s' = cost s1 -> P (Er e s')) ->
      (forall s', inv bs s' -> cur s1 + 1 <= cur s' -> deep s' <= Z.max (deep s1) skip_limit -> cost s' = cost s1 -> P (Ok s')) ->
      (Z.of_nat f < sneed (KVal t (d - 1)) s1 -> P OutOfFuel) ->
      P (if fixed_size t >? 0 then skipn_m bs (fixed_size t) s1
         else if t =? T_STRING then skipstr_m bs s1 else srun bs f (KVal t (d - 1)) s1)).
    { intros P t s1 Hs1 He Hk Hf.
      destruct (Z.gtb_spec (fixed_size t) 0).
      { apply skipn_wp; intros; [apply He | apply Hk]; fin. }
      destruct (t =? T_STRING).
      { apply skipstr_wp; [assumption | intros; apply He; fin | intros; apply Hk; fin]. }
      pose proof (IH (KVal t (d - 1)) s1 Hs1) as Hr.
      destruct (srun bs f (KVal t (d - 1)) s1); unfold spost, sadv in Hr;
        [apply Hk | apply He | | | apply Hf]; try tauto; fin. }
    apply Hone; [assumption | intros; sfin | | intros; sfin].
    intros s1 Hs1 Hc1 Hd1 Hk1. cbn [seq_out].
    apply Hone; [assumption | intros; sfin | | intros; sfin].
    intros s2 Hs2 Hc2 Hd2 Hk2. cbn [seq_out].
    slast IH (KPairs (n - 1) kt vt d) s2.
Qed.

End Skip.

(* ------------------------------------------------------------------ Thrift reader *)

Section Reader.
Variable bs : list Z.
Variable clamp : bool.
Variable lim : Z.

(* what one still-open container header may have charged on a failing path, per nesting level *)
Definition pen (d : Z) : Z := 48 * zlen bs * Z.max d 0.

Lemma pen_nonneg d : 0 <= pen d.
Proof. unfold pen, zlen. apply Z.mul_nonneg_nonneg; lia. Qed.

Lemma pen_step d : 0 < d -> pen d = pen (d - 1) + 48 * zlen bs.
Proof. intros Hd. unfold pen. rewrite !Z.max_l by lia. ring. Qed.

Lemma hint_le per n s : 0 <= per -> hint bs clamp per n s <= per * n.
Proof.
  intros Hp. unfold hint. destruct clamp; [|lia].
  apply Z.mul_le_mono_nonneg_l; lia.
Qed.

Lemma hint_clamp per n s : 0 <= per -> clamp = true -> hint bs clamp per n s <= per * (zlen bs - cur s).
Proof.
  intros Hp Hc. unfold hint. rewrite Hc.
  apply Z.mul_le_mono_nonneg_l; lia.
Qed.

Definition rneed (k : rtask) (s : st) : Z :=
  zlen bs - cur s + match k with RVal _ _ => 2 | RFields _ => 1 | _ => 3 end.
Definition radv (k : rtask) : Z :=
  match k with RVal _ _ => 1 | RFields _ => 1 | RElems n _ _ => Z.max n 0 | RPairs n _ _ _ => Z.max n 0 end.
(* pre-paid allocation of an accepted task *)
Definition rpay (k : rtask) : Z :=
  match k with RVal _ _ => 64 | RFields _ => 112 | RElems n _ _ => 64 * Z.max n 0 | RPairs n _ _ _ => 128 * Z.max n 0 end.
Definition rdep (k : rtask) : Z :=
  match k with RVal _ d => d | RFields d => d - 1 | RElems _ _ d => d - 1 | RPairs _ _ _ d => d - 1 end.
Definition rslack (k : rtask) : Z := match k with RFields _ => 0 | _ => 48 end.

Definition rpost (f : nat) (k : rtask) (s : st) (o : out) : Prop :=
  match o with
  | Ok s' => inv bs s' /\ cur s + radv k <= cur s' /\ deep s' <= Z.max (deep s) lim /\
             cost s' - cost s + rpay k <= 128 * (cur s' - cur s)
  | Er _ s' => inv bs s' /\ cur s <= cur s' /\ deep s' <= Z.max (deep s) lim /\
               (clamp = true -> cost s' - cost s <= 128 * (cur s' - cur s) + pen (rdep k) + rslack k)
  | OverRead _ => False
  | Panic _ => False
  | OutOfFuel => Z.of_nat f < rneed k s
  end.

Ltac rfin :=
  cbn [seq_out negb];
  unfold rpost, rneed, radv, rpay, rdep, rslack, C_BOX, C_STR, C_SLOT, C_SLICE, C_MAPENT, C_MAPHDR in *; fin;
  try (let Hcl := fresh "Hcl" in intros Hcl;
       repeat match goal with H : clamp = true -> _ |- _ => specialize (H Hcl) end; lia).

Ltac rrec IH k s s' :=
  let H := fresh "Hrec" in
  assert (H : rpost _ k s (rrun bs clamp lim _ k s)) by (apply IH; rfin);
  destruct (rrun bs clamp lim _ k s) as [s'|? ?|?|?|]; cbn [seq_out]; [|rfin ..].
Ltac rlast IH k s :=
  let H := fresh "Hrec" in
  assert (H : rpost _ k s (rrun bs clamp lim _ k s)) by (apply IH; rfin);
  destruct (rrun bs clamp lim _ k s); solve [rfin].

Lemma rstring_wp (P : out -> Prop) s :
  inv bs s ->
  (forall e s', inv bs s' -> cur s <= cur s' -> cost s' = cost s -> deep s' = deep s -> P (Er e s')) ->
  (forall s', inv bs s' -> cur s + 4 <= cur s' -> cost s' = cost s + 16 -> deep s' = deep s -> P (Ok s')) ->
  P (rstring bs s).
Proof.
  intros Hs He Hk. unfold rstring. apply next_be_wp; [assumption | apply He; fin |].
  intros szu s1 E1 Hb. cbv zeta.
  destruct (Z.ltb_spec (to_s 32 szu) 0); cbn [orb]; [apply He; fin|].
  destruct (Z.gtb_spec (to_s 32 szu) (zlen bs - cur (adv (Z.of_nat 4) s1))); [apply He; fin|].
  apply Hk; unfold C_STR; fin.
Qed.

Lemma rrun_post : forall f k s, inv bs s -> rpost f k s (rrun bs clamp lim f k s).
Proof.
  induction f as [|f IH]; intros k s Hs; [destruct k; cbn [rrun]; rfin|].
  destruct k as [t d|d|n et d|n kt vt d]; cbn [rrun]; cbv beta zeta.
  - (* RVal *)
    destruct (Z.leb_spec d 0) as [Hd|Hd]; [pose proof (pen_nonneg d); rfin|].
    pose proof (pen_nonneg d) as Hp. pose proof (pen_nonneg (d - 1)) as Hp1. pose proof (pen_step d Hd) as Hps.
    set (s0 := enter (lim - d + 1) s).
    assert (Hc0 : cur s0 = cur s) by reflexivity.
    assert (Hk0 : cost s0 = cost s) by reflexivity.
    assert (Hd0 : deep s0 <= Z.max (deep s) lim) by (subst s0; fin).
    assert (Hi0 : inv bs s0) by (subst s0; fin).
    clearbody s0.
    destruct ((t =? T_BOOL) || (t =? T_BYTE)).
    { apply next_be_wp; [assumption | rfin | intros; rfin]. }
    destruct (t =? T_I16).
    { apply next_be_wp; [assumption | rfin | intros; rfin]. }
    destruct (t =? T_I32).
    { apply next_be_wp; [assumption | rfin | intros; rfin]. }
    destruct ((t =? T_I64) || (t =? T_DOUBLE)).
    { apply next_be_wp; [assumption | rfin | intros; rfin]. }
    destruct (t =? T_STRING).
    { apply rstring_wp; [assumption | intros; rfin | intros; rfin]. }
    destruct ((t =? T_LIST) || (t =? T_SET)).
    { apply next_be_wp; [assumption | rfin |]. intros et s1 E1 Hb1.
      destruct (type_valid et); cbn [negb]; [|rfin].
      apply next_be_wp; [fin | rfin |]. intros szu s2 E2 Hb2.
      destruct (Z.ltb_spec (to_s 32 szu) 0) as [Hsz|Hsz]; [rfin|].
      set (s3 := adv (Z.of_nat 4) s2) in *.
      assert (Hc3 : cur s3 = cur s + 5) by (subst s3; fin).
      assert (Hk3 : cost s3 = cost s) by (subst s3; fin).
      assert (Hd3 : deep s3 = deep s0) by (subst s3; fin).
      assert (Hi3 : inv bs s3) by (subst s3; fin).
      clearbody s3.
      pose proof (hint_le C_SLOT (to_s 32 szu) s3 ltac:(unfold C_SLOT; lia)) as Hh.
      pose proof (hint_clamp C_SLOT (to_s 32 szu) s3 ltac:(unfold C_SLOT; lia)) as Hhc.
      rlast IH (RElems (to_s 32 szu) et d) (charge (C_SLICE + hint bs clamp C_SLOT (to_s 32 szu) s3) s3). }
    destruct (t =? T_MAP).
    { apply next_be_wp; [assumption | rfin |]. intros kt s1 E1 Hb1.
      destruct (type_valid kt); cbn [negb]; [|rfin].
      apply next_be_wp; [fin | rfin |]. intros vt s2 E2 Hb2.
      destruct (type_valid vt); cbn [negb]; [|rfin].
      apply next_be_wp; [fin | rfin |]. intros szu s3 E3 Hb3.
      destruct (Z.ltb_spec (to_s 32 szu) 0) as [Hsz|Hsz]; [rfin|].
      set (s4 := adv (Z.of_nat 4) s3) in *.
      assert (Hc4 : cur s4 = cur s + 6) by (subst s4; fin).
      assert (Hk4 : cost s4 = cost s) by (subst s4; fin).
      assert (Hd4 : deep s4 = deep s0) by (subst s4; fin).
      assert (Hi4 : inv bs s4) by (subst s4; fin).
      clearbody s4.
      pose proof (hint_le C_MAPENT (to_s 32 szu) s4 ltac:(unfold C_MAPENT; lia)) as Hh.
      pose proof (hint_clamp C_MAPENT (to_s 32 szu) s4 ltac:(unfold C_MAPENT; lia)) as Hhc.
      rlast IH (RPairs (to_s 32 szu) kt vt d) (charge (C_MAPHDR + hint bs clamp C_MAPENT (to_s 32 szu) s4) s4). }
    destruct (t =? T_STRUCT); [|rfin].
    rlast IH (RFields d) (charge C_MAPHDR s0).
  - (* RFields *)
    pose proof (pen_nonneg (d - 1)) as Hp1.
    apply next_be_wp; [assumption | rfin |]. intros tp s1 E1 Hb1.
    destruct (type_valid tp); cbn [negb]; [|rfin].
    destruct (tp =? 0); [rfin|].
    apply next_be_wp; [fin | rfin |]. intros fid s2 E2 Hb2.
    rrec IH (RVal tp (d - 1)) (adv (Z.of_nat 2) s2) s3.
    rlast IH (RFields d) (charge (2 * C_MAPENT) s3).
  - (* RElems *)
    destruct (Z.leb_spec n 0); [rfin|].
    rrec IH (RVal et (d - 1)) s s1.
    rlast IH (RElems (n - 1) et d) s1.
  - (* RPairs *)
    destruct (Z.leb_spec n 0); [rfin|].
    pose proof (pen_nonneg (d - 1)) as Hp1.
    assert (Hkey : forall s1, inv bs s1 -> rpost f (RVal kt (d - 1)) s1
      (if kt =? T_STRING then rstring bs s1
       else if kt =? T_BYTE then next_be bs 1 s1 (fun _ s => Ok s)
       else if kt =? T_I16 then next_be bs 2 s1 (fun _ s => Ok s)
       else if kt =? T_I32 then next_be bs 4 s1 (fun _ s => Ok s)
       else if kt =? T_I64 then next_be bs 8 s1 (fun _ s => Ok s)
       else rrun bs clamp lim f (RVal kt (d - 1)) s1)).
    { intros s1 Hs1.
      destruct (kt =? T_STRING); [apply rstring_wp; [assumption | intros; rfin | intros; rfin]|].
      destruct (kt =? T_BYTE); [apply next_be_wp; [assumption | rfin | intros; rfin]|].
      destruct (kt =? T_I16); [apply next_be_wp; [assumption | rfin | intros; rfin]|].
      destruct (kt =? T_I32); [apply next_be_wp; [assumption | rfin | intros; rfin]|].
      destruct (kt =? T_I64); [apply next_be_wp; [assumption | rfin | intros; rfin]|].
      apply IH; assumption. }
    specialize (Hkey s Hs).
    match type of Hkey with rpost _ _ _ ?o => destruct o as [s1| | | |] end; cbn [seq_out]; [|rfin ..].
    rrec IH (RVal vt (d - 1)) s1 s2.
    rlast IH (RPairs (n - 1) kt vt d) s2.
Qed.

End Reader.

(* ------------------------------------------------------------------ consequences: Thrift skip *)

Definition deep_le (lim : Z) (o : out) : Prop :=
  match o with Ok s | Er _ s | Panic s => deep s <= lim | _ => True end.

Theorem srun_safe bs fuel k s : inv bs s -> safe bs (srun bs fuel k s).
Proof.
  intros Hs. pose proof (srun_post bs fuel k s Hs) as H.
  destruct (srun bs fuel k s); unfold spost in H; cbn [safe]; tauto.
Qed.

Theorem srun_progress bs fuel k s : inv bs s -> sneed bs k s <= Z.of_nat fuel -> srun bs fuel k s <> OutOfFuel.
Proof.
  intros Hs Hf E. pose proof (srun_post bs fuel k s Hs) as H. rewrite E in H. unfold spost in H. lia.
Qed.

Theorem srun_depth bs fuel k s : inv bs s -> deep s <= skip_limit -> deep_le skip_limit (srun bs fuel k s).
Proof.
  intros Hs Hd. pose proof (srun_post bs fuel k s Hs) as H.
  destruct (srun bs fuel k s); unfold spost in H; cbn [deep_le]; try tauto; lia.
Qed.

Theorem srun_no_alloc bs fuel k s s' : inv bs s -> srun bs fuel k s = Ok s' -> cost s' = cost s.
Proof.
  intros Hs E. pose proof (srun_post bs fuel k s Hs) as H. rewrite E in H. unfold spost in H. tauto.
Qed.

Theorem srun_depth_error bs f t d s : d <= 0 -> srun bs (S f) (KVal t d) s = Er E_DEPTH s.
Proof. intros Hd. cbn [srun]. destruct (Z.leb_spec d 0); [reflexivity | lia]. Qed.

Lemma fuel_for_val bs : Z.of_nat (fuel_for bs) = zlen bs + skip_limit + 1.
Proof. unfold fuel_for, zlen, skip_limit. lia. Qed.

Theorem skip_go_safe bs t : safe bs (skip_go_m t bs).
Proof. apply srun_safe, inv_st0. Qed.

Theorem skip_go_progress bs t : skip_go_m t bs <> OutOfFuel.
Proof.
  apply srun_progress; [apply inv_st0|].
  rewrite fuel_for_val. unfold sneed, skip_limit, st0; cbn [cur]. lia.
Qed.

Theorem skip_go_depth bs t : deep_le skip_limit (skip_go_m t bs).
Proof. apply srun_depth; [apply inv_st0 | unfold st0, skip_limit; cbn [deep]; lia]. Qed.

(* ------------------------------------------------------------------ consequences: Thrift reader *)

Theorem rrun_safe bs clamp lim fuel k s : inv bs s -> safe bs (rrun bs clamp lim fuel k s).
Proof.
  intros Hs. pose proof (rrun_post bs clamp lim fuel k s Hs) as H.
  destruct (rrun bs clamp lim fuel k s); unfold rpost in H; cbn [safe]; tauto.
Qed.

Theorem rrun_progress bs clamp lim fuel k s :
  inv bs s -> rneed bs k s <= Z.of_nat fuel -> rrun bs clamp lim fuel k s <> OutOfFuel.
Proof.
  intros Hs Hf E. pose proof (rrun_post bs clamp lim fuel k s Hs) as H. rewrite E in H. unfold rpost in H. lia.
Qed.

Theorem rrun_depth bs clamp lim fuel k s :
  inv bs s -> deep s <= lim -> deep_le lim (rrun bs clamp lim fuel k s).
Proof.
  intros Hs Hd. pose proof (rrun_post bs clamp lim fuel k s Hs) as H.
  destruct (rrun bs clamp lim fuel k s); unfold rpost in H; cbn [deep_le]; try tauto; lia.
Qed.

Theorem rrun_depth_error bs clamp lim f t d s : d <= 0 -> rrun bs clamp lim (S f) (RVal t d) s = Er E_DEPTH s.
Proof. intros Hd. cbn [rrun]. destruct (Z.leb_spec d 0); [reflexivity | lia]. Qed.

(* accepted input: the allocation is paid for by the bytes consumed (declared counts or clamped alike) *)
Theorem rrun_alloc_accepted bs clamp lim fuel t d s s' :
  inv bs s -> rrun bs clamp lim fuel (RVal t d) s = Ok s' -> cost s' - cost s + 64 <= 128 * (cur s' - cur s).
Proof.
  intros Hs E. pose proof (rrun_post bs clamp lim fuel (RVal t d) s Hs) as H. rewrite E in H.
  unfold rpost, rpay in H. tauto.
Qed.

(* rejected input, clamped hints: bytes consumed plus one buffer-length per still-open container *)
Theorem rrun_alloc_rejected bs lim fuel t d s e s' :
  inv bs s -> rrun bs true lim fuel (RVal t d) s = Er e s' ->
  cost s' - cost s <= 128 * (cur s' - cur s) + 48 * zlen bs * Z.max d 0 + 48.
Proof.
  intros Hs E. pose proof (rrun_post bs true lim fuel (RVal t d) s Hs) as H. rewrite E in H.
  unfold rpost, rdep, rslack, pen in H. tauto.
Qed.

Theorem read_any_safe bs t : safe bs (read_any_coded t bs) /\ safe bs (read_any_clamped t bs).
Proof. split; apply rrun_safe, inv_st0. Qed.

Theorem read_any_progress bs t : read_any_coded t bs <> OutOfFuel /\ read_any_clamped t bs <> OutOfFuel.
Proof.
  split; (apply rrun_progress; [apply inv_st0|]);
    rewrite fuel_for_val; unfold rneed, skip_limit, st0; cbn [cur]; lia.
Qed.

Theorem read_any_clamped_depth bs t : deep_le skip_limit (read_any_clamped t bs).
Proof. apply rrun_depth; [apply inv_st0 | unfold st0, skip_limit; cbn [deep]; lia]. Qed.

Theorem alloc_linear_accepted bs t s : read_any_clamped t bs = Ok s -> cost s <= 128 * zlen bs.
Proof.
  intros E. pose proof (read_any_safe bs t) as [_ Hsafe]. rewrite E in Hsafe. cbn [safe] in Hsafe.
  apply rrun_alloc_accepted in E; [|apply inv_st0]. unfold inv in Hsafe. unfold st0 in E; cbn [cur cost] in E. lia.
Qed.

Theorem alloc_coded_accepted bs t s : read_any_coded t bs = Ok s -> cost s <= 128 * zlen bs.
Proof.
  intros E. pose proof (read_any_safe bs t) as [Hsafe _]. rewrite E in Hsafe. cbn [safe] in Hsafe.
  apply rrun_alloc_accepted in E; [|apply inv_st0]. unfold inv in Hsafe. unfold st0 in E; cbn [cur cost] in E. lia.
Qed.

Theorem alloc_linear bs t : cost_clamped t bs <= (128 + 48 * skip_limit) * zlen bs + 48.
Proof.
  unfold cost_clamped.
  pose proof (read_any_safe bs t) as [_ Hsafe].
  assert (Hz : 0 <= zlen bs) by (unfold zlen; lia).
  destruct (read_any_clamped t bs) as [s|e s|i|s|] eqn:E; cbn [out_cost safe] in *.
  - apply alloc_linear_accepted in E. unfold skip_limit. lia.
  - apply rrun_alloc_rejected in E; [|apply inv_st0]. unfold inv in Hsafe.
    unfold st0, skip_limit in *; cbn [cur cost] in E. lia.
  - contradiction.
  - exfalso. pose proof (rrun_post bs true skip_limit (fuel_for bs) (RVal t skip_limit) st0 (inv_st0 bs)) as H.
    unfold read_any_clamped in E. rewrite E in H. exact H.
  - unfold skip_limit. lia.
Qed.
