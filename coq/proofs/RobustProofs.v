(* C06 — proofs about the explicit-cursor machines of model/Robust.v (arbitrary input bytes).
   Stated in props/Properties_C06.v. *)
From Coq Require Import ZArith List Bool Lia.
From DG Require Import ProtoWireRef ProtoWireRefProofs ThriftWire ThriftEnvelope Gen_protowire GenProtowireProofs Robust.
Import ListNotations.
Local Open Scope Z_scope.

(* ------------------------------------------------------------------ specification predicates *)

(* the cursor is inside the buffer and every index ever fetched was inside the buffer *)
Definition inv (bs : list Z) (s : st) : Prop :=
  0 <= cur s <= zlen bs /\ Forall (fun i => 0 <= i < zlen bs) (tr s).

(* a result is safe: no over-read, and the final state (error and panic states included) satisfies [inv] *)
Definition safe (bs : list Z) (o : out) : Prop :=
  match o with
  | Ok s | Er _ s | Panic s => inv bs s
  | OverRead _ => False
  | OutOfFuel => True
  end.

Lemma inv_st0 bs : inv bs st0.
Proof. unfold inv, st0, zlen; cbn [cur tr]. split; [lia | constructor]. Qed.

(* ------------------------------------------------------------------ primitives *)

Section Prims.
Variable bs : list Z.

(* [s'] differs from [s] only by its read trace *)
Definition same (s s' : st) : Prop :=
  cur s' = cur s /\ cost s' = cost s /\ deep s' = deep s /\ inv bs s'.

Lemma same_refl s : inv bs s -> same s s.
Proof. unfold same; auto. Qed.

Ltac unf :=
  unfold same, inv, adv, charge, enter, logrd in *; cbn [cur cost deep tr] in *.
Ltac fin :=
  unf; repeat match goal with H : _ /\ _ |- _ => destruct H end;
  repeat split; try assumption; try lia.

Lemma rd1_some i : 0 <= i < zlen bs -> exists b, rd1 bs i = Some b /\ nth_error bs (Z.to_nat i) = Some b.
Proof.
  intros Hi. unfold rd1. destruct (Z.ltb_spec i 0); [lia|].
  destruct (nth_error bs (Z.to_nat i)) as [b|] eqn:E; [eauto|].
  apply nth_error_None in E. unfold zlen in Hi. lia.
Qed.

Lemma fetch_spec n : forall i acc s,
  inv bs s -> 0 <= i -> i + Z.of_nat n <= zlen bs ->
  exists v s', fetch bs n i acc s = Some (v, s') /\ same s s'.
Proof.
  induction n as [|n IH]; intros i acc s Hs Hi Hn; cbn [fetch].
  - exists acc, s. split; [reflexivity | apply same_refl; assumption].
  - destruct (rd1_some i) as (b & Hb & _); [lia|]. rewrite Hb.
    destruct (IH (i + 1) (acc * 256 + b) (logrd i s)) as (v & s' & Hf & Hsame); try lia.
    + fin. constructor; [lia | assumption].
    + exists v, s'. split; [assumption|]. fin.
Qed.

Lemma fetch1_value i s :
  inv bs s -> 0 <= i < zlen bs ->
  exists y s', fetch bs 1 i 0 s = Some (y, s') /\ same s s' /\ nth_error bs (Z.to_nat i) = Some y.
Proof.
  intros Hs Hi. cbn [fetch]. destruct (rd1_some i) as (b & Hb & Hn); [lia|]. rewrite Hb.
  exists b, (logrd i s). split; [f_equal; f_equal; lia|]. split; [|assumption].
  fin. constructor; [lia | assumption].
Qed.

Lemma get_wp (P : out -> Prop) n off s k :
  inv bs s -> 0 <= off -> cur s + off + Z.of_nat n <= zlen bs ->
  (forall v s', same s s' -> P (k v s')) ->
  P (get bs n off s k).
Proof.
  intros Hs Ho Hn Hk. unfold get.
  destruct (fetch_spec n (cur s + off) 0 s) as (v & s' & Hf & Hsame); try assumption; [fin|].
  rewrite Hf. apply Hk. assumption.
Qed.

Lemma next_be_wp (P : out -> Prop) n s k :
  inv bs s -> P (Er E_EOF s) ->
  (forall v s', same s s' -> cur s + Z.of_nat n <= zlen bs -> P (k v (adv (Z.of_nat n) s'))) ->
  P (next_be bs n s k).
Proof.
  intros Hs He Hk. unfold next_be.
  destruct (Z.gtb_spec (cur s + Z.of_nat n) (zlen bs)); [assumption|].
  apply get_wp; [assumption | lia | lia |]. intros v s' Hsame. apply Hk; [assumption | lia].
Qed.

Lemma skipn_wp (P : out -> Prop) n s :
  P (Er E_EOF s) -> (cur s + n <= zlen bs -> P (Ok (adv n s))) -> P (skipn_m bs n s).
Proof.
  intros He Hk. unfold skipn_m. destruct (Z.gtb_spec (cur s + n) (zlen bs)); [assumption|].
  apply Hk. lia.
Qed.

Lemma skipstr_wp (P : out -> Prop) s :
  inv bs s ->
  (forall e s', same s s' -> P (Er e s')) ->
  (forall sz s', same s s' -> 0 <= sz -> cur s + 4 + sz <= zlen bs -> P (Ok (adv (4 + sz) s'))) ->
  P (skipstr_m bs s).
Proof.
  intros Hs He Hk. unfold skipstr_m.
  destruct (Z.gtb_spec (cur s + 4) (zlen bs)); [apply He, same_refl; assumption|].
  apply get_wp; [assumption | lia | lia |]. intros sz s' Hsame.
  destruct (Z.ltb_spec sz 0); [apply He; assumption|].
  destruct (Z.gtb_spec (cur s' + 4 + sz) (zlen bs)); [apply He; assumption|].
  apply Hk; [assumption | lia | fin].
Qed.

End Prims.

Ltac unf :=
  unfold same, inv, adv, charge, enter, logrd in *; cbn [cur cost deep tr] in *.
Ltac fin :=
  unf; repeat match goal with H : _ /\ _ |- _ => destruct H end;
  repeat split; try assumption; try lia.

(* ------------------------------------------------------------------ Thrift SkipGo *)

Section Skip.
Variable bs : list Z.

Definition sneed (k : stask) (s : st) : Z :=
  zlen bs - cur s + match k with KVal _ _ => 2 | KFields _ => 1 | _ => 3 end.
Definition sadv (k : stask) : Z :=
  match k with KVal _ _ => 1 | KFields _ => 1 | KElems n _ _ => Z.max n 0 | KPairs n _ _ _ => Z.max n 0 end.

(* combined postcondition of one run: cursor in bounds, cursor advance, nesting bound, no allocation,
   and fuel exhaustion only below the measure *)
Definition spost (f : nat) (k : stask) (s : st) (o : out) : Prop :=
  match o with
  | Ok s' => inv bs s' /\ cur s + sadv k <= cur s' /\ deep s' <= Z.max (deep s) skip_limit /\ cost s' = cost s
  | Er _ s' => inv bs s' /\ cur s <= cur s' /\ deep s' <= Z.max (deep s) skip_limit /\ cost s' = cost s
  | OverRead _ => False
  | Panic _ => False
  | OutOfFuel => Z.of_nat f < sneed k s
  end.

Ltac sfin := cbn [seq_out]; unfold spost, sneed, sadv in *; fin.

(* use the induction hypothesis at a recursive call and case on its result *)
Ltac srec IH k s s' :=
  let H := fresh "Hrec" in
  assert (H : spost _ k s (srun bs _ k s)) by (apply IH; sfin);
  destruct (srun bs _ k s) as [s'|? ?|?|?|]; cbn [seq_out]; [|sfin ..].
Ltac slast IH k s :=
  let H := fresh "Hrec" in
  assert (H : spost _ k s (srun bs _ k s)) by (apply IH; sfin);
  destruct (srun bs _ k s); solve [sfin].

Lemma srun_post : forall f k s, inv bs s -> spost f k s (srun bs f k s).
Proof.
  induction f as [|f IH]; intros k s Hs; [destruct k; cbn [srun]; sfin|].
  destruct k as [t d|d|n et d|n kt vt d]; cbn [srun]; cbv zeta.
  - (* KVal *)
    destruct (Z.leb_spec d 0); [sfin|].
    set (s0 := enter (skip_limit - d + 1) s).
    assert (Hc0 : cur s0 = cur s) by reflexivity.
    assert (Hk0 : cost s0 = cost s) by reflexivity.
    assert (Hd0 : deep s0 <= Z.max (deep s) skip_limit) by (subst s0; fin).
    assert (Hi0 : inv bs s0) by (subst s0; fin).
    clearbody s0.
    destruct (Z.gtb_spec (fixed_size t) 0).
    { apply skipn_wp; intros; sfin. }
    destruct (t =? T_STRING).
    { apply skipstr_wp; [assumption | intros; sfin | intros; sfin]. }
    destruct (t =? T_STRUCT).
    { slast IH (KFields d) s0. }
    destruct (t =? T_MAP).
    { destruct (Z.gtb_spec (cur s0 + 6) (zlen bs)); [sfin|].
      apply get_wp; [assumption | lia | lia |]. intros kt s1 E1.
      apply get_wp; [fin | lia | fin |]. intros vt s2 E2.
      apply get_wp; [fin | lia | fin |]. intros szu s3 E3.
      destruct (Z.ltb_spec (to_s 32 szu) 0); [sfin|].
      destruct (Z.gtb_spec (fixed_size kt) 0); destruct (Z.gtb_spec (fixed_size vt) 0); cbn [andb];
        try (slast IH (KPairs (to_s 32 szu) kt vt d) (adv 6 s3)).
      apply skipn_wp; intros; [sfin|].
      assert (0 <= to_s 32 szu * (fixed_size kt + fixed_size vt)) by nia. sfin. }
    destruct ((t =? T_SET) || (t =? T_LIST)); [|sfin].
    destruct (Z.gtb_spec (cur s0 + 5) (zlen bs)); [sfin|].
    apply get_wp; [assumption | lia | lia |]. intros et s1 E1.
    apply get_wp; [fin | lia | fin |]. intros szu s2 E2.
    destruct (Z.ltb_spec (to_s 32 szu) 0); [sfin|].
    destruct (Z.gtb_spec (fixed_size et) 0).
    { apply skipn_wp; intros; [sfin|].
      assert (0 <= to_s 32 szu * fixed_size et) by nia. sfin. }
    slast IH (KElems (to_s 32 szu) et d) (adv 5 s2).
  - (* KFields *)
    destruct (Z.gtb_spec (cur s + 1) (zlen bs)); [sfin|].
    apply get_wp; [assumption | lia | lia |]. intros tp s1 E1.
    destruct (tp =? 0); [sfin|].
    apply skipn_wp; [sfin|]. intros Hn2. cbn [seq_out].
    destruct (Z.gtb_spec (fixed_size tp) 0).
    + apply skipn_wp; [sfin|]. intros Hn3. cbn [seq_out].
      slast IH (KFields d) (adv (fixed_size tp) (adv 2 (adv 1 s1))).
    + srec IH (KVal tp (d - 1)) (adv 2 (adv 1 s1)) s2.
      slast IH (KFields d) s2.
  - (* KElems *)
    destruct (Z.leb_spec n 0); [sfin|].
    destruct (et =? T_STRING).
    + apply skipstr_wp; [assumption | intros; sfin |]. intros sz s1 E1 Hsz Hb. cbn [seq_out].
      slast IH (KElems (n - 1) et d) (adv (4 + sz) s1).
    + srec IH (KVal et (d - 1)) s s1.
      slast IH (KElems (n - 1) et d) s1.
  - (* KPairs *)
    destruct (Z.leb_spec n 0); [sfin|].
    (* the key *)
    assert (Hone : forall (P : out -> Prop) t s1,
      inv bs s1 ->
      (forall e s', inv bs s' -> cur s1 <= cur s' -> deep s' <= Z.max (deep s1) skip_limit -> cost s' = cost s1 -> P (Er e s')) ->
      (forall s', inv bs s' -> cur s1 + 1 <= cur s' -> deep s' <= Z.max (deep s1) skip_limit -> cost s' = cost s1 -> P (Ok s')) ->
      (Z.of_nat f < sneed (KVal t (d - 1)) s1 -> P OutOfFuel) ->
      P (if fixed_size t >? 0 then skipn_m bs (fixed_size t) s1
         else if t =? T_STRING then skipstr_m bs s1 else srun bs f (KVal t (d - 1)) s1)).
    { intros P t s1 Hs1 He Hk Hf.
      destruct (Z.gtb_spec (fixed_size t) 0).
      { apply skipn_wp; intros; [apply He | apply Hk]; fin. }
      destruct (t =? T_STRING).
      { apply skipstr_wp; [assumption | intros; apply He; fin | intros; apply Hk; fin]. }
      pose proof (IH (KVal t (d - 1)) s1 Hs1) as Hr.
      destruct (srun bs f (KVal t (d - 1)) s1); unfold spost, sadv in Hr;
        [apply Hk | apply He | | | apply Hf]; try tauto; fin. }
    apply Hone; [assumption | intros; sfin | | intros; sfin].
    intros s1 Hs1 Hc1 Hd1 Hk1. cbn [seq_out].
    apply Hone; [assumption | intros; sfin | | intros; sfin].
    intros s2 Hs2 Hc2 Hd2 Hk2. cbn [seq_out].
    slast IH (KPairs (n - 1) kt vt d) s2.
Qed.

End Skip.

(* ------------------------------------------------------------------ Thrift reader *)

Section Reader.
Variable bs : list Z.
Variable clamp : bool.
Variable lim : Z.

(* what one still-open container header may have charged on a failing path, per nesting level *)
Definition pen (d : Z) : Z := 48 * zlen bs * Z.max d 0.

Lemma pen_nonneg d : 0 <= pen d.
Proof. unfold pen, zlen. apply Z.mul_nonneg_nonneg; lia. Qed.

Lemma pen_step d : 0 < d -> pen d = pen (d - 1) + 48 * zlen bs.
Proof. intros Hd. unfold pen. rewrite !Z.max_l by lia. ring. Qed.

Lemma hint_le per n s : 0 <= per -> hint bs clamp per n s <= per * n.
Proof.
  intros Hp. unfold hint. destruct clamp; [|lia].
  apply Z.mul_le_mono_nonneg_l; lia.
Qed.

Lemma hint_clamp per n s : 0 <= per -> clamp = true -> hint bs clamp per n s <= per * (zlen bs - cur s).
Proof.
  intros Hp Hc. unfold hint. rewrite Hc.
  apply Z.mul_le_mono_nonneg_l; lia.
Qed.

Definition rneed (k : rtask) (s : st) : Z :=
  zlen bs - cur s + match k with RVal _ _ => 2 | RFields _ => 1 | _ => 3 end.
Definition radv (k : rtask) : Z :=
  match k with RVal _ _ => 1 | RFields _ => 1 | RElems n _ _ => Z.max n 0 | RPairs n _ _ _ => Z.max n 0 end.
(* pre-paid allocation of an accepted task *)
Definition rpay (k : rtask) : Z :=
  match k with RVal _ _ => 64 | RFields _ => 112 | RElems n _ _ => 64 * Z.max n 0 | RPairs n _ _ _ => 128 * Z.max n 0 end.
Definition rdep (k : rtask) : Z :=
  match k with RVal _ d => d | RFields d => d - 1 | RElems _ _ d => d - 1 | RPairs _ _ _ d => d - 1 end.
Definition rslack (k : rtask) : Z := match k with RFields _ => 0 | _ => 48 end.

Definition rpost (f : nat) (k : rtask) (s : st) (o : out) : Prop :=
  match o with
  | Ok s' => inv bs s' /\ cur s + radv k <= cur s' /\ deep s' <= Z.max (deep s) lim /\
             cost s' - cost s + rpay k <= 128 * (cur s' - cur s)
  | Er _ s' => inv bs s' /\ cur s <= cur s' /\ deep s' <= Z.max (deep s) lim /\
               (clamp = true -> cost s' - cost s <= 128 * (cur s' - cur s) + pen (rdep k) + rslack k)
  | OverRead _ => False
  | Panic _ => False
  | OutOfFuel => Z.of_nat f < rneed k s
  end.

Ltac rfin :=
  cbn [seq_out negb];
  unfold rpost, rneed, radv, rpay, rdep, rslack, C_BOX, C_STR, C_SLOT, C_SLICE, C_MAPENT, C_MAPHDR in *; fin;
  try (let Hcl := fresh "Hcl" in intros Hcl;
       repeat match goal with H : clamp = true -> _ |- _ => specialize (H Hcl) end; lia).

Ltac rrec IH k s s' :=
  let H := fresh "Hrec" in
  assert (H : rpost _ k s (rrun bs clamp lim _ k s)) by (apply IH; rfin);
  destruct (rrun bs clamp lim _ k s) as [s'|? ?|?|?|]; cbn [seq_out]; [|rfin ..].
Ltac rlast IH k s :=
  let H := fresh "Hrec" in
  assert (H : rpost _ k s (rrun bs clamp lim _ k s)) by (apply IH; rfin);
  destruct (rrun bs clamp lim _ k s); solve [rfin].

Lemma rstring_wp (P : out -> Prop) s :
  inv bs s ->
  (forall e s', inv bs s' -> cur s <= cur s' -> cost s' = cost s -> deep s' = deep s -> P (Er e s')) ->
  (forall s', inv bs s' -> cur s + 4 <= cur s' -> cost s' = cost s + 16 -> deep s' = deep s -> P (Ok s')) ->
  P (rstring bs s).
Proof.
  intros Hs He Hk. unfold rstring. apply next_be_wp; [assumption | apply He; fin |].
  intros szu s1 E1 Hb. cbv zeta.
  destruct (Z.ltb_spec (to_s 32 szu) 0); cbn [orb]; [apply He; fin|].
  destruct (Z.gtb_spec (to_s 32 szu) (zlen bs - cur (adv (Z.of_nat 4) s1))); [apply He; fin|].
  apply Hk; unfold C_STR; fin.
Qed.

Lemma rrun_post : forall f k s, inv bs s -> rpost f k s (rrun bs clamp lim f k s).
Proof.
  induction f as [|f IH]; intros k s Hs; [destruct k; cbn [rrun]; rfin|].
  destruct k as [t d|d|n et d|n kt vt d]; cbn [rrun]; cbv beta zeta.
  - (* RVal *)
    destruct (Z.leb_spec d 0) as [Hd|Hd]; [pose proof (pen_nonneg d); rfin|].
    pose proof (pen_nonneg d) as Hp. pose proof (pen_nonneg (d - 1)) as Hp1. pose proof (pen_step d Hd) as Hps.
    set (s0 := enter (lim - d + 1) s).
    assert (Hc0 : cur s0 = cur s) by reflexivity.
    assert (Hk0 : cost s0 = cost s) by reflexivity.
    assert (Hd0 : deep s0 <= Z.max (deep s) lim) by (subst s0; fin).
    assert (Hi0 : inv bs s0) by (subst s0; fin).
    clearbody s0.
    destruct ((t =? T_BOOL) || (t =? T_BYTE)).
    { apply next_be_wp; [assumption | rfin | intros; rfin]. }
    destruct (t =? T_I16).
    { apply next_be_wp; [assumption | rfin | intros; rfin]. }
    destruct (t =? T_I32).
    { apply next_be_wp; [assumption | rfin | intros; rfin]. }
    destruct ((t =? T_I64) || (t =? T_DOUBLE)).
    { apply next_be_wp; [assumption | rfin | intros; rfin]. }
    destruct (t =? T_STRING).
    { apply rstring_wp; [assumption | intros; rfin | intros; rfin]. }
    destruct ((t =? T_LIST) || (t =? T_SET)).
    { apply next_be_wp; [assumption | rfin |]. intros et s1 E1 Hb1.
      destruct (type_valid et); cbn [negb]; [|rfin].
      apply next_be_wp; [fin | rfin |]. intros szu s2 E2 Hb2.
      destruct (Z.ltb_spec (to_s 32 szu) 0) as [Hsz|Hsz]; [rfin|].
      set (s3 := adv (Z.of_nat 4) s2) in *.
      assert (Hc3 : cur s3 = cur s + 5) by (subst s3; fin).
      assert (Hk3 : cost s3 = cost s) by (subst s3; fin).
      assert (Hd3 : deep s3 = deep s0) by (subst s3; fin).
      assert (Hi3 : inv bs s3) by (subst s3; fin).
      clearbody s3.
      pose proof (hint_le C_SLOT (to_s 32 szu) s3 ltac:(unfold C_SLOT; lia)) as Hh.
      pose proof (hint_clamp C_SLOT (to_s 32 szu) s3 ltac:(unfold C_SLOT; lia)) as Hhc.
      rlast IH (RElems (to_s 32 szu) et d) (charge (C_SLICE + hint bs clamp C_SLOT (to_s 32 szu) s3) s3). }
    destruct (t =? T_MAP).
    { apply next_be_wp; [assumption | rfin |]. intros kt s1 E1 Hb1.
      destruct (type_valid kt); cbn [negb]; [|rfin].
      apply next_be_wp; [fin | rfin |]. intros vt s2 E2 Hb2.
      destruct (type_valid vt); cbn [negb]; [|rfin].
      apply next_be_wp; [fin | rfin |]. intros szu s3 E3 Hb3.
      destruct (Z.ltb_spec (to_s 32 szu) 0) as [Hsz|Hsz]; [rfin|].
      set (s4 := adv (Z.of_nat 4) s3) in *.
      assert (Hc4 : cur s4 = cur s + 6) by (subst s4; fin).
      assert (Hk4 : cost s4 = cost s) by (subst s4; fin).
      assert (Hd4 : deep s4 = deep s0) by (subst s4; fin).
      assert (Hi4 : inv bs s4) by (subst s4; fin).
      clearbody s4.
      pose proof (hint_le C_MAPENT (to_s 32 szu) s4 ltac:(unfold C_MAPENT; lia)) as Hh.
      pose proof (hint_clamp C_MAPENT (to_s 32 szu) s4 ltac:(unfold C_MAPENT; lia)) as Hhc.
      rlast IH (RPairs (to_s 32 szu) kt vt d) (charge (C_MAPHDR + hint bs clamp C_MAPENT (to_s 32 szu) s4) s4). }
    destruct (t =? T_STRUCT); [|rfin].
    rlast IH (RFields d) (charge C_MAPHDR s0).
  - (* RFields *)
    pose proof (pen_nonneg (d - 1)) as Hp1.
    apply next_be_wp; [assumption | rfin |]. intros tp s1 E1 Hb1.
    destruct (type_valid tp); cbn [negb]; [|rfin].
    destruct (tp =? 0); [rfin|].
    apply next_be_wp; [fin | rfin |]. intros fid s2 E2 Hb2.
    rrec IH (RVal tp (d - 1)) (adv (Z.of_nat 2) s2) s3.
    rlast IH (RFields d) (charge (2 * C_MAPENT) s3).
  - (* RElems *)
    destruct (Z.leb_spec n 0); [rfin|].
    rrec IH (RVal et (d - 1)) s s1.
    rlast IH (RElems (n - 1) et d) s1.
  - (* RPairs *)
    destruct (Z.leb_spec n 0); [rfin|].
    pose proof (pen_nonneg (d - 1)) as Hp1.
    assert (Hkey : forall s1, inv bs s1 -> rpost f (RVal kt (d - 1)) s1
      (if kt =? T_STRING then rstring bs s1
       else if kt =? T_BYTE then next_be bs 1 s1 (fun _ s => Ok s)
       else if kt =? T_I16 then next_be bs 2 s1 (fun _ s => Ok s)
       else if kt =? T_I32 then next_be bs 4 s1 (fun _ s => Ok s)
       else if kt =? T_I64 then next_be bs 8 s1 (fun _ s => Ok s)
       else rrun bs clamp lim f (RVal kt (d - 1)) s1)).
    { intros s1 Hs1.
      destruct (kt =? T_STRING); [apply rstring_wp; [assumption | intros; rfin | intros; rfin]|].
      destruct (kt =? T_BYTE); [apply next_be_wp; [assumption | rfin | intros; rfin]|].
      destruct (kt =? T_I16); [apply next_be_wp; [assumption | rfin | intros; rfin]|].
      destruct (kt =? T_I32); [apply next_be_wp; [assumption | rfin | intros; rfin]|].
      destruct (kt =? T_I64); [apply next_be_wp; [assumption | rfin | intros; rfin]|].
      apply IH; assumption. }
    specialize (Hkey s Hs).
    match type of Hkey with rpost _ _ _ ?o => destruct o as [s1| | | |] end; cbn [seq_out]; [|rfin ..].
    rrec IH (RVal vt (d - 1)) s1 s2.
    rlast IH (RPairs (n - 1) kt vt d) s2.
Qed.

End Reader.

(* ------------------------------------------------------------------ consequences: Thrift skip *)

Definition deep_le (lim : Z) (o : out) : Prop :=
  match o with Ok s | Er _ s | Panic s => deep s <= lim | _ => True end.

Theorem srun_safe bs fuel k s : inv bs s -> safe bs (srun bs fuel k s).
Proof.
  intros Hs. pose proof (srun_post bs fuel k s Hs) as H.
  destruct (srun bs fuel k s); unfold spost in H; cbn [safe]; tauto.
Qed.

Theorem srun_progress bs fuel k s : inv bs s -> sneed bs k s <= Z.of_nat fuel -> srun bs fuel k s <> OutOfFuel.
Proof.
  intros Hs Hf E. pose proof (srun_post bs fuel k s Hs) as H. rewrite E in H. unfold spost in H. lia.
Qed.

Theorem srun_depth bs fuel k s : inv bs s -> deep s <= skip_limit -> deep_le skip_limit (srun bs fuel k s).
Proof.
  intros Hs Hd. pose proof (srun_post bs fuel k s Hs) as H.
  destruct (srun bs fuel k s); unfold spost in H; cbn [deep_le]; try tauto; lia.
Qed.

Theorem srun_no_alloc bs fuel k s s' : inv bs s -> srun bs fuel k s = Ok s' -> cost s' = cost s.
Proof.
  intros Hs E. pose proof (srun_post bs fuel k s Hs) as H. rewrite E in H. unfold spost in H. tauto.
Qed.

Theorem srun_depth_error bs f t d s : d <= 0 -> srun bs (S f) (KVal t d) s = Er E_DEPTH s.
Proof. intros Hd. cbn [srun]. destruct (Z.leb_spec d 0); [reflexivity | lia]. Qed.

Lemma fuel_for_val bs : Z.of_nat (fuel_for bs) = zlen bs + skip_limit + 1.
Proof. unfold fuel_for, zlen, skip_limit. lia. Qed.

Theorem skip_go_safe bs t : safe bs (skip_go_m t bs).
Proof. apply srun_safe, inv_st0. Qed.

Theorem skip_go_progress bs t : skip_go_m t bs <> OutOfFuel.
Proof.
  apply srun_progress; [apply inv_st0|].
  rewrite fuel_for_val. unfold sneed, skip_limit, st0; cbn [cur]. lia.
Qed.

Theorem skip_go_depth bs t : deep_le skip_limit (skip_go_m t bs).
Proof. apply srun_depth; [apply inv_st0 | unfold st0, skip_limit; cbn [deep]; lia]. Qed.

(* ------------------------------------------------------------------ consequences: Thrift reader *)

Theorem rrun_safe bs clamp lim fuel k s : inv bs s -> safe bs (rrun bs clamp lim fuel k s).
Proof.
  intros Hs. pose proof (rrun_post bs clamp lim fuel k s Hs) as H.
  destruct (rrun bs clamp lim fuel k s); unfold rpost in H; cbn [safe]; tauto.
Qed.

Theorem rrun_progress bs clamp lim fuel k s :
  inv bs s -> rneed bs k s <= Z.of_nat fuel -> rrun bs clamp lim fuel k s <> OutOfFuel.
Proof.
  intros Hs Hf E. pose proof (rrun_post bs clamp lim fuel k s Hs) as H. rewrite E in H. unfold rpost in H. lia.
Qed.

Theorem rrun_depth bs clamp lim fuel k s :
  inv bs s -> deep s <= lim -> deep_le lim (rrun bs clamp lim fuel k s).
Proof.
  intros Hs Hd. pose proof (rrun_post bs clamp lim fuel k s Hs) as H.
  destruct (rrun bs clamp lim fuel k s); unfold rpost in H; cbn [deep_le]; try tauto; lia.
Qed.

Theorem rrun_depth_error bs clamp lim f t d s : d <= 0 -> rrun bs clamp lim (S f) (RVal t d) s = Er E_DEPTH s.
Proof. intros Hd. cbn [rrun]. destruct (Z.leb_spec d 0); [reflexivity | lia]. Qed.

(* accepted input: the allocation is paid for by the bytes consumed (declared counts or clamped alike) *)
Theorem rrun_alloc_accepted bs clamp lim fuel t d s s' :
  inv bs s -> rrun bs clamp lim fuel (RVal t d) s = Ok s' -> cost s' - cost s + 64 <= 128 * (cur s' - cur s).
Proof.
  intros Hs E. pose proof (rrun_post bs clamp lim fuel (RVal t d) s Hs) as H. rewrite E in H.
  unfold rpost, rpay in H. tauto.
Qed.

(* rejected input, clamped hints: bytes consumed plus one buffer-length per still-open container *)
Theorem rrun_alloc_rejected bs lim fuel t d s e s' :
  inv bs s -> rrun bs true lim fuel (RVal t d) s = Er e s' ->
  cost s' - cost s <= 128 * (cur s' - cur s) + 48 * zlen bs * Z.max d 0 + 48.
Proof.
  intros Hs E. pose proof (rrun_post bs true lim fuel (RVal t d) s Hs) as H. rewrite E in H.
  unfold rpost, rdep, rslack, pen in H. tauto.
Qed.

Theorem read_any_safe bs t : safe bs (read_any_coded t bs) /\ safe bs (read_any_clamped t bs).
Proof. split; apply rrun_safe, inv_st0. Qed.

Theorem read_any_progress bs t : read_any_coded t bs <> OutOfFuel /\ read_any_clamped t bs <> OutOfFuel.
Proof.
  split; (apply rrun_progress; [apply inv_st0|]);
    rewrite fuel_for_val; unfold rneed, skip_limit, st0; cbn [cur]; lia.
Qed.

Theorem read_any_clamped_depth bs t : deep_le skip_limit (read_any_clamped t bs).
Proof. apply rrun_depth; [apply inv_st0 | unfold st0, skip_limit; cbn [deep]; lia]. Qed.

Theorem alloc_linear_accepted bs t s : read_any_clamped t bs = Ok s -> cost s <= 128 * zlen bs.
Proof.
  intros E. pose proof (read_any_safe bs t) as [_ Hsafe]. rewrite E in Hsafe. cbn [safe] in Hsafe.
  apply rrun_alloc_accepted in E; [|apply inv_st0]. unfold inv in Hsafe. unfold st0 in E; cbn [cur cost] in E. lia.
Qed.

Theorem alloc_coded_accepted bs t s : read_any_coded t bs = Ok s -> cost s <= 128 * zlen bs.
Proof.
  intros E. pose proof (read_any_safe bs t) as [Hsafe _]. rewrite E in Hsafe. cbn [safe] in Hsafe.
  apply rrun_alloc_accepted in E; [|apply inv_st0]. unfold inv in Hsafe. unfold st0 in E; cbn [cur cost] in E. lia.
Qed.

Theorem alloc_linear bs t : cost_clamped t bs <= (128 + 48 * skip_limit) * zlen bs + 48.
Proof.
  unfold cost_clamped.
  pose proof (read_any_safe bs t) as [_ Hsafe].
  assert (Hz : 0 <= zlen bs) by (unfold zlen; lia).
  destruct (read_any_clamped t bs) as [s|e s|i|s|] eqn:E; cbn [out_cost safe] in *.
  - apply alloc_linear_accepted in E. unfold skip_limit. lia.
  - apply rrun_alloc_rejected in E; [|apply inv_st0]. unfold inv in Hsafe.
    unfold st0, skip_limit in *; cbn [cur cost] in E. lia.
  - contradiction.
  - exfalso. pose proof (rrun_post bs true skip_limit (fuel_for bs) (RVal t skip_limit) st0 (inv_st0 bs)) as H.
    unfold read_any_clamped in E. rewrite E in H. exact H.
  - unfold skip_limit. lia.
Qed.

(* ------------------------------------------------------------------ Thrift message envelope *)

Ltac gt_case := match goal with |- context [?a >? ?b] => destruct (Z.gtb_spec a b) end.

Theorem envelope_safe bs s : inv bs s -> safe bs (envelope bs s).
Proof.
  intros Hs. unfold envelope.
  gt_case; [exact Hs|].
  apply get_wp; [assumption | lia | lia |]. intros vu s1 E1. cbv zeta.
  destruct (to_s 32 vu >? 0); [cbn [safe]; fin|].
  destruct (negb _); [cbn [safe]; fin|].
  gt_case; [cbn [safe]; fin|].
  apply get_wp; [fin | lia | fin |]. intros lu s2 E2.
  destruct (Z.ltb_spec (to_s 32 lu) 0); cbn [orb]; [cbn [safe]; fin|].
  gt_case; [cbn [safe]; fin|].
  gt_case; [cbn [safe]; fin|].
  apply get_wp; [fin | lia | fin |]. intros sq s3 E3.
  gt_case; [cbn [safe]; fin|].
  apply get_wp; [fin | lia | fin |]. intros ft s4 E4.
  destruct (negb _); [cbn [safe]; fin|].
  destruct (ft =? 0); [cbn [safe]; fin|].
  gt_case; [cbn [safe]; fin|].
  apply get_wp; [fin | lia | fin |]. intros fid s5 E5.
  gt_case; cbn [safe]; fin.
Qed.

Theorem unwrap_safe bs : safe bs (unwrap_m bs).
Proof. apply envelope_safe, inv_st0. Qed.

(* ------------------------------------------------------------------ protobuf wire: varint *)

Lemma vloop_eq bs k i sh acc s :
  vloop bs k i sh acc s =
  if zlen bs - cur s <=? i then VErr (-1) s else
  match fetch bs 1 (cur s + i) 0 s with
  | None => VOver (cur s + i)
  | Some (y, s') =>
    match k with
    | O => if y <? 2 then VOk (acc + y * 2 ^ sh) (i + 1) s' else VErr (-3) s'
    | S k' => if y <? 128 then VOk (acc + y * 2 ^ sh) (i + 1) s'
              else vloop bs k' (i + 1) (sh + 7) (acc + (y - 128) * 2 ^ sh) s'
    end
  end.
Proof. destruct k; reflexivity. Qed.

Lemma skipn_nth_cons {A} (l : list A) : forall n y, nth_error l n = Some y -> skipn n l = y :: skipn (S n) l.
Proof.
  induction l as [|x l IH]; intros n y H; destruct n; cbn in H; try discriminate.
  - inversion H; reflexivity.
  - cbn [skipn]. rewrite (IH n y H). reflexivity.
Qed.

(* the cursor machine never over-reads, leaves the state alone (except for the trace), and computes
   exactly what the reference decoder computes on the suffix at the cursor *)
Definition vpost (bs : list Z) (s : st) (i : Z) (k : nat) (ref : Z * Z) (r : vres) : Prop :=
  match r with
  | VOk v n s' => same bs s s' /\ i + 1 <= n <= i + Z.of_nat k + 1 /\ cur s + n <= zlen bs /\ ref = (v, n)
  | VErr c s' => same bs s s' /\ (c = -1 \/ c = -3) /\ snd ref = c
  | VOver _ => False
  end.

Lemma vloop_post bs : forall k i sh acc s, inv bs s -> 0 <= i ->
  vpost bs s i k (vdec k sh acc i (skipn (Z.to_nat (cur s + i)) bs)) (vloop bs k i sh acc s).
Proof.
  induction k as [|k IH]; intros i sh acc s Hs Hi; rewrite vloop_eq;
    (destruct (Z.leb_spec (zlen bs - cur s) i) as [Hr|Hr];
     [ rewrite skipn_all2 by (unfold zlen, inv in *; lia);
       cbn [vdec vpost snd]; (split; [apply same_refl; assumption | auto])
     | destruct (fetch1_value bs (cur s + i) s Hs) as (y & s1 & Hf & E1 & Hn); [unfold inv in Hs; lia|];
       rewrite Hf, (skipn_nth_cons bs _ y Hn); cbn [vdec] ]).
  - destruct (y <? 2); cbn [vpost snd]; (split; [assumption|]); [|auto]. repeat split; lia.
  - destruct (y <? 128); cbn [vpost snd]; [split; [assumption|]; repeat split; lia|].
    assert (Hs1 : inv bs s1) by (unfold same in E1; tauto).
    assert (Hc1 : cur s1 = cur s) by (unfold same in E1; tauto).
    pose proof (IH (i + 1) (sh + 7) (acc + (y - 128) * 2 ^ sh) s1 Hs1 ltac:(lia)) as H.
    replace (Z.to_nat (cur s1 + (i + 1))) with (S (Z.to_nat (cur s + i))) in H by (unfold inv in Hs; lia).
    destruct (vloop bs k (i + 1) (sh + 7) (acc + (y - 128) * 2 ^ sh) s1); unfold vpost in *.
    + destruct H as (Hsame & Hn1 & Hn2 & Hr1). split; [fin|]. repeat split; try lia. exact Hr1.
    + destruct H as (Hsame & Hc & Hr1). split; [fin|]. split; assumption.
    + contradiction.
Qed.

Theorem cvarint_post bs s : inv bs s ->
  vpost bs s 0 9 (varint_dec (skipn (Z.to_nat (cur s)) bs)) (cvarint bs s).
Proof.
  intros Hs. pose proof (vloop_post bs 9 0 0 0 s Hs ltac:(lia)) as H.
  rewrite Z.add_0_r in H. exact H.
Qed.

Lemma rvarint_wp bs (P : out -> Prop) s k :
  inv bs s ->
  (forall e s', same bs s s' -> P (Er e s')) ->
  (forall v n s', same bs s s' -> 1 <= n <= 10 -> cur s + n <= zlen bs -> P (k v (adv n s'))) ->
  P (rvarint bs s k).
Proof.
  intros Hs He Hk. unfold rvarint. pose proof (cvarint_post bs s Hs) as H.
  destruct (cvarint bs s) as [v n s'|c s'|j]; unfold vpost in H.
  - destruct H as (Hsame & Hn & Hb & _).
    destruct (Z.gtb_spec (cur s' + n) (zlen bs)); [apply He; assumption|].
    apply Hk; [assumption | lia | assumption].
  - apply He. tauto.
  - contradiction.
Qed.

(* ------------------------------------------------------------------ protobuf wire: tag, skip, loops *)

(* final state in bounds, cursor not moved back, nothing allocated *)
Definition ppost (bs : list Z) (adv_min : Z) (s : st) (o : out) : Prop :=
  match o with
  | Ok s' => inv bs s' /\ cur s + adv_min <= cur s' /\ cost s' = cost s /\ deep s' = deep s
  | Er _ s' | Panic s' => inv bs s' /\ cur s <= cur s' /\ cost s' = cost s /\ deep s' = deep s
  | OverRead _ => False
  | OutOfFuel => False
  end.

Ltac pfin := cbn [seq_out]; unfold ppost in *; fin.

Lemma rvarint_ok_post bs s : inv bs s -> ppost bs 1 s (rvarint bs s (fun _ s => Ok s)).
Proof. intros Hs. apply rvarint_wp; [assumption | intros; pfin | intros; pfin]. Qed.

Lemma ptag_wp bs (P : out -> Prop) s k :
  inv bs s ->
  (forall e s', inv bs s' -> cur s <= cur s' -> cost s' = cost s -> deep s' = deep s -> P (Er e s')) ->
  (forall num wt s', inv bs s' -> cur s + 1 <= cur s' -> cost s' = cost s -> deep s' = deep s -> P (k num wt s')) ->
  P (ptag bs s k).
Proof.
  intros Hs He Hk. unfold ptag. apply rvarint_wp; [assumption | intros; apply He; fin |].
  intros v n s' E1 Hn Hb.
  destruct (v / 8 >? 2147483647); [apply He; fin|].
  destruct (v / 8 <? 1); [apply He; fin|].
  apply Hk; fin.
Qed.

Lemma to_s64_spec x :
  exists q, to_s 64 x = x - 18446744073709551616 * q /\
            -9223372036854775808 <= to_s 64 x < 9223372036854775808.
Proof.
  unfold to_s. change (2 ^ (64 - 1)) with 9223372036854775808. change (2 ^ 64) with 18446744073709551616.
  exists ((x + 9223372036854775808) / 18446744073709551616). Z.div_mod_to_equations. lia.
Qed.

Lemma pskip_post bs coded wt s : inv bs s -> ppost bs 0 s (pskip bs coded wt s).
Proof.
  intros Hs. unfold pskip.
  destruct (wt =? 0); [apply rvarint_wp; [assumption | intros; pfin | intros; pfin]|].
  destruct (wt =? 5); [apply skipn_wp; intros; pfin|].
  destruct (wt =? 1); [apply skipn_wp; intros; pfin|].
  destruct (wt =? 2); [|pfin].
  pose proof (cvarint_post bs s Hs) as H.
  destruct (cvarint bs s) as [v n s1|c s1|j]; unfold vpost in H; [|pfin|contradiction].
  destruct H as (E1 & Hn & Hb & _).
  destruct coded; cbv zeta.
  - destruct (to_s64_spec (to_s 64 v + n)) as (q1 & Hq1 & Hr1).
    set (all := to_s 64 (to_s 64 v + n)) in *. clearbody all.
    destruct (Z.leb_spec all 0); [pfin|].
    destruct (to_s64_spec (cur s1 + all)) as (q2 & Hq2 & Hr2).
    set (d := to_s 64 (cur s1 + all)) in *. clearbody d.
    destruct (Z.gtb_spec d (zlen bs)); [pfin|].
    destruct (Z.ltb_spec d (cur s1)); [pfin|].
    assert (q2 = 0) by (unfold same, inv in E1; lia). pfin.
  - destruct (Z.ltb_spec v 0); cbn [orb]; [pfin|].
    destruct (Z.gtb_spec v (zlen bs - cur s1 - n)); pfin.
Qed.

(* the loops: final state in bounds, cursor monotone, fuel exhaustion only below the measure
   ([spin] = the loop may legitimately fail to make progress) *)
Definition lpost (bs : list Z) (spin : bool) (f : nat) (s : st) (o : out) : Prop :=
  match o with
  | Ok s' | Er _ s' | Panic s' => inv bs s' /\ cur s <= cur s'
  | OverRead _ => False
  | OutOfFuel => spin = true \/ Z.of_nat f < zlen bs - cur s + 1
  end.

Ltac lfin :=
  cbn [seq_out]; unfold lpost, ppost in *; fin;
  try (match goal with H : _ = true \/ _ |- _ => destruct H end; [left; assumption | right; lia]);
  try (right; lia).

Lemma pfields_post bs coded : forall f s, inv bs s -> lpost bs false f s (pfields bs coded f s).
Proof.
  induction f as [|f IH]; intros s Hs; cbn [pfields]; [lfin|].
  destruct (Z.geb_spec (cur s) (zlen bs)); [lfin|].
  apply ptag_wp; [assumption | intros; lfin |]. intros num wt s1 Hs1 Hc1 Hk1 Hd1.
  pose proof (pskip_post bs coded wt s1 Hs1) as Hp.
  destruct (pskip bs coded wt s1) as [s2| | | |]; cbn [seq_out]; try solve [lfin].
  assert (Hs2 : inv bs s2) by (unfold ppost in Hp; tauto).
  pose proof (IH s2 Hs2) as Hr.
  destruct (pfields bs coded f s2); lfin.
Qed.

Lemma ploop_post bs ign stop : forall f s, inv bs s -> lpost bs ign f s (ploop bs ign f stop s).
Proof.
  induction f as [|f IH]; intros s Hs; cbn [ploop]; [lfin|].
  destruct (Z.geb_spec (cur s) stop); [lfin|].
  pose proof (rvarint_ok_post bs s Hs) as Hp.
  destruct (rvarint bs s (fun _ s0 => Ok s0)) as [s1|e s1| | |]; try solve [lfin].
  - assert (Hs1 : inv bs s1) by (unfold ppost in Hp; tauto).
    pose proof (IH s1 Hs1) as Hr. destruct (ploop bs ign f stop s1); lfin.
  - destruct ign; [|lfin].
    pose proof (IH s Hs) as Hr. destruct (ploop bs true f stop s); lfin.
Qed.

Lemma ppacked_post bs ign f s : inv bs s -> lpost bs ign f s (ppacked bs ign f s).
Proof.
  intros Hs. unfold ppacked. apply rvarint_wp; [assumption | intros; lfin |].
  intros len n s1 E1 Hn Hb.
  assert (Hs1 : inv bs (adv n s1)) by fin.
  pose proof (ploop_post bs ign (cur (adv n s1) + to_s 64 len) f (adv n s1) Hs1) as Hr.
  destruct (ploop bs ign f (cur (adv n s1) + to_s 64 len) (adv n s1)); lfin.
Qed.

Theorem pskip_safe bs coded wt s : inv bs s -> safe bs (pskip bs coded wt s).
Proof.
  intros Hs. pose proof (pskip_post bs coded wt s Hs) as H.
  destruct (pskip bs coded wt s); unfold ppost in H; cbn [safe]; tauto.
Qed.

Theorem pfields_safe bs coded f s : inv bs s -> safe bs (pfields bs coded f s).
Proof.
  intros Hs. pose proof (pfields_post bs coded f s Hs) as H.
  destruct (pfields bs coded f s); unfold lpost in H; cbn [safe]; tauto.
Qed.

Theorem ppacked_safe bs ign f s : inv bs s -> safe bs (ppacked bs ign f s).
Proof.
  intros Hs. pose proof (ppacked_post bs ign f s Hs) as H.
  destruct (ppacked bs ign f s); unfold lpost in H; cbn [safe]; tauto.
Qed.

Theorem cvarint_safe bs s : inv bs s ->
  match cvarint bs s with
  | VOk _ n s' => inv bs s' /\ cur s' = cur s /\ cost s' = cost s /\ 1 <= n <= 10 /\ cur s + n <= zlen bs
  | VErr c s' => inv bs s' /\ cur s' = cur s /\ cost s' = cost s /\ (c = -1 \/ c = -3)
  | VOver _ => False
  end.
Proof.
  intros Hs. pose proof (cvarint_post bs s Hs) as H.
  destruct (cvarint bs s) as [v n s'|c s'|j]; unfold vpost, same in H; [| |exact H].
  - destruct H as ((Hc & Hk & Hd & Hi) & Hn & Hb & _).
    refine (conj Hi (conj Hc (conj Hk _))). lia.
  - destruct H as ((Hc & Hk & Hd & Hi) & Hn & _).
    exact (conj Hi (conj Hc (conj Hk Hn))).
Qed.

Theorem cvarint_ref bs s : inv bs s ->
  match cvarint bs s with
  | VOk v n s' => cur s' = cur s /\ cost s' = cost s /\ varint_dec (skipn (Z.to_nat (cur s)) bs) = (v, n)
  | VErr c s' => cur s' = cur s /\ cost s' = cost s /\ snd (varint_dec (skipn (Z.to_nat (cur s)) bs)) = c
  | VOver _ => False
  end.
Proof.
  intros Hs. pose proof (cvarint_post bs s Hs) as H.
  destruct (cvarint bs s) as [v n s'|c s'|j]; unfold vpost, same in H; [| |exact H].
  - destruct H as ((Hc & Hk & Hd & Hi) & Hn & Hb & Hr). exact (conj Hc (conj Hk Hr)).
  - destruct H as ((Hc & Hk & Hd & Hi) & Hn & Hr). exact (conj Hc (conj Hk Hr)).
Qed.

Theorem pfields_progress bs coded : pfields_m coded bs <> OutOfFuel.
Proof.
  intros E. pose proof (pfields_post bs coded (fuel_for bs) st0 (inv_st0 bs)) as H.
  unfold pfields_m in E. rewrite E in H. unfold lpost in H. rewrite fuel_for_val in H.
  unfold st0, skip_limit in H; cbn [cur] in H. destruct H as [H|H]; [discriminate | lia].
Qed.

Theorem ppacked_progress bs : ppacked_m false bs <> OutOfFuel.
Proof.
  intros E. pose proof (ppacked_post bs false (fuel_for bs) st0 (inv_st0 bs)) as H.
  unfold ppacked_m in E. rewrite E in H. unfold lpost in H. rewrite fuel_for_val in H.
  unfold st0, skip_limit in H; cbn [cur] in H. destruct H as [H|H]; [discriminate | lia].
Qed.

(* as coded in conv/p2j (element error dropped, cursor unchanged): a truncated element inside the
   declared length is a fixed point of the loop *)
Theorem ppacked_as_coded_spins :
  exists bs, (length bs <= 4)%nat /\ forall fuel, ppacked bs true fuel st0 = OutOfFuel.
Proof.
  exists [3; 128; 128; 128]. split; [cbn; lia|].
  assert (Hloop : forall fuel, ploop [3; 128; 128; 128] true fuel 4 (mkst 1 0 0 [0]) = OutOfFuel).
  { induction fuel as [|f IH]; [reflexivity|].
    cbn [ploop].
    replace (rvarint [3; 128; 128; 128] (mkst 1 0 0 [0]) (fun _ s0 => Ok s0))
      with (Er E_VARINT (mkst 1 0 0 [3; 2; 1; 0])) by (vm_compute; reflexivity).
    change (cur (mkst 1 0 0 [0]) >=? 4) with false. cbv iota. exact IH. }
  intros fuel.
  replace (ppacked [3; 128; 128; 128] true fuel st0)
    with (ploop [3; 128; 128; 128] true fuel 4 (mkst 1 0 0 [0])); [apply Hloop|].
  unfold ppacked, rvarint.
  replace (cvarint [3; 128; 128; 128] st0) with (VOk 3 1 (mkst 0 0 0 [0])) by (vm_compute; reflexivity).
  cbv iota beta. reflexivity.
Qed.

Theorem pskip_as_coded_panics :
  exists bs, (length bs <= 11)%nat /\ exists s, pskip_m true 2 bs = Panic s.
Proof.
  exists [246; 255; 255; 255; 255; 255; 255; 255; 255; 1]. split; [cbn; lia|].
  eexists. vm_compute. reflexivity.
Qed.

Theorem pskip_fixed_never_panics bs wt s s' : pskip bs false wt s <> Panic s'.
Proof.
  unfold pskip, rvarint, skipn_m.
  destruct (wt =? 0).
  { destruct (cvarint bs s); [|discriminate|discriminate]. destruct (_ >? _); discriminate. }
  destruct (wt =? 5); [destruct (_ >? _); discriminate|].
  destruct (wt =? 1); [destruct (_ >? _); discriminate|].
  destruct (wt =? 2); [|discriminate].
  destruct (cvarint bs s); [|discriminate|discriminate].
  destruct (_ || _); discriminate.
Qed.

Theorem alloc_as_coded_refuted : exists bs, (length bs <= 6)%nat /\ cost_as_coded bs >= 2 ^ 31.
Proof. exists [10; 127; 255; 255; 255]. split; [cbn; lia|]. vm_compute. discriminate. Qed.

(* ------------------------------------------------------------------ (G) the generated ConsumeVarint *)

Theorem ConsumeVarint_total bs : bytes_ok bs ->
  let '(v, n) := Gen_protowire.ConsumeVarint bs in
  (1 <= n <= 10 /\ n <= zlen bs /\ 0 <= v < 2 ^ 64) \/ (n = -1 /\ v = 0) \/ (n = -3 /\ v = 0).
Proof.
  intros Hb. rewrite (ConsumeVarint_ref bs Hb).
  destruct (varint_dec bs) as [v n] eqn:E.
  pose proof (varint_dec_result bs v n E) as Hr. pose proof (varint_dec_value bs v n Hb E) as Hv.
  unfold zlen. intuition lia.
Qed.
