(* Refinement: Value.getByPath as coded with every recorded repair applied (ProtoGenericAlg.gbp all_fixes)
   computes the spec lookup (ProtoGeneric.plookup) on canonical encodings, for every schema, every
   well-formed message, every path: found |-> exact node type, exact span (= the encoding of the element)
   and element count; not-found exactly when the element is absent. *)
From Coq Require Import ZArith List Bool Lia.
From DG Require Import CaseFormat ProtoWireRef ProtoWireRefProofs ProtoMsg ProtoMsgProofs
  ProtoGeneric ProtoGenericAlg ProtoGenericDom ProtoGenericProofs.
Import ListNotations.
Local Open Scope Z_scope.

(* ------------------------------------------------------------------ cursor arithmetic *)
Lemma at_app pre rest : at_ (pre ++ rest) (plen pre) = rest.
Proof. unfold at_, plen. rewrite Nat2Z.id. apply skipn_app_len. Qed.

Lemma slice_app pre x post : slice (pre ++ x ++ post) (plen pre) (plen pre + plen x) = x.
Proof.
  unfold slice. rewrite at_app. replace (plen pre + plen x - plen pre) with (plen x) by lia.
  unfold plen. rewrite Nat2Z.id. apply firstn_app_len.
Qed.

Lemma plen_cons {A} (x : A) l : plen (x :: l) = 1 + plen l.
Proof. unfold plen. cbn [length]. lia. Qed.

Lemma to_s64_small v : 0 <= v < 9223372036854775808 -> to_s 64 v = v.
Proof.
  intros H. unfold to_s. change (2 ^ (64 - 1)) with 9223372036854775808. change (2 ^ 64) with 18446744073709551616.
  rewrite Z.mod_small by lia. lia.
Qed.

Definition tagb (n wt : Z) : list Z := varint_enc (n * 8 + wt).

Lemma cvar_enc pre v rest : 0 <= v < 2 ^ 64 ->
  cvar (pre ++ varint_enc v ++ rest) (plen pre) = Some (v, plen (varint_enc v)).
Proof.
  intros H. unfold cvar. rewrite at_app, varint_dec_enc' by exact H.
  pose proof (plen_nonneg (varint_enc v)). destruct (Z.ltb_spec (plen (varint_enc v)) 0); [lia|reflexivity].
Qed.

Definition wt_ok (wt : Z) : Prop := wt = 0 \/ wt = 1 \/ wt = 2 \/ wt = 5.

Lemma ctag_enc pre n wt rest : 1 <= n <= MAX_FIELD_NUMBER -> wt_ok wt ->
  ctag (pre ++ tagb n wt ++ rest) (plen pre) = Some (n, wt, plen (tagb n wt)).
Proof.
  intros Hn Hw. unfold ctag, tagb, MAX_FIELD_NUMBER in *. 
  assert (Hr : 0 <= n * 8 + wt < 2 ^ 64) by (change (2 ^ 64) with 18446744073709551616; unfold wt_ok in Hw; lia).
  rewrite cvar_enc by exact Hr.
  assert (Hd : (n * 8 + wt) / 8 = n) by (unfold wt_ok in Hw; Z.div_mod_to_equations; lia).
  assert (Hm : (n * 8 + wt) mod 8 = wt) by (unfold wt_ok in Hw; Z.div_mod_to_equations; lia).
  rewrite Hd, Hm. destruct (Z.gtb_spec n 2147483647); [lia|]. destruct (Z.ltb_spec n 1); [lia|]. reflexivity.
Qed.

Lemma wt_of_wval_ok w : wt_ok (wt_of_wval w).
Proof. destruct w; cbn; unfold wt_ok; auto. Qed.

Lemma wenc_field_tagb f : wenc_field f = tagb (fst f) (wt_of_wval (snd f)) ++ wenc_val (snd f).
Proof. reflexivity. Qed.

(* Skip(wt) over one wire value *)
Lemma askip_val pre w rest : wf_wval w = true ->
  askip (pre ++ wenc_val w ++ rest) (plen pre) (wt_of_wval w) = SkOk (plen pre + plen (wenc_val w)).
Proof.
  intros H. destruct w as [v|v|v|bs]; cbn [wf_wval wt_of_wval wenc_val] in *; unfold askip; cbn [Z.eqb Pos.eqb].
  - apply andb_true_iff in H as [H0 H1]. apply Z.leb_le in H0. apply Z.ltb_lt in H1.
    rewrite cvar_enc by lia. reflexivity.
  - rewrite !plen_app, le_enc_plen. pose proof (plen_nonneg rest). cbn [Z.of_nat Pos.of_succ_nat Pos.succ].
    destruct (Z.leb_spec (plen pre + 8) (plen pre + (8 + plen rest))); [reflexivity|lia].
  - rewrite !plen_app, le_enc_plen. pose proof (plen_nonneg rest). cbn [Z.of_nat Pos.of_succ_nat Pos.succ].
    destruct (Z.leb_spec (plen pre + 4) (plen pre + (4 + plen rest))); [reflexivity|lia].
  - apply Z.ltb_lt in H. pose proof (plen_nonneg bs). rewrite <- app_assoc. rewrite cvar_enc by lia.
    rewrite !plen_app. pose proof (plen_nonneg rest).
    destruct (Z.gtb_spec (plen bs) (plen pre + (plen (varint_enc (plen bs)) + (plen bs + plen rest)) - plen pre - plen (varint_enc (plen bs)))); [lia|].
    f_equal. lia.
Qed.

(* tag + value of one record *)
Lemma record_skip pre f rest : wf_wfield f = true ->
  ctag (pre ++ wenc_field f ++ rest) (plen pre) = Some (fst f, wt_of_wval (snd f), plen (tagb (fst f) (wt_of_wval (snd f)))) /\
  askip (pre ++ wenc_field f ++ rest) (plen pre + plen (tagb (fst f) (wt_of_wval (snd f)))) (wt_of_wval (snd f))
    = SkOk (plen pre + plen (wenc_field f)).
Proof.
  intros H. unfold wf_wfield in H. apply andb_true_iff in H as [H Hw]. apply andb_true_iff in H as [H1 H2].
  apply Z.leb_le in H1. apply Z.leb_le in H2.
  rewrite wenc_field_tagb, <- app_assoc. split.
  - apply ctag_enc; [lia|apply wt_of_wval_ok].
  - rewrite <- plen_app, app_assoc. rewrite askip_val by exact Hw. rewrite !plen_app. f_equal. lia.
Qed.

Lemma wenc_field_plen_pos f : 1 <= plen (wenc_field f).
Proof. destruct (wenc_field_cons f) as [b [t E]]. rewrite E. unfold plen. cbn [length]. lia. Qed.

Lemma app_assoc3 {A} (a b c d : list A) : a ++ (b ++ c) ++ d = (a ++ b) ++ c ++ d.
Proof. rewrite <- !app_assoc. reflexivity. Qed.

(* ------------------------------------------------------------------ searchFieldId *)
Lemma sfi_skip w1 : forall pre rest fuel id lim,
  wf_wire w1 = true -> Forall (fun f => fst f <> id) w1 -> plen pre + plen (wenc w1) <= lim ->
  search_field_id (length w1 + fuel) (pre ++ wenc w1 ++ rest) (plen pre) id lim =
  search_field_id fuel (pre ++ wenc w1 ++ rest) (plen pre + plen (wenc w1)) id lim.
Proof.
  induction w1 as [|f w IH]; intros pre rest fuel id lim Hwf Hne Hlim.
  - cbn [length plus wenc flat_map app]. unfold plen at 2. cbn [length Z.of_nat]. rewrite Z.add_0_r. reflexivity.
  - cbn [wf_wire forallb] in Hwf. apply andb_true_iff in Hwf as [Hf Hw].
    inversion Hne as [|? ? Hf1 Hne']; subst.
    rewrite wenc_cons in *. rewrite plen_app in Hlim. pose proof (wenc_field_plen_pos f). pose proof (plen_nonneg (wenc w)).
    cbn [length plus search_field_id].
    destruct (Z.ltb_spec (plen pre) lim); [|lia].
    rewrite <- app_assoc. destruct (record_skip pre f (wenc w ++ rest) Hf) as [Ht Hs].
    rewrite Ht. destruct (Z.eqb_spec (fst f) id); [contradiction|]. rewrite Hs.
    rewrite app_assoc. rewrite <- plen_app. rewrite IH; [|exact Hw|exact Hne'|rewrite plen_app; lia].
    rewrite !plen_app. f_equal. lia.
Qed.

Lemma sfi_found pre f rest fuel lim : wf_wfield f = true -> plen pre < lim ->
  search_field_id (S fuel) (pre ++ wenc_field f ++ rest) (plen pre) (fst f) lim = SFound (plen pre) (plen pre).
Proof.
  intros Hf Hl. cbn [search_field_id]. destruct (Z.ltb_spec (plen pre) lim); [|lia].
  destruct (record_skip pre f rest Hf) as [Ht _]. rewrite Ht, Z.eqb_refl. reflexivity.
Qed.

Lemma sfi_end buf rd id fuel : search_field_id (S fuel) buf rd id rd = SNotFound.
Proof. cbn [search_field_id]. rewrite Z.ltb_irrefl. reflexivity. Qed.

(* ------------------------------------------------------------------ what follows a run of records of one number *)
(* the rest of the enclosing message: other fields' records, up to the end of the (narrowed) buffer *)
Definition inert (fnum : Z) (w2 : list wfield) : Prop :=
  wf_wire w2 = true /\ Forall (fun f => fst f <> fnum) w2.

Lemma inert_head pre w2 fnum : inert fnum w2 ->
  (w2 = [] /\ plen (pre ++ wenc w2) = plen pre) \/
  (exists num wt n, plen pre < plen (pre ++ wenc w2) /\
                    ctag (pre ++ wenc w2) (plen pre) = Some (num, wt, n) /\ num <> fnum).
Proof.
  intros [Hwf Hne]. destruct w2 as [|f w]; [left; split; [reflexivity|cbn; rewrite app_nil_r; reflexivity]|right].
  cbn [wf_wire forallb] in Hwf. apply andb_true_iff in Hwf as [Hf _]. inversion Hne; subst.
  rewrite wenc_cons. destruct (record_skip pre f (wenc w) Hf) as [Ht _].
  eexists _, _, _. split; [|split; [exact Ht|assumption]].
  rewrite !plen_app. pose proof (wenc_field_plen_pos f). pose proof (plen_nonneg (wenc w)). lia.
Qed.

Lemma wf_wire_map_pair n vals : wf_wire (map (pair n) vals) = true ->
  1 <= n <= MAX_FIELD_NUMBER \/ vals = [].
Proof.
  destruct vals as [|v vs]; [auto|]. cbn [map wf_wire forallb]. unfold wf_wfield. cbn [fst snd]. intros H.
  apply andb_true_iff in H as [H _]. apply andb_true_iff in H as [H _]. apply andb_true_iff in H as [H1 H2].
  apply Z.leb_le in H1. apply Z.leb_le in H2. left. lia.
Qed.

(* ------------------------------------------------------------------ SkipAllElements, unpacked run *)
Lemma sau_run vals : forall pre w2 fuel fnum cnt,
  wf_wire (map (pair fnum) vals) = true -> inert fnum w2 ->
  skip_all_unpacked (length vals + S fuel) (pre ++ wenc (map (pair fnum) vals) ++ wenc w2) (plen pre) fnum cnt =
  SaOk (plen pre + plen (wenc (map (pair fnum) vals))) (cnt + plen vals).
Proof.
  induction vals as [|v vals IH]; intros pre w2 fuel fnum cnt Hwf Hin.
  - cbn [map wenc flat_map app length plus]. unfold plen at 3 4. cbn [length Z.of_nat]. rewrite !Z.add_0_r.
    cbn [skip_all_unpacked].
    destruct (inert_head pre w2 fnum Hin) as [[-> E]|[num [wt [n [Hlt [Ht Hne]]]]]].
    + rewrite E, Z.ltb_irrefl. reflexivity.
    + destruct (Z.ltb_spec (plen pre) (plen (pre ++ wenc w2))); [|lia]. rewrite Ht.
      destruct (Z.eqb_spec num fnum); [contradiction|]. reflexivity.
  - cbn [map] in *. cbn [wf_wire forallb] in Hwf. apply andb_true_iff in Hwf as [Hf Hw].
    rewrite wenc_cons. cbn [length plus skip_all_unpacked].
    rewrite <- app_assoc.
    destruct (record_skip pre (fnum, v) (wenc (map (pair fnum) vals) ++ wenc w2) Hf) as [Ht Hs]. cbn [fst snd] in Ht, Hs.
    pose proof (wenc_field_plen_pos (fnum, v)).
    assert (Hlt : plen pre < plen (pre ++ wenc_field (fnum, v) ++ wenc (map (pair fnum) vals) ++ wenc w2)).
    { rewrite !plen_app. pose proof (plen_nonneg (wenc (map (pair fnum) vals))). pose proof (plen_nonneg (wenc w2)). lia. }
    destruct (Z.ltb_spec (plen pre) (plen (pre ++ wenc_field (fnum, v) ++ wenc (map (pair fnum) vals) ++ wenc w2))); [|lia].
    rewrite Ht. rewrite Z.eqb_refl. cbn [negb]. rewrite Hs.
    rewrite app_assoc, <- plen_app. rewrite IH by assumption.
    rewrite !plen_app, plen_cons. f_equal; lia.
Qed.

(* ------------------------------------------------------------------ packed payloads *)
Definition penc (k : Z) (xs : list Z) : list Z := flat_map (fun x => wenc_val (scalar_to_wire k x)) xs.

Lemma penc_cons k x xs : penc k (x :: xs) = wenc_val (scalar_to_wire k x) ++ penc k xs.
Proof. reflexivity. Qed.

Lemma scalar_val_plen_pos k x : 1 <= plen (wenc_val (scalar_to_wire k x)).
Proof. destruct (scalar_enc_cons k x) as [b [t E]]. rewrite E. unfold plen. cbn [length]. lia. Qed.

Lemma sap_run k xs : forall pre rest fuel cnt lim,
  is_numeric k = true -> Forall (fun x => scalar_okb k x = true) xs ->
  lim = plen pre + plen (penc k xs) ->
  skip_all_packed (length xs + S fuel) (pre ++ penc k xs ++ rest) (plen pre) lim (wt_of_kind k) cnt =
  SaOk lim (cnt + plen xs).
Proof.
  induction xs as [|x xs IH]; intros pre rest fuel cnt lim Hn Hall Hlim.
  - cbn [length plus skip_all_packed]. subst lim. unfold plen at 2 4. cbn [penc flat_map length Z.of_nat].
    rewrite !Z.add_0_r, Z.ltb_irrefl. reflexivity.
  - assert (Hx : scalar_okb k x = true) by (inversion Hall; assumption).
    assert (Hxs : Forall (fun x => scalar_okb k x = true) xs) by (inversion Hall; assumption).
    rewrite penc_cons in *. rewrite plen_app in Hlim.
    pose proof (scalar_val_plen_pos k x). pose proof (plen_nonneg (penc k xs)).
    cbn [length plus skip_all_packed]. destruct (Z.ltb_spec (plen pre) lim); [|lia].
    destruct (scalar_rt k x Hn Hx) as [_ [Hwf Hwt]].
    rewrite <- app_assoc, <- Hwt. rewrite askip_val by exact Hwf.
    rewrite app_assoc, <- plen_app. rewrite Hwt. rewrite (IH _ _ _ _ lim Hn Hxs) by (rewrite plen_app; lia).
    rewrite plen_cons. f_equal. lia.
Qed.

(* ------------------------------------------------------------------ searchIndex, packed *)
Lemma sip_found k xs1 : forall pre x xs2 rest fuel idx cnt lim,
  is_numeric k = true -> Forall (fun x => scalar_okb k x = true) (xs1 ++ x :: xs2) ->
  lim = plen pre + plen (penc k (xs1 ++ x :: xs2)) -> idx = cnt + plen xs1 ->
  search_index_packed (length xs1 + S fuel) all_fixes (pre ++ penc k (xs1 ++ x :: xs2) ++ rest) (plen pre) lim idx (wt_of_kind k) cnt =
  SFound (plen pre + plen (penc k xs1)) (plen pre + plen (penc k xs1)).
Proof.
  induction xs1 as [|y xs1 IH]; intros pre x xs2 rest fuel idx cnt lim Hn Hall Hlim Hidx.
  - cbn [app] in *. rewrite penc_cons in *. rewrite plen_app in Hlim.
    pose proof (scalar_val_plen_pos k x). pose proof (plen_nonneg (penc k xs2)).
    unfold plen at 1 in Hidx. cbn [length Z.of_nat] in Hidx.
    cbn [length plus search_index_packed].
    destruct (Z.ltb_spec (plen pre) lim); [|lia]. destruct (Z.ltb_spec cnt idx); [lia|]. cbn [andb].
    change (f701 all_fixes) with true. cbn [andb]. destruct (Z.geb_spec (plen pre) lim); [lia|].
    unfold plen at 3 5. cbn [penc flat_map length Z.of_nat]. rewrite Z.add_0_r. reflexivity.
  - assert (Hy : scalar_okb k y = true) by (inversion Hall; assumption).
    assert (Hys : Forall (fun x => scalar_okb k x = true) (xs1 ++ x :: xs2)) by (inversion Hall; assumption).
    cbn [app] in *. rewrite penc_cons in *. rewrite plen_app in Hlim. rewrite plen_cons in Hidx.
    pose proof (scalar_val_plen_pos k y). pose proof (plen_nonneg (penc k (xs1 ++ x :: xs2))). pose proof (plen_nonneg xs1).
    cbn [length plus search_index_packed].
    destruct (Z.ltb_spec (plen pre) lim); [|lia]. destruct (Z.ltb_spec cnt idx); [|lia]. cbn [andb].
    destruct (scalar_rt k y Hn Hy) as [_ [Hwf Hwt]].
    rewrite <- app_assoc, <- Hwt. rewrite askip_val by exact Hwf. rewrite Hwt.
    rewrite app_assoc, <- plen_app.
    rewrite (IH _ _ _ _ _ idx (cnt + 1) lim Hn Hys) by (try rewrite plen_app; lia).
    rewrite penc_cons, !plen_app. f_equal; lia.
Qed.

Lemma sip_notfound k xs : forall pre rest fuel idx cnt lim,
  is_numeric k = true -> Forall (fun x => scalar_okb k x = true) xs ->
  lim = plen pre + plen (penc k xs) -> cnt + plen xs <= idx ->
  search_index_packed (length xs + S fuel) all_fixes (pre ++ penc k xs ++ rest) (plen pre) lim idx (wt_of_kind k) cnt = SNotFound.
Proof.
  induction xs as [|y xs IH]; intros pre rest fuel idx cnt lim Hn Hall Hlim Hidx.
  - assert (E : lim = plen pre) by (subst lim; cbn; lia). clear Hlim. subst lim.
    cbn [length plus search_index_packed].
    rewrite Z.ltb_irrefl. cbn [andb]. change (f701 all_fixes) with true. cbn [andb].
    destruct (Z.geb_spec (plen pre) (plen pre)); [reflexivity|lia].
  - assert (Hy : scalar_okb k y = true) by (inversion Hall; assumption).
    assert (Hys : Forall (fun x => scalar_okb k x = true) xs) by (inversion Hall; assumption).
    rewrite penc_cons in *. rewrite plen_app in Hlim. rewrite plen_cons in Hidx.
    pose proof (scalar_val_plen_pos k y). pose proof (plen_nonneg (penc k xs)). pose proof (plen_nonneg xs).
    cbn [length plus search_index_packed].
    destruct (Z.ltb_spec (plen pre) lim); [|lia]. destruct (Z.ltb_spec cnt idx); [|lia]. cbn [andb].
    destruct (scalar_rt k y Hn Hy) as [_ [Hwf Hwt]].
    rewrite <- app_assoc, <- Hwt. rewrite askip_val by exact Hwf. rewrite Hwt.
    rewrite app_assoc, <- plen_app.
    apply (IH _ _ _ idx (cnt + 1) lim Hn Hys); [rewrite plen_app; lia|lia].
Qed.

(* ------------------------------------------------------------------ searchIndex, unpacked *)
Lemma wenc_val_plen_pos w : 1 <= plen (wenc_val w).
Proof.
  destruct w as [v|v|v|bs]; cbn [wenc_val].
  - destruct (varint_enc_cons v) as [b [t E]]. rewrite E. rewrite plen_cons. pose proof (plen_nonneg t). lia.
  - rewrite le_enc_plen. cbn. lia.
  - rewrite le_enc_plen. cbn. lia.
  - rewrite plen_app. destruct (varint_enc_cons (plen bs)) as [b [t E]]. rewrite E. rewrite plen_cons.
    pose proof (plen_nonneg t). pose proof (plen_nonneg bs). lia.
Qed.

Ltac reassoc := cbn [map]; rewrite ?wenc_cons, ?wenc_field_tagb; cbn [fst snd]; repeat rewrite <- app_assoc; reflexivity.

(* the cursor is behind the tag of an element v; vs are the following elements of the run *)
Lemma siu_found vs1 : forall pre v w vs2 w2 fuel idx cnt result ex fnum ewt,
  wf_wval v = true -> wt_of_wval v = ewt ->
  wf_wire (map (pair fnum) (vs1 ++ w :: vs2)) = true ->
  Forall (fun u => wt_of_wval u = ewt) (vs1 ++ w :: vs2) ->
  idx = cnt + 1 + plen vs1 ->
  search_index_unpacked (length vs1 + S (S fuel)) all_fixes
    (pre ++ wenc_val v ++ wenc (map (pair fnum) (vs1 ++ w :: vs2)) ++ wenc w2) (plen pre) idx ewt fnum cnt result ex
  = SFound (plen pre + plen (wenc_val v) + plen (wenc (map (pair fnum) vs1)) + plen (tagb fnum ewt))
           (plen pre + plen (wenc_val v) + plen (wenc (map (pair fnum) vs1))).
Proof.
  induction vs1 as [|u vs1 IH]; intros pre v w vs2 w2 fuel idx cnt result ex fnum ewt Hv Hwt Hwf Hall Hidx.
  - cbn [app] in *. rewrite plen_cons in Hidx || (unfold plen at 1 in Hidx; cbn [length Z.of_nat] in Hidx).
    cbn [map] in Hwf. cbn [wf_wire forallb] in Hwf. apply andb_true_iff in Hwf as [Hfw _].
    assert (Hww : wt_of_wval w = ewt) by (inversion Hall; assumption).
    pose proof (wenc_val_plen_pos v) as Hpv. pose proof (wenc_field_plen_pos (fnum, w)) as Hpw.
    set (buf := pre ++ wenc_val v ++ wenc (map (pair fnum) (w :: vs2)) ++ wenc w2).
    assert (Eb : buf = (pre ++ wenc_val v) ++ wenc_field (fnum, w) ++ wenc (map (pair fnum) vs2) ++ wenc w2) by (unfold buf; reassoc).
    assert (Hlen : plen pre + plen (wenc_val v) + plen (wenc_field (fnum, w)) <= plen buf).
    { rewrite Eb, !plen_app. pose proof (plen_nonneg (wenc (map (pair fnum) vs2))). pose proof (plen_nonneg (wenc w2)). lia. }
    cbn [length plus search_index_unpacked].
    destruct (Z.ltb_spec (plen pre) (plen buf)); [|lia]. destruct (Z.ltb_spec cnt idx); [|lia]. cbn [andb].
    subst ewt. unfold buf at 1. rewrite askip_val by exact Hv. fold buf.
    destruct (Z.ltb_spec (plen pre + plen (wenc_val v)) (plen buf)); [|lia].
    destruct (record_skip (pre ++ wenc_val v) (fnum, w) (wenc (map (pair fnum) vs2) ++ wenc w2) Hfw) as [Ht _].
    rewrite <- Eb, plen_app in Ht. cbn [fst snd] in Ht. rewrite Ht. rewrite Z.eqb_refl. cbn [negb].
    destruct (Z.ltb_spec (cnt + 1) idx); [lia|].
    (* second round: the counter has reached the index *)
    destruct (Z.ltb_spec (plen pre + plen (wenc_val v)) (plen buf)); [|lia]. cbn [andb].
    change (f701 all_fixes) with true. cbn [negb andb].
    destruct (Z.ltb_spec (cnt + 1) idx); [lia|].
    unfold plen at 5 8. cbn [map wenc flat_map length Z.of_nat]. rewrite !Z.add_0_r. rewrite Hww. reflexivity.
  - cbn [app] in *. rewrite plen_cons in Hidx. pose proof (plen_nonneg vs1) as Hp1.
    cbn [map] in Hwf. cbn [wf_wire forallb] in Hwf. apply andb_true_iff in Hwf as [Hfu Hwf'].
    assert (Huw : wt_of_wval u = ewt) by (inversion Hall; assumption).
    assert (Hall' : Forall (fun u => wt_of_wval u = ewt) (vs1 ++ w :: vs2)) by (inversion Hall; assumption).
    pose proof (wenc_val_plen_pos v) as Hpv. pose proof (wenc_field_plen_pos (fnum, u)) as Hpu.
    set (buf := pre ++ wenc_val v ++ wenc (map (pair fnum) (u :: vs1 ++ w :: vs2)) ++ wenc w2).
    assert (Eb : buf = (pre ++ wenc_val v) ++ wenc_field (fnum, u) ++ wenc (map (pair fnum) (vs1 ++ w :: vs2)) ++ wenc w2) by (unfold buf; reassoc).
    assert (Eb2 : buf = (pre ++ wenc_val v ++ tagb fnum (wt_of_wval u)) ++ wenc_val u ++ wenc (map (pair fnum) (vs1 ++ w :: vs2)) ++ wenc w2) by (unfold buf; reassoc).
    assert (Hlen : plen pre + plen (wenc_val v) + plen (wenc_field (fnum, u)) <= plen buf).
    { rewrite Eb, !plen_app. pose proof (plen_nonneg (wenc (map (pair fnum) (vs1 ++ w :: vs2)))). pose proof (plen_nonneg (wenc w2)). lia. }
    cbn [length plus search_index_unpacked].
    destruct (Z.ltb_spec (plen pre) (plen buf)); [|lia]. destruct (Z.ltb_spec cnt idx); [|lia]. cbn [andb].
    subst ewt. unfold buf at 1. rewrite askip_val by exact Hv. fold buf.
    destruct (Z.ltb_spec (plen pre + plen (wenc_val v)) (plen buf)); [|lia].
    destruct (record_skip (pre ++ wenc_val v) (fnum, u) (wenc (map (pair fnum) (vs1 ++ w :: vs2)) ++ wenc w2) Hfu) as [Ht _].
    rewrite <- Eb, plen_app in Ht. cbn [fst snd] in Ht. rewrite Ht. rewrite Z.eqb_refl. cbn [negb].
    destruct (Z.ltb_spec (cnt + 1) idx); [|lia].
    assert (Hfu' : wf_wval u = true).
    { unfold wf_wfield in Hfu. cbn [fst snd] in Hfu. apply andb_true_iff in Hfu as [_ Hfu]. exact Hfu. }
    replace (plen pre + plen (wenc_val v) + plen (tagb fnum (wt_of_wval u)))
      with (plen (pre ++ wenc_val v ++ tagb fnum (wt_of_wval u))) by (rewrite !plen_app; lia).
    rewrite Eb2.
    rewrite (IH _ u w vs2 w2 fuel idx (cnt + 1) _ true fnum (wt_of_wval v) Hfu' Huw Hwf' Hall') by lia.
    cbn [map]. rewrite wenc_cons, wenc_field_tagb. cbn [fst snd]. rewrite !plen_app. rewrite Huw. f_equal; lia.
Qed.

Lemma siu_notfound vs : forall pre v w2 fuel idx cnt result ex fnum ewt,
  wf_wval v = true -> wt_of_wval v = ewt ->
  wf_wire (map (pair fnum) vs) = true -> Forall (fun u => wt_of_wval u = ewt) vs -> inert fnum w2 ->
  cnt + 1 + plen vs <= idx ->
  search_index_unpacked (length vs + S fuel) all_fixes
    (pre ++ wenc_val v ++ wenc (map (pair fnum) vs) ++ wenc w2) (plen pre) idx ewt fnum cnt result ex = SNotFound.
Proof.
  induction vs as [|u vs IH]; intros pre v w2 fuel idx cnt result ex fnum ewt Hv Hwt Hwf Hall Hin Hidx.
  - unfold plen at 1 in Hidx. cbn [length Z.of_nat] in Hidx.
    cbn [map wenc flat_map app]. pose proof (wenc_val_plen_pos v) as Hpv.
    set (buf := pre ++ wenc_val v ++ wenc w2).
    assert (Eb : buf = (pre ++ wenc_val v) ++ wenc w2) by (unfold buf; rewrite <- app_assoc; reflexivity).
    assert (Hlen : plen pre + plen (wenc_val v) <= plen buf).
    { unfold buf. rewrite !plen_app. pose proof (plen_nonneg (wenc w2)). lia. }
    cbn [length plus search_index_unpacked].
    destruct (Z.ltb_spec (plen pre) (plen buf)); [|lia]. destruct (Z.ltb_spec cnt idx); [|lia]. cbn [andb].
    subst ewt. unfold buf at 1. rewrite askip_val by exact Hv. fold buf.
    change (f701 all_fixes) with true.
    destruct (inert_head (pre ++ wenc_val v) w2 fnum Hin) as [[-> E]|[num [wt [n [Hlt [Ht Hne]]]]]].
    + rewrite <- Eb, plen_app in E. rewrite E, Z.ltb_irrefl. reflexivity.
    + rewrite <- Eb, plen_app in Hlt, Ht.
      destruct (Z.ltb_spec (plen pre + plen (wenc_val v)) (plen buf)); [|lia]. rewrite Ht.
      destruct (Z.eqb_spec num fnum); [contradiction|]. reflexivity.
  - rewrite plen_cons in Hidx. pose proof (plen_nonneg vs) as Hp1.
    cbn [map] in Hwf. cbn [wf_wire forallb] in Hwf. apply andb_true_iff in Hwf as [Hfu Hwf'].
    assert (Huw : wt_of_wval u = ewt) by (inversion Hall; assumption).
    assert (Hall' : Forall (fun u => wt_of_wval u = ewt) vs) by (inversion Hall; assumption).
    pose proof (wenc_val_plen_pos v) as Hpv. pose proof (wenc_field_plen_pos (fnum, u)) as Hpu.
    set (buf := pre ++ wenc_val v ++ wenc (map (pair fnum) (u :: vs)) ++ wenc w2).
    assert (Eb : buf = (pre ++ wenc_val v) ++ wenc_field (fnum, u) ++ wenc (map (pair fnum) vs) ++ wenc w2) by (unfold buf; reassoc).
    assert (Eb2 : buf = (pre ++ wenc_val v ++ tagb fnum (wt_of_wval u)) ++ wenc_val u ++ wenc (map (pair fnum) vs) ++ wenc w2) by (unfold buf; reassoc).
    assert (Hlen : plen pre + plen (wenc_val v) + plen (wenc_field (fnum, u)) <= plen buf).
    { rewrite Eb, !plen_app. pose proof (plen_nonneg (wenc (map (pair fnum) vs))). pose proof (plen_nonneg (wenc w2)). lia. }
    cbn [length plus search_index_unpacked].
    destruct (Z.ltb_spec (plen pre) (plen buf)); [|lia]. destruct (Z.ltb_spec cnt idx); [|lia]. cbn [andb].
    subst ewt. unfold buf at 1. rewrite askip_val by exact Hv. fold buf.
    destruct (Z.ltb_spec (plen pre + plen (wenc_val v)) (plen buf)); [|lia].
    destruct (record_skip (pre ++ wenc_val v) (fnum, u) (wenc (map (pair fnum) vs) ++ wenc w2) Hfu) as [Ht _].
    rewrite <- Eb, plen_app in Ht. cbn [fst snd] in Ht. rewrite Ht. rewrite Z.eqb_refl. cbn [negb].
    destruct (Z.ltb_spec (cnt + 1) idx); [|lia].
    assert (Hfu' : wf_wval u = true).
    { unfold wf_wfield in Hfu. cbn [fst snd] in Hfu. apply andb_true_iff in Hfu as [_ Hfu]. exact Hfu. }
    replace (plen pre + plen (wenc_val v) + plen (tagb fnum (wt_of_wval u)))
      with (plen (pre ++ wenc_val v ++ tagb fnum (wt_of_wval u))) by (rewrite !plen_app; lia).
    rewrite Eb2.
    apply (IH _ u w2 fuel idx (cnt + 1) _ true fnum (wt_of_wval v) Hfu' Huw Hwf' Hall' Hin). lia.
Qed.

(* ------------------------------------------------------------------ searchStrKey / searchIntKey *)
(* a map entry as the pair (key, wire value of the map value) *)
Definition kval (k : mkey) : wval := snd (key_field k).
Definition ebody (e : mkey * wval) : list Z :=
  tagb 1 (wt_of_wval (kval (fst e))) ++ wenc_val (kval (fst e)) ++ tagb 2 (wt_of_wval (snd e)) ++ wenc_val (snd e).
Definition erec (fnum : Z) (e : mkey * wval) : wfield := (fnum, WBytes (ebody e)).
Definition evalb (e : mkey * wval) : list Z := varint_enc (plen (ebody e)) ++ ebody e.
Definition wf_entry (e : mkey * wval) : bool :=
  wf_wval (kval (fst e)) && wf_wval (snd e) && (plen (ebody e) <? 2 ^ 64).

Lemma ebody_wenc k xv : wenc [key_field k; (2, xv)] = ebody (k, xv).
Proof.
  unfold ebody, kval. cbn [wenc flat_map fst snd]. rewrite app_nil_r, !wenc_field_tagb. cbn [fst snd].
  rewrite key_field_fst. rewrite <- !app_assoc. reflexivity.
Qed.

Lemma erec_enc fnum e : wenc_field (erec fnum e) = tagb fnum 2 ++ evalb e.
Proof. reflexivity. Qed.

(* the key reader applied behind a key tag answers (matches?, cursor behind the key) *)
Definition rdkey_ok (buf : list Z) (rdkey : Z -> option (bool * Z)) (matchb : mkey -> bool) (keys : list mkey) : Prop :=
  forall pre k rest, In k keys -> buf = pre ++ wenc_val (kval k) ++ rest ->
    rdkey (plen pre) = Some (matchb k, plen pre + plen (wenc_val (kval k))).

Lemma ebody_plen_pos e : 1 <= plen (ebody e).
Proof.
  unfold ebody. rewrite !plen_app. unfold tagb.
  destruct (varint_enc_cons (1 * 8 + wt_of_wval (kval (fst e)))) as [b [t E]]. rewrite E, plen_cons.
  pose proof (plen_nonneg t). pose proof (plen_nonneg (wenc_val (kval (fst e)))).
  pose proof (plen_nonneg (varint_enc (2 * 8 + wt_of_wval (snd e)))). pose proof (plen_nonneg (wenc_val (snd e))). lia.
Qed.

(* one round of the loop on the entry behind whose pair tag the cursor is *)
Lemma sk_round buf rdkey matchb keys pre e rest fuel fnum :
  rdkey_ok buf rdkey matchb keys -> In (fst e) keys -> wf_entry e = true ->
  buf = pre ++ evalb e ++ rest -> 
  search_key (S fuel) buf rdkey (plen pre) fnum =
  if matchb (fst e)
  then let p := plen pre + plen (varint_enc (plen (ebody e))) + plen (tagb 1 (wt_of_wval (kval (fst e)))) + plen (wenc_val (kval (fst e))) in
       SFound p p
  else let rd3 := plen pre + plen (evalb e) in
       if rd3 >=? plen buf then SNotFound
       else match ctag buf rd3 with
            | None => SErrRaw
            | Some (num, _, n3) => if negb (num =? fnum) then SNotFound else search_key fuel buf rdkey (rd3 + n3) fnum
            end.
Proof.
  intros Hrd Hin Hwf Eb. unfold wf_entry in Hwf. apply andb_true_iff in Hwf as [Hwf Hl]. apply andb_true_iff in Hwf as [Hk Hx].
  apply Z.ltb_lt in Hl. pose proof (ebody_plen_pos e) as Hpos.
  set (lenb := varint_enc (plen (ebody e))) in *.
  set (t1 := tagb 1 (wt_of_wval (kval (fst e)))) in *. set (kb := wenc_val (kval (fst e))) in *.
  set (t2 := tagb 2 (wt_of_wval (snd e))) in *. set (xb := wenc_val (snd e)) in *.
  assert (E0 : buf = pre ++ lenb ++ (t1 ++ kb ++ t2 ++ xb ++ rest)).
  { rewrite Eb. unfold evalb. fold lenb. unfold ebody. fold t1 kb t2 xb. repeat rewrite <- app_assoc. reflexivity. }
  assert (E1 : buf = (pre ++ lenb) ++ t1 ++ (kb ++ t2 ++ xb ++ rest)) by (rewrite E0; repeat rewrite <- app_assoc; reflexivity).
  assert (E2 : buf = (pre ++ lenb ++ t1) ++ kb ++ (t2 ++ xb ++ rest)) by (rewrite E0; repeat rewrite <- app_assoc; reflexivity).
  assert (E3 : buf = (pre ++ lenb ++ t1 ++ kb) ++ t2 ++ (xb ++ rest)) by (rewrite E0; repeat rewrite <- app_assoc; reflexivity).
  assert (E4 : buf = (pre ++ lenb ++ t1 ++ kb ++ t2) ++ xb ++ rest) by (rewrite E0; repeat rewrite <- app_assoc; reflexivity).
  assert (Hlt : plen pre < plen buf).
  { rewrite E0, !plen_app. unfold lenb. destruct (varint_enc_cons (plen (ebody e))) as [b [t E]]. rewrite E, plen_cons.
    pose proof (plen_nonneg t). pose proof (plen_nonneg t1). pose proof (plen_nonneg kb). pose proof (plen_nonneg t2).
    pose proof (plen_nonneg xb). pose proof (plen_nonneg rest). lia. }
  cbn [search_key]. destruct (Z.ltb_spec (plen pre) (plen buf)); [|lia].
  unfold aread_length. rewrite E0 at 1. unfold lenb at 1. rewrite cvar_enc by lia. fold lenb.
  rewrite E1 at 1. rewrite <- plen_app. unfold t1 at 1. rewrite ctag_enc; [|unfold MAX_FIELD_NUMBER; lia|apply wt_of_wval_ok]. fold t1.
  replace (plen (pre ++ lenb) + plen t1) with (plen (pre ++ lenb ++ t1)) by (rewrite !plen_app; lia).
  rewrite (Hrd (pre ++ lenb ++ t1) (fst e) (t2 ++ xb ++ rest) Hin E2). fold kb.
  destruct (matchb (fst e)).
  - cbv zeta. rewrite !plen_app. f_equal; lia.
  - replace (plen (pre ++ lenb ++ t1) + plen kb) with (plen (pre ++ lenb ++ t1 ++ kb)) by (rewrite !plen_app; lia).
    rewrite E3 at 1. unfold t2 at 1. rewrite ctag_enc; [|unfold MAX_FIELD_NUMBER; lia|apply wt_of_wval_ok]. fold t2.
    replace (plen (pre ++ lenb ++ t1 ++ kb) + plen t2) with (plen (pre ++ lenb ++ t1 ++ kb ++ t2)) by (rewrite !plen_app; lia).
    rewrite E4 at 1. unfold xb at 1. rewrite askip_val by exact Hx. fold xb.
    cbv zeta.
    replace (plen (pre ++ lenb ++ t1 ++ kb ++ t2) + plen xb) with (plen pre + plen (evalb e)).
    2:{ unfold evalb. fold lenb. unfold ebody. fold t1 kb t2 xb. rewrite !plen_app. lia. }
    reflexivity.
Qed.

(* what the scan answers on the entries es (cursor behind the pair tag of the first one) *)
Fixpoint sk_expect (matchb : mkey -> bool) (fnum pos : Z) (es : list (mkey * wval)) : sres :=
  match es with
  | [] => SNotFound
  | e :: r =>
    if matchb (fst e)
    then let p := pos + plen (varint_enc (plen (ebody e))) + plen (tagb 1 (wt_of_wval (kval (fst e)))) + plen (wenc_val (kval (fst e))) in
         SFound p p
    else match r with
         | [] => SNotFound
         | _ => sk_expect matchb fnum (pos + plen (evalb e) + plen (tagb fnum 2)) r
         end
  end.

Lemma sk_run r : forall buf rdkey matchb keys pre e w2 fuel fnum,
  rdkey_ok buf rdkey matchb keys -> 1 <= fnum <= MAX_FIELD_NUMBER ->
  (forall a, In a (e :: r) -> In (fst a) keys /\ wf_entry a = true) -> inert fnum w2 ->
  buf = pre ++ evalb e ++ wenc (map (erec fnum) r) ++ wenc w2 ->
  search_key (S (length r) + fuel) buf rdkey (plen pre) fnum = sk_expect matchb fnum (plen pre) (e :: r).
Proof.
  induction r as [|e' r IH]; intros buf rdkey matchb keys pre e w2 fuel fnum Hrd Hn Hall Hin Eb.
  - destruct (Hall e (or_introl eq_refl)) as [Hk Hwf].
    cbn [length plus]. rewrite (sk_round buf rdkey matchb keys pre e (wenc (map (erec fnum) []) ++ wenc w2) fuel fnum Hrd Hk Hwf Eb).
    cbn [sk_expect]. destruct (matchb (fst e)); [reflexivity|]. cbv zeta.
    cbn [map wenc flat_map app] in Eb.
    assert (Eb' : buf = (pre ++ evalb e) ++ wenc w2) by (rewrite Eb, <- app_assoc; reflexivity).
    destruct (inert_head (pre ++ evalb e) w2 fnum Hin) as [[-> E]|[num [wt [n [Hlt [Ht Hne]]]]]].
    + rewrite <- Eb', plen_app in E. rewrite <- E. destruct (Z.geb_spec (plen buf) (plen buf)); [reflexivity|lia].
    + rewrite <- Eb', plen_app in Hlt, Ht.
      destruct (Z.geb_spec (plen pre + plen (evalb e)) (plen buf)); [lia|]. rewrite Ht.
      destruct (Z.eqb_spec num fnum); [contradiction|]. reflexivity.
  - destruct (Hall e (or_introl eq_refl)) as [Hk Hwf].
    destruct (Hall e' (or_intror (or_introl eq_refl))) as [Hk' Hwf'].
    cbn [length plus]. rewrite (sk_round buf rdkey matchb keys pre e (wenc (map (erec fnum) (e' :: r)) ++ wenc w2) _ fnum Hrd Hk Hwf Eb).
    cbn [sk_expect]. destruct (matchb (fst e)); [reflexivity|]. cbv zeta.
    assert (Hfe : wf_wfield (erec fnum e') = true).
    { unfold wf_wfield, erec. cbn [fst snd wf_wval]. unfold wf_entry in Hwf'. apply andb_true_iff in Hwf' as [_ Hl]. rewrite Hl.
      destruct (Z.leb_spec 1 fnum); [|lia]. destruct (Z.leb_spec fnum MAX_FIELD_NUMBER); [|lia]. reflexivity. }
    assert (Eb1 : buf = (pre ++ evalb e) ++ wenc_field (erec fnum e') ++ wenc (map (erec fnum) r) ++ wenc w2).
    { rewrite Eb. cbn [map]. rewrite wenc_cons. repeat rewrite <- app_assoc. reflexivity. }
    assert (Eb2 : buf = (pre ++ evalb e ++ tagb fnum 2) ++ evalb e' ++ wenc (map (erec fnum) r) ++ wenc w2).
    { rewrite Eb1, erec_enc. repeat rewrite <- app_assoc. reflexivity. }
    destruct (record_skip (pre ++ evalb e) (erec fnum e') (wenc (map (erec fnum) r) ++ wenc w2) Hfe) as [Ht _].
    rewrite <- Eb1, plen_app in Ht. cbn [erec fst snd wt_of_wval] in Ht.
    assert (Hlt : plen pre + plen (evalb e) < plen buf).
    { rewrite Eb1, !plen_app. pose proof (wenc_field_plen_pos (erec fnum e')).
      pose proof (plen_nonneg (wenc (map (erec fnum) r))). pose proof (plen_nonneg (wenc w2)). lia. }
    destruct (Z.geb_spec (plen pre + plen (evalb e)) (plen buf)); [lia|]. rewrite Ht. rewrite Z.eqb_refl. cbn [negb].
    replace (plen pre + plen (evalb e) + plen (tagb fnum 2)) with (plen (pre ++ evalb e ++ tagb fnum 2)) by (rewrite !plen_app; lia).
    apply (IH buf rdkey matchb keys _ e' w2 fuel fnum Hrd Hn); [|exact Hin|exact Eb2].
    intros a Ha. apply Hall. right. exact Ha.
Qed.

(* ------------------------------------------------------------------ the key readers *)
Lemma to_s64_id v : - 9223372036854775808 <= v < 9223372036854775808 -> to_s 64 v = v.
Proof.
  intros H. unfold to_s. change (2 ^ (64 - 1)) with 9223372036854775808. change (2 ^ 64) with 18446744073709551616.
  Z.div_mod_to_equations. lia.
Qed.

Lemma aread_string_enc pre bs rest : plen bs < 2 ^ 64 ->
  aread_string (pre ++ wenc_val (WBytes bs) ++ rest) (plen pre) = Some (bs, plen pre + plen (wenc_val (WBytes bs))).
Proof.
  intros H. pose proof (plen_nonneg bs). unfold aread_string. cbn [wenc_val]. rewrite <- app_assoc.
  rewrite cvar_enc by lia. rewrite !plen_app. pose proof (plen_nonneg rest).
  destruct (Z.gtb_spec (plen bs) (plen pre + (plen (varint_enc (plen bs)) + (plen bs + plen rest)) - plen pre - plen (varint_enc (plen bs)))); [lia|].
  f_equal. f_equal.
  - rewrite app_assoc. rewrite <- plen_app. rewrite at_app. unfold plen. rewrite Nat2Z.id. apply firstn_app_len.
  - lia.
Qed.

Lemma le_dec_at n pre v rest : 0 <= v < 256 ^ Z.of_nat n ->
  le_dec n (at_ (pre ++ le_enc n v ++ rest) (plen pre)) = v.
Proof. intros H. rewrite at_app. apply le_dec_enc. exact H. Qed.

Lemma kind_is_int_cases k : kind_is_int k = true -> In k [5; 3; 15; 16; 18; 17; 13; 4; 7; 6].
Proof.
  unfold kind_is_int. intros H.
  repeat (apply orb_true_iff in H; destruct H as [H|H]); apply Z.eqb_eq in H; subst; cbn; tauto.
Qed.

Lemma aread_int_enc pre kk v rest : kind_is_int kk = true -> scalar_okb kk v = true ->
  aread_int (pre ++ wenc_val (scalar_to_wire kk v) ++ rest) (plen pre) kk =
  Some (to_s 64 v, plen pre + plen (wenc_val (scalar_to_wire kk v))).
Proof.
  intros Hk Hok. apply kind_is_int_cases in Hk. cbn [In] in Hk.
  change (2 ^ 64) with 18446744073709551616 in *.
  repeat (destruct Hk as [<-|Hk]); try contradiction;
  unfold scalar_okb in Hok; cbn [Z.eqb Pos.eqb orb] in Hok;
  unfold aread_int, scalar_to_wire, scalar_of_u, wt_of_kind; cbn [Z.eqb Pos.eqb orb wenc_val];
  change (2 ^ 64) with 18446744073709551616; change (2 ^ 32) with 4294967296.
  (* 5 int32 *)
  - kill_bounds Hok. rewrite cvar_enc by (change (2 ^ 64) with 18446744073709551616; apply Z.mod_pos_bound; lia).
    rewrite to_s32_mod64 by lia. reflexivity.
  (* 3 int64 *)
  - kill_bounds Hok. rewrite cvar_enc by (change (2 ^ 64) with 18446744073709551616; apply Z.mod_pos_bound; lia).
    rewrite to_s64_mod64 by lia. reflexivity.
  (* 15 sfixed32 *)
  - kill_bounds Hok. rewrite !plen_app, le_enc_plen. pose proof (plen_nonneg rest). cbn [Z.of_nat Pos.of_succ_nat Pos.succ].
    destruct (Z.leb_spec (plen pre + 4) (plen pre + (4 + plen rest))); [|lia].
    rewrite le_dec_at by (change (256 ^ Z.of_nat 4) with 4294967296; apply Z.mod_pos_bound; lia).
    rewrite to_s32_mod32 by lia. rewrite to_s64_id by lia. reflexivity.
  (* 16 sfixed64 *)
  - kill_bounds Hok. rewrite !plen_app, le_enc_plen. pose proof (plen_nonneg rest). cbn [Z.of_nat Pos.of_succ_nat Pos.succ].
    destruct (Z.leb_spec (plen pre + 8) (plen pre + (8 + plen rest))); [|lia].
    rewrite le_dec_at by (change (256 ^ Z.of_nat 8) with 18446744073709551616; apply Z.mod_pos_bound; lia).
    rewrite to_s64_mod64 by lia. rewrite to_s64_id by lia. reflexivity.
  (* 18 sint64 *)
  - kill_bounds Hok. pose proof (zigzag_enc_range64 v ltac:(lia)).
    rewrite cvar_enc by (change (2 ^ 64) with 18446744073709551616; lia). rewrite zigzag_dec_enc. reflexivity.
  (* 17 sint32 *)
  - kill_bounds Hok. pose proof (zigzag_enc_range32 v ltac:(lia)).
    rewrite cvar_enc by (change (2 ^ 64) with 18446744073709551616; lia).
    rewrite Z.mod_small by lia. rewrite zigzag_dec_enc. reflexivity.
  (* 13 uint32 *)
  - kill_bounds Hok. rewrite (Z.mod_small v 18446744073709551616) by lia.
    rewrite cvar_enc by (change (2 ^ 64) with 18446744073709551616; lia). rewrite Z.mod_small by lia. reflexivity.
  (* 4 uint64 *)
  - kill_bounds Hok. rewrite (Z.mod_small v 18446744073709551616) by lia.
    rewrite cvar_enc by (change (2 ^ 64) with 18446744073709551616; lia). reflexivity.
  (* 7 fixed32 *)
  - kill_bounds Hok. rewrite !plen_app, le_enc_plen. pose proof (plen_nonneg rest). cbn [Z.of_nat Pos.of_succ_nat Pos.succ].
    destruct (Z.leb_spec (plen pre + 4) (plen pre + (4 + plen rest))); [|lia].
    rewrite (Z.mod_small v 4294967296) by lia.
    rewrite le_dec_at by (change (256 ^ Z.of_nat 4) with 4294967296; lia). rewrite to_s64_id by lia. reflexivity.
  (* 6 fixed64 *)
  - kill_bounds Hok. rewrite !plen_app, le_enc_plen. pose proof (plen_nonneg rest). cbn [Z.of_nat Pos.of_succ_nat Pos.succ].
    destruct (Z.leb_spec (plen pre + 8) (plen pre + (8 + plen rest))); [|lia].
    rewrite (Z.mod_small v 18446744073709551616) by lia.
    rewrite le_dec_at by (change (256 ^ Z.of_nat 8) with 18446744073709551616; lia). reflexivity.
Qed.

(* ------------------------------------------------------------------ the final slice *)
Definition scalar_tt (tt : Z) : Prop := tt <> T_LIST /\ tt <> T_MAP.

Lemma tt_test_false tt : scalar_tt tt -> (tt =? T_LIST) || (tt =? T_MAP) = false.
Proof. intros [H1 H2]. destruct (Z.eqb_spec tt T_LIST); [contradiction|]. destruct (Z.eqb_spec tt T_MAP); [contradiction|]. reflexivity. Qed.

(* the cursor is ON the tag of a record (num', w) *)
Lemma gf_record pre num' w rest lbl t num tt start :
  wf_wfield (num', w) = true -> desc_packed lbl t = false -> elem_wt t = wt_of_wval w -> scalar_tt tt ->
  gbp_final all_fixes (pre ++ wenc_field (num', w) ++ rest) lbl t num tt start (plen pre) = GFoundA tt (wenc_val w) 0.
Proof.
  intros Hf Hp He Ht. unfold gbp_final. rewrite (tt_test_false _ Ht), Hp.
  destruct (record_skip pre (num', w) rest Hf) as [Hc Hs]. cbn [fst snd] in Hc, Hs. rewrite Hc, He, Hs.
  pose proof (plen_nonneg (tagb num' (wt_of_wval w))). pose proof (plen_nonneg (wenc_val w)).
  rewrite wenc_field_tagb. cbn [fst snd]. rewrite plen_app.
  destruct (Z.ltb_spec (plen pre + (plen (tagb num' (wt_of_wval w)) + plen (wenc_val w))) (plen pre + plen (tagb num' (wt_of_wval w)))); [lia|].
  f_equal.
  replace (pre ++ (tagb num' (wt_of_wval w) ++ wenc_val w) ++ rest)
    with ((pre ++ tagb num' (wt_of_wval w)) ++ wenc_val w ++ rest) by (repeat rewrite <- app_assoc; reflexivity).
  replace (plen pre + plen (tagb num' (wt_of_wval w))) with (plen (pre ++ tagb num' (wt_of_wval w))) by (rewrite plen_app; lia).
  replace (plen pre + (plen (tagb num' (wt_of_wval w)) + plen (wenc_val w))) with (plen (pre ++ tagb num' (wt_of_wval w)) + plen (wenc_val w)) by (rewrite plen_app; lia).
  apply slice_app.
Qed.

(* the cursor is on an element of a packed payload *)
Lemma gf_packed_elem pre w rest lbl t num tt :
  wf_wval w = true -> desc_packed lbl t = true -> elem_wt t = wt_of_wval w -> scalar_tt tt ->
  gbp_final all_fixes (pre ++ wenc_val w ++ rest) lbl t num tt (plen pre) (plen pre) = GFoundA tt (wenc_val w) 0.
Proof.
  intros Hw Hp He Ht. unfold gbp_final. rewrite (tt_test_false _ Ht), Hp, He, askip_val by exact Hw.
  pose proof (plen_nonneg (wenc_val w)). destruct (Z.ltb_spec (plen pre + plen (wenc_val w)) (plen pre)); [lia|].
  rewrite slice_app. reflexivity.
Qed.

(* a packed list: the cursor is on the tag of its single record *)
Lemma gf_packed_list pre num k xs rest lbl t tt :
  1 <= num <= MAX_FIELD_NUMBER -> is_numeric k = true -> Forall (fun x => scalar_okb k x = true) xs ->
  plen (penc k xs) < 9223372036854775808 ->
  desc_packed lbl t = true -> elem_wt t = wt_of_kind k -> (tt = T_LIST \/ tt = T_MAP) ->
  gbp_final all_fixes (pre ++ wenc_field (num, WBytes (penc k xs)) ++ rest) lbl t num tt (plen pre) (plen pre)
  = GFoundA tt (wenc_field (num, WBytes (penc k xs))) (plen xs).
Proof.
  intros Hn Hk Hall Hlen Hp He Ht. unfold gbp_final.
  assert (Ett : (tt =? T_LIST) || (tt =? T_MAP) = true) by (destruct Ht as [-> | ->]; reflexivity). rewrite Ett, Hp.
  unfold skip_all_elements. change (f703 all_fixes) with true. change (f710 all_fixes) with true.
  pose proof (plen_nonneg (penc k xs)) as Hp0.
  set (lenb := varint_enc (plen (penc k xs))). set (tg := tagb num 2).
  assert (E0 : pre ++ wenc_field (num, WBytes (penc k xs)) ++ rest = pre ++ tg ++ (lenb ++ penc k xs ++ rest)).
  { rewrite wenc_field_tagb. cbn [fst snd wt_of_wval wenc_val]. fold tg lenb. repeat rewrite <- app_assoc. reflexivity. }
  rewrite E0. unfold tg at 1. rewrite ctag_enc; [|exact Hn|unfold wt_ok; auto]. fold tg.
  unfold aread_length. rewrite app_assoc, <- plen_app. unfold lenb at 1.
  rewrite cvar_enc by (change (2 ^ 64) with 18446744073709551616; lia). fold lenb.
  rewrite to_s64_small by lia.
  destruct (Z.ltb_spec (plen (penc k xs)) 0); [lia|]. cbn [orb].
  assert (Hfit : plen (pre ++ tg) + plen lenb + plen (penc k xs) <= plen ((pre ++ tg) ++ lenb ++ penc k xs ++ rest)).
  { rewrite !plen_app. pose proof (plen_nonneg rest). lia. }
  destruct (Z.gtb_spec (plen (pre ++ tg) + plen lenb + plen (penc k xs)) (plen ((pre ++ tg) ++ lenb ++ penc k xs ++ rest))); [lia|].
  assert (Hxl : (length xs <= length ((pre ++ tg) ++ lenb ++ penc k xs ++ rest))%nat).
  { rewrite !app_length. pose proof (flat_map_length_ge (fun x => wenc_val (scalar_to_wire k x)) xs (fun x => scalar_enc_cons k x)) as Hx.
    unfold penc. lia. }
  replace (Datatypes.S (length ((pre ++ tg) ++ lenb ++ penc k xs ++ rest)))
    with (length xs + Datatypes.S (length ((pre ++ tg) ++ lenb ++ penc k xs ++ rest) - length xs))%nat by lia.
  rewrite app_assoc. rewrite <- plen_app. rewrite He.
  rewrite (sap_run k xs ((pre ++ tg) ++ lenb) rest _ 0 _ Hk Hall eq_refl).
  rewrite Z.eqb_refl. f_equal; try lia.
  rewrite <- !app_assoc.
  replace (plen (pre ++ tg ++ lenb) + plen (penc k xs)) with (plen pre + plen (tg ++ lenb ++ penc k xs)) by (rewrite !plen_app; lia).
  rewrite wenc_field_tagb. cbn [fst snd wt_of_wval wenc_val]. fold tg lenb.
  replace (pre ++ tg ++ lenb ++ penc k xs ++ rest) with (pre ++ (tg ++ lenb ++ penc k xs) ++ rest) by (repeat rewrite <- app_assoc; reflexivity).
  apply slice_app.
Qed.

(* an unpacked list or a map: the cursor is on the tag of the first record of the run *)
Lemma gf_run pre num vals w2 lbl t tt :
  wf_wire (map (pair num) vals) = true -> inert num w2 ->
  desc_packed lbl t = false -> (tt = T_LIST \/ tt = T_MAP) ->
  gbp_final all_fixes (pre ++ wenc (map (pair num) vals) ++ wenc w2) lbl t num tt (plen pre) (plen pre)
  = GFoundA tt (wenc (map (pair num) vals)) (plen vals).
Proof.
  intros Hwf Hin Hp Ht. unfold gbp_final.
  assert (Ett : (tt =? T_LIST) || (tt =? T_MAP) = true) by (destruct Ht as [-> | ->]; reflexivity). rewrite Ett, Hp.
  unfold skip_all_elements.
  set (buf := pre ++ wenc (map (pair num) vals) ++ wenc w2).
  assert (Hlen : (length vals <= length buf)%nat).
  { unfold buf. rewrite !app_length. pose proof (wenc_length_ge (map (pair num) vals)). rewrite map_length in H. lia. }
  replace (Datatypes.S (length buf)) with (length vals + Datatypes.S (length buf - length vals))%nat by lia.
  unfold buf. rewrite sau_run by assumption. f_equal; try lia. apply slice_app.
Qed.

(* ------------------------------------------------------------------ typed level: what well-formed values emit *)
Definition refines (r : lres) (g : gout) : Prop :=
  match expected_gout r with Some l => In g l | None => True end.

Lemma kind_small_numeric k : is_numeric k = true -> scalar_tt k.
Proof. intros H. apply is_numeric_cases in H. cbn [In] in H. unfold scalar_tt, T_LIST, T_MAP. intuition lia. Qed.

Lemma wf_singular_facts S t v : wf_fld S LSingular t v = true ->
  wf_wval (sval v) = true /\ wt_of_wval (sval v) = elem_wt t /\ scalar_tt (kind_of_type t) /\
  encode_elem v = wenc_val (sval v).
Proof.
  intros H. pose proof (sval_wf _ _ _ H) as Hw. split; [exact Hw|].
  assert (Ee : encode_elem v = wenc_val (sval v)) by (unfold encode_elem; rewrite (wfld_single _ _ _ 1 H); reflexivity).
  destruct v as [k x|k b|fs| |]; cbn [wf_fld] in H; try discriminate.
  - destruct t as [k'|]; [|discriminate].
    apply andb_true_iff in H as [H Hok]. apply andb_true_iff in H as [Hk Hn]. apply Z.eqb_eq in Hk. subst k'.
    destruct (scalar_rt k x Hn Hok) as [_ [_ Hwt]]. cbn [sval kind_of_type]. unfold elem_wt. cbn [kind_of_type].
    split; [exact Hwt|]. split; [apply kind_small_numeric; exact Hn|exact Ee].
  - destruct t as [k'|]; [|discriminate].
    apply andb_true_iff in H as [H _]. apply andb_true_iff in H as [Hk Hb]. apply Z.eqb_eq in Hk. subst k'.
    unfold is_byteskind in Hb. unfold elem_wt. cbn [sval kind_of_type wt_of_wval].
    apply orb_true_iff in Hb. destruct Hb as [E|E]; apply Z.eqb_eq in E; subst k;
      (split; [reflexivity|]; split; [unfold scalar_tt, T_LIST, T_MAP; lia|exact Ee]).
  - destruct t as [|name]; [discriminate|]. unfold elem_wt. cbn [sval kind_of_type wt_of_wval].
    split; [reflexivity|]. split; [unfold scalar_tt, T_LIST, T_MAP, K_MESSAGE; lia|exact Ee].
Qed.

(* a well-formed list value *)
Lemma wf_list_facts S p t q vs num : wf_fld S (LRepeated p) t (VList q vs) = true ->
  q = p && type_numeric t /\ vs <> [] /\ Forall (fun x => wf_fld S LSingular t x = true) vs /\
  (if q then exists k xs, t = TScalar k /\ is_numeric k = true /\ vs = map (VScalar k) xs /\
                          Forall (fun x => scalar_okb k x = true) xs /\
                          wfld num (VList q vs) = [(num, WBytes (penc k xs))] /\ plen (penc k xs) < 2 ^ 64
   else wfld num (VList q vs) = map (pair num) (map sval vs)).
Proof.
  intros H. cbn [wf_fld] in H.
  apply andb_true_iff in H as [H Hall]. apply andb_true_iff in H as [H Hlen]. apply andb_true_iff in H as [Hq Hne].
  apply eqb_prop in Hq. split; [exact Hq|]. split; [destruct vs; [discriminate|discriminate]|].
  split; [apply forallb_Forall; exact Hall|].
  destruct q.
  - symmetry in Hq. apply andb_true_iff in Hq as [_ Hnum]. destruct t as [k|]; [|discriminate]. cbn [type_numeric] in Hnum.
    destruct (packed_elems_scalars _ _ _ Hall Hnum) as [xs [E Hxs]]. exists k, xs.
    split; [reflexivity|]. split; [exact Hnum|]. split; [exact E|]. split; [exact Hxs|].
    assert (Ep : flat_map packed_elem vs = penc k xs).
    { subst vs. clear. unfold penc. induction xs as [|x xs IHx]; [reflexivity|]. cbn [map flat_map packed_elem]. rewrite IHx. reflexivity. }
    cbn [wfld]. rewrite Ep. split; [reflexivity|]. cbn [negb orb] in Hlen. rewrite Ep in Hlen. apply Z.ltb_lt. exact Hlen.
  - cbn [wfld]. rewrite map_map. apply flat_map_singletons.
    apply forallb_Forall in Hall. eapply Forall_impl; [|exact Hall]. intros x Hx. cbn beta in Hx. apply (wfld_single _ _ _ num Hx).
Qed.

(* a well-formed map value *)
Definition entry_of (kx : mkey * pval) : mkey * wval := (fst kx, sval (snd kx)).
Lemma wf_map_facts S kk t kvs num : wf_fld S (LMap kk) t (VMap kvs) = true ->
  kvs <> [] /\ wfld num (VMap kvs) = map (erec num) (map entry_of kvs) /\
  Forall (fun kx => key_okb kk (fst kx) = true /\ wf_fld S LSingular t (snd kx) = true /\ wf_entry (entry_of kx) = true) kvs.
Proof.
  intros H. cbn [wf_fld] in H. apply andb_true_iff in H as [H Hall]. apply andb_true_iff in H as [Hne _].
  split; [destruct kvs; discriminate|].
  apply forallb_Forall in Hall.
  assert (Hper : Forall (fun kx => key_okb kk (fst kx) = true /\ wf_fld S LSingular t (snd kx) = true /\
                                   plen (wenc [key_field (fst kx); (2, sval (snd kx))]) < 2 ^ 64) kvs).
  { eapply Forall_impl; [|exact Hall]. intros [k x] Hx. cbn [fst snd] in *.
    apply andb_true_iff in Hx as [Hx Hl]. apply andb_true_iff in Hx as [Hk Hv].
    rewrite (wfld_single _ _ _ 2 Hv) in Hl. apply Z.ltb_lt in Hl. auto. }
  split.
  - cbn [wfld]. rewrite map_map. apply map_ext_in. intros [k x] Hin. rewrite Forall_forall in Hper.
    destruct (Hper _ Hin) as [_ [Hv _]]. cbn [fst snd] in *. rewrite (wfld_single _ _ _ 2 Hv).
    unfold erec, entry_of. cbn [fst snd]. rewrite ebody_wenc. reflexivity.
  - eapply Forall_impl; [|exact Hper]. intros [k x] [Hk [Hv Hl]]. cbn [fst snd] in *.
    split; [exact Hk|]. split; [exact Hv|].
    unfold wf_entry, entry_of, kval. cbn [fst snd]. rewrite (key_field_wf _ _ Hk), (sval_wf _ _ _ Hv). cbn [andb].
    rewrite <- ebody_wenc. apply Z.ltb_lt. exact Hl.
Qed.

(* ------------------------------------------------------------------ messages and schemas *)
Lemma assoc_z_split {B} n (fs : list (Z * B)) v : assoc_z n fs = Some v ->
  exists fs1 fs2, fs = fs1 ++ (n, v) :: fs2 /\ Forall (fun nv => fst nv <> n) fs1.
Proof.
  induction fs as [|[m x] fs IH]; intros H; [discriminate|]. cbn [assoc_z] in H.
  destruct (Z.eqb_spec m n) as [->|Hne].
  - inversion H; subst. exists [], fs. split; [reflexivity|constructor].
  - destruct (IH H) as [fs1 [fs2 [E Hall]]]. exists ((m, x) :: fs1), fs2. split; [rewrite E; reflexivity|].
    constructor; [exact Hne|exact Hall].
Qed.

Lemma assoc_z_none {B} n (fs : list (Z * B)) : assoc_z n fs = None -> Forall (fun nv => fst nv <> n) fs.
Proof.
  induction fs as [|[m x] fs IH]; intros H; [constructor|]. cbn [assoc_z] in H.
  destruct (Z.eqb_spec m n) as [->|Hne]; [discriminate|]. constructor; [exact Hne|apply IH; exact H].
Qed.

Lemma nodupb_app_tail {B} (fs1 : list (Z * B)) n v fs2 :
  nodupb Z.eqb (map fst (fs1 ++ (n, v) :: fs2)) = true -> Forall (fun nv => fst nv <> n) fs2.
Proof.
  induction fs1 as [|a fs1 IH]; cbn [app map nodupb]; intros H.
  - apply andb_true_iff in H as [Hx _]. apply negb_true_iff in Hx. cbn [fst] in Hx.
    apply Forall_forall. intros [m x] Hin E. cbn [fst] in E. subst m.
    assert (existsb (Z.eqb n) (map fst fs2) = true).
    { apply existsb_exists. exists n. split; [apply (in_map fst _ _ Hin)|apply Z.eqb_refl]. }
    congruence.
  - apply andb_true_iff in H as [_ H]. apply IH. exact H.
Qed.

Lemma msg_wire_app a b : msg_wire (a ++ b) = msg_wire a ++ msg_wire b.
Proof. unfold msg_wire. apply flat_map_app. Qed.

(* what wf says about the fields of a message *)
Definition fields_wf (S : schema) (md : mdesc) (fs : pmsg) : Prop :=
  Forall (fun nv => exists fd, find_field md (fst nv) = Some fd /\ 1 <= fst nv <= MAX_FIELD_NUMBER /\
                               wf_fld S (fd_label fd) (fd_type fd) (snd nv) = true) fs.

Lemma wf_msg_facts S name fs : wf_fld S LSingular (TMsg name) (VMsg fs) = true ->
  exists md, find_msg S name = Some md /\ nodupb Z.eqb (map fst fs) = true /\
             plen (encode_msg fs) < 2 ^ 64 /\ fields_wf S md fs.
Proof.
  cbn [wf_fld]. intros H. destruct (find_msg S name) as [md|]; [|discriminate]. exists md.
  apply andb_true_iff in H as [H Hall]. apply andb_true_iff in H as [Hnd Hlen].
  split; [reflexivity|]. split; [exact Hnd|]. split; [apply Z.ltb_lt; exact Hlen|].
  apply forallb_Forall in Hall. eapply Forall_impl; [|exact Hall]. intros nv Hx. cbn beta in Hx.
  destruct (find_field md (fst nv)) as [fd|]; [|discriminate]. exists fd.
  apply andb_true_iff in Hx as [Hx Hv]. apply andb_true_iff in Hx as [H1 H2]. apply Z.leb_le in H1. apply Z.leb_le in H2.
  split; [reflexivity|]. split; [lia|exact Hv].
Qed.

Lemma fields_wf_wire S md fs : fields_wf S md fs ->
  wf_wire (msg_wire fs) = true /\
  (forall n, Forall (fun nv => fst nv <> n) fs -> Forall (fun f => fst f <> n) (msg_wire fs)).
Proof.
  intros H. induction H as [|[m x] fs [fd [Hf [Hm Hv]]] _ [IH1 IH2]].
  - split; [reflexivity|]. intros. constructor.
  - cbn [fst snd] in *. destruct (wfld_fvals _ _ _ _ m Hv) as [E _].
    unfold msg_wire in *. cbn [flat_map fst snd]. split.
    + unfold wf_wire in *. rewrite forallb_app, IH1, andb_true_r. rewrite E.
      apply (map_pair_wf m _ Hm (fvals_wf _ _ _ _ Hv)).
    + intros n Hn. inversion Hn as [|? ? Hn1 Hn2]; subst. cbn [fst] in Hn1. apply Forall_app. split; [|apply IH2; exact Hn2].
      rewrite E. apply Forall_forall. intros f Hin. apply in_map_iff in Hin. destruct Hin as [w [<- _]]. exact Hn1.
Qed.

Lemma fields_wf_app S md a b : fields_wf S md (a ++ b) -> fields_wf S md a /\ fields_wf S md b.
Proof. unfold fields_wf. intros H. apply Forall_app in H. exact H. Qed.

(* schemas with distinct field numbers: the descriptor found by name is the one found by its number *)
Lemma find_field_num md n fd : find_field md n = Some fd -> fd_num fd = n.
Proof. unfold find_field. intros H. apply find_some in H. destruct H as [_ H]. apply Z.eqb_eq in H. exact H. Qed.

Lemma find_by_num_nodup (l : list fdesc) fd : nodupb Z.eqb (map fd_num l) = true -> In fd l ->
  find (fun f => fd_num f =? fd_num fd) l = Some fd.
Proof.
  induction l as [|a l IH]; intros Hnd Hin; [destruct Hin|].
  cbn [map nodupb] in Hnd. apply andb_true_iff in Hnd as [Hx Hnd]. cbn [find].
  destruct Hin as [->|Hin]; [rewrite Z.eqb_refl; reflexivity|].
  destruct (Z.eqb_spec (fd_num a) (fd_num fd)) as [E|_]; [|apply IH; assumption].
  exfalso. apply negb_true_iff in Hx.
  assert (existsb (Z.eqb (fd_num a)) (map fd_num l) = true).
  { apply existsb_exists. exists (fd_num fd). split; [apply in_map; exact Hin|apply Z.eqb_eq; exact E]. }
  congruence.
Qed.

Lemma schema_md S name md : schema_okb S = true -> find_msg S name = Some md -> mdesc_okb md = true.
Proof.
  unfold schema_okb, find_msg. intros H Hf. apply find_some in Hf. destruct Hf as [Hin _].
  rewrite forallb_forall in H. apply H. exact Hin.
Qed.

Lemma step_field_facts md s fd : mdesc_okb md = true -> step_field md s = Some fd ->
  find_field md (fd_num fd) = Some fd /\ field_okb fd = true.
Proof.
  unfold mdesc_okb. intros H Hs. apply andb_true_iff in H as [Hnd Hok].
  assert (Hin : In fd (md_fields md)).
  { destruct s; cbn [step_field] in Hs; try discriminate.
    - unfold find_field in Hs. apply find_some in Hs. tauto.
    - unfold find_field_name in Hs. apply find_some in Hs. tauto. }
  split; [apply find_by_num_nodup; assumption|]. rewrite forallb_forall in Hok. apply Hok. exact Hin.
Qed.

(* ------------------------------------------------------------------ what the key scan finds *)
Lemma sk_expect_spec matchb fnum r : forall e pre w2 buf,
  buf = pre ++ evalb e ++ wenc (map (erec fnum) r) ++ wenc w2 ->
  match find (fun a => matchb (fst a)) (e :: r) with
  | Some a => exists preK restK, sk_expect matchb fnum (plen pre) (e :: r) = SFound (plen preK) (plen preK) /\
                                 buf = preK ++ wenc_field (2, snd a) ++ restK
  | None => sk_expect matchb fnum (plen pre) (e :: r) = SNotFound
  end.
Proof.
  induction r as [|e' r IH]; intros e pre w2 buf Eb; cbn [find sk_expect]; destruct (matchb (fst e)) eqn:Em.
  - exists (pre ++ varint_enc (plen (ebody e)) ++ tagb 1 (wt_of_wval (kval (fst e))) ++ wenc_val (kval (fst e))),
           (wenc (map (erec fnum) []) ++ wenc w2).
    split; [cbv zeta; rewrite !plen_app; f_equal; lia|].
    rewrite Eb. unfold evalb, ebody. rewrite wenc_field_tagb. cbn [fst snd]. repeat rewrite <- app_assoc. reflexivity.
  - reflexivity.
  - exists (pre ++ varint_enc (plen (ebody e)) ++ tagb 1 (wt_of_wval (kval (fst e))) ++ wenc_val (kval (fst e))),
           (wenc (map (erec fnum) (e' :: r)) ++ wenc w2).
    split; [cbv zeta; rewrite !plen_app; f_equal; lia|].
    rewrite Eb. unfold evalb, ebody. rewrite wenc_field_tagb. cbn [fst snd]. repeat rewrite <- app_assoc. reflexivity.
  - replace (plen pre + plen (evalb e) + plen (tagb fnum 2)) with (plen (pre ++ evalb e ++ tagb fnum 2)) by (rewrite !plen_app; lia).
    apply (IH e' (pre ++ evalb e ++ tagb fnum 2) w2 buf).
    rewrite Eb. cbn [map]. rewrite wenc_cons, erec_enc. repeat rewrite <- app_assoc. reflexivity.
Qed.

(* the readers of getByPath satisfy rdkey_ok *)
Definition match_str (k : list Z) (key : mkey) : bool := match key with KStr b => bytes_eqb b k | KInt _ _ => false end.
Definition match_int (i : Z) (key : mkey) : bool := match key with KInt _ v => to_s 64 v =? i | KStr _ => false end.

Lemma rdkey_str_ok buf k keys : Forall (fun key => key_okb 9 key = true) keys ->
  rdkey_ok buf (fun r => match aread_string buf r with Some (b, r') => Some (bytes_eqb b k, r') | None => None end)
           (match_str k) keys.
Proof.
  intros Hall pre key rest Hin Eb. rewrite Forall_forall in Hall. specialize (Hall _ Hin).
  destruct key as [k' v|bs]; cbn [key_okb] in Hall.
  - apply andb_true_iff in Hall as [Hall _]. apply andb_true_iff in Hall as [E Hn]. apply Z.eqb_eq in E. subst k'. cbn in Hn. discriminate.
  - apply andb_true_iff in Hall as [_ Hl]. apply Z.ltb_lt in Hl. unfold kval in *. cbn [key_field snd] in *.
    rewrite Eb. rewrite aread_string_enc by exact Hl. reflexivity.
Qed.

Lemma rdkey_int_ok buf kk i keys : kind_is_int kk = true -> Forall (fun key => key_okb kk key = true) keys ->
  rdkey_ok buf (fun r => match aread_int buf r kk with Some (x, r') => Some (x =? i, r') | None => None end)
           (match_int i) keys.
Proof.
  intros Hk Hall pre key rest Hin Eb. rewrite Forall_forall in Hall. specialize (Hall _ Hin).
  destruct key as [k' v|bs]; cbn [key_okb] in Hall.
  - apply andb_true_iff in Hall as [Hall Hok]. apply andb_true_iff in Hall as [E _]. apply Z.eqb_eq in E. subst k'.
    unfold kval in *. cbn [key_field snd] in *. rewrite Eb. rewrite aread_int_enc by assumption. reflexivity.
  - apply andb_true_iff in Hall as [E _]. apply Z.eqb_eq in E. subst kk. cbn in Hk. discriminate.
Qed.

(* ------------------------------------------------------------------ entering a message *)
(* outcome of the prefix computation of a field step: message length, cursor, narrowed buffer *)
Definition msg_entry (isroot : bool) (buf : list Z) (rd : Z) (pre' payload : list Z) : Prop :=
  (if isroot then Some (plen buf, rd) else aread_length buf rd) = Some (plen payload, plen pre') /\
  (if f704 all_fixes && (0 <=? plen pre' + plen payload) && (plen pre' + plen payload <? plen buf)
   then firstn (Z.to_nat (plen pre' + plen payload)) buf else buf) = pre' ++ payload.

Lemma msg_entry_root payload : msg_entry true payload 0 [] payload.
Proof.
  split; [reflexivity|]. change (plen (@nil Z)) with 0. rewrite Z.add_0_l, Z.ltb_irrefl, andb_false_r. reflexivity.
Qed.

Lemma msg_entry_nested preX payload restX :
  plen (preX ++ (varint_enc (plen payload) ++ payload) ++ restX) < 9223372036854775808 ->
  msg_entry false (preX ++ (varint_enc (plen payload) ++ payload) ++ restX) (plen preX)
            (preX ++ varint_enc (plen payload)) payload.
Proof.
  intros Hlen. pose proof (plen_nonneg payload) as Hp. pose proof (plen_nonneg preX). pose proof (plen_nonneg restX).
  pose proof (plen_nonneg (varint_enc (plen payload))).
  rewrite !plen_app in Hlen. split.
  - unfold aread_length. rewrite <- app_assoc. rewrite cvar_enc by (change (2 ^ 64) with 18446744073709551616; lia).
    rewrite to_s64_small by lia. rewrite plen_app. reflexivity.
  - change (f704 all_fixes) with true. cbn [andb].
    set (pre' := preX ++ varint_enc (plen payload)).
    assert (Eb : preX ++ (varint_enc (plen payload) ++ payload) ++ restX = (pre' ++ payload) ++ restX)
      by (unfold pre'; repeat rewrite <- app_assoc; reflexivity).
    rewrite Eb. pose proof (plen_nonneg pre').
    destruct (Z.leb_spec 0 (plen pre' + plen payload)); [|lia]. cbn [andb].
    rewrite <- plen_app.
    destruct (Z.ltb_spec (plen (pre' ++ payload)) (plen ((pre' ++ payload) ++ restX))) as [Hlt|Hge].
    + unfold plen. rewrite Nat2Z.id. apply firstn_app_len.
    + rewrite plen_app in Hge. assert (plen restX = 0) by lia.
      destruct restX; [rewrite app_nil_r; reflexivity|rewrite plen_cons in *; pose proof (plen_nonneg restX); lia].
Qed.

Lemma plen_firstn_le {A} n (l : list A) : plen (firstn n l) <= plen l.
Proof. unfold plen. rewrite firstn_length. lia. Qed.

Lemma msg_entry_plen isroot buf rd pre' payload : msg_entry isroot buf rd pre' payload -> plen (pre' ++ payload) <= plen buf.
Proof.
  intros [_ H]. rewrite <- H. destruct (f704 all_fixes && (0 <=? plen pre' + plen payload) && (plen pre' + plen payload <? plen buf)).
  - apply plen_firstn_le.
  - lia.
Qed.

(* ------------------------------------------------------------------ the search over the fields of a message *)
Lemma msg_search_none S md fs pre' id :
  fields_wf S md fs -> assoc_z id fs = None ->
  search_field_id (Datatypes.S (length (pre' ++ encode_msg fs))) (pre' ++ encode_msg fs) (plen pre') id
                  (plen pre' + plen (encode_msg fs)) = SNotFound.
Proof.
  intros Hf Hn. destruct (fields_wf_wire _ _ _ Hf) as [Hw Hne]. specialize (Hne id (assoc_z_none _ _ Hn)).
  unfold encode_msg. set (w := msg_wire fs) in *.
  assert (Hl : (length w <= length (pre' ++ wenc w))%nat) by (rewrite app_length; pose proof (wenc_length_ge w); lia).
  replace (Datatypes.S (length (pre' ++ wenc w))) with (length w + Datatypes.S (length (pre' ++ wenc w) - length w))%nat by lia.
  rewrite <- (app_nil_r (wenc w)) at 2. rewrite sfi_skip by (try assumption; lia). apply sfi_end.
Qed.

Lemma msg_search_found S md fs pre' id v :
  fields_wf S md fs -> nodupb Z.eqb (map fst fs) = true -> assoc_z id fs = Some v ->
  exists W1 W2 fd, find_field md id = Some fd /\ 1 <= id <= MAX_FIELD_NUMBER /\
    wf_fld S (fd_label fd) (fd_type fd) v = true /\
    pre' ++ encode_msg fs = (pre' ++ wenc W1) ++ wenc (wfld id v) ++ wenc W2 /\ inert id W2 /\
    search_field_id (Datatypes.S (length (pre' ++ encode_msg fs))) (pre' ++ encode_msg fs) (plen pre') id
                    (plen pre' + plen (encode_msg fs)) = SFound (plen (pre' ++ wenc W1)) (plen (pre' ++ wenc W1)).
Proof.
  intros Hf Hnd Ha. destruct (assoc_z_split _ _ _ Ha) as [fs1 [fs2 [E Hne1]]]. subst fs.
  pose proof (nodupb_app_tail _ _ _ _ Hnd) as Hne2.
  destruct (fields_wf_app _ _ _ _ Hf) as [Hf1 Hf2'].
  assert (Hfv : fields_wf S md [(id, v)]) by (unfold fields_wf in *; inversion Hf2'; constructor; [assumption|constructor]).
  assert (Hf2 : fields_wf S md fs2) by (unfold fields_wf in *; inversion Hf2'; assumption).
  inversion Hfv as [|? ? [fd [Hfd [Hid Hv]]] _]; subst. cbn [fst snd] in *.
  destruct (fields_wf_wire _ _ _ Hf1) as [Hw1 Hn1]. destruct (fields_wf_wire _ _ _ Hf2) as [Hw2 Hn2].
  specialize (Hn1 id Hne1). specialize (Hn2 id Hne2).
  exists (msg_wire fs1), (msg_wire fs2), fd.
  split; [exact Hfd|]. split; [exact Hid|]. split; [exact Hv|].
  assert (Ew : encode_msg (fs1 ++ (id, v) :: fs2) = wenc (msg_wire fs1) ++ wenc (wfld id v) ++ wenc (msg_wire fs2)).
  { unfold encode_msg. rewrite msg_wire_app, wenc_app. f_equal.
    change ((id, v) :: fs2) with ([(id, v)] ++ fs2). rewrite msg_wire_app, wenc_app. f_equal.
    unfold msg_wire. cbn [flat_map fst snd]. rewrite app_nil_r. reflexivity. }
  split; [rewrite Ew, <- app_assoc; reflexivity|]. split; [split; assumption|].
  destruct (wfld_fvals _ _ _ _ id Hv) as [Efv Hne]. destruct (fvals v) as [|w0 ws] eqn:Ef; [contradiction|].
  rewrite Ew. set (W1 := msg_wire fs1) in *. set (tail := wenc (wfld id v) ++ wenc (msg_wire fs2)).
  assert (Hl : (length W1 < length (pre' ++ wenc W1 ++ tail))%nat).
  { rewrite !app_length. pose proof (wenc_length_ge W1). unfold tail. rewrite Efv. cbn [map]. rewrite wenc_cons, !app_length.
    destruct (wenc_field_cons (id, w0)) as [b [t E]]. rewrite E. cbn [length]. lia. }
  replace (Datatypes.S (length (pre' ++ wenc W1 ++ tail))) with (length W1 + Datatypes.S (length (pre' ++ wenc W1 ++ tail) - length W1))%nat by lia.
  assert (Htl : 1 <= plen tail).
  { unfold tail. rewrite Efv. cbn [map]. rewrite wenc_cons, !plen_app. pose proof (wenc_field_plen_pos (id, w0)).
    pose proof (plen_nonneg (wenc (map (pair id) ws))). pose proof (plen_nonneg (wenc (msg_wire fs2))). lia. }
  rewrite sfi_skip; [|exact Hw1|exact Hn1|rewrite plen_app; lia].
  rewrite app_assoc, <- plen_app. unfold tail. rewrite Efv. cbn [map]. rewrite wenc_cons, <- !app_assoc.
  assert (Hfw : wf_wfield (id, w0) = true).
  { pose proof (fvals_wf _ _ _ _ Hv) as Hfw. rewrite Ef in Hfw. cbn [forallb] in Hfw. apply andb_true_iff in Hfw as [Hfw _].
    unfold wf_wfield. cbn [fst snd]. rewrite Hfw. unfold MAX_FIELD_NUMBER in *.
    destruct (Z.leb_spec 1 id); [|lia]. destruct (Z.leb_spec id 536870911); [|lia]. reflexivity. }
  rewrite (app_assoc pre').
  match goal with |- search_field_id (Datatypes.S ?f) _ _ _ ?lim = _ =>
    pose proof (sfi_found (pre' ++ wenc W1) (id, w0) (wenc (map (pair id) ws) ++ wenc (msg_wire fs2)) f lim Hfw) as Hs end.
  cbn [fst] in Hs. apply Hs.
  rewrite !plen_app. pose proof (wenc_field_plen_pos (id, w0)).
  pose proof (plen_nonneg (wenc (map (pair id) ws))). pose proof (plen_nonneg (wenc (msg_wire fs2))). lia.
Qed.

(* ------------------------------------------------------------------ a field value in its message: final slice and first tag *)
Lemma wfld_wire S lbl t v num : wf_fld S lbl t v = true -> 1 <= num <= MAX_FIELD_NUMBER -> wf_wire (wfld num v) = true.
Proof.
  intros H Hn. destruct (wfld_fvals _ _ _ _ num H) as [E _]. rewrite E. apply map_pair_wf; [exact Hn|apply (fvals_wf _ _ _ _ H)].
Qed.

Lemma val_final S lbl t num v pre w2 :
  wf_fld S lbl t v = true -> 1 <= num <= MAX_FIELD_NUMBER -> inert num w2 ->
  plen (pre ++ wenc (wfld num v) ++ wenc w2) < 9223372036854775808 ->
  gbp_final all_fixes (pre ++ wenc (wfld num v) ++ wenc w2) lbl t num (node_type lbl t) (plen pre) (plen pre)
  = GFoundA (node_type lbl t) (node_raw lbl num v) (size_of v).
Proof.
  intros Hwf Hn Hin Hlen. pose proof (wfld_wire _ _ _ _ num Hwf Hn) as Hww.
  destruct lbl as [|p|kk].
  - destruct (wf_singular_facts _ _ _ Hwf) as [Hw [Hwt [Htt Ee]]].
    rewrite (wfld_single _ _ _ num Hwf) in *. cbn [wenc flat_map] in *. rewrite app_nil_r in *.
    cbn [wf_wire forallb] in Hww. apply andb_true_iff in Hww as [Hf _].
    cbn [node_type node_raw]. rewrite (gf_record pre num (sval v) (wenc w2) LSingular t num _ (plen pre) Hf eq_refl (eq_sym Hwt) Htt).
    rewrite Ee. f_equal. destruct v; cbn [wf_fld] in Hwf; try discriminate; reflexivity.
  - destruct v as [| | |q vs|]; cbn [wf_fld] in Hwf; try discriminate. fold (wf_fld S (LRepeated p) t (VList q vs)) in Hwf.
    assert (Hwf' : wf_fld S (LRepeated p) t (VList q vs) = true) by exact Hwf.
    destruct (wf_list_facts _ _ _ _ _ num Hwf') as [Hq [Hne [Hall Hcase]]].
    cbn [node_type node_raw size_of]. destruct q.
    + destruct Hcase as [k [xs [-> [Hk [-> [Hxs [Ew Hl]]]]]]]. rewrite Ew in *. cbn [wenc flat_map] in *. rewrite app_nil_r in *.
      rewrite !plen_app in Hlen. unfold wenc_field in Hlen. cbn [fst snd wenc_val] in Hlen. rewrite !plen_app in Hlen.
      pose proof (plen_nonneg pre). pose proof (plen_nonneg (wenc w2)). pose proof (plen_nonneg (penc k xs)).
      pose proof (plen_nonneg (varint_enc (num * 8 + wt_of_wval (WBytes (penc k xs))))). pose proof (plen_nonneg (varint_enc (plen (penc k xs)))).
      rewrite (gf_packed_list pre num k xs (wenc w2) (LRepeated p) (TScalar k) T_LIST Hn Hk Hxs); [|lia|symmetry; exact Hq|reflexivity|left; reflexivity].
      f_equal. unfold plen. rewrite map_length. reflexivity.
    + rewrite Hcase in *.
      rewrite (gf_run pre num (map sval vs) w2 (LRepeated p) t T_LIST Hww Hin); [|symmetry; exact Hq|left; reflexivity].
      f_equal. unfold plen. rewrite map_length. reflexivity.
  - destruct v as [| | | |kvs]; cbn [wf_fld] in Hwf; try discriminate. fold (wf_fld S (LMap kk) t (VMap kvs)) in Hwf.
    assert (Hwf' : wf_fld S (LMap kk) t (VMap kvs) = true) by exact Hwf.
    destruct (wf_map_facts _ _ _ _ num Hwf') as [Hne [Ew Hall]].
    cbn [node_type node_raw size_of]. rewrite Ew in *.
    assert (Em : map (erec num) (map entry_of kvs) = map (pair num) (map (fun e => WBytes (ebody e)) (map entry_of kvs))).
    { rewrite !map_map. reflexivity. }
    rewrite Em in *.
    rewrite (gf_run pre num _ w2 (LMap kk) t T_MAP Hww Hin); [|reflexivity|right; reflexivity].
    f_equal. unfold plen. rewrite !map_length. reflexivity.
Qed.

Lemma val_tag S lbl t num v pre rest :
  wf_fld S lbl t v = true -> 1 <= num <= MAX_FIELD_NUMBER ->
  exists w0 ws, fvals v = w0 :: ws /\ wf_wval w0 = true /\ wf_wire (map (pair num) ws) = true /\
    ctag (pre ++ wenc (wfld num v) ++ rest) (plen pre) = Some (num, wt_of_wval w0, plen (tagb num (wt_of_wval w0))) /\
    pre ++ wenc (wfld num v) ++ rest = (pre ++ tagb num (wt_of_wval w0)) ++ wenc_val w0 ++ wenc (map (pair num) ws) ++ rest.
Proof.
  intros Hwf Hn. pose proof (wfld_wire _ _ _ _ num Hwf Hn) as Hww.
  destruct (wfld_fvals _ _ _ _ num Hwf) as [E Hne]. destruct (fvals v) as [|w0 ws]; [contradiction|].
  exists w0, ws. rewrite E in *. cbn [map] in *. cbn [wf_wire forallb] in Hww. apply andb_true_iff in Hww as [Hf Hws].
  split; [reflexivity|]. split; [unfold wf_wfield in Hf; cbn [fst snd] in Hf; apply andb_true_iff in Hf as [_ Hf]; exact Hf|].
  split; [exact Hws|]. rewrite wenc_cons, <- !app_assoc. split.
  - destruct (record_skip pre (num, w0) (wenc (map (pair num) ws) ++ rest) Hf) as [Hc _]. exact Hc.
  - rewrite wenc_field_tagb. cbn [fst snd]. rewrite <- !app_assoc. reflexivity.
Qed.

(* ------------------------------------------------------------------ the main induction *)
(* the local closure [after] of gbp_loop, with every repair applied *)
Definition after_f (S : schema) (p' : list pstep) (buf : list Z) (r : sres) (lbl' : flabel) (t' : ftype) (num' tt : Z) : gout :=
  match r with
  | SFound start rd1 =>
    if is_nil p' then gbp_final all_fixes buf lbl' t' num' tt start rd1
    else match ctag buf rd1 with
         | None => GErrA
         | Some (_, _, n) => gbp_loop all_fixes S buf p' (rd1 + n) false lbl' t' num'
         end
  | SNotFound => if is_nil p' then GNotFoundA else GErrA
  | SErrNode => GErrA
  | SErrRaw => GErrA
  | SPanic => GPanicA
  end.

Lemma gbp_index_unfold S buf i p' rd isroot q t num :
  gbp_loop all_fixes S buf (PIndex i :: p') rd isroot (LRepeated q) t num =
  after_f S p' buf (search_index all_fixes buf rd i (elem_wt t) (desc_packed (LRepeated q) t) num) (LRepeated q) t num (kind_of_type t).
Proof. reflexivity. Qed.

Lemma gbp_strkey_unfold S buf k p' rd isroot kk t num :
  gbp_loop all_fixes S buf (PStrKey k :: p') rd isroot (LMap kk) t num =
  after_f S p' buf (search_key (Datatypes.S (length buf)) buf
                      (fun r => match aread_string buf r with Some (b, r') => Some (bytes_eqb b k, r') | None => None end) rd num)
          LSingular t 0 (kind_of_type t).
Proof. reflexivity. Qed.

Lemma gbp_intkey_unfold S buf k p' rd isroot kk t num :
  gbp_loop all_fixes S buf (PIntKey k :: p') rd isroot (LMap kk) t num =
  after_f S p' buf (search_key (Datatypes.S (length buf)) buf
                      (fun r => match aread_int buf r kk with Some (x, r') => Some (x =? k, r') | None => None end) rd num)
          LSingular t 0 (kind_of_type t).
Proof. reflexivity. Qed.

(* a field step at a message position whose prefix computation gave (plen payload, plen pre') and the buffer buf' *)
Lemma gbp_field_unfold S buf s p' rd isroot lbl name num md pre' payload :
  is_field_step s = true -> (lbl = LSingular \/ exists q, lbl = LRepeated q) ->
  find_msg S name = Some md -> msg_entry isroot buf rd pre' payload ->
  gbp_loop all_fixes S buf (s :: p') rd isroot lbl (TMsg name) num =
  let buf' := pre' ++ payload in
  match s, step_field md s with
  | PField n, None =>
    match search_field_id (Datatypes.S (length buf')) buf' (plen pre') n (plen pre' + plen payload) with
    | SFound _ _ => GUnmodelled
    | r => after_f S p' buf' r lbl (TMsg name) num K_MESSAGE
    end
  | _, Some fd =>
    after_f S p' buf' (search_field_id (Datatypes.S (length buf')) buf' (plen pre') (fd_num fd) (plen pre' + plen payload))
            (fd_label fd) (fd_type fd) (fd_num fd) (node_type (fd_label fd) (fd_type fd))
  | _, None => GErrA
  end.
Proof.
  intros Hs Hlbl Hfind [Hpre Hbuf].
  destruct s; try discriminate; destruct Hlbl as [->|[q ->]]; cbn [gbp_loop]; rewrite Hpre; cbv zeta; rewrite Hbuf, Hfind; reflexivity.
Qed.

Lemma path_okb_tail s p : path_okb (s :: p) = true -> step_okb s = true /\ path_okb p = true.
Proof. unfold path_okb. cbn [forallb]. intros H. apply andb_true_iff in H. exact H. Qed.

Section Main.
  Variable S : schema.
  Hypothesis HS : schema_okb S = true.

  Definition key_kind_ok (lbl : flabel) : Prop :=
    match lbl with LMap kk => (kk =? 9) || kind_is_int kk = true | _ => True end.

  Definition P_msg (p : list pstep) : Prop :=
    forall isroot buf rd lbl num name fs pre' num0,
      path_okb p = true ->
      (lbl = LSingular \/ exists q, lbl = LRepeated q) ->
      wf_fld S LSingular (TMsg name) (VMsg fs) = true ->
      msg_entry isroot buf rd pre' (encode_msg fs) ->
      plen buf < 9223372036854775808 ->
      refines (plookup S LSingular (TMsg name) num0 (VMsg fs) p)
              (gbp_loop all_fixes S buf p rd isroot lbl (TMsg name) num).

  (* the cursor is behind the first tag of the records of field num holding v; the message ends with w2 *)
  Definition P_val (p : list pstep) : Prop :=
    forall buf pre lbl t num v w0 ws w2,
      path_okb p = true ->
      wf_fld S lbl t v = true -> 1 <= num <= MAX_FIELD_NUMBER -> key_kind_ok lbl ->
      fvals v = w0 :: ws -> inert num w2 ->
      buf = pre ++ wenc (wfld num v) ++ wenc w2 ->
      plen buf < 9223372036854775808 ->
      refines (plookup S lbl t num v p)
              (gbp_loop all_fixes S buf p (plen pre + plen (tagb num (wt_of_wval w0))) false lbl t num).

  (* what [after] does with a found field value *)
  Lemma after_field_found p' buf pre lbl t num v w2 :
    (p' <> [] -> P_val p') -> path_okb p' = true ->
    wf_fld S lbl t v = true -> 1 <= num <= MAX_FIELD_NUMBER -> key_kind_ok lbl -> inert num w2 ->
    buf = pre ++ wenc (wfld num v) ++ wenc w2 -> plen buf < 9223372036854775808 ->
    refines (plookup S lbl t num v p')
            (after_f S p' buf (SFound (plen pre) (plen pre)) lbl t num (node_type lbl t)).
  Proof.
    intros IH Hp Hwf Hn Hkk Hin Eb Hlen. unfold after_f. destruct p' as [|s' p''].
    - cbn [is_nil plookup]. unfold refines. cbn [expected_gout]. left. subst buf. symmetry. apply (val_final S); assumption.
    - cbn [is_nil].
      destruct (val_tag S lbl t num v pre (wenc w2) Hwf Hn) as [w0 [ws [Ef [_ [_ [Hc _]]]]]].
      rewrite Eb at 1. rewrite Hc. apply (IH ltac:(discriminate) buf pre lbl t num v w0 ws w2); assumption.
  Qed.

  Lemma P_msg_step s p' : (p' <> [] -> P_val p') -> P_msg (s :: p').
  Proof.
    intros IH isroot buf rd lbl num name fs pre' num0 Hp Hlbl Hwf Hent Hlen.
    destruct (path_okb_tail _ _ Hp) as [_ Hp'].
    destruct (wf_msg_facts _ _ _ Hwf) as [md [Hfind [Hnd [_ Hfs]]]].
    pose proof (schema_md _ _ _ HS Hfind) as Hmd.
    pose proof (msg_entry_plen _ _ _ _ _ Hent) as Hle.
    destruct (is_field_step s) eqn:Hfs'.
    2:{ unfold refines. cbn [plookup]. rewrite Hfs'. cbn [negb expected_gout]. exact I. }
    rewrite (gbp_field_unfold S buf s p' rd isroot lbl name num md pre' (encode_msg fs) Hfs' Hlbl Hfind Hent). cbv zeta.
    cbn [plookup]. rewrite Hfs'. cbn [negb]. rewrite Hfind.
    (* the common case: the step names a declared field fd *)
    assert (Hcase : forall fd, step_field md s = Some fd ->
      refines (match assoc_z (fd_num fd) fs with
               | Some x => plookup S (fd_label fd) (fd_type fd) (fd_num fd) x p'
               | None => LNotFound (is_nil p') end)
              (after_f S p' (pre' ++ encode_msg fs)
                 (search_field_id (Datatypes.S (length (pre' ++ encode_msg fs))) (pre' ++ encode_msg fs) (plen pre') (fd_num fd)
                                  (plen pre' + plen (encode_msg fs)))
                 (fd_label fd) (fd_type fd) (fd_num fd) (node_type (fd_label fd) (fd_type fd)))).
    { intros fd Hsf. destruct (step_field_facts _ _ _ Hmd Hsf) as [Hff Hok].
      destruct (assoc_z (fd_num fd) fs) as [v|] eqn:Ha.
      - destruct (msg_search_found S md fs pre' (fd_num fd) v Hfs Hnd Ha) as [W1 [W2 [fd' [Hff' [Hid [Hv [Eb [Hin Hsr]]]]]]]].
        rewrite Hff in Hff'. inversion Hff'; subst fd'. rewrite Hsr.
        apply (after_field_found p' _ (pre' ++ wenc W1) _ _ _ v W2 IH Hp' Hv Hid); [|exact Hin|exact Eb|lia].
        unfold key_kind_ok, field_okb in *. destruct (fd_label fd); auto.
      - rewrite (msg_search_none S md fs pre' (fd_num fd) Hfs Ha). unfold after_f, refines. cbn [expected_gout]. left. reflexivity. }
    destruct s as [n|nm| | |]; try discriminate; cbn [step_field] in *.
    - destruct (find_field md n) as [fd|] eqn:Hff; [apply (Hcase fd eq_refl)|].
      assert (Ha : assoc_z n fs = None).
      { destruct (assoc_z n fs) as [v|] eqn:Ha; [|reflexivity]. exfalso.
        destruct (assoc_z_split _ _ _ Ha) as [fs1 [fs2 [E _]]]. subst fs. destruct (fields_wf_app _ _ _ _ Hfs) as [_ H2].
        inversion H2 as [|? ? [fd [Hfd _]] _]; subst. cbn [fst] in Hfd. congruence. }
      rewrite (msg_search_none S md fs pre' n Hfs Ha). unfold after_f, refines. cbn [expected_gout].
      destruct (is_nil p'); cbn; auto.
    - destruct (find_field_name md nm) as [fd|] eqn:Hff; [apply (Hcase fd eq_refl)|].
      unfold refines. cbn [expected_gout]. right. left. reflexivity.
  Qed.

  (* what [after] does with a found element (list element, map value): the cursor is ON its tag *)
  Lemma after_elem p' buf preP n' x restP t lbl' num' numX start :
    (p' <> [] -> P_msg p') -> path_okb p' = true ->
    wf_fld S LSingular t x = true -> 1 <= n' <= MAX_FIELD_NUMBER ->
    desc_packed lbl' t = false -> (lbl' = LSingular \/ exists q, lbl' = LRepeated q) ->
    buf = preP ++ wenc_field (n', sval x) ++ restP -> plen buf < 9223372036854775808 ->
    refines (plookup S LSingular t numX x p')
            (after_f S p' buf (SFound start (plen preP)) lbl' t num' (kind_of_type t)).
  Proof.
    intros IH Hp Hwf Hn Hdp Hlbl Eb Hlen. destruct (wf_singular_facts _ _ _ Hwf) as [Hw [Hwt [Htt Ee]]].
    assert (Hf : wf_wfield (n', sval x) = true).
    { unfold wf_wfield. cbn [fst snd]. rewrite Hw. unfold MAX_FIELD_NUMBER in *.
      destruct (Z.leb_spec 1 n'); [|lia]. destruct (Z.leb_spec n' 536870911); [|lia]. reflexivity. }
    unfold after_f. destruct p' as [|s' p''].
    - cbn [is_nil plookup]. unfold refines. cbn [expected_gout node_type node_raw]. left. subst buf.
      rewrite (gf_record preP n' (sval x) restP lbl' t num' _ start Hf Hdp (eq_sym Hwt) Htt). rewrite Ee. f_equal.
      destruct x; cbn [wf_fld] in Hwf; try discriminate; reflexivity.
    - cbn [is_nil]. destruct (record_skip preP (n', sval x) restP Hf) as [Hc _]. cbn [fst snd] in Hc.
      rewrite Eb at 1. rewrite Hc.
      destruct x as [k v|k b|fs| |]; cbn [wf_fld] in Hwf; try discriminate;
        try (unfold refines; cbn [plookup expected_gout]; exact I).
      destruct t as [|name]; [discriminate|].
      apply (IH ltac:(discriminate) false buf _ lbl' num' name fs ((preP ++ tagb n' 2) ++ varint_enc (plen (encode_msg fs))) numX Hp Hlbl);
        [exact Hwf| |exact Hlen].
      cbn [sval wt_of_wval].
      assert (Eb2 : buf = (preP ++ tagb n' 2) ++ (varint_enc (plen (encode_msg fs)) ++ encode_msg fs) ++ restP).
      { rewrite Eb, wenc_field_tagb. cbn [fst snd sval wt_of_wval wenc_val]. repeat rewrite <- app_assoc. reflexivity. }
      rewrite <- plen_app. rewrite Eb2 in Hlen |- *. apply msg_entry_nested. exact Hlen.
  Qed.

  (* ---- a singular field: only a message can be descended into *)
  Lemma P_val_singular p buf pre t num v w0 ws w2 :
    P_msg p -> p <> [] -> path_okb p = true ->
    wf_fld S LSingular t v = true -> 1 <= num <= MAX_FIELD_NUMBER ->
    fvals v = w0 :: ws -> buf = pre ++ wenc (wfld num v) ++ wenc w2 -> plen buf < 9223372036854775808 ->
    refines (plookup S LSingular t num v p)
            (gbp_loop all_fixes S buf p (plen pre + plen (tagb num (wt_of_wval w0))) false LSingular t num).
  Proof.
    intros HM Hne Hp Hwf Hn Ef Eb Hlen. destruct p as [|s p']; [contradiction|].
    destruct v as [k x|k b|fs| |]; cbn [wf_fld] in Hwf; try discriminate;
      try (unfold refines; cbn [plookup expected_gout]; exact I).
    destruct t as [|name]; [discriminate|].
    cbn [fvals sval] in Ef. inversion Ef; subst w0 ws. cbn [wt_of_wval].
    rewrite (wfld_single S (TMsg name) (VMsg fs) num Hwf) in Eb. cbn [sval wenc flat_map] in Eb. rewrite app_nil_r in Eb.
    assert (Eb2 : buf = (pre ++ tagb num 2) ++ (varint_enc (plen (encode_msg fs)) ++ encode_msg fs) ++ wenc w2).
    { rewrite Eb, wenc_field_tagb. cbn [fst snd wt_of_wval wenc_val]. repeat rewrite <- app_assoc. reflexivity. }
    apply (HM false buf _ LSingular num name fs ((pre ++ tagb num 2) ++ varint_enc (plen (encode_msg fs))) num Hp (or_introl eq_refl));
      [exact Hwf| |exact Hlen].
    rewrite <- plen_app. rewrite Eb2 in Hlen |- *. apply msg_entry_nested. exact Hlen.
  Qed.

  Lemma penc_app k a b : penc k (a ++ b) = penc k a ++ penc k b.
  Proof. unfold penc. apply flat_map_app. Qed.

  Lemma nth_split_z {A} (l : list A) i x : 0 <= i -> nth_error l (Z.to_nat i) = Some x ->
    exists l1 l2, l = l1 ++ x :: l2 /\ i = plen l1.
  Proof.
    intros Hi H. destruct (nth_error_split l (Z.to_nat i) H) as [l1 [l2 [E Hl]]]. exists l1, l2. split; [exact E|].
    unfold plen. rewrite Hl. rewrite Z2Nat.id by lia. reflexivity.
  Qed.

  Lemma nth_none_z {A} (l : list A) i : 0 <= i -> nth_error l (Z.to_nat i) = None -> plen l <= i.
  Proof. intros Hi H. apply nth_error_None in H. unfold plen. lia. Qed.

  (* ---- a repeated field: index steps *)
  Lemma P_val_list s p' buf pre q0 t num v w0 ws w2 :
    (p' <> [] -> P_msg p') -> path_okb (s :: p') = true ->
    wf_fld S (LRepeated q0) t v = true -> 1 <= num <= MAX_FIELD_NUMBER ->
    fvals v = w0 :: ws -> inert num w2 -> buf = pre ++ wenc (wfld num v) ++ wenc w2 -> plen buf < 9223372036854775808 ->
    refines (plookup S (LRepeated q0) t num v (s :: p'))
            (gbp_loop all_fixes S buf (s :: p') (plen pre + plen (tagb num (wt_of_wval w0))) false (LRepeated q0) t num).
  Proof.
    intros IH Hp Hwf Hn Ef Hin Eb Hlen. destruct (path_okb_tail _ _ Hp) as [_ Hp'].
    destruct v as [| | |q vs|]; try (cbn [wf_fld] in Hwf; discriminate).
    destruct s as [| |i| |]; try (unfold refines; cbn [plookup expected_gout]; exact I).
    rewrite gbp_index_unfold. cbn [plookup].
    destruct (wf_list_facts _ _ _ _ _ num Hwf) as [Hq [Hne [Hall Hcase]]].
    assert (Hdp : desc_packed (LRepeated q0) t = q) by (unfold desc_packed; symmetry; exact Hq).
    unfold search_index. change (f701 all_fixes) with true. change (f702 all_fixes) with true. cbn [andb].
    destruct (Z.ltb_spec i 0) as [Hi|Hi].
    { unfold after_f, refines. cbn [expected_gout]. left. reflexivity. }
    rewrite Hdp. destruct q.
    - (* packed *)
      destruct Hcase as [k [xs [-> [Hk [-> [Hxs [Ew Hl]]]]]]]. cbn [fvals] in Ef. inversion Ef; subst w0 ws. cbn [wt_of_wval].
      rewrite Ew in Eb. cbn [wenc flat_map] in Eb. rewrite app_nil_r in Eb.
      set (tg := tagb num 2) in *. set (lenb := varint_enc (plen (penc k xs))).
      assert (Eb2 : buf = (pre ++ tg) ++ lenb ++ (penc k xs ++ wenc w2)).
      { rewrite Eb, wenc_field_tagb. cbn [fst snd wt_of_wval wenc_val]. fold tg lenb. repeat rewrite <- app_assoc. reflexivity. }
      assert (Eb3 : buf = ((pre ++ tg) ++ lenb) ++ penc k xs ++ wenc w2) by (rewrite Eb2; repeat rewrite <- app_assoc; reflexivity).
      pose proof (plen_nonneg (penc k xs)) as Hp0.
      assert (Hpl : plen (penc k xs) <= plen buf).
      { rewrite Eb3, !plen_app. pose proof (plen_nonneg pre). pose proof (plen_nonneg tg). pose proof (plen_nonneg lenb). pose proof (plen_nonneg (wenc w2)). lia. }
      rewrite <- plen_app. unfold aread_length.
      assert (Hcv : cvar buf (plen (pre ++ tg)) = Some (plen (penc k xs), plen lenb)).
      { rewrite Eb2. unfold lenb. apply cvar_enc. change (2 ^ 64) with 18446744073709551616. lia. }
      rewrite Hcv. rewrite to_s64_small by lia. rewrite <- plen_app.
      assert (Hxl : (length xs <= length buf)%nat).
      { rewrite Eb3, !app_length. pose proof (flat_map_length_ge (fun x => wenc_val (scalar_to_wire k x)) xs (fun x => scalar_enc_cons k x)). unfold penc. lia. }
      unfold elem_wt. cbn [kind_of_type]. rewrite nth_error_map.
      destruct (nth_error xs (Z.to_nat i)) as [x|] eqn:En; cbn [option_map].
      + destruct (nth_split_z _ _ _ Hi En) as [xs1 [xs2 [-> Ei]]].
        assert (Hx1 : (length xs1 <= length buf)%nat) by (rewrite app_length in Hxl; lia).
        match goal with |- context [search_index_packed ?f ?fx ?b ?r ?l ?i' ?e ?c] => set (SR := search_index_packed f fx b r l i' e c) end.
        assert (Hsr : SR = SFound (plen (((pre ++ tg) ++ lenb) ++ penc k xs1)) (plen (((pre ++ tg) ++ lenb) ++ penc k xs1))).
        { unfold SR. replace (Datatypes.S (length buf)) with (length xs1 + Datatypes.S (length buf - length xs1))%nat by lia.
          generalize (length buf - length xs1)%nat. intros fuel. rewrite Eb3.
          rewrite (sip_found k xs1 ((pre ++ tg) ++ lenb) x xs2 (wenc w2) fuel i 0 _ Hk Hxs eq_refl) by lia.
          rewrite <- plen_app. reflexivity. }
        rewrite Hsr. clear Hsr SR.
        destruct p' as [|s' p'']; [|unfold refines; cbn [plookup expected_gout]; exact I].
        unfold after_f. cbn [is_nil plookup]. unfold refines. cbn [expected_gout node_type node_raw kind_of_type]. left.
        assert (Hx : scalar_okb k x = true) by (rewrite Forall_forall in Hxs; apply Hxs; apply in_or_app; right; left; reflexivity).
        destruct (scalar_rt k x Hk Hx) as [_ [Hwx Hwtx]].
        assert (Eb4 : buf = (((pre ++ tg) ++ lenb) ++ penc k xs1) ++ wenc_val (scalar_to_wire k x) ++ (penc k xs2 ++ wenc w2)).
        { rewrite Eb3, penc_app, penc_cons. repeat rewrite <- app_assoc. reflexivity. }
        rewrite Eb4.
        rewrite (gf_packed_elem _ (scalar_to_wire k x) _ (LRepeated q0) (TScalar k) num k Hwx Hdp (eq_sym Hwtx) (kind_small_numeric _ Hk)).
        reflexivity.
      + pose proof (nth_none_z _ _ Hi En) as Hge.
        match goal with |- context [search_index_packed ?f ?fx ?b ?r ?l ?i' ?e ?c] => set (SR := search_index_packed f fx b r l i' e c) end.
        assert (Hsr : SR = SNotFound).
        { unfold SR. replace (Datatypes.S (length buf)) with (length xs + Datatypes.S (length buf - length xs))%nat by lia.
          generalize (length buf - length xs)%nat. intros fuel. rewrite Eb3.
          apply (sip_notfound k xs ((pre ++ tg) ++ lenb) (wenc w2) fuel i 0 _ Hk Hxs eq_refl). lia. }
        rewrite Hsr. clear Hsr SR.
        unfold after_f, refines. cbn [expected_gout]. left. reflexivity.
    - (* one record per element *)
      cbn [fvals] in Ef. destruct vs as [|x0 vs']; [contradiction|]. cbn [map] in Ef. inversion Ef; subst w0 ws. clear Ef.
      rewrite Hcase in Eb. cbn [map] in Eb.
      assert (Hx0 : wf_fld S LSingular t x0 = true) by (inversion Hall; assumption).
      assert (Hall' : Forall (fun x => wf_fld S LSingular t x = true) vs') by (inversion Hall; assumption).
      destruct (wf_singular_facts _ _ _ Hx0) as [Hw0 [Hwt0 _]].
      assert (Hwts : forall l, Forall (fun x => wf_fld S LSingular t x = true) l -> Forall (fun u => wt_of_wval u = elem_wt t) (map sval l)).
      { intros l Hl. apply Forall_forall. intros u Hu. apply in_map_iff in Hu. destruct Hu as [x [<- Hx]].
        rewrite Forall_forall in Hl. apply (wf_singular_facts _ _ _ (Hl x Hx)). }
      pose proof (wfld_wire _ _ _ _ num Hwf Hn) as Hww. rewrite Hcase in Hww. cbn [map wf_wire forallb] in Hww.
      apply andb_true_iff in Hww as [Hf0 Hwws]. fold (wf_wire (map (pair num) (map sval vs'))) in Hwws.
      set (tg := tagb num (wt_of_wval (sval x0))) in *.
      assert (Eb1 : buf = pre ++ wenc_field (num, sval x0) ++ (wenc (map (pair num) (map sval vs')) ++ wenc w2)).
      { rewrite Eb, wenc_cons. repeat rewrite <- app_assoc. reflexivity. }
      assert (Eb2 : buf = (pre ++ tg) ++ wenc_val (sval x0) ++ wenc (map (pair num) (map sval vs')) ++ wenc w2).
      { rewrite Eb1, wenc_field_tagb. cbn [fst snd]. fold tg. repeat rewrite <- app_assoc. reflexivity. }
      destruct (Z.eqb_spec i 0) as [->|Hi0].
      + (* index 0: the cursor steps back onto the tag *)
        rewrite <- Hwt0. change (varint_enc (num * 8 + wt_of_wval (sval x0))) with tg.
        replace (plen pre + plen tg - plen tg) with (plen pre) by lia.
        cbn [search_index_unpacked]. rewrite Z.ltb_irrefl, andb_false_r. change (f701 all_fixes) with true. cbn [negb andb].
        cbn [Z.to_nat nth_error].
        apply (after_elem p' buf pre num x0 _ t (LRepeated q0) num num _ IH Hp' Hx0 Hn Hdp (or_intror (ex_intro _ q0 eq_refl)) Eb1 Hlen).
      + assert (Hi1 : 1 <= i) by lia.
        assert (Ej : Z.to_nat i = Datatypes.S (Z.to_nat (i - 1))) by lia. rewrite Ej. cbn [nth_error].
        rewrite <- plen_app.
        assert (Hvl : (length vs' <= length buf)%nat).
        { rewrite Eb2, !app_length. pose proof (wenc_length_ge (map (pair num) (map sval vs'))). rewrite !map_length in H. lia. }
        destruct (nth_error vs' (Z.to_nat (i - 1))) as [x|] eqn:En.
        * assert (Hi2 : 0 <= i - 1) by lia. destruct (nth_split_z _ _ _ Hi2 En) as [vs1 [vs2 [-> Ei]]].
          assert (Hx : wf_fld S LSingular t x = true) by (rewrite Forall_forall in Hall'; apply Hall'; apply in_or_app; right; left; reflexivity).
          rewrite map_app in *. cbn [map] in *.
          assert (Hv1 : (length vs1 <= length buf)%nat) by (rewrite app_length in Hvl; lia).
          match goal with |- context [search_index_unpacked ?f ?fx ?b ?r ?i' ?e ?n0 ?c ?res ?ex] => set (SR := search_index_unpacked f fx b r i' e n0 c res ex) end.
          assert (Hsr : SR = SFound (plen (pre ++ tg) + plen (wenc_val (sval x0)) + plen (wenc (map (pair num) (map sval vs1))) + plen (tagb num (elem_wt t)))
                                    (plen (pre ++ tg) + plen (wenc_val (sval x0)) + plen (wenc (map (pair num) (map sval vs1))))).
          { unfold SR.
            replace (Datatypes.S (length buf)) with (length (map sval vs1) + Datatypes.S (Datatypes.S (length buf - length vs1 - 1)))%nat
              by (rewrite map_length; rewrite app_length in Hvl; cbn [length] in Hvl; lia).
            generalize (length buf - length vs1 - 1)%nat. intros fuel. rewrite Eb2.
            apply (siu_found (map sval vs1) (pre ++ tg) (sval x0) (sval x) (map sval vs2) w2 fuel i 0 _ true num (elem_wt t) Hw0 Hwt0 Hwws);
              [ rewrite <- (map_cons sval x vs2), <- map_app; apply Hwts; exact Hall'
              | unfold plen; rewrite map_length; fold (plen vs1); lia]. }
          rewrite Hsr. clear Hsr SR.
          set (preP := (pre ++ tg) ++ wenc_val (sval x0) ++ wenc (map (pair num) (map sval vs1))).
          assert (EbP : buf = preP ++ wenc_field (num, sval x) ++ (wenc (map (pair num) (map sval vs2)) ++ wenc w2)).
          { rewrite Eb2. unfold preP. rewrite map_app. cbn [map]. rewrite wenc_app, wenc_cons. repeat rewrite <- app_assoc. reflexivity. }
          replace (plen (pre ++ tg) + plen (wenc_val (sval x0)) + plen (wenc (map (pair num) (map sval vs1)))) with (plen preP)
            by (unfold preP; rewrite !plen_app; lia).
          apply (after_elem p' buf preP num x _ t (LRepeated q0) num num _ IH Hp' Hx Hn Hdp (or_intror (ex_intro _ q0 eq_refl)) EbP Hlen).
        * assert (Hi2 : 0 <= i - 1) by lia. pose proof (nth_none_z _ _ Hi2 En) as Hge.
          match goal with |- context [search_index_unpacked ?f ?fx ?b ?r ?i' ?e ?n0 ?c ?res ?ex] => set (SR := search_index_unpacked f fx b r i' e n0 c res ex) end.
          assert (Hsr : SR = SNotFound).
          { unfold SR.
            replace (Datatypes.S (length buf)) with (length (map sval vs') + Datatypes.S (length buf - length vs'))%nat
              by (rewrite map_length; lia).
            generalize (length buf - length vs')%nat. intros fuel. rewrite Eb2.
            apply (siu_notfound (map sval vs') (pre ++ tg) (sval x0) w2 fuel i 0 _ true num (elem_wt t) Hw0 Hwt0 Hwws (Hwts _ Hall') Hin).
            unfold plen; rewrite map_length; fold (plen vs'); lia. }
          rewrite Hsr. clear Hsr SR.
          unfold after_f, refines. cbn [expected_gout]. left. reflexivity.
  Qed.

  Lemma find_map_entry (f : mkey * wval -> bool) kvs :
    find f (map entry_of kvs) = option_map entry_of (find (fun kx => f (entry_of kx)) kvs).
  Proof. induction kvs as [|kx kvs IH]; [reflexivity|]. cbn [map find]. destruct (f (entry_of kx)); [reflexivity|exact IH]. Qed.

  Lemma find_ext {A} (f g : A -> bool) l : (forall x, f x = g x) -> find f l = find g l.
  Proof. intros H. induction l as [|a l IH]; [reflexivity|]. cbn [find]. rewrite H, IH. reflexivity. Qed.

  Lemma assoc_key_find {B} k (kvs : list (mkey * B)) :
    assoc_key (KStr k) kvs = option_map snd (find (fun kx => match_str k (fst kx)) kvs).
  Proof.
    induction kvs as [|[m x] kvs IH]; [reflexivity|]. cbn [assoc_key find fst].
    destruct m as [kk v|b]; cbn [mkey_eqb match_str]; [exact IH|]. destruct (bytes_eqb b k); [reflexivity|exact IH].
  Qed.

  (* ---- a map field: key steps *)
  Lemma P_val_map s p' buf pre kk t num v w0 ws w2 :
    (p' <> [] -> P_msg p') -> path_okb (s :: p') = true ->
    wf_fld S (LMap kk) t v = true -> 1 <= num <= MAX_FIELD_NUMBER -> (kk =? 9) || kind_is_int kk = true ->
    fvals v = w0 :: ws -> inert num w2 -> buf = pre ++ wenc (wfld num v) ++ wenc w2 -> plen buf < 9223372036854775808 ->
    refines (plookup S (LMap kk) t num v (s :: p'))
            (gbp_loop all_fixes S buf (s :: p') (plen pre + plen (tagb num (wt_of_wval w0))) false (LMap kk) t num).
  Proof.
    intros IH Hp Hwf Hn Hkk Ef Hin Eb Hlen. destruct (path_okb_tail _ _ Hp) as [Hs Hp'].
    destruct v as [| | | |kvs]; try (cbn [wf_fld] in Hwf; discriminate).
    destruct (wf_map_facts _ _ _ _ num Hwf) as [Hne [Ew Hall]].
    destruct kvs as [|kx0 kvs']; [contradiction|].
    cbn [fvals map] in Ef. inversion Ef; subst w0 ws. clear Ef. unfold entry_wval at 1. cbn [wt_of_wval].
    rewrite Ew in Eb. cbn [map] in Eb.
    set (e0 := entry_of kx0) in *. set (r := map entry_of kvs') in *. set (tg := tagb num 2).
    assert (Eb2 : buf = (pre ++ tg) ++ evalb e0 ++ wenc (map (erec num) r) ++ wenc w2).
    { rewrite Eb, wenc_cons, erec_enc. fold tg. repeat rewrite <- app_assoc. reflexivity. }
    rewrite <- plen_app.
    assert (Hrl : (length r <= length buf)%nat).
    { rewrite Eb2, !app_length. pose proof (wenc_length_ge (map (erec num) r)). rewrite map_length in H. lia. }
    assert (Hents : forall a, In a (e0 :: r) -> In (fst a) (map fst (e0 :: r)) /\ wf_entry a = true).
    { intros a Ha. split; [apply in_map; exact Ha|].
      change (e0 :: r) with (map entry_of (kx0 :: kvs')) in Ha. apply in_map_iff in Ha. destruct Ha as [kx [<- Hkx]].
      rewrite Forall_forall in Hall. apply (Hall kx Hkx). }
    assert (Hkeys : Forall (fun key => key_okb kk key = true) (map fst (e0 :: r))).
    { apply Forall_forall. intros key Hk. apply in_map_iff in Hk. destruct Hk as [a [<- Ha]].
      change (e0 :: r) with (map entry_of (kx0 :: kvs')) in Ha. apply in_map_iff in Ha. destruct Ha as [kx [<- Hkx]].
      rewrite Forall_forall in Hall. apply (Hall kx Hkx). }
    (* the common part: a scan whose matcher agrees with the spec's choice *)
    assert (Hscan : forall rdkey matchb,
      rdkey_ok buf rdkey matchb (map fst (e0 :: r)) ->
      refines (match find (fun kx => matchb (fst kx)) (kx0 :: kvs') with
               | Some kx => plookup S LSingular t num (snd kx) p'
               | None => LNotFound (is_nil p') end)
              (after_f S p' buf (search_key (Datatypes.S (length buf)) buf rdkey (plen (pre ++ tg)) num) LSingular t 0 (kind_of_type t))).
    { intros rdkey matchb Hrd.
      replace (Datatypes.S (length buf)) with (Datatypes.S (length r) + (length buf - length r))%nat by lia.
      rewrite (sk_run r buf rdkey matchb _ (pre ++ tg) e0 w2 _ num Hrd Hn Hents Hin Eb2).
      pose proof (sk_expect_spec matchb num r e0 (pre ++ tg) w2 buf Eb2) as Hspec.
      change (e0 :: r) with (map entry_of (kx0 :: kvs')) in Hspec. rewrite find_map_entry in Hspec.
      assert (Efe : forall kx, matchb (fst (entry_of kx)) = matchb (fst kx)) by (intros; reflexivity).
      rewrite (find_ext _ (fun kx => matchb (fst kx)) _ Efe) in Hspec.
      change (map entry_of (kx0 :: kvs')) with (e0 :: r) in Hspec.
      destruct (find (fun kx => matchb (fst kx)) (kx0 :: kvs')) as [kx|] eqn:Efind; cbn [option_map] in Hspec.
      - destruct Hspec as [preK [restK [Hsk EbK]]]. rewrite Hsk. apply find_some in Efind. destruct Efind as [Hkin _].
        rewrite Forall_forall in Hall. destruct (Hall kx Hkin) as [_ [Hx _]]. cbn [entry_of snd] in EbK.
        apply (after_elem p' buf preK 2 (snd kx) restK t LSingular 0 num _ IH Hp' Hx); [unfold MAX_FIELD_NUMBER; lia|reflexivity|left; reflexivity|exact EbK|exact Hlen].
      - rewrite Hspec. unfold after_f, refines. cbn [expected_gout]. left. reflexivity. }
    destruct s as [| | |k|i]; try (unfold refines; cbn [plookup expected_gout]; exact I).
    - (* string key *)
      cbn [plookup]. destruct (Z.eqb_spec kk 9) as [->|Hk9]; [|unfold refines; cbn [expected_gout]; exact I].
      rewrite gbp_strkey_unfold. rewrite assoc_key_find.
      pose proof (Hscan _ (match_str k) (rdkey_str_ok buf k _ Hkeys)) as H.
      destruct (find (fun kx => match_str k (fst kx)) (kx0 :: kvs')) as [kx|]; cbn [option_map]; exact H.
    - (* integer key *)
      cbn [plookup]. destruct (Z.eqb_spec kk 9) as [->|Hk9]; [unfold refines; cbn [expected_gout]; exact I|].
      assert (Hki : kind_is_int kk = true).
      { apply orb_true_iff in Hkk. destruct Hkk as [E|E]; [discriminate E|exact E]. }
      rewrite gbp_intkey_unfold.
      assert (Hi : to_s 64 i = i).
      { cbn [step_okb] in Hs. apply andb_true_iff in Hs as [H1 H2]. apply Z.leb_le in H1. apply Z.ltb_lt in H2.
        change (2 ^ 63) with 9223372036854775808 in *. apply to_s64_id. lia. }
      assert (Efk : forall kx : mkey * pval, key_matches i (fst kx) = match_int i (fst kx)).
      { intros [[k' v'|b] x]; cbn [fst key_matches match_int]; [rewrite Hi; reflexivity|reflexivity]. }
      rewrite (find_ext _ (fun kx => match_int i (fst kx)) _ Efk).
      exact (Hscan _ (match_int i) (rdkey_int_ok buf kk i _ Hki Hkeys)).
  Qed.

  Lemma refine_main n : forall p, (length p <= n)%nat -> p <> [] -> P_msg p /\ P_val p.
  Proof.
    induction n as [|n IH]; intros p Hl Hne.
    - destruct p; [contradiction|cbn in Hl; lia].
    - destruct p as [|s p']; [contradiction|]. cbn [length] in Hl.
      assert (IHm : p' <> [] -> P_msg p') by (intros H; apply (IH p'); [lia|exact H]).
      assert (IHv : p' <> [] -> P_val p') by (intros H; apply (IH p'); [lia|exact H]).
      pose proof (P_msg_step s p' IHv) as HM. split; [exact HM|].
      intros buf pre lbl t num v w0 ws w2 Hp Hwf Hn Hkk Ef Hin Eb Hlen.
      destruct lbl as [|q0|kk].
      + apply (P_val_singular (s :: p') buf pre t num v w0 ws w2 HM ltac:(discriminate) Hp Hwf Hn Ef Eb Hlen).
      + apply (P_val_list s p' buf pre q0 t num v w0 ws w2 IHm Hp Hwf Hn Ef Hin Eb Hlen).
      + apply (P_val_map s p' buf pre kk t num v w0 ws w2 IHm Hp Hwf Hn Hkk Ef Hin Eb Hlen).
  Qed.
End Main.

(* ------------------------------------------------------------------ the refinement theorem *)
Theorem gbp_refines_plookup S root m p : gbp_domain S root m p = true ->
  refines (plookup_root S root m p) (gbp all_fixes S root (encode_msg m) p).
Proof.
  unfold gbp_domain. intros H.
  apply andb_true_iff in H as [H Hne]. apply andb_true_iff in H as [H Hp]. apply andb_true_iff in H as [H Hlen].
  apply andb_true_iff in H as [HS Hwf]. apply Z.ltb_lt in Hlen. change (2 ^ 63) with 9223372036854775808 in Hlen.
  destruct p as [|s p']; [discriminate|]. unfold gbp, plookup_root.
  destruct (refine_main S HS (length (s :: p')) (s :: p') (le_n _) ltac:(discriminate)) as [HM _].
  apply (HM true (encode_msg m) 0 LSingular 0 root m [] 0 Hp (or_introl eq_refl) Hwf (msg_entry_root _) Hlen).
Qed.

(* the same for a message embedded at any base offset, followed by any tail (a non-root Value: length-prefixed) *)
Theorem gbp_nested_refines_plookup S root m p pre tail :
  gbp_domain S root m p = true ->
  plen (pre ++ (varint_enc (plen (encode_msg m)) ++ encode_msg m) ++ tail) < 2 ^ 63 ->
  refines (plookup_root S root m p)
          (gbp_loop all_fixes S (pre ++ (varint_enc (plen (encode_msg m)) ++ encode_msg m) ++ tail) p (plen pre) false
                    LSingular (TMsg root) 0).
Proof.
  unfold gbp_domain. intros H Hlen.
  apply andb_true_iff in H as [H Hne]. apply andb_true_iff in H as [H Hp]. apply andb_true_iff in H as [H _].
  apply andb_true_iff in H as [HS Hwf]. change (2 ^ 63) with 9223372036854775808 in Hlen.
  destruct p as [|s p']; [discriminate|]. unfold plookup_root.
  destruct (refine_main S HS (length (s :: p')) (s :: p') (le_n _) ltac:(discriminate)) as [HM _].
  apply (HM false _ (plen pre) LSingular 0 root m (pre ++ varint_enc (plen (encode_msg m))) 0 Hp (or_introl eq_refl) Hwf); [|exact Hlen].
  apply msg_entry_nested. exact Hlen.
Qed.

(* ------------------------------------------------------------------ the found element is well-formed, its span decodes *)
Lemma plookup_wf S : schema_okb S = true -> forall p lbl t num v l' t' n' v',
  wf_fld S lbl t v = true -> ((forall fs, v <> VMsg fs) -> 1 <= num <= MAX_FIELD_NUMBER) ->
  plookup S lbl t num v p = LFound l' t' n' v' ->
  wf_fld S l' t' v' = true /\ (p <> [] -> 1 <= n' <= MAX_FIELD_NUMBER).
Proof.
  intros HS p. induction p as [|s p IH]; intros lbl t num v l' t' n' v' Hwf Hnum H.
  - cbn in H. inversion H; subst. split; [exact Hwf|intros C; contradiction].
  - assert (Hgoal : forall lbl2 t2 num2 v2, wf_fld S lbl2 t2 v2 = true -> 1 <= num2 <= MAX_FIELD_NUMBER ->
              plookup S lbl2 t2 num2 v2 p = LFound l' t' n' v' ->
              wf_fld S l' t' v' = true /\ (s :: p <> [] -> 1 <= n' <= MAX_FIELD_NUMBER)).
    { intros lbl2 t2 num2 v2 Hw2 Hn2 H2. destruct (IH _ _ _ _ _ _ _ _ Hw2 (fun _ => Hn2) H2) as [A B]. split; [exact A|].
      intros _. destruct p as [|s' p']; [cbn in H2; inversion H2; subst; exact Hn2|apply B; discriminate]. }
    cbn [plookup] in H. destruct lbl as [|q0|kk]; destruct v as [k x|k b|fs|q vs|kvs]; try discriminate.
    + destruct (negb (is_field_step s)); [discriminate|]. destruct t as [|name]; [discriminate|].
      destruct (wf_msg_facts _ _ _ Hwf) as [md [Hfind [_ [_ Hfs]]]]. rewrite Hfind in H.
      destruct (step_field md s) as [fd|] eqn:Hsf; [|discriminate].
      destruct (step_field_facts _ _ _ (schema_md _ _ _ HS Hfind) Hsf) as [Hff _].
      destruct (assoc_z (fd_num fd) fs) as [x|] eqn:Ha; [|discriminate].
      destruct (assoc_z_split _ _ _ Ha) as [fs1 [fs2 [E _]]]. subst fs. destruct (fields_wf_app _ _ _ _ Hfs) as [_ H2].
      inversion H2 as [|? ? [fd' [Hfd' [Hr Hv]]] _]; subst. cbn [fst snd] in *. rewrite Hff in Hfd'. inversion Hfd'; subst fd'.
      apply (Hgoal _ _ _ _ Hv Hr H).
    + destruct s as [| |i| |]; try discriminate. destruct (i <? 0); [discriminate|].
      destruct (nth_error vs (Z.to_nat i)) as [x|] eqn:En; [|discriminate].
      destruct (wf_list_facts _ _ _ _ _ num Hwf) as [_ [_ [Hall _]]]. rewrite Forall_forall in Hall.
      apply (Hgoal _ _ _ _ (Hall x (nth_error_In _ _ En)) (Hnum ltac:(intros; discriminate)) H).
    + destruct (wf_map_facts _ _ _ _ num Hwf) as [_ [_ Hall]]. rewrite Forall_forall in Hall.
      destruct s as [| | |k|i]; try discriminate.
      * destruct (kk =? 9); [|discriminate]. rewrite assoc_key_find in H.
        destruct (find (fun kx => match_str k (fst kx)) kvs) as [kx|] eqn:Ef; [|discriminate]. cbn [option_map] in H.
        apply find_some in Ef. destruct Ef as [Hin _]. destruct (Hall kx Hin) as [_ [Hx _]].
        apply (Hgoal _ _ _ _ Hx (Hnum ltac:(intros; discriminate)) H).
      * destruct (kk =? 9); [discriminate|].
        destruct (find (fun kx => key_matches i (fst kx)) kvs) as [kx|] eqn:Ef; [|discriminate].
        apply find_some in Ef. destruct Ef as [Hin _]. destruct (Hall kx Hin) as [_ [Hx _]].
        apply (Hgoal _ _ _ _ Hx (Hnum ltac:(intros; discriminate)) H).
Qed.

(* the span getByPath returns is the encoding of the element, and it decodes back to the element with the
   proved decoder: the records of the field (for a singular element: its tag followed by the span) are a
   well-formed wire tree that wdec reads back and dec_field turns into the element *)
Theorem found_span_decodes S root m p lbl t num v fd fuel :
  gbp_domain S root m p = true -> plookup_root S root m p = LFound lbl t num v ->
  fd_label fd = lbl -> fd_type fd = t -> (depth v <= fuel)%nat ->
  gbp all_fixes S root (encode_msg m) p = GFoundA (node_type lbl t) (node_raw lbl num v) (size_of v) /\
  wenc (wfld num v) = match lbl with LSingular => tagb num (elem_wt t) ++ node_raw lbl num v | _ => node_raw lbl num v end /\
  wdec (wenc (wfld num v)) = Some (wfld num v) /\
  dec_field (decode_msg S fuel) fd (map snd (wfld num v)) = Some (Some v).
Proof.
  intros Hdom Hl Hfl Hft Hd. pose proof (gbp_refines_plookup S root m p Hdom) as Hr.
  unfold refines in Hr. rewrite Hl in Hr. cbn [expected_gout In] in Hr. destruct Hr as [Hr|[]].
  split; [symmetry; exact Hr|].
  unfold gbp_domain in Hdom.
  apply andb_true_iff in Hdom as [H Hne]. apply andb_true_iff in H as [H _]. apply andb_true_iff in H as [H _].
  apply andb_true_iff in H as [HS Hwf].
  destruct (plookup_wf S HS p LSingular (TMsg root) 0 (VMsg m) lbl t num v Hwf
              ltac:(intros Hc; exfalso; apply (Hc m); reflexivity) Hl) as [Hwv Hnum].
  assert (Hn : 1 <= num <= MAX_FIELD_NUMBER) by (apply Hnum; destruct p; [discriminate|discriminate]).
  split.
  - destruct lbl; [|reflexivity|reflexivity]. cbn [node_raw].
    destruct (wf_singular_facts _ _ _ Hwv) as [_ [Hwt [_ Ee]]].
    rewrite (wfld_single _ _ _ num Hwv). cbn [wenc flat_map]. rewrite app_nil_r, wenc_field_tagb. cbn [fst snd].
    rewrite Hwt, Ee. reflexivity.
  - split; [apply wdec_wenc; apply (wfld_wire _ _ _ _ num Hwv Hn)|].
    destruct (wfld_fvals _ _ _ _ num Hwv) as [E _]. rewrite E, map_map. cbn [snd]. rewrite map_id.
    apply field_rt_all; [rewrite Hfl, Hft; exact Hwv|exact Hd].
Qed.
