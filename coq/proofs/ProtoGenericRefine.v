(* Refinement: Value.getByPath as coded with every recorded repair applied (ProtoGenericAlg.gbp all_fixes)
   computes the spec lookup (ProtoGeneric.plookup) on canonical encodings, for every schema, every
   well-formed message, every path: found |-> exact node type, exact span (= the encoding of the element)
   and element count; not-found exactly when the element is absent. *)
From Coq Require Import ZArith List Bool Lia.
From DG Require Import CaseFormat ProtoWireRef ProtoWireRefProofs ProtoMsg ProtoMsgProofs
  ProtoGeneric ProtoGenericAlg ProtoGenericProofs.
Import ListNotations.
Local Open Scope Z_scope.

(* ------------------------------------------------------------------ cursor arithmetic *)
Lemma at_app pre rest : at_ (pre ++ rest) (plen pre) = rest.
Proof. unfold at_, plen. rewrite Nat2Z.id. apply skipn_app_len. Qed.

Lemma slice_app pre x post : slice (pre ++ x ++ post) (plen pre) (plen pre + plen x) = x.
Proof.
  unfold slice. rewrite at_app. replace (plen pre + plen x - plen pre) with (plen x) by lia.
  unfold plen. rewrite Nat2Z.id. apply firstn_app_len.
Qed.

Lemma plen_cons {A} (x : A) l : plen (x :: l) = 1 + plen l.
Proof. unfold plen. cbn [length]. lia. Qed.

Lemma to_s64_small v : 0 <= v < 9223372036854775808 -> to_s 64 v = v.
Proof.
  intros H. unfold to_s. change (2 ^ (64 - 1)) with 9223372036854775808. change (2 ^ 64) with 18446744073709551616.
  rewrite Z.mod_small by lia. lia.
Qed.

Definition tagb (n wt : Z) : list Z := varint_enc (n * 8 + wt).

Lemma cvar_enc pre v rest : 0 <= v < 2 ^ 64 ->
  cvar (pre ++ varint_enc v ++ rest) (plen pre) = Some (v, plen (varint_enc v)).
Proof.
  intros H. unfold cvar. rewrite at_app, varint_dec_enc' by exact H.
  pose proof (plen_nonneg (varint_enc v)). destruct (Z.ltb_spec (plen (varint_enc v)) 0); [lia|reflexivity].
Qed.

Definition wt_ok (wt : Z) : Prop := wt = 0 \/ wt = 1 \/ wt = 2 \/ wt = 5.

Lemma ctag_enc pre n wt rest : 1 <= n <= MAX_FIELD_NUMBER -> wt_ok wt ->
  ctag (pre ++ tagb n wt ++ rest) (plen pre) = Some (n, wt, plen (tagb n wt)).
Proof.
  intros Hn Hw. unfold ctag, tagb, MAX_FIELD_NUMBER in *. 
  assert (Hr : 0 <= n * 8 + wt < 2 ^ 64) by (change (2 ^ 64) with 18446744073709551616; unfold wt_ok in Hw; lia).
  rewrite cvar_enc by exact Hr.
  assert (Hd : (n * 8 + wt) / 8 = n) by (unfold wt_ok in Hw; Z.div_mod_to_equations; lia).
  assert (Hm : (n * 8 + wt) mod 8 = wt) by (unfold wt_ok in Hw; Z.div_mod_to_equations; lia).
  rewrite Hd, Hm. destruct (Z.gtb_spec n 2147483647); [lia|]. destruct (Z.ltb_spec n 1); [lia|]. reflexivity.
Qed.

Lemma wt_of_wval_ok w : wt_ok (wt_of_wval w).
Proof. destruct w; cbn; unfold wt_ok; auto. Qed.

Lemma wenc_field_tagb f : wenc_field f = tagb (fst f) (wt_of_wval (snd f)) ++ wenc_val (snd f).
Proof. reflexivity. Qed.

(* Skip(wt) over one wire value *)
Lemma askip_val pre w rest : wf_wval w = true ->
  askip (pre ++ wenc_val w ++ rest) (plen pre) (wt_of_wval w) = SkOk (plen pre + plen (wenc_val w)).
Proof.
  intros H. destruct w as [v|v|v|bs]; cbn [wf_wval wt_of_wval wenc_val] in *; unfold askip; cbn [Z.eqb Pos.eqb].
  - apply andb_true_iff in H as [H0 H1]. apply Z.leb_le in H0. apply Z.ltb_lt in H1.
    rewrite cvar_enc by lia. reflexivity.
  - rewrite !plen_app, le_enc_plen. pose proof (plen_nonneg rest). cbn [Z.of_nat Pos.of_succ_nat Pos.succ].
    destruct (Z.leb_spec (plen pre + 8) (plen pre + (8 + plen rest))); [reflexivity|lia].
  - rewrite !plen_app, le_enc_plen. pose proof (plen_nonneg rest). cbn [Z.of_nat Pos.of_succ_nat Pos.succ].
    destruct (Z.leb_spec (plen pre + 4) (plen pre + (4 + plen rest))); [reflexivity|lia].
  - apply Z.ltb_lt in H. pose proof (plen_nonneg bs). rewrite <- app_assoc. rewrite cvar_enc by lia.
    rewrite !plen_app. pose proof (plen_nonneg rest).
    destruct (Z.gtb_spec (plen bs) (plen pre + (plen (varint_enc (plen bs)) + (plen bs + plen rest)) - plen pre - plen (varint_enc (plen bs)))); [lia|].
    f_equal. lia.
Qed.

(* tag + value of one record *)
Lemma record_skip pre f rest : wf_wfield f = true ->
  ctag (pre ++ wenc_field f ++ rest) (plen pre) = Some (fst f, wt_of_wval (snd f), plen (tagb (fst f) (wt_of_wval (snd f)))) /\
  askip (pre ++ wenc_field f ++ rest) (plen pre + plen (tagb (fst f) (wt_of_wval (snd f)))) (wt_of_wval (snd f))
    = SkOk (plen pre + plen (wenc_field f)).
Proof.
  intros H. unfold wf_wfield in H. apply andb_true_iff in H as [H Hw]. apply andb_true_iff in H as [H1 H2].
  apply Z.leb_le in H1. apply Z.leb_le in H2.
  rewrite wenc_field_tagb, <- app_assoc. split.
  - apply ctag_enc; [lia|apply wt_of_wval_ok].
  - rewrite <- plen_app, app_assoc. rewrite askip_val by exact Hw. rewrite !plen_app. f_equal. lia.
Qed.

Lemma wenc_field_plen_pos f : 1 <= plen (wenc_field f).
Proof. destruct (wenc_field_cons f) as [b [t E]]. rewrite E. unfold plen. cbn [length]. lia. Qed.

Lemma app_assoc3 {A} (a b c d : list A) : a ++ (b ++ c) ++ d = (a ++ b) ++ c ++ d.
Proof. rewrite <- !app_assoc. reflexivity. Qed.

(* ------------------------------------------------------------------ searchFieldId *)
Lemma sfi_skip w1 : forall pre rest fuel id lim,
  wf_wire w1 = true -> Forall (fun f => fst f <> id) w1 -> plen pre + plen (wenc w1) <= lim ->
  search_field_id (length w1 + fuel) (pre ++ wenc w1 ++ rest) (plen pre) id lim =
  search_field_id fuel (pre ++ wenc w1 ++ rest) (plen pre + plen (wenc w1)) id lim.
Proof.
  induction w1 as [|f w IH]; intros pre rest fuel id lim Hwf Hne Hlim.
  - cbn [length plus wenc flat_map app]. unfold plen at 2. cbn [length Z.of_nat]. rewrite Z.add_0_r. reflexivity.
  - cbn [wf_wire forallb] in Hwf. apply andb_true_iff in Hwf as [Hf Hw].
    inversion Hne as [|? ? Hf1 Hne']; subst.
    rewrite wenc_cons in *. rewrite plen_app in Hlim. pose proof (wenc_field_plen_pos f). pose proof (plen_nonneg (wenc w)).
    cbn [length plus search_field_id].
    destruct (Z.ltb_spec (plen pre) lim); [|lia].
    rewrite <- app_assoc. destruct (record_skip pre f (wenc w ++ rest) Hf) as [Ht Hs].
    rewrite Ht. destruct (Z.eqb_spec (fst f) id); [contradiction|]. rewrite Hs.
    rewrite app_assoc. rewrite <- plen_app. rewrite IH; [|exact Hw|exact Hne'|rewrite plen_app; lia].
    rewrite !plen_app. f_equal. lia.
Qed.

Lemma sfi_found pre f rest fuel lim : wf_wfield f = true -> plen pre < lim ->
  search_field_id (S fuel) (pre ++ wenc_field f ++ rest) (plen pre) (fst f) lim = SFound (plen pre) (plen pre).
Proof.
  intros Hf Hl. cbn [search_field_id]. destruct (Z.ltb_spec (plen pre) lim); [|lia].
  destruct (record_skip pre f rest Hf) as [Ht _]. rewrite Ht, Z.eqb_refl. reflexivity.
Qed.

Lemma sfi_end buf rd id fuel : search_field_id (S fuel) buf rd id rd = SNotFound.
Proof. cbn [search_field_id]. rewrite Z.ltb_irrefl. reflexivity. Qed.

(* ------------------------------------------------------------------ what follows a run of records of one number *)
(* the rest of the enclosing message: other fields' records, up to the end of the (narrowed) buffer *)
Definition inert (fnum : Z) (w2 : list wfield) : Prop :=
  wf_wire w2 = true /\ Forall (fun f => fst f <> fnum) w2.

Lemma inert_head pre w2 fnum : inert fnum w2 ->
  (w2 = [] /\ plen (pre ++ wenc w2) = plen pre) \/
  (exists num wt n, plen pre < plen (pre ++ wenc w2) /\
                    ctag (pre ++ wenc w2) (plen pre) = Some (num, wt, n) /\ num <> fnum).
Proof.
  intros [Hwf Hne]. destruct w2 as [|f w]; [left; split; [reflexivity|cbn; rewrite app_nil_r; reflexivity]|right].
  cbn [wf_wire forallb] in Hwf. apply andb_true_iff in Hwf as [Hf _]. inversion Hne; subst.
  rewrite wenc_cons. destruct (record_skip pre f (wenc w) Hf) as [Ht _].
  eexists _, _, _. split; [|split; [exact Ht|assumption]].
  rewrite !plen_app. pose proof (wenc_field_plen_pos f). pose proof (plen_nonneg (wenc w)). lia.
Qed.

Lemma wf_wire_map_pair n vals : wf_wire (map (pair n) vals) = true ->
  1 <= n <= MAX_FIELD_NUMBER \/ vals = [].
Proof.
  destruct vals as [|v vs]; [auto|]. cbn [map wf_wire forallb]. unfold wf_wfield. cbn [fst snd]. intros H.
  apply andb_true_iff in H as [H _]. apply andb_true_iff in H as [H _]. apply andb_true_iff in H as [H1 H2].
  apply Z.leb_le in H1. apply Z.leb_le in H2. left. lia.
Qed.

(* ------------------------------------------------------------------ SkipAllElements, unpacked run *)
Lemma sau_run vals : forall pre w2 fuel fnum cnt,
  wf_wire (map (pair fnum) vals) = true -> inert fnum w2 ->
  skip_all_unpacked (length vals + S fuel) (pre ++ wenc (map (pair fnum) vals) ++ wenc w2) (plen pre) fnum cnt =
  SaOk (plen pre + plen (wenc (map (pair fnum) vals))) (cnt + plen vals).
Proof.
  induction vals as [|v vals IH]; intros pre w2 fuel fnum cnt Hwf Hin.
  - cbn [map wenc flat_map app length plus]. unfold plen at 3 4. cbn [length Z.of_nat]. rewrite !Z.add_0_r.
    cbn [skip_all_unpacked].
    destruct (inert_head pre w2 fnum Hin) as [[-> E]|[num [wt [n [Hlt [Ht Hne]]]]]].
    + rewrite E, Z.ltb_irrefl. reflexivity.
    + destruct (Z.ltb_spec (plen pre) (plen (pre ++ wenc w2))); [|lia]. rewrite Ht.
      destruct (Z.eqb_spec num fnum); [contradiction|]. reflexivity.
  - cbn [map] in *. cbn [wf_wire forallb] in Hwf. apply andb_true_iff in Hwf as [Hf Hw].
    rewrite wenc_cons. cbn [length plus skip_all_unpacked].
    rewrite <- app_assoc.
    destruct (record_skip pre (fnum, v) (wenc (map (pair fnum) vals) ++ wenc w2) Hf) as [Ht Hs]. cbn [fst snd] in Ht, Hs.
    pose proof (wenc_field_plen_pos (fnum, v)).
    assert (Hlt : plen pre < plen (pre ++ wenc_field (fnum, v) ++ wenc (map (pair fnum) vals) ++ wenc w2)).
    { rewrite !plen_app. pose proof (plen_nonneg (wenc (map (pair fnum) vals))). pose proof (plen_nonneg (wenc w2)). lia. }
    destruct (Z.ltb_spec (plen pre) (plen (pre ++ wenc_field (fnum, v) ++ wenc (map (pair fnum) vals) ++ wenc w2))); [|lia].
    rewrite Ht. rewrite Z.eqb_refl. cbn [negb]. rewrite Hs.
    rewrite app_assoc, <- plen_app. rewrite IH by assumption.
    rewrite !plen_app, plen_cons. f_equal; lia.
Qed.

(* ------------------------------------------------------------------ packed payloads *)
Definition penc (k : Z) (xs : list Z) : list Z := flat_map (fun x => wenc_val (scalar_to_wire k x)) xs.

Lemma penc_cons k x xs : penc k (x :: xs) = wenc_val (scalar_to_wire k x) ++ penc k xs.
Proof. reflexivity. Qed.

Lemma scalar_val_plen_pos k x : 1 <= plen (wenc_val (scalar_to_wire k x)).
Proof. destruct (scalar_enc_cons k x) as [b [t E]]. rewrite E. unfold plen. cbn [length]. lia. Qed.

Lemma sap_run k xs : forall pre rest fuel cnt lim,
  is_numeric k = true -> Forall (fun x => scalar_okb k x = true) xs ->
  lim = plen pre + plen (penc k xs) ->
  skip_all_packed (length xs + S fuel) (pre ++ penc k xs ++ rest) (plen pre) lim (wt_of_kind k) cnt =
  SaOk lim (cnt + plen xs).
Proof.
  induction xs as [|x xs IH]; intros pre rest fuel cnt lim Hn Hall Hlim.
  - cbn [length plus skip_all_packed]. subst lim. unfold plen at 2 4. cbn [penc flat_map length Z.of_nat].
    rewrite !Z.add_0_r, Z.ltb_irrefl. reflexivity.
  - assert (Hx : scalar_okb k x = true) by (inversion Hall; assumption).
    assert (Hxs : Forall (fun x => scalar_okb k x = true) xs) by (inversion Hall; assumption).
    rewrite penc_cons in *. rewrite plen_app in Hlim.
    pose proof (scalar_val_plen_pos k x). pose proof (plen_nonneg (penc k xs)).
    cbn [length plus skip_all_packed]. destruct (Z.ltb_spec (plen pre) lim); [|lia].
    destruct (scalar_rt k x Hn Hx) as [_ [Hwf Hwt]].
    rewrite <- app_assoc, <- Hwt. rewrite askip_val by exact Hwf.
    rewrite app_assoc, <- plen_app. rewrite Hwt. rewrite (IH _ _ _ _ lim Hn Hxs) by (rewrite plen_app; lia).
    rewrite plen_cons. f_equal. lia.
Qed.

(* ------------------------------------------------------------------ searchIndex, packed *)
Lemma sip_found k xs1 : forall pre x xs2 rest fuel idx cnt lim,
  is_numeric k = true -> Forall (fun x => scalar_okb k x = true) (xs1 ++ x :: xs2) ->
  lim = plen pre + plen (penc k (xs1 ++ x :: xs2)) -> idx = cnt + plen xs1 ->
  search_index_packed (length xs1 + S fuel) all_fixes (pre ++ penc k (xs1 ++ x :: xs2) ++ rest) (plen pre) lim idx (wt_of_kind k) cnt =
  SFound (plen pre + plen (penc k xs1)) (plen pre + plen (penc k xs1)).
Proof.
  induction xs1 as [|y xs1 IH]; intros pre x xs2 rest fuel idx cnt lim Hn Hall Hlim Hidx.
  - cbn [app] in *. rewrite penc_cons in *. rewrite plen_app in Hlim.
    pose proof (scalar_val_plen_pos k x). pose proof (plen_nonneg (penc k xs2)).
    unfold plen at 1 in Hidx. cbn [length Z.of_nat] in Hidx.
    cbn [length plus search_index_packed].
    destruct (Z.ltb_spec (plen pre) lim); [|lia]. destruct (Z.ltb_spec cnt idx); [lia|]. cbn [andb].
    change (f701 all_fixes) with true. cbn [andb]. destruct (Z.geb_spec (plen pre) lim); [lia|].
    unfold plen at 3 5. cbn [penc flat_map length Z.of_nat]. rewrite Z.add_0_r. reflexivity.
  - assert (Hy : scalar_okb k y = true) by (inversion Hall; assumption).
    assert (Hys : Forall (fun x => scalar_okb k x = true) (xs1 ++ x :: xs2)) by (inversion Hall; assumption).
    cbn [app] in *. rewrite penc_cons in *. rewrite plen_app in Hlim. rewrite plen_cons in Hidx.
    pose proof (scalar_val_plen_pos k y). pose proof (plen_nonneg (penc k (xs1 ++ x :: xs2))). pose proof (plen_nonneg xs1).
    cbn [length plus search_index_packed].
    destruct (Z.ltb_spec (plen pre) lim); [|lia]. destruct (Z.ltb_spec cnt idx); [|lia]. cbn [andb].
    destruct (scalar_rt k y Hn Hy) as [_ [Hwf Hwt]].
    rewrite <- app_assoc, <- Hwt. rewrite askip_val by exact Hwf. rewrite Hwt.
    rewrite app_assoc, <- plen_app.
    rewrite (IH _ _ _ _ _ idx (cnt + 1) lim Hn Hys) by (try rewrite plen_app; lia).
    rewrite penc_cons, !plen_app. f_equal; lia.
Qed.

Lemma sip_notfound k xs : forall pre rest fuel idx cnt lim,
  is_numeric k = true -> Forall (fun x => scalar_okb k x = true) xs ->
  lim = plen pre + plen (penc k xs) -> cnt + plen xs <= idx ->
  search_index_packed (length xs + S fuel) all_fixes (pre ++ penc k xs ++ rest) (plen pre) lim idx (wt_of_kind k) cnt = SNotFound.
Proof.
  induction xs as [|y xs IH]; intros pre rest fuel idx cnt lim Hn Hall Hlim Hidx.
  - assert (E : lim = plen pre) by (subst lim; cbn; lia). clear Hlim. subst lim.
    cbn [length plus search_index_packed].
    rewrite Z.ltb_irrefl. cbn [andb]. change (f701 all_fixes) with true. cbn [andb].
    destruct (Z.geb_spec (plen pre) (plen pre)); [reflexivity|lia].
  - assert (Hy : scalar_okb k y = true) by (inversion Hall; assumption).
    assert (Hys : Forall (fun x => scalar_okb k x = true) xs) by (inversion Hall; assumption).
    rewrite penc_cons in *. rewrite plen_app in Hlim. rewrite plen_cons in Hidx.
    pose proof (scalar_val_plen_pos k y). pose proof (plen_nonneg (penc k xs)). pose proof (plen_nonneg xs).
    cbn [length plus search_index_packed].
    destruct (Z.ltb_spec (plen pre) lim); [|lia]. destruct (Z.ltb_spec cnt idx); [|lia]. cbn [andb].
    destruct (scalar_rt k y Hn Hy) as [_ [Hwf Hwt]].
    rewrite <- app_assoc, <- Hwt. rewrite askip_val by exact Hwf. rewrite Hwt.
    rewrite app_assoc, <- plen_app.
    apply (IH _ _ _ idx (cnt + 1) lim Hn Hys); [rewrite plen_app; lia|lia].
Qed.

(* ------------------------------------------------------------------ searchIndex, unpacked *)
Lemma wenc_val_plen_pos w : 1 <= plen (wenc_val w).
Proof.
  destruct w as [v|v|v|bs]; cbn [wenc_val].
  - destruct (varint_enc_cons v) as [b [t E]]. rewrite E. rewrite plen_cons. pose proof (plen_nonneg t). lia.
  - rewrite le_enc_plen. cbn. lia.
  - rewrite le_enc_plen. cbn. lia.
  - rewrite plen_app. destruct (varint_enc_cons (plen bs)) as [b [t E]]. rewrite E. rewrite plen_cons.
    pose proof (plen_nonneg t). pose proof (plen_nonneg bs). lia.
Qed.

Ltac reassoc := cbn [map]; rewrite ?wenc_cons, ?wenc_field_tagb; cbn [fst snd]; repeat rewrite <- app_assoc; reflexivity.

(* the cursor is behind the tag of an element v; vs are the following elements of the run *)
Lemma siu_found vs1 : forall pre v w vs2 w2 fuel idx cnt result ex fnum ewt,
  wf_wval v = true -> wt_of_wval v = ewt ->
  wf_wire (map (pair fnum) (vs1 ++ w :: vs2)) = true ->
  Forall (fun u => wt_of_wval u = ewt) (vs1 ++ w :: vs2) ->
  idx = cnt + 1 + plen vs1 ->
  search_index_unpacked (length vs1 + S (S fuel)) all_fixes
    (pre ++ wenc_val v ++ wenc (map (pair fnum) (vs1 ++ w :: vs2)) ++ wenc w2) (plen pre) idx ewt fnum cnt result ex
  = SFound (plen pre + plen (wenc_val v) + plen (wenc (map (pair fnum) vs1)) + plen (tagb fnum ewt))
           (plen pre + plen (wenc_val v) + plen (wenc (map (pair fnum) vs1))).
Proof.
  induction vs1 as [|u vs1 IH]; intros pre v w vs2 w2 fuel idx cnt result ex fnum ewt Hv Hwt Hwf Hall Hidx.
  - cbn [app] in *. rewrite plen_cons in Hidx || (unfold plen at 1 in Hidx; cbn [length Z.of_nat] in Hidx).
    cbn [map] in Hwf. cbn [wf_wire forallb] in Hwf. apply andb_true_iff in Hwf as [Hfw _].
    assert (Hww : wt_of_wval w = ewt) by (inversion Hall; assumption).
    pose proof (wenc_val_plen_pos v) as Hpv. pose proof (wenc_field_plen_pos (fnum, w)) as Hpw.
    set (buf := pre ++ wenc_val v ++ wenc (map (pair fnum) (w :: vs2)) ++ wenc w2).
    assert (Eb : buf = (pre ++ wenc_val v) ++ wenc_field (fnum, w) ++ wenc (map (pair fnum) vs2) ++ wenc w2) by (unfold buf; reassoc).
    assert (Hlen : plen pre + plen (wenc_val v) + plen (wenc_field (fnum, w)) <= plen buf).
    { rewrite Eb, !plen_app. pose proof (plen_nonneg (wenc (map (pair fnum) vs2))). pose proof (plen_nonneg (wenc w2)). lia. }
    cbn [length plus search_index_unpacked].
    destruct (Z.ltb_spec (plen pre) (plen buf)); [|lia]. destruct (Z.ltb_spec cnt idx); [|lia]. cbn [andb].
    subst ewt. unfold buf at 1. rewrite askip_val by exact Hv. fold buf.
    destruct (Z.ltb_spec (plen pre + plen (wenc_val v)) (plen buf)); [|lia].
    destruct (record_skip (pre ++ wenc_val v) (fnum, w) (wenc (map (pair fnum) vs2) ++ wenc w2) Hfw) as [Ht _].
    rewrite <- Eb, plen_app in Ht. cbn [fst snd] in Ht. rewrite Ht. rewrite Z.eqb_refl. cbn [negb].
    destruct (Z.ltb_spec (cnt + 1) idx); [lia|].
    (* second round: the counter has reached the index *)
    destruct (Z.ltb_spec (plen pre + plen (wenc_val v)) (plen buf)); [|lia]. cbn [andb].
    change (f701 all_fixes) with true. cbn [negb andb].
    destruct (Z.ltb_spec (cnt + 1) idx); [lia|].
    unfold plen at 5 8. cbn [map wenc flat_map length Z.of_nat]. rewrite !Z.add_0_r. rewrite Hww. reflexivity.
  - cbn [app] in *. rewrite plen_cons in Hidx. pose proof (plen_nonneg vs1) as Hp1.
    cbn [map] in Hwf. cbn [wf_wire forallb] in Hwf. apply andb_true_iff in Hwf as [Hfu Hwf'].
    assert (Huw : wt_of_wval u = ewt) by (inversion Hall; assumption).
    assert (Hall' : Forall (fun u => wt_of_wval u = ewt) (vs1 ++ w :: vs2)) by (inversion Hall; assumption).
    pose proof (wenc_val_plen_pos v) as Hpv. pose proof (wenc_field_plen_pos (fnum, u)) as Hpu.
    set (buf := pre ++ wenc_val v ++ wenc (map (pair fnum) (u :: vs1 ++ w :: vs2)) ++ wenc w2).
    assert (Eb : buf = (pre ++ wenc_val v) ++ wenc_field (fnum, u) ++ wenc (map (pair fnum) (vs1 ++ w :: vs2)) ++ wenc w2) by (unfold buf; reassoc).
    assert (Eb2 : buf = (pre ++ wenc_val v ++ tagb fnum (wt_of_wval u)) ++ wenc_val u ++ wenc (map (pair fnum) (vs1 ++ w :: vs2)) ++ wenc w2) by (unfold buf; reassoc).
    assert (Hlen : plen pre + plen (wenc_val v) + plen (wenc_field (fnum, u)) <= plen buf).
    { rewrite Eb, !plen_app. pose proof (plen_nonneg (wenc (map (pair fnum) (vs1 ++ w :: vs2)))). pose proof (plen_nonneg (wenc w2)). lia. }
    cbn [length plus search_index_unpacked].
    destruct (Z.ltb_spec (plen pre) (plen buf)); [|lia]. destruct (Z.ltb_spec cnt idx); [|lia]. cbn [andb].
    subst ewt. unfold buf at 1. rewrite askip_val by exact Hv. fold buf.
    destruct (Z.ltb_spec (plen pre + plen (wenc_val v)) (plen buf)); [|lia].
    destruct (record_skip (pre ++ wenc_val v) (fnum, u) (wenc (map (pair fnum) (vs1 ++ w :: vs2)) ++ wenc w2) Hfu) as [Ht _].
    rewrite <- Eb, plen_app in Ht. cbn [fst snd] in Ht. rewrite Ht. rewrite Z.eqb_refl. cbn [negb].
    destruct (Z.ltb_spec (cnt + 1) idx); [|lia].
    assert (Hfu' : wf_wval u = true).
    { unfold wf_wfield in Hfu. cbn [fst snd] in Hfu. apply andb_true_iff in Hfu as [_ Hfu]. exact Hfu. }
    replace (plen pre + plen (wenc_val v) + plen (tagb fnum (wt_of_wval u)))
      with (plen (pre ++ wenc_val v ++ tagb fnum (wt_of_wval u))) by (rewrite !plen_app; lia).
    rewrite Eb2.
    rewrite (IH _ u w vs2 w2 fuel idx (cnt + 1) _ true fnum (wt_of_wval v) Hfu' Huw Hwf' Hall') by lia.
    cbn [map]. rewrite wenc_cons, wenc_field_tagb. cbn [fst snd]. rewrite !plen_app. rewrite Huw. f_equal; lia.
Qed.

Lemma siu_notfound vs : forall pre v w2 fuel idx cnt result ex fnum ewt,
  wf_wval v = true -> wt_of_wval v = ewt ->
  wf_wire (map (pair fnum) vs) = true -> Forall (fun u => wt_of_wval u = ewt) vs -> inert fnum w2 ->
  cnt + 1 + plen vs <= idx ->
  search_index_unpacked (length vs + S fuel) all_fixes
    (pre ++ wenc_val v ++ wenc (map (pair fnum) vs) ++ wenc w2) (plen pre) idx ewt fnum cnt result ex = SNotFound.
Proof.
  induction vs as [|u vs IH]; intros pre v w2 fuel idx cnt result ex fnum ewt Hv Hwt Hwf Hall Hin Hidx.
  - unfold plen at 1 in Hidx. cbn [length Z.of_nat] in Hidx.
    cbn [map wenc flat_map app]. pose proof (wenc_val_plen_pos v) as Hpv.
    set (buf := pre ++ wenc_val v ++ wenc w2).
    assert (Eb : buf = (pre ++ wenc_val v) ++ wenc w2) by (unfold buf; rewrite <- app_assoc; reflexivity).
    assert (Hlen : plen pre + plen (wenc_val v) <= plen buf).
    { unfold buf. rewrite !plen_app. pose proof (plen_nonneg (wenc w2)). lia. }
    cbn [length plus search_index_unpacked].
    destruct (Z.ltb_spec (plen pre) (plen buf)); [|lia]. destruct (Z.ltb_spec cnt idx); [|lia]. cbn [andb].
    subst ewt. unfold buf at 1. rewrite askip_val by exact Hv. fold buf.
    change (f701 all_fixes) with true.
    destruct (inert_head (pre ++ wenc_val v) w2 fnum Hin) as [[-> E]|[num [wt [n [Hlt [Ht Hne]]]]]].
    + rewrite <- Eb, plen_app in E. rewrite E, Z.ltb_irrefl. reflexivity.
    + rewrite <- Eb, plen_app in Hlt, Ht.
      destruct (Z.ltb_spec (plen pre + plen (wenc_val v)) (plen buf)); [|lia]. rewrite Ht.
      destruct (Z.eqb_spec num fnum); [contradiction|]. reflexivity.
  - rewrite plen_cons in Hidx. pose proof (plen_nonneg vs) as Hp1.
    cbn [map] in Hwf. cbn [wf_wire forallb] in Hwf. apply andb_true_iff in Hwf as [Hfu Hwf'].
    assert (Huw : wt_of_wval u = ewt) by (inversion Hall; assumption).
    assert (Hall' : Forall (fun u => wt_of_wval u = ewt) vs) by (inversion Hall; assumption).
    pose proof (wenc_val_plen_pos v) as Hpv. pose proof (wenc_field_plen_pos (fnum, u)) as Hpu.
    set (buf := pre ++ wenc_val v ++ wenc (map (pair fnum) (u :: vs)) ++ wenc w2).
    assert (Eb : buf = (pre ++ wenc_val v) ++ wenc_field (fnum, u) ++ wenc (map (pair fnum) vs) ++ wenc w2) by (unfold buf; reassoc).
    assert (Eb2 : buf = (pre ++ wenc_val v ++ tagb fnum (wt_of_wval u)) ++ wenc_val u ++ wenc (map (pair fnum) vs) ++ wenc w2) by (unfold buf; reassoc).
    assert (Hlen : plen pre + plen (wenc_val v) + plen (wenc_field (fnum, u)) <= plen buf).
    { rewrite Eb, !plen_app. pose proof (plen_nonneg (wenc (map (pair fnum) vs))). pose proof (plen_nonneg (wenc w2)). lia. }
    cbn [length plus search_index_unpacked].
    destruct (Z.ltb_spec (plen pre) (plen buf)); [|lia]. destruct (Z.ltb_spec cnt idx); [|lia]. cbn [andb].
    subst ewt. unfold buf at 1. rewrite askip_val by exact Hv. fold buf.
    destruct (Z.ltb_spec (plen pre + plen (wenc_val v)) (plen buf)); [|lia].
    destruct (record_skip (pre ++ wenc_val v) (fnum, u) (wenc (map (pair fnum) vs) ++ wenc w2) Hfu) as [Ht _].
    rewrite <- Eb, plen_app in Ht. cbn [fst snd] in Ht. rewrite Ht. rewrite Z.eqb_refl. cbn [negb].
    destruct (Z.ltb_spec (cnt + 1) idx); [|lia].
    assert (Hfu' : wf_wval u = true).
    { unfold wf_wfield in Hfu. cbn [fst snd] in Hfu. apply andb_true_iff in Hfu as [_ Hfu]. exact Hfu. }
    replace (plen pre + plen (wenc_val v) + plen (tagb fnum (wt_of_wval u)))
      with (plen (pre ++ wenc_val v ++ tagb fnum (wt_of_wval u))) by (rewrite !plen_app; lia).
    rewrite Eb2.
    apply (IH _ u w2 fuel idx (cnt + 1) _ true fnum (wt_of_wval v) Hfu' Huw Hwf' Hall' Hin). lia.
Qed.
