(* C01: the byte-level path search (get_by_path: chained skip over the encoding, as node.go does)
   refines the AST-level lookup; the span found is the encoding of the sub-value; the children
   listings enumerate exactly the children with consecutive spans. *)
From Coq Require Import ZArith List Bool Lia.
From DG Require Import ProtoWireRef ProtoWireRefProofs ThriftWire ThriftWireProofs CaseFormat ThriftGeneric.
Import ListNotations.
Local Open Scope Z_scope.

(* ---------------- small facts ---------------- *)
Lemma zlen_app {A} (a b : list A) : zlen (a ++ b) = zlen a + zlen b.
Proof. unfold zlen. rewrite app_length. lia. Qed.

Lemma zlen_nonneg {A} (a : list A) : 0 <= zlen a.
Proof. unfold zlen. lia. Qed.

Lemma zlen_cons {A} (x : A) (a : list A) : zlen (x :: a) = 1 + zlen a.
Proof. unfold zlen. cbn [length]. lia. Qed.

Lemma bytes_eqb_refl l : bytes_eqb l l = true.
Proof. unfold bytes_eqb. induction l as [|x l IH]; cbn [list_eqb]; [reflexivity|]. rewrite Z.eqb_refl, IH. reflexivity. Qed.

Lemma bytes_eqb_eq a : forall b, bytes_eqb a b = true -> a = b.
Proof.
  unfold bytes_eqb. induction a as [|x a IH]; intros [|y b] H; cbn [list_eqb] in H; try discriminate; [reflexivity|].
  apply andb_true_iff in H. destruct H as [H1 H2]. apply Z.eqb_eq in H1. subst. f_equal. apply IH. exact H2.
Qed.

(* a value the search can walk: well-formed and within the skip depth limit *)
Definition good (x : tval) : Prop := wf x = true /\ (depth x <= max_skip_depth)%nat.

Lemma skip_go_encode x r : good x -> skip_go (type_of x) (encode x ++ r) = Some r.
Proof. intros [Hw Hd]. unfold skip_go. apply skip_encode; assumption. Qed.

Lemma good_struct_inv fs : good (VStruct fs) ->
  Forall (fun f => in_sb 16 (fst f) = true /\ good (snd f)) fs.
Proof.
  intros [Hw Hd]. cbn [wf] in Hw. rewrite forallb_forall in Hw. cbn [depth] in Hd.
  assert (Hd' : (fold_right (fun (f : Z * tval) m => Nat.max (depth (snd f)) m) O fs <= max_skip_depth)%nat) by lia.
  pose proof (fold_max_le (fun f : Z * tval => depth (snd f)) fs _ Hd') as Hdep.
  rewrite Forall_forall in *. intros f Hin. specialize (Hw f Hin). apply andb_true_iff in Hw. destruct Hw as [Hid Hwf].
  split; [exact Hid|]. split; [exact Hwf|]. apply Hdep. exact Hin.
Qed.

Lemma good_map_inv kt vt es : good (VMap kt vt es) ->
  zlen es < 2 ^ 31 /\
  Forall (fun e => type_of (fst e) = kt /\ type_of (snd e) = vt /\ good (fst e) /\ good (snd e)) es.
Proof.
  intros [Hw Hd]. cbn [wf] in Hw. repeat (apply andb_true_iff in Hw; destruct Hw as [Hw ?]).
  match goal with H : (zlen es <? 2 ^ 31) = true |- _ => apply Z.ltb_lt in H; rename H into Hlen end.
  match goal with H : forallb _ es = true |- _ => rewrite forallb_forall in H; rename H into Hall end.
  cbn [depth] in Hd.
  assert (Hd' : (fold_right (fun (e : tval * tval) m => Nat.max (Nat.max (depth (fst e)) (depth (snd e))) m) O es <= max_skip_depth)%nat) by lia.
  pose proof (fold_max_le (fun e : tval * tval => Nat.max (depth (fst e)) (depth (snd e))) es _ Hd') as Hdep.
  split; [exact Hlen|].
  rewrite Forall_forall in *. intros e Hin. specialize (Hall e Hin). specialize (Hdep e Hin).
  repeat (apply andb_true_iff in Hall; destruct Hall as [Hall ?]).
  apply Z.eqb_eq in Hall. match goal with H : (type_of (snd e) =? vt) = true |- _ => apply Z.eqb_eq in H end.
  unfold good. repeat split; auto; lia.
Qed.

Lemma good_elems_inv et es :
  (byte_okb et && (zlen es <? 2 ^ 31) && ((zlen es =? 0) || valid_type et) && forallb (fun e => (type_of e =? et) && wf e) es) = true ->
  (fold_right (fun e m => Nat.max (depth e) m) O es <= max_skip_depth)%nat ->
  zlen es < 2 ^ 31 /\ Forall (fun e => type_of e = et /\ good e) es.
Proof.
  intros Hw Hd. repeat (apply andb_true_iff in Hw; destruct Hw as [Hw ?]).
  match goal with H : (zlen es <? 2 ^ 31) = true |- _ => apply Z.ltb_lt in H; rename H into Hlen end.
  match goal with H : forallb _ es = true |- _ => rewrite forallb_forall in H; rename H into Hall end.
  pose proof (fold_max_le depth es _ Hd) as Hdep.
  split; [exact Hlen|].
  rewrite Forall_forall in *. intros e Hin. specialize (Hall e Hin). specialize (Hdep e Hin).
  apply andb_true_iff in Hall. destruct Hall as [Ht Hwf]. apply Z.eqb_eq in Ht.
  unfold good. auto.
Qed.

Lemma good_list_inv et es : good (VList et es) -> zlen es < 2 ^ 31 /\ Forall (fun e => type_of e = et /\ good e) es.
Proof. intros [Hw Hd]. cbn [wf] in Hw. cbn [depth] in Hd. apply good_elems_inv; [exact Hw|lia]. Qed.

Lemma good_set_inv et es : good (VSet et es) -> zlen es < 2 ^ 31 /\ Forall (fun e => type_of e = et /\ good e) es.
Proof. intros [Hw Hd]. cbn [wf] in Hw. cbn [depth] in Hd. apply good_elems_inv; [exact Hw|lia]. Qed.

(* ---------------- what "the byte-level search agrees with the AST-level lookup" means ---------------- *)
(* the search returns the element's type, the same offset, and a remaining buffer that STARTS with the
   element's encoding (so the next search / the final skip works on it) *)
Definition sres_matches (sr : sres) (lr : lres) : Prop :=
  match lr with
  | LFound sub o => exists r', sr = SFound (type_of sub) o (encode sub ++ r')
  | LNotFound => sr = SNotFound
  | LErr => sr = SErr
  end.

Definition gres_of_lres (r : lres) : gres :=
  match r with
  | LFound sub off => GFound (type_of sub) off (off + zlen (encode sub))
  | LNotFound => GNotFound
  | LErr => GErr
  end.

(* ---- struct: searchFieldId vs find_field ---- *)
Lemma search_field_refines id fs : forall fuel r off,
  Forall (fun f => in_sb 16 (fst f) = true /\ good (snd f)) fs ->
  (length fs < fuel)%nat ->
  sres_matches
    (search_field fuel id (flat_map (fun f => type_of (snd f) :: enc_int 2 (fst f) ++ encode (snd f)) fs ++ 0 :: r) off)
    (find_field id fs off).
Proof.
  induction fs as [|[fid x] fs IH]; intros fuel r off HF Hfuel; destruct fuel as [|fuel]; try (cbn in Hfuel; lia).
  - reflexivity.
  - inversion HF as [|? ? [Hid Hx] HF']; subst. cbn [fst snd] in *.
    cbn [flat_map search_field find_field]. cbn [app fst snd].
    destruct (Z.eqb_spec (type_of x) 0) as [E0|_]; [exfalso; revert E0; apply valid_type_nonzero, type_of_valid|].
    rewrite <- !app_assoc. rewrite take_enc_int.
    rewrite dec_int_enc_int; [|lia|apply in_sb_true in Hid; exact Hid].
    destruct (fid =? id).
    + cbn [sres_matches]. eexists. reflexivity.
    + rewrite skip_go_encode by exact Hx.
      rewrite zlen_app.
      replace (off + 3 + (zlen (encode x) +
        zlen (flat_map (fun f : Z * tval => type_of (snd f) :: enc_int 2 (fst f) ++ encode (snd f)) fs ++ 0 :: r) -
        zlen (flat_map (fun f : Z * tval => type_of (snd f) :: enc_int 2 (fst f) ++ encode (snd f)) fs ++ 0 :: r)))
        with (off + 3 + zlen (encode x)) by lia.
      apply IH; [exact HF'|cbn in Hfuel; lia].
Qed.

(* ---- list / set: searchIndex vs find_index ---- *)
Lemma find_index_ge es : forall n off, (length es <= n)%nat -> find_index n es off = LNotFound.
Proof.
  induction es as [|x es IH]; intros n off Hn; [destruct n; reflexivity|].
  destruct n as [|n]; [cbn in Hn; lia|]. cbn [find_index]. apply IH. cbn in Hn. lia.
Qed.

Lemma search_nth_refines et es : forall n r off,
  Forall (fun e => type_of e = et /\ good e) es ->
  (n < length es)%nat ->
  sres_matches (search_nth n et (flat_map encode es ++ r) off) (find_index n es off).
Proof.
  induction es as [|x es IH]; intros n r off HF Hn; [cbn in Hn; lia|].
  inversion HF as [|? ? [Ht Hx] HF']; subst. cbn [flat_map]. rewrite <- app_assoc.
  destruct n as [|n]; cbn [search_nth find_index].
  - cbn [sres_matches]. eexists. reflexivity.
  - rewrite skip_go_encode by exact Hx. rewrite zlen_app.
    replace (off + (zlen (encode x) + zlen (flat_map encode es ++ r) - zlen (flat_map encode es ++ r)))
      with (off + zlen (encode x)) by lia.
    apply IH; [exact HF'|cbn in Hn; lia].
Qed.

Lemma search_index_refines i et es r :
  zlen es < 2 ^ 31 -> Forall (fun e => type_of e = et /\ good e) es ->
  sres_matches (search_index i (et :: enc_int 4 (zlen es) ++ flat_map encode es ++ r))
               (if i <? 0 then LErr else find_index (Z.to_nat i) es 5).
Proof.
  intros Hlen HF. unfold search_index.
  rewrite skip_count_ok by (pose proof (zlen_nonneg es); lia).
  destruct (Z.ltb_spec i 0) as [Hneg|Hpos]; [reflexivity|].
  destruct (Z.geb_spec i (zlen es)) as [Hge|Hlt].
  - rewrite find_index_ge; [reflexivity|]. unfold zlen in Hge. lia.
  - apply search_nth_refines; [exact HF|]. unfold zlen in Hlt. lia.
Qed.

(* ---- map: searchStrKey / searchIntKey / searchBinKey vs find_key ---- *)
Lemma search_pairs_refines rdkey pr vt es : forall r off,
  Forall (fun e => type_of (snd e) = vt /\ good (snd e) /\
                   forall r', rdkey (encode (fst e) ++ r') = Some (pr (fst e), r')) es ->
  sres_matches
    (search_pairs (length es) rdkey vt (flat_map (fun e => encode (fst e) ++ encode (snd e)) es ++ r) off)
    (find_key pr es off).
Proof.
  induction es as [|[k x] es IH]; intros r off HF; [reflexivity|].
  inversion HF as [|? ? [Ht [Hx Hk]] HF']; subst. cbn [fst snd] in *.
  cbn [length search_pairs flat_map find_key fst snd]. rewrite <- !app_assoc.
  rewrite Hk. cbv zeta. rewrite zlen_app.
  replace (off + (zlen (encode k) +
      zlen (encode x ++ flat_map (fun e : tval * tval => encode (fst e) ++ encode (snd e)) es ++ r) -
      zlen (encode x ++ flat_map (fun e : tval * tval => encode (fst e) ++ encode (snd e)) es ++ r)))
    with (off + zlen (encode k)) by lia.
  destruct (pr k).
  - cbn [sres_matches]. eexists. reflexivity.
  - rewrite skip_go_encode by exact Hx. rewrite zlen_app.
    replace (off + zlen (encode k) +
        (zlen (encode x) + zlen (flat_map (fun e : tval * tval => encode (fst e) ++ encode (snd e)) es ++ r) -
         zlen (flat_map (fun e : tval * tval => encode (fst e) ++ encode (snd e)) es ++ r)))
      with (off + zlen (encode k) + zlen (encode x)) by lia.
    apply IH. exact HF'.
Qed.

Lemma rd_str_key_ok s k r : wf k = true -> type_of k = T_STRING ->
  rd_str_key s (encode k ++ r) = Some (str_key_is s k, r).
Proof.
  intros Hw Ht. unfold rd_str_key. rewrite <- Ht.
  rewrite dec_scalar_encode; [|exact Hw|rewrite Ht; reflexivity].
  destruct k; try discriminate Ht. reflexivity.
Qed.

Lemma rd_int_key_ok n k r : wf k = true -> is_int_type (type_of k) = true ->
  rd_int_key (type_of k) n (encode k ++ r) = Some (int_key_is n k, r).
Proof.
  intros Hw Ht. unfold rd_int_key.
  rewrite dec_scalar_encode; [|exact Hw|destruct k; try discriminate Ht; reflexivity].
  unfold int_key_is. destruct k; try discriminate Ht; reflexivity.
Qed.

Lemma firstn_diff_app (a r : list Z) : firstn (length (a ++ r) - length r) (a ++ r) = a.
Proof.
  rewrite app_length. replace (length a + length r - length r)%nat with (length a) by lia.
  rewrite firstn_app, firstn_all, Nat.sub_diag. cbn. apply app_nil_r.
Qed.

Lemma bytes_eqb_sym a : forall b, bytes_eqb a b = bytes_eqb b a.
Proof.
  unfold bytes_eqb. induction a as [|x a IH]; intros [|y b]; cbn [list_eqb]; try reflexivity.
  rewrite Z.eqb_sym, IH. reflexivity.
Qed.

Lemma rd_bin_key_ok b k r : good k ->
  rd_bin_key (type_of k) b (encode k ++ r) = Some (bin_key_is b k, r).
Proof.
  intros Hk. unfold rd_bin_key. rewrite skip_go_encode by exact Hk.
  rewrite firstn_diff_app. reflexivity.
Qed.

Lemma pairs_len_ge (es : list (tval * tval)) :
  (length es <= length (flat_map (fun e => encode (fst e) ++ encode (snd e)) es))%nat.
Proof.
  apply flat_map_length_ge. intros a. cbv beta. rewrite app_length. pose proof (encode_nonempty (fst a)). lia.
Qed.

Lemma search_map_refines s kt vt es r : good (VMap kt vt es) ->
  sres_matches (search_map s (encode (VMap kt vt es) ++ r)) (lookup1 (VMap kt vt es) s).
Proof.
  intros Hg. destruct (good_map_inv _ _ _ Hg) as [Hlen HF].
  cbn [encode app]. rewrite <- app_assoc. unfold search_map.
  rewrite skip_count_ok by (pose proof (zlen_nonneg es); lia).
  cbv zeta.
  assert (Hn : Z.to_nat (Z.min (zlen es) (zlen (flat_map (fun e : tval * tval => encode (fst e) ++ encode (snd e)) es ++ r) + 1)) = length es).
  { pose proof (pairs_len_ge es) as Hge. rewrite zlen_app. pose proof (zlen_nonneg r) as Hr.
    rewrite Z.min_l; [apply to_nat_zlen|]. unfold zlen in *. lia. }
  rewrite Hn.
  destruct s as [id|i|k|n|b]; cbn [lookup1]; try reflexivity.
  - (* string key *)
    destruct (kt =? T_STRING) eqn:Ek; [|reflexivity]. apply Z.eqb_eq in Ek.
    apply search_pairs_refines.
    rewrite Forall_forall in *. intros e Hin. destruct (HF e Hin) as [Tk [Tv [[Wk Dk] Gv]]].
    split; [exact Tv|]. split; [exact Gv|]. intros r'. apply rd_str_key_ok; [exact Wk|congruence].
  - (* integer key *)
    destruct (is_int_type kt) eqn:Ek; [|reflexivity].
    apply search_pairs_refines.
    rewrite Forall_forall in *. intros e Hin. destruct (HF e Hin) as [Tk [Tv [[Wk Dk] Gv]]].
    split; [exact Tv|]. split; [exact Gv|]. intros r'. rewrite <- Tk. apply rd_int_key_ok; [exact Wk|rewrite Tk; exact Ek].
  - (* raw key *)
    apply search_pairs_refines.
    rewrite Forall_forall in *. intros e Hin. destruct (HF e Hin) as [Tk [Tv [Gk Gv]]].
    split; [exact Tv|]. split; [exact Gv|]. intros r'. rewrite <- Tk. apply rd_bin_key_ok. exact Gk.
Qed.

(* ---- one step ---- *)
Lemma search1_refines v s r : good v ->
  sres_matches (search1 (type_of v) s (encode v ++ r)) (lookup1 v s).
Proof.
  intros Hg.
  destruct v as [b|z|z|z|z|z|str|fs|kt vt es|et es|et es];
    try (destruct s; reflexivity).
  - (* struct *)
    destruct s as [id|i|k|n|b]; try reflexivity.
    cbn [type_of search1 lookup1]. change (T_STRUCT =? T_STRUCT) with true. cbn iota.
    cbn [encode]. rewrite <- app_assoc. cbn [app].
    apply search_field_refines; [apply good_struct_inv; exact Hg|].
    rewrite app_length. cbn [length].
    pose proof (flat_map_length_ge (fun f : Z * tval => type_of (snd f) :: enc_int 2 (fst f) ++ encode (snd f)) fs
      ltac:(intros; cbn [length]; lia)). lia.
  - (* map *)
    destruct s as [id|i|k|n|b]; try reflexivity;
      cbn [type_of search1]; change (T_MAP =? T_MAP) with true; cbn iota; apply search_map_refines; exact Hg.
  - (* set *)
    destruct s as [id|i|k|n|b]; try reflexivity.
    cbn [type_of search1 lookup1]. change ((T_SET =? T_LIST) || (T_SET =? T_SET)) with true. cbn iota.
    destruct (good_set_inv _ _ Hg) as [Hlen HF].
    cbn [encode app]. rewrite <- app_assoc. apply search_index_refines; assumption.
  - (* list *)
    destruct s as [id|i|k|n|b]; try reflexivity.
    cbn [type_of search1 lookup1]. change ((T_LIST =? T_LIST) || (T_LIST =? T_SET)) with true. cbn iota.
    destruct (good_list_inv _ _ Hg) as [Hlen HF].
    cbn [encode app]. rewrite <- app_assoc. apply search_index_refines; assumption.
Qed.

(* ---- the sub-value found by one step is again walkable ---- *)
Lemma find_field_P (P : tval -> Prop) id fs : forall off sub o,
  Forall (fun f => P (snd f)) fs -> find_field id fs off = LFound sub o -> P sub.
Proof.
  induction fs as [|f fs IH]; intros off sub o HF H; [discriminate H|].
  inversion HF; subst. cbn [find_field] in H. destruct (fst f =? id).
  - inversion H; subst. assumption.
  - eapply IH; eassumption.
Qed.

Lemma find_index_P (P : tval -> Prop) es : forall n off sub o,
  Forall P es -> find_index n es off = LFound sub o -> P sub.
Proof.
  induction es as [|x es IH]; intros n off sub o HF H; [destruct n; discriminate H|].
  inversion HF; subst. destruct n as [|n]; cbn [find_index] in H.
  - inversion H; subst. assumption.
  - eapply IH; eassumption.
Qed.

Lemma find_key_P (P : tval -> Prop) pr es : forall off sub o,
  Forall (fun e => P (snd e)) es -> find_key pr es off = LFound sub o -> P sub.
Proof.
  induction es as [|e es IH]; intros off sub o HF H; [discriminate H|].
  inversion HF; subst. cbn [find_key] in H. destruct (pr (fst e)).
  - inversion H; subst. assumption.
  - eapply IH; eassumption.
Qed.

Lemma lookup1_good v s sub o : good v -> lookup1 v s = LFound sub o -> good sub.
Proof.
  intros Hg H. destruct s as [id|i|k|n|b]; destruct v as [?|?|?|?|?|?|?|fs|kt vt es|et es|et es]; try discriminate H; cbn [lookup1] in H.
  - eapply find_field_P; [|exact H]. eapply Forall_impl; [|apply good_struct_inv; exact Hg]. intros a [_ Ha]. exact Ha.
  - destruct (i <? 0); [discriminate H|]. eapply find_index_P; [|exact H].
    eapply Forall_impl; [|apply (good_set_inv _ _ Hg)]. intros a [_ Ha]. exact Ha.
  - destruct (i <? 0); [discriminate H|]. eapply find_index_P; [|exact H].
    eapply Forall_impl; [|apply (good_list_inv _ _ Hg)]. intros a [_ Ha]. exact Ha.
  - destruct (kt =? T_STRING); [|discriminate H]. eapply find_key_P; [|exact H].
    eapply Forall_impl; [|apply (good_map_inv _ _ _ Hg)]. intros a [_ [_ [_ Ha]]]. exact Ha.
  - destruct (is_int_type kt); [|discriminate H]. eapply find_key_P; [|exact H].
    eapply Forall_impl; [|apply (good_map_inv _ _ _ Hg)]. intros a [_ [_ [_ Ha]]]. exact Ha.
  - eapply find_key_P; [|exact H].
    eapply Forall_impl; [|apply (good_map_inv _ _ _ Hg)]. intros a [_ [_ [_ Ha]]]. exact Ha.
Qed.

Lemma lookup_good : forall p v off sub o, good v -> lookup v off p = LFound sub o -> good sub.
Proof.
  induction p as [|s p IH]; intros v off sub o Hg H; cbn [lookup] in H.
  - inversion H; subst. exact Hg.
  - destruct (lookup1 v s) as [c oc| |] eqn:E; try discriminate H.
    eapply IH; [|exact H]. eapply lookup1_good; eassumption.
Qed.

(* ================= main refinement theorem ================= *)
Theorem get_by_path_refines_lookup : forall p v r off,
  wf v = true -> (depth v <= max_skip_depth)%nat ->
  get_by_path (type_of v) (encode v ++ r) off p = gres_of_lres (lookup v off p).
Proof.
  induction p as [|s p IH]; intros v r off Hw Hd; assert (Hg : good v) by (split; assumption).
  - cbn [get_by_path lookup gres_of_lres]. rewrite skip_go_encode by exact Hg. rewrite zlen_app. f_equal. lia.
  - cbn [get_by_path lookup]. pose proof (search1_refines v s r Hg) as H.
    destruct (lookup1 v s) as [sub o| |] eqn:E; cbn [sres_matches] in H.
    + destruct H as [r' H]. rewrite H.
      destruct (lookup1_good v s sub o Hg E) as [Hw' Hd']. apply IH; assumption.
    + rewrite H. reflexivity.
    + rewrite H. reflexivity.
Qed.

(* ================= the span found holds exactly the encoding of the sub-value ================= *)
Lemma find_field_split id fs : forall off sub o, find_field id fs off = LFound sub o ->
  exists pre post, flat_map (fun f => type_of (snd f) :: enc_int 2 (fst f) ++ encode (snd f)) fs = pre ++ encode sub ++ post
                   /\ o = off + zlen pre.
Proof.
  induction fs as [|f fs IH]; intros off sub o H; [discriminate H|].
  cbn [find_field] in H. cbn [flat_map]. destruct (fst f =? id).
  - inversion H; subst. exists (type_of (snd f) :: enc_int 2 (fst f)), (flat_map (fun f => type_of (snd f) :: enc_int 2 (fst f) ++ encode (snd f)) fs).
    split; [cbn [app]; rewrite <- app_assoc; reflexivity|]. rewrite zlen_cons, zlen_enc_int. lia.
  - destruct (IH _ _ _ H) as [pre [post [E Ho]]].
    exists ((type_of (snd f) :: enc_int 2 (fst f) ++ encode (snd f)) ++ pre), post. split.
    + rewrite E. rewrite <- !app_assoc. reflexivity.
    + rewrite Ho. rewrite zlen_app, zlen_cons, zlen_app, zlen_enc_int. lia.
Qed.

Lemma find_index_split es : forall n off sub o, find_index n es off = LFound sub o ->
  exists pre post, flat_map encode es = pre ++ encode sub ++ post /\ o = off + zlen pre.
Proof.
  induction es as [|x es IH]; intros n off sub o H; [destruct n; discriminate H|].
  cbn [flat_map]. destruct n as [|n]; cbn [find_index] in H.
  - inversion H; subst. exists [], (flat_map encode es). split; [reflexivity|]. unfold zlen. cbn. lia.
  - destruct (IH _ _ _ _ H) as [pre [post [E Ho]]].
    exists (encode x ++ pre), post. split; [rewrite E, <- app_assoc; reflexivity|]. rewrite Ho, zlen_app. lia.
Qed.

Lemma find_key_split pr es : forall off sub o, find_key pr es off = LFound sub o ->
  exists pre post, flat_map (fun e => encode (fst e) ++ encode (snd e)) es = pre ++ encode sub ++ post /\ o = off + zlen pre.
Proof.
  induction es as [|e es IH]; intros off sub o H; [discriminate H|].
  cbn [flat_map]. cbn [find_key] in H. destruct (pr (fst e)).
  - inversion H; subst. exists (encode (fst e)), (flat_map (fun e => encode (fst e) ++ encode (snd e)) es).
    split; [rewrite <- app_assoc; reflexivity|reflexivity].
  - destruct (IH _ _ _ H) as [pre [post [E Ho]]].
    exists ((encode (fst e) ++ encode (snd e)) ++ pre), post. split; [rewrite E, <- !app_assoc; reflexivity|].
    rewrite Ho, !zlen_app. lia.
Qed.

Lemma lookup1_split v s sub o : lookup1 v s = LFound sub o ->
  exists pre post, encode v = pre ++ encode sub ++ post /\ o = zlen pre.
Proof.
  intros H. destruct s as [id|i|k|n|b]; destruct v as [?|?|?|?|?|?|?|fs|kt vt es|et es|et es]; try discriminate H; cbn [lookup1] in H; cbn [encode].
  - destruct (find_field_split _ _ _ _ _ H) as [pre [post [E Ho]]]. exists pre, (post ++ [0]).
    split; [rewrite E, <- !app_assoc; reflexivity|lia].
  - destruct (i <? 0); [discriminate H|]. destruct (find_index_split _ _ _ _ _ H) as [pre [post [E Ho]]].
    exists (et :: enc_int 4 (zlen es) ++ pre), post. split; [rewrite E; cbn [app]; rewrite <- app_assoc; reflexivity|].
    rewrite Ho, zlen_cons, zlen_app, zlen_enc_int. lia.
  - destruct (i <? 0); [discriminate H|]. destruct (find_index_split _ _ _ _ _ H) as [pre [post [E Ho]]].
    exists (et :: enc_int 4 (zlen es) ++ pre), post. split; [rewrite E; cbn [app]; rewrite <- app_assoc; reflexivity|].
    rewrite Ho, zlen_cons, zlen_app, zlen_enc_int. lia.
  - destruct (kt =? T_STRING); [|discriminate H]. destruct (find_key_split _ _ _ _ _ H) as [pre [post [E Ho]]].
    exists (kt :: vt :: enc_int 4 (zlen es) ++ pre), post. split; [rewrite E; cbn [app]; rewrite <- app_assoc; reflexivity|].
    rewrite Ho, !zlen_cons, zlen_app, zlen_enc_int. lia.
  - destruct (is_int_type kt); [|discriminate H]. destruct (find_key_split _ _ _ _ _ H) as [pre [post [E Ho]]].
    exists (kt :: vt :: enc_int 4 (zlen es) ++ pre), post. split; [rewrite E; cbn [app]; rewrite <- app_assoc; reflexivity|].
    rewrite Ho, !zlen_cons, zlen_app, zlen_enc_int. lia.
  - destruct (find_key_split _ _ _ _ _ H) as [pre [post [E Ho]]].
    exists (kt :: vt :: enc_int 4 (zlen es) ++ pre), post. split; [rewrite E; cbn [app]; rewrite <- app_assoc; reflexivity|].
    rewrite Ho, !zlen_cons, zlen_app, zlen_enc_int. lia.
Qed.

Theorem lookup_split : forall p v off sub o, lookup v off p = LFound sub o ->
  exists pre post, encode v = pre ++ encode sub ++ post /\ o = off + zlen pre.
Proof.
  induction p as [|s p IH]; intros v off sub o H; cbn [lookup] in H.
  - inversion H; subst. exists [], []. split; [rewrite app_nil_r; reflexivity|]. unfold zlen. cbn. lia.
  - destruct (lookup1 v s) as [c oc| |] eqn:E; try discriminate H.
    destruct (lookup1_split _ _ _ _ E) as [pre1 [post1 [E1 O1]]].
    destruct (IH _ _ _ _ H) as [pre2 [post2 [E2 O2]]].
    exists (pre1 ++ pre2), (post2 ++ post1). split.
    + rewrite E1, E2. rewrite <- !app_assoc. reflexivity.
    + rewrite O2, O1, zlen_app. lia.
Qed.

Theorem found_span_is_encoding : forall v p sub off, lookup v 0 p = LFound sub off ->
  0 <= off /\ off + zlen (encode sub) <= zlen (encode v) /\
  firstn (length (encode sub)) (skipn (Z.to_nat off) (encode v)) = encode sub.
Proof.
  intros v p sub off H. destruct (lookup_split _ _ _ _ _ H) as [pre [post [E O]]].
  pose proof (zlen_nonneg pre). split; [lia|]. split.
  - rewrite E, !zlen_app. pose proof (zlen_nonneg post). lia.
  - rewrite E. replace (Z.to_nat off) with (length pre) by (rewrite O; unfold zlen; lia).
    rewrite skipn_app, skipn_all, Nat.sub_diag. cbn [skipn app].
    rewrite firstn_app, firstn_all, Nat.sub_diag. cbn. apply app_nil_r.
Qed.

(* "same value": the bytes of the span decode (with the proved decoder) to the sub-value *)
Theorem found_span_decodes : forall v p sub off, wf v = true -> (depth v <= max_skip_depth)%nat ->
  lookup v 0 p = LFound sub off ->
  decode (depth sub) (type_of sub) (firstn (length (encode sub)) (skipn (Z.to_nat off) (encode v))) = Some (sub, []).
Proof.
  intros v p sub off Hw Hd H. destruct (found_span_is_encoding _ _ _ _ H) as [_ [_ E]]. rewrite E.
  destruct (lookup_good p v 0 sub off (conj Hw Hd) H) as [Hws _].
  rewrite <- (app_nil_r (encode sub)). apply decode_encode; [exact Hws|lia].
Qed.

(* ================= children listings ================= *)
(* spans chain: every span starts [gap] bytes after the previous one ended *)
Fixpoint chained (gap : Z) (l : list (Z * Z)) (from to : Z) : Prop :=
  match l with
  | [] => from = to
  | (s, e) :: r => s = from + gap /\ s < e /\ chained gap r e to
  end.

Lemma quad_eq {A B C D} (a a' : A) (b b' : B) (c c' : C) (d d' : D) :
  a = a' -> b = b' -> c = c' -> d = d' -> Some (a, b, c, d) = Some (a', b', c', d').
Proof. intros; subst; reflexivity. Qed.

Lemma zlen_nil {A} : zlen (@nil A) = 0.
Proof. reflexivity. Qed.

Lemma encode_len_pos x : 0 < zlen (encode x).
Proof. pose proof (encode_nonempty x). unfold zlen. lia. Qed.

Theorem spans_elems_children es : forall off,
  map (fun q => fst (fst q)) (spans_elems es off) = map type_of es /\
  (forall n x, nth_error es n = Some x ->
     exists o, find_index n es off = LFound x o /\ nth_error (spans_elems es off) n = Some (type_of x, o, o + zlen (encode x))) /\
  chained 0 (map (fun q => (snd (fst q), snd q)) (spans_elems es off)) off (off + zlen (flat_map encode es)).
Proof.
  induction es as [|x es IH]; intros off.
  - split; [reflexivity|]. split; [intros [|n] y Hn; discriminate Hn|]. cbn. unfold zlen. cbn. lia.
  - destruct (IH (off + zlen (encode x))) as [IH1 [IH2 IH3]]. cbn [spans_elems]. cbv zeta. split; [|split].
    + cbn [map fst]. f_equal. exact IH1.
    + intros [|n] y Hn; cbn [nth_error] in Hn.
      * inversion Hn; subst. exists off. split; reflexivity.
      * destruct (IH2 n y Hn) as [o [F N]]. exists o. split; [exact F|exact N].
    + cbn [map chained fst snd flat_map]. split; [lia|]. split; [pose proof (encode_len_pos x); lia|].
      rewrite zlen_app. replace (off + (zlen (encode x) + zlen (flat_map encode es))) with (off + zlen (encode x) + zlen (flat_map encode es)) by lia.
      exact IH3.
Qed.

Theorem spans_fields_children fs : forall off,
  map (fun q => (fst (fst (fst q)), snd (fst (fst q)))) (spans_fields fs off) = map (fun f => (fst f, type_of (snd f))) fs /\
  (forall n f, nth_error fs n = Some f ->
     nth_error (spans_fields fs off) n =
       Some (fst f, type_of (snd f),
             off + zlen (flat_map (fun f => type_of (snd f) :: enc_int 2 (fst f) ++ encode (snd f)) (firstn n fs)) + 3,
             off + zlen (flat_map (fun f => type_of (snd f) :: enc_int 2 (fst f) ++ encode (snd f)) (firstn n fs)) + 3 + zlen (encode (snd f)))) /\
  chained 3 (map (fun q => (snd (fst q), snd q)) (spans_fields fs off)) off
            (off + zlen (flat_map (fun f => type_of (snd f) :: enc_int 2 (fst f) ++ encode (snd f)) fs)).
Proof.
  induction fs as [|f fs IH]; intros off.
  - split; [reflexivity|]. split; [intros [|n] y Hn; discriminate Hn|]. cbn. unfold zlen. cbn. lia.
  - destruct (IH (off + 3 + zlen (encode (snd f)))) as [IH1 [IH2 IH3]]. cbn [spans_fields]. cbv zeta. split; [|split].
    + cbn [map fst snd]. f_equal. exact IH1.
    + intros [|n] y Hn; cbn [nth_error] in Hn.
      * inversion Hn; subst. cbn [nth_error firstn flat_map]. rewrite zlen_nil. apply quad_eq; try reflexivity; lia.
      * cbn [nth_error firstn flat_map]. rewrite (IH2 n y Hn). rewrite !zlen_app, !zlen_cons, !zlen_app, !zlen_enc_int.
        apply quad_eq; try reflexivity; lia.
    + cbn [map chained fst snd flat_map]. split; [lia|]. split; [pose proof (encode_len_pos (snd f)); lia|].
      rewrite zlen_app, zlen_cons, zlen_app, zlen_enc_int.
      match goal with |- chained 3 _ ?a ?b => replace b with (off + 3 + zlen (encode (snd f)) + zlen (flat_map (fun f0 : Z * tval => type_of (snd f0) :: enc_int 2 (fst f0) ++ encode (snd f0)) fs)) by lia end.
      exact IH3.
Qed.

(* the field listing agrees with the lookup of each FIRST occurrence of an id *)
Theorem spans_fields_lookup fs : forall off id sub o, find_field id fs off = LFound sub o ->
  In (id, type_of sub, o, o + zlen (encode sub)) (spans_fields fs off).
Proof.
  induction fs as [|f fs IH]; intros off id sub o H; [discriminate H|].
  cbn [find_field] in H. cbn [spans_fields]. cbv zeta. destruct (Z.eqb_spec (fst f) id) as [E|_].
  - inversion H; subst. left. reflexivity.
  - right. apply IH. exact H.
Qed.

Theorem spans_pairs_children es : forall off,
  map (fun q => snd (fst (fst q))) (spans_pairs es off) = map (fun e => type_of (snd e)) es /\
  (forall n e, nth_error es n = Some e ->
     let o := off + zlen (flat_map (fun e => encode (fst e) ++ encode (snd e)) (firstn n es)) in
     nth_error (spans_pairs es off) n =
       Some (o, type_of (snd e), o + zlen (encode (fst e)), o + zlen (encode (fst e)) + zlen (encode (snd e)))) /\
  (* key start .. value end chain without gaps and cover the body *)
  chained 0 (map (fun q => (fst (fst (fst q)), snd q)) (spans_pairs es off)) off
            (off + zlen (flat_map (fun e => encode (fst e) ++ encode (snd e)) es)).
Proof.
  induction es as [|e es IH]; intros off.
  - split; [reflexivity|]. split; [intros [|n] y Hn; discriminate Hn|]. cbn. unfold zlen. cbn. lia.
  - destruct (IH (off + zlen (encode (fst e)) + zlen (encode (snd e)))) as [IH1 [IH2 IH3]]. cbn [spans_pairs]. cbv zeta. split; [|split].
    + cbn [map fst snd]. f_equal. exact IH1.
    + intros [|n] y Hn; cbn [nth_error] in Hn.
      * inversion Hn; subst. cbn [nth_error firstn flat_map]. rewrite zlen_nil. apply quad_eq; try reflexivity; lia.
      * pose proof (IH2 n y Hn) as H2. cbv zeta in H2. cbn [nth_error firstn flat_map]. rewrite H2. rewrite !zlen_app.
        apply quad_eq; try reflexivity; lia.
    + cbn [map chained fst snd flat_map]. split; [lia|].
      split; [pose proof (encode_len_pos (fst e)); pose proof (encode_len_pos (snd e)); lia|].
      rewrite !zlen_app.
      match goal with |- chained 0 _ ?a ?b => replace b with (off + zlen (encode (fst e)) + zlen (encode (snd e)) + zlen (flat_map (fun e0 : tval * tval => encode (fst e0) ++ encode (snd e0)) es)) by lia end.
      exact IH3.
Qed.

(* map listing vs keyed lookup: the first entry whose key satisfies the predicate is listed with the lookup's span *)
Theorem spans_pairs_lookup pr es : forall off sub o, find_key pr es off = LFound sub o ->
  exists ks, In (ks, type_of sub, o, o + zlen (encode sub)) (spans_pairs es off).
Proof.
  induction es as [|e es IH]; intros off sub o H; [discriminate H|].
  cbn [find_key] in H. cbn [spans_pairs]. cbv zeta. destruct (pr (fst e)).
  - inversion H; subst. exists off. left. reflexivity.
  - destruct (IH _ _ _ H) as [ks Hin]. exists ks. right. exact Hin.
Qed.

(* the listing of a container covers its body exactly: first span starts right after the header
   (struct: after the first 3-byte field header), consecutive spans touch (struct: 3-byte header in
   between), the last one ends where the container ends (struct: before the STOP byte) *)
Theorem children_cover v :
  match v with
  | VStruct fs => chained 3 (map (fun q => (snd (fst q), snd q)) (spans_fields fs 0)) 0 (zlen (encode v) - 1)
  | VList _ es => chained 0 (map (fun q => (snd (fst q), snd q)) (spans_elems es 5)) 5 (zlen (encode v))
  | VSet _ es => chained 0 (map (fun q => (snd (fst q), snd q)) (spans_elems es 5)) 5 (zlen (encode v))
  | VMap _ _ es => chained 0 (map (fun q => (fst (fst (fst q)), snd q)) (spans_pairs es 6)) 6 (zlen (encode v))
  | _ => True
  end.
Proof.
  destruct v as [?|?|?|?|?|?|?|fs|kt vt es|et es|et es]; try exact I; cbn [encode].
  - destruct (spans_fields_children fs 0) as [_ [_ H]]. rewrite zlen_app. change (zlen [0]) with 1.
    replace (zlen (flat_map (fun f : Z * tval => type_of (snd f) :: enc_int 2 (fst f) ++ encode (snd f)) fs) + 1 - 1)
      with (0 + zlen (flat_map (fun f : Z * tval => type_of (snd f) :: enc_int 2 (fst f) ++ encode (snd f)) fs)) by lia.
    exact H.
  - destruct (spans_pairs_children es 6) as [_ [_ H]]. rewrite !zlen_cons, zlen_app, zlen_enc_int.
    replace (1 + (1 + (Z.of_nat 4 + zlen (flat_map (fun e : tval * tval => encode (fst e) ++ encode (snd e)) es))))
      with (6 + zlen (flat_map (fun e : tval * tval => encode (fst e) ++ encode (snd e)) es)) by lia.
    exact H.
  - destruct (spans_elems_children es 5) as [_ [_ H]]. rewrite !zlen_cons, zlen_app, zlen_enc_int.
    replace (1 + (Z.of_nat 4 + zlen (flat_map encode es))) with (5 + zlen (flat_map encode es)) by lia. exact H.
  - destruct (spans_elems_children es 5) as [_ [_ H]]. rewrite !zlen_cons, zlen_app, zlen_enc_int.
    replace (1 + (Z.of_nat 4 + zlen (flat_map encode es))) with (5 + zlen (flat_map encode es)) by lia. exact H.
Qed.

(* ================= raw (binary) map keys: only a COMPLETE key encoding addresses an entry ================= *)
Lemma find_key_none pr es : forall off, Forall (fun e => pr (fst e) = false) es -> find_key pr es off = LNotFound.
Proof.
  induction es as [|e es IH]; intros off H; [reflexivity|]. inversion H as [|? ? He Hes]; subst.
  cbn [find_key]. rewrite He. apply IH. exact Hes.
Qed.

(* raw bytes that are not the encoding of any key of the map — a cut key, the empty string, a key followed by further bytes
   of its entry, bytes of the wrong width — are reported NOT FOUND by the byte-level search, whatever follows in the path *)
Theorem bin_key_not_a_key_not_found : forall kt vt es b p r off,
  wf (VMap kt vt es) = true -> (depth (VMap kt vt es) <= max_skip_depth)%nat ->
  (forall e, In e es -> encode (fst e) <> b) ->
  get_by_path T_MAP (encode (VMap kt vt es) ++ r) off (PBinKey b :: p) = GNotFound.
Proof.
  intros kt vt es b p r off Hw Hd Hne.
  change T_MAP with (type_of (VMap kt vt es)). rewrite get_by_path_refines_lookup by assumption.
  cbn [lookup lookup1]. rewrite find_key_none; [reflexivity|].
  rewrite Forall_forall. intros e Hin. unfold bin_key_is.
  destruct (bytes_eqb (encode (fst e)) b) eqn:E; [|reflexivity]. apply bytes_eqb_eq in E. exfalso. exact (Hne e Hin E).
Qed.

(* in particular raw bytes whose length is not the width of a fixed-size key type *)
Corollary bin_key_wrong_width_not_found : forall kt vt es b p r off,
  wf (VMap kt vt es) = true -> (depth (VMap kt vt es) <= max_skip_depth)%nat ->
  fixed_size kt >? 0 = true -> zlen b <> fixed_size kt ->
  get_by_path T_MAP (encode (VMap kt vt es) ++ r) off (PBinKey b :: p) = GNotFound.
Proof.
  intros kt vt es b p r off Hw Hd Hf Hlen. apply bin_key_not_a_key_not_found; try assumption.
  intros e Hin E. destruct (good_map_inv kt vt es (conj Hw Hd)) as [_ HF]. rewrite Forall_forall in HF.
  destruct (HF e Hin) as [Tk _]. apply Hlen. rewrite <- E, <- Tk. apply fixed_encode_len. rewrite Tk. exact Hf.
Qed.
