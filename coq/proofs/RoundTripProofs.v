(* C13 — JSON <-> Thrift conversions are mutually inverse on their domain (models T2J.v and J2T.v over the common
   descriptor of model/RoundTrip.v).  The double printer is a parameter; the formatter contract is a hypothesis. *)
From Coq Require Import ZArith List Bool Lia.
From DG Require Import ProtoWireRef ThriftWire ThriftWireProofs Json JsonProofs Num NumProofs Base64 Base64Proofs
                       T2J T2JProofs J2T J2TProofs RoundTrip.
Import ListNotations.
Local Open Scope Z_scope.

(* ------------------------------------------------------------------ the T2J view of the common descriptor *)
Lemma tdesc_of_list D n e : tdesc_of D n (TList e) = DList false (tdesc_of D n e).
Proof. destruct n; reflexivity. Qed.
Lemma tdesc_of_set D n e : tdesc_of D n (TSet e) = DList true (tdesc_of D n e).
Proof. destruct n; reflexivity. Qed.
Lemma tdesc_of_map D n k v : tdesc_of D n (TMap k v) = DMap (tdesc_of D n k) (tdesc_of D n v).
Proof. destruct n; reflexivity. Qed.
Lemma tdesc_of_string D n : tdesc_of D n TString = DString false.
Proof. destruct n; reflexivity. Qed.
Lemma tdesc_of_binary D n : tdesc_of D n TBinary = DString true.
Proof. destruct n; reflexivity. Qed.
Lemma tdesc_of_struct D n i sd : nth_error D i = Some sd ->
  tdesc_of D (S n) (TStruct i) = DStruct (map (fun fd => (fmeta_of fd, tdesc_of D n (f_ty fd))) sd).
Proof. intros H. cbn. rewrite H. reflexivity. Qed.

Lemma find_field_tdesc D n sd id :
  T2J.find_field (map (fun fd => (fmeta_of fd, tdesc_of D n (f_ty fd))) sd) id =
  option_map (fun fd => (fmeta_of fd, tdesc_of D n (f_ty fd))) (find_id sd id).
Proof.
  unfold find_id. induction sd as [|fd sd IH]; [reflexivity|].
  cbn [map T2J.find_field find fst fmeta_of T2J.f_id].
  destruct (J2T.f_id fd =? id); [reflexivity | exact IH].
Qed.

Lemma missing_required_tdesc D n sd ids :
  missing_required (map (fun fd => (fmeta_of fd, tdesc_of D n (f_ty fd))) sd) ids = negb (req_present sd ids).
Proof.
  unfold missing_required, req_present. induction sd as [|fd sd IH]; [reflexivity|].
  cbn [map existsb forallb fst fmeta_of T2J.f_id T2J.f_req]. rewrite IH.
  destruct (J2T.f_req fd =? 1); cbn [negb andb orb]; [|reflexivity].
  destruct (existsb (fun id => id =? J2T.f_id fd) ids); cbn [negb andb orb]; reflexivity.
Qed.

Lemma f_jsconv_fmeta_of fd : f_jsconv (fmeta_of fd) = f_vm fd.
Proof. unfold f_jsconv, fmeta_of. cbn [f_flags]. destruct (f_vm fd); reflexivity. Qed.

Lemma find_id_id sd id fd : find_id sd id = Some fd -> J2T.f_id fd = id.
Proof. unfold find_id. intros H. apply find_some in H. destruct H as [_ H]. apply Z.eqb_eq. exact H. Qed.

(* ------------------------------------------------------------------ small facts *)
Lemma depth_pos v : (1 <= depth v)%nat.
Proof. destruct v; cbn [depth]; lia. Qed.

Lemma rt_dom_type_of D v t : rt_dom D t v = true -> type_of v = tcode t.
Proof. destruct v, t; intros H; try reflexivity; cbn in H; discriminate. Qed.

Lemma guard_false {A} (l : list A) s : (l = [] \/ s < max_level) -> nonempty l && (max_level <=? s) = false.
Proof.
  intros [->|H]; [reflexivity|]. destruct (Z.leb_spec max_level s); [lia|]. apply andb_false_r.
Qed.

Lemma num_okb_nonnil l : num_okb l = true -> l <> [].
Proof. intros H E. subst. discriminate. Qed.

Lemma vm_val_str_num : forall t x, is_num_ty t = true -> num_okb x = true -> vm_val strict t (JStr x) = num_strict t x.
Proof.
  intros t x Ht Hx. unfold vm_val. destruct x as [|c x']; [discriminate|].
  rewrite Hx, Ht. destruct t; try discriminate; cbn [vm_extra strict p_num p_vm_quirks]; try reflexivity.
  destruct (num_strict TI16 (c :: x')); reflexivity.
Qed.

Lemma matching_split o o' : matching_opts o o' ->
  (o_int642string o = true -> o_str2int o' = true) /\ o_byte_as_uint8 o = false /\
  o_no_base64 o = o_nob64 o' /\ o_value_mapping o = o_vm o' /\ o_convert_exception o = false.
Proof.
  unfold matching_opts, matching_optsb. intros H.
  repeat (apply andb_true_iff in H; destruct H as [H ?]).
  repeat split.
  - intros Hi. rewrite Hi in H. exact H.
  - apply negb_true_iff. assumption.
  - apply eqb_prop. assumption.
  - apply eqb_prop. assumption.
  - apply negb_true_iff. assumption.
Qed.

(* ------------------------------------------------------------------ list helpers: all-or-first-error vs rconcat *)
Section Helpers.
  Variable tj : jexp -> json.

  Definition nn (l : list json) : nat := length (filter (fun x => negb (is_null x)) l).

  Lemma count_nonnull_nn l : count_nonnull l = Z.of_nat (nn l).
  Proof. reflexivity. Qed.

  Lemma all_ok_rt {A} (f : A -> tres) (h : json -> res) (enc : A -> list Z) (l : list A) :
    (forall x, In x l -> exists e, f x = TOk e /\ jexp_finite e = true /\ is_null (tj e) = false /\
                                   json_wf (tj e) = true /\ h (tj e) = Ok (enc x)) ->
    exists xs, all_ok (map f l) = inl xs /\ forallb jexp_finite xs = true /\ forallb json_wf (map tj xs) = true /\
               rconcat (fun j => if is_null j then Ok [] else h j) (map tj xs) = Ok (flat_map enc l) /\
               nn (map tj xs) = length l /\ length xs = length l.
  Proof.
    induction l as [|x l IH]; intros H.
    - exists []. repeat split; reflexivity.
    - destruct (H x (or_introl eq_refl)) as (e & Hf & Hfin & Hnn & Hwf & Hh).
      destruct IH as (xs & Ha & Hfs & Hws & Hr & Hn & Hl); [intros y Hy; apply H; right; exact Hy|].
      exists (e :: xs). cbn [map all_ok forallb rconcat flat_map length]. rewrite Hf, Ha, Hfin, Hfs, Hwf, Hws, Hnn, Hh, Hr.
      repeat split; try reflexivity.
      + unfold nn in *. cbn [filter]. rewrite Hnn. cbn [negb length]. rewrite Hn. reflexivity.
      + rewrite Hl. reflexivity.
  Qed.

  Definition tjm (m : list Z * jexp) : list Z * json := (fst m, tj (snd m)).

  Lemma members_rt {A} (g : A -> fres) (h : list Z * json -> res) (enc : A -> list Z) (l : list A) :
    (forall x, In x l -> exists k e, g x = FMem k e /\ jexp_finite e = true /\ jbytes_okb k = true /\
                                     json_wf (tj e) = true /\ h (k, tj e) = Ok (enc x)) ->
    exists ms, members_of (map g l) = inl ms /\ forallb (fun m => jexp_finite (snd m)) ms = true /\
               forallb (fun m => jbytes_okb (fst m) && json_wf (snd m)) (map tjm ms) = true /\
               rconcat h (map tjm ms) = Ok (flat_map enc l) /\ length ms = length l.
  Proof.
    induction l as [|x l IH]; intros H.
    - exists []. repeat split; reflexivity.
    - destruct (H x (or_introl eq_refl)) as (k & e & Hg & Hfin & Hk & Hwf & Hh).
      destruct IH as (ms & Ha & Hfs & Hws & Hr & Hl); [intros y Hy; apply H; right; exact Hy|].
      exists ((k, e) :: ms). cbn [map members_of forallb rconcat flat_map length tjm fst snd].
      change (tjm (k, e)) with (k, tj e).
      rewrite Hg, Ha, Hfin, Hfs, Hk, Hwf, Hh, Hws, Hr, Hl.
      repeat split; reflexivity.
  Qed.

  Lemma keyed_rt {A} (kf : A -> option (list Z)) (vf : A -> tres) (h : list Z * json -> res) (enc : A -> list Z) (l : list A) :
    (forall x, In x l -> exists k e, kf x = Some k /\ vf x = TOk e /\ jexp_finite e = true /\ jbytes_okb k = true /\
                                     is_null (tj e) = false /\ json_wf (tj e) = true /\ h (k, tj e) = Ok (enc x)) ->
    exists ms, keyed (map kf l) (map vf l) = inl ms /\ forallb (fun m => jexp_finite (snd m)) ms = true /\
               forallb (fun m => jbytes_okb (fst m) && json_wf (snd m)) (map tjm ms) = true /\
               rconcat h (map tjm ms) = Ok (flat_map enc l) /\
               nn (map snd (map tjm ms)) = length l /\ length ms = length l.
  Proof.
    induction l as [|x l IH]; intros H.
    - exists []. repeat split; reflexivity.
    - destruct (H x (or_introl eq_refl)) as (k & e & Hkf & Hvf & Hfin & Hk & Hnn & Hwf & Hh).
      destruct IH as (ms & Ha & Hfs & Hws & Hr & Hn & Hl); [intros y Hy; apply H; right; exact Hy|].
      exists ((k, e) :: ms). cbn [map keyed forallb rconcat flat_map length tjm fst snd].
      change (tjm (k, e)) with (k, tj e).
      rewrite Hkf, Hvf, Ha, Hfin, Hfs, Hk, Hwf, Hh, Hws, Hr, Hl.
      repeat split; try reflexivity.
      unfold nn in *. cbn [filter]. rewrite Hnn. cbn [negb length]. rewrite Hn. reflexivity.
  Qed.
End Helpers.

(* ------------------------------------------------------------------ the round trip *)
Section RT.
  Variable dlex : Z -> list Z.
  Hypothesis Hdlex : dlex_contract dlex.
  Variable D : defs.
  Variable o : Z.
  Variable o' : jopts.
  Hypothesis Hm : matching_opts o o'.

  Local Notation tj := (to_json_d dlex).

  (* what the induction carries for one value *)
  Definition rt_ok (t : ty) (s : Z) (v : tval) (e : jexp) : Prop :=
    jexp_finite e = true /\ is_null (tj e) = false /\ json_wf (tj e) = true /\
    j2t_val strict D o' t s (tj e) = Ok (encode v).

  Lemma dbl_rt b : f64_bits_ok b = true -> num_okb (dlex b) = true /\ num_strict TDouble (dlex b) = Ok (enc_int 8 b).
  Proof.
    intros H. unfold f64_bits_ok in H. apply andb_true_iff in H. destruct H as [H Hf].
    apply andb_true_iff in H. destruct H as [H0 H1]. apply Z.leb_le in H0. apply Z.ltb_lt in H1.
    destruct (Hdlex b (conj H0 H1) Hf) as [Hok Hlex]. split; [exact Hok|].
    unfold num_strict. rewrite Hok, Hlex, Hf. reflexivity.
  Qed.

  Lemma byte_image_id z : byte_image o z = z.
  Proof. destruct (matching_split _ _ Hm) as (_ & Hb & _). unfold byte_image. rewrite Hb. reflexivity. Qed.

  (* api.js_conv on the scalar types both sides support *)
  Lemma vm_rt t x : vm_ty_ok t = true -> rt_dom D t x = true ->
    exists e, jsconv o x = TOk e /\ jexp_finite e = true /\ is_null (tj e) = false /\ json_wf (tj e) = true /\
              vm_val strict t (tj e) = Ok (encode x).
  Proof.
    intros Ht Hd.
    destruct x, t; try (cbn in Hd; discriminate); try (cbn in Ht; discriminate); cbn [rt_dom] in Hd;
      cbn [jsconv jsconv_scalar].
    - (* byte *)
      rewrite byte_image_id. eexists; split; [reflexivity|]. cbn [to_json_d jexp_finite is_null json_wf].
      pose proof (num_okb_fmt_int z) as Hok. pose proof (fmt_int_bytes z) as Hby.
      repeat split; try reflexivity; try exact Hby.
      rewrite (vm_val_str_num TByte _ eq_refl Hok). apply (num_strict_fmt_int TByte 1%nat 8); [reflexivity|exact Hd].
    - eexists; split; [reflexivity|]. cbn [to_json_d jexp_finite is_null json_wf].
      pose proof (num_okb_fmt_int z) as Hok. pose proof (fmt_int_bytes z) as Hby.
      repeat split; try reflexivity; try exact Hby.
      rewrite (vm_val_str_num TI16 _ eq_refl Hok). apply (num_strict_fmt_int TI16 2%nat 16); [reflexivity|exact Hd].
    - eexists; split; [reflexivity|]. cbn [to_json_d jexp_finite is_null json_wf].
      pose proof (num_okb_fmt_int z) as Hok. pose proof (fmt_int_bytes z) as Hby.
      repeat split; try reflexivity; try exact Hby.
      rewrite (vm_val_str_num TI32 _ eq_refl Hok). apply (num_strict_fmt_int TI32 4%nat 32); [reflexivity|exact Hd].
    - eexists; split; [reflexivity|]. cbn [to_json_d jexp_finite is_null json_wf].
      pose proof (num_okb_fmt_int z) as Hok. pose proof (fmt_int_bytes z) as Hby.
      repeat split; try reflexivity; try exact Hby.
      rewrite (vm_val_str_num TI64 _ eq_refl Hok). apply (num_strict_fmt_int TI64 8%nat 64); [reflexivity|exact Hd].
    - (* double *)
      destruct (dbl_rt bits Hd) as [Hok Hs].
      eexists; split; [reflexivity|]. cbn [to_json_d jexp_finite is_null json_wf].
      assert (Hfin : f64_is_finite bits = true) by (unfold f64_bits_ok in Hd; apply andb_true_iff in Hd; exact (proj2 Hd)).
      repeat split; try reflexivity; try exact Hfin; try (apply num_okb_bytes; exact Hok).
      rewrite (vm_val_str_num TDouble _ eq_refl Hok). exact Hs.
    - (* string *)
      eexists; split; [reflexivity|]. cbn [to_json_d jexp_finite is_null json_wf vm_val].
      repeat split; try reflexivity. exact Hd.
  Qed.

  Definition RTP (v : tval) : Prop := forall t n s,
    rt_dom D t v = true -> (depth v <= n)%nat -> s + Z.of_nat (depth v) - 1 <= max_level ->
    exists e, T2J.json_of o (tdesc_of D n t) v = TOk e /\ rt_ok t s v e.

  Lemma key_rt k kv : rt_key_ty k = true -> rt_dom D k kv = true ->
    exists kt, key_of o kv = Some kt /\ jbytes_okb kt = true /\ key_bytes strict k kt = Ok (encode kv).
  Proof.
    intros Hk Hd.
    destruct kv, k; try (cbn in Hd; discriminate); try (cbn in Hk; discriminate); cbn [rt_dom] in Hd;
      cbn [key_of]; try rewrite byte_image_id; eexists; (split; [reflexivity|]);
      cbn [key_bytes strict p_key_prefix p_num encode]; try rewrite num_okb_fmt_int.
    - split; [apply fmt_int_bytes|]. apply (num_strict_fmt_int TByte 1%nat 8); [reflexivity|exact Hd].
    - split; [apply fmt_int_bytes|]. apply (num_strict_fmt_int TI16 2%nat 16); [reflexivity|exact Hd].
    - split; [apply fmt_int_bytes|]. apply (num_strict_fmt_int TI32 4%nat 32); [reflexivity|exact Hd].
    - split; [apply fmt_int_bytes|]. apply (num_strict_fmt_int TI64 8%nat 64); [reflexivity|exact Hd].
    - split; [exact Hd|reflexivity].
    - split; [exact Hd|reflexivity].
  Qed.

  Theorem rt_all : forall v, RTP v.
  Proof.
    destruct (matching_split _ _ Hm) as (Hi64 & Hbu & Hnb & Hvm & Hce).
    induction v as [b|z|z|z|z|b|x|fs IH|kt vt es IH|et es IH|et es IH] using tval_ind'; intros t n s Hd Hn Hs.
    - (* bool *)
      destruct t; cbn [rt_dom] in Hd; try discriminate. cbn [T2J.json_of].
      eexists; split; [reflexivity|]. unfold rt_ok. cbn [to_json_d jexp_finite is_null json_wf j2t_val encode].
      repeat split; try reflexivity.
      apply orb_true_iff in Hd. destruct Hd as [Hd|Hd]; apply Z.eqb_eq in Hd; subst b; reflexivity.
    - (* byte *)
      destruct t; cbn [rt_dom] in Hd; try discriminate. cbn [T2J.json_of]. rewrite byte_image_id.
      eexists; split; [reflexivity|]. unfold rt_ok. cbn [to_json_d jexp_finite is_null json_wf j2t_val encode is_num_ty strict p_num].
      repeat split; try reflexivity; [apply num_okb_fmt_int|]. apply (num_strict_fmt_int TByte 1%nat 8); [reflexivity|exact Hd].
    - destruct t; cbn [rt_dom] in Hd; try discriminate. cbn [T2J.json_of].
      eexists; split; [reflexivity|]. unfold rt_ok. cbn [to_json_d jexp_finite is_null json_wf j2t_val encode is_num_ty strict p_num].
      repeat split; try reflexivity; [apply num_okb_fmt_int|]. apply (num_strict_fmt_int TI16 2%nat 16); [reflexivity|exact Hd].
    - destruct t; cbn [rt_dom] in Hd; try discriminate. cbn [T2J.json_of].
      eexists; split; [reflexivity|]. unfold rt_ok. cbn [to_json_d jexp_finite is_null json_wf j2t_val encode is_num_ty strict p_num].
      repeat split; try reflexivity; [apply num_okb_fmt_int|]. apply (num_strict_fmt_int TI32 4%nat 32); [reflexivity|exact Hd].
    - (* i64: a number, or a string holding the number under Int642String / String2Int64 *)
      destruct t; cbn [rt_dom] in Hd; try discriminate. cbn [T2J.json_of].
      eexists; split; [reflexivity|]. unfold rt_ok.
      destruct (o_int642string o) eqn:Ei; cbn [to_json_d jexp_finite is_null json_wf j2t_val encode is_num_ty strict p_num andb].
      + rewrite (Hi64 eq_refl), num_okb_fmt_int.
        repeat split; try reflexivity; [apply fmt_int_bytes|]. apply (num_strict_fmt_int TI64 8%nat 64); [reflexivity|exact Hd].
      + repeat split; try reflexivity; [apply num_okb_fmt_int|]. apply (num_strict_fmt_int TI64 8%nat 64); [reflexivity|exact Hd].
    - (* double *)
      destruct t; cbn [rt_dom] in Hd; try discriminate. cbn [T2J.json_of].
      destruct (dbl_rt b Hd) as [Hok Hst].
      eexists; split; [reflexivity|]. unfold rt_ok. cbn [to_json_d jexp_finite is_null json_wf j2t_val encode is_num_ty strict p_num].
      repeat split; try reflexivity; try assumption.
      unfold f64_bits_ok in Hd. apply andb_true_iff in Hd. exact (proj2 Hd).
    - (* string / binary *)
      destruct t; cbn [rt_dom] in Hd; try discriminate.
      + rewrite tdesc_of_string. cbn [T2J.json_of].
        eexists; split; [reflexivity|]. unfold rt_ok. cbn [to_json_d jexp_finite is_null json_wf j2t_val encode].
        repeat split; try reflexivity. exact Hd.
      + rewrite tdesc_of_binary. cbn [T2J.json_of].
        eexists; split; [reflexivity|]. unfold rt_ok. cbn [to_json_d jexp_finite is_null json_wf j2t_val encode].
        rewrite Hnb. destruct (o_nob64 o').
        * repeat split; try reflexivity. exact Hd.
        * pose proof (Forall_jbytes x Hd) as Hb. rewrite (b64_decode_encode x Hb).
          repeat split; try reflexivity. apply b64_encode_jbytes. exact Hb.
    - (* struct *)
      destruct t; cbn [rt_dom] in Hd; try discriminate.
      destruct (nth_error D i) as [sd|] eqn:Hsd; [|discriminate].
      apply andb_true_iff in Hd. destruct Hd as [Hreq Hfs].
      destruct n as [|n']; [cbn [depth] in Hn; lia|].
      rewrite (tdesc_of_struct D n' i sd Hsd). cbn [T2J.json_of].
      rewrite forallb_forall in Hfs. rewrite Forall_forall in IH.
      assert (Hdep : forall f, In f fs -> (depth (snd f) <= n')%nat /\ s + 1 + Z.of_nat (depth (snd f)) - 1 <= max_level).
      { intros f Hf. cbn [depth] in Hn, Hs. pose proof (fold_max_In (fun f => depth (snd f)) fs f Hf) as Hmx. cbn beta in Hmx. lia. }
      match goal with |- context [members_of (map ?g fs)] => set (G := g) end.
      destruct (members_rt tj G (struct_member strict D o' sd s)
                  (fun f => type_of (snd f) :: enc_int 2 (fst f) ++ encode (snd f)) fs) as (ms & Hmem & Hfin & Hwf & Hrc & Hlen).
      { intros f Hf. specialize (Hfs f Hf). destruct (Hdep f Hf) as [Hd1 Hd2].
        destruct (find_id sd (fst f)) as [fd|] eqn:Hfd; [|discriminate].
        apply andb_true_iff in Hfs. destruct Hfs as [Hfs Hcv].
        apply andb_true_iff in Hfs. destruct Hfs as [Hfs Hff].
        apply andb_true_iff in Hfs. destruct Hfs as [Hfs Hvmok].
        apply andb_true_iff in Hfs. destruct Hfs as [_ Hkey].
        destruct (J2T.find_field sd (key1 fd)) as [fd'|] eqn:Hfd'; [|discriminate].
        apply andb_true_iff in Hff. destruct Hff as [Hff Hvm'].
        apply andb_true_iff in Hff. destruct Hff as [Hid Hty].
        apply ty_eqb_eq in Hty. apply Z.eqb_eq in Hid. apply eqb_prop in Hvm'.
        pose proof (find_id_id _ _ _ Hfd) as Hidf.
        assert (HG : forall e, (if o_value_mapping o && f_vm fd then jsconv o (snd f) else T2J.json_of o (tdesc_of D n' (f_ty fd)) (snd f)) = TOk e ->
                               G f = FMem (key1 fd) e).
        { intros e He. unfold G. rewrite find_field_tdesc, Hfd. cbn [option_map fst snd]. rewrite f_jsconv_fmeta_of, He. reflexivity. }
        assert (HH : forall e vb, is_null (tj e) = false ->
                       (if o_value_mapping o && f_vm fd then vm_val strict (f_ty fd) (tj e) else j2t_val strict D o' (f_ty fd) (s + 1) (tj e)) = Ok vb ->
                       struct_member strict D o' sd s (key1 fd, tj e) = Ok (tcode (f_ty fd) :: enc_int 2 (J2T.f_id fd) ++ vb)).
        { intros e vb Hnn Hv. unfold struct_member. cbn [fst snd]. rewrite Hfd', Hty, Hid, Hvm', <- Hvm, Hnn.
          destruct (o_value_mapping o && f_vm fd); rewrite Hv; reflexivity. }
        destruct (o_value_mapping o && f_vm fd) eqn:Hov.
        - apply andb_true_iff in Hov. destruct Hov as [_ Hfv]. rewrite Hfv in Hvmok. cbn [negb orb] in Hvmok.
          destruct (vm_rt (f_ty fd) (snd f) Hvmok Hcv) as (e & Hj & Hfe & Hne & Hwe & Hve).
          exists (key1 fd), e. split; [apply HG; exact Hj|]. repeat split; try assumption.
          rewrite (HH e (encode (snd f)) Hne Hve), (rt_dom_type_of _ _ _ Hcv), Hidf. reflexivity.
        - destruct (IH f Hf (f_ty fd) n' (s + 1) Hcv Hd1 Hd2) as (e & Hj & Hfe & Hne & Hwe & Hve).
          exists (key1 fd), e. split; [apply HG; exact Hj|]. repeat split; try assumption.
          rewrite (HH e (encode (snd f)) Hne Hve), (rt_dom_type_of _ _ _ Hcv), Hidf. reflexivity. }
      unfold tjm in Hrc, Hwf. rewrite Hmem, missing_required_tdesc, Hreq. cbn [negb].
      eexists; split; [reflexivity|]. unfold rt_ok. cbn [to_json_d jexp_finite is_null json_wf encode].
      repeat split; try assumption; try reflexivity.
      rewrite (j2t_val_struct_eq strict D o' i sd s _ Hsd).
      rewrite guard_false.
      + rewrite Hrc. reflexivity.
      + destruct fs as [|f fs']; [left; destruct ms; [reflexivity|discriminate]|right].
        destruct (Hdep f (or_introl eq_refl)) as [_ H2]. pose proof (depth_pos (snd f)). lia.
    - (* map *)
      destruct t; cbn [rt_dom] in Hd; try discriminate.
      apply andb_true_iff in Hd. destruct Hd as [Hd Hes].
      apply andb_true_iff in Hd. destruct Hd as [Hd Hkt].
      apply andb_true_iff in Hd. destruct Hd as [Hk1 Hv1].
      apply Z.eqb_eq in Hk1. apply Z.eqb_eq in Hv1. subst kt vt.
      rewrite tdesc_of_map. cbn [T2J.json_of].
      rewrite forallb_forall in Hes. rewrite Forall_forall in IH.
      assert (Hdep : forall e, In e es -> (depth (snd e) <= n)%nat /\ s + 1 + Z.of_nat (depth (snd e)) - 1 <= max_level).
      { intros e He. cbn [depth] in Hn, Hs.
        pose proof (fold_max_In (fun e => Nat.max (depth (fst e)) (depth (snd e))) es e He) as Hmx. cbn beta in Hmx. lia. }
      destruct (keyed_rt tj (fun e => key_of o (fst e)) (fun e => T2J.json_of o (tdesc_of D n t2) (snd e))
                  (map_entry strict D o' t1 t2 s) (fun e => encode (fst e) ++ encode (snd e)) es)
        as (ms & Hky & Hfin & Hwf & Hrc & Hnn & Hlen).
      { intros e He. specialize (Hes e He). apply andb_true_iff in Hes. destruct Hes as [Hdk Hdv].
        destruct (Hdep e He) as [Hd1 Hd2].
        destruct (key_rt t1 (fst e) Hkt Hdk) as (ktx & Hko & Hkb & Hkbs).
        destruct (proj2 (IH e He) t2 n (s + 1) Hdv Hd1 Hd2) as (ev & Hj & Hfe & Hne & Hwe & Hve).
        exists ktx, ev. repeat split; try assumption.
        unfold map_entry. cbn [fst snd]. rewrite Hkbs. cbn [rbind]. rewrite Hne, Hve. reflexivity. }
      unfold tjm in Hrc, Hwf, Hnn. rewrite Hky.
      eexists; split; [reflexivity|]. unfold rt_ok. cbn [to_json_d jexp_finite is_null json_wf encode].
      repeat split; try assumption; try reflexivity.
      rewrite j2t_val_map_eq. rewrite guard_false.
      + rewrite Hrc. cbn [rbind]. rewrite count_nonnull_nn, Hnn. reflexivity.
      + destruct es as [|e es']; [left; destruct ms; [reflexivity|discriminate]|right].
        destruct (Hdep e (or_introl eq_refl)) as [_ H2]. pose proof (depth_pos (snd e)). lia.
    - (* set *)
      destruct t; cbn [rt_dom] in Hd; try discriminate.
      apply andb_true_iff in Hd. destruct Hd as [Het Hes]. apply Z.eqb_eq in Het. subst et.
      rewrite tdesc_of_set. cbn [T2J.json_of].
      rewrite forallb_forall in Hes. rewrite Forall_forall in IH.
      assert (Hdep : forall e, In e es -> (depth e <= n)%nat /\ s + 1 + Z.of_nat (depth e) - 1 <= max_level).
      { intros e He. cbn [depth] in Hn, Hs. pose proof (fold_max_In depth es e He). lia. }
      destruct (all_ok_rt tj (T2J.json_of o (tdesc_of D n t)) (j2t_val strict D o' t (s + 1)) encode es)
        as (xs & Hao & Hfin & Hwf & Hrc & Hnn & Hlen).
      { intros e He. destruct (Hdep e He) as [Hd1 Hd2].
        destruct (IH e He t n (s + 1) (Hes e He) Hd1 Hd2) as (ev & Hj & Hfe & Hne & Hwe & Hve).
        exists ev. repeat split; assumption. }
      rewrite Hao.
      eexists; split; [reflexivity|]. unfold rt_ok. cbn [to_json_d jexp_finite is_null json_wf encode].
      repeat split; try assumption; try reflexivity.
      rewrite j2t_val_set_eq. rewrite guard_false.
      + rewrite Hrc. cbn [rbind]. rewrite count_nonnull_nn, Hnn. reflexivity.
      + destruct es as [|e es']; [left; destruct xs; [reflexivity|discriminate]|right].
        destruct (Hdep e (or_introl eq_refl)) as [_ H2]. pose proof (depth_pos e). lia.
    - (* list *)
      destruct t; cbn [rt_dom] in Hd; try discriminate.
      apply andb_true_iff in Hd. destruct Hd as [Het Hes]. apply Z.eqb_eq in Het. subst et.
      rewrite tdesc_of_list. cbn [T2J.json_of].
      rewrite forallb_forall in Hes. rewrite Forall_forall in IH.
      assert (Hdep : forall e, In e es -> (depth e <= n)%nat /\ s + 1 + Z.of_nat (depth e) - 1 <= max_level).
      { intros e He. cbn [depth] in Hn, Hs. pose proof (fold_max_In depth es e He). lia. }
      destruct (all_ok_rt tj (T2J.json_of o (tdesc_of D n t)) (j2t_val strict D o' t (s + 1)) encode es)
        as (xs & Hao & Hfin & Hwf & Hrc & Hnn & Hlen).
      { intros e He. destruct (Hdep e He) as [Hd1 Hd2].
        destruct (IH e He t n (s + 1) (Hes e He) Hd1 Hd2) as (ev & Hj & Hfe & Hne & Hwe & Hve).
        exists ev. repeat split; assumption. }
      rewrite Hao.
      eexists; split; [reflexivity|]. unfold rt_ok. cbn [to_json_d jexp_finite is_null json_wf encode].
      repeat split; try assumption; try reflexivity.
      rewrite j2t_val_list_eq. rewrite guard_false.
      + rewrite Hrc. cbn [rbind]. rewrite count_nonnull_nn, Hnn. reflexivity.
      + destruct es as [|e es']; [left; destruct xs; [reflexivity|discriminate]|right].
        destruct (Hdep e (or_introl eq_refl)) as [_ H2]. pose proof (depth_pos e). lia.
  Qed.
End RT.

(* ------------------------------------------------------------------ the root of t2j: without thrift-base fields and ConvertException
   the root walk is the member walk of json_of *)
Lemma existsb_same {A} (p : A -> bool) l1 l2 : (forall x, In x l1 <-> In x l2) -> existsb p l1 = existsb p l2.
Proof.
  intros H. apply eq_true_iff_eq. rewrite !existsb_exists.
  split; intros (x & Hx & Hp); exists x; (split; [apply H; exact Hx | exact Hp]).
Qed.

Lemma missing_required_same fs l1 l2 : (forall x, In x l1 <-> In x l2) -> missing_required fs l1 = missing_required fs l2.
Proof.
  intros H. unfold missing_required. induction fs as [|f fs IH]; [reflexivity|].
  cbn [existsb]. rewrite IH. rewrite (existsb_same _ l1 l2 H). reflexivity.
Qed.

Definition member_step (o : Z) (fs : list (fmeta * tdesc)) (iv : Z * tval) : fres :=
  match T2J.find_field fs (fst iv) with
  | None => if T2J.o_disallow_unknown o then FErr T2J.E_UNKNOWN else FDrop
  | Some f =>
    match (if o_value_mapping o && f_jsconv (fst f) then jsconv o (snd iv) else T2J.json_of o (snd f) (snd iv)) with
    | TOk e => FMem (f_key (fst f)) e
    | TExc _ => FErr 0
    | TErr c => FErr c
    end
  end.

Lemma json_of_struct_eq o fs vs : T2J.json_of o (DStruct fs) (VStruct vs) =
  match members_of (map (member_step o fs) vs) with
  | inr c => TErr c
  | inl ms => if missing_required fs (map fst vs) then TErr T2J.E_REQUIRED else TOk (EObj ms)
  end.
Proof. reflexivity. Qed.

Lemma root_walk_plain o fs : o_convert_exception o = false ->
  (forall id f, T2J.find_field fs id = Some f -> f_respbase (fst f) = false) ->
  forall vs acc seen bs ms,
  (forall iv, In iv vs -> T2J.find_field fs (fst iv) <> None) ->
  members_of (map (member_step o fs) vs) = inl ms ->
  root_walk o fs vs acc seen bs =
  (if missing_required fs (rev (map fst vs) ++ seen) then TErr T2J.E_REQUIRED else TOk (EObj (rev acc ++ ms)), bs).
Proof.
  intros Hce Hrb. induction vs as [|[id x] r IH]; intros acc seen bs ms Hk Hmem.
  - cbn in Hmem. inversion Hmem; subst. cbn [root_walk map rev app]. rewrite app_nil_r. reflexivity.
  - cbn [root_walk]. cbn [map members_of] in Hmem. unfold member_step at 1 in Hmem. cbn [fst snd] in Hmem.
    destruct (T2J.find_field fs id) as [f|] eqn:Ef; [|exfalso; apply (Hk (id, x) (or_introl eq_refl)); exact Ef].
    rewrite (Hrb id f Ef), andb_false_r, Hce. cbn [andb]. unfold field_value.
    destruct (if o_value_mapping o && f_jsconv (fst f) then jsconv o x else T2J.json_of o (snd f) x) as [e|e|c]; try discriminate.
    destruct (members_of (map (member_step o fs) r)) as [ms'|] eqn:Er; [|discriminate]. inversion Hmem; subst ms.
    rewrite (IH ((f_key (fst f), e) :: acc) (id :: seen) bs ms' (fun iv Hiv => Hk iv (or_intror Hiv)) eq_refl).
    cbn [map rev fst]. rewrite <- !app_assoc. reflexivity.
Qed.

Lemma t2j_spec_plain o d v e : o_convert_exception o = false ->
  (forall fs id f, d = DStruct fs -> T2J.find_field fs id = Some f -> f_respbase (fst f) = false) ->
  (forall fs vs iv, d = DStruct fs -> v = VStruct vs -> In iv vs -> T2J.find_field fs (fst iv) <> None) ->
  T2J.json_of o d v = TOk e -> fst (t2j_spec o d v) = TOk e.
Proof.
  intros Hce Hrb Hk H. unfold t2j_spec.
  destruct d as [tc|bn|fs|dk dv|st de]; try exact H.
  destruct v as [ | | | | | | |vs| | | ]; try exact H.
  rewrite json_of_struct_eq in H.
  destruct (members_of (map (member_step o fs) vs)) as [ms|] eqn:Em; [|discriminate].
  destruct (missing_required fs (map fst vs)) eqn:Emr; [discriminate|]. inversion H; subst e.
  rewrite (root_walk_plain o fs Hce (fun id f => Hrb fs id f eq_refl) vs [] [] None ms (fun iv => Hk fs vs iv eq_refl eq_refl) Em).
  cbn [fst rev app]. rewrite app_nil_r.
  rewrite (missing_required_same fs (rev (map fst vs)) (map fst vs)); [rewrite Emr; reflexivity|].
  intros x. symmetry. apply in_rev.
Qed.

Lemma f_respbase_fmeta_of fd : f_respbase (fmeta_of fd) = false.
Proof. unfold f_respbase, fmeta_of. cbn [f_flags]. destruct (f_vm fd); reflexivity. Qed.

Lemma t2j_spec_tdesc_of o D n t v e : o_convert_exception o = false -> rt_dom D t v = true -> (depth v <= n)%nat ->
  T2J.json_of o (tdesc_of D n t) v = TOk e -> fst (t2j_spec o (tdesc_of D n t) v) = TOk e.
Proof.
  intros Hce Hd Hn H. apply t2j_spec_plain; [exact Hce| | |exact H].
  - intros fs id f Hfs Hf.
    destruct t; try (destruct n; discriminate).
    destruct n as [|n']; [destruct v; cbn in Hd; try discriminate; cbn [depth] in Hn; lia|].
    cbn in Hfs. destruct (nth_error D i) as [sd|]; inversion Hfs; subst fs; [|discriminate].
    rewrite find_field_tdesc in Hf. destruct (find_id sd id) as [fd|]; [|discriminate].
    cbn in Hf. inversion Hf; subst f. apply f_respbase_fmeta_of.
  - intros fs vs iv Hfs Hv Hin Hnone. subst v.
    destruct t; cbn [rt_dom] in Hd; try discriminate.
    destruct (nth_error D i) as [sd|] eqn:Hsd; [|discriminate].
    destruct n as [|n']; [cbn [depth] in Hn; lia|].
    rewrite (tdesc_of_struct D n' i sd Hsd) in Hfs. inversion Hfs; subst fs.
    apply andb_true_iff in Hd. destruct Hd as [_ Hd]. rewrite forallb_forall in Hd. specialize (Hd iv Hin).
    rewrite find_field_tdesc in Hnone. destruct (find_id sd (fst iv)); discriminate.
Qed.

(* ------------------------------------------------------------------ the theorems *)
Section Top.
  Variable dlex : Z -> list Z.
  Hypothesis Hdlex : dlex_contract dlex.

  (* AST level: the document t2j denotes converts back to exactly the bytes of v *)
  Theorem t2j_j2t_id_ast : forall D o o' t v n,
    matching_opts o o' -> rt_dom D t v = true -> (depth v <= n)%nat -> Z.of_nat (depth v) <= max_level ->
    exists e, T2J.json_of o (tdesc_of D n t) v = TOk e /\ jexp_finite e = true /\
              j2t D o' t (to_json_d dlex e) = Ok (encode v).
  Proof.
    intros D o o' t v n Hm Hd Hn Hs.
    destruct (rt_all dlex Hdlex D o o' Hm v t n 1 Hd Hn) as (e & Hj & Hfe & _ & _ & Hv); [lia|].
    exists e. repeat split; assumption.
  Qed.

  (* text level: the text of the model's t2j (root walk included), followed by anything that does not continue a number,
     is converted by the model's j2t (prefix parse included) to exactly the bytes of v *)
  Theorem t2j_j2t_id_text : forall D o o' t v n r,
    matching_opts o o' -> rt_dom D t v = true -> (depth v <= n)%nat -> Z.of_nat (depth v) <= max_level -> stop r = true ->
    exists txt, t2j_doc dlex o D n t v = Some txt /\ j2t_text strict D o' t (txt ++ r) = Ok (encode v).
  Proof.
    intros D o o' t v n r Hm Hd Hn Hs Hr.
    destruct (rt_all dlex Hdlex D o o' Hm v t n 1 Hd Hn) as (e & Hj & Hfe & _ & Hwf & Hv); [lia|].
    destruct (matching_split _ _ Hm) as (_ & _ & _ & _ & Hce).
    exists (json_print (to_json_d dlex e)). split.
    - unfold t2j_doc. rewrite (t2j_spec_tdesc_of o D n t v e Hce Hd Hn Hj), Hfe. reflexivity.
    - rewrite j2t_text_print_lemma by assumption. exact Hv.
  Qed.
End Top.

(* ---- the exact-decimal printer of T2J.v ---- *)
Lemma to_json_d_exact : forall e, to_json_d f64_exact_lexeme e = to_json e.
Proof.
  intros e. reflexivity.
Qed.

Lemma t2j_doc_exact o D n t v : t2j_doc f64_exact_lexeme o D n t v = t2j_text o (tdesc_of D n t) v.
Proof.
  reflexivity.
Qed.

(* the one unproved fact about the exact printer: the correctly rounding reader maps the exact decimal expansion of a
   finite binary64 back to its bits (that the expansion is a number lexeme IS proved: num_okb_f64_exact) *)
Definition f64_exact_contract : Prop :=
  forall b, 0 <= b < 2 ^ 64 -> f64_is_finite b = true -> lex2f64 (f64_exact_lexeme b) = Some b.

Lemma exact_contract_dlex : f64_exact_contract -> dlex_contract f64_exact_lexeme.
Proof. intros H b Hb Hf. split; [apply num_okb_f64_exact | exact (H b Hb Hf)]. Qed.

Theorem t2j_j2t_id : f64_exact_contract -> forall D o o' t v n r,
  matching_opts o o' -> rt_dom D t v = true -> (depth v <= n)%nat -> Z.of_nat (depth v) <= max_level -> stop r = true ->
  exists txt, t2j_text o (tdesc_of D n t) v = Some txt /\ j2t_text strict D o' t (txt ++ r) = Ok (encode v).
Proof.
  intros Hc D o o' t v n r Hm Hd Hn Hs Hr.
  destruct (t2j_j2t_id_text f64_exact_lexeme (exact_contract_dlex Hc) D o o' t v n r Hm Hd Hn Hs Hr) as (txt & H1 & H2).
  exists txt. rewrite <- t2j_doc_exact. split; assumption.
Qed.

(* ------------------------------------------------------------------ decode (encode v) = v at the top level *)
Lemma fold_max_le_flat {A} (g : A -> nat) (h : A -> list Z) (l : list A) :
  (forall x, In x l -> (g x <= length (h x))%nat) ->
  (fold_right (fun a m => Nat.max (g a) m) O l <= length (flat_map h l))%nat.
Proof.
  induction l as [|a l IH]; intros H; [cbn; lia|].
  cbn [fold_right flat_map]. rewrite app_length.
  specialize (H a (or_introl eq_refl)) as Ha. specialize (IH (fun x Hx => H x (or_intror Hx))). lia.
Qed.

Lemma depth_le_encode : forall v, (depth v <= length (encode v))%nat.
Proof.
  induction v as [b|z|z|z|z|b|x|fs IH|kt vt es IH|et es IH|et es IH] using tval_ind'; cbn [depth encode];
    try (rewrite ?enc_int_length; cbn [length]; lia).
  - rewrite app_length, enc_int_length. lia.
  - rewrite app_length. cbn [length]. rewrite Forall_forall in IH.
    pose proof (fold_max_le_flat (fun f => depth (snd f)) (fun f => type_of (snd f) :: enc_int 2 (fst f) ++ encode (snd f)) fs) as H.
    cbn beta in H. assert (Hx : forall x, In x fs -> (depth (snd x) <= length (type_of (snd x) :: enc_int 2 (fst x) ++ encode (snd x)))%nat).
    { intros x Hx. cbn [length]. rewrite app_length. specialize (IH x Hx). lia. }
    specialize (H Hx). lia.
  - cbn [length]. rewrite app_length, enc_int_length. rewrite Forall_forall in IH.
    pose proof (fold_max_le_flat (fun e => Nat.max (depth (fst e)) (depth (snd e))) (fun e => encode (fst e) ++ encode (snd e)) es) as H.
    cbn beta in H. assert (Hx : forall x, In x es -> (Nat.max (depth (fst x)) (depth (snd x)) <= length (encode (fst x) ++ encode (snd x)))%nat).
    { intros x Hx. rewrite app_length. destruct (IH x Hx). lia. }
    specialize (H Hx). lia.
  - cbn [length]. rewrite app_length, enc_int_length. rewrite Forall_forall in IH.
    pose proof (fold_max_le_flat depth encode es IH). lia.
  - cbn [length]. rewrite app_length, enc_int_length. rewrite Forall_forall in IH.
    pose proof (fold_max_le_flat depth encode es IH). lia.
Qed.

Theorem decode_all_encode : forall v, wf v = true -> decode_all (type_of v) (encode v) = Some v.
Proof.
  intros v Hw. unfold decode_all.
  pose proof (decode_encode v Hw (S (length (encode v))) []) as H. rewrite app_nil_r in H.
  rewrite H; [reflexivity|]. pose proof (depth_le_encode v). lia.
Qed.

(* a document denotes what it denotes *)
Lemma zlist_eqb_refl' : forall a, zlist_eqb a a = true.
Proof. intros a. apply zlist_eqb_eq. reflexivity. Qed.

Lemma json_same_refl : forall j, json_same j j = true.
Proof.
  induction j as [| b | l | s | xs IH | ms IH] using json_ind'; cbn [json_same].
  - reflexivity.
  - destruct b; reflexivity.
  - unfold num_same. rewrite zlist_eqb_refl'. reflexivity.
  - apply zlist_eqb_refl'.
  - induction xs as [|x xs IHx]; [reflexivity|]. inversion IH as [|? ? Hx Hxs]; subst. rewrite Hx. exact (IHx Hxs).
  - induction ms as [|m ms IHm]; [reflexivity|]. inversion IH as [|? ? Hx Hxs]; subst.
    rewrite zlist_eqb_refl', Hx. exact (IHm Hxs).
Qed.

(* ------------------------------------------------------------------ the other direction, on canonical documents *)
(* a document in t2j's canonical output form is the text c = t2j(v) of some in-domain v.  Converting it to Thrift and back
   yields the very same document: j2t gives encode v (theorem above), the proved decoder reads encode v back as v, and t2j
   is a function.  In particular both documents parse to the same AST, so they denote the same value. *)
Theorem j2t_t2j_denotes : f64_exact_contract -> forall D o o' t v n c,
  matching_opts o o' -> rt_dom D t v = true -> wf v = true -> (depth v <= n)%nat -> Z.of_nat (depth v) <= max_level ->
  t2j_text o (tdesc_of D n t) v = Some c ->
  exists b v' c' j,
    j2t_text strict D o' t c = Ok b /\ decode_all (tcode t) b = Some v' /\
    t2j_text o (tdesc_of D n t) v' = Some c' /\
    json_parse c = Some j /\ json_parse c' = Some j /\ json_same j j = true /\ v' = v /\ c' = c.
Proof.
  intros Hc D o o' t v n c Hm Hd Hw Hn Hs Ht.
  destruct (t2j_j2t_id Hc D o o' t v n [] Hm Hd Hn Hs eq_refl) as (txt & H1 & H2).
  rewrite Ht in H1. inversion H1; subst txt. rewrite app_nil_r in H2.
  assert (Hj : exists j, json_parse c = Some j).
  { unfold t2j_text in Ht. destruct (fst (t2j_spec o (tdesc_of D n t) v)) as [e| |] eqn:E; try discriminate.
    destruct (jexp_finite e); [|discriminate]. inversion Ht; subst c.
    destruct (rt_all f64_exact_lexeme (exact_contract_dlex Hc) D o o' Hm v t n 1 Hd Hn) as (e' & Hj & _ & _ & Hwf & _); [lia|].
    destruct (matching_split _ _ Hm) as (_ & _ & _ & _ & Hce).
    rewrite (t2j_spec_tdesc_of o D n t v e' Hce Hd Hn Hj) in E. inversion E; subst e'.
    rewrite to_json_d_exact in Hwf. exists (to_json e). apply json_parse_print. exact Hwf. }
  destruct Hj as [j Hj].
  exists (encode v), v, c, j. repeat split; try assumption.
  - rewrite <- (rt_dom_type_of D v t Hd). apply decode_all_encode. exact Hw.
  - apply json_same_refl.
Qed.

(* ------------------------------------------------------------------ corollaries: nothing is lost *)
Section Corollaries.
  Variable dlex : Z -> list Z.
  Hypothesis Hdlex : dlex_contract dlex.
  Variable D : defs.
  Variable o : Z.
  Variable o' : jopts.
  Hypothesis Hm : matching_opts o o'.

  Definition rt_text (n : nat) (t : ty) (v : tval) : res :=
    match t2j_doc dlex o D n t v with Some txt => j2t_text strict D o' t txt | None => Err 0 end.

  Lemma rt_text_id n t v : rt_dom D t v = true -> (depth v <= n)%nat -> Z.of_nat (depth v) <= max_level ->
    rt_text n t v = Ok (encode v).
  Proof.
    intros Hd Hn Hs. unfold rt_text.
    destruct (t2j_j2t_id_text dlex Hdlex D o o' t v n [] Hm Hd Hn Hs eq_refl) as (txt & H1 & H2).
    rewrite H1. rewrite app_nil_r in H2. exact H2.
  Qed.

  (* the value read back from the converted bytes is the value itself: precision, order and emptiness included *)
  Theorem rt_value_preserved n t v : rt_dom D t v = true -> wf v = true -> (depth v <= n)%nat -> Z.of_nat (depth v) <= max_level ->
    exists b, rt_text n t v = Ok b /\ decode_all (tcode t) b = Some v.
  Proof.
    intros Hd Hw Hn Hs. exists (encode v). split; [apply rt_text_id; assumption|].
    rewrite <- (rt_dom_type_of D v t Hd). apply decode_all_encode. exact Hw.
  Qed.

  (* sign of zero *)
  Corollary rt_neg_zero n : (1 <= n)%nat -> rt_text n TDouble (VDouble (2 ^ 63)) = Ok [128; 0; 0; 0; 0; 0; 0; 0].
  Proof. intros Hn. rewrite rt_text_id; [reflexivity | reflexivity | exact Hn | cbn; unfold max_level; lia]. Qed.
  Corollary rt_pos_zero n : (1 <= n)%nat -> rt_text n TDouble (VDouble 0) = Ok [0; 0; 0; 0; 0; 0; 0; 0].
  Proof. intros Hn. rewrite rt_text_id; [reflexivity | reflexivity | exact Hn | cbn; unfold max_level; lia]. Qed.
  Corollary rt_zero_signs_distinct n : (1 <= n)%nat -> rt_text n TDouble (VDouble (2 ^ 63)) <> rt_text n TDouble (VDouble 0).
  Proof. intros Hn. rewrite (rt_neg_zero n Hn), (rt_pos_zero n Hn). discriminate. Qed.

  (* every finite double keeps all 64 bits *)
  Corollary rt_double_exact n b : (1 <= n)%nat -> f64_bits_ok b = true -> rt_text n TDouble (VDouble b) = Ok (enc_int 8 b).
  Proof. intros Hn Hb. rewrite rt_text_id; [reflexivity | exact Hb | exact Hn | cbn; unfold max_level; lia]. Qed.

  (* int64: every value, the extremes included, with or without Int642String *)
  Corollary rt_i64_exact n z : (1 <= n)%nat -> in_sb 64 z = true -> rt_text n TI64 (VI64 z) = Ok (enc_int 8 z).
  Proof. intros Hn Hz. rewrite rt_text_id; [reflexivity | exact Hz | exact Hn | cbn; unfold max_level; lia]. Qed.
  Corollary rt_i64_min n : (1 <= n)%nat -> rt_text n TI64 (VI64 (- 2 ^ 63)) = Ok [128; 0; 0; 0; 0; 0; 0; 0].
  Proof. intros Hn. rewrite rt_i64_exact; [reflexivity | exact Hn | reflexivity]. Qed.
  Corollary rt_i64_max n : (1 <= n)%nat -> rt_text n TI64 (VI64 (2 ^ 63 - 1)) = Ok [127; 255; 255; 255; 255; 255; 255; 255].
  Proof. intros Hn. rewrite rt_i64_exact; [reflexivity | exact Hn | reflexivity]. Qed.

  (* empty strings and binaries stay empty (not dropped, not null) *)
  Corollary rt_empty_string n : (1 <= n)%nat -> rt_text n TString (VString []) = Ok [0; 0; 0; 0].
  Proof. intros Hn. rewrite rt_text_id; [reflexivity | reflexivity | exact Hn | cbn; unfold max_level; lia]. Qed.
  Corollary rt_empty_binary n : (1 <= n)%nat -> rt_text n TBinary (VString []) = Ok [0; 0; 0; 0].
  Proof. intros Hn. rewrite rt_text_id; [reflexivity | reflexivity | exact Hn | cbn; unfold max_level; lia]. Qed.

  (* empty containers stay empty containers of the declared element types *)
  Corollary rt_empty_list n e : (1 <= n)%nat -> rt_text n (TList e) (VList (tcode e) []) = Ok (tcode e :: [0; 0; 0; 0]).
  Proof.
    intros Hn. rewrite rt_text_id; [reflexivity | cbn [rt_dom forallb]; rewrite Z.eqb_refl; reflexivity | exact Hn | cbn; unfold max_level; lia].
  Qed.
  Corollary rt_empty_set n e : (1 <= n)%nat -> rt_text n (TSet e) (VSet (tcode e) []) = Ok (tcode e :: [0; 0; 0; 0]).
  Proof.
    intros Hn. rewrite rt_text_id; [reflexivity | cbn [rt_dom forallb]; rewrite Z.eqb_refl; reflexivity | exact Hn | cbn; unfold max_level; lia].
  Qed.
  Corollary rt_empty_map n k e : (1 <= n)%nat -> rt_key_ty k = true ->
    rt_text n (TMap k e) (VMap (tcode k) (tcode e) []) = Ok (tcode k :: tcode e :: [0; 0; 0; 0]).
  Proof.
    intros Hn Hk. rewrite rt_text_id; [reflexivity | cbn [rt_dom forallb]; rewrite !Z.eqb_refl, Hk; reflexivity | exact Hn | cbn; unfold max_level; lia].
  Qed.
  Corollary rt_empty_struct n i sd : (1 <= n)%nat -> nth_error D i = Some sd -> req_present sd [] = true ->
    rt_text n (TStruct i) (VStruct []) = Ok [0].
  Proof.
    intros Hn Hsd Hr. rewrite rt_text_id; [reflexivity | cbn [rt_dom map forallb]; rewrite Hsd, Hr; reflexivity | exact Hn | cbn; unfold max_level; lia].
  Qed.

  (* list order: the elements come back in the order they had, as the bytes show *)
  Corollary rt_list_order n e es : rt_dom D (TList e) (VList (tcode e) es) = true ->
    (depth (VList (tcode e) es) <= n)%nat -> Z.of_nat (depth (VList (tcode e) es)) <= max_level ->
    rt_text n (TList e) (VList (tcode e) es) = Ok (tcode e :: enc_int 4 (zlen es) ++ flat_map encode es).
  Proof. intros Hd Hn Hs. rewrite rt_text_id by assumption. reflexivity. Qed.

  (* map entries and set elements too keep their wire order *)
  Corollary rt_map_order n k e es : rt_dom D (TMap k e) (VMap (tcode k) (tcode e) es) = true ->
    (depth (VMap (tcode k) (tcode e) es) <= n)%nat -> Z.of_nat (depth (VMap (tcode k) (tcode e) es)) <= max_level ->
    rt_text n (TMap k e) (VMap (tcode k) (tcode e) es) =
    Ok (tcode k :: tcode e :: enc_int 4 (zlen es) ++ flat_map (fun x => encode (fst x) ++ encode (snd x)) es).
  Proof. intros Hd Hn Hs. rewrite rt_text_id by assumption. reflexivity. Qed.
End Corollaries.
