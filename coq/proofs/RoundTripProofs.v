(* C13 — JSON <-> Thrift conversions are mutually inverse on their domain (models T2J.v and J2T.v over the common
   descriptor of model/RoundTrip.v).  The double printer is a parameter; the formatter contract is a hypothesis. *)
From Coq Require Import ZArith List Bool Lia.
From DG Require Import ProtoWireRef ThriftWire ThriftWireProofs Json JsonProofs Num NumProofs Base64 Base64Proofs
                       T2J T2JProofs J2T J2TProofs RoundTrip.
Import ListNotations.
Local Open Scope Z_scope.

(* ------------------------------------------------------------------ the T2J view of the common descriptor *)
Lemma tdesc_of_list D n e : tdesc_of D n (TList e) = DList false (tdesc_of D n e).
Proof. destruct n; reflexivity. Qed.
Lemma tdesc_of_set D n e : tdesc_of D n (TSet e) = DList true (tdesc_of D n e).
Proof. destruct n; reflexivity. Qed.
Lemma tdesc_of_map D n k v : tdesc_of D n (TMap k v) = DMap (tdesc_of D n k) (tdesc_of D n v).
Proof. destruct n; reflexivity. Qed.
Lemma tdesc_of_string D n : tdesc_of D n TString = DString false.
Proof. destruct n; reflexivity. Qed.
Lemma tdesc_of_binary D n : tdesc_of D n TBinary = DString true.
Proof. destruct n; reflexivity. Qed.
Lemma tdesc_of_struct D n i sd : nth_error D i = Some sd ->
  tdesc_of D (S n) (TStruct i) = DStruct (map (fun fd => (fmeta_of fd, tdesc_of D n (f_ty fd))) sd).
Proof. intros H. cbn. rewrite H. reflexivity. Qed.

Lemma find_field_tdesc D n sd id :
  T2J.find_field (map (fun fd => (fmeta_of fd, tdesc_of D n (f_ty fd))) sd) id =
  option_map (fun fd => (fmeta_of fd, tdesc_of D n (f_ty fd))) (find_id sd id).
Proof.
  unfold find_id. induction sd as [|fd sd IH]; [reflexivity|].
  cbn [map T2J.find_field find fst fmeta_of T2J.f_id].
  destruct (J2T.f_id fd =? id); [reflexivity | exact IH].
Qed.

Lemma missing_required_tdesc D n sd ids :
  missing_required (map (fun fd => (fmeta_of fd, tdesc_of D n (f_ty fd))) sd) ids = negb (req_present sd ids).
Proof.
  unfold missing_required, req_present. induction sd as [|fd sd IH]; [reflexivity|].
  cbn [map existsb forallb fst fmeta_of T2J.f_id T2J.f_req]. rewrite IH.
  destruct (J2T.f_req fd =? 1); cbn [negb andb orb]; [|reflexivity].
  destruct (existsb (fun id => id =? J2T.f_id fd) ids); cbn [negb andb orb]; reflexivity.
Qed.

Lemma f_jsconv_fmeta_of fd : f_jsconv (fmeta_of fd) = f_vm fd.
Proof. unfold f_jsconv, fmeta_of. cbn [f_flags]. destruct (f_vm fd); reflexivity. Qed.

Lemma find_id_id sd id fd : find_id sd id = Some fd -> J2T.f_id fd = id.
Proof. unfold find_id. intros H. apply find_some in H. destruct H as [_ H]. apply Z.eqb_eq. exact H. Qed.

(* ------------------------------------------------------------------ small facts *)
Lemma depth_pos v : (1 <= depth v)%nat.
Proof. destruct v; cbn [depth]; lia. Qed.

Lemma rt_dom_type_of D v t : rt_dom D t v = true -> type_of v = tcode t.
Proof. destruct v, t; intros H; try reflexivity; cbn in H; discriminate. Qed.

Lemma guard_false {A} (l : list A) s : (l = [] \/ s < max_level) -> nonempty l && (max_level <=? s) = false.
Proof.
  intros [->|H]; [reflexivity|]. destruct (Z.leb_spec max_level s); [lia|]. apply andb_false_r.
Qed.

Lemma num_okb_nonnil l : num_okb l = true -> l <> [].
Proof. intros H E. subst. discriminate. Qed.

Lemma vm_val_str_num : forall t x, is_num_ty t = true -> num_okb x = true -> vm_val strict t (JStr x) = num_strict t x.
Proof.
  intros t x Ht Hx. unfold vm_val. destruct x as [|c x']; [discriminate|].
  rewrite Hx, Ht. destruct t; try discriminate; cbn [vm_extra strict p_num p_vm_quirks]; try reflexivity.
  destruct (num_strict TI16 (c :: x')); reflexivity.
Qed.

Lemma matching_split o o' : matching_opts o o' ->
  (o_int642string o = true -> o_str2int o' = true) /\ o_byte_as_uint8 o = false /\
  o_no_base64 o = o_nob64 o' /\ o_value_mapping o = o_vm o' /\ o_convert_exception o = false.
Proof.
  unfold matching_opts, matching_optsb. intros H.
  repeat (apply andb_true_iff in H; destruct H as [H ?]).
  repeat split.
  - intros Hi. rewrite Hi in H. exact H.
  - apply negb_true_iff. assumption.
  - apply eqb_prop. assumption.
  - apply eqb_prop. assumption.
  - apply negb_true_iff. assumption.
Qed.

(* ------------------------------------------------------------------ list helpers: all-or-first-error vs rconcat *)
Section Helpers.
  Variable tj : jexp -> json.

  Definition nn (l : list json) : nat := length (filter (fun x => negb (is_null x)) l).

  Lemma count_nonnull_nn l : count_nonnull l = Z.of_nat (nn l).
  Proof. reflexivity. Qed.

  Lemma all_ok_rt {A} (f : A -> tres) (h : json -> res) (enc : A -> list Z) (l : list A) :
    (forall x, In x l -> exists e, f x = TOk e /\ jexp_finite e = true /\ is_null (tj e) = false /\
                                   json_wf (tj e) = true /\ h (tj e) = Ok (enc x)) ->
    exists xs, all_ok (map f l) = inl xs /\ forallb jexp_finite xs = true /\ forallb json_wf (map tj xs) = true /\
               rconcat (fun j => if is_null j then Ok [] else h j) (map tj xs) = Ok (flat_map enc l) /\
               nn (map tj xs) = length l /\ length xs = length l.
  Proof.
    induction l as [|x l IH]; intros H.
    - exists []. repeat split; reflexivity.
    - destruct (H x (or_introl eq_refl)) as (e & Hf & Hfin & Hnn & Hwf & Hh).
      destruct IH as (xs & Ha & Hfs & Hws & Hr & Hn & Hl); [intros y Hy; apply H; right; exact Hy|].
      exists (e :: xs). cbn [map all_ok forallb rconcat flat_map length]. rewrite Hf, Ha, Hfin, Hfs, Hwf, Hws, Hnn, Hh, Hr.
      repeat split; try reflexivity.
      + unfold nn in *. cbn [filter]. rewrite Hnn. cbn [negb length]. rewrite Hn. reflexivity.
      + rewrite Hl. reflexivity.
  Qed.

  Definition tjm (m : list Z * jexp) : list Z * json := (fst m, tj (snd m)).

  Lemma members_rt {A} (g : A -> fres) (h : list Z * json -> res) (enc : A -> list Z) (l : list A) :
    (forall x, In x l -> exists k e, g x = FMem k e /\ jexp_finite e = true /\ jbytes_okb k = true /\
                                     json_wf (tj e) = true /\ h (k, tj e) = Ok (enc x)) ->
    exists ms, members_of (map g l) = inl ms /\ forallb (fun m => jexp_finite (snd m)) ms = true /\
               forallb (fun m => jbytes_okb (fst m) && json_wf (snd m)) (map tjm ms) = true /\
               rconcat h (map tjm ms) = Ok (flat_map enc l) /\ length ms = length l.
  Proof.
    induction l as [|x l IH]; intros H.
    - exists []. repeat split; reflexivity.
    - destruct (H x (or_introl eq_refl)) as (k & e & Hg & Hfin & Hk & Hwf & Hh).
      destruct IH as (ms & Ha & Hfs & Hws & Hr & Hl); [intros y Hy; apply H; right; exact Hy|].
      exists ((k, e) :: ms). cbn [map members_of forallb rconcat flat_map length tjm fst snd].
      change (tjm (k, e)) with (k, tj e).
      rewrite Hg, Ha, Hfin, Hfs, Hk, Hwf, Hh, Hws, Hr, Hl.
      repeat split; reflexivity.
  Qed.

  Lemma keyed_rt {A} (kf : A -> option (list Z)) (vf : A -> tres) (h : list Z * json -> res) (enc : A -> list Z) (l : list A) :
    (forall x, In x l -> exists k e, kf x = Some k /\ vf x = TOk e /\ jexp_finite e = true /\ jbytes_okb k = true /\
                                     is_null (tj e) = false /\ json_wf (tj e) = true /\ h (k, tj e) = Ok (enc x)) ->
    exists ms, keyed (map kf l) (map vf l) = inl ms /\ forallb (fun m => jexp_finite (snd m)) ms = true /\
               forallb (fun m => jbytes_okb (fst m) && json_wf (snd m)) (map tjm ms) = true /\
               rconcat h (map tjm ms) = Ok (flat_map enc l) /\
               nn (map snd (map tjm ms)) = length l /\ length ms = length l.
  Proof.
    induction l as [|x l IH]; intros H.
    - exists []. repeat split; reflexivity.
    - destruct (H x (or_introl eq_refl)) as (k & e & Hkf & Hvf & Hfin & Hk & Hnn & Hwf & Hh).
      destruct IH as (ms & Ha & Hfs & Hws & Hr & Hn & Hl); [intros y Hy; apply H; right; exact Hy|].
      exists ((k, e) :: ms). cbn [map keyed forallb rconcat flat_map length tjm fst snd].
      change (tjm (k, e)) with (k, tj e).
      rewrite Hkf, Hvf, Ha, Hfin, Hfs, Hk, Hwf, Hh, Hws, Hr, Hl.
      repeat split; try reflexivity.
      unfold nn in *. cbn [filter]. rewrite Hnn. cbn [negb length]. rewrite Hn. reflexivity.
  Qed.
End Helpers.

(* ------------------------------------------------------------------ the round trip *)
Section RT.
  Variable dlex : Z -> list Z.
  Hypothesis Hdlex : dlex_contract dlex.
  Variable D : defs.
  Variable o : Z.
  Variable o' : jopts.
  Hypothesis Hm : matching_opts o o'.

  Local Notation tj := (to_json_d dlex).

  (* what the induction carries for one value *)
  Definition rt_ok (t : ty) (s : Z) (v : tval) (e : jexp) : Prop :=
    jexp_finite e = true /\ is_null (tj e) = false /\ json_wf (tj e) = true /\
    j2t_val strict D o' t s (tj e) = Ok (encode v).

  Lemma dbl_rt b : f64_bits_ok b = true -> num_okb (dlex b) = true /\ num_strict TDouble (dlex b) = Ok (enc_int 8 b).
  Proof.
    intros H. unfold f64_bits_ok in H. apply andb_true_iff in H. destruct H as [H Hf].
    apply andb_true_iff in H. destruct H as [H0 H1]. apply Z.leb_le in H0. apply Z.ltb_lt in H1.
    destruct (Hdlex b (conj H0 H1) Hf) as [Hok Hlex]. split; [exact Hok|].
    unfold num_strict. rewrite Hok, Hlex, Hf. reflexivity.
  Qed.

  Lemma byte_image_id z : byte_image o z = z.
  Proof. destruct (matching_split _ _ Hm) as (_ & Hb & _). unfold byte_image. rewrite Hb. reflexivity. Qed.

  (* api.js_conv on the scalar types both sides support *)
  Lemma vm_rt t x : vm_ty_ok t = true -> rt_dom D t x = true ->
    exists e, jsconv o x = TOk e /\ jexp_finite e = true /\ is_null (tj e) = false /\ json_wf (tj e) = true /\
              vm_val strict t (tj e) = Ok (encode x).
  Proof.
    intros Ht Hd.
    destruct x, t; try (cbn in Hd; discriminate); try (cbn in Ht; discriminate); cbn [rt_dom] in Hd;
      cbn [jsconv jsconv_scalar].
    - (* byte *)
      rewrite byte_image_id. eexists; split; [reflexivity|]. cbn [to_json_d jexp_finite is_null json_wf].
      pose proof (num_okb_fmt_int z) as Hok. pose proof (fmt_int_bytes z) as Hby.
      repeat split; try reflexivity; try exact Hby.
      rewrite (vm_val_str_num TByte _ eq_refl Hok). apply (num_strict_fmt_int TByte 1%nat 8); [reflexivity|exact Hd].
    - eexists; split; [reflexivity|]. cbn [to_json_d jexp_finite is_null json_wf].
      pose proof (num_okb_fmt_int z) as Hok. pose proof (fmt_int_bytes z) as Hby.
      repeat split; try reflexivity; try exact Hby.
      rewrite (vm_val_str_num TI16 _ eq_refl Hok). apply (num_strict_fmt_int TI16 2%nat 16); [reflexivity|exact Hd].
    - eexists; split; [reflexivity|]. cbn [to_json_d jexp_finite is_null json_wf].
      pose proof (num_okb_fmt_int z) as Hok. pose proof (fmt_int_bytes z) as Hby.
      repeat split; try reflexivity; try exact Hby.
      rewrite (vm_val_str_num TI32 _ eq_refl Hok). apply (num_strict_fmt_int TI32 4%nat 32); [reflexivity|exact Hd].
    - eexists; split; [reflexivity|]. cbn [to_json_d jexp_finite is_null json_wf].
      pose proof (num_okb_fmt_int z) as Hok. pose proof (fmt_int_bytes z) as Hby.
      repeat split; try reflexivity; try exact Hby.
      rewrite (vm_val_str_num TI64 _ eq_refl Hok). apply (num_strict_fmt_int TI64 8%nat 64); [reflexivity|exact Hd].
    - (* double *)
      destruct (dbl_rt bits Hd) as [Hok Hs].
      eexists; split; [reflexivity|]. cbn [to_json_d jexp_finite is_null json_wf].
      assert (Hfin : f64_is_finite bits = true) by (unfold f64_bits_ok in Hd; apply andb_true_iff in Hd; exact (proj2 Hd)).
      repeat split; try reflexivity; try exact Hfin; try (apply num_okb_bytes; exact Hok).
      rewrite (vm_val_str_num TDouble _ eq_refl Hok). exact Hs.
    - (* string *)
      eexists; split; [reflexivity|]. cbn [to_json_d jexp_finite is_null json_wf vm_val].
      repeat split; try reflexivity. exact Hd.
  Qed.

  Definition RTP (v : tval) : Prop := forall t n s,
    rt_dom D t v = true -> (depth v <= n)%nat -> s + Z.of_nat (depth v) - 1 <= max_level ->
    exists e, T2J.json_of o (tdesc_of D n t) v = TOk e /\ rt_ok t s v e.

  Lemma key_rt k kv : rt_key_ty k = true -> rt_dom D k kv = true ->
    exists kt, key_of o kv = Some kt /\ jbytes_okb kt = true /\ key_bytes strict k kt = Ok (encode kv).
  Proof.
    intros Hk Hd.
    destruct kv, k; try (cbn in Hd; discriminate); try (cbn in Hk; discriminate); cbn [rt_dom] in Hd;
      cbn [key_of]; try rewrite byte_image_id; eexists; (split; [reflexivity|]);
      cbn [key_bytes strict p_key_prefix p_num encode]; try rewrite num_okb_fmt_int.
    - split; [apply fmt_int_bytes|]. apply (num_strict_fmt_int TByte 1%nat 8); [reflexivity|exact Hd].
    - split; [apply fmt_int_bytes|]. apply (num_strict_fmt_int TI16 2%nat 16); [reflexivity|exact Hd].
    - split; [apply fmt_int_bytes|]. apply (num_strict_fmt_int TI32 4%nat 32); [reflexivity|exact Hd].
    - split; [apply fmt_int_bytes|]. apply (num_strict_fmt_int TI64 8%nat 64); [reflexivity|exact Hd].
    - split; [exact Hd|reflexivity].
    - split; [exact Hd|reflexivity].
  Qed.

  Theorem rt_all : forall v, RTP v.
  Proof.
    destruct (matching_split _ _ Hm) as (Hi64 & Hbu & Hnb & Hvm & Hce).
    induction v as [b|z|z|z|z|b|x|fs IH|kt vt es IH|et es IH|et es IH] using tval_ind'; intros t n s Hd Hn Hs.
    - (* bool *)
      destruct t; cbn [rt_dom] in Hd; try discriminate. cbn [T2J.json_of].
      eexists; split; [reflexivity|]. unfold rt_ok. cbn [to_json_d jexp_finite is_null json_wf j2t_val encode].
      repeat split; try reflexivity.
      apply orb_true_iff in Hd. destruct Hd as [Hd|Hd]; apply Z.eqb_eq in Hd; subst b; reflexivity.
    - (* byte *)
      destruct t; cbn [rt_dom] in Hd; try discriminate. cbn [T2J.json_of]. rewrite byte_image_id.
      eexists; split; [reflexivity|]. unfold rt_ok. cbn [to_json_d jexp_finite is_null json_wf j2t_val encode is_num_ty strict p_num].
      repeat split; try reflexivity; [apply num_okb_fmt_int|]. apply (num_strict_fmt_int TByte 1%nat 8); [reflexivity|exact Hd].
    - destruct t; cbn [rt_dom] in Hd; try discriminate. cbn [T2J.json_of].
      eexists; split; [reflexivity|]. unfold rt_ok. cbn [to_json_d jexp_finite is_null json_wf j2t_val encode is_num_ty strict p_num].
      repeat split; try reflexivity; [apply num_okb_fmt_int|]. apply (num_strict_fmt_int TI16 2%nat 16); [reflexivity|exact Hd].
    - destruct t; cbn [rt_dom] in Hd; try discriminate. cbn [T2J.json_of].
      eexists; split; [reflexivity|]. unfold rt_ok. cbn [to_json_d jexp_finite is_null json_wf j2t_val encode is_num_ty strict p_num].
      repeat split; try reflexivity; [apply num_okb_fmt_int|]. apply (num_strict_fmt_int TI32 4%nat 32); [reflexivity|exact Hd].
    - (* i64: a number, or a string holding the number under Int642String / String2Int64 *)
      destruct t; cbn [rt_dom] in Hd; try discriminate. cbn [T2J.json_of].
      eexists; split; [reflexivity|]. unfold rt_ok.
      destruct (o_int642string o) eqn:Ei; cbn [to_json_d jexp_finite is_null json_wf j2t_val encode is_num_ty strict p_num andb].
      + rewrite (Hi64 eq_refl), num_okb_fmt_int.
        repeat split; try reflexivity; [apply fmt_int_bytes|]. apply (num_strict_fmt_int TI64 8%nat 64); [reflexivity|exact Hd].
      + repeat split; try reflexivity; [apply num_okb_fmt_int|]. apply (num_strict_fmt_int TI64 8%nat 64); [reflexivity|exact Hd].
    - (* double *)
      destruct t; cbn [rt_dom] in Hd; try discriminate. cbn [T2J.json_of].
      destruct (dbl_rt b Hd) as [Hok Hst].
      eexists; split; [reflexivity|]. unfold rt_ok. cbn [to_json_d jexp_finite is_null json_wf j2t_val encode is_num_ty strict p_num].
      repeat split; try reflexivity; try assumption.
      unfold f64_bits_ok in Hd. apply andb_true_iff in Hd. exact (proj2 Hd).
    - (* string / binary *)
      destruct t; cbn [rt_dom] in Hd; try discriminate.
      + rewrite tdesc_of_string. cbn [T2J.json_of].
        eexists; split; [reflexivity|]. unfold rt_ok. cbn [to_json_d jexp_finite is_null json_wf j2t_val encode].
        repeat split; try reflexivity. exact Hd.
      + rewrite tdesc_of_binary. cbn [T2J.json_of].
        eexists; split; [reflexivity|]. unfold rt_ok. cbn [to_json_d jexp_finite is_null json_wf j2t_val encode].
        rewrite Hnb. destruct (o_nob64 o').
        * repeat split; try reflexivity. exact Hd.
        * pose proof (Forall_jbytes x Hd) as Hb. rewrite (b64_decode_encode x Hb).
          repeat split; try reflexivity. apply b64_encode_jbytes. exact Hb.
    - (* struct *)
      destruct t; cbn [rt_dom] in Hd; try discriminate.
      destruct (nth_error D i) as [sd|] eqn:Hsd; [|discriminate].
      apply andb_true_iff in Hd. destruct Hd as [Hreq Hfs].
      destruct n as [|n']; [cbn [depth] in Hn; lia|].
      rewrite (tdesc_of_struct D n' i sd Hsd). cbn [T2J.json_of].
      rewrite forallb_forall in Hfs. rewrite Forall_forall in IH.
      assert (Hdep : forall f, In f fs -> (depth (snd f) <= n')%nat /\ s + 1 + Z.of_nat (depth (snd f)) - 1 <= max_level).
      { intros f Hf. cbn [depth] in Hn, Hs. pose proof (fold_max_In (fun f => depth (snd f)) fs f Hf) as Hmx. cbn beta in Hmx. lia. }
      match goal with |- context [members_of (map ?g fs)] => set (G := g) end.
      destruct (members_rt tj G (struct_member strict D o' sd s)
                  (fun f => type_of (snd f) :: enc_int 2 (fst f) ++ encode (snd f)) fs) as (ms & Hmem & Hfin & Hwf & Hrc & Hlen).
      { intros f Hf. specialize (Hfs f Hf). destruct (Hdep f Hf) as [Hd1 Hd2].
        destruct (find_id sd (fst f)) as [fd|] eqn:Hfd; [|discriminate].
        apply andb_true_iff in Hfs. destruct Hfs as [Hfs Hcv].
        apply andb_true_iff in Hfs. destruct Hfs as [Hfs Hff].
        apply andb_true_iff in Hfs. destruct Hfs as [Hfs Hvmok].
        apply andb_true_iff in Hfs. destruct Hfs as [_ Hkey].
        destruct (J2T.find_field sd (key1 fd)) as [fd'|] eqn:Hfd'; [|discriminate].
        apply andb_true_iff in Hff. destruct Hff as [Hff Hvm'].
        apply andb_true_iff in Hff. destruct Hff as [Hid Hty].
        apply ty_eqb_eq in Hty. apply Z.eqb_eq in Hid. apply eqb_prop in Hvm'.
        pose proof (find_id_id _ _ _ Hfd) as Hidf.
        assert (HG : forall e, (if o_value_mapping o && f_vm fd then jsconv o (snd f) else T2J.json_of o (tdesc_of D n' (f_ty fd)) (snd f)) = TOk e ->
                               G f = FMem (key1 fd) e).
        { intros e He. unfold G. rewrite find_field_tdesc, Hfd. cbn [option_map fst snd]. rewrite f_jsconv_fmeta_of, He. reflexivity. }
        assert (HH : forall e vb, is_null (tj e) = false ->
                       (if o_value_mapping o && f_vm fd then vm_val strict (f_ty fd) (tj e) else j2t_val strict D o' (f_ty fd) (s + 1) (tj e)) = Ok vb ->
                       struct_member strict D o' sd s (key1 fd, tj e) = Ok (tcode (f_ty fd) :: enc_int 2 (J2T.f_id fd) ++ vb)).
        { intros e vb Hnn Hv. unfold struct_member. cbn [fst snd]. rewrite Hfd', Hty, Hid, Hvm', <- Hvm, Hnn.
          destruct (o_value_mapping o && f_vm fd); rewrite Hv; reflexivity. }
        destruct (o_value_mapping o && f_vm fd) eqn:Hov.
        - apply andb_true_iff in Hov. destruct Hov as [_ Hfv]. rewrite Hfv in Hvmok. cbn [negb orb] in Hvmok.
          destruct (vm_rt (f_ty fd) (snd f) Hvmok Hcv) as (e & Hj & Hfe & Hne & Hwe & Hve).
          exists (key1 fd), e. split; [apply HG; exact Hj|]. repeat split; try assumption.
          rewrite (HH e (encode (snd f)) Hne Hve), (rt_dom_type_of _ _ _ Hcv), Hidf. reflexivity.
        - destruct (IH f Hf (f_ty fd) n' (s + 1) Hcv Hd1 Hd2) as (e & Hj & Hfe & Hne & Hwe & Hve).
          exists (key1 fd), e. split; [apply HG; exact Hj|]. repeat split; try assumption.
          rewrite (HH e (encode (snd f)) Hne Hve), (rt_dom_type_of _ _ _ Hcv), Hidf. reflexivity. }
      unfold tjm in Hrc, Hwf. rewrite Hmem, missing_required_tdesc, Hreq. cbn [negb].
      eexists; split; [reflexivity|]. unfold rt_ok. cbn [to_json_d jexp_finite is_null json_wf encode].
      repeat split; try assumption; try reflexivity.
      rewrite (j2t_val_struct_eq strict D o' i sd s _ Hsd).
      rewrite guard_false.
      + rewrite Hrc. reflexivity.
      + destruct fs as [|f fs']; [left; destruct ms; [reflexivity|discriminate]|right].
        destruct (Hdep f (or_introl eq_refl)) as [_ H2]. pose proof (depth_pos (snd f)). lia.
    - (* map *)
      destruct t; cbn [rt_dom] in Hd; try discriminate.
      apply andb_true_iff in Hd. destruct Hd as [Hd Hes].
      apply andb_true_iff in Hd. destruct Hd as [Hd Hkt].
      apply andb_true_iff in Hd. destruct Hd as [Hk1 Hv1].
      apply Z.eqb_eq in Hk1. apply Z.eqb_eq in Hv1. subst kt vt.
      rewrite tdesc_of_map. cbn [T2J.json_of].
      rewrite forallb_forall in Hes. rewrite Forall_forall in IH.
      assert (Hdep : forall e, In e es -> (depth (snd e) <= n)%nat /\ s + 1 + Z.of_nat (depth (snd e)) - 1 <= max_level).
      { intros e He. cbn [depth] in Hn, Hs.
        pose proof (fold_max_In (fun e => Nat.max (depth (fst e)) (depth (snd e))) es e He) as Hmx. cbn beta in Hmx. lia. }
      destruct (keyed_rt tj (fun e => key_of o (fst e)) (fun e => T2J.json_of o (tdesc_of D n t2) (snd e))
                  (map_entry strict D o' t1 t2 s) (fun e => encode (fst e) ++ encode (snd e)) es)
        as (ms & Hky & Hfin & Hwf & Hrc & Hnn & Hlen).
      { intros e He. specialize (Hes e He). apply andb_true_iff in Hes. destruct Hes as [Hdk Hdv].
        destruct (Hdep e He) as [Hd1 Hd2].
        destruct (key_rt t1 (fst e) Hkt Hdk) as (ktx & Hko & Hkb & Hkbs).
        destruct (proj2 (IH e He) t2 n (s + 1) Hdv Hd1 Hd2) as (ev & Hj & Hfe & Hne & Hwe & Hve).
        exists ktx, ev. repeat split; try assumption.
        unfold map_entry. cbn [fst snd]. rewrite Hkbs. cbn [rbind]. rewrite Hne, Hve. reflexivity. }
      unfold tjm in Hrc, Hwf, Hnn. rewrite Hky.
      eexists; split; [reflexivity|]. unfold rt_ok. cbn [to_json_d jexp_finite is_null json_wf encode].
      repeat split; try assumption; try reflexivity.
      rewrite j2t_val_map_eq. rewrite guard_false.
      + rewrite Hrc. cbn [rbind]. rewrite count_nonnull_nn, Hnn. reflexivity.
      + destruct es as [|e es']; [left; destruct ms; [reflexivity|discriminate]|right].
        destruct (Hdep e (or_introl eq_refl)) as [_ H2]. pose proof (depth_pos (snd e)). lia.
    - (* set *)
      destruct t; cbn [rt_dom] in Hd; try discriminate.
      apply andb_true_iff in Hd. destruct Hd as [Het Hes]. apply Z.eqb_eq in Het. subst et.
      rewrite tdesc_of_set. cbn [T2J.json_of].
      rewrite forallb_forall in Hes. rewrite Forall_forall in IH.
      assert (Hdep : forall e, In e es -> (depth e <= n)%nat /\ s + 1 + Z.of_nat (depth e) - 1 <= max_level).
      { intros e He. cbn [depth] in Hn, Hs. pose proof (fold_max_In depth es e He). lia. }
      destruct (all_ok_rt tj (T2J.json_of o (tdesc_of D n t)) (j2t_val strict D o' t (s + 1)) encode es)
        as (xs & Hao & Hfin & Hwf & Hrc & Hnn & Hlen).
      { intros e He. destruct (Hdep e He) as [Hd1 Hd2].
        destruct (IH e He t n (s + 1) (Hes e He) Hd1 Hd2) as (ev & Hj & Hfe & Hne & Hwe & Hve).
        exists ev. repeat split; assumption. }
      rewrite Hao.
      eexists; split; [reflexivity|]. unfold rt_ok. cbn [to_json_d jexp_finite is_null json_wf encode].
      repeat split; try assumption; try reflexivity.
      rewrite j2t_val_set_eq. rewrite guard_false.
      + rewrite Hrc. cbn [rbind]. rewrite count_nonnull_nn, Hnn. reflexivity.
      + destruct es as [|e es']; [left; destruct xs; [reflexivity|discriminate]|right].
        destruct (Hdep e (or_introl eq_refl)) as [_ H2]. pose proof (depth_pos e). lia.
    - (* list *)
      destruct t; cbn [rt_dom] in Hd; try discriminate.
      apply andb_true_iff in Hd. destruct Hd as [Het Hes]. apply Z.eqb_eq in Het. subst et.
      rewrite tdesc_of_list. cbn [T2J.json_of].
      rewrite forallb_forall in Hes. rewrite Forall_forall in IH.
      assert (Hdep : forall e, In e es -> (depth e <= n)%nat /\ s + 1 + Z.of_nat (depth e) - 1 <= max_level).
      { intros e He. cbn [depth] in Hn, Hs. pose proof (fold_max_In depth es e He). lia. }
      destruct (all_ok_rt tj (T2J.json_of o (tdesc_of D n t)) (j2t_val strict D o' t (s + 1)) encode es)
        as (xs & Hao & Hfin & Hwf & Hrc & Hnn & Hlen).
      { intros e He. destruct (Hdep e He) as [Hd1 Hd2].
        destruct (IH e He t n (s + 1) (Hes e He) Hd1 Hd2) as (ev & Hj & Hfe & Hne & Hwe & Hve).
        exists ev. repeat split; assumption. }
      rewrite Hao.
      eexists; split; [reflexivity|]. unfold rt_ok. cbn [to_json_d jexp_finite is_null json_wf encode].
      repeat split; try assumption; try reflexivity.
      rewrite j2t_val_list_eq. rewrite guard_false.
      + rewrite Hrc. cbn [rbind]. rewrite count_nonnull_nn, Hnn. reflexivity.
      + destruct es as [|e es']; [left; destruct xs; [reflexivity|discriminate]|right].
        destruct (Hdep e (or_introl eq_refl)) as [_ H2]. pose proof (depth_pos e). lia.
  Qed.
End RT.
