(* Decimal integers: parse_int inverts fmt_int; fmt_int produces canonical JSON number lexemes. *)
From Coq Require Import ZArith List Bool Lia.
From DG Require Import Json Num.
Import ListNotations.
Local Open Scope Z_scope.

Lemma is_digit_range : forall c, is_digit c = true <-> 48 <= c <= 57.
Proof. intros c. unfold is_digit. rewrite andb_true_iff, !Z.leb_le. tauto. Qed.

Lemma digits_val_snoc : forall ds d a, digits_val (ds ++ [d]) a = digits_val ds a * 10 + (d - 48).
Proof. intros. unfold digits_val. rewrite fold_left_app. reflexivity. Qed.

Definition is_nil_Z (l : list Z) : bool := match l with [] => true | _ => false end.

(* head digit: "0" alone for zero, a non-zero digit otherwise *)
Definition head_ok (n : Z) (ds : list Z) : bool :=
  match ds with
  | d :: t => if n =? 0 then (d =? 48) && is_nil_Z t else negb (d =? 48)
  | [] => false
  end.

Lemma fmt_nat_aux_spec : forall fuel n acc,
  0 <= n < 2 ^ Z.of_nat (S fuel) ->
  exists ds, fmt_nat_aux (S fuel) n acc = ds ++ acc /\
             forallb is_digit ds = true /\ digits_val ds 0 = n /\ head_ok n ds = true.
Proof.
  induction fuel as [|f IH]; intros n acc Hn.
  - assert (Hn2 : n < 2) by (replace (2 ^ Z.of_nat 1) with 2 in Hn by reflexivity; lia).
    cbn [fmt_nat_aux]. destruct (Z.ltb_spec n 10) as [_|H]; [|lia].
    exists [48 + n]. repeat split.
    + cbn [forallb]. rewrite andb_true_r. apply is_digit_range. lia.
    + unfold digits_val. cbn [fold_left]. lia.
    + unfold head_ok. destruct (Z.eqb_spec n 0) as [->|Hz]; [reflexivity|].
      apply negb_true_iff. apply Z.eqb_neq. lia.
  - cbn [fmt_nat_aux]. destruct (Z.ltb_spec n 10) as [Hlt|Hge].
    + exists [48 + n]. repeat split.
      * cbn [forallb]. rewrite andb_true_r. apply is_digit_range. lia.
      * unfold digits_val. cbn [fold_left]. lia.
      * unfold head_ok. destruct (Z.eqb_spec n 0) as [->|Hz]; [reflexivity|].
        apply negb_true_iff. apply Z.eqb_neq. lia.
    + assert (Hq : 0 <= n / 10 < 2 ^ Z.of_nat (S f)).
      { rewrite Nat2Z.inj_succ, Z.pow_succ_r in Hn by lia.
        split; [apply Z.div_pos; lia|].
        apply Z.div_lt_upper_bound; lia. }
      destruct (IH (n / 10) ((48 + n mod 10) :: acc) Hq) as (ds & He & Hd & Hv & Hh).
      exists (ds ++ [48 + n mod 10]). repeat split.
      * change (fmt_nat_aux (S f) (n / 10) ((48 + n mod 10) :: acc) = (ds ++ [48 + n mod 10]) ++ acc).
        rewrite He, <- app_assoc. reflexivity.
      * rewrite forallb_app, Hd. cbn [forallb andb]. rewrite andb_true_r. apply is_digit_range.
        pose proof (Z.mod_pos_bound n 10). lia.
      * rewrite digits_val_snoc, Hv. pose proof (Z.div_mod n 10). lia.
      * assert (Hq1 : 1 <= n / 10) by (apply Z.div_le_lower_bound; lia).
        unfold head_ok in *. destruct ds as [|d t]; [discriminate|].
        cbn [app]. destruct (Z.eqb_spec (n / 10) 0) as [E|_]; [lia|].
        destruct (Z.eqb_spec n 0) as [E|_]; [lia|]. exact Hh.
Qed.

Lemma fmt_nat_spec : forall n, 0 <= n ->
  forallb is_digit (fmt_nat n) = true /\ digits_val (fmt_nat n) 0 = n /\ head_ok n (fmt_nat n) = true.
Proof.
  intros n Hn. unfold fmt_nat.
  assert (Hb : 0 <= n < 2 ^ Z.of_nat (S (Z.to_nat (Z.log2 n)))).
  { split; [exact Hn|].
    rewrite Nat2Z.inj_succ, Z2Nat.id by apply Z.log2_nonneg.
    destruct (Z.eq_dec n 0) as [->|Hz]; [cbn; lia|].
    apply Z.log2_spec. lia. }
  destruct (fmt_nat_aux_spec _ n [] Hb) as (ds & He & Hd & Hv & Hh).
  rewrite He, app_nil_r. auto.
Qed.

Lemma span_digits_all : forall ds, forallb is_digit ds = true -> span_digits ds = (ds, []).
Proof.
  induction ds as [|d t IH]; intros H; [reflexivity|].
  cbn in H. apply andb_true_iff in H. destruct H as [Hd Ht].
  cbn. rewrite Hd, (IH Ht). reflexivity.
Qed.

Lemma parse_int_digits : forall ds, forallb is_digit ds = true -> ds <> [] -> parse_int ds = Some (digits_val ds 0).
Proof.
  intros ds Hd Hne. unfold parse_int.
  destruct ds as [|d t]; [contradiction|].
  assert (Hd0 : is_digit d = true) by (cbn in Hd; apply andb_true_iff in Hd; tauto).
  apply is_digit_range in Hd0.
  destruct (Z.eqb_spec d 45) as [E|_]; [lia|].
  rewrite (span_digits_all _ Hd). reflexivity.
Qed.

Theorem parse_int_fmt_int : forall z, parse_int (fmt_int z) = Some z.
Proof.
  intros z. unfold fmt_int. destruct (Z.ltb_spec z 0) as [Hneg|Hpos].
  - destruct (fmt_nat_spec (- z)) as (Hd & Hv & Hh); [lia|].
    unfold parse_int. rewrite Z.eqb_refl.
    rewrite (span_digits_all _ Hd).
    destruct (fmt_nat (- z)) as [|d t] eqn:E; [discriminate Hh|].
    rewrite Hv. f_equal. lia.
  - destruct (fmt_nat_spec z Hpos) as (Hd & Hv & Hh).
    rewrite parse_int_digits; [rewrite Hv; reflexivity | exact Hd |].
    intros E. rewrite E in Hh. discriminate Hh.
Qed.

Corollary fmt_int_inj : forall a b, fmt_int a = fmt_int b -> a = b.
Proof.
  intros a b H. pose proof (parse_int_fmt_int a) as Ha. rewrite H, parse_int_fmt_int in Ha. congruence.
Qed.

(* ---- fmt_int yields JSON number lexemes ---- *)
Lemma scan_digits_int : forall ds, forallb is_digit ds = true -> scan_num NInt ds = Some (ds, []).
Proof.
  induction ds as [|d t IH]; intros H; [reflexivity|].
  cbn in H. apply andb_true_iff in H. destruct H as [Hd Ht].
  cbn [scan_num num_step]. rewrite Hd, (IH Ht). reflexivity.
Qed.

Lemma scan_nat_from : forall st n, 0 <= n -> (st = N0 \/ st = NMinus) ->
  scan_num st (fmt_nat n) = Some (fmt_nat n, []).
Proof.
  intros st n Hn Hst. destruct (fmt_nat_spec n Hn) as (Hd & _ & Hh).
  destruct (fmt_nat n) as [|d t]; [discriminate Hh|].
  cbn in Hd. apply andb_true_iff in Hd. destruct Hd as [Hd Ht].
  pose proof (proj1 (is_digit_range d) Hd) as Hr.
  unfold head_ok in Hh.
  assert (Hstep : num_step st d = Some (if d =? 48 then NZero else NInt)).
  { destruct Hst as [-> | ->]; cbn [num_step].
    - destruct (Z.eqb_spec d 45) as [E|_]; [lia|]. destruct (d =? 48); [reflexivity|]. rewrite Hd. reflexivity.
    - destruct (d =? 48); [reflexivity|]. rewrite Hd. reflexivity. }
  cbn [scan_num]. rewrite Hstep.
  destruct (Z.eqb_spec d 48) as [E|Ne].
  - destruct (n =? 0); [|discriminate Hh]. cbn in Hh. destruct t; [reflexivity|discriminate Hh].
  - rewrite (scan_digits_int _ Ht). reflexivity.
Qed.

Theorem num_okb_fmt_int : forall z, num_okb (fmt_int z) = true.
Proof.
  intros z. unfold num_okb, fmt_int. destruct (Z.ltb_spec z 0) as [Hneg|Hpos].
  - cbn [scan_num num_step]. rewrite Z.eqb_refl.
    rewrite (scan_nat_from NMinus (- z)); [reflexivity | lia | auto].
  - rewrite (scan_nat_from N0 z); [reflexivity | lia | auto].
Qed.

(* fmt_int emits only '-' and digits *)
Lemma fmt_int_plain : forall z, lex_is_plain_int (fmt_int z) = true.
Proof.
  intros z. unfold lex_is_plain_int. rewrite num_okb_fmt_int. cbn [andb].
  unfold fmt_int. destruct (Z.ltb_spec z 0) as [Hneg|Hpos].
  - destruct (fmt_nat_spec (- z)) as (Hd & _ & _); [lia|].
    cbn. rewrite forallb_forall in *. intros c Hc. rewrite (Hd c Hc). reflexivity.
  - destruct (fmt_nat_spec z Hpos) as (Hd & _ & _).
    rewrite forallb_forall in *. intros c Hc. rewrite (Hd c Hc). reflexivity.
Qed.
