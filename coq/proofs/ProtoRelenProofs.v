(* C10: the length re-patching walk of proto/generic updateByteLen is correct for every nesting
   depth and every size (model/ProtoRelen.v). *)
From Coq Require Import ZArith List Bool Arith Lia.
From DG Require Import ProtoWireRef ProtoWireRefProofs ProtoRelen.
Import ListNotations.
Local Open Scope Z_scope.

Lemma firstn_app_len {A} (l r : list A) : firstn (length l) (l ++ r) = l.
Proof. rewrite firstn_app, Nat.sub_diag, firstn_all. cbn. apply app_nil_r. Qed.
Lemma skipn_app_len {A} (l r : list A) : skipn (length l) (l ++ r) = r.
Proof. rewrite skipn_app, Nat.sub_diag, skipn_all. reflexivity. Qed.
Lemma firstn_app_plus {A} (a b r : list A) : firstn (length a + length b) (a ++ b ++ r) = a ++ b.
Proof. rewrite app_assoc, <- app_length. apply firstn_app_len. Qed.
Lemma skipn_app_plus {A} (a b r : list A) : skipn (length a + length b) (a ++ b ++ r) = r.
Proof. rewrite app_assoc, <- app_length. apply skipn_app_len. Qed.
Lemma blen_app {A} (a b : list A) : blen (a ++ b) = blen a + blen b.
Proof. unfold blen. rewrite app_length. lia. Qed.
Lemma blen_nonneg {A} (a : list A) : 0 <= blen a.
Proof. unfold blen. lia. Qed.
Lemma blen_nil_iff {A} (a : list A) : blen a = 0 <-> a = [].
Proof. unfold blen. destruct a; cbn; split; intros; try reflexivity; try discriminate; lia. Qed.

Lemma varint_enc_len_pos v : 1 <= blen (varint_enc v) <= 10.
Proof. unfold blen, varint_enc. pose proof (venc_length_bounds 9 v). lia. Qed.

(* ---------------------------------------------------------------- one step, local statement *)
Definition fieldR (tag body : list Z) : list Z :=
  match body with [] => [] | _ => tag ++ varint_enc (blen body) ++ body end.

(* A ++ tag ++ varint L ++ body' ++ B, with |body'| = L + diff: the step rewrites exactly the length
   (or removes tag+length when the body became empty) and reports the width change *)
Lemma relen_step_local A B t L body' diff :
  0 <= t < 2 ^ 64 -> 0 <= L < 2 ^ 64 -> blen body' = L + diff -> blen body' < 2 ^ 64 ->
  exists ip,
  relen_step (A ++ varint_enc t ++ varint_enc L ++ body' ++ B) diff (length A)
  = (A ++ fieldR (varint_enc t) body' ++ B,
     diff + (blen (fieldR (varint_enc t) body') - (blen (varint_enc t) + blen (varint_enc L) + blen body')), ip).
Proof.
  intros Ht HL Hb Hb2. set (tag := varint_enc t). unfold relen_step.
  rewrite skipn_app_len.
  unfold tag at 1. rewrite varint_dec_enc by exact Ht. fold tag.
  rewrite Nat2Z.id, skipn_app_len.
  rewrite varint_dec_enc by exact HL. rewrite Nat2Z.id.
  fold (blen tag). fold (blen (varint_enc L)).
  rewrite <- Hb.
  pose proof (varint_enc_len_pos L) as HvL.
  assert (Hsk : skipn (length A + length tag + length (varint_enc L)) (A ++ tag ++ varint_enc L ++ body' ++ B) = body' ++ B).
  { replace (length A + length tag + length (varint_enc L))%nat
      with (length A + (length tag + length (varint_enc L)))%nat by lia.
    rewrite skipn_app. rewrite (skipn_all2 A) by lia. cbn [app].
    replace (length A + (length tag + length (varint_enc L)) - length A)%nat
      with (length tag + length (varint_enc L))%nat by lia.
    apply skipn_app_plus. }
  destruct (Z.eqb_spec (blen body') 0) as [E0|E0].
  - (* the payload became empty: tag and length are removed *)
    apply blen_nil_iff in E0. subst body'. change (blen (@nil Z)) with 0 in *.
    destruct (Z.eqb_spec (0 - blen (varint_enc L)) 0) as [E|E]; [lia|].
    exists false. rewrite Hsk, firstn_app_len. cbn [fieldR app]. change (blen (@nil Z)) with 0.
    f_equal. f_equal. lia.
  - assert (Hbody : fieldR tag body' = tag ++ varint_enc (blen body') ++ body').
    { destruct body'; [exfalso; apply E0; reflexivity|reflexivity]. }
    rewrite Hbody. pose proof (blen_nonneg body') as Hnn.
    rewrite Z.mod_small by lia.
    pose proof (varint_enc_len_pos (blen body')) as HvN.
    destruct (Z.eqb_spec (blen (varint_enc (blen body')) - blen (varint_enc L)) 0) as [E|E].
    + (* same width: in place *)
      exists true. unfold overwrite.
      assert (Hlen : length (varint_enc (blen body')) = length (varint_enc L)) by (apply Nat2Z.inj; change (blen (varint_enc (blen body')) = blen (varint_enc L)); lia).
      rewrite Hlen.
      replace (length A + length tag + length (varint_enc L))%nat
        with (length A + length tag + length (varint_enc L))%nat by lia.
      rewrite Hsk.
      replace (length A + length tag)%nat with (length (A ++ tag)) by (rewrite app_length; lia).
      rewrite (app_assoc A tag), firstn_app_len. rewrite <- !app_assoc.
      f_equal. f_equal. rewrite !blen_app. lia.
    + exists false. rewrite Hsk.
      replace (length A + length tag)%nat with (length (A ++ tag)) by (rewrite app_length; lia).
      rewrite (app_assoc A tag), firstn_app_len. rewrite <- !app_assoc.
      f_equal. f_equal. rewrite !blen_app. lia.
Qed.

(* ---------------------------------------------------------------- the whole chain *)
Lemma wrapS_decomp fr : forall xo xn, wrapS fr xo xn = ctxA fr xo ++ xn ++ ctxB fr xo.
Proof.
  induction fr as [|f outer IH]; intros xo xn; cbn [wrapS ctxA ctxB].
  - rewrite app_nil_r. reflexivity.
  - rewrite IH. unfold encS1, fr_body. rewrite <- !app_assoc. reflexivity.
Qed.

Lemma wrapE_wrapS fr : forall x, wrapE fr x = wrapS fr x x.
Proof. induction fr as [|f outer IH]; intros x; cbn [wrapE wrapS]; [reflexivity|]. rewrite IH. reflexivity. Qed.

Lemma encR1_fieldR f x : encR1 f x = fieldR (fr_tag f) (fr_body f x).
Proof. unfold encR1, fieldR, encE1. destruct (fr_body f x); reflexivity. Qed.

Lemma fold_relen_pair (b : list Z) (d : Z) addrs :
  fold_left (fun st a => let '(b', d', _) := relen_step (fst st) (snd st) a in (b', d')) addrs (b, d)
  = relen b d addrs.
Proof. reflexivity. Qed.

(* For every chain of enclosing length-delimited fields (inside-out), every old and new content of the
   innermost hole, and any bytes R1 / R2 around the outermost field: running the re-patching step at
   every address of the chain turns the buffer with stale lengths into the exact re-encoding, and the
   reported difference is the total size change. *)
Theorem relen_chain fr : forall xo xn R1 R2,
  frames_ok fr xo xn ->
  relen (R1 ++ wrapS fr xo xn ++ R2) (blen xn - blen xo)
        (map (fun a => (length R1 + a)%nat) (frame_addrs fr xo))
  = (R1 ++ wrapR fr xn ++ R2, blen (wrapR fr xn) - blen (wrapE fr xo)).
Proof.
  induction fr as [|f outer IH]; intros xo xn R1 R2 Hok.
  - cbn. reflexivity.
  - cbn [frames_ok] in Hok. destruct Hok as ((t & Ht & Htag) & HLo & HLn & Hok).
    cbn [wrapS frame_addrs map wrapR wrapE].
    set (yo := encE1 f xo).
    rewrite wrapS_decomp. unfold relen. cbn [fold_left fst snd].
    unfold encS1. rewrite Htag.
    assert (Hstep := relen_step_local (R1 ++ ctxA outer yo) (ctxB outer yo ++ R2) t
                       (blen (fr_body f xo)) (fr_body f xn) (blen xn - blen xo) Ht).
    destruct Hstep as (ip & Hstep).
    + split; [apply blen_nonneg|exact HLo].
    + unfold fr_body. rewrite !blen_app. lia.
    + exact HLn.
    + rewrite app_length in Hstep. rewrite <- !app_assoc in Hstep. rewrite <- !app_assoc.
      rewrite Hstep.
      rewrite fold_relen_pair.
      rewrite <- Htag, <- encR1_fieldR.
      specialize (IH yo (encR1 f xn) R1 R2 Hok).
      rewrite wrapS_decomp in IH. rewrite <- !app_assoc in IH.
      assert (Hd : blen xn - blen xo + (blen (encR1 f xn) - (blen (fr_tag f) + blen (varint_enc (blen (fr_body f xo))) + blen (fr_body f xn)))
                   = blen (encR1 f xn) - blen yo).
      { unfold yo, encE1. rewrite !blen_app. unfold fr_body. rewrite !blen_app. lia. }
      rewrite Hd. exact IH.
Qed.

Lemma wrapR_nonempty fr : forall x, frames_nonempty fr x -> wrapR fr x = wrapE fr x.
Proof.
  induction fr as [|f outer IH]; intros x H; cbn [wrapR wrapE]; [reflexivity|].
  cbn [frames_nonempty] in H. destruct H as [Hne H].
  assert (E : encR1 f x = encE1 f x) by (unfold encR1; destruct (fr_body f x); [congruence|reflexivity]).
  rewrite E. apply IH. exact H.
Qed.

(* the form used by the property: buffer = exact encoding around the old content, the span of the old
   content is replaced (Node.replace), then the chain is re-patched *)
Theorem relen_correct fr xo xn R1 R2 :
  frames_ok fr xo xn ->
  let b := R1 ++ wrapE fr xo ++ R2 in
  let s := (length R1 + length (ctxA fr xo))%nat in
  let b1 := splice b s (s + length xo) xn in
  relen b1 (blen b1 - blen b) (map (fun a => (length R1 + a)%nat) (frame_addrs fr xo))
  = (R1 ++ wrapR fr xn ++ R2, blen (wrapR fr xn) - blen (wrapE fr xo)).
Proof.
  intros Hok b s b1.
  assert (Hb1 : b1 = R1 ++ wrapS fr xo xn ++ R2).
  { unfold b1, splice, b, s. rewrite wrapE_wrapS, !wrapS_decomp. rewrite <- !app_assoc.
    rewrite <- app_length. rewrite (app_assoc R1 (ctxA fr xo)), firstn_app_len.
    rewrite <- app_length. rewrite (app_assoc (R1 ++ ctxA fr xo) xo), skipn_app_len.
    rewrite <- !app_assoc. reflexivity. }
  assert (Hd : blen b1 - blen b = blen xn - blen xo).
  { rewrite Hb1. unfold b. rewrite wrapE_wrapS, !wrapS_decomp, !blen_app. lia. }
  rewrite Hd, Hb1. apply relen_chain. exact Hok.
Qed.

Corollary relen_correct_nonempty fr xo xn R1 R2 :
  frames_ok fr xo xn -> frames_nonempty fr xn ->
  let b := R1 ++ wrapE fr xo ++ R2 in
  let s := (length R1 + length (ctxA fr xo))%nat in
  let b1 := splice b s (s + length xo) xn in
  fst (relen b1 (blen b1 - blen b) (map (fun a => (length R1 + a)%nat) (frame_addrs fr xo)))
  = R1 ++ wrapE fr xn ++ R2.
Proof.
  intros Hok Hne b s b1. unfold b1, s, b. rewrite relen_correct by exact Hok. cbn [fst].
  rewrite wrapR_nonempty by exact Hne. reflexivity.
Qed.
