(* Theorems about the as-coded model of proto/binary WriteAnyWithDesc / ReadAnyWithDesc (model/ProtoAny.v):
     write_any_refines_encode   the writer, on the Go value of a well-formed typed message (fields and map entries in
                                ANY order: the order of the lists), emits exactly ProtoMsg.encode_msg of that message;
     read_any_refines_decode    the reader, on encode_msg m, answers the Go value of m (maps as association lists in
                                wire order) and consumes everything;
     read_write_any             read (write v) = v for every conforming Go value (corollary);
     error side: a Go value of the wrong dynamic type makes the scalar writer answer an error and write nothing.
   Everything is stated against the PROVED typed codec of ProtoMsg.v (decode_top (encode_msg m) = Some m). *)
From Coq Require Import ZArith List Bool Lia Arith.
From DG Require Import CaseFormat ProtoWireRef ProtoWireRefProofs GoSem ProtoMsg ProtoMsgProofs ProtoSpecLen
  ProtoSpecLenProofs ProtoAny.
Import ListNotations.
Local Open Scope Z_scope.

(* ------------------------------------------------------------------ small facts *)
Lemma append_tag_ok n wt b : 1 <= n <= MAX_FIELD_NUMBER -> 0 <= wt < 8 ->
  append_tag n wt b = (b ++ varint_enc (n * 8 + wt), 0).
Proof.
  intros Hn Hw. unfold append_tag.
  destruct (Z.gtb_spec n MAX_FIELD_NUMBER); [lia|]. destruct (Z.ltb_spec n 1); [lia|].
  cbn [orb]. rewrite Z.mod_small by lia. reflexivity.
Qed.

Lemma plen_lt_nat {A} (l : list A) : plen l < 2 ^ 31 -> (length l < 2 ^ 31)%nat.
Proof.
  unfold plen. intros H. apply Nat2Z.inj_lt. rewrite Nat2Z.inj_pow. exact H.
Qed.

Lemma finish_ok junk b payload : (9 <= length junk)%nat -> plen payload < 2 ^ 31 ->
  finish_spec ((b ++ [0]) ++ payload) junk (length b) = b ++ varint_enc (plen payload) ++ payload.
Proof.
  intros Hj Hp. rewrite <- app_assoc. apply finish_spec_correct; [apply plen_lt_nat; exact Hp|exact Hj].
Qed.

Lemma kind2wire_numeric k : is_numeric k = true -> kind2wire k = wt_of_kind k.
Proof.
  intros H. apply is_numeric_cases in H. cbn [In] in H.
  repeat (destruct H as [<-|H]; [reflexivity|]). contradiction.
Qed.

Lemma wt_of_kind_range k : is_numeric k = true -> 0 <= wt_of_kind k < 8.
Proof.
  intros H. apply is_numeric_cases in H. cbn [In] in H.
  repeat (destruct H as [<-|H]; [cbn; lia|]). contradiction.
Qed.

Lemma to_s32_mod32_any v : to_s 32 v mod 4294967296 = v mod 4294967296.
Proof. unfold to_s. change (2 ^ (32 - 1)) with 2147483648. change (2 ^ 32) with 4294967296. Z.div_mod_to_equations. lia. Qed.
Lemma to_s64_mod64_any v : to_s 64 v mod 18446744073709551616 = v mod 18446744073709551616.
Proof. unfold to_s. change (2 ^ (64 - 1)) with 9223372036854775808. change (2 ^ 64) with 18446744073709551616. Z.div_mod_to_equations. lia. Qed.

(* ------------------------------------------------------------------ scalars: writer *)
Lemma write_scalar_enc cast k x b : is_numeric k = true -> scalar_okb k x = true ->
  write_scalar cast k b (g_scalar k x) = (b ++ wenc_val (scalar_to_wire k x), 0).
Proof.
  intros Hn Hok. apply is_numeric_cases in Hn. cbn [In] in Hn.
  repeat (destruct Hn as [<-|Hn]); try contradiction;
  unfold scalar_okb in Hok; cbn [Z.eqb Pos.eqb orb] in Hok;
  unfold write_scalar, g_scalar, scalar_to_wire, wt_of_kind;
  cbn [Z.eqb Pos.eqb orb andb wenc_val get_int as_goint with_val GT_I32 GT_I64 GT_U32 GT_U64 GT_ENUM];
  change (2 ^ 64) with 18446744073709551616 in *; change (2 ^ 32) with 4294967296 in *.
  - (* double *) kill_bounds Hok. rewrite Z.mod_small by lia. reflexivity.
  - (* float *) kill_bounds Hok. rewrite Z.mod_small by lia. reflexivity.
  - reflexivity.
  - (* uint64 *) kill_bounds Hok. rewrite Z.mod_small by lia. reflexivity.
  - reflexivity.
  - (* fixed64 *) rewrite to_s64_mod64_any. reflexivity.
  - (* fixed32 *) rewrite to_s32_mod32_any. reflexivity.
  - (* bool *) apply orb_true_iff in Hok. destruct Hok as [E|E]; apply Z.eqb_eq in E; subst x; reflexivity.
  - (* uint32 *) kill_bounds Hok. rewrite Z.mod_small by lia. reflexivity.
  - reflexivity.
  - reflexivity.
  - reflexivity.
  - reflexivity.
  - reflexivity.
Qed.

Lemma write_bytes_enc cast k s b : is_byteskind k = true -> negb (k =? 9) || utf8_valid s = true ->
  write_scalar cast k b (if k =? 9 then GStr s else GBytes s) = (b ++ wenc_val (WBytes s), 0).
Proof.
  unfold is_byteskind. intros Hk Hu. apply orb_true_iff in Hk. destruct Hk as [E|E]; apply Z.eqb_eq in E; subst k.
  - cbn [Z.eqb Pos.eqb negb orb] in Hu. unfold write_scalar. cbn [Z.eqb Pos.eqb orb with_val]. unfold str_bytes. rewrite Hu. reflexivity.
  - reflexivity.
Qed.

(* error side: without cast, a Go value of another dynamic type than the kind asks for is refused and nothing is written *)
Definition gotype_of_kind (k : Z) : Z :=
  if (k =? 5) || (k =? 15) || (k =? 17) || (k =? 7) then GT_I32
  else if (k =? 3) || (k =? 16) || (k =? 18) || (k =? 6) then GT_I64
  else if k =? 13 then GT_U32 else if k =? 4 then GT_U64 else if k =? 14 then GT_ENUM else 0.

Lemma write_scalar_mismatch k ty z b :
  In k [3; 4; 5; 6; 7; 13; 14; 15; 16; 17; 18] -> ty <> gotype_of_kind k ->
  write_scalar false k b (GInt ty z) = (b, 1).
Proof.
  intros Hk Hty. cbn [In] in Hk.
  repeat (destruct Hk as [<-|Hk]); try contradiction;
  unfold gotype_of_kind in Hty; cbn [Z.eqb Pos.eqb orb] in Hty;
  unfold write_scalar, get_int, as_goint; cbn [Z.eqb Pos.eqb orb];
  match goal with |- context [ty =? ?c] => destruct (Z.eqb_spec ty c); [contradiction|reflexivity] end.
Qed.

Lemma write_scalar_mismatch_other k g b :
  In k [1; 2; 3; 4; 5; 6; 7; 8; 9; 12; 13; 14; 15; 16; 17; 18] ->
  match g with GNil | GList _ | GMapS _ | GMapI _ | GMapA _ | GMsgN _ => True | _ => False end ->
  snd (write_scalar false k b g) = 1 /\ fst (write_scalar false k b g) = b.
Proof.
  intros Hk Hg. cbn [In] in Hk.
  repeat (destruct Hk as [<-|Hk]); try contradiction; destruct g; try contradiction; split; reflexivity.
Qed.

(* ------------------------------------------------------------------ the wire type of a singular value is the one the descriptor gives *)
Lemma sval_wt S t v : wf_fld S LSingular t v = true ->
  wt_of_wval (sval v) = kind2wire (kind_of_type t) /\ 0 <= kind2wire (kind_of_type t) < 8.
Proof.
  destruct v as [k x|k s|fs| |]; cbn [wf_fld]; intros H; try discriminate.
  - destruct t as [k'|]; [|discriminate].
    apply andb_true_iff in H as [H Hok]. apply andb_true_iff in H as [Hk Hn]. apply Z.eqb_eq in Hk. subst k'.
    cbn [sval kind_of_type]. rewrite (kind2wire_numeric _ Hn). split; [apply (scalar_rt k x Hn Hok)|apply wt_of_kind_range; exact Hn].
  - destruct t as [k'|]; [|discriminate].
    apply andb_true_iff in H as [H _]. apply andb_true_iff in H as [Hk Hb]. apply Z.eqb_eq in Hk. subst k'.
    cbn [sval kind_of_type wt_of_wval]. unfold is_byteskind in Hb. apply orb_true_iff in Hb.
    destruct Hb as [E|E]; apply Z.eqb_eq in E; subst k; cbn; lia.
  - destruct t as [|name]; [discriminate|]. cbn. lia.
Qed.

Lemma find_field_num md n fd : find_field md n = Some fd -> fd_num fd = n.
Proof. unfold find_field. intros H. apply find_some in H. destruct H as [_ H]. apply Z.eqb_eq in H. exact H. Qed.

Lemma depth_elem_le (vs : list pval) x : In x vs -> (depth x <= fold_right (fun y m => Nat.max (depth y) m) O vs)%nat.
Proof. intros H. apply (fold_max_ge depth vs x H). Qed.

Lemma flat_map_ext_in' {A B} (f g : A -> list B) l : (forall a, In a l -> f a = g a) -> flat_map f l = flat_map g l.
Proof.
  induction l as [|x l IH]; intros H; [reflexivity|]. cbn [flat_map].
  rewrite (H x (or_introl eq_refl)), IH; [reflexivity|]. intros a Ha. apply H. right. exact Ha.
Qed.

Lemma wbind_assoc r k1 k2 : wbind r (fun b => wbind (k1 b) k2) = wbind (wbind r k1) k2.
Proof. unfold wbind. destruct (snd r =? 0) eqn:E; [reflexivity|]. rewrite E. reflexivity. Qed.

Lemma if_match_bn (bn : bool) {X} (A : list (list Z * gval)) (B : list (Z * gval))
  (F : list (list Z * gval) -> X) (G : list (Z * gval) -> X) (d : X) :
  (if bn then match (if bn then GMapS A else GMsgN B) with GMapS l => F l | _ => d end
   else match (if bn then GMapS A else GMsgN B) with GMsgN l => G l | _ => d end)
  = if bn then F A else G B.
Proof. destruct bn; reflexivity. Qed.
Lemma if_both (bn : bool) {X} (x y r : X) : (bn = true -> x = r) -> (bn = false -> y = r) -> (if bn then x else y) = r.
Proof. destruct bn; auto. Qed.

(* ------------------------------------------------------------------ writer refines the canonical encoder *)
Section WriterRefines.
  Variable S : schema.
  Variables cast disallow byname : bool.
  Variable junk : list Z.
  Hypothesis Hjunk : (9 <= length junk)%nat.

  Let gv := gval_of S byname false.

  (* what the recursive call (WriteBaseTypeWithDesc with NeedMessageLen) must do on values nested less than f deep *)
  Definition rec_ok (rec : ftype -> bool -> list Z -> gval -> wst) (f : nat) : Prop :=
    forall t v b, wf_fld S LSingular t v = true -> strs_ok v = true -> sizes_ok v = true -> (depth v < f)%nat ->
      rec t true b (gv t v) = (b ++ wenc_val (sval v), 0).

  Section Loops.
    Variable rec : ftype -> bool -> list Z -> gval -> wst.
    Variable f : nat.
    Hypothesis Hrec : rec_ok rec f.

    Definition elem_ok (t : ftype) (v : pval) : Prop :=
      wf_fld S LSingular t v = true /\ strs_ok v = true /\ sizes_ok v = true /\ (depth v < f)%nat.

    Lemma write_elems_ok t vs : Forall (elem_ok t) vs -> forall b,
      write_elems rec t b (map (gv t) vs) = (b ++ flat_map (fun v => wenc_val (sval v)) vs, 0).
    Proof.
      induction 1 as [|v vs [Hw [Hs [Hz Hd]]] _ IH]; intros b; cbn [map write_elems flat_map].
      - rewrite app_nil_r. reflexivity.
      - rewrite (Hrec t v b Hw Hs Hz Hd). unfold wbind. cbn [fst snd Z.eqb]. rewrite IH, <- app_assoc. reflexivity.
    Qed.

    Lemma write_elems_tagged_ok n t vs : 1 <= n <= MAX_FIELD_NUMBER -> Forall (elem_ok t) vs -> forall b,
      write_elems_tagged true rec n t b (map (gv t) vs) = (b ++ wenc (map (pair n) (map sval vs)), 0).
    Proof.
      intros Hn. induction 1 as [|v vs [Hw [Hs [Hz Hd]]] _ IH]; intros b; cbn [map write_elems_tagged].
      - cbn. rewrite app_nil_r. reflexivity.
      - destruct (sval_wt S t v Hw) as [Hwt Hr].
        rewrite append_tag_ok by assumption. unfold wbind at 1. cbn [fst snd Z.eqb].
        rewrite (Hrec t v _ Hw Hs Hz Hd). unfold wbind. cbn [fst snd Z.eqb]. rewrite IH.
        rewrite wenc_cons. unfold wenc_field. cbn [fst snd]. rewrite Hwt. rewrite <- !app_assoc. reflexivity.
    Qed.

    Lemma packed_elem_sval t v : wf_fld S LSingular t v = true -> type_numeric t = true -> packed_elem v = wenc_val (sval v).
    Proof.
      destruct t as [k|]; [|discriminate]. cbn [type_numeric]. intros Hw Hn.
      destruct v as [k' x|k' s| | |]; cbn [wf_fld] in Hw; try discriminate.
      - reflexivity.
      - apply andb_true_iff in Hw as [Hw _]. apply andb_true_iff in Hw as [Hk Hb]. apply Z.eqb_eq in Hk. subst k'.
        rewrite (numeric_not_bytes _ Hn) in Hb. discriminate.
    Qed.

    Lemma Forall_elem_ok t vs :
      forallb (fun x => wf_fld S LSingular t x) vs = true -> forallb strs_ok vs = true -> forallb sizes_ok vs = true ->
      (fold_right (fun y m => Nat.max (depth y) m) O vs < f)%nat -> Forall (elem_ok t) vs.
    Proof.
      intros Hw Hs Hz Hd. apply Forall_forall. intros x Hx.
      rewrite forallb_forall in Hw, Hs, Hz. repeat split; auto.
      pose proof (depth_elem_le vs x Hx). lia.
    Qed.

    Lemma write_list_ok n p t v b :
      1 <= n <= MAX_FIELD_NUMBER -> wf_fld S (LRepeated p) t v = true -> strs_ok v = true -> sizes_ok v = true ->
      (depth v < f)%nat ->
      write_list junk true rec n p t b (gv t v) = (b ++ wenc (wfld n v), 0).
    Proof.
      intros Hn Hw Hs Hz Hd.
      destruct (wfld_fvals S _ t v n Hw) as [Ew _]. rewrite Ew.
      destruct v as [| | |q vs|]; cbn [wf_fld] in Hw; try discriminate.
      apply andb_true_iff in Hw as [Hw Hall]. apply andb_true_iff in Hw as [Hw Hlen]. apply andb_true_iff in Hw as [Hq Hne].
      apply eqb_prop in Hq. cbn [strs_ok] in Hs. cbn [sizes_ok] in Hz. apply andb_true_iff in Hz as [Hz1 Hz].
      cbn [depth] in Hd. pose proof (Forall_elem_ok t vs Hall Hs Hz Hd) as Hel.
      unfold gv. cbn [gval_of]. fold gv. unfold write_list.
      assert (Hnn : negb (is_nil (map (gv t) vs)) = true) by (destruct vs; [discriminate|reflexivity]).
      rewrite Hnn, andb_true_r. rewrite <- Hq. destruct q; cbn [fvals].
      - (* packed *)
        symmetry in Hq. apply andb_true_iff in Hq as [_ Hnum].
        rewrite append_tag_ok by lia. cbn [fst].
        rewrite write_elems_ok by exact Hel. cbn [fst snd Z.eqb].
        assert (Epay : flat_map (fun v => wenc_val (sval v)) vs = flat_map packed_elem vs).
        { apply flat_map_ext_in'. intros a Ha. rewrite Forall_forall in Hel. destruct (Hel a Ha) as [Hwa _].
          symmetry. apply (packed_elem_sval t a Hwa Hnum). }
        rewrite Epay. cbn [negb orb] in Hz1. apply Z.ltb_lt in Hz1.
        rewrite finish_ok by assumption.
        cbn [map]. rewrite wenc_cons. unfold wenc_field. cbn [fst snd wt_of_wval wenc_val wenc flat_map].
        rewrite <- !app_assoc, app_nil_r. reflexivity.
      - apply write_elems_tagged_ok; assumption.
    Qed.

    (* map keys *)
    Lemma write_key_ok kk k b : key_okb kk k = true -> (match k with KStr s => utf8_valid s | KInt _ _ => true end) = true ->
      (0 < f)%nat ->
      rec (TScalar kk) true b (g_key k) = (b ++ wenc_val (snd (key_field k)), 0) /\
      wt_of_wval (snd (key_field k)) = kind2wire kk /\ 0 <= kind2wire kk < 8.
    Proof.
      intros Hk Hu Hf. destruct k as [k' x|s]; cbn [key_okb] in Hk.
      - apply andb_true_iff in Hk as [Hk Hok]. apply andb_true_iff in Hk as [Ek Hn]. apply Z.eqb_eq in Ek. subst k'.
        assert (Hw : wf_fld S LSingular (TScalar kk) (VScalar kk x) = true).
        { cbn [wf_fld]. rewrite Z.eqb_refl, Hn, Hok. reflexivity. }
        split; [exact (Hrec (TScalar kk) (VScalar kk x) b Hw eq_refl eq_refl Hf)|].
        exact (sval_wt S (TScalar kk) (VScalar kk x) Hw).
      - apply andb_true_iff in Hk as [Ek Hlen]. apply Z.eqb_eq in Ek. subst kk.
        assert (Hw : wf_fld S LSingular (TScalar 9) (VBytes 9 s) = true).
        { cbn [wf_fld]. rewrite Hlen. reflexivity. }
        split; [|exact (sval_wt S (TScalar 9) (VBytes 9 s) Hw)].
        assert (Hs : strs_ok (VBytes 9 s) = true) by (cbn; exact Hu).
        exact (Hrec (TScalar 9) (VBytes 9 s) b Hw Hs eq_refl Hf).
    Qed.

    Definition entry_ok (kk : Z) (t : ftype) (kx : mkey * pval) : Prop :=
      key_okb kk (fst kx) = true /\ (match fst kx with KStr s => utf8_valid s | KInt _ _ => true end) = true /\
      plen (wenc [key_field (fst kx); (2, sval (snd kx))]) < 2 ^ 31 /\ elem_ok t (snd kx).

    Lemma write_entries_ok n kk t kvs : 1 <= n <= MAX_FIELD_NUMBER -> Forall (entry_ok kk t) kvs -> forall b,
      write_entries junk rec n kk t (fun k b' => rec (TScalar kk) true b' k) b
                    (map (fun kx => (g_key (fst kx), gv t (snd kx))) kvs)
      = (b ++ wenc (map (pair n) (map entry_wval kvs)), 0).
    Proof.
      intros Hn. induction 1 as [|[k x] kvs [Hk [Hu [Hlen [Hw [Hs [Hz Hd]]]]]] _ IH]; intros b; cbn [map write_entries fst snd].
      - cbn. rewrite app_nil_r. reflexivity.
      - cbn [fst snd] in *. unfold write_entry.
        assert (H1 : 1 <= 1 <= MAX_FIELD_NUMBER) by (unfold MAX_FIELD_NUMBER; lia).
        assert (H2 : 1 <= 2 <= MAX_FIELD_NUMBER) by (unfold MAX_FIELD_NUMBER; lia).
        rewrite (append_tag_ok n 2 b) by lia. cbn [fst].
        assert (Hf : (0 < f)%nat) by lia.
        destruct (sval_wt S t x Hw) as [Hwt Hr].
        set (b0 := b ++ varint_enc (n * 8 + 2)).
        destruct (write_key_ok kk k ((b0 ++ [0]) ++ varint_enc (1 * 8 + kind2wire kk)) Hk Hu Hf) as [Ekey [Hkwt Hkr]].
        rewrite (append_tag_ok 1 (kind2wire kk) (b0 ++ [0])) by assumption. cbn [fst]. rewrite Ekey. cbn [fst snd].
        rewrite (append_tag_ok 2 (kind2wire (kind_of_type t))) by assumption. cbn [fst].
        rewrite (Hrec t x _ Hw Hs Hz Hd). cbn [fst snd Z.eqb orb].
        assert (Epay : (((b0 ++ [0]) ++ varint_enc (1 * 8 + kind2wire kk)) ++ wenc_val (snd (key_field k))) ++
                         varint_enc (2 * 8 + kind2wire (kind_of_type t)) ++ wenc_val (sval x)
                       = (b0 ++ [0]) ++ wenc [key_field k; (2, sval x)]).
        { unfold wenc. cbn [flat_map]. unfold wenc_field. cbn [fst snd]. rewrite key_field_fst, Hkwt, Hwt.
          rewrite <- !app_assoc, app_nil_r. reflexivity. }
        rewrite <- (app_assoc _ (varint_enc (2 * 8 + kind2wire (kind_of_type t))) (wenc_val (sval x))).
        rewrite Epay. rewrite finish_ok by assumption.
        unfold wbind. cbn [fst snd Z.eqb]. rewrite IH.
        rewrite (wenc_cons (n, entry_wval (k, x))). unfold wenc_field, entry_wval. cbn [fst snd wt_of_wval wenc_val].
        unfold b0. rewrite <- !app_assoc. reflexivity.
    Qed.

    Lemma write_map_ok n kk t v b :
      1 <= n <= MAX_FIELD_NUMBER -> wf_fld S (LMap kk) t v = true -> strs_ok v = true -> sizes_ok v = true ->
      (depth v < f)%nat ->
      write_map junk rec n kk t b (gv t v) = (b ++ wenc (wfld n v), 0).
    Proof.
      intros Hn Hw Hs Hz Hd.
      destruct (wfld_fvals S _ t v n Hw) as [Ew _]. rewrite Ew.
      destruct v as [| | | |kvs]; cbn [wf_fld] in Hw; try discriminate.
      apply andb_true_iff in Hw as [_ Hall].
      cbn [strs_ok] in Hs. cbn [sizes_ok] in Hz. cbn [depth] in Hd.
      unfold gv. cbn [gval_of]. fold gv. cbn [write_map fvals].
      apply write_entries_ok; [assumption|].
      apply Forall_forall. intros [k x] Hin.
      rewrite forallb_forall in Hall, Hs, Hz. specialize (Hall _ Hin). specialize (Hs _ Hin). specialize (Hz _ Hin).
      cbn [fst snd] in *.
      apply andb_true_iff in Hall as [Hall _]. apply andb_true_iff in Hall as [Hk Hw].
      apply andb_true_iff in Hs as [Hu Hs]. apply andb_true_iff in Hz as [Hlen Hz].
      rewrite (wfld_single S t x 2 Hw) in Hlen. apply Z.ltb_lt in Hlen.
      pose proof (fold_max_ge (fun kx : mkey * pval => depth (snd kx)) kvs (k, x) Hin) as Hm. cbn [snd] in Hm.
      unfold entry_ok, elem_ok. cbn [fst snd]. repeat split; try assumption. lia.
    Qed.

    Lemma write_field_ok lbl t v n b :
      1 <= n <= MAX_FIELD_NUMBER -> wf_fld S lbl t v = true -> strs_ok v = true -> sizes_ok v = true ->
      (depth v < f)%nat ->
      wbind (match lbl with LSingular => append_tag n (kind2wire (kind_of_type t)) b | _ => (b, 0) end)
            (fun b1 => write_any junk true rec n lbl t true b1 (gv t v)) = (b ++ wenc (wfld n v), 0).
    Proof.
      intros Hn Hw Hs Hz Hd. destruct lbl as [|p|kk].
      - destruct (sval_wt S t v Hw) as [Hwt Hr]. rewrite append_tag_ok by assumption.
        unfold wbind. cbn [fst snd Z.eqb write_any]. rewrite (Hrec t v _ Hw Hs Hz Hd).
        rewrite (wfld_single S t v n Hw). unfold wenc. cbn [flat_map]. unfold wenc_field. cbn [fst snd].
        rewrite Hwt, app_nil_r, <- app_assoc. reflexivity.
      - unfold wbind. cbn [fst snd Z.eqb write_any]. apply write_list_ok; assumption.
      - unfold wbind. cbn [fst snd Z.eqb write_any]. apply write_map_ok; assumption.
    Qed.

    Definition field_ok (md : mdesc) (nv : Z * pval) : Prop :=
      exists fd, find_field md (fst nv) = Some fd /\ 1 <= fst nv <= MAX_FIELD_NUMBER /\
                 wf_fld S (fd_label fd) (fd_type fd) (snd nv) = true /\
                 strs_ok (snd nv) = true /\ sizes_ok (snd nv) = true /\ (depth (snd nv) < f)%nat.

    Lemma write_fields_ok {A} (lookup : A -> option fdesc) (key : Z -> A) (ty : Z -> ftype) md fs :
      (forall n fd, find_field md n = Some fd -> lookup (key n) = Some fd /\ ty n = fd_type fd) ->
      Forall (field_ok md) fs -> forall b,
      write_fields disallow junk true rec lookup b (map (fun nv => (key (fst nv), gv (ty (fst nv)) (snd nv))) fs)
      = (b ++ wenc (msg_wire fs), 0).
    Proof.
      intros Hlk. induction 1 as [|[n v] fs [fd [Hfd [Hn [Hw [Hs [Hz Hd]]]]]] _ IH]; intros b; cbn [map write_fields fst snd].
      - cbn. rewrite app_nil_r. reflexivity.
      - cbn [fst snd] in *. destruct (Hlk n fd Hfd) as [El Et]. rewrite El, Et.
        rewrite (find_field_num md n fd Hfd).
        pose proof (write_field_ok (fd_label fd) (fd_type fd) v n b Hn Hw Hs Hz Hd) as Hf.
        rewrite wbind_assoc, Hf. unfold wbind. cbn [fst snd Z.eqb].
        rewrite IH. unfold msg_wire. cbn [flat_map fst snd]. rewrite wenc_app, <- app_assoc. reflexivity.
    Qed.
  End Loops.

  (* by field name: every declared name resolves to its own descriptor (true of every compiled schema; decidable: names_okb) *)
  Hypothesis Hnames : byname = true -> forall name md n fd, find_msg S name = Some md -> find_field md n = Some fd ->
    find_field_name md (fd_name fd) = Some fd.

  Local Notation wb := (write_base S cast disallow byname junk true).

  Lemma gv_msg name fs :
    gv (TMsg name) (VMsg fs) =
    if byname then GMapS (map (fun nv => (fld_name S (TMsg name) (fst nv), gv (fld_type S (TMsg name) (fst nv)) (snd nv))) fs)
    else GMsgN (map (fun nv => (fst nv, gv (fld_type S (TMsg name) (fst nv)) (snd nv))) fs).
  Proof. reflexivity. Qed.

  Lemma fields_forall f name md fs :
    find_msg S name = Some md -> wf_fld S LSingular (TMsg name) (VMsg fs) = true ->
    strs_ok (VMsg fs) = true -> sizes_ok (VMsg fs) = true -> (depth (VMsg fs) < Datatypes.S f)%nat ->
    Forall (field_ok f md) fs.
  Proof.
    intros Em Hw Hs Hz Hd. cbn [wf_fld] in Hw. rewrite Em in Hw.
    apply andb_true_iff in Hw as [_ Hall]. cbn [strs_ok] in Hs. cbn [sizes_ok] in Hz.
    apply andb_true_iff in Hz as [_ Hz]. cbn [depth] in Hd.
    apply Forall_forall. intros [n v] Hin. rewrite forallb_forall in Hall, Hs, Hz.
    specialize (Hall _ Hin). specialize (Hs _ Hin). specialize (Hz _ Hin). cbn [fst snd] in *.
    destruct (find_field md n) as [fd|] eqn:Ef; [|discriminate].
    apply andb_true_iff in Hall as [Hn Hw]. apply andb_true_iff in Hn as [Hn1 Hn2].
    apply Z.leb_le in Hn1. apply Z.leb_le in Hn2.
    pose proof (fold_max_ge (fun nv : Z * pval => depth (snd nv)) fs (n, v) Hin) as Hm. cbn [snd] in Hm.
    exists fd. cbn [fst snd]. repeat split; try assumption. lia.
  Qed.

  Lemma write_msg_body f name md fs b1 :
    rec_ok (wb f) f -> find_msg S name = Some md ->
    wf_fld S LSingular (TMsg name) (VMsg fs) = true -> strs_ok (VMsg fs) = true -> sizes_ok (VMsg fs) = true ->
    (depth (VMsg fs) < Datatypes.S f)%nat ->
    (if byname
     then match gv (TMsg name) (VMsg fs) with
          | GMapS l => write_fields disallow junk true (wb f) (find_field_name md) b1 l | _ => (b1, 1) end
     else match gv (TMsg name) (VMsg fs) with
          | GMsgN l => write_fields disallow junk true (wb f) (find_field md) b1 l | _ => (b1, 1) end)
    = (b1 ++ encode_msg fs, 0).
  Proof.
    intros Hrec Em Hw Hs Hz Hd. pose proof (fields_forall f name md fs Em Hw Hs Hz Hd) as Hall.
    rewrite gv_msg, if_match_bn. apply if_both; intros E.
    - apply (write_fields_ok (wb f) f Hrec (find_field_name md) (fld_name S (TMsg name)) (fld_type S (TMsg name)) md fs); [|exact Hall].
      intros n fd Hfd. unfold fld_name, fld_type, fld_of. rewrite Em, Hfd. split; [|reflexivity].
      exact (Hnames E name md n fd Em Hfd).
    - apply (write_fields_ok (wb f) f Hrec (find_field md) (fun n => n) (fld_type S (TMsg name)) md fs); [|exact Hall].
      intros n fd Hfd. unfold fld_type, fld_of. rewrite Em, Hfd. split; reflexivity.
  Qed.

  Lemma write_base_ok : forall fuel, rec_ok (wb fuel) fuel.
  Proof.
    induction fuel as [|f IH]; intros t v b Hw Hs Hz Hd; [lia|].
    destruct v as [k x|k s|fs| |]; try (cbn [wf_fld] in Hw; discriminate).
    - cbn [wf_fld] in Hw. destruct t as [k'|]; [|discriminate].
      apply andb_true_iff in Hw as [Hw Hok]. apply andb_true_iff in Hw as [Hk Hn]. apply Z.eqb_eq in Hk. subst k'.
      cbn [write_base]. unfold gv. cbn [gval_of sval]. apply write_scalar_enc; assumption.
    - cbn [wf_fld] in Hw. destruct t as [k'|]; [|discriminate].
      apply andb_true_iff in Hw as [Hw _]. apply andb_true_iff in Hw as [Hk Hb]. apply Z.eqb_eq in Hk. subst k'.
      cbn [write_base]. unfold gv. cbn [gval_of sval]. apply write_bytes_enc; [exact Hb|exact Hs].
    - destruct t as [|name]; [cbn [wf_fld] in Hw; discriminate|].
      destruct (find_msg S name) as [md|] eqn:Em; [|cbn [wf_fld] in Hw; rewrite Em in Hw; discriminate].
      cbn [write_base]. rewrite Em.
      rewrite (write_msg_body f name md fs (b ++ [0]) IH Em Hw Hs Hz Hd). cbn [fst snd Z.eqb].
      cbn [sizes_ok] in Hz. apply andb_true_iff in Hz as [Hz _]. apply Z.ltb_lt in Hz.
      rewrite finish_ok by assumption. reflexivity.
  Qed.

  Lemma gtop_w name fs : gtop S byname false name fs = gv (TMsg name) (VMsg fs).
  Proof. unfold gtop. destruct fs; reflexivity. Qed.

  (* (T1) WriteAnyWithDesc on the Go value of a well-formed message, WHATEVER order its fields, map entries and the fields
     of its sub-messages are delivered in (the order of the lists in fs), returns nil and leaves exactly encode_msg fs in
     the buffer; the proved typed decoder reads those bytes back as the message. *)
  Theorem write_any_refines_encode name fs fuel :
    wf_msg S name fs = true -> strs_ok (VMsg fs) = true -> sizes_ok (VMsg fs) = true -> (depth (VMsg fs) < fuel)%nat ->
    write_any_desc S cast disallow byname junk true fuel 0 LSingular (TMsg name) false (gtop S byname false name fs)
    = (encode_msg fs, 0) /\
    decode_top S name (encode_msg fs) = Some fs.
  Proof.
    intros Hw Hs Hz Hd. split; [|apply decode_top_encode; exact Hw].
    destruct fuel as [|f]; [lia|]. unfold write_any_desc, write_any. rewrite gtop_w.
    unfold wf_msg in Hw.
    destruct (find_msg S name) as [md|] eqn:Em; [|cbn [wf_fld] in Hw; rewrite Em in Hw; discriminate].
    cbn [write_base]. rewrite Em.
    rewrite (write_msg_body f name md fs [] (write_base_ok f) Em Hw Hs Hz Hd). reflexivity.
  Qed.
End WriterRefines.
