(* Theorems about the as-coded model of proto/binary WriteAnyWithDesc / ReadAnyWithDesc (model/ProtoAny.v):
     write_any_refines_encode   the writer, on the Go value of a well-formed typed message (fields and map entries in
                                ANY order: the order of the lists), emits exactly ProtoMsg.encode_msg of that message;
     read_any_refines_decode    the reader, on encode_msg m, answers the Go value of m (maps as association lists in
                                wire order) and consumes everything;
     read_write_any             read (write v) = v for every conforming Go value (corollary);
     error side: a Go value of the wrong dynamic type makes the scalar writer answer an error and write nothing.
   Everything is stated against the PROVED typed codec of ProtoMsg.v (decode_top (encode_msg m) = Some m). *)
From Coq Require Import ZArith List Bool Lia Arith.
From DG Require Import CaseFormat ProtoWireRef ProtoWireRefProofs GoSem ProtoMsg ProtoMsgProofs ProtoSpecLen
  ProtoSpecLenProofs ProtoAny.
Import ListNotations.
Local Open Scope Z_scope.

(* ------------------------------------------------------------------ small facts *)
Lemma append_tag_ok n wt b : 1 <= n <= MAX_FIELD_NUMBER -> 0 <= wt < 8 ->
  append_tag n wt b = (b ++ varint_enc (n * 8 + wt), 0).
Proof.
  intros Hn Hw. unfold append_tag.
  destruct (Z.gtb_spec n MAX_FIELD_NUMBER); [lia|]. destruct (Z.ltb_spec n 1); [lia|].
  cbn [orb]. rewrite Z.mod_small by lia. reflexivity.
Qed.

Lemma plen_lt_nat {A} (l : list A) : plen l < 2 ^ 31 -> (length l < 2 ^ 31)%nat.
Proof.
  unfold plen. intros H. apply Nat2Z.inj_lt. rewrite Nat2Z.inj_pow. exact H.
Qed.

Lemma finish_ok junk b payload : (9 <= length junk)%nat -> plen payload < 2 ^ 31 ->
  finish_spec ((b ++ [0]) ++ payload) junk (length b) = b ++ varint_enc (plen payload) ++ payload.
Proof.
  intros Hj Hp. rewrite <- app_assoc. apply finish_spec_correct; [apply plen_lt_nat; exact Hp|exact Hj].
Qed.

Lemma kind2wire_numeric k : is_numeric k = true -> kind2wire k = wt_of_kind k.
Proof.
  intros H. apply is_numeric_cases in H. cbn [In] in H.
  repeat (destruct H as [<-|H]; [reflexivity|]). contradiction.
Qed.

Lemma wt_of_kind_range k : is_numeric k = true -> 0 <= wt_of_kind k < 8.
Proof.
  intros H. apply is_numeric_cases in H. cbn [In] in H.
  repeat (destruct H as [<-|H]; [cbn; lia|]). contradiction.
Qed.

Lemma to_s32_mod32_any v : to_s 32 v mod 4294967296 = v mod 4294967296.
Proof. unfold to_s. change (2 ^ (32 - 1)) with 2147483648. change (2 ^ 32) with 4294967296. Z.div_mod_to_equations. lia. Qed.
Lemma to_s64_mod64_any v : to_s 64 v mod 18446744073709551616 = v mod 18446744073709551616.
Proof. unfold to_s. change (2 ^ (64 - 1)) with 9223372036854775808. change (2 ^ 64) with 18446744073709551616. Z.div_mod_to_equations. lia. Qed.

(* ------------------------------------------------------------------ scalars: writer *)
Lemma write_scalar_enc cast k x b : is_numeric k = true -> scalar_okb k x = true ->
  write_scalar cast k b (g_scalar k x) = (b ++ wenc_val (scalar_to_wire k x), 0).
Proof.
  intros Hn Hok. apply is_numeric_cases in Hn. cbn [In] in Hn.
  repeat (destruct Hn as [<-|Hn]); try contradiction;
  unfold scalar_okb in Hok; cbn [Z.eqb Pos.eqb orb] in Hok;
  unfold write_scalar, g_scalar, scalar_to_wire, wt_of_kind;
  cbn [Z.eqb Pos.eqb orb andb wenc_val get_int as_goint with_val GT_I32 GT_I64 GT_U32 GT_U64 GT_ENUM];
  change (2 ^ 64) with 18446744073709551616 in *; change (2 ^ 32) with 4294967296 in *.
  - (* double *) kill_bounds Hok. rewrite Z.mod_small by lia. reflexivity.
  - (* float *) kill_bounds Hok. rewrite Z.mod_small by lia. reflexivity.
  - reflexivity.
  - (* uint64 *) kill_bounds Hok. rewrite Z.mod_small by lia. reflexivity.
  - reflexivity.
  - (* fixed64 *) rewrite to_s64_mod64_any. reflexivity.
  - (* fixed32 *) rewrite to_s32_mod32_any. reflexivity.
  - (* bool *) apply orb_true_iff in Hok. destruct Hok as [E|E]; apply Z.eqb_eq in E; subst x; reflexivity.
  - (* uint32 *) kill_bounds Hok. rewrite Z.mod_small by lia. reflexivity.
  - reflexivity.
  - reflexivity.
  - reflexivity.
  - reflexivity.
  - reflexivity.
Qed.

Lemma write_bytes_enc cast k s b : is_byteskind k = true -> negb (k =? 9) || utf8_valid s = true ->
  write_scalar cast k b (if k =? 9 then GStr s else GBytes s) = (b ++ wenc_val (WBytes s), 0).
Proof.
  unfold is_byteskind. intros Hk Hu. apply orb_true_iff in Hk. destruct Hk as [E|E]; apply Z.eqb_eq in E; subst k.
  - cbn [Z.eqb Pos.eqb negb orb] in Hu. unfold write_scalar. cbn [Z.eqb Pos.eqb orb with_val]. unfold str_bytes. rewrite Hu. reflexivity.
  - reflexivity.
Qed.

(* error side: without cast, a Go value of another dynamic type than the kind asks for is refused and nothing is written *)
Definition gotype_of_kind (k : Z) : Z :=
  if (k =? 5) || (k =? 15) || (k =? 17) || (k =? 7) then GT_I32
  else if (k =? 3) || (k =? 16) || (k =? 18) || (k =? 6) then GT_I64
  else if k =? 13 then GT_U32 else if k =? 4 then GT_U64 else if k =? 14 then GT_ENUM else 0.

Lemma write_scalar_mismatch k ty z b :
  In k [3; 4; 5; 6; 7; 13; 14; 15; 16; 17; 18] -> ty <> gotype_of_kind k ->
  write_scalar false k b (GInt ty z) = (b, 1).
Proof.
  intros Hk Hty. cbn [In] in Hk.
  repeat (destruct Hk as [<-|Hk]); try contradiction;
  unfold gotype_of_kind in Hty; cbn [Z.eqb Pos.eqb orb] in Hty;
  unfold write_scalar, get_int, as_goint; cbn [Z.eqb Pos.eqb orb];
  match goal with |- context [ty =? ?c] => destruct (Z.eqb_spec ty c); [contradiction|reflexivity] end.
Qed.

Lemma write_scalar_mismatch_other k g b :
  In k [1; 2; 3; 4; 5; 6; 7; 8; 9; 12; 13; 14; 15; 16; 17; 18] ->
  match g with GNil | GList _ | GMapS _ | GMapI _ | GMapA _ | GMsgN _ => True | _ => False end ->
  snd (write_scalar false k b g) = 1 /\ fst (write_scalar false k b g) = b.
Proof.
  intros Hk Hg. cbn [In] in Hk.
  repeat (destruct Hk as [<-|Hk]); try contradiction; destruct g; try contradiction; split; reflexivity.
Qed.

(* ------------------------------------------------------------------ the wire type of a singular value is the one the descriptor gives *)
Lemma sval_wt S t v : wf_fld S LSingular t v = true ->
  wt_of_wval (sval v) = kind2wire (kind_of_type t) /\ 0 <= kind2wire (kind_of_type t) < 8.
Proof.
  destruct v as [k x|k s|fs| |]; cbn [wf_fld]; intros H; try discriminate.
  - destruct t as [k'|]; [|discriminate].
    apply andb_true_iff in H as [H Hok]. apply andb_true_iff in H as [Hk Hn]. apply Z.eqb_eq in Hk. subst k'.
    cbn [sval kind_of_type]. rewrite (kind2wire_numeric _ Hn). split; [apply (scalar_rt k x Hn Hok)|apply wt_of_kind_range; exact Hn].
  - destruct t as [k'|]; [|discriminate].
    apply andb_true_iff in H as [H _]. apply andb_true_iff in H as [Hk Hb]. apply Z.eqb_eq in Hk. subst k'.
    cbn [sval kind_of_type wt_of_wval]. unfold is_byteskind in Hb. apply orb_true_iff in Hb.
    destruct Hb as [E|E]; apply Z.eqb_eq in E; subst k; cbn; lia.
  - destruct t as [|name]; [discriminate|]. cbn. lia.
Qed.

Lemma find_field_num md n fd : find_field md n = Some fd -> fd_num fd = n.
Proof. unfold find_field. intros H. apply find_some in H. destruct H as [_ H]. apply Z.eqb_eq in H. exact H. Qed.

Lemma depth_elem_le (vs : list pval) x : In x vs -> (depth x <= fold_right (fun y m => Nat.max (depth y) m) O vs)%nat.
Proof. intros H. apply (fold_max_ge depth vs x H). Qed.

Lemma flat_map_ext_in' {A B} (f g : A -> list B) l : (forall a, In a l -> f a = g a) -> flat_map f l = flat_map g l.
Proof.
  induction l as [|x l IH]; intros H; [reflexivity|]. cbn [flat_map].
  rewrite (H x (or_introl eq_refl)), IH; [reflexivity|]. intros a Ha. apply H. right. exact Ha.
Qed.

Lemma wbind_assoc r k1 k2 : wbind r (fun b => wbind (k1 b) k2) = wbind (wbind r k1) k2.
Proof. unfold wbind. destruct (snd r =? 0) eqn:E; [reflexivity|]. rewrite E. reflexivity. Qed.

Lemma if_match_bn (bn : bool) {X} (A : list (list Z * gval)) (B : list (Z * gval))
  (F : list (list Z * gval) -> X) (G : list (Z * gval) -> X) (d : X) :
  (if bn then match (if bn then GMapS A else GMsgN B) with GMapS l => F l | _ => d end
   else match (if bn then GMapS A else GMsgN B) with GMsgN l => G l | _ => d end)
  = if bn then F A else G B.
Proof. destruct bn; reflexivity. Qed.
Lemma if_cong (bn : bool) {X} (x y x' y' : X) : (bn = true -> x = x') -> (bn = false -> y = y') ->
  (if bn then x else y) = (if bn then x' else y').
Proof. destruct bn; auto. Qed.
Lemma if_both (bn : bool) {X} (x y r : X) : (bn = true -> x = r) -> (bn = false -> y = r) -> (if bn then x else y) = r.
Proof. destruct bn; auto. Qed.

(* ------------------------------------------------------------------ writer refines the canonical encoder *)
Section WriterRefines.
  Variable S : schema.
  Variables cast disallow byname : bool.
  Variable junk : list Z.
  Hypothesis Hjunk : (9 <= length junk)%nat.

  Let gv := gval_of S byname false.

  (* what the recursive call (WriteBaseTypeWithDesc with NeedMessageLen) must do on values nested less than f deep *)
  Definition rec_ok (rec : ftype -> bool -> list Z -> gval -> wst) (f : nat) : Prop :=
    forall t v b, wf_fld S LSingular t v = true -> strs_ok v = true -> sizes_ok v = true -> (depth v < f)%nat ->
      rec t true b (gv t v) = (b ++ wenc_val (sval v), 0).

  Section Loops.
    Variable rec : ftype -> bool -> list Z -> gval -> wst.
    Variable f : nat.
    Hypothesis Hrec : rec_ok rec f.

    Definition elem_ok (t : ftype) (v : pval) : Prop :=
      wf_fld S LSingular t v = true /\ strs_ok v = true /\ sizes_ok v = true /\ (depth v < f)%nat.

    Lemma write_elems_ok t vs : Forall (elem_ok t) vs -> forall b,
      write_elems rec t b (map (gv t) vs) = (b ++ flat_map (fun v => wenc_val (sval v)) vs, 0).
    Proof.
      induction 1 as [|v vs [Hw [Hs [Hz Hd]]] _ IH]; intros b; cbn [map write_elems flat_map].
      - rewrite app_nil_r. reflexivity.
      - rewrite (Hrec t v b Hw Hs Hz Hd). unfold wbind. cbn [fst snd Z.eqb]. rewrite IH, <- app_assoc. reflexivity.
    Qed.

    Lemma write_elems_tagged_ok n t vs : 1 <= n <= MAX_FIELD_NUMBER -> Forall (elem_ok t) vs -> forall b,
      write_elems_tagged true rec n t b (map (gv t) vs) = (b ++ wenc (map (pair n) (map sval vs)), 0).
    Proof.
      intros Hn. induction 1 as [|v vs [Hw [Hs [Hz Hd]]] _ IH]; intros b; cbn [map write_elems_tagged].
      - cbn. rewrite app_nil_r. reflexivity.
      - destruct (sval_wt S t v Hw) as [Hwt Hr].
        rewrite append_tag_ok by assumption. unfold wbind at 1. cbn [fst snd Z.eqb].
        rewrite (Hrec t v _ Hw Hs Hz Hd). unfold wbind. cbn [fst snd Z.eqb]. rewrite IH.
        rewrite wenc_cons. unfold wenc_field. cbn [fst snd]. rewrite Hwt. rewrite <- !app_assoc. reflexivity.
    Qed.

    Lemma packed_elem_sval t v : wf_fld S LSingular t v = true -> type_numeric t = true -> packed_elem v = wenc_val (sval v).
    Proof.
      destruct t as [k|]; [|discriminate]. cbn [type_numeric]. intros Hw Hn.
      destruct v as [k' x|k' s| | |]; cbn [wf_fld] in Hw; try discriminate.
      - reflexivity.
      - apply andb_true_iff in Hw as [Hw _]. apply andb_true_iff in Hw as [Hk Hb]. apply Z.eqb_eq in Hk. subst k'.
        rewrite (numeric_not_bytes _ Hn) in Hb. discriminate.
    Qed.

    Lemma Forall_elem_ok t vs :
      forallb (fun x => wf_fld S LSingular t x) vs = true -> forallb strs_ok vs = true -> forallb sizes_ok vs = true ->
      (fold_right (fun y m => Nat.max (depth y) m) O vs < f)%nat -> Forall (elem_ok t) vs.
    Proof.
      intros Hw Hs Hz Hd. apply Forall_forall. intros x Hx.
      rewrite forallb_forall in Hw, Hs, Hz. repeat split; auto.
      pose proof (depth_elem_le vs x Hx). lia.
    Qed.

    Lemma write_list_ok n p t v b :
      1 <= n <= MAX_FIELD_NUMBER -> wf_fld S (LRepeated p) t v = true -> strs_ok v = true -> sizes_ok v = true ->
      (depth v < f)%nat ->
      write_list junk true rec n p t b (gv t v) = (b ++ wenc (wfld n v), 0).
    Proof.
      intros Hn Hw Hs Hz Hd.
      destruct (wfld_fvals S _ t v n Hw) as [Ew _]. rewrite Ew.
      destruct v as [| | |q vs|]; cbn [wf_fld] in Hw; try discriminate.
      apply andb_true_iff in Hw as [Hw Hall]. apply andb_true_iff in Hw as [Hw Hlen]. apply andb_true_iff in Hw as [Hq Hne].
      apply eqb_prop in Hq. cbn [strs_ok] in Hs. cbn [sizes_ok] in Hz. apply andb_true_iff in Hz as [Hz1 Hz].
      cbn [depth] in Hd. pose proof (Forall_elem_ok t vs Hall Hs Hz Hd) as Hel.
      unfold gv. cbn [gval_of]. fold gv. unfold write_list.
      assert (Hnn : negb (is_nil (map (gv t) vs)) = true) by (destruct vs; [discriminate|reflexivity]).
      rewrite Hnn, andb_true_r. rewrite <- Hq. destruct q; cbn [fvals].
      - (* packed *)
        symmetry in Hq. apply andb_true_iff in Hq as [_ Hnum].
        rewrite append_tag_ok by lia. cbn [fst].
        rewrite write_elems_ok by exact Hel. cbn [fst snd Z.eqb].
        assert (Epay : flat_map (fun v => wenc_val (sval v)) vs = flat_map packed_elem vs).
        { apply flat_map_ext_in'. intros a Ha. rewrite Forall_forall in Hel. destruct (Hel a Ha) as [Hwa _].
          symmetry. apply (packed_elem_sval t a Hwa Hnum). }
        rewrite Epay. cbn [negb orb] in Hz1. apply Z.ltb_lt in Hz1.
        rewrite finish_ok by assumption.
        cbn [map]. rewrite wenc_cons. unfold wenc_field. cbn [fst snd wt_of_wval wenc_val wenc flat_map].
        rewrite <- !app_assoc, app_nil_r. reflexivity.
      - apply write_elems_tagged_ok; assumption.
    Qed.

    (* map keys *)
    Lemma write_key_ok kk k b : key_okb kk k = true -> (match k with KStr s => utf8_valid s | KInt _ _ => true end) = true ->
      (0 < f)%nat ->
      rec (TScalar kk) true b (g_key k) = (b ++ wenc_val (snd (key_field k)), 0) /\
      wt_of_wval (snd (key_field k)) = kind2wire kk /\ 0 <= kind2wire kk < 8.
    Proof.
      intros Hk Hu Hf. destruct k as [k' x|s]; cbn [key_okb] in Hk.
      - apply andb_true_iff in Hk as [Hk Hok]. apply andb_true_iff in Hk as [Ek Hn]. apply Z.eqb_eq in Ek. subst k'.
        assert (Hw : wf_fld S LSingular (TScalar kk) (VScalar kk x) = true).
        { cbn [wf_fld]. rewrite Z.eqb_refl, Hn, Hok. reflexivity. }
        split; [exact (Hrec (TScalar kk) (VScalar kk x) b Hw eq_refl eq_refl Hf)|].
        exact (sval_wt S (TScalar kk) (VScalar kk x) Hw).
      - apply andb_true_iff in Hk as [Ek Hlen]. apply Z.eqb_eq in Ek. subst kk.
        assert (Hw : wf_fld S LSingular (TScalar 9) (VBytes 9 s) = true).
        { cbn [wf_fld]. rewrite Hlen. reflexivity. }
        split; [|exact (sval_wt S (TScalar 9) (VBytes 9 s) Hw)].
        assert (Hs : strs_ok (VBytes 9 s) = true) by (cbn; exact Hu).
        exact (Hrec (TScalar 9) (VBytes 9 s) b Hw Hs eq_refl Hf).
    Qed.

    Definition entry_ok (kk : Z) (t : ftype) (kx : mkey * pval) : Prop :=
      key_okb kk (fst kx) = true /\ (match fst kx with KStr s => utf8_valid s | KInt _ _ => true end) = true /\
      plen (wenc [key_field (fst kx); (2, sval (snd kx))]) < 2 ^ 31 /\ elem_ok t (snd kx).

    Lemma write_entries_ok n kk t kvs : 1 <= n <= MAX_FIELD_NUMBER -> Forall (entry_ok kk t) kvs -> forall b,
      write_entries junk rec n kk t (fun k b' => rec (TScalar kk) true b' k) b
                    (map (fun kx => (g_key (fst kx), gv t (snd kx))) kvs)
      = (b ++ wenc (map (pair n) (map entry_wval kvs)), 0).
    Proof.
      intros Hn. induction 1 as [|[k x] kvs [Hk [Hu [Hlen [Hw [Hs [Hz Hd]]]]]] _ IH]; intros b; cbn [map write_entries fst snd].
      - cbn. rewrite app_nil_r. reflexivity.
      - cbn [fst snd] in *. unfold write_entry.
        assert (H1 : 1 <= 1 <= MAX_FIELD_NUMBER) by (unfold MAX_FIELD_NUMBER; lia).
        assert (H2 : 1 <= 2 <= MAX_FIELD_NUMBER) by (unfold MAX_FIELD_NUMBER; lia).
        rewrite (append_tag_ok n 2 b) by lia. cbn [fst].
        assert (Hf : (0 < f)%nat) by lia.
        destruct (sval_wt S t x Hw) as [Hwt Hr].
        set (b0 := b ++ varint_enc (n * 8 + 2)).
        destruct (write_key_ok kk k ((b0 ++ [0]) ++ varint_enc (1 * 8 + kind2wire kk)) Hk Hu Hf) as [Ekey [Hkwt Hkr]].
        rewrite (append_tag_ok 1 (kind2wire kk) (b0 ++ [0])) by assumption. cbn [fst]. rewrite Ekey. cbn [fst snd].
        rewrite (append_tag_ok 2 (kind2wire (kind_of_type t))) by assumption. cbn [fst].
        rewrite (Hrec t x _ Hw Hs Hz Hd). cbn [fst snd Z.eqb orb].
        assert (Epay : (((b0 ++ [0]) ++ varint_enc (1 * 8 + kind2wire kk)) ++ wenc_val (snd (key_field k))) ++
                         varint_enc (2 * 8 + kind2wire (kind_of_type t)) ++ wenc_val (sval x)
                       = (b0 ++ [0]) ++ wenc [key_field k; (2, sval x)]).
        { unfold wenc. cbn [flat_map]. unfold wenc_field. cbn [fst snd]. rewrite key_field_fst, Hkwt, Hwt.
          rewrite <- !app_assoc, app_nil_r. reflexivity. }
        rewrite <- (app_assoc _ (varint_enc (2 * 8 + kind2wire (kind_of_type t))) (wenc_val (sval x))).
        rewrite Epay. rewrite finish_ok by assumption.
        unfold wbind. cbn [fst snd Z.eqb]. rewrite IH.
        rewrite (wenc_cons (n, entry_wval (k, x))). unfold wenc_field, entry_wval. cbn [fst snd wt_of_wval wenc_val].
        unfold b0. rewrite <- !app_assoc. reflexivity.
    Qed.

    Lemma write_map_ok n kk t v b :
      1 <= n <= MAX_FIELD_NUMBER -> wf_fld S (LMap kk) t v = true -> strs_ok v = true -> sizes_ok v = true ->
      (depth v < f)%nat ->
      write_map junk rec n kk t b (gv t v) = (b ++ wenc (wfld n v), 0).
    Proof.
      intros Hn Hw Hs Hz Hd.
      destruct (wfld_fvals S _ t v n Hw) as [Ew _]. rewrite Ew.
      destruct v as [| | | |kvs]; cbn [wf_fld] in Hw; try discriminate.
      apply andb_true_iff in Hw as [_ Hall].
      cbn [strs_ok] in Hs. cbn [sizes_ok] in Hz. cbn [depth] in Hd.
      unfold gv. cbn [gval_of]. fold gv. cbn [write_map fvals].
      apply write_entries_ok; [assumption|].
      apply Forall_forall. intros [k x] Hin.
      rewrite forallb_forall in Hall, Hs, Hz. specialize (Hall _ Hin). specialize (Hs _ Hin). specialize (Hz _ Hin).
      cbn [fst snd] in *.
      apply andb_true_iff in Hall as [Hall _]. apply andb_true_iff in Hall as [Hk Hw].
      apply andb_true_iff in Hs as [Hu Hs]. apply andb_true_iff in Hz as [Hlen Hz].
      rewrite (wfld_single S t x 2 Hw) in Hlen. apply Z.ltb_lt in Hlen.
      pose proof (fold_max_ge (fun kx : mkey * pval => depth (snd kx)) kvs (k, x) Hin) as Hm. cbn [snd] in Hm.
      unfold entry_ok, elem_ok. cbn [fst snd]. repeat split; try assumption. lia.
    Qed.

    Lemma write_field_ok lbl t v n b :
      1 <= n <= MAX_FIELD_NUMBER -> wf_fld S lbl t v = true -> strs_ok v = true -> sizes_ok v = true ->
      (depth v < f)%nat ->
      wbind (match lbl with LSingular => append_tag n (kind2wire (kind_of_type t)) b | _ => (b, 0) end)
            (fun b1 => write_any junk true rec n lbl t true b1 (gv t v)) = (b ++ wenc (wfld n v), 0).
    Proof.
      intros Hn Hw Hs Hz Hd. destruct lbl as [|p|kk].
      - destruct (sval_wt S t v Hw) as [Hwt Hr]. rewrite append_tag_ok by assumption.
        unfold wbind. cbn [fst snd Z.eqb write_any]. rewrite (Hrec t v _ Hw Hs Hz Hd).
        rewrite (wfld_single S t v n Hw). unfold wenc. cbn [flat_map]. unfold wenc_field. cbn [fst snd].
        rewrite Hwt, app_nil_r, <- app_assoc. reflexivity.
      - unfold wbind. cbn [fst snd Z.eqb write_any]. apply write_list_ok; assumption.
      - unfold wbind. cbn [fst snd Z.eqb write_any]. apply write_map_ok; assumption.
    Qed.

    Definition field_ok (md : mdesc) (nv : Z * pval) : Prop :=
      exists fd, find_field md (fst nv) = Some fd /\ 1 <= fst nv <= MAX_FIELD_NUMBER /\
                 wf_fld S (fd_label fd) (fd_type fd) (snd nv) = true /\
                 strs_ok (snd nv) = true /\ sizes_ok (snd nv) = true /\ (depth (snd nv) < f)%nat.

    Lemma write_fields_ok {A} (lookup : A -> option fdesc) (key : Z -> A) (ty : Z -> ftype) md fs :
      (forall n fd, find_field md n = Some fd -> lookup (key n) = Some fd /\ ty n = fd_type fd) ->
      Forall (field_ok md) fs -> forall b,
      write_fields disallow junk true rec lookup b (map (fun nv => (key (fst nv), gv (ty (fst nv)) (snd nv))) fs)
      = (b ++ wenc (msg_wire fs), 0).
    Proof.
      intros Hlk. induction 1 as [|[n v] fs [fd [Hfd [Hn [Hw [Hs [Hz Hd]]]]]] _ IH]; intros b; cbn [map write_fields fst snd].
      - cbn. rewrite app_nil_r. reflexivity.
      - cbn [fst snd] in *. destruct (Hlk n fd Hfd) as [El Et]. rewrite El, Et.
        rewrite (find_field_num md n fd Hfd).
        pose proof (write_field_ok (fd_label fd) (fd_type fd) v n b Hn Hw Hs Hz Hd) as Hf.
        rewrite wbind_assoc, Hf. unfold wbind. cbn [fst snd Z.eqb].
        rewrite IH. unfold msg_wire. cbn [flat_map fst snd]. rewrite wenc_app, <- app_assoc. reflexivity.
    Qed.
  End Loops.

  (* by field name: every declared name resolves to its own descriptor (true of every compiled schema; decidable: names_okb) *)
  Hypothesis Hnames : byname = true -> forall name md n fd, find_msg S name = Some md -> find_field md n = Some fd ->
    find_field_name md (fd_name fd) = Some fd.

  Local Notation wb := (write_base S cast disallow byname junk true).

  Lemma gv_msg name fs :
    gv (TMsg name) (VMsg fs) =
    if byname then GMapS (map (fun nv => (fld_name S (TMsg name) (fst nv), gv (fld_type S (TMsg name) (fst nv)) (snd nv))) fs)
    else GMsgN (map (fun nv => (fst nv, gv (fld_type S (TMsg name) (fst nv)) (snd nv))) fs).
  Proof. reflexivity. Qed.

  Lemma fields_forall f name md fs :
    find_msg S name = Some md -> wf_fld S LSingular (TMsg name) (VMsg fs) = true ->
    strs_ok (VMsg fs) = true -> sizes_ok (VMsg fs) = true -> (depth (VMsg fs) < Datatypes.S f)%nat ->
    Forall (field_ok f md) fs.
  Proof.
    intros Em Hw Hs Hz Hd. cbn [wf_fld] in Hw. rewrite Em in Hw.
    apply andb_true_iff in Hw as [_ Hall]. cbn [strs_ok] in Hs. cbn [sizes_ok] in Hz.
    apply andb_true_iff in Hz as [_ Hz]. cbn [depth] in Hd.
    apply Forall_forall. intros [n v] Hin. rewrite forallb_forall in Hall, Hs, Hz.
    specialize (Hall _ Hin). specialize (Hs _ Hin). specialize (Hz _ Hin). cbn [fst snd] in *.
    destruct (find_field md n) as [fd|] eqn:Ef; [|discriminate].
    apply andb_true_iff in Hall as [Hn Hw]. apply andb_true_iff in Hn as [Hn1 Hn2].
    apply Z.leb_le in Hn1. apply Z.leb_le in Hn2.
    pose proof (fold_max_ge (fun nv : Z * pval => depth (snd nv)) fs (n, v) Hin) as Hm. cbn [snd] in Hm.
    exists fd. cbn [fst snd]. repeat split; try assumption. lia.
  Qed.

  Lemma write_msg_body f name md fs b1 :
    rec_ok (wb f) f -> find_msg S name = Some md ->
    wf_fld S LSingular (TMsg name) (VMsg fs) = true -> strs_ok (VMsg fs) = true -> sizes_ok (VMsg fs) = true ->
    (depth (VMsg fs) < Datatypes.S f)%nat ->
    (if byname
     then match gv (TMsg name) (VMsg fs) with
          | GMapS l => write_fields disallow junk true (wb f) (find_field_name md) b1 l | _ => (b1, 1) end
     else match gv (TMsg name) (VMsg fs) with
          | GMsgN l => write_fields disallow junk true (wb f) (find_field md) b1 l | _ => (b1, 1) end)
    = (b1 ++ encode_msg fs, 0).
  Proof.
    intros Hrec Em Hw Hs Hz Hd. pose proof (fields_forall f name md fs Em Hw Hs Hz Hd) as Hall.
    rewrite gv_msg, if_match_bn. apply if_both; intros E.
    - apply (write_fields_ok (wb f) f Hrec (find_field_name md) (fld_name S (TMsg name)) (fld_type S (TMsg name)) md fs); [|exact Hall].
      intros n fd Hfd. unfold fld_name, fld_type, fld_of. rewrite Em, Hfd. split; [|reflexivity].
      exact (Hnames E name md n fd Em Hfd).
    - apply (write_fields_ok (wb f) f Hrec (find_field md) (fun n => n) (fld_type S (TMsg name)) md fs); [|exact Hall].
      intros n fd Hfd. unfold fld_type, fld_of. rewrite Em, Hfd. split; reflexivity.
  Qed.

  Lemma write_base_ok : forall fuel, rec_ok (wb fuel) fuel.
  Proof.
    induction fuel as [|f IH]; intros t v b Hw Hs Hz Hd; [lia|].
    destruct v as [k x|k s|fs| |]; try (cbn [wf_fld] in Hw; discriminate).
    - cbn [wf_fld] in Hw. destruct t as [k'|]; [|discriminate].
      apply andb_true_iff in Hw as [Hw Hok]. apply andb_true_iff in Hw as [Hk Hn]. apply Z.eqb_eq in Hk. subst k'.
      cbn [write_base]. unfold gv. cbn [gval_of sval]. apply write_scalar_enc; assumption.
    - cbn [wf_fld] in Hw. destruct t as [k'|]; [|discriminate].
      apply andb_true_iff in Hw as [Hw _]. apply andb_true_iff in Hw as [Hk Hb]. apply Z.eqb_eq in Hk. subst k'.
      cbn [write_base]. unfold gv. cbn [gval_of sval]. apply write_bytes_enc; [exact Hb|exact Hs].
    - destruct t as [|name]; [cbn [wf_fld] in Hw; discriminate|].
      destruct (find_msg S name) as [md|] eqn:Em; [|cbn [wf_fld] in Hw; rewrite Em in Hw; discriminate].
      cbn [write_base]. rewrite Em.
      rewrite (write_msg_body f name md fs (b ++ [0]) IH Em Hw Hs Hz Hd). cbn [fst snd Z.eqb].
      cbn [sizes_ok] in Hz. apply andb_true_iff in Hz as [Hz _]. apply Z.ltb_lt in Hz.
      rewrite finish_ok by assumption. reflexivity.
  Qed.

  Lemma gtop_w name fs : gtop S byname false name fs = gv (TMsg name) (VMsg fs).
  Proof. unfold gtop. destruct fs; reflexivity. Qed.

  (* (T1) WriteAnyWithDesc on the Go value of a well-formed message, WHATEVER order its fields, map entries and the fields
     of its sub-messages are delivered in (the order of the lists in fs), returns nil and leaves exactly encode_msg fs in
     the buffer; the proved typed decoder reads those bytes back as the message. *)
  Theorem write_any_refines_encode name fs fuel :
    wf_msg S name fs = true -> strs_ok (VMsg fs) = true -> sizes_ok (VMsg fs) = true -> (depth (VMsg fs) < fuel)%nat ->
    write_any_desc S cast disallow byname junk true fuel 0 LSingular (TMsg name) false (gtop S byname false name fs)
    = (encode_msg fs, 0) /\
    decode_top S name (encode_msg fs) = Some fs.
  Proof.
    intros Hw Hs Hz Hd. split; [|apply decode_top_encode; exact Hw].
    destruct fuel as [|f]; [lia|]. unfold write_any_desc, write_any. rewrite gtop_w.
    unfold wf_msg in Hw.
    destruct (find_msg S name) as [md|] eqn:Em; [|cbn [wf_fld] in Hw; rewrite Em in Hw; discriminate].
    cbn [write_base]. rewrite Em.
    rewrite (write_msg_body f name md fs [] (write_base_ok f) Em Hw Hs Hz Hd). reflexivity.
  Qed.
End WriterRefines.

(* ================================================================== reader *)
Lemma rd_varint_enc v r : 0 <= v < 2 ^ 64 -> rd_varint (varint_enc v ++ r) = Some (v, r).
Proof.
  intros H. unfold rd_varint. rewrite varint_dec_enc' by exact H.
  destruct (Z.ltb_spec (plen (varint_enc v)) 0) as [Hl|_]; [pose proof (plen_nonneg (varint_enc v)); lia|].
  unfold plen. rewrite Nat2Z.id, skipn_app_len. reflexivity.
Qed.

Lemma consume_tag_enc n wt r : 1 <= n <= MAX_FIELD_NUMBER -> 0 <= wt < 8 ->
  consume_tag (varint_enc (n * 8 + wt) ++ r) = Some (n, wt, r).
Proof.
  unfold MAX_FIELD_NUMBER. intros Hn Hw. unfold consume_tag.
  rewrite rd_varint_enc by (change (2 ^ 64) with 18446744073709551616; lia).
  replace ((n * 8 + wt) / 8) with n by (Z.div_mod_to_equations; lia).
  replace ((n * 8 + wt) mod 8) with wt by (Z.div_mod_to_equations; lia).
  destruct (Z.gtb_spec n 2147483647); [lia|]. destruct (Z.ltb_spec n 1); [lia|]. reflexivity.
Qed.

Lemma take_le_enc n v r : take (Z.of_nat n) (le_enc n v ++ r) = Some (le_enc n v, r).
Proof. rewrite <- (le_enc_plen n v). apply take_app. Qed.

Lemma le_dec_enc0 n v : 0 <= v < 256 ^ Z.of_nat n -> le_dec n (le_enc n v) = v.
Proof. intros H. rewrite <- (app_nil_r (le_enc n v)). apply le_dec_enc. exact H. Qed.

Lemma to_s32_id v : - 2147483648 <= v < 2147483648 -> to_s 32 v = v.
Proof. intros H. unfold to_s. change (2 ^ (32 - 1)) with 2147483648. change (2 ^ 32) with 4294967296. Z.div_mod_to_equations. lia. Qed.

Lemma rd_bytes_enc s r : plen s < 2 ^ 64 -> rd_bytes (varint_enc (plen s) ++ s ++ r) = Some (s, r).
Proof.
  intros H. unfold rd_bytes. rewrite rd_varint_enc by (pose proof (plen_nonneg s); lia). apply take_app.
Qed.

Lemma read_scalar_enc k x r : is_numeric k = true -> scalar_okb k x = true ->
  read_scalar k (wenc_val (scalar_to_wire k x) ++ r) = Some (g_scalar k x, r).
Proof.
  intros Hn Hok. apply is_numeric_cases in Hn. cbn [In] in Hn.
  repeat (destruct Hn as [<-|Hn]); try contradiction;
  unfold scalar_okb in Hok; cbn [Z.eqb Pos.eqb orb] in Hok;
  unfold read_scalar, g_scalar, scalar_to_wire, wt_of_kind;
  cbn [Z.eqb Pos.eqb orb andb wenc_val];
  change (2 ^ 64) with 18446744073709551616 in *; change (2 ^ 32) with 4294967296 in *.
  - (* double *) kill_bounds Hok. rewrite Z.mod_small by lia. rewrite (take_le_enc 8).
    rewrite le_dec_enc0 by (change (256 ^ Z.of_nat 8) with 18446744073709551616; lia). reflexivity.
  - (* float *) kill_bounds Hok. rewrite Z.mod_small by lia. rewrite (take_le_enc 4).
    rewrite le_dec_enc0 by (change (256 ^ Z.of_nat 4) with 4294967296; lia). reflexivity.
  - (* int64 *) kill_bounds Hok. rewrite rd_varint_enc by (apply Z.mod_pos_bound; lia).
    rewrite to_s64_mod64 by lia. reflexivity.
  - (* uint64 *) kill_bounds Hok. rewrite Z.mod_small by lia.
    rewrite rd_varint_enc by (change (2 ^ 64) with 18446744073709551616; lia). reflexivity.
  - (* int32 *) kill_bounds Hok. rewrite rd_varint_enc by (apply Z.mod_pos_bound; lia).
    rewrite to_s32_mod64 by lia. reflexivity.
  - (* fixed64 *) kill_bounds Hok. rewrite Z.mod_small by lia. rewrite (take_le_enc 8).
    rewrite le_dec_enc0 by (change (256 ^ Z.of_nat 8) with 18446744073709551616; lia). reflexivity.
  - (* fixed32 *) kill_bounds Hok. rewrite Z.mod_small by lia. rewrite (take_le_enc 4).
    rewrite le_dec_enc0 by (change (256 ^ Z.of_nat 4) with 4294967296; lia). reflexivity.
  - (* bool *) apply orb_true_iff in Hok. destruct Hok as [E|E]; apply Z.eqb_eq in E; subst x; reflexivity.
  - (* uint32 *) kill_bounds Hok. rewrite (Z.mod_small x 18446744073709551616) by lia.
    rewrite rd_varint_enc by (change (2 ^ 64) with 18446744073709551616; lia).
    rewrite Z.mod_small by lia. reflexivity.
  - (* enum *) kill_bounds Hok. rewrite rd_varint_enc by (apply Z.mod_pos_bound; lia).
    rewrite to_s32_mod64 by lia. reflexivity.
  - (* sfixed32 *) kill_bounds Hok. rewrite (take_le_enc 4).
    rewrite le_dec_enc0 by (change (256 ^ Z.of_nat 4) with 4294967296; apply Z.mod_pos_bound; lia).
    rewrite to_s32_mod32 by lia. reflexivity.
  - (* sfixed64 *) kill_bounds Hok. rewrite (take_le_enc 8).
    rewrite le_dec_enc0 by (change (256 ^ Z.of_nat 8) with 18446744073709551616; apply Z.mod_pos_bound; lia).
    rewrite to_s64_mod64 by lia. reflexivity.
  - (* sint32 *) kill_bounds Hok. pose proof (zigzag_enc_range32 x ltac:(lia)).
    rewrite rd_varint_enc by (change (2 ^ 64) with 18446744073709551616; lia).
    rewrite Z.mod_small by lia. rewrite zigzag_dec_enc. rewrite to_s32_id by lia. reflexivity.
  - (* sint64 *) kill_bounds Hok. pose proof (zigzag_enc_range64 x ltac:(lia)).
    rewrite rd_varint_enc by (change (2 ^ 64) with 18446744073709551616; lia).
    rewrite zigzag_dec_enc. reflexivity.
Qed.

Lemma read_bytes_enc k s r : is_byteskind k = true -> plen s < 2 ^ 64 ->
  read_scalar k (wenc_val (WBytes s) ++ r) = Some ((if k =? 9 then GStr s else GBytes s), r).
Proof.
  unfold is_byteskind. intros Hk Hl. cbn [wenc_val]. rewrite <- app_assoc.
  apply orb_true_iff in Hk. destruct Hk as [E|E]; apply Z.eqb_eq in E; subst k;
  unfold read_scalar, wt_of_kind; cbn [Z.eqb Pos.eqb orb andb]; rewrite rd_bytes_enc by exact Hl; reflexivity.
Qed.

(* ------------------------------------------------------------------ maps built from pairwise distinct keys keep the order *)
Lemma upsert_by_absent {A B} (eqb : A -> A -> bool) (k : A) (v : B) l :
  (forall ky, In ky l -> eqb k (fst ky) = false) -> upsert_by eqb k v l = l ++ [(k, v)].
Proof.
  induction l as [|[k' v'] l IH]; intros H; [reflexivity|].
  cbn [upsert_by]. pose proof (H (k', v') (or_introl eq_refl)) as E. cbn [fst] in E. rewrite E. cbn [app]. f_equal.
  apply IH. intros ky Hin. apply H. right. exact Hin.
Qed.

(* every key differs (as the map compares them) from all the keys before it *)
Inductive fresh_keys {A B} (eqb : A -> A -> bool) : list (A * B) -> list (A * B) -> Prop :=
| fk_nil acc : fresh_keys eqb acc []
| fk_cons acc kv l : (forall ky, In ky acc -> eqb (fst kv) (fst ky) = false) ->
                     fresh_keys eqb (acc ++ [kv]) l -> fresh_keys eqb acc (kv :: l).

Lemma fold_upsert_fresh {A B} (eqb : A -> A -> bool) (l : list (A * B)) : forall acc, fresh_keys eqb acc l ->
  fold_left (fun a kv => upsert_by eqb (fst kv) (snd kv) a) l acc = acc ++ l.
Proof.
  induction l as [|[k v] l IH]; intros acc H; [rewrite app_nil_r; reflexivity|].
  inversion H as [|? ? ? Hk Hr]; subst. cbn [fold_left fst snd].
  rewrite upsert_by_absent by exact Hk. rewrite IH by exact Hr. rewrite <- app_assoc. reflexivity.
Qed.

Lemma build_map_fresh {A B} (eqb : A -> A -> bool) (l : list (A * B)) : fresh_keys eqb [] l -> build_map eqb l = l.
Proof. intros H. unfold build_map. rewrite fold_upsert_fresh by exact H. reflexivity. Qed.

(* keys that are images of pairwise different source keys under a map that reflects equality *)
Lemma fresh_keys_map {K A B X} (eqk : K -> K -> bool) (eqb : A -> A -> bool) (g : X -> A * B) (key : X -> K) (l : list X) :
  (forall x y, In x l -> In y l -> eqb (fst (g y)) (fst (g x)) = true -> eqk (key x) (key y) = true) ->
  nodupb eqk (map key l) = true ->
  forall acc, (forall a x, In a acc -> In x l -> eqb (fst (g x)) (fst a) = false) -> fresh_keys eqb acc (map g l).
Proof.
  induction l as [|x l IH]; intros Hinj Hnd acc Hacc; cbn [map]; [constructor|].
  cbn [map nodupb] in Hnd. apply andb_true_iff in Hnd as [Hx Hnd]. apply negb_true_iff in Hx.
  constructor.
  - intros ky Hin. apply (Hacc ky x Hin). left. reflexivity.
  - apply IH.
    + intros a b Ha Hb. apply Hinj; right; assumption.
    + exact Hnd.
    + intros a y Ha Hy. apply in_app_or in Ha. destruct Ha as [Ha|[<-|[]]].
      * apply (Hacc a y Ha). right. exact Hy.
      * destruct (eqb (fst (g y)) (fst (g x))) eqn:E; [|reflexivity]. exfalso.
        assert (Hk : eqk (key x) (key y) = true) by (apply Hinj; [left; reflexivity|right; exact Hy|exact E]).
        assert (existsb (eqk (key x)) (map key l) = true).
        { apply existsb_exists. exists (key y). split; [apply in_map; exact Hy|exact Hk]. }
        congruence.
Qed.

Lemma wenc_val_cons w : exists b t, wenc_val w = b :: t.
Proof.
  destruct w as [v|v|v|bs]; cbn [wenc_val].
  - apply varint_enc_cons.
  - cbn. eauto.
  - cbn. eauto.
  - destruct (varint_enc_cons (plen bs)) as [b [t E]]. rewrite E. cbn. eauto.
Qed.

Lemma mkey_eqb_refl k : mkey_eqb k k = true.
Proof. destruct k as [k x|s]; cbn; [rewrite !Z.eqb_refl; reflexivity|apply bytes_eqb_refl]. Qed.

(* the Go rendering of map keys reflects key equality *)
Lemma g_scalar_inj k a b : is_numeric k = true -> scalar_okb k a = true -> scalar_okb k b = true ->
  gkey_eqb (g_scalar k a) (g_scalar k b) = true -> a = b.
Proof.
  intros Hn Ha Hb. apply is_numeric_cases in Hn. cbn [In] in Hn.
  repeat (destruct Hn as [<-|Hn]); try contradiction;
  unfold scalar_okb in Ha, Hb; cbn [Z.eqb Pos.eqb orb] in Ha, Hb;
  unfold g_scalar; cbn [Z.eqb Pos.eqb orb gkey_eqb GT_I32 GT_I64 GT_U32 GT_U64 GT_ENUM andb]; intros H;
  try (apply Z.eqb_eq in H; exact H).
  - (* fixed64 *) apply Z.eqb_eq in H. kill_bounds Ha. kill_bounds Hb. revert H. unfold to_s.
    change (2 ^ (64 - 1)) with 9223372036854775808. change (2 ^ 64) with 18446744073709551616. intros H.
    Z.div_mod_to_equations. lia.
  - (* fixed32 *) apply Z.eqb_eq in H. kill_bounds Ha. kill_bounds Hb. revert H. unfold to_s.
    change (2 ^ (32 - 1)) with 2147483648. change (2 ^ 32) with 4294967296. intros H.
    Z.div_mod_to_equations. lia.
  - (* bool *) apply orb_true_iff in Ha. apply orb_true_iff in Hb.
    destruct Ha as [E|E]; apply Z.eqb_eq in E; subst a; destruct Hb as [E|E]; apply Z.eqb_eq in E; subst b;
    cbn in H; try reflexivity; discriminate.
Qed.

Lemma g_key_inj kk a b : key_okb kk a = true -> key_okb kk b = true -> gkey_eqb (g_key a) (g_key b) = true -> mkey_eqb a b = true.
Proof.
  intros Ha Hb H. destruct a as [k x|s], b as [k' y|s']; cbn [key_okb] in Ha, Hb.
  - apply andb_true_iff in Ha as [Ha Hoa]. apply andb_true_iff in Ha as [Ea Hn]. apply Z.eqb_eq in Ea. subst k.
    apply andb_true_iff in Hb as [Hb Hob]. apply andb_true_iff in Hb as [Eb _]. apply Z.eqb_eq in Eb. subst k'.
    cbn [g_key] in H. rewrite (g_scalar_inj kk x y Hn Hoa Hob H). apply mkey_eqb_refl.
  - apply andb_true_iff in Ha as [Ha Hoa]. apply andb_true_iff in Ha as [Ea Hn]. apply Z.eqb_eq in Ea. subst k.
    apply andb_true_iff in Hb as [Eb _]. apply Z.eqb_eq in Eb. subst kk. discriminate Hn.
  - apply andb_true_iff in Hb as [Hb Hob]. apply andb_true_iff in Hb as [Eb Hn]. apply Z.eqb_eq in Eb. subst k'.
    apply andb_true_iff in Ha as [Ea _]. apply Z.eqb_eq in Ea. subst kk. discriminate Hn.
  - cbn [g_key gkey_eqb] in H. exact H.
Qed.

(* one-step unfoldings of the fuel-driven loops on a non-empty buffer *)
Lemma read_more_S rec fuel num t bs : bs <> [] ->
  read_more rec (Datatypes.S fuel) num t bs =
  match consume_tag bs with
  | None => None
  | Some (num', _, r) =>
    if negb (num' =? num) then Some ([], bs) else
    match rec t true r with
    | None => None
    | Some (v, r1) => match read_more rec fuel num t r1 with Some (l, r2) => Some (v :: l, r2) | None => None end
    end
  end.
Proof. destruct bs; [contradiction|reflexivity]. Qed.

Lemma read_more_pairs_S rec fuel num kk t bs : bs <> [] ->
  read_more_pairs rec (Datatypes.S fuel) num kk t bs =
  match consume_tag bs with
  | None => None
  | Some (num', _, r) =>
    if negb (num' =? num) then Some ([], bs) else
    match rd_varint r with
    | None => None
    | Some (_, r0) =>
      match read_pair rec kk t r0 with
      | None => None
      | Some (k, v, r1) =>
        match read_more_pairs rec fuel num kk t r1 with Some (l, r2) => Some ((k, v) :: l, r2) | None => None end
      end
    end
  end.
Proof. destruct bs; [contradiction|reflexivity]. Qed.

Lemma read_fields_S dis rec fuel md bs : bs <> [] ->
  read_fields dis rec (Datatypes.S fuel) md bs =
  match consume_tag bs with
  | None => None
  | Some (num, wt, r) =>
    match find_field md num with
    | None => if dis then None else read_fields dis rec fuel md (skip_val wt r)
    | Some fd =>
      match read_any rec (fd_label fd) (fd_type fd) true (match fd_label fd with LSingular => r | _ => bs end) with
      | None => None
      | Some (v, r') => match read_fields dis rec fuel md r' with Some l => Some ((fd, v) :: l) | None => None end
      end
    end
  end.
Proof. destruct bs; [contradiction|reflexivity]. Qed.

Lemma app_cons_ne {A} (x : list A) y b t : x = b :: t -> x ++ y <> [].
Proof. intros -> H. discriminate H. Qed.

Lemma length_app_cons_lt {A} (x y : list A) b t n : x = b :: t -> (length (x ++ y) < Datatypes.S n)%nat -> (length y < n)%nat.
Proof. intros -> H. cbn in H. rewrite app_length in H. lia. Qed.

Section ReaderRefines.
  Variable S : schema.
  Variables disallow byname : bool.

  Let gvr := gval_of S byname true.

  (* what the recursive call (ReadBaseTypeWithDesc with hasMessageLen) must do on values nested less than f deep *)
  Definition rrec_ok (rec : ftype -> bool -> list Z -> option (gval * list Z)) (f : nat) : Prop :=
    forall t v r, wf_fld S LSingular t v = true -> sizes_ok v = true -> (depth v < f)%nat ->
      rec t true (wenc_val (sval v) ++ r) = Some (gvr t v, r).

  (* the bytes after a field: nothing, or a tag with another field number *)
  Definition other_start (n : Z) (rest : list Z) : Prop :=
    rest = [] \/ exists n' wt' r', rest = varint_enc (n' * 8 + wt') ++ r' /\ 1 <= n' <= MAX_FIELD_NUMBER /\
                                   0 <= wt' < 8 /\ n' <> n.

  Section Loops.
    Variable rec : ftype -> bool -> list Z -> option (gval * list Z).
    Variable f : nat.
    Hypothesis Hrec : rrec_ok rec f.

    Definition relem_ok (t : ftype) (v : pval) : Prop :=
      wf_fld S LSingular t v = true /\ sizes_ok v = true /\ (depth v < f)%nat.

    Lemma read_packed_ok t vs rest : type_numeric t = true -> Forall (relem_ok t) vs -> forall fuel, (length vs <= fuel)%nat ->
      read_packed rec fuel t (plen (flat_map packed_elem vs)) (flat_map packed_elem vs ++ rest) = Some (map (gvr t) vs, rest).
    Proof.
      intros Hnum. induction 1 as [|v vs [Hw [Hz Hd]] _ IH]; intros fuel Hf.
      - cbn [flat_map map]. destruct fuel; reflexivity.
      - cbn [flat_map map]. destruct fuel as [|fuel]; [cbn in Hf; lia|].
        rewrite (packed_elem_sval S t v Hw Hnum).
        destruct (wenc_val_cons (sval v)) as [b0 [t0 E0]].
        cbn [read_packed].
        assert (Hpos : 0 < plen (wenc_val (sval v))) by (rewrite E0; unfold plen; cbn [length]; lia).
        pose proof (plen_nonneg (flat_map packed_elem vs)) as Hp2.
        destruct (Z.leb_spec (plen (wenc_val (sval v) ++ flat_map packed_elem vs)) 0) as [Hl|_];
          [rewrite plen_app in Hl; lia|].
        rewrite <- app_assoc. rewrite (Hrec t v _ Hw Hz Hd).
        replace (plen (wenc_val (sval v) ++ flat_map packed_elem vs) -
                 (plen (wenc_val (sval v) ++ flat_map packed_elem vs ++ rest) - plen (flat_map packed_elem vs ++ rest)))
          with (plen (flat_map packed_elem vs)) by (rewrite !plen_app; lia).
        rewrite IH by (cbn in Hf; lia). reflexivity.
    Qed.

    Lemma read_more_ok n t vs rest : 1 <= n <= MAX_FIELD_NUMBER -> other_start n rest -> Forall (relem_ok t) vs ->
      forall fuel, (length (wenc (map (pair n) (map sval vs)) ++ rest) < fuel)%nat ->
      read_more rec fuel n t (wenc (map (pair n) (map sval vs)) ++ rest) = Some (map (gvr t) vs, rest).
    Proof.
      intros Hn Ho. induction 1 as [|v vs [Hw [Hz Hd]] _ IH]; intros fuel Hf.
      - cbn [map wenc flat_map app] in *. destruct Ho as [->|[n' [wt' [r' [-> [Hn' [Hw' Hne]]]]]]].
        + destruct fuel; reflexivity.
        + destruct fuel as [|fuel]; [lia|]. destruct (varint_enc_cons (n' * 8 + wt')) as [b0 [t0 E0]].
          rewrite read_more_S by (apply (app_cons_ne _ _ _ _ E0)).
          rewrite consume_tag_enc by assumption.
          destruct (Z.eqb_spec n' n); [contradiction|]. reflexivity.
      - destruct (sval_wt S t v Hw) as [Hwt Hr].
        assert (Ebs : wenc (map (pair n) (map sval (v :: vs))) ++ rest =
                      varint_enc (n * 8 + kind2wire (kind_of_type t)) ++ wenc_val (sval v) ++
                      wenc (map (pair n) (map sval vs)) ++ rest).
        { cbn [map]. rewrite wenc_cons. unfold wenc_field. cbn [fst snd]. rewrite Hwt, <- !app_assoc. reflexivity. }
        rewrite Ebs in *.
        destruct fuel as [|fuel]; [lia|]. destruct (varint_enc_cons (n * 8 + kind2wire (kind_of_type t))) as [b0 [t0 E0]].
        rewrite read_more_S by (apply (app_cons_ne _ _ _ _ E0)).
        rewrite consume_tag_enc by assumption. rewrite Z.eqb_refl. cbn [negb].
        rewrite (Hrec t v _ Hw Hz Hd).
        rewrite IH; [reflexivity|].
        apply (length_app_cons_lt _ _ _ _ _ E0) in Hf. rewrite app_length in Hf. lia.
    Qed.

    Lemma Forall_relem_ok t vs :
      forallb (fun x => wf_fld S LSingular t x) vs = true -> forallb sizes_ok vs = true ->
      (fold_right (fun y m => Nat.max (depth y) m) O vs < f)%nat -> Forall (relem_ok t) vs.
    Proof.
      intros Hw Hz Hd. apply Forall_forall. intros x Hx.
      rewrite forallb_forall in Hw, Hz. repeat split; auto.
      pose proof (depth_elem_le vs x Hx). lia.
    Qed.

    Lemma packed_len_ge t vs : type_numeric t = true -> Forall (relem_ok t) vs ->
      (length vs <= length (flat_map packed_elem vs))%nat.
    Proof.
      intros Hnum. induction 1 as [|v vs [Hw _] _ IH]; [cbn; lia|].
      cbn [flat_map length]. rewrite app_length. rewrite (packed_elem_sval S t v Hw Hnum).
      destruct (wenc_val_cons (sval v)) as [b0 [t0 E0]]. rewrite E0. cbn [length]. lia.
    Qed.

    Lemma read_list_ok n p t v rest :
      1 <= n <= MAX_FIELD_NUMBER -> wf_fld S (LRepeated p) t v = true -> sizes_ok v = true -> (depth v < f)%nat ->
      other_start n rest ->
      read_list rec p t (wenc (wfld n v) ++ rest) = Some (gvr t v, rest).
    Proof.
      intros Hn Hw Hz Hd Ho.
      destruct (wfld_fvals S _ t v n Hw) as [Ew _]. rewrite Ew.
      destruct v as [| | |q vs|]; cbn [wf_fld] in Hw; try discriminate.
      apply andb_true_iff in Hw as [Hw Hall]. apply andb_true_iff in Hw as [Hw Hlen]. apply andb_true_iff in Hw as [Hq Hne].
      apply eqb_prop in Hq. cbn [sizes_ok] in Hz. apply andb_true_iff in Hz as [Hz1 Hz].
      cbn [depth] in Hd. pose proof (Forall_relem_ok t vs Hall Hz Hd) as Hel.
      unfold gvr. cbn [gval_of]. fold gvr. unfold read_list. rewrite <- Hq. destruct q; cbn [fvals].
      - symmetry in Hq. apply andb_true_iff in Hq as [_ Hnum].
        cbn [map]. rewrite wenc_cons. unfold wenc_field. cbn [fst snd wt_of_wval wenc_val wenc flat_map].
        rewrite app_nil_r, <- !app_assoc.
        rewrite consume_tag_enc by lia.
        cbn [negb orb] in Hz1. apply Z.ltb_lt in Hz1. pose proof (plen_nonneg (flat_map packed_elem vs)) as Hp.
        rewrite rd_varint_enc by (change (2 ^ 64) with 18446744073709551616; change (2 ^ 31) with 2147483648 in Hz1; lia).
        replace (to_s 64 (plen (flat_map packed_elem vs))) with (plen (flat_map packed_elem vs)).
        2:{ unfold to_s. change (2 ^ (64 - 1)) with 9223372036854775808. change (2 ^ 64) with 18446744073709551616.
            change (2 ^ 31) with 2147483648 in Hz1. Z.div_mod_to_equations. lia. }
        rewrite read_packed_ok; [reflexivity|exact Hnum|exact Hel|].
        rewrite app_length.
        pose proof (packed_len_ge t vs Hnum Hel). lia.
      - destruct vs as [|v vs]; [discriminate|]. inversion Hel as [|? ? [Hwv [Hzv Hdv]] Hel']; subst.
        cbn [map]. rewrite wenc_cons. unfold wenc_field. cbn [fst snd]. rewrite <- !app_assoc.
        destruct (sval_wt S t v Hwv) as [Hwt Hr]. rewrite Hwt.
        rewrite consume_tag_enc by assumption.
        rewrite (Hrec t v _ Hwv Hzv Hdv).
        rewrite read_more_ok; [reflexivity|assumption|assumption|assumption|lia].
    Qed.

    Lemma read_key_ok kk k r : key_okb kk k = true -> (0 < f)%nat ->
      rec (TScalar kk) true (wenc_val (snd (key_field k)) ++ r) = Some (g_key k, r) /\
      wt_of_wval (snd (key_field k)) = kind2wire kk /\ 0 <= kind2wire kk < 8.
    Proof.
      intros Hk Hf. destruct k as [k' x|s]; cbn [key_okb] in Hk.
      - apply andb_true_iff in Hk as [Hk Hok]. apply andb_true_iff in Hk as [Ek Hn]. apply Z.eqb_eq in Ek. subst k'.
        assert (Hw : wf_fld S LSingular (TScalar kk) (VScalar kk x) = true).
        { cbn [wf_fld]. rewrite Z.eqb_refl, Hn, Hok. reflexivity. }
        split; [exact (Hrec (TScalar kk) (VScalar kk x) r Hw eq_refl Hf)|].
        exact (sval_wt S (TScalar kk) (VScalar kk x) Hw).
      - apply andb_true_iff in Hk as [Ek Hlen]. apply Z.eqb_eq in Ek. subst kk.
        assert (Hw : wf_fld S LSingular (TScalar 9) (VBytes 9 s) = true).
        { cbn [wf_fld]. rewrite Hlen. reflexivity. }
        split; [|exact (sval_wt S (TScalar 9) (VBytes 9 s) Hw)].
        exact (Hrec (TScalar 9) (VBytes 9 s) r Hw eq_refl Hf).
    Qed.

    Definition rentry_ok (kk : Z) (t : ftype) (kx : mkey * pval) : Prop :=
      key_okb kk (fst kx) = true /\ plen (wenc [key_field (fst kx); (2, sval (snd kx))]) < 2 ^ 31 /\ relem_ok t (snd kx).

    Lemma read_pair_ok kk t k x more : rentry_ok kk t (k, x) ->
      read_pair rec kk t (wenc [key_field k; (2, sval x)] ++ more) = Some (g_key k, gvr t x, more).
    Proof.
      intros [Hk [_ [Hw [Hz Hd]]]]. cbn [fst snd] in *.
      assert (H1 : 1 <= 1 <= MAX_FIELD_NUMBER) by (unfold MAX_FIELD_NUMBER; lia).
      assert (H2 : 1 <= 2 <= MAX_FIELD_NUMBER) by (unfold MAX_FIELD_NUMBER; lia).
      assert (Hf : (0 < f)%nat) by lia.
      destruct (sval_wt S t x Hw) as [Hwt Hr].
      unfold wenc. cbn [flat_map]. rewrite app_nil_r. unfold wenc_field. cbn [fst snd]. rewrite key_field_fst, Hwt.
      rewrite <- !app_assoc.
      destruct (read_key_ok kk k (varint_enc (2 * 8 + kind2wire (kind_of_type t)) ++ wenc_val (sval x) ++ more) Hk Hf)
        as [Ekey [Hkwt Hkr]].
      rewrite Hkwt. unfold read_pair.
      rewrite consume_tag_enc by assumption. rewrite Ekey.
      rewrite consume_tag_enc by assumption. rewrite (Hrec t x _ Hw Hz Hd). reflexivity.
    Qed.

    Lemma entry_bytes n kx : wenc_field (n, entry_wval kx) =
      varint_enc (n * 8 + 2) ++ varint_enc (plen (wenc [key_field (fst kx); (2, sval (snd kx))])) ++
      wenc [key_field (fst kx); (2, sval (snd kx))].
    Proof. reflexivity. Qed.

    Lemma read_more_pairs_ok n kk t kvs rest : 1 <= n <= MAX_FIELD_NUMBER -> other_start n rest -> Forall (rentry_ok kk t) kvs ->
      forall fuel, (length (wenc (map (pair n) (map entry_wval kvs)) ++ rest) < fuel)%nat ->
      read_more_pairs rec fuel n kk t (wenc (map (pair n) (map entry_wval kvs)) ++ rest)
      = Some (map (fun kx => (g_key (fst kx), gvr t (snd kx))) kvs, rest).
    Proof.
      intros Hn Ho. induction 1 as [|[k x] kvs Hent _ IH]; intros fuel Hf.
      - cbn [map wenc flat_map app] in *. destruct Ho as [->|[n' [wt' [r' [-> [Hn' [Hw' Hne]]]]]]].
        + destruct fuel; reflexivity.
        + destruct fuel as [|fuel]; [lia|]. destruct (varint_enc_cons (n' * 8 + wt')) as [b0 [t0 E0]].
          rewrite read_more_pairs_S by (apply (app_cons_ne _ _ _ _ E0)).
          rewrite consume_tag_enc by assumption.
          destruct (Z.eqb_spec n' n); [contradiction|]. reflexivity.
      - assert (Ebs : wenc (map (pair n) (map entry_wval ((k, x) :: kvs))) ++ rest =
                      varint_enc (n * 8 + 2) ++ varint_enc (plen (wenc [key_field k; (2, sval x)])) ++
                      wenc [key_field k; (2, sval x)] ++ wenc (map (pair n) (map entry_wval kvs)) ++ rest).
        { cbn [map]. rewrite (wenc_cons (n, entry_wval (k, x))). rewrite entry_bytes. cbn [fst snd].
          rewrite <- !app_assoc. reflexivity. }
        rewrite Ebs in *.
        destruct fuel as [|fuel]; [lia|]. destruct (varint_enc_cons (n * 8 + 2)) as [b0 [t0 E0]].
        rewrite read_more_pairs_S by (apply (app_cons_ne _ _ _ _ E0)).
        rewrite consume_tag_enc by lia. rewrite Z.eqb_refl. cbn [negb].
        pose proof Hent as [_ [Hlen _]]. cbn [fst snd] in Hlen.
        pose proof (plen_nonneg (wenc [key_field k; (2, sval x)])) as Hp.
        rewrite rd_varint_enc by (change (2 ^ 64) with 18446744073709551616; change (2 ^ 31) with 2147483648 in Hlen; lia).
        rewrite (read_pair_ok kk t k x _ Hent).
        rewrite IH; [reflexivity|].
        apply (length_app_cons_lt _ _ _ _ _ E0) in Hf. rewrite !app_length in Hf. rewrite app_length. lia.
    Qed.

    Lemma read_map_ok n kk t v rest :
      1 <= n <= MAX_FIELD_NUMBER -> wf_fld S (LMap kk) t v = true -> sizes_ok v = true -> (depth v < f)%nat ->
      other_start n rest ->
      read_map rec kk t (wenc (wfld n v) ++ rest) = Some (gvr t v, rest).
    Proof.
      intros Hn Hw Hz Hd Ho.
      destruct (wfld_fvals S _ t v n Hw) as [Ew _]. rewrite Ew.
      destruct v as [| | | |kvs]; cbn [wf_fld] in Hw; try discriminate.
      apply andb_true_iff in Hw as [Hw Hall]. apply andb_true_iff in Hw as [Hne Hnd].
      cbn [sizes_ok] in Hz. cbn [depth] in Hd.
      assert (Hent : Forall (rentry_ok kk t) kvs).
      { apply Forall_forall. intros [k x] Hin.
        rewrite forallb_forall in Hall, Hz. specialize (Hall _ Hin). specialize (Hz _ Hin). cbn [fst snd] in *.
        apply andb_true_iff in Hall as [Hall _]. apply andb_true_iff in Hall as [Hk Hwx].
        apply andb_true_iff in Hz as [Hlen Hzx].
        rewrite (wfld_single S t x 2 Hwx) in Hlen. apply Z.ltb_lt in Hlen.
        pose proof (fold_max_ge (fun kx : mkey * pval => depth (snd kx)) kvs (k, x) Hin) as Hm. cbn [snd] in Hm.
        unfold rentry_ok, relem_ok. cbn [fst snd]. repeat split; try assumption. lia. }
      unfold gvr. cbn [gval_of]. fold gvr. cbn [fvals].
      destruct kvs as [|[k x] kvs]; [discriminate|]. inversion Hent as [|? ? Hent1 Hent']; subst.
      assert (Ebs : wenc (map (pair n) (map entry_wval ((k, x) :: kvs))) ++ rest =
                    varint_enc (n * 8 + 2) ++ varint_enc (plen (wenc [key_field k; (2, sval x)])) ++
                    wenc [key_field k; (2, sval x)] ++ wenc (map (pair n) (map entry_wval kvs)) ++ rest).
      { cbn [map]. rewrite (wenc_cons (n, entry_wval (k, x))). rewrite entry_bytes. cbn [fst snd].
        rewrite <- !app_assoc. reflexivity. }
      rewrite Ebs. unfold read_map.
      rewrite consume_tag_enc by lia. cbn [Z.eqb Pos.eqb negb].
      pose proof Hent1 as [_ [Hlen _]]. cbn [fst snd] in Hlen.
      pose proof (plen_nonneg (wenc [key_field k; (2, sval x)])) as Hp.
      rewrite rd_varint_enc by (change (2 ^ 64) with 18446744073709551616; change (2 ^ 31) with 2147483648 in Hlen; lia).
      rewrite (read_pair_ok kk t k x _ Hent1).
      rewrite read_more_pairs_ok; [|assumption|assumption|assumption|lia].
      f_equal. f_equal. f_equal.
      change ((g_key k, gvr t x) :: map (fun kx : mkey * pval => (g_key (fst kx), gvr t (snd kx))) kvs)
        with (map (fun kx : mkey * pval => (g_key (fst kx), gvr t (snd kx))) ((k, x) :: kvs)).
      apply build_map_fresh.
      apply (fresh_keys_map mkey_eqb gkey_eqb (fun kx : mkey * pval => (g_key (fst kx), gvr t (snd kx))) fst ((k, x) :: kvs)).
      - intros a b Ha Hb Hg. cbn [fst] in Hg. rewrite mkey_eqb_sym.
        rewrite Forall_forall in Hent. destruct (Hent a Ha) as [Hka _]. destruct (Hent b Hb) as [Hkb _].
        exact (g_key_inj kk _ _ Hkb Hka Hg).
      - exact Hnd.
      - intros a y [].
    Qed.

    (* one field of a message: the tag the field loop peeks at, and the value ReadAnyWithDesc answers *)
    Lemma read_field_ok lbl t v n rest :
      1 <= n <= MAX_FIELD_NUMBER -> wf_fld S lbl t v = true -> sizes_ok v = true -> (depth v < f)%nat -> other_start n rest ->
      exists wt r b0 t0, wenc (wfld n v) = b0 :: t0 /\ 0 <= wt < 8 /\
        wenc (wfld n v) ++ rest = varint_enc (n * 8 + wt) ++ r /\
        read_any rec lbl t true (match lbl with LSingular => r | _ => wenc (wfld n v) ++ rest end) = Some (gvr t v, rest).
    Proof.
      intros Hn Hw Hz Hd Ho.
      destruct (wfld_fvals S _ t v n Hw) as [Ew Hne].
      destruct (fvals v) as [|w ws] eqn:Ef; [contradiction|].
      assert (Etag : wenc (wfld n v) ++ rest = varint_enc (n * 8 + wt_of_wval w) ++ wenc_val w ++ wenc (map (pair n) ws) ++ rest).
      { rewrite Ew. cbn [map]. rewrite wenc_cons. unfold wenc_field. cbn [fst snd]. rewrite <- !app_assoc. reflexivity. }
      assert (Hwr : 0 <= wt_of_wval w < 8) by (destruct (wt_of_wval_cases w) as [E|[E|[E|E]]]; rewrite E; lia).
      destruct (varint_enc_cons (n * 8 + wt_of_wval w)) as [b0 [t0 E0]].
      exists (wt_of_wval w), (wenc_val w ++ wenc (map (pair n) ws) ++ rest), b0, (t0 ++ wenc_val w ++ wenc (map (pair n) ws)).
      split.
      { rewrite Ew. cbn [map]. rewrite wenc_cons. unfold wenc_field. cbn [fst snd]. rewrite E0. rewrite <- !app_assoc. reflexivity. }
      split; [exact Hwr|]. split; [exact Etag|].
      destruct lbl as [|p|kk]; cbn [read_any].
      - assert (Es : fvals v = [sval v]) by (destruct v; cbn [wf_fld] in Hw; try discriminate; reflexivity).
        rewrite Es in Ef. injection Ef as <- <-. cbn [map wenc flat_map app].
        apply (Hrec t v rest Hw Hz Hd).
      - apply read_list_ok; assumption.
      - apply read_map_ok; assumption.
    Qed.

    Definition rfield_ok (md : mdesc) (nv : Z * pval) : Prop :=
      exists fd, find_field md (fst nv) = Some fd /\ 1 <= fst nv <= MAX_FIELD_NUMBER /\
                 wf_fld S (fd_label fd) (fd_type fd) (snd nv) = true /\ sizes_ok (snd nv) = true /\ (depth (snd nv) < f)%nat.

    Definition the_fd (md : mdesc) (n : Z) : fdesc :=
      match find_field md n with Some fd => fd | None => mk_fdesc 0 [] [] LSingular (TScalar 0) end.

    Lemma msg_wire_start md n fs : Forall (rfield_ok md) fs -> (forall nv, In nv fs -> fst nv <> n) ->
      other_start n (wenc (msg_wire fs)).
    Proof.
      intros Hall Hne. destruct fs as [|[n' v'] fs]; [left; reflexivity|right].
      inversion Hall as [|? ? [fd [Hfd [Hn' [Hw _]]]] _]; subst. cbn [fst snd] in *.
      destruct (wfld_fvals S _ _ v' n' Hw) as [Ew Hnn].
      destruct (fvals v') as [|w ws]; [contradiction|].
      exists n', (wt_of_wval w), (wenc_val w ++ wenc (map (pair n') ws) ++ wenc (msg_wire fs)).
      split.
      { unfold msg_wire. cbn [flat_map fst snd]. rewrite wenc_app, Ew. cbn [map]. rewrite wenc_cons. unfold wenc_field.
        cbn [fst snd]. rewrite <- !app_assoc. reflexivity. }
      split; [exact Hn'|]. split; [destruct (wt_of_wval_cases w) as [E|[E|[E|E]]]; rewrite E; lia|].
      apply (Hne (n', v')). left. reflexivity.
    Qed.

    Lemma consume_tag_nonempty bs x : consume_tag bs = Some x -> bs <> [].
    Proof. intros H ->. discriminate H. Qed.

    Lemma read_fields_ok md fs : Forall (rfield_ok md) fs -> nodupb Z.eqb (map fst fs) = true ->
      forall fuel, (length (wenc (msg_wire fs)) < fuel)%nat ->
      read_fields disallow rec fuel md (wenc (msg_wire fs))
      = Some (map (fun nv => (the_fd md (fst nv), gvr (fd_type (the_fd md (fst nv))) (snd nv))) fs).
    Proof.
      induction 1 as [|[n v] fs Hfo Hall IH]; intros Hnd fuel Hf.
      - cbn. destruct fuel; reflexivity.
      - cbn [map nodupb] in Hnd. apply andb_true_iff in Hnd as [Hx Hnd]. apply negb_true_iff in Hx. cbn [fst] in Hx.
        assert (Hne : forall nv, In nv fs -> fst nv <> n).
        { intros nv Hin E. assert (existsb (Z.eqb n) (map fst fs) = true); [|congruence].
          apply existsb_exists. exists (fst nv). split; [apply in_map; exact Hin|apply Z.eqb_eq; symmetry; exact E]. }
        pose proof (msg_wire_start md n fs Hall Hne) as Ho.
        destruct Hfo as [fd [Hfd [Hn [Hw [Hz Hd]]]]]. cbn [fst snd] in *.
        destruct (read_field_ok (fd_label fd) (fd_type fd) v n (wenc (msg_wire fs)) Hn Hw Hz Hd Ho)
          as [wt [r [b0 [t0 [Ene [Hwt [Etag Hra]]]]]]].
        assert (Ebs : wenc (msg_wire ((n, v) :: fs)) = wenc (wfld n v) ++ wenc (msg_wire fs)).
        { unfold msg_wire. cbn [flat_map fst snd]. apply wenc_app. }
        rewrite Ebs in *.
        destruct fuel as [|fuel]; [lia|].
        rewrite read_fields_S by (rewrite Ene; discriminate).
        rewrite Etag at 1. rewrite consume_tag_enc by assumption. rewrite Hfd.
        assert (Earg : match fd_label fd with LSingular => r | _ => wenc (wfld n v) ++ wenc (msg_wire fs) end =
                       match fd_label fd with LSingular => r | _ => wenc (wfld n v) ++ wenc (msg_wire fs) end) by reflexivity.
        rewrite Hra. rewrite IH; [|exact Hnd|rewrite Ene in Hf; cbn in Hf; rewrite app_length in Hf; lia].
        assert (Et : the_fd md n = fd) by (unfold the_fd; rewrite Hfd; reflexivity).
        cbn [map fst snd]. rewrite Et. reflexivity.
    Qed.
  End Loops.

  Hypothesis Hnames : byname = true -> forall name md n fd, find_msg S name = Some md -> find_field md n = Some fd ->
    find_field_name md (fd_name fd) = Some fd.

  Local Notation rb := (read_base S disallow byname).

  Lemma rfields_forall f name md fs :
    find_msg S name = Some md -> wf_fld S LSingular (TMsg name) (VMsg fs) = true ->
    sizes_ok (VMsg fs) = true -> (depth (VMsg fs) < Datatypes.S f)%nat ->
    Forall (rfield_ok f md) fs /\ nodupb Z.eqb (map fst fs) = true.
  Proof.
    intros Em Hw Hz Hd. cbn [wf_fld] in Hw. rewrite Em in Hw.
    apply andb_true_iff in Hw as [Hw Hall]. apply andb_true_iff in Hw as [Hnd _]. cbn [sizes_ok] in Hz.
    apply andb_true_iff in Hz as [_ Hz]. cbn [depth] in Hd. split; [|exact Hnd].
    apply Forall_forall. intros [n v] Hin. rewrite forallb_forall in Hall, Hz.
    specialize (Hall _ Hin). specialize (Hz _ Hin). cbn [fst snd] in *.
    destruct (find_field md n) as [fd|] eqn:Ef; [|discriminate].
    apply andb_true_iff in Hall as [Hn Hw]. apply andb_true_iff in Hn as [Hn1 Hn2].
    apply Z.leb_le in Hn1. apply Z.leb_le in Hn2.
    pose proof (fold_max_ge (fun nv : Z * pval => depth (snd nv)) fs (n, v) Hin) as Hm. cbn [snd] in Hm.
    exists fd. cbn [fst snd]. repeat split; try assumption. lia.
  Qed.

  (* the Go map the field loop builds: distinct numbers (names) keep every member, in wire order *)
  Lemma build_msg_ok f name md fs : find_msg S name = Some md -> Forall (rfield_ok f md) fs -> nodupb Z.eqb (map fst fs) = true ->
    build_msg byname (map (fun nv => (the_fd md (fst nv), gvr (fd_type (the_fd md (fst nv))) (snd nv))) fs)
    = if byname then GMapS (map (fun nv => (fld_name S (TMsg name) (fst nv), gvr (fld_type S (TMsg name) (fst nv)) (snd nv))) fs)
      else GMsgN (map (fun nv => (fst nv, gvr (fld_type S (TMsg name) (fst nv)) (snd nv))) fs).
  Proof.
    intros Em Hall Hnd. unfold build_msg. rewrite !map_map. cbn [fst snd].
    assert (Hfd : forall nv, In nv fs -> exists fd, find_field md (fst nv) = Some fd /\ the_fd md (fst nv) = fd /\
                    fld_type S (TMsg name) (fst nv) = fd_type fd /\ fld_name S (TMsg name) (fst nv) = fd_name fd /\ fd_num fd = fst nv).
    { intros nv Hin. rewrite Forall_forall in Hall. destruct (Hall nv Hin) as [fd [Hfd _]]. exists fd.
      unfold the_fd, fld_type, fld_name, fld_of. rewrite Em, Hfd. repeat split; try reflexivity. apply (find_field_num md _ _ Hfd). }
    apply if_cong; intros E; f_equal.
    - rewrite build_map_fresh.
      + apply map_ext_in. intros nv Hin. destruct (Hfd nv Hin) as [fd [_ [E1 [E2 [E3 _]]]]]. rewrite E1, E2, E3. reflexivity.
      + apply (fresh_keys_map Z.eqb bytes_eqb _ fst fs); [|exact Hnd|intros a y []].
        intros x y Hx Hy Hg. cbn [fst] in Hg. apply bytes_eqb_eq in Hg.
        destruct (Hfd x Hx) as [fdx [Hfx [E1x [_ [_ Enx]]]]]. destruct (Hfd y Hy) as [fdy [Hfy [E1y [_ [_ Eny]]]]].
        rewrite E1x, E1y in Hg.
        pose proof (Hnames E name md _ _ Em Hfx) as Hx'. pose proof (Hnames E name md _ _ Em Hfy) as Hy'.
        rewrite Hg in Hy'. rewrite Hx' in Hy'. injection Hy' as ->. apply Z.eqb_eq. congruence.
    - rewrite build_map_fresh.
      + apply map_ext_in. intros nv Hin. destruct (Hfd nv Hin) as [fd [_ [E1 [E2 [_ E4]]]]]. rewrite E1, E2, E4. reflexivity.
      + apply (fresh_keys_map Z.eqb Z.eqb _ fst fs); [|exact Hnd|intros a y []].
        intros x y Hx Hy Hg. cbn [fst] in Hg. apply Z.eqb_eq in Hg.
        destruct (Hfd x Hx) as [fdx [_ [E1x [_ [_ Enx]]]]]. destruct (Hfd y Hy) as [fdy [_ [E1y [_ [_ Eny]]]]].
        rewrite E1x, E1y in Hg. apply Z.eqb_eq. congruence.
  Qed.

  Lemma take_all (bs : list Z) : take (plen bs) bs = Some (bs, []).
  Proof. pose proof (take_app bs []) as H. rewrite app_nil_r in H. exact H. Qed.

  Lemma read_base_ok : forall fuel, rrec_ok (rb fuel) fuel.
  Proof.
    induction fuel as [|f IH]; intros t v r Hw Hz Hd; [lia|].
    destruct v as [k x|k s|fs| |]; try (cbn [wf_fld] in Hw; discriminate).
    - cbn [wf_fld] in Hw. destruct t as [k'|]; [|discriminate].
      apply andb_true_iff in Hw as [Hw Hok]. apply andb_true_iff in Hw as [Hk Hn]. apply Z.eqb_eq in Hk. subst k'.
      cbn [read_base]. unfold gvr. cbn [gval_of sval]. apply read_scalar_enc; assumption.
    - cbn [wf_fld] in Hw. destruct t as [k'|]; [|discriminate].
      apply andb_true_iff in Hw as [Hw Hl]. apply andb_true_iff in Hw as [Hk Hb]. apply Z.eqb_eq in Hk. subst k'.
      apply Z.ltb_lt in Hl.
      cbn [read_base]. unfold gvr. cbn [gval_of sval]. apply read_bytes_enc; assumption.
    - destruct t as [|name]; [cbn [wf_fld] in Hw; discriminate|].
      destruct (find_msg S name) as [md|] eqn:Em; [|cbn [wf_fld] in Hw; rewrite Em in Hw; discriminate].
      destruct (rfields_forall f name md fs Em Hw Hz Hd) as [Hall Hnd].
      cbn [sizes_ok] in Hz. apply andb_true_iff in Hz as [Hz1 _]. apply Z.ltb_lt in Hz1.
      pose proof (plen_nonneg (encode_msg fs)) as Hp.
      cbn [read_base sval wenc_val]. rewrite <- app_assoc.
      rewrite rd_varint_enc by (change (2 ^ 64) with 18446744073709551616; change (2 ^ 31) with 2147483648 in Hz1; lia).
      replace (to_s 64 (plen (encode_msg fs))) with (plen (encode_msg fs)).
      2:{ unfold to_s. change (2 ^ (64 - 1)) with 9223372036854775808. change (2 ^ 64) with 18446744073709551616.
          change (2 ^ 31) with 2147483648 in Hz1. Z.div_mod_to_equations. lia. }
      cbn [andb]. destruct fs as [|nv fs].
      + cbn. reflexivity.
      + assert (Hne : plen (encode_msg (nv :: fs)) <> 0).
        { inversion Hall as [|? ? [fd [_ [Hn [Hwv [Hzv Hdv]]]]] _]; subst.
          destruct (read_field_ok (rb f) f IH _ _ _ _ [] Hn Hwv Hzv Hdv (or_introl eq_refl)) as [_ [_ [b0 [t0 [Ene _]]]]].
          unfold encode_msg, msg_wire. cbn [flat_map]. rewrite wenc_app, Ene. unfold plen. cbn [app length]. lia. }
        destruct (Z.eqb_spec (plen (encode_msg (nv :: fs))) 0); [contradiction|].
        rewrite Em. rewrite take_app.
        unfold encode_msg at 1. rewrite (read_fields_ok (rb f) f IH md (nv :: fs) Hall Hnd) by (unfold encode_msg; lia).
        rewrite (build_msg_ok f name md (nv :: fs) Em Hall Hnd). reflexivity.
  Qed.

  (* (T2) ReadAnyWithDesc on the canonical encoding of a well-formed message answers the Go value of the message - every
     Go map as the association list in WIRE order (fields in the order of fs, map entries in the order of the entries),
     empty sub-messages as nil - and leaves no byte unread. *)
  Theorem read_any_refines_decode name fs fuel :
    wf_msg S name fs = true -> sizes_ok (VMsg fs) = true -> (depth (VMsg fs) < fuel)%nat ->
    read_any_desc S disallow byname fuel LSingular (TMsg name) false (encode_msg fs)
    = Some (gtop S byname true name fs, []).
  Proof.
    intros Hw Hz Hd. destruct fuel as [|f]; [lia|]. unfold read_any_desc, read_any. unfold wf_msg in Hw.
    destruct (find_msg S name) as [md|] eqn:Em; [|cbn [wf_fld] in Hw; rewrite Em in Hw; discriminate].
    destruct (rfields_forall f name md fs Em Hw Hz Hd) as [Hall Hnd].
    cbn [read_base andb]. rewrite Em, take_all.
    unfold encode_msg at 1. rewrite (read_fields_ok (rb f) f (read_base_ok f) md fs Hall Hnd) by (unfold encode_msg; lia).
    rewrite (build_msg_ok f name md fs Em Hall Hnd). unfold gtop.
    destruct fs; reflexivity.
  Qed.
End ReaderRefines.

(* ================================================================== by-name lookups, round trip *)
Lemma fdesc_eqb_eq a b : fdesc_eqb a b = true -> a = b.
Proof.
  destruct a as [n1 m1 j1 l1 t1], b as [n2 m2 j2 l2 t2]. unfold fdesc_eqb. cbn [fd_num fd_name fd_json fd_label fd_type].
  intros H. repeat (apply andb_true_iff in H as [H ?H]).
  apply Z.eqb_eq in H. apply bytes_eqb_eq in H3. apply bytes_eqb_eq in H2. subst.
  assert (l1 = l2).
  { destruct l1 as [|p|k], l2 as [|q|k']; cbn in H1; try discriminate; try reflexivity.
    - apply eqb_prop in H1. subst. reflexivity.
    - apply Z.eqb_eq in H1. subst. reflexivity. }
  assert (t1 = t2).
  { destruct t1 as [k|m], t2 as [k'|m']; cbn in H0; try discriminate.
    - apply Z.eqb_eq in H0. subst. reflexivity.
    - apply bytes_eqb_eq in H0. subst. reflexivity. }
  subst. reflexivity.
Qed.

Lemma names_okb_sound S : names_okb S = true ->
  forall name md n fd, find_msg S name = Some md -> find_field md n = Some fd -> find_field_name md (fd_name fd) = Some fd.
Proof.
  intros H name md n fd Hm Hf. unfold find_msg in Hm. apply find_some in Hm as [Hin _].
  unfold find_field in Hf. apply find_some in Hf as [Hfin _].
  unfold names_okb in H. rewrite forallb_forall in H. specialize (H md Hin). rewrite forallb_forall in H.
  specialize (H fd Hfin). destruct (find_field_name md (fd_name fd)) as [fd'|]; [|discriminate].
  apply fdesc_eqb_eq in H. subst. reflexivity.
Qed.

(* without empty sub-messages the reader's rendering is the writer's *)
Lemma gval_of_no_empty S bn v : forall t, no_empty v = true -> gval_of S bn true t v = gval_of S bn false t v.
Proof.
  induction v as [k x|k s|fs IH|p vs IH|kvs IH] using pval_ind'; intros t Hne.
  - reflexivity.
  - reflexivity.
  - cbn [no_empty] in Hne. apply andb_true_iff in Hne as [Hnn Hall].
    cbn [gval_of]. destruct fs as [|nv fs]; [discriminate|]. cbn [is_nil andb].
    rewrite forallb_forall in Hall. rewrite Forall_forall in IH.
    destruct bn; f_equal; apply map_ext_in; intros a Ha; rewrite (IH a Ha _ (Hall a Ha)); reflexivity.
  - cbn [no_empty] in Hne. cbn [gval_of]. f_equal. rewrite forallb_forall in Hne. rewrite Forall_forall in IH.
    apply map_ext_in. intros a Ha. apply (IH a Ha _ (Hne a Ha)).
  - cbn [no_empty] in Hne. cbn [gval_of]. f_equal. rewrite forallb_forall in Hne. rewrite Forall_forall in IH.
    apply map_ext_in. intros a Ha. rewrite (IH a Ha _ (Hne a Ha)). reflexivity.
Qed.

Lemma gtop_no_empty S bn name fs : forallb (fun nv => no_empty (snd nv)) fs = true ->
  gtop S bn true name fs = gtop S bn false name fs.
Proof.
  intros H. unfold gtop. destruct fs as [|nv fs]; [reflexivity|]. cbn [is_nil].
  apply gval_of_no_empty. cbn [no_empty is_nil negb andb]. exact H.
Qed.

(* (T3) the sentence of the property: what WriteAnyWithDesc wrote for a conforming Go value (any field / entry order, every
   kind, packed and unpacked lists, maps, nested messages, by number or by name), ReadAnyWithDesc reads back as the same Go
   value - Go maps as association lists in the order written, an empty sub-message as nil (identical when there is none) -
   and the proved reference decoder sees the same message. *)
Theorem read_write_any S cast dis_w dis_r byname junk name fs fuel :
  (9 <= length junk)%nat -> (byname = true -> names_okb S = true) ->
  wf_msg S name fs = true -> strs_ok (VMsg fs) = true -> sizes_ok (VMsg fs) = true -> (depth (VMsg fs) < fuel)%nat ->
  exists bytes,
    write_any_desc S cast dis_w byname junk true fuel 0 LSingular (TMsg name) false (gtop S byname false name fs) = (bytes, 0) /\
    read_any_desc S dis_r byname fuel LSingular (TMsg name) false bytes = Some (gtop S byname true name fs, []) /\
    decode_top S name bytes = Some fs /\
    (forallb (fun nv => no_empty (snd nv)) fs = true -> gtop S byname true name fs = gtop S byname false name fs).
Proof.
  intros Hj Hnm Hw Hs Hz Hd. exists (encode_msg fs).
  assert (Hnames : byname = true -> forall name md n fd, find_msg S name = Some md -> find_field md n = Some fd ->
                   find_field_name md (fd_name fd) = Some fd).
  { intros E. apply names_okb_sound. apply Hnm. exact E. }
  destruct (write_any_refines_encode S cast dis_w byname junk Hj Hnames name fs fuel Hw Hs Hz Hd) as [H1 H2].
  split; [exact H1|]. split; [apply read_any_refines_decode; assumption|]. split; [exact H2|].
  apply gtop_no_empty.
Qed.
