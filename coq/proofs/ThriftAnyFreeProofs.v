(* WriteAny / ReadAny as coded (model/ThriftAnyFree.v) against the Thrift binary encoding:
     read_free_refines_decode    ReadAny on encode v ++ r answers the Go presentation gval_free v and r, for EVERY well-formed v
     write_free_refines_encode   WriteAny of that presentation appends exactly encode v (values WriteAny can express: free_ok)
     read_write_free             reader after writer *)
From Coq Require Import ZArith List Bool Lia.
From DG Require Import CaseFormat ProtoWireRef ProtoWireRefProofs ThriftWire ThriftWireProofs ThriftGeneric ThriftEnvelope
  ThriftAnyDesc ThriftAnyDescProofs ThriftAnyFree.
Import ListNotations.
Local Open Scope Z_scope.

(* ------------------------------------------------------------------ reader *)
Lemma rf_elems_ok rec t (gv : tval -> gval) es r :
  Forall (fun x => forall r', rec t (encode x ++ r') = Some (gv x, r')) es ->
  rf_elems rec (length es) t (flat_map encode es ++ r) = Some (map gv es, r).
Proof.
  induction 1 as [|x es Hx _ IH]; cbn [length rf_elems flat_map map app]; [reflexivity|].
  rewrite <- app_assoc, Hx, IH. reflexivity.
Qed.

Lemma rf_pairs_ok {K} rec (rk : list Z -> option (K * list Z)) vt (gk : tval -> K) (gv : tval -> gval) es r :
  Forall (fun en : tval * tval => (forall r', rk (encode (fst en) ++ r') = Some (gk (fst en), r')) /\
                                  (forall r', rec vt (encode (snd en) ++ r') = Some (gv (snd en), r'))) es ->
  rf_pairs rec rk (length es) vt (flat_map (fun en => encode (fst en) ++ encode (snd en)) es ++ r)
  = Some (map (fun en => (gk (fst en), gv (snd en))) es, r).
Proof.
  induction 1 as [|en es [Hk Hv] _ IH]; cbn [length rf_pairs flat_map map app]; [reflexivity|].
  rewrite <- !app_assoc, Hk, Hv, IH. reflexivity.
Qed.

Lemma rf_fields_ok rec (gv : tval -> gval) fs r : forall fuel,
  Forall (fun f : Z * tval => in_sb 16 (fst f) = true /\
            forall r', rec (type_of (snd f)) (encode (snd f) ++ r') = Some (gv (snd f), r')) fs ->
  (length fs < fuel)%nat ->
  rf_fields rec fuel (flat_map (fun f => type_of (snd f) :: enc_int 2 (fst f) ++ encode (snd f)) fs ++ 0 :: r)
  = Some (map (fun f => (fst f mod 65536, gv (snd f))) fs, r).
Proof.
  intros fuel H. revert fuel.
  induction H as [|f fs [Hid Hf] _ IH]; intros fuel Hfu; (destruct fuel as [|fuel]; [cbn [length] in Hfu; lia|]).
  - reflexivity.
  - cbn [length] in Hfu. cbn [flat_map map]. rewrite <- !app_assoc. cbn [app rf_fields].
    rewrite type_of_type_valid, type_of_nonzero. cbn [negb]. rewrite <- app_assoc, take_enc_int.
    rewrite dec_int_enc_int; [|lia|apply in_sb_true in Hid; exact Hid].
    rewrite Hf, IH by lia. reflexivity.
Qed.

Lemma rf_key_ok rec kt gv x r :
  rec kt (encode x ++ r) = Some (gv x, r) -> rf_key rec kt (encode x ++ r) = Some (wrap_key (gv x), r).
Proof. intros H. unfold rf_key. rewrite H. reflexivity. Qed.

Section ReadFree.
  Variables strbin i8 raw : bool.

  Theorem read_free_refines : forall v n r,
    wf v = true -> hdrs_ok v = true -> (raw = false -> gfresh (gval_free strbin i8 v) = true) -> (depth v <= n)%nat ->
    read_free strbin i8 raw n (type_of v) (encode v ++ r) = Some (gval_free strbin i8 v, r).
  Proof.
    induction v as [rw|z|z|z|z|z|s|fs IH|kt vt es IH|et es IH|et es IH] using tval_ind'; intros n r Hwf Hh Hg Hd;
    (destruct n as [|n]; [pose proof (depth_pos (VBool 0)); cbn [depth] in Hd; lia|]).
    - reflexivity.
    - cbn [read_free gval_free encode type_of]. rewrite enc_int1. cbn [app].
      change ((T_BYTE =? T_BOOL) || (T_BYTE =? T_BYTE) || (T_BYTE =? T_I16) || (T_BYTE =? T_I32) || (T_BYTE =? T_I64) || (T_BYTE =? T_DOUBLE)) with true.
      cbv iota. unfold read_scalar. change (T_BYTE =? T_BOOL) with false. change (T_BYTE =? T_BYTE) with true. cbv iota.
      destruct i8; cbn [negb]; [|reflexivity]. cbn [wf] in Hwf. rewrite to_s8_mod by exact Hwf. reflexivity.
    - cbn [read_free gval_free encode type_of wf] in *.
      change ((T_I16 =? T_BOOL) || (T_I16 =? T_BYTE) || (T_I16 =? T_I16) || (T_I16 =? T_I32) || (T_I16 =? T_I64) || (T_I16 =? T_DOUBLE)) with true.
      cbv iota. unfold read_scalar.
      change (T_I16 =? T_BOOL) with false. change (T_I16 =? T_BYTE) with false. change (T_I16 =? T_I16) with true. cbv iota.
      rewrite take_enc_int, dec_int_enc_int; [reflexivity|lia|apply in_sb_true in Hwf; exact Hwf].
    - cbn [read_free gval_free encode type_of wf] in *.
      change ((T_I32 =? T_BOOL) || (T_I32 =? T_BYTE) || (T_I32 =? T_I16) || (T_I32 =? T_I32) || (T_I32 =? T_I64) || (T_I32 =? T_DOUBLE)) with true.
      cbv iota. unfold read_scalar.
      change (T_I32 =? T_BOOL) with false. change (T_I32 =? T_BYTE) with false. change (T_I32 =? T_I16) with false.
      change (T_I32 =? T_I32) with true. cbv iota.
      rewrite take_enc_int, dec_int_enc_int; [reflexivity|lia|apply in_sb_true in Hwf; exact Hwf].
    - cbn [read_free gval_free encode type_of wf] in *.
      change ((T_I64 =? T_BOOL) || (T_I64 =? T_BYTE) || (T_I64 =? T_I16) || (T_I64 =? T_I32) || (T_I64 =? T_I64) || (T_I64 =? T_DOUBLE)) with true.
      cbv iota. unfold read_scalar.
      change (T_I64 =? T_BOOL) with false. change (T_I64 =? T_BYTE) with false. change (T_I64 =? T_I16) with false.
      change (T_I64 =? T_I32) with false. change (T_I64 =? T_I64) with true. cbv iota.
      rewrite take_enc_int, dec_int_enc_int; [reflexivity|lia|apply in_sb_true in Hwf; exact Hwf].
    - cbn [read_free gval_free encode type_of wf] in *.
      change ((T_DOUBLE =? T_BOOL) || (T_DOUBLE =? T_BYTE) || (T_DOUBLE =? T_I16) || (T_DOUBLE =? T_I32) || (T_DOUBLE =? T_I64) || (T_DOUBLE =? T_DOUBLE)) with true.
      cbv iota. unfold read_scalar.
      change (T_DOUBLE =? T_BOOL) with false. change (T_DOUBLE =? T_BYTE) with false. change (T_DOUBLE =? T_I16) with false.
      change (T_DOUBLE =? T_I32) with false. change (T_DOUBLE =? T_I64) with false. change (T_DOUBLE =? T_DOUBLE) with true. cbv iota.
      rewrite take_enc_int, dec_uint_enc_int.
      apply andb_true_iff in Hwf. destruct Hwf as [H0 H1]. apply Z.leb_le in H0. apply Z.ltb_lt in H1.
      rewrite Z.mod_small; [reflexivity|]. change (256 ^ Z.of_nat 8) with (2 ^ 64). lia.
    - cbn [wf] in Hwf. apply andb_true_iff in Hwf. destruct Hwf as [_ Hl]. apply Z.ltb_lt in Hl.
      cbn [read_free gval_free encode type_of].
      change ((T_STRING =? T_BOOL) || (T_STRING =? T_BYTE) || (T_STRING =? T_I16) || (T_STRING =? T_I32) || (T_STRING =? T_I64) || (T_STRING =? T_DOUBLE)) with false.
      change (T_STRING =? T_STRING) with true. cbv iota.
      rewrite <- app_assoc, read_strbytes_ok by exact Hl. destruct strbin; reflexivity.
    - (* struct *)
      cbn [depth] in Hd. apply le_S_n in Hd.
      pose proof (fold_max_le (fun f : Z * tval => depth (snd f)) fs n Hd) as Hdep.
      cbn [wf] in Hwf. cbn [hdrs_ok] in Hh. rewrite forallb_forall in Hwf, Hh. rewrite Forall_forall in IH, Hdep.
      cbn [read_free gval_free encode type_of].
      change ((T_STRUCT =? T_BOOL) || (T_STRUCT =? T_BYTE) || (T_STRUCT =? T_I16) || (T_STRUCT =? T_I32) || (T_STRUCT =? T_I64) || (T_STRUCT =? T_DOUBLE)) with false.
      change (T_STRUCT =? T_STRING) with false. change ((T_STRUCT =? T_LIST) || (T_STRUCT =? T_SET)) with false.
      change (T_STRUCT =? T_MAP) with false. change (T_STRUCT =? T_STRUCT) with true. cbv iota.
      rewrite <- app_assoc. cbn [app].
      rewrite (rf_fields_ok _ (gval_free strbin i8)).
      + rewrite mk_map_fresh; [reflexivity|]. intros Hr. specialize (Hg Hr). cbn [gval_free gfresh] in Hg.
        apply andb_true_iff in Hg. apply Hg.
      + rewrite Forall_forall. intros f Hin. specialize (Hwf f Hin). apply andb_true_iff in Hwf. destruct Hwf as [Hid Hw].
        split; [exact Hid|]. intros r'. apply IH; auto.
        intros Hr. specialize (Hg Hr). cbn [gval_free gfresh] in Hg. apply andb_true_iff in Hg. destruct Hg as [_ Hg].
        rewrite forallb_forall in Hg.
        apply (Hg (fst f mod 65536, gval_free strbin i8 (snd f))).
        apply (in_map (fun f0 : Z * tval => (fst f0 mod 65536, gval_free strbin i8 (snd f0)))). exact Hin.
      + rewrite app_length. cbn [length].
        pose proof (flat_map_length_ge (fun f : Z * tval => type_of (snd f) :: enc_int 2 (fst f) ++ encode (snd f)) fs
          ltac:(intros; cbn [length]; lia)). lia.
    - (* map *)
      cbn [hdrs_ok] in Hh. apply andb_true_iff in Hh. destruct Hh as [Hh Hhs]. apply andb_true_iff in Hh. destruct Hh as [Hvk Hvv].
      rewrite forallb_forall in Hhs.
      cbn [depth] in Hd. apply le_S_n in Hd.
      pose proof (fold_max_le (fun en : tval * tval => Nat.max (depth (fst en)) (depth (snd en))) es n Hd) as Hdep.
      cbn [wf] in Hwf. repeat (apply andb_true_iff in Hwf; destruct Hwf as [Hwf ?]).
      match goal with H : forallb _ es = true |- _ => rename H into Hall end.
      match goal with H : (zlen es <? 2 ^ 31) = true |- _ => apply Z.ltb_lt in H; rename H into Hlen end.
      rewrite forallb_forall in Hall. rewrite Forall_forall in IH, Hdep.
      assert (Hcnt : (zlen es >? zlen (flat_map (fun en : tval * tval => encode (fst en) ++ encode (snd en)) es ++ r)) = false).
      { destruct (Z.gtb_spec (zlen es) (zlen (flat_map (fun en : tval * tval => encode (fst en) ++ encode (snd en)) es ++ r))); [|reflexivity].
        unfold zlen in *. rewrite app_length in *.
        pose proof (flat_map_length_ge (fun en : tval * tval => encode (fst en) ++ encode (snd en)) es
          ltac:(intros a; cbv beta; rewrite app_length; pose proof (encode_nonempty (fst a)); lia)). lia. }
      cbn [read_free encode type_of app].
      change ((T_MAP =? T_BOOL) || (T_MAP =? T_BYTE) || (T_MAP =? T_I16) || (T_MAP =? T_I32) || (T_MAP =? T_I64) || (T_MAP =? T_DOUBLE)) with false.
      change (T_MAP =? T_STRING) with false. change ((T_MAP =? T_LIST) || (T_MAP =? T_SET)) with false.
      change (T_MAP =? T_MAP) with true. cbv iota.
      rewrite (valid_type_type_valid _ Hvk), (valid_type_type_valid _ Hvv). cbn [negb].
      assert (0 <= zlen es) by (unfold zlen; lia).
      rewrite <- app_assoc. rewrite read_count_ok by lia. rewrite Hcnt, to_nat_zlen.
      cbn [gval_free].
      assert (Hval : forall en, In en es -> forall r',
                read_free strbin i8 raw n vt (encode (snd en) ++ r') = Some (gval_free strbin i8 (snd en), r')).
      { intros en Hin r'. specialize (Hall en Hin). specialize (Hhs en Hin). specialize (Hdep en Hin).
        repeat (apply andb_true_iff in Hall; destruct Hall as [Hall ?]).
        apply andb_true_iff in Hhs. destruct Hhs as [_ Hhs].
        match goal with H : (type_of (snd en) =? vt) = true |- _ => apply Z.eqb_eq in H; rewrite <- H end.
        apply (proj2 (IH en Hin)); auto; try lia.
        intros Hr. specialize (Hg Hr). cbn [gval_free] in Hg.
        destruct (kt =? T_STRING); [|destruct (is_int_type kt)]; cbn [gfresh] in Hg;
        apply andb_true_iff in Hg; destruct Hg as [_ Hg]; rewrite forallb_forall in Hg.
        - apply (Hg (gstr_key (fst en), gval_free strbin i8 (snd en))).
          apply (in_map (fun e0 : tval * tval => (gstr_key (fst e0), gval_free strbin i8 (snd e0)))). exact Hin.
        - apply (Hg (gint_key (fst en), gval_free strbin i8 (snd en))).
          apply (in_map (fun e0 : tval * tval => (gint_key (fst e0), gval_free strbin i8 (snd e0)))). exact Hin.
        - assert (Hx : gfresh (wrap_key (gval_free strbin i8 (fst en))) && gfresh (gval_free strbin i8 (snd en)) = true).
          { apply (Hg (wrap_key (gval_free strbin i8 (fst en)), gval_free strbin i8 (snd en))).
            apply (in_map (fun e0 : tval * tval => (wrap_key (gval_free strbin i8 (fst e0)), gval_free strbin i8 (snd e0)))). exact Hin. }
          apply andb_true_iff in Hx. apply Hx. }
      destruct (kt =? T_STRING) eqn:Es; [|destruct (is_int_type kt) eqn:Ei].
      + rewrite (rf_pairs_ok _ read_strbytes vt gstr_key (gval_free strbin i8)).
        * rewrite mk_map_fresh; [reflexivity|]. intros Hr. specialize (Hg Hr). cbn [gval_free] in Hg.
          rewrite Es in Hg. cbn [gfresh] in Hg. apply andb_true_iff in Hg. apply Hg.
        * rewrite Forall_forall. intros en Hin. split; [|apply Hval; exact Hin].
          intros r'. specialize (Hall en Hin). repeat (apply andb_true_iff in Hall; destruct Hall as [Hall ?]).
          apply Z.eqb_eq in Hall. apply Z.eqb_eq in Es. rewrite Es in Hall.
          destruct (fst en); try discriminate. cbn [encode gstr_key].
          match goal with H : wf (VString _) = true |- _ => cbn [wf] in H; apply andb_true_iff in H; destruct H as [_ Hl]; apply Z.ltb_lt in Hl end.
          rewrite <- app_assoc. apply read_strbytes_ok. exact Hl.
      + rewrite (rf_pairs_ok _ (read_int_key kt) vt gint_key (gval_free strbin i8)).
        * rewrite mk_map_fresh; [reflexivity|]. intros Hr. specialize (Hg Hr). cbn [gval_free] in Hg.
          rewrite Es, Ei in Hg. cbn [gfresh] in Hg. apply andb_true_iff in Hg. apply Hg.
        * rewrite Forall_forall. intros en Hin. split; [|apply Hval; exact Hin].
          intros r'. specialize (Hall en Hin). repeat (apply andb_true_iff in Hall; destruct Hall as [Hall ?]).
          apply Z.eqb_eq in Hall. rewrite <- Hall in *.
          match goal with H : wf (fst en) = true |- _ => rename H into Hwk end.
          destruct (fst en); cbn [type_of] in *; try discriminate; cbn [encode gint_key wf] in *; unfold read_int_key.
          -- rewrite enc_int1. reflexivity.
          -- change (T_I16 =? T_BYTE) with false. change (T_I16 =? T_I16) with true. cbv iota.
             rewrite take_enc_int, dec_int_enc_int; [reflexivity|lia|apply in_sb_true in Hwk; exact Hwk].
          -- change (T_I32 =? T_BYTE) with false. change (T_I32 =? T_I16) with false. change (T_I32 =? T_I32) with true. cbv iota.
             rewrite take_enc_int, dec_int_enc_int; [reflexivity|lia|apply in_sb_true in Hwk; exact Hwk].
          -- change (T_I64 =? T_BYTE) with false. change (T_I64 =? T_I16) with false. change (T_I64 =? T_I32) with false.
             change (T_I64 =? T_I64) with true. cbv iota.
             rewrite take_enc_int, dec_int_enc_int; [reflexivity|lia|apply in_sb_true in Hwk; exact Hwk].
      + rewrite (rf_pairs_ok _ (rf_key (read_free strbin i8 raw n) kt) vt
                   (fun x => wrap_key (gval_free strbin i8 x)) (gval_free strbin i8)).
        * rewrite mk_map_fresh; [reflexivity|]. intros Hr. specialize (Hg Hr). cbn [gval_free] in Hg.
          rewrite Es, Ei in Hg. cbn [gfresh] in Hg. apply andb_true_iff in Hg. apply Hg.
        * rewrite Forall_forall. intros en Hin. split; [|apply Hval; exact Hin].
          intros r'. apply (rf_key_ok _ kt (gval_free strbin i8)).
          specialize (Hall en Hin). specialize (Hhs en Hin). specialize (Hdep en Hin).
          repeat (apply andb_true_iff in Hall; destruct Hall as [Hall ?]).
          apply andb_true_iff in Hhs. destruct Hhs as [Hhs _].
          apply Z.eqb_eq in Hall. rewrite <- Hall.
          apply (proj1 (IH en Hin)); auto; try lia.
          intros Hr. specialize (Hg Hr). cbn [gval_free] in Hg. rewrite Es, Ei in Hg. cbn [gfresh] in Hg.
          apply andb_true_iff in Hg; destruct Hg as [_ Hg]; rewrite forallb_forall in Hg.
          assert (Hx : gfresh (wrap_key (gval_free strbin i8 (fst en))) && gfresh (gval_free strbin i8 (snd en)) = true).
          { apply (Hg (wrap_key (gval_free strbin i8 (fst en)), gval_free strbin i8 (snd en))).
            apply (in_map (fun e0 : tval * tval => (wrap_key (gval_free strbin i8 (fst e0)), gval_free strbin i8 (snd e0)))). exact Hin. }
          apply andb_true_iff in Hx. destruct Hx as [Hx _]. rewrite gfresh_wrap in Hx. exact Hx.
    - (* set *)
      cbn [hdrs_ok] in Hh. apply andb_true_iff in Hh. destruct Hh as [Hve Hhs]. rewrite forallb_forall in Hhs.
      cbn [depth] in Hd. apply le_S_n in Hd. pose proof (fold_max_le depth es n Hd) as Hdep.
      cbn [wf] in Hwf. repeat (apply andb_true_iff in Hwf; destruct Hwf as [Hwf ?]).
      match goal with H : forallb _ es = true |- _ => rename H into Hall end.
      match goal with H : (zlen es <? 2 ^ 31) = true |- _ => apply Z.ltb_lt in H; rename H into Hlen end.
      rewrite forallb_forall in Hall. rewrite Forall_forall in IH, Hdep.
      assert (Hcnt : (zlen es >? zlen (flat_map encode es ++ r)) = false).
      { destruct (Z.gtb_spec (zlen es) (zlen (flat_map encode es ++ r))); [|reflexivity].
        unfold zlen in *. rewrite app_length in *. pose proof (flat_map_length_ge encode es encode_nonempty). lia. }
      cbn [read_free encode type_of app].
      change ((T_SET =? T_BOOL) || (T_SET =? T_BYTE) || (T_SET =? T_I16) || (T_SET =? T_I32) || (T_SET =? T_I64) || (T_SET =? T_DOUBLE)) with false.
      change (T_SET =? T_STRING) with false. change ((T_SET =? T_LIST) || (T_SET =? T_SET)) with true. cbv iota.
      rewrite (valid_type_type_valid _ Hve). cbn [negb].
      assert (0 <= zlen es) by (unfold zlen; lia).
      rewrite <- app_assoc. rewrite read_count_ok by lia. rewrite Hcnt, to_nat_zlen.
      cbn [gval_free]. rewrite (rf_elems_ok _ et (gval_free strbin i8)); [reflexivity|].
      rewrite Forall_forall. intros x Hin r'. specialize (Hall x Hin). apply andb_true_iff in Hall. destruct Hall as [Ht Hw].
      apply Z.eqb_eq in Ht. rewrite <- Ht. apply IH; auto.
      intros Hr. specialize (Hg Hr). cbn [gval_free gfresh] in Hg. rewrite forallb_forall in Hg.
      apply Hg. apply in_map. exact Hin.
    - (* list *)
      cbn [hdrs_ok] in Hh. apply andb_true_iff in Hh. destruct Hh as [Hve Hhs]. rewrite forallb_forall in Hhs.
      cbn [depth] in Hd. apply le_S_n in Hd. pose proof (fold_max_le depth es n Hd) as Hdep.
      cbn [wf] in Hwf. repeat (apply andb_true_iff in Hwf; destruct Hwf as [Hwf ?]).
      match goal with H : forallb _ es = true |- _ => rename H into Hall end.
      match goal with H : (zlen es <? 2 ^ 31) = true |- _ => apply Z.ltb_lt in H; rename H into Hlen end.
      rewrite forallb_forall in Hall. rewrite Forall_forall in IH, Hdep.
      assert (Hcnt : (zlen es >? zlen (flat_map encode es ++ r)) = false).
      { destruct (Z.gtb_spec (zlen es) (zlen (flat_map encode es ++ r))); [|reflexivity].
        unfold zlen in *. rewrite app_length in *. pose proof (flat_map_length_ge encode es encode_nonempty). lia. }
      cbn [read_free encode type_of app].
      change ((T_LIST =? T_BOOL) || (T_LIST =? T_BYTE) || (T_LIST =? T_I16) || (T_LIST =? T_I32) || (T_LIST =? T_I64) || (T_LIST =? T_DOUBLE)) with false.
      change (T_LIST =? T_STRING) with false. change ((T_LIST =? T_LIST) || (T_LIST =? T_SET)) with true. cbv iota.
      rewrite (valid_type_type_valid _ Hve). cbn [negb].
      assert (0 <= zlen es) by (unfold zlen; lia).
      rewrite <- app_assoc. rewrite read_count_ok by lia. rewrite Hcnt, to_nat_zlen.
      cbn [gval_free]. rewrite (rf_elems_ok _ et (gval_free strbin i8)); [reflexivity|].
      rewrite Forall_forall. intros x Hin r'. specialize (Hall x Hin). apply andb_true_iff in Hall. destruct Hall as [Ht Hw].
      apply Z.eqb_eq in Ht. rewrite <- Ht. apply IH; auto.
      intros Hr. specialize (Hg Hr). cbn [gval_free gfresh] in Hg. rewrite forallb_forall in Hg.
      apply Hg. apply in_map. exact Hin.
  Qed.
End ReadFree.

Theorem read_free_refines_decode strbin i8 v n r :
  wf v = true -> hdrs_ok v = true -> gfresh (gval_free strbin i8 v) = true -> (depth v <= n)%nat ->
  read_any_free strbin i8 n (type_of v) (encode v ++ r) = Some (gval_free strbin i8 v, r).
Proof. intros Hw Hh Hg Hd. unfold read_any_free. apply read_free_refines; auto. Qed.

(* ------------------------------------------------------------------ writer *)
Lemma go_type_wrap g : go_type (wrap_key g) = go_type g.
Proof. destruct g; reflexivity. Qed.

Lemma go_type_free sb i8 v : free_ok v = true -> go_type (gval_free sb i8 v) = type_of v.
Proof.
  destruct v; cbn [free_ok gval_free go_type type_of]; intros H; try reflexivity; try discriminate.
  - destruct i8; reflexivity.
  - destruct sb; reflexivity.
  - destruct (kt =? T_STRING); [reflexivity|]. destruct (is_int_type kt); reflexivity.
Qed.

Lemma ty_status_type_of v : ty_status (type_of v) = 0.
Proof. destruct v; reflexivity. Qed.

Lemma all_same_const {A} (f : A -> Z) (c : Z) l : (forall x, In x l -> f x = c) -> all_same (map f l) = true.
Proof.
  destruct l as [|a l]; intros H; [reflexivity|]. cbn [map all_same]. rewrite forallb_forall. intros y Hy.
  apply in_map_iff in Hy. destruct Hy as [x [E Hin]]. subst y.
  rewrite (H a (or_introl eq_refl)), (H x (or_intror Hin)). apply Z.eqb_refl.
Qed.

Lemma wf_elems_ok rec (gv : tval -> gval) es :
  Forall (fun x => forall b, rec b (gv x) = (b ++ encode x, 0)) es ->
  forall b, wf_elems rec b (map gv es) = (b ++ flat_map encode es, 0).
Proof.
  induction 1 as [|x es Hx _ IH]; intros b; cbn [map wf_elems flat_map]; [rewrite app_nil_r; reflexivity|].
  rewrite Hx, wbind_ok, IH, <- app_assoc. reflexivity.
Qed.

Lemma wf_entries_ok {K} rec (wk : K -> list Z -> wst) (gk : tval -> K) (gv : tval -> gval) es :
  Forall (fun en : tval * tval => (forall b, wk (gk (fst en)) b = (b ++ encode (fst en), 0)) /\
                                  (forall b, rec b (gv (snd en)) = (b ++ encode (snd en), 0))) es ->
  forall b, wf_entries rec wk b (map (fun en => (gk (fst en), gv (snd en))) es)
            = (b ++ flat_map (fun en => encode (fst en) ++ encode (snd en)) es, 0).
Proof.
  induction 1 as [|en es [Hk Hv] _ IH]; intros b; cbn [map wf_entries flat_map fst snd]; [rewrite app_nil_r; reflexivity|].
  rewrite Hk, wbind_ok, Hv, wbind_ok, IH, <- !app_assoc. reflexivity.
Qed.

Lemma wf_fields_ok rec (gv : tval -> gval) fs :
  Forall (fun f : Z * tval => go_type (gv (snd f)) = type_of (snd f) /\
                              forall b, rec b (gv (snd f)) = (b ++ encode (snd f), 0)) fs ->
  forall b, wf_fields rec b (map (fun f => (fst f mod 65536, gv (snd f))) fs)
            = (b ++ flat_map (fun f => type_of (snd f) :: enc_int 2 (fst f) ++ encode (snd f)) fs, 0).
Proof.
  induction 1 as [|f fs [Ht Hr] _ IH]; intros b; cbn [map wf_fields flat_map fst snd]; [rewrite app_nil_r; reflexivity|].
  rewrite Ht, ty_status_type_of. cbn [Z.eqb negb]. rewrite Hr, wbind_ok, IH, enc_int2_mod, <- !app_assoc. reflexivity.
Qed.

Lemma wf_key_wrap rec sb i8 v b : wf_key rec (wrap_key (gval_free sb i8 v)) b = rec b (gval_free sb i8 v).
Proof.
  destruct v; cbn [gval_free wrap_key wf_key ptr_target_ok]; try reflexivity.
  - destruct i8; reflexivity.
  - destruct sb; reflexivity.
  - destruct (kt =? T_STRING); [reflexivity|]. destruct (is_int_type kt); reflexivity.
Qed.

Theorem write_free_refines_encode sb i8 : forall v n b,
  wf v = true -> free_ok v = true -> bools01 v = true -> (depth v <= n)%nat ->
  write_free n b (gval_free sb i8 v) = (b ++ encode v, 0).
Proof.
  induction v as [raw|z|z|z|z|z|s|fs IH|kt vt es IH|et es IH|et es IH] using tval_ind'; intros n b Hwf Hf Hb Hd;
  (destruct n as [|n]; [pose proof (depth_pos (VBool 0)); cbn [depth] in Hd; lia|]).
  - cbn [bools01] in Hb. apply orb_true_iff in Hb. destruct Hb as [E|E]; apply Z.eqb_eq in E; subst raw; reflexivity.
  - cbn [write_free gval_free encode]. rewrite enc_int1. destruct i8; [reflexivity|].
    change (write_free (S n) b (GInt GT_U8 (z mod 256))) with (b ++ [(z mod 256) mod 256], 0).
    rewrite Z.mod_mod by lia. reflexivity.
  - reflexivity.
  - reflexivity.
  - reflexivity.
  - reflexivity.
  - cbn [write_free gval_free encode]. destruct sb; reflexivity.
  - (* struct *)
    cbn [depth] in Hd. apply le_S_n in Hd.
    pose proof (fold_max_le (fun f : Z * tval => depth (snd f)) fs n Hd) as Hdep.
    cbn [wf] in Hwf. cbn [bools01] in Hb. cbn [free_ok] in Hf. rewrite forallb_forall in Hwf, Hf, Hb. rewrite Forall_forall in IH, Hdep.
    cbn [write_free gval_free encode]. rewrite (wf_fields_ok _ (gval_free sb i8)).
    + rewrite wbind_ok. unfold wstop. rewrite <- app_assoc. reflexivity.
    + rewrite Forall_forall. intros f Hin. specialize (Hwf f Hin). apply andb_true_iff in Hwf. destruct Hwf as [_ Hw].
      split; [apply go_type_free; apply Hf; exact Hin|]. intros b'. apply IH; auto.
  - (* map *)
    cbn [free_ok] in Hf. apply andb_true_iff in Hf. destruct Hf as [Hf Hfs]. apply andb_true_iff in Hf. destruct Hf as [Hne Hik].
    rewrite forallb_forall in Hfs.
    cbn [depth] in Hd. apply le_S_n in Hd.
    pose proof (fold_max_le (fun en : tval * tval => Nat.max (depth (fst en)) (depth (snd en))) es n Hd) as Hdep.
    cbn [wf] in Hwf. repeat (apply andb_true_iff in Hwf; destruct Hwf as [Hwf ?]).
    match goal with H : forallb _ es = true |- _ => rename H into Hall end.
    cbn [bools01] in Hb. rewrite forallb_forall in Hall, Hb. rewrite Forall_forall in IH, Hdep.
    assert (Hval : forall en, In en es -> forall b',
              write_free n b' (gval_free sb i8 (snd en)) = (b' ++ encode (snd en), 0)).
    { intros en Hin b'. specialize (Hall en Hin). specialize (Hfs en Hin). specialize (Hb en Hin). specialize (Hdep en Hin).
      repeat (apply andb_true_iff in Hall; destruct Hall as [Hall ?]).
      apply andb_true_iff in Hfs. destruct Hfs as [_ Hfs]. apply andb_true_iff in Hb. destruct Hb as [_ Hb].
      apply (proj2 (IH en Hin)); auto. lia. }
    assert (Hvt : forall en, In en es -> go_type (gval_free sb i8 (snd en)) = vt).
    { intros en Hin. specialize (Hall en Hin). specialize (Hfs en Hin).
      repeat (apply andb_true_iff in Hall; destruct Hall as [Hall ?]).
      apply andb_true_iff in Hfs. destruct Hfs as [_ Hfs]. rewrite go_type_free by exact Hfs.
      match goal with H : (type_of (snd en) =? vt) = true |- _ => apply Z.eqb_eq in H; exact H end. }
    assert (Hkt : forall en, In en es -> go_type (gval_free sb i8 (fst en)) = kt).
    { intros en Hin. specialize (Hall en Hin). specialize (Hfs en Hin).
      repeat (apply andb_true_iff in Hall; destruct Hall as [Hall ?]).
      apply andb_true_iff in Hfs. destruct Hfs as [Hfs _]. rewrite go_type_free by exact Hfs.
      apply Z.eqb_eq in Hall. exact Hall. }
    destruct es as [|e0 tl]; [discriminate Hne|].
    assert (Hst : ty_status vt = 0).
    { rewrite <- (Hvt e0 (or_introl eq_refl)). specialize (Hfs e0 (or_introl eq_refl)).
      apply andb_true_iff in Hfs. destruct Hfs as [_ Hfs]. rewrite go_type_free by exact Hfs. apply ty_status_type_of. }
    cbn [gval_free encode].
    destruct (kt =? T_STRING) eqn:Es; [|destruct (is_int_type kt) eqn:Ei].
    + apply Z.eqb_eq in Es. subst kt.
      cbn [write_free map]. cbn [snd]. rewrite (Hvt e0 (or_introl eq_refl)), Hst. cbn [Z.eqb negb].
      change ((gstr_key (fst e0), gval_free sb i8 (snd e0)) :: map (fun e => (gstr_key (fst e), gval_free sb i8 (snd e))) tl)
        with (map (fun e : tval * tval => (gstr_key (fst e), gval_free sb i8 (snd e))) (e0 :: tl)).
      rewrite map_map. cbn [snd].
      pose proof (all_same_const (fun x : tval * tval => go_type (gval_free sb i8 (snd x))) vt (e0 :: tl) Hvt) as Has.
      cbn [map] in Has. rewrite (Hvt e0 (or_introl eq_refl)) in Has. rewrite Has. cbn [negb].
      rewrite zlen_map, (wf_entries_ok _ _ gstr_key (gval_free sb i8)).
      * rewrite <- app_assoc. reflexivity.
      * rewrite Forall_forall. intros en Hin. split; [|apply Hval; exact Hin].
        intros b'. specialize (Hall en Hin). repeat (apply andb_true_iff in Hall; destruct Hall as [Hall ?]).
        apply Z.eqb_eq in Hall. destruct (fst en); try discriminate. reflexivity.
    + try rewrite Ei in Hik. cbn [negb orb] in Hik. apply Z.eqb_eq in Hik. subst kt.
      cbn [write_free map]. change (free_intmap_ok GT_INT) with true. cbn [negb snd].
      rewrite (Hvt e0 (or_introl eq_refl)), Hst. cbn [Z.eqb negb].
      change ((gint_key (fst e0), gval_free sb i8 (snd e0)) :: map (fun e => (gint_key (fst e), gval_free sb i8 (snd e))) tl)
        with (map (fun e : tval * tval => (gint_key (fst e), gval_free sb i8 (snd e))) (e0 :: tl)).
      rewrite zlen_map, (wf_entries_ok _ _ gint_key (gval_free sb i8)).
      * rewrite <- app_assoc. reflexivity.
      * rewrite Forall_forall. intros en Hin. split; [|apply Hval; exact Hin].
        intros b'. specialize (Hall en Hin). specialize (Hdep en Hin). repeat (apply andb_true_iff in Hall; destruct Hall as [Hall ?]).
        apply Z.eqb_eq in Hall. pose proof (depth_pos (fst en)).
        destruct n as [|n']; [lia|]. destruct (fst en); try discriminate. reflexivity.
    + cbn [write_free map]. cbn [fst snd].
      change ((wrap_key (gval_free sb i8 (fst e0)), gval_free sb i8 (snd e0)) :: map (fun e => (wrap_key (gval_free sb i8 (fst e)), gval_free sb i8 (snd e))) tl)
        with (map (fun e : tval * tval => (wrap_key (gval_free sb i8 (fst e)), gval_free sb i8 (snd e))) (e0 :: tl)).
      rewrite !map_map. cbn [fst snd].
      assert (Hak : all_same (map (fun x : tval * tval => go_type (wrap_key (gval_free sb i8 (fst x)))) (e0 :: tl)) = true).
      { apply (all_same_const _ kt). intros x Hx. rewrite go_type_wrap. apply Hkt. exact Hx. }
      pose proof (all_same_const (fun x : tval * tval => go_type (gval_free sb i8 (snd x))) vt (e0 :: tl) Hvt) as Has.
      cbn [map] in Hak, Has. rewrite Hak, Has. cbn [andb negb].
      rewrite go_type_wrap, (Hkt e0 (or_introl eq_refl)), (Hvt e0 (or_introl eq_refl)), Hst.
      assert (Hsk : ty_status kt = 0).
      { rewrite <- (Hkt e0 (or_introl eq_refl)). specialize (Hfs e0 (or_introl eq_refl)).
        apply andb_true_iff in Hfs. destruct Hfs as [Hfs _]. rewrite go_type_free by exact Hfs. apply ty_status_type_of. }
      rewrite Hsk. cbn [Z.eqb negb].
      rewrite zlen_map, (wf_entries_ok _ _ (fun x => wrap_key (gval_free sb i8 x)) (gval_free sb i8)).
      * rewrite <- app_assoc. reflexivity.
      * rewrite Forall_forall. intros en Hin. split; [|apply Hval; exact Hin].
        intros b'. rewrite wf_key_wrap.
        specialize (Hall en Hin). specialize (Hfs en Hin). specialize (Hb en Hin). specialize (Hdep en Hin).
        repeat (apply andb_true_iff in Hall; destruct Hall as [Hall ?]).
        apply andb_true_iff in Hfs. destruct Hfs as [Hfs _]. apply andb_true_iff in Hb. destruct Hb as [Hb _].
        apply (proj1 (IH en Hin)); auto. lia.
  - discriminate Hf.
  - (* list *)
    cbn [free_ok] in Hf. apply andb_true_iff in Hf. destruct Hf as [Hne Hfs]. rewrite forallb_forall in Hfs.
    cbn [depth] in Hd. apply le_S_n in Hd. pose proof (fold_max_le depth es n Hd) as Hdep.
    cbn [wf] in Hwf. repeat (apply andb_true_iff in Hwf; destruct Hwf as [Hwf ?]).
    match goal with H : forallb _ es = true |- _ => rename H into Hall end.
    cbn [bools01] in Hb. rewrite forallb_forall in Hall, Hb. rewrite Forall_forall in IH, Hdep.
    destruct es as [|x0 tl]; [discriminate Hne|].
    assert (Het : go_type (gval_free sb i8 x0) = et).
    { rewrite go_type_free by (apply Hfs; left; reflexivity). specialize (Hall x0 (or_introl eq_refl)).
      apply andb_true_iff in Hall. destruct Hall as [Ht _]. apply Z.eqb_eq in Ht. exact Ht. }
    cbn [write_free gval_free encode map]. rewrite Het.
    assert (Hst : ty_status et = 0).
    { rewrite <- Het. rewrite go_type_free by (apply Hfs; left; reflexivity). apply ty_status_type_of. }
    rewrite Hst. cbn [Z.eqb negb].
    change (gval_free sb i8 x0 :: map (gval_free sb i8) tl) with (map (gval_free sb i8) (x0 :: tl)).
    rewrite zlen_map, wf_elems_ok.
    + rewrite <- app_assoc. reflexivity.
    + rewrite Forall_forall. intros x Hin b'. specialize (Hall x Hin). apply andb_true_iff in Hall. destruct Hall as [_ Hw].
      apply IH; auto.
Qed.

(* reader after writer, on every value WriteAny can express *)
Theorem read_write_free sb i8 v n r :
  wf v = true -> free_ok v = true -> hdrs_ok v = true -> bools01 v = true -> gfresh (gval_free sb i8 v) = true -> (depth v <= n)%nat ->
  exists out, write_free n [] (gval_free sb i8 v) = (out, 0) /\ out = encode v /\
              read_any_free sb i8 n (type_of v) (out ++ r) = Some (gval_free sb i8 v, r).
Proof.
  intros Hw Hf Hh Hb Hg Hd. exists (encode v). split; [|split; [reflexivity|]].
  - apply (write_free_refines_encode sb i8 v n [] Hw Hf Hb Hd).
  - apply read_free_refines_decode; assumption.
Qed.
