(* C08 - proofs about the Protobuf -> JSON denotation (model/P2J.v). *)
From Coq Require Import ZArith List Bool Lia.
From DG Require Import CaseFormat ProtoWireRef ProtoMsg Json Num Base64 P2J.
From DG Require Import JsonProofs NumProofs Base64Proofs ProtoMsgProofs.
Import ListNotations.
Local Open Scope Z_scope.

(* ------------------------------------------------------------------ number lexemes *)
(* running the number DFA over a list of characters *)
Fixpoint run (st : nst) (l : list Z) : option nst :=
  match l with
  | [] => Some st
  | c :: r => match num_step st c with Some st' => run st' r | None => None end
  end.

Lemma scan_run : forall l st st' r, run st l = Some st' ->
  scan_num st (l ++ r) = match scan_num st' r with Some (l', r') => Some (l ++ l', r') | None => None end.
Proof.
  induction l as [|c t IH]; intros st st' r H.
  - cbn in H. inversion H; subst. cbn [app]. destruct (scan_num st' r) as [[l' r']|]; reflexivity.
  - cbn [run] in H. destruct (num_step st c) as [s1|] eqn:E; [|discriminate].
    cbn [app scan_num]. rewrite E, (IH s1 st' r H).
    destruct (scan_num st' r) as [[l' r']|]; reflexivity.
Qed.

Lemma run_app : forall a b st st', run st a = Some st' -> run st (a ++ b) = run st' b.
Proof.
  induction a as [|c t IH]; intros b st st' H.
  - cbn in H. inversion H; subst. reflexivity.
  - cbn [run] in H. cbn [app run]. destruct (num_step st c) as [s1|]; [|discriminate]. exact (IH b s1 st' H).
Qed.

Lemma run_digits : forall ds st, (st = NInt \/ st = NExp) -> forallb is_digit ds = true -> run st ds = Some st.
Proof.
  induction ds as [|d t IH]; intros st Hst H; [reflexivity|].
  cbn in H. apply andb_true_iff in H. destruct H as [Hd Ht].
  cbn [run]. destruct Hst as [-> | ->]; cbn [num_step]; rewrite Hd; apply IH; auto.
Qed.

Lemma run_fmt_nat : forall st n, 0 <= n -> (st = N0 \/ st = NMinus) ->
  run st (fmt_nat n) = Some (if n =? 0 then NZero else NInt).
Proof.
  intros st n Hn Hst. destruct (fmt_nat_spec n Hn) as (Hd & _ & Hh).
  destruct (fmt_nat n) as [|d t]; [discriminate Hh|].
  cbn in Hd. apply andb_true_iff in Hd. destruct Hd as [Hd Ht].
  pose proof (proj1 (is_digit_range d) Hd) as Hr.
  unfold head_ok in Hh.
  assert (Hstep : num_step st d = Some (if d =? 48 then NZero else NInt)).
  { destruct Hst as [-> | ->]; cbn [num_step].
    - destruct (Z.eqb_spec d 45) as [E|_]; [lia|]. destruct (d =? 48); [reflexivity|]. rewrite Hd. reflexivity.
    - destruct (d =? 48); [reflexivity|]. rewrite Hd. reflexivity. }
  cbn [run]. rewrite Hstep.
  destruct (Z.eqb_spec n 0) as [->|Hz].
  - apply andb_true_iff in Hh. destruct Hh as [Hd0 Hnil]. rewrite Hd0.
    destruct t; [reflexivity|discriminate Hnil].
  - apply negb_true_iff in Hh. rewrite Hh. apply run_digits; auto.
Qed.

(* the exponent part  e - digits  from a state that has read the integer part *)
Lemma run_exp : forall st k, (st = NZero \/ st = NInt) -> 0 <= k ->
  run st (101 :: 45 :: fmt_nat k) = Some NExp.
Proof.
  intros st k Hst Hk.
  assert (E1 : num_step st 101 = Some NE) by (destruct Hst as [-> | ->]; reflexivity).
  cbn [run]. rewrite E1. cbn [num_step]. change ((45 =? 43) || (45 =? 45)) with true. cbn iota.
  destruct (fmt_nat_spec k Hk) as (Hd & _ & Hh).
  destruct (fmt_nat k) as [|d t]; [discriminate Hh|].
  cbn in Hd. apply andb_true_iff in Hd. destruct Hd as [Hd Ht].
  cbn [run num_step]. rewrite Hd. apply run_digits; auto.
Qed.

Lemma num_okb_run : forall l st, run N0 l = Some st -> num_acc st = true -> num_okb l = true.
Proof.
  intros l st H Ha. unfold num_okb.
  pose proof (scan_run l N0 st [] H) as E. rewrite app_nil_r in E. rewrite E.
  cbn [scan_num]. rewrite Ha. reflexivity.
Qed.

Lemma num_okb_dec_lex : forall neg m e, 0 <= m -> e <= 0 -> num_okb (dec_lex neg m e) = true.
Proof.
  intros neg m e Hm He. unfold dec_lex.
  set (st0 := if neg then NMinus else N0).
  assert (H0 : run N0 (if neg then [45] else []) = Some st0) by (destruct neg; reflexivity).
  assert (Hst0 : st0 = N0 \/ st0 = NMinus) by (destruct neg; auto).
  set (st1 := if m =? 0 then NZero else NInt).
  assert (H1 : run st0 (fmt_nat m) = Some st1) by (apply run_fmt_nat; auto).
  assert (Hst1 : st1 = NZero \/ st1 = NInt) by (unfold st1; destruct (m =? 0); auto).
  destruct (Z.eqb_spec e 0) as [->|Hne].
  - rewrite app_nil_r. apply (num_okb_run _ st1).
    + rewrite (run_app _ _ _ _ H0). exact H1.
    + destruct Hst1 as [-> | ->]; reflexivity.
  - apply (num_okb_run _ NExp); [|reflexivity].
    rewrite (run_app _ _ _ _ H0), (run_app _ _ _ _ H1). apply run_exp; [exact Hst1 | lia].
Qed.

Lemma f64_decomp_nonneg : forall b neg M k, f64_decomp b = (neg, M, k) -> 0 <= M.
Proof.
  intros b neg M k H. unfold f64_decomp in H.
  assert (HP : 0 < 2 ^ 52) by (apply Z.pow_pos_nonneg; lia).
  pose proof (Z.mod_pos_bound b (2 ^ 52) HP) as Hf.
  generalize dependent (2 ^ 52). intros P H HP Hf.
  destruct ((b / P) mod 2048 =? 0); inversion H; subst; lia.
Qed.

Theorem num_okb_f64_lex : forall b, num_okb (f64_lex b) = true.
Proof.
  intros b. unfold f64_lex. destruct (f64_decomp b) as [[neg M] k] eqn:E.
  pose proof (f64_decomp_nonneg _ _ _ _ E) as HM.
  destruct (M =? 0); [apply num_okb_dec_lex; lia|].
  destruct (Z.leb_spec 0 k) as [Hk|Hk].
  - apply num_okb_dec_lex; [|lia]. apply Z.mul_nonneg_nonneg; [exact HM|]. apply Z.pow_nonneg. lia.
  - apply num_okb_dec_lex; [|lia]. apply Z.mul_nonneg_nonneg; [exact HM|]. apply Z.pow_nonneg. lia.
Qed.

(* ------------------------------------------------------------------ byte lists *)
Lemma jbytes_fmt_int : forall z, jbytes_okb (fmt_int z) = true.
Proof.
  intros z. pose proof (fmt_int_plain z) as H. unfold lex_is_plain_int in H.
  apply andb_true_iff in H. destruct H as [_ H].
  unfold jbytes_okb. rewrite forallb_forall in *. intros c Hc. specialize (H c Hc).
  apply orb_true_iff in H. destruct H as [H|H].
  - apply is_digit_range in H. unfold jbyte_okb. apply andb_true_iff. rewrite Z.leb_le, Z.ltb_lt. lia.
  - apply Z.eqb_eq in H. subst. reflexivity.
Qed.

Lemma b64_char_okb : forall n, 0 <= n < 64 -> jbyte_okb (b64_char n) = true.
Proof.
  intros n Hn. unfold b64_char, jbyte_okb.
  destruct (Z.ltb_spec n 26); [apply andb_true_iff; rewrite Z.leb_le, Z.ltb_lt; lia|].
  destruct (Z.ltb_spec n 52); [apply andb_true_iff; rewrite Z.leb_le, Z.ltb_lt; lia|].
  destruct (Z.ltb_spec n 62); [apply andb_true_iff; rewrite Z.leb_le, Z.ltb_lt; lia|].
  destruct (n =? 62); reflexivity.
Qed.

Lemma jbytes_b64 : forall bs, jbytes_okb bs = true -> jbytes_okb (b64_encode bs) = true.
Proof.
  intros bs H. apply Forall_jbytes in H. revert H.
  induction bs as [| a | a b | a b c r IH] using list_ind3; intros H.
  - reflexivity.
  - inversion H as [|? ? Ha _]; subst.
    cbn [b64_encode jbytes_okb forallb].
    rewrite (b64_char_okb (a / 4)) by (apply idx0; exact Ha).
    rewrite (b64_char_okb (a mod 4 * 16)) by (apply idx1'; exact Ha). reflexivity.
  - inversion H as [|? ? Ha H2]; subst. inversion H2 as [|? ? Hb _]; subst.
    cbn [b64_encode jbytes_okb forallb].
    rewrite (b64_char_okb (a / 4)) by (apply idx0; exact Ha).
    rewrite (b64_char_okb (a mod 4 * 16 + b / 16)) by (apply idx1; assumption).
    rewrite (b64_char_okb (b mod 16 * 4)) by (apply idx2'; exact Hb). reflexivity.
  - inversion H as [|? ? Ha H2]; subst. inversion H2 as [|? ? Hb H3]; subst. inversion H3 as [|? ? Hc Hr]; subst.
    cbn [b64_encode]. unfold jbytes_okb in *. cbn [forallb].
    rewrite (b64_char_okb (a / 4)) by (apply idx0; exact Ha).
    rewrite (b64_char_okb (a mod 4 * 16 + b / 16)) by (apply idx1; assumption).
    rewrite (b64_char_okb (b mod 16 * 4 + c / 64)) by (apply idx2; assumption).
    rewrite (b64_char_okb (c mod 64)) by (apply idx3; exact Hc).
    cbn [andb]. apply IH. exact Hr.
Qed.

Lemma jbytes_key_str : forall k, key_bytes_okb k = true -> jbytes_okb (key_str k) = true.
Proof.
  intros [kk v|s] H; cbn [key_str].
  - destruct (kk =? K_BOOL); [destruct (v =? 0); reflexivity | apply jbytes_fmt_int].
  - exact H.
Qed.

(* ------------------------------------------------------------------ induction over the kind-annotated tree *)
Section PjInd.
  Variable P : pj -> Prop.
  Hypothesis HInt : forall k v, P (PJInt k v).
  Hypothesis HIntS : forall k v, P (PJIntS k v).
  Hypothesis HF : forall k b, P (PJF k b).
  Hypothesis HBool : forall b, P (PJBool b).
  Hypothesis HStr : forall s, P (PJStr s).
  Hypothesis HB64 : forall s, P (PJB64 s).
  Hypothesis HArr : forall xs, Forall P xs -> P (PJArr xs).
  Hypothesis HObj : forall ms, Forall (fun m => P (snd m)) ms -> P (PJObj ms).
  Hypothesis HMap : forall kk ms, Forall (fun m => P (snd m)) ms -> P (PJMap kk ms).
  Fixpoint pj_ind' (p : pj) : P p :=
    match p with
    | PJInt k v => HInt k v
    | PJIntS k v => HIntS k v
    | PJF k b => HF k b
    | PJBool b => HBool b
    | PJStr s => HStr s
    | PJB64 s => HB64 s
    | PJArr xs => HArr xs ((fix go (l : list pj) : Forall P l :=
                              match l with [] => Forall_nil _ | x :: l' => Forall_cons x (pj_ind' x) (go l') end) xs)
    | PJObj ms => HObj ms ((fix go (l : list (list Z * pj)) : Forall (fun m => P (snd m)) l :=
                              match l with [] => Forall_nil _ | x :: l' => Forall_cons x (pj_ind' (snd x)) (go l') end) ms)
    | PJMap kk ms => HMap kk ms ((fix go (l : list (mkey * pj)) : Forall (fun m => P (snd m)) l :=
                              match l with [] => Forall_nil _ | x :: l' => Forall_cons x (pj_ind' (snd x)) (go l') end) ms)
    end.
End PjInd.

(* ------------------------------------------------------------------ the denotation is a well-formed JSON AST *)
Lemma json_wf_pj : forall p, pj_bytes_okb p = true -> pj_finite p = true -> json_wf (pj_json p) = true.
Proof.
  induction p as [k v|k v|k b|b|s|s|xs IH|ms IH|kk ms IH] using pj_ind'; intros Hb Hf; cbn [pj_json json_wf].
  - apply num_okb_fmt_int.
  - apply jbytes_fmt_int.
  - cbn [pj_finite] in Hf. rewrite Hf. cbn [json_wf]. apply num_okb_f64_lex.
  - reflexivity.
  - exact Hb.
  - apply jbytes_b64. exact Hb.
  - cbn [pj_bytes_okb pj_finite] in Hb, Hf. rewrite forallb_forall in *.
    intros j Hj. apply in_map_iff in Hj. destruct Hj as (x & <- & Hx).
    rewrite Forall_forall in IH. apply IH; auto.
  - cbn [pj_bytes_okb pj_finite] in Hb, Hf. rewrite forallb_forall in *.
    intros j Hj. apply in_map_iff in Hj. destruct Hj as (x & <- & Hx).
    rewrite Forall_forall in IH. specialize (Hb x Hx). apply andb_true_iff in Hb. destruct Hb as [Hk Hv].
    cbn [fst snd]. rewrite Hk. cbn [andb]. apply IH; auto.
  - cbn [pj_bytes_okb pj_finite] in Hb, Hf. rewrite forallb_forall in *.
    intros j Hj. apply in_map_iff in Hj. destruct Hj as (x & <- & Hx).
    rewrite Forall_forall in IH. specialize (Hb x Hx). apply andb_true_iff in Hb. destruct Hb as [Hk Hv].
    cbn [fst snd]. rewrite (jbytes_key_str _ Hk). cbn [andb]. apply IH; auto.
Qed.

(* every member name of a well-formed JSON value is a byte string that the quoting round-trips *)
Lemma json_keys_wf : forall j, json_wf j = true ->
  Forall (fun k => jbytes_okb k = true /\ unquote (quote_ref k) = Some k) (json_keys j).
Proof.
  induction j as [| b | l | s | xs IH | ms IH] using json_ind'; intros H; cbn [json_keys]; try constructor.
  - cbn [json_wf] in H. rewrite forallb_forall in H. rewrite Forall_forall in *.
    intros k Hk. apply in_flat_map in Hk. destruct Hk as (x & Hx & Hk).
    pose proof (IH x Hx (H x Hx)) as Hall. rewrite Forall_forall in Hall. exact (Hall k Hk).
  - cbn [json_wf] in H. rewrite forallb_forall in H. rewrite Forall_forall in *.
    intros k Hk. apply in_flat_map in Hk. destruct Hk as (x & Hx & Hk).
    specialize (H x Hx). apply andb_true_iff in H. destruct H as [H1 H2].
    destruct Hk as [<-|Hk].
    + split; [exact H1 | apply unquote_quote_ref; exact H1].
    + pose proof (IH x Hx H2) as Hall. rewrite Forall_forall in Hall. exact (Hall k Hk).
Qed.

(* ------------------------------------------------------------------ from the message to the tree *)
Lemma seq_opt_Forall2 : forall {A B} (f : A -> option B) (l : list A) (r : list B),
  seq_opt (map f l) = Some r -> Forall2 (fun x y => f x = Some y) l r.
Proof.
  induction l as [|x t IH]; intros r H; cbn in H.
  - inversion H. constructor.
  - destruct (f x) as [y|] eqn:E; [|discriminate].
    destruct (seq_opt (map f t)) as [ys|] eqn:E2; [|discriminate].
    inversion H; subst. constructor; [exact E | apply IH; reflexivity].
Qed.

Lemma Forall2_in_r : forall {A B} (R : A -> B -> Prop) (l : list A) (r : list B) y,
  Forall2 R l r -> In y r -> exists x, In x l /\ R x y.
Proof.
  intros A B R l r y H. induction H as [|a b l' r' Hab _ IH]; intros Hy; [contradiction|].
  destruct Hy as [<-|Hy]; [exists a; split; [left; reflexivity | exact Hab]|].
  destruct (IH Hy) as (x & Hx & Hr). exists x. split; [right; exact Hx | exact Hr].
Qed.

Lemma find_msg_in : forall S name md, find_msg S name = Some md -> In md S.
Proof. intros S name md H. unfold find_msg in H. apply find_some in H. tauto. Qed.
Lemma find_field_in : forall md n fd, find_field md n = Some fd -> In fd (md_fields md).
Proof. intros md n fd H. unfold find_field in H. apply find_some in H. tauto. Qed.

Lemma schema_json_bytes : forall S name md n fd, schema_bytes_okb S = true ->
  find_msg S name = Some md -> find_field md n = Some fd -> jbytes_okb (fd_json fd) = true.
Proof.
  intros S name md n fd HS Hm Hf. unfold schema_bytes_okb in HS. rewrite forallb_forall in HS.
  specialize (HS md (find_msg_in _ _ _ Hm)). rewrite forallb_forall in HS.
  exact (HS fd (find_field_in _ _ _ Hf)).
Qed.

Lemma pj_scalar_bytes : forall o k v p, pj_scalar o k v = Some p -> pj_bytes_okb p = true.
Proof.
  intros o k v p H. unfold pj_scalar in H.
  destruct (k =? K_BOOL); [inversion H; reflexivity|].
  destruct (k =? K_DOUBLE); [inversion H; reflexivity|].
  destruct (k =? K_FLOAT); [inversion H; reflexivity|].
  destruct (is_int_kind k); [|discriminate].
  destruct ((k =? K_INT64) && o_int64_string o); inversion H; reflexivity.
Qed.

Lemma pj_fld_bytes : forall S o, schema_bytes_okb S = true ->
  forall v lbl t p, pval_bytes_okb v = true -> pj_fld S o lbl t v = Some p -> pj_bytes_okb p = true.
Proof.
  intros S o HS.
  induction v as [k x|k b|fs IH|pk vs IH|kvs IH] using pval_ind'; intros lbl t p Hb H.
  - destruct lbl; cbn [pj_fld] in H; try discriminate.
    destruct t as [k'|]; [|discriminate]. destruct (k =? k'); [|discriminate]. exact (pj_scalar_bytes _ _ _ _ H).
  - destruct lbl; cbn [pj_fld] in H; try discriminate.
    destruct t as [k'|]; [|discriminate]. destruct (negb (k =? k')); [discriminate|].
    destruct (k =? K_STRING); [inversion H; subst; exact Hb|].
    destruct (k =? K_BYTES); [inversion H; subst; exact Hb|discriminate].
  - destruct lbl; cbn [pj_fld] in H; try discriminate.
    destruct t as [|name]; [discriminate|]. destruct (find_msg S name) as [md|] eqn:Em; [|discriminate].
    match type of H with option_map _ ?x = _ => destruct x as [ms|] eqn:E; [|discriminate] end.
    inversion H; subst. apply seq_opt_Forall2 in E.
    cbn [pj_bytes_okb pval_bytes_okb] in *. rewrite forallb_forall in Hb. rewrite Forall_forall in IH.
    apply forallb_forall. intros m Hm.
    destruct (Forall2_in_r _ _ _ _ E Hm) as (nv & Hnv & Hrel).
    destruct (find_field md (fst nv)) as [fd|] eqn:Ef; [|discriminate].
    destruct (pj_fld S o (fd_label fd) (fd_type fd) (snd nv)) as [p'|] eqn:Ep; [|discriminate].
    inversion Hrel; subst. cbn [fst snd].
    rewrite (schema_json_bytes _ _ _ _ _ HS Em Ef). cbn [andb].
    exact (IH nv Hnv _ _ _ (Hb nv Hnv) Ep).
  - destruct lbl; cbn [pj_fld] in H; try discriminate.
    match type of H with option_map _ ?x = _ => destruct x as [ps|] eqn:E; [|discriminate] end.
    inversion H; subst. apply seq_opt_Forall2 in E.
    cbn [pj_bytes_okb pval_bytes_okb] in *. rewrite forallb_forall in Hb. rewrite Forall_forall in IH.
    apply forallb_forall. intros q Hq.
    destruct (Forall2_in_r _ _ _ _ E Hq) as (x & Hx & Hrel).
    exact (IH x Hx _ _ _ (Hb x Hx) Hrel).
  - destruct lbl; cbn [pj_fld] in H; try discriminate.
    match type of H with option_map _ ?x = _ => destruct x as [ps|] eqn:E; [|discriminate] end.
    inversion H; subst. apply seq_opt_Forall2 in E.
    cbn [pj_bytes_okb pval_bytes_okb] in *. rewrite forallb_forall in Hb. rewrite Forall_forall in IH.
    apply forallb_forall. intros q Hq.
    destruct (Forall2_in_r _ _ _ _ E Hq) as (kx & Hkx & Hrel).
    destruct (key_kind_okb keykind (fst kx)); [|discriminate].
    destruct (pj_fld S o LSingular t (snd kx)) as [p'|] eqn:Ep; [|discriminate].
    inversion Hrel; subst. cbn [fst snd].
    specialize (Hb kx Hkx). apply andb_true_iff in Hb. destruct Hb as [Hk Hv].
    rewrite Hk. cbn [andb]. exact (IH kx Hkx _ _ _ Hv Ep).
Qed.

(* ------------------------------------------------------------------ the theorems of C08 *)
(* 1. never malformed: the printed denotation parses back to itself *)
Theorem pjson_prints_valid_pf : forall S o name m j,
  schema_bytes_okb S = true -> pval_bytes_okb (VMsg m) = true ->
  pjson_of S o name m = Some j -> json_parse (json_print j) = Some j.
Proof.
  intros S o name m j HS Hb H. unfold pjson_of, pj_of in H.
  destruct (pj_fld S o LSingular (TMsg name) (VMsg m)) as [p|] eqn:E; [|discriminate].
  destruct (pj_finite p) eqn:Ef; [|discriminate]. inversion H; subst.
  apply json_parse_print. apply json_wf_pj; [|exact Ef].
  exact (pj_fld_bytes S o HS _ _ _ _ Hb E).
Qed.

(* 2. every member name anywhere in the denotation (JSON names of fields, stringified map keys of every key kind) is a
      byte string, printed as a string literal that unquotes to exactly that name *)
Theorem pjson_keys_are_strings_pf : forall S o name m j,
  schema_bytes_okb S = true -> pval_bytes_okb (VMsg m) = true ->
  pjson_of S o name m = Some j ->
  Forall (fun k => jbytes_okb k = true /\ unquote (quote_ref k) = Some k) (json_keys j).
Proof.
  intros S o name m j HS Hb H. apply json_keys_wf.
  unfold pjson_of, pj_of in H.
  destruct (pj_fld S o LSingular (TMsg name) (VMsg m)) as [p|] eqn:E; [|discriminate].
  destruct (pj_finite p) eqn:Ef; [|discriminate]. inversion H; subst.
  apply json_wf_pj; [|exact Ef]. exact (pj_fld_bytes S o HS _ _ _ _ Hb E).
Qed.

(* the members of an object are printed as  "name":value  with the name quoted (by definition of the printer; stated
   for the record: this is the shape the parser of pjson_prints_valid reads) *)
Lemma print_member_quoted : forall k v, print_member json_print (k, v) = quote_ref k ++ 58 :: json_print v.
Proof. reflexivity. Qed.

(* stringified integer keys denote the key: decimal digits that read back as the key, for EVERY integer key kind *)
Theorem key_str_int_exact : forall kk v, (kk =? K_BOOL) = false -> parse_int (key_str (KInt kk v)) = Some v.
Proof. intros kk v H. cbn [key_str]. rewrite H. apply parse_int_fmt_int. Qed.
Theorem key_str_bool_exact : forall v, key_str (KInt K_BOOL v) = if v =? 0 then lit_false else lit_true.
Proof. reflexivity. Qed.
Theorem key_str_string_exact : forall s, key_str (KStr s) = s.
Proof. reflexivity. Qed.

(* 3. + 4. the shape of the denotation of a message, field by field, in wire order *)
Definition field_denotes (S : schema) (o : p2j_opts) (md : mdesc) (nv : Z * pval) (member : list Z * json) : Prop :=
  exists fd p, find_field md (fst nv) = Some fd /\ fst member = fd_json fd /\
               pj_fld S o (fd_label fd) (fd_type fd) (snd nv) = Some p /\ snd member = pj_json p.

Theorem pjson_fields_exact_pf : forall S o name m j,
  pjson_of S o name m = Some j ->
  exists md ms, find_msg S name = Some md /\ j = JObj ms /\ Forall2 (field_denotes S o md) m ms.
Proof.
  intros S o name m j H. unfold pjson_of, pj_of in H.
  destruct (pj_fld S o LSingular (TMsg name) (VMsg m)) as [p|] eqn:E; [|discriminate].
  destruct (pj_finite p); [|discriminate]. inversion H; subst. clear H.
  cbn [pj_fld] in E. destruct (find_msg S name) as [md|] eqn:Em; [|discriminate].
  match type of E with option_map _ ?x = _ => destruct x as [ps|] eqn:E2; [|discriminate] end.
  inversion E; subst. apply seq_opt_Forall2 in E2.
  exists md, (map (fun m0 => (fst m0, pj_json (snd m0))) ps). split; [reflexivity|]. split; [reflexivity|].
  clear E. induction E2 as [|nv q m' ps' Hrel _ IH]; [constructor|].
  cbn [map]. constructor; [|exact IH].
  destruct (find_field md (fst nv)) as [fd|] eqn:Ef; [|discriminate].
  destruct (pj_fld S o (fd_label fd) (fd_type fd) (snd nv)) as [p'|] eqn:Ep; [|discriminate].
  inversion Hrel; subst. exists fd, p'. cbn [fst snd]. auto.
Qed.

(* 3. top-level member names = JSON names of the present fields, in wire order *)
Theorem pjson_members_exact_pf : forall S o name m j,
  pjson_of S o name m = Some j ->
  exists md ms, find_msg S name = Some md /\ j = JObj ms /\
    Forall2 (fun nv member => exists fd, find_field md (fst nv) = Some fd /\ fst member = fd_json fd) m ms.
Proof.
  intros S o name m j H. destruct (pjson_fields_exact_pf _ _ _ _ _ H) as (md & ms & Hm & Hj & HF).
  exists md, ms. split; [exact Hm|]. split; [exact Hj|]. clear H Hj.
  induction HF as [|nv mem m' ms' (fd & p & H1 & H2 & _) _ IH]; [constructor|].
  constructor; [exists fd; auto | exact IH].
Qed.

(* 4. a repeated field (packed or not) denotes the array of its elements' denotations, same length, same order *)
Theorem pj_repeated_order : forall S o pk t q vs p,
  pj_fld S o (LRepeated pk) t (VList q vs) = Some p ->
  exists ps, p = PJArr ps /\ Forall2 (fun v e => pj_fld S o LSingular t v = Some e) vs ps /\
             pj_json p = JArr (map pj_json ps).
Proof.
  intros S o pk t q vs p H. cbn [pj_fld] in H.
  match type of H with option_map _ ?x = _ => destruct x as [ps|] eqn:E; [|discriminate] end.
  inversion H; subst. exists ps. split; [reflexivity|]. split; [|reflexivity].
  exact (seq_opt_Forall2 _ _ _ E).
Qed.

Theorem pjson_repeated_order_pf : forall S o name m j,
  pjson_of S o name m = Some j ->
  exists md ms, find_msg S name = Some md /\ j = JObj ms /\
    Forall2 (fun nv member =>
               forall q vs, snd nv = VList q vs ->
               exists es, Forall2 (fun v e => exists fd, find_field md (fst nv) = Some fd /\
                                                         pj_fld S o LSingular (fd_type fd) v = Some e) vs es /\
                          snd member = JArr (map pj_json es)) m ms.
Proof.
  intros S o name m j H. destruct (pjson_fields_exact_pf _ _ _ _ _ H) as (md & ms & Hm & Hj & HF).
  exists md, ms. split; [exact Hm|]. split; [exact Hj|]. clear H Hj.
  induction HF as [|nv mem m' ms' (fd & p & H1 & H2 & H3 & H4) _ IH]; [constructor|].
  constructor; [|exact IH].
  intros q vs Hv. rewrite Hv in H3.
  destruct (fd_label fd) as [|pk|kk] eqn:El; cbn [pj_fld] in H3; try discriminate.
  fold (pj_fld S o (LRepeated pk) (fd_type fd) (VList q vs)) in H3.
  destruct (pj_repeated_order S o pk (fd_type fd) q vs p) as (es & -> & HF2 & Hjson).
  { cbn [pj_fld]. exact H3. }
  exists es. split; [|rewrite H4; exact Hjson].
  clear - HF2 H1. induction HF2; [constructor|]. constructor; [exists fd; auto | assumption].
Qed.

(* maps: the members of the object are the entries in order, named by the stringified keys *)
Theorem pj_map_keys_stringified : forall S o kk t kvs p,
  pj_fld S o (LMap kk) t (VMap kvs) = Some p ->
  exists ps, p = PJMap kk ps /\ map fst ps = map fst kvs /\
             Forall2 (fun kx e => pj_fld S o LSingular t (snd kx) = Some (snd e)) kvs ps /\
             pj_json p = JObj (map (fun e => (key_str (fst e), pj_json (snd e))) ps).
Proof.
  intros S o kk t kvs p H. cbn [pj_fld] in H.
  match type of H with option_map _ ?x = _ => destruct x as [ps|] eqn:E; [|discriminate] end.
  inversion H; subst. exists ps. split; [reflexivity|].
  apply seq_opt_Forall2 in E.
  clear H.
  assert (HF : Forall2 (fun kx e => fst e = fst kx /\ pj_fld S o LSingular t (snd kx) = Some (snd e)) kvs ps).
  { induction E as [|kx e l l' Hrel _ IH]; [constructor|]. constructor; [|exact IH].
    destruct (key_kind_okb kk (fst kx)); [|discriminate].
    destruct (pj_fld S o LSingular t (snd kx)) as [p'|]; [|discriminate]. inversion Hrel; subst. auto. }
  split; [|split; [|reflexivity]].
  - clear E. induction HF as [|kx e l l' [H1 _] _ IH]; [reflexivity|]. cbn [map]. rewrite H1, IH. reflexivity.
  - clear E. induction HF as [|kx e l l' [_ H2] _ IH]; [constructor|]. constructor; assumption.
Qed.

(* no JSON image exactly when a float is not finite (given that the message fits the schema) *)
Theorem pjson_of_none_iff_nonfinite : forall S o name m p,
  pj_of S o name m = Some p -> (pjson_of S o name m = None <-> pj_finite p = false).
Proof.
  intros S o name m p H. unfold pjson_of. rewrite H. destruct (pj_finite p); split; intros; congruence.
Qed.

(* the denotation of what the proved decoder returns for the canonical encoding is the denotation of the message *)
Theorem pjson_of_decoded : forall S o name m fuel,
  wf_msg S name m = true -> (depth (VMsg m) <= fuel)%nat ->
  match decode_msg S fuel name (encode_msg m) with Some m' => pjson_of S o name m' | None => None end = pjson_of S o name m.
Proof. intros S o name m fuel Hwf Hd. rewrite (decode_encode_msg S name m fuel Hwf Hd). reflexivity. Qed.
