(* C08 - proofs about the Protobuf -> JSON denotation (model/P2J.v). *)
From Coq Require Import ZArith List Bool Lia.
From DG Require Import CaseFormat ProtoWireRef ProtoMsg Json Num Base64 P2J.
From DG Require Import JsonProofs NumProofs Base64Proofs ProtoMsgProofs.
Import ListNotations.
Local Open Scope Z_scope.

(* ------------------------------------------------------------------ number lexemes *)
(* running the number DFA over a list of characters *)
Fixpoint run (st : nst) (l : list Z) : option nst :=
  match l with
  | [] => Some st
  | c :: r => match num_step st c with Some st' => run st' r | None => None end
  end.

Lemma scan_run : forall l st st' r, run st l = Some st' ->
  scan_num st (l ++ r) = match scan_num st' r with Some (l', r') => Some (l ++ l', r') | None => None end.
Proof.
  induction l as [|c t IH]; intros st st' r H.
  - cbn in H. inversion H; subst. cbn [app]. destruct (scan_num st' r) as [[l' r']|]; reflexivity.
  - cbn [run] in H. destruct (num_step st c) as [s1|] eqn:E; [|discriminate].
    cbn [app scan_num]. rewrite E, (IH s1 st' r H).
    destruct (scan_num st' r) as [[l' r']|]; reflexivity.
Qed.

Lemma run_app : forall a b st st', run st a = Some st' -> run st (a ++ b) = run st' b.
Proof.
  induction a as [|c t IH]; intros b st st' H.
  - cbn in H. inversion H; subst. reflexivity.
  - cbn [run] in H. cbn [app run]. destruct (num_step st c) as [s1|]; [|discriminate]. exact (IH b s1 st' H).
Qed.

Lemma run_digits : forall ds st, (st = NInt \/ st = NExp) -> forallb is_digit ds = true -> run st ds = Some st.
Proof.
  induction ds as [|d t IH]; intros st Hst H; [reflexivity|].
  cbn in H. apply andb_true_iff in H. destruct H as [Hd Ht].
  cbn [run]. destruct Hst as [-> | ->]; cbn [num_step]; rewrite Hd; apply IH; auto.
Qed.

Lemma run_fmt_nat : forall st n, 0 <= n -> (st = N0 \/ st = NMinus) ->
  run st (fmt_nat n) = Some (if n =? 0 then NZero else NInt).
Proof.
  intros st n Hn Hst. destruct (fmt_nat_spec n Hn) as (Hd & _ & Hh).
  destruct (fmt_nat n) as [|d t]; [discriminate Hh|].
  cbn in Hd. apply andb_true_iff in Hd. destruct Hd as [Hd Ht].
  pose proof (proj1 (is_digit_range d) Hd) as Hr.
  unfold head_ok in Hh.
  assert (Hstep : num_step st d = Some (if d =? 48 then NZero else NInt)).
  { destruct Hst as [-> | ->]; cbn [num_step].
    - destruct (Z.eqb_spec d 45) as [E|_]; [lia|]. destruct (d =? 48); [reflexivity|]. rewrite Hd. reflexivity.
    - destruct (d =? 48); [reflexivity|]. rewrite Hd. reflexivity. }
  cbn [run]. rewrite Hstep.
  destruct (Z.eqb_spec n 0) as [->|Hz].
  - apply andb_true_iff in Hh. destruct Hh as [Hd0 Hnil]. rewrite Hd0.
    destruct t; [reflexivity|discriminate Hnil].
  - apply negb_true_iff in Hh. rewrite Hh. apply run_digits; auto.
Qed.

(* the exponent part  e - digits  from a state that has read the integer part *)
Lemma run_exp : forall st k, (st = NZero \/ st = NInt) -> 0 <= k ->
  run st (101 :: 45 :: fmt_nat k) = Some NExp.
Proof.
  intros st k Hst Hk.
  assert (E1 : num_step st 101 = Some NE) by (destruct Hst as [-> | ->]; reflexivity).
  cbn [run]. rewrite E1. cbn [num_step]. change ((45 =? 43) || (45 =? 45)) with true. cbn iota.
  destruct (fmt_nat_spec k Hk) as (Hd & _ & Hh).
  destruct (fmt_nat k) as [|d t]; [discriminate Hh|].
  cbn in Hd. apply andb_true_iff in Hd. destruct Hd as [Hd Ht].
  cbn [run num_step]. rewrite Hd. apply run_digits; auto.
Qed.

Lemma num_okb_run : forall l st, run N0 l = Some st -> num_acc st = true -> num_okb l = true.
Proof.
  intros l st H Ha. unfold num_okb.
  pose proof (scan_run l N0 st [] H) as E. rewrite app_nil_r in E. rewrite E.
  cbn [scan_num]. rewrite Ha. reflexivity.
Qed.

Lemma num_okb_dec_lex : forall neg m e, 0 <= m -> e <= 0 -> num_okb (dec_lex neg m e) = true.
Proof.
  intros neg m e Hm He. unfold dec_lex.
  set (st0 := if neg then NMinus else N0).
  assert (H0 : run N0 (if neg then [45] else []) = Some st0) by (destruct neg; reflexivity).
  assert (Hst0 : st0 = N0 \/ st0 = NMinus) by (destruct neg; auto).
  set (st1 := if m =? 0 then NZero else NInt).
  assert (H1 : run st0 (fmt_nat m) = Some st1) by (apply run_fmt_nat; auto).
  assert (Hst1 : st1 = NZero \/ st1 = NInt) by (unfold st1; destruct (m =? 0); auto).
  destruct (Z.eqb_spec e 0) as [->|Hne].
  - rewrite app_nil_r. apply (num_okb_run _ st1).
    + rewrite (run_app _ _ _ _ H0). exact H1.
    + destruct Hst1 as [-> | ->]; reflexivity.
  - apply (num_okb_run _ NExp); [|reflexivity].
    rewrite (run_app _ _ _ _ H0), (run_app _ _ _ _ H1). apply run_exp; [exact Hst1 | lia].
Qed.

Lemma f64_decomp_nonneg : forall b neg M k, f64_decomp b = (neg, M, k) -> 0 <= M.
Proof.
  intros b neg M k H. unfold f64_decomp in H.
  assert (HP : 0 < 2 ^ 52) by (apply Z.pow_pos_nonneg; lia).
  pose proof (Z.mod_pos_bound b (2 ^ 52) HP) as Hf.
  generalize dependent (2 ^ 52). intros P H HP Hf.
  destruct ((b / P) mod 2048 =? 0); inversion H; subst; lia.
Qed.

Theorem num_okb_f64_lex : forall b, num_okb (f64_lex b) = true.
Proof.
  intros b. unfold f64_lex. destruct (f64_decomp b) as [[neg M] k] eqn:E.
  pose proof (f64_decomp_nonneg _ _ _ _ E) as HM.
  destruct (M =? 0); [apply num_okb_dec_lex; lia|].
  destruct (Z.leb_spec 0 k) as [Hk|Hk].
  - apply num_okb_dec_lex; [|lia]. apply Z.mul_nonneg_nonneg; [exact HM|]. apply Z.pow_nonneg. lia.
  - apply num_okb_dec_lex; [|lia]. apply Z.mul_nonneg_nonneg; [exact HM|]. apply Z.pow_nonneg. lia.
Qed.

(* ------------------------------------------------------------------ byte lists *)
Lemma jbytes_fmt_int : forall z, jbytes_okb (fmt_int z) = true.
Proof.
  intros z. pose proof (fmt_int_plain z) as H. unfold lex_is_plain_int in H.
  apply andb_true_iff in H. destruct H as [_ H].
  unfold jbytes_okb. rewrite forallb_forall in *. intros c Hc. specialize (H c Hc).
  apply orb_true_iff in H. destruct H as [H|H].
  - apply is_digit_range in H. unfold jbyte_okb. apply andb_true_iff. rewrite Z.leb_le, Z.ltb_lt. lia.
  - apply Z.eqb_eq in H. subst. reflexivity.
Qed.

Lemma b64_char_okb : forall n, 0 <= n < 64 -> jbyte_okb (b64_char n) = true.
Proof.
  intros n Hn. unfold b64_char, jbyte_okb.
  destruct (Z.ltb_spec n 26); [apply andb_true_iff; rewrite Z.leb_le, Z.ltb_lt; lia|].
  destruct (Z.ltb_spec n 52); [apply andb_true_iff; rewrite Z.leb_le, Z.ltb_lt; lia|].
  destruct (Z.ltb_spec n 62); [apply andb_true_iff; rewrite Z.leb_le, Z.ltb_lt; lia|].
  destruct (n =? 62); reflexivity.
Qed.

Lemma jbytes_b64 : forall bs, jbytes_okb bs = true -> jbytes_okb (b64_encode bs) = true.
Proof.
  intros bs H. apply Forall_jbytes in H. revert H.
  induction bs as [| a | a b | a b c r IH] using list_ind3; intros H.
  - reflexivity.
  - inversion H as [|? ? Ha _]; subst.
    cbn [b64_encode jbytes_okb forallb].
    rewrite (b64_char_okb (a / 4)) by (apply idx0; exact Ha).
    rewrite (b64_char_okb (a mod 4 * 16)) by (apply idx1'; exact Ha). reflexivity.
  - inversion H as [|? ? Ha H2]; subst. inversion H2 as [|? ? Hb _]; subst.
    cbn [b64_encode jbytes_okb forallb].
    rewrite (b64_char_okb (a / 4)) by (apply idx0; exact Ha).
    rewrite (b64_char_okb (a mod 4 * 16 + b / 16)) by (apply idx1; assumption).
    rewrite (b64_char_okb (b mod 16 * 4)) by (apply idx2'; exact Hb). reflexivity.
  - inversion H as [|? ? Ha H2]; subst. inversion H2 as [|? ? Hb H3]; subst. inversion H3 as [|? ? Hc Hr]; subst.
    cbn [b64_encode]. unfold jbytes_okb in *. cbn [forallb].
    rewrite (b64_char_okb (a / 4)) by (apply idx0; exact Ha).
    rewrite (b64_char_okb (a mod 4 * 16 + b / 16)) by (apply idx1; assumption).
    rewrite (b64_char_okb (b mod 16 * 4 + c / 64)) by (apply idx2; assumption).
    rewrite (b64_char_okb (c mod 64)) by (apply idx3; exact Hc).
    cbn [andb]. apply IH. exact Hr.
Qed.

Lemma jbytes_key_str : forall k, key_bytes_okb k = true -> jbytes_okb (key_str k) = true.
Proof.
  intros [kk v|s] H; cbn [key_str].
  - destruct (kk =? K_BOOL); [destruct (v =? 0); reflexivity | apply jbytes_fmt_int].
  - exact H.
Qed.

(* ------------------------------------------------------------------ induction over the kind-annotated tree *)
Section PjInd.
  Variable P : pj -> Prop.
  Hypothesis HInt : forall k v, P (PJInt k v).
  Hypothesis HIntS : forall k v, P (PJIntS k v).
  Hypothesis HF : forall k b, P (PJF k b).
  Hypothesis HBool : forall b, P (PJBool b).
  Hypothesis HStr : forall s, P (PJStr s).
  Hypothesis HB64 : forall s, P (PJB64 s).
  Hypothesis HArr : forall xs, Forall P xs -> P (PJArr xs).
  Hypothesis HObj : forall ms, Forall (fun m => P (snd m)) ms -> P (PJObj ms).
  Hypothesis HMap : forall kk ms, Forall (fun m => P (snd m)) ms -> P (PJMap kk ms).
  Fixpoint pj_ind' (p : pj) : P p :=
    match p with
    | PJInt k v => HInt k v
    | PJIntS k v => HIntS k v
    | PJF k b => HF k b
    | PJBool b => HBool b
    | PJStr s => HStr s
    | PJB64 s => HB64 s
    | PJArr xs => HArr xs ((fix go (l : list pj) : Forall P l :=
                              match l with [] => Forall_nil _ | x :: l' => Forall_cons x (pj_ind' x) (go l') end) xs)
    | PJObj ms => HObj ms ((fix go (l : list (list Z * pj)) : Forall (fun m => P (snd m)) l :=
                              match l with [] => Forall_nil _ | x :: l' => Forall_cons x (pj_ind' (snd x)) (go l') end) ms)
    | PJMap kk ms => HMap kk ms ((fix go (l : list (mkey * pj)) : Forall (fun m => P (snd m)) l :=
                              match l with [] => Forall_nil _ | x :: l' => Forall_cons x (pj_ind' (snd x)) (go l') end) ms)
    end.
End PjInd.

(* ------------------------------------------------------------------ the denotation is a well-formed JSON AST *)
Lemma json_wf_pj : forall p, pj_bytes_okb p = true -> pj_finite p = true -> json_wf (pj_json p) = true.
Proof.
  induction p as [k v|k v|k b|b|s|s|xs IH|ms IH|kk ms IH] using pj_ind'; intros Hb Hf; cbn [pj_json json_wf].
  - apply num_okb_fmt_int.
  - apply jbytes_fmt_int.
  - cbn [pj_finite] in Hf. rewrite Hf. cbn [json_wf]. apply num_okb_f64_lex.
  - reflexivity.
  - exact Hb.
  - apply jbytes_b64. exact Hb.
  - cbn [pj_bytes_okb pj_finite] in Hb, Hf. rewrite forallb_forall in *.
    intros j Hj. apply in_map_iff in Hj. destruct Hj as (x & <- & Hx).
    rewrite Forall_forall in IH. apply IH; auto.
  - cbn [pj_bytes_okb pj_finite] in Hb, Hf. rewrite forallb_forall in *.
    intros j Hj. apply in_map_iff in Hj. destruct Hj as (x & <- & Hx).
    rewrite Forall_forall in IH. specialize (Hb x Hx). apply andb_true_iff in Hb. destruct Hb as [Hk Hv].
    cbn [fst snd]. rewrite Hk. cbn [andb]. apply IH; auto.
  - cbn [pj_bytes_okb pj_finite] in Hb, Hf. rewrite forallb_forall in *.
    intros j Hj. apply in_map_iff in Hj. destruct Hj as (x & <- & Hx).
    rewrite Forall_forall in IH. specialize (Hb x Hx). apply andb_true_iff in Hb. destruct Hb as [Hk Hv].
    cbn [fst snd]. rewrite (jbytes_key_str _ Hk). cbn [andb]. apply IH; auto.
Qed.

(* every member name of a well-formed JSON value is a byte string that the quoting round-trips *)
Lemma json_keys_wf : forall j, json_wf j = true ->
  Forall (fun k => jbytes_okb k = true /\ unquote (quote_ref k) = Some k) (json_keys j).
Proof.
  induction j as [| b | l | s | xs IH | ms IH] using json_ind'; intros H; cbn [json_keys]; try constructor.
  - cbn [json_wf] in H. rewrite forallb_forall in H. rewrite Forall_forall in *.
    intros k Hk. apply in_flat_map in Hk. destruct Hk as (x & Hx & Hk).
    pose proof (IH x Hx (H x Hx)) as Hall. rewrite Forall_forall in Hall. exact (Hall k Hk).
  - cbn [json_wf] in H. rewrite forallb_forall in H. rewrite Forall_forall in *.
    intros k Hk. apply in_flat_map in Hk. destruct Hk as (x & Hx & Hk).
    specialize (H x Hx). apply andb_true_iff in H. destruct H as [H1 H2].
    destruct Hk as [<-|Hk].
    + split; [exact H1 | apply unquote_quote_ref; exact H1].
    + pose proof (IH x Hx H2) as Hall. rewrite Forall_forall in Hall. exact (Hall k Hk).
Qed.

(* ------------------------------------------------------------------ from the message to the tree *)
Lemma seq_opt_Forall2 : forall {A B} (f : A -> option B) (l : list A) (r : list B),
  seq_opt (map f l) = Some r -> Forall2 (fun x y => f x = Some y) l r.
Proof.
  induction l as [|x t IH]; intros r H; cbn in H.
  - inversion H. constructor.
  - destruct (f x) as [y|] eqn:E; [|discriminate].
    destruct (seq_opt (map f t)) as [ys|] eqn:E2; [|discriminate].
    inversion H; subst. constructor; [exact E | apply IH; reflexivity].
Qed.

Lemma Forall2_in_r : forall {A B} (R : A -> B -> Prop) (l : list A) (r : list B) y,
  Forall2 R l r -> In y r -> exists x, In x l /\ R x y.
Proof.
  intros A B R l r y H. induction H as [|a b l' r' Hab _ IH]; intros Hy; [contradiction|].
  destruct Hy as [<-|Hy]; [exists a; split; [left; reflexivity | exact Hab]|].
  destruct (IH Hy) as (x & Hx & Hr). exists x. split; [right; exact Hx | exact Hr].
Qed.

Lemma find_msg_in : forall S name md, find_msg S name = Some md -> In md S.
Proof. intros S name md H. unfold find_msg in H. apply find_some in H. tauto. Qed.
Lemma find_field_in : forall md n fd, find_field md n = Some fd -> In fd (md_fields md).
Proof. intros md n fd H. unfold find_field in H. apply find_some in H. tauto. Qed.

Lemma schema_json_bytes : forall S name md n fd, schema_bytes_okb S = true ->
  find_msg S name = Some md -> find_field md n = Some fd -> jbytes_okb (fd_json fd) = true.
Proof.
  intros S name md n fd HS Hm Hf. unfold schema_bytes_okb in HS. rewrite forallb_forall in HS.
  specialize (HS md (find_msg_in _ _ _ Hm)). rewrite forallb_forall in HS.
  exact (HS fd (find_field_in _ _ _ Hf)).
Qed.

Lemma pj_scalar_bytes : forall o k v p, pj_scalar o k v = Some p -> pj_bytes_okb p = true.
Proof.
  intros o k v p H. unfold pj_scalar in H.
  destruct (k =? K_BOOL); [inversion H; reflexivity|].
  destruct (k =? K_DOUBLE); [inversion H; reflexivity|].
  destruct (k =? K_FLOAT); [inversion H; reflexivity|].
  destruct (is_int_kind k); [|discriminate].
  destruct ((k =? K_INT64) && o_int64_string o); inversion H; reflexivity.
Qed.

Lemma pj_fld_bytes : forall S o, schema_bytes_okb S = true ->
  forall v lbl t p, pval_bytes_okb v = true -> pj_fld S o lbl t v = Some p -> pj_bytes_okb p = true.
Proof.
  intros S o HS.
  induction v as [k x|k b|fs IH|pk vs IH|kvs IH] using pval_ind'; intros lbl t p Hb H.
  - destruct lbl; cbn [pj_fld] in H; try discriminate.
    destruct t as [k'|]; [|discriminate]. destruct (k =? k'); [|discriminate]. exact (pj_scalar_bytes _ _ _ _ H).
  - destruct lbl; cbn [pj_fld] in H; try discriminate.
    destruct t as [k'|]; [|discriminate]. destruct (negb (k =? k')); [discriminate|].
    destruct (k =? K_STRING); [inversion H; subst; exact Hb|].
    destruct (k =? K_BYTES); [inversion H; subst; exact Hb|discriminate].
  - destruct lbl; cbn [pj_fld] in H; try discriminate.
    destruct t as [|name]; [discriminate|]. destruct (find_msg S name) as [md|] eqn:Em; [|discriminate].
    match type of H with option_map _ ?x = _ => destruct x as [ms|] eqn:E; [|discriminate] end.
    inversion H; subst. apply seq_opt_Forall2 in E.
    cbn [pj_bytes_okb pval_bytes_okb] in *. rewrite forallb_forall in Hb. rewrite Forall_forall in IH.
    apply forallb_forall. intros m Hm.
    destruct (Forall2_in_r _ _ _ _ E Hm) as (nv & Hnv & Hrel).
    destruct (find_field md (fst nv)) as [fd|] eqn:Ef; [|discriminate].
    destruct (pj_fld S o (fd_label fd) (fd_type fd) (snd nv)) as [p'|] eqn:Ep; [|discriminate].
    inversion Hrel; subst. cbn [fst snd].
    rewrite (schema_json_bytes _ _ _ _ _ HS Em Ef). cbn [andb].
    exact (IH nv Hnv _ _ _ (Hb nv Hnv) Ep).
  - destruct lbl; cbn [pj_fld] in H; try discriminate.
    match type of H with option_map _ ?x = _ => destruct x as [ps|] eqn:E; [|discriminate] end.
    inversion H; subst. apply seq_opt_Forall2 in E.
    cbn [pj_bytes_okb pval_bytes_okb] in *. rewrite forallb_forall in Hb. rewrite Forall_forall in IH.
    apply forallb_forall. intros q Hq.
    destruct (Forall2_in_r _ _ _ _ E Hq) as (x & Hx & Hrel).
    exact (IH x Hx _ _ _ (Hb x Hx) Hrel).
  - destruct lbl; cbn [pj_fld] in H; try discriminate.
    match type of H with option_map _ ?x = _ => destruct x as [ps|] eqn:E; [|discriminate] end.
    inversion H; subst. apply seq_opt_Forall2 in E.
    cbn [pj_bytes_okb pval_bytes_okb] in *. rewrite forallb_forall in Hb. rewrite Forall_forall in IH.
    apply forallb_forall. intros q Hq.
    destruct (Forall2_in_r _ _ _ _ E Hq) as (kx & Hkx & Hrel).
    destruct (key_kind_okb keykind (fst kx)); [|discriminate].
    destruct (pj_fld S o LSingular t (snd kx)) as [p'|] eqn:Ep; [|discriminate].
    inversion Hrel; subst. cbn [fst snd].
    specialize (Hb kx Hkx). apply andb_true_iff in Hb. destruct Hb as [Hk Hv].
    rewrite Hk. cbn [andb]. exact (IH kx Hkx _ _ _ Hv Ep).
Qed.

(* ------------------------------------------------------------------ the theorems of C08 *)
(* 1. never malformed: the printed denotation parses back to itself *)
Theorem pjson_prints_valid_pf : forall S o name m j,
  schema_bytes_okb S = true -> pval_bytes_okb (VMsg m) = true ->
  pjson_of S o name m = Some j -> json_parse (json_print j) = Some j.
Proof.
  intros S o name m j HS Hb H. unfold pjson_of, pj_of in H.
  destruct (pj_fld S o LSingular (TMsg name) (VMsg m)) as [p|] eqn:E; [|discriminate].
  destruct (pj_finite p) eqn:Ef; [|discriminate]. inversion H; subst.
  apply json_parse_print. apply json_wf_pj; [|exact Ef].
  exact (pj_fld_bytes S o HS _ _ _ _ Hb E).
Qed.

(* 2. every member name anywhere in the denotation (JSON names of fields, stringified map keys of every key kind) is a
      byte string, printed as a string literal that unquotes to exactly that name *)
Theorem pjson_keys_are_strings_pf : forall S o name m j,
  schema_bytes_okb S = true -> pval_bytes_okb (VMsg m) = true ->
  pjson_of S o name m = Some j ->
  Forall (fun k => jbytes_okb k = true /\ unquote (quote_ref k) = Some k) (json_keys j).
Proof.
  intros S o name m j HS Hb H. apply json_keys_wf.
  unfold pjson_of, pj_of in H.
  destruct (pj_fld S o LSingular (TMsg name) (VMsg m)) as [p|] eqn:E; [|discriminate].
  destruct (pj_finite p) eqn:Ef; [|discriminate]. inversion H; subst.
  apply json_wf_pj; [|exact Ef]. exact (pj_fld_bytes S o HS _ _ _ _ Hb E).
Qed.

(* the members of an object are printed as  "name":value  with the name quoted (by definition of the printer; stated
   for the record: this is the shape the parser of pjson_prints_valid reads) *)
Lemma print_member_quoted : forall k v, print_member json_print (k, v) = quote_ref k ++ 58 :: json_print v.
Proof. reflexivity. Qed.

(* stringified integer keys denote the key: decimal digits that read back as the key, for EVERY integer key kind *)
Theorem key_str_int_exact : forall kk v, (kk =? K_BOOL) = false -> parse_int (key_str (KInt kk v)) = Some v.
Proof. intros kk v H. cbn [key_str]. rewrite H. apply parse_int_fmt_int. Qed.
Theorem key_str_bool_exact : forall v, key_str (KInt K_BOOL v) = if v =? 0 then lit_false else lit_true.
Proof. reflexivity. Qed.
Theorem key_str_string_exact : forall s, key_str (KStr s) = s.
Proof. reflexivity. Qed.

(* 3. + 4. the shape of the denotation of a message, field by field, in wire order *)
Definition field_denotes (S : schema) (o : p2j_opts) (md : mdesc) (nv : Z * pval) (member : list Z * json) : Prop :=
  exists fd p, find_field md (fst nv) = Some fd /\ fst member = fd_json fd /\
               pj_fld S o (fd_label fd) (fd_type fd) (snd nv) = Some p /\ snd member = pj_json p.

Theorem pjson_fields_exact_pf : forall S o name m j,
  pjson_of S o name m = Some j ->
  exists md ms, find_msg S name = Some md /\ j = JObj ms /\ Forall2 (field_denotes S o md) m ms.
Proof.
  intros S o name m j H. unfold pjson_of, pj_of in H.
  destruct (pj_fld S o LSingular (TMsg name) (VMsg m)) as [p|] eqn:E; [|discriminate].
  destruct (pj_finite p); [|discriminate]. inversion H; subst. clear H.
  cbn [pj_fld] in E. destruct (find_msg S name) as [md|] eqn:Em; [|discriminate].
  match type of E with option_map _ ?x = _ => destruct x as [ps|] eqn:E2; [|discriminate] end.
  inversion E; subst. apply seq_opt_Forall2 in E2.
  exists md, (map (fun m0 => (fst m0, pj_json (snd m0))) ps). split; [reflexivity|]. split; [reflexivity|].
  clear E. induction E2 as [|nv q m' ps' Hrel _ IH]; [constructor|].
  cbn [map]. constructor; [|exact IH].
  destruct (find_field md (fst nv)) as [fd|] eqn:Ef; [|discriminate].
  destruct (pj_fld S o (fd_label fd) (fd_type fd) (snd nv)) as [p'|] eqn:Ep; [|discriminate].
  inversion Hrel; subst. exists fd, p'. cbn [fst snd]. auto.
Qed.

(* 3. top-level member names = JSON names of the present fields, in wire order *)
Theorem pjson_members_exact_pf : forall S o name m j,
  pjson_of S o name m = Some j ->
  exists md ms, find_msg S name = Some md /\ j = JObj ms /\
    Forall2 (fun nv member => exists fd, find_field md (fst nv) = Some fd /\ fst member = fd_json fd) m ms.
Proof.
  intros S o name m j H. destruct (pjson_fields_exact_pf _ _ _ _ _ H) as (md & ms & Hm & Hj & HF).
  exists md, ms. split; [exact Hm|]. split; [exact Hj|]. clear H Hj.
  induction HF as [|nv mem m' ms' (fd & p & H1 & H2 & _) _ IH]; [constructor|].
  constructor; [exists fd; auto | exact IH].
Qed.

(* 4. a repeated field (packed or not) denotes the array of its elements' denotations, same length, same order *)
Theorem pj_repeated_order : forall S o pk t q vs p,
  pj_fld S o (LRepeated pk) t (VList q vs) = Some p ->
  exists ps, p = PJArr ps /\ Forall2 (fun v e => pj_fld S o LSingular t v = Some e) vs ps /\
             pj_json p = JArr (map pj_json ps).
Proof.
  intros S o pk t q vs p H. cbn [pj_fld] in H.
  match type of H with option_map _ ?x = _ => destruct x as [ps|] eqn:E; [|discriminate] end.
  inversion H; subst. exists ps. split; [reflexivity|]. split; [|reflexivity].
  exact (seq_opt_Forall2 _ _ _ E).
Qed.

Theorem pjson_repeated_order_pf : forall S o name m j,
  pjson_of S o name m = Some j ->
  exists md ms, find_msg S name = Some md /\ j = JObj ms /\
    Forall2 (fun nv member =>
               forall q vs, snd nv = VList q vs ->
               exists es, Forall2 (fun v e => exists fd, find_field md (fst nv) = Some fd /\
                                                         pj_fld S o LSingular (fd_type fd) v = Some e) vs es /\
                          snd member = JArr (map pj_json es)) m ms.
Proof.
  intros S o name m j H. destruct (pjson_fields_exact_pf _ _ _ _ _ H) as (md & ms & Hm & Hj & HF).
  exists md, ms. split; [exact Hm|]. split; [exact Hj|]. clear H Hj.
  induction HF as [|nv mem m' ms' (fd & p & H1 & H2 & H3 & H4) _ IH]; [constructor|].
  constructor; [|exact IH].
  intros q vs Hv. rewrite Hv in H3.
  destruct (fd_label fd) as [|pk|kk] eqn:El; cbn [pj_fld] in H3; try discriminate.
  fold (pj_fld S o (LRepeated pk) (fd_type fd) (VList q vs)) in H3.
  destruct (pj_repeated_order S o pk (fd_type fd) q vs p) as (es & -> & HF2 & Hjson).
  { cbn [pj_fld]. exact H3. }
  exists es. split; [|rewrite H4; exact Hjson].
  clear - HF2 H1. induction HF2; [constructor|]. constructor; [exists fd; auto | assumption].
Qed.

(* maps: the members of the object are the entries in order, named by the stringified keys *)
Theorem pj_map_keys_stringified : forall S o kk t kvs p,
  pj_fld S o (LMap kk) t (VMap kvs) = Some p ->
  exists ps, p = PJMap kk ps /\ map fst ps = map fst kvs /\
             Forall2 (fun kx e => pj_fld S o LSingular t (snd kx) = Some (snd e)) kvs ps /\
             pj_json p = JObj (map (fun e => (key_str (fst e), pj_json (snd e))) ps).
Proof.
  intros S o kk t kvs p H. cbn [pj_fld] in H.
  match type of H with option_map _ ?x = _ => destruct x as [ps|] eqn:E; [|discriminate] end.
  inversion H; subst. exists ps. split; [reflexivity|].
  apply seq_opt_Forall2 in E.
  clear H.
  assert (HF : Forall2 (fun kx e => fst e = fst kx /\ pj_fld S o LSingular t (snd kx) = Some (snd e)) kvs ps).
  { induction E as [|kx e l l' Hrel _ IH]; [constructor|]. constructor; [|exact IH].
    destruct (key_kind_okb kk (fst kx)); [|discriminate].
    destruct (pj_fld S o LSingular t (snd kx)) as [p'|]; [|discriminate]. inversion Hrel; subst. auto. }
  split; [|split; [|reflexivity]].
  - clear E. induction HF as [|kx e l l' [H1 _] _ IH]; [reflexivity|]. cbn [map]. rewrite H1, IH. reflexivity.
  - clear E. induction HF as [|kx e l l' [_ H2] _ IH]; [constructor|]. constructor; assumption.
Qed.

(* no JSON image exactly when a float is not finite (given that the message fits the schema) *)
Theorem pjson_of_none_iff_nonfinite : forall S o name m p,
  pj_of S o name m = Some p -> (pjson_of S o name m = None <-> pj_finite p = false).
Proof.
  intros S o name m p H. unfold pjson_of. rewrite H. destruct (pj_finite p); split; intros; congruence.
Qed.

(* the denotation of what the proved decoder returns for the canonical encoding is the denotation of the message *)
Theorem pjson_of_decoded : forall S o name m fuel,
  wf_msg S name m = true -> (depth (VMsg m) <= fuel)%nat ->
  match decode_msg S fuel name (encode_msg m) with Some m' => pjson_of S o name m' | None => None end = pjson_of S o name m.
Proof. intros S o name m fuel Hwf Hd. rewrite (decode_encode_msg S name m fuel Hwf Hd). reflexivity. Qed.

(* ------------------------------------------------------------------ floats: the lexeme denotes exactly the float's value *)
Lemma span_digits_app : forall ds tail, forallb is_digit ds = true ->
  match tail with [] => True | c :: _ => is_digit c = false end ->
  span_digits (ds ++ tail) = (ds, tail).
Proof.
  induction ds as [|d t IH]; intros tail Hd Ht.
  - cbn [app]. destruct tail as [|c r]; [reflexivity|]. cbn [span_digits]. rewrite Ht. reflexivity.
  - cbn in Hd. apply andb_true_iff in Hd. destruct Hd as [H1 H2].
    cbn [app span_digits]. rewrite H1, (IH tail H2 Ht). reflexivity.
Qed.

Lemma lex_decimal_dec_lex : forall neg m e, 0 <= m -> e <= 0 -> lex_decimal (dec_lex neg m e) = Some (neg, m, e).
Proof.
  intros neg m e Hm He. unfold lex_decimal. rewrite (num_okb_dec_lex neg m e Hm He). cbn [negb].
  unfold dec_lex.
  destruct (fmt_nat_spec m Hm) as (Hd & Hv & Hh).
  set (tail := if e =? 0 then [] else 101 :: 45 :: fmt_nat (- e)).
  assert (Htail : match tail with [] => True | c :: _ => is_digit c = false end)
    by (unfold tail; destruct (e =? 0); [exact I | reflexivity]).
  assert (Hstrip : (let '(neg0, r0) := match (if neg then [45] else []) ++ fmt_nat m ++ tail with
                                      | c :: r => if c =? 45 then (true, r) else (false, (if neg then [45] else []) ++ fmt_nat m ++ tail)
                                      | [] => (false, (if neg then [45] else []) ++ fmt_nat m ++ tail)
                                      end in (neg0, r0)) = (neg, fmt_nat m ++ tail)).
  { destruct neg; cbn [app]; [reflexivity|].
    destruct (fmt_nat m) as [|d t] eqn:E; [discriminate Hh|].
    cbn in Hd. apply andb_true_iff in Hd. destruct Hd as [Hd0 _]. apply is_digit_range in Hd0.
    cbn [app]. destruct (Z.eqb_spec d 45); [lia | reflexivity]. }
  match goal with |- (let '(n0, r0) := ?X in _) = _ =>
    replace X with (neg, fmt_nat m ++ tail)
      by (symmetry; revert Hstrip; match goal with |- (let '(a, b) := ?Y in (a, b)) = _ -> _ => destruct Y; intros H; exact H end)
  end.
  rewrite (span_digits_app _ tail Hd Htail).
  unfold tail. destruct (Z.eqb_spec e 0) as [->|Hne].
  - rewrite app_nil_r, Hv. reflexivity.
  - change (101 =? 46) with false. cbn iota.
    change (45 =? 45) with true. cbn iota.
    destruct (fmt_nat_spec (- e)) as (Hd2 & Hv2 & _); [lia|].
    rewrite (span_digits_all _ Hd2). cbn [fst]. rewrite app_nil_r, Hv, Hv2. cbn [length Z.of_nat].
    f_equal. f_equal. lia.
Qed.

(* the decimal m * 10^e the lexeme denotes IS the value M * 2^k of the bit pattern (cross-multiplied, all integers) *)
Theorem f64_lex_value_exact : forall b neg M k, f64_decomp b = (neg, M, k) ->
  exists m e, lex_decimal (f64_lex b) = Some (neg, m, e) /\ e <= 0 /\
              m * 2 ^ (Z.max 0 (- k)) = M * 2 ^ (Z.max 0 k) * 10 ^ (- e).
Proof.
  intros b neg M k H. unfold f64_lex. rewrite H.
  pose proof (f64_decomp_nonneg _ _ _ _ H) as HM.
  destruct (Z.eqb_spec M 0) as [->|HM0].
  - exists 0, 0. split; [apply lex_decimal_dec_lex; lia|]. split; [lia|]. cbn. lia.
  - destruct (Z.leb_spec 0 k) as [Hk|Hk].
    + exists (M * 2 ^ k), 0. split.
      * apply lex_decimal_dec_lex; [|lia]. apply Z.mul_nonneg_nonneg; [lia|]. apply Z.pow_nonneg. lia.
      * split; [lia|]. rewrite Z.max_l by lia. rewrite Z.max_r by lia. cbn [Z.opp Z.pow]. lia.
    + exists (M * 5 ^ (- k)), k. split.
      * apply lex_decimal_dec_lex; [|lia]. apply Z.mul_nonneg_nonneg; [lia|]. apply Z.pow_nonneg. lia.
      * split; [lia|]. rewrite Z.max_r by lia. rewrite Z.max_l by lia.
        change 10 with (5 * 2). rewrite Z.pow_mul_l. cbn [Z.pow]. lia.
Qed.

(* ------------------------------------------------------------------ widening float32 -> float64 is exact *)
Lemma fields_compose : forall s E F, 0 <= s <= 1 -> 0 <= E < 2048 -> 0 <= F < 2 ^ 52 ->
  let b := s * 2 ^ 63 + E * 2 ^ 52 + F in
  (2 ^ 63 <=? b) = (s =? 1) /\ (b / 2 ^ 52) mod 2048 = E /\ b mod 2 ^ 52 = F.
Proof.
  intros s E F Hs HE HF b.
  assert (H63 : 2 ^ 63 = 2048 * 2 ^ 52) by (change 63 with (11 + 52); rewrite Z.pow_add_r by lia; reflexivity).
  assert (HP : 0 < 2 ^ 52) by (apply Z.pow_pos_nonneg; lia).
  subst b. rewrite H63. generalize dependent (2 ^ 52). intros P HF _ HP.
  assert (Hb : s * (2048 * P) + E * P + F = (s * 2048 + E) * P + F) by ring.
  assert (Hdiv : (s * (2048 * P) + E * P + F) / P = s * 2048 + E).
  { rewrite Hb. symmetry. apply (Z.div_unique_pos _ P _ F); [lia | ring]. }
  assert (Hmod : (s * (2048 * P) + E * P + F) mod P = F).
  { rewrite Hb. symmetry. apply (Z.mod_unique_pos _ P (s * 2048 + E) F); [lia | ring]. }
  split; [|split].
  - destruct (Z.eqb_spec s 1) as [->|Hn].
    + apply Z.leb_le. nia.
    + apply Z.leb_gt. assert (s = 0) by lia. subst s. nia.
  - rewrite Hdiv. symmetry. apply (Z.mod_unique_pos _ 2048 s E); [lia | ring].
  - exact Hmod.
Qed.

Lemma f64_decomp_compose : forall s E F, 0 <= s <= 1 -> 0 <= E < 2048 -> 0 <= F < 2 ^ 52 ->
  f64_decomp (s * 2 ^ 63 + E * 2 ^ 52 + F) =
  if E =? 0 then (s =? 1, F, -1074) else (s =? 1, 2 ^ 52 + F, E - 1075).
Proof.
  intros s E F Hs HE HF. destruct (fields_compose s E F Hs HE HF) as (H1 & H2 & H3).
  unfold f64_decomp. rewrite H1, H2, H3. reflexivity.
Qed.

(* the value of the widened pattern equals the value of the float32 pattern: M' * 2^k' = M * 2^k (scaled by 2^1074) *)
Theorem widen32_exact : forall b, 0 <= b < 2 ^ 32 -> f32_is_finite b = true ->
  forall neg M k neg' M' k', f32_decomp b = (neg, M, k) -> f64_decomp (widen32 b) = (neg', M', k') ->
  neg' = neg /\ M' * 2 ^ (k' + 1074) = M * 2 ^ (k + 1074) /\ f64_is_finite (widen32 b) = true.
Proof.
  intros b Hb Hfin neg M k neg' M' k' H32 H64.
  unfold f32_is_finite in Hfin. apply negb_true_iff in Hfin. apply Z.eqb_neq in Hfin.
  unfold f32_decomp in H32. unfold widen32 in *.
  assert (H31 : 2 ^ 32 = 2 * 2 ^ 31) by reflexivity.
  assert (H23 : 2 ^ 31 = 256 * 2 ^ 23) by reflexivity.
  set (s := b / 2 ^ 31) in *. set (e := (b / 2 ^ 23) mod 256) in *. set (f := b mod 2 ^ 23) in *.
  assert (Hs : 0 <= s <= 1).
  { unfold s. split; [apply Z.div_pos; lia|]. apply Z.lt_succ_r. apply Z.div_lt_upper_bound; lia. }
  assert (He : 0 <= e < 256) by (unfold e; apply Z.mod_pos_bound; lia).
  assert (Hf : 0 <= f < 2 ^ 23) by (unfold f; apply Z.mod_pos_bound; lia).
  assert (Hneg : (2 ^ 31 <=? b) = (s =? 1)).
  { unfold s. destruct (Z.leb_spec (2 ^ 31) b) as [Hge|Hlt].
    - assert (1 <= b / 2 ^ 31) by (apply Z.div_le_lower_bound; lia).
      symmetry. apply Z.eqb_eq. fold s in Hs. unfold s in Hs. lia.
    - rewrite Z.div_small by lia. reflexivity. }
  rewrite Hneg in H32.
  destruct (Z.eqb_spec e 255) as [E255|_]; [contradiction|].
  destruct (Z.eqb_spec e 0) as [E0|En0].
  - (* zero / subnormal *)
    apply pair_equal_spec in H32. destruct H32 as [H32 Hk]. apply pair_equal_spec in H32. destruct H32 as [Hn HM]. subst neg M k.
    destruct (Z.eqb_spec f 0) as [F0|Fn0].
    + replace (s * 2 ^ 63) with (s * 2 ^ 63 + 0 * 2 ^ 52 + 0) in * by ring.
      rewrite f64_decomp_compose in H64 by lia. change (0 =? 0) with true in H64. cbn iota in H64. apply pair_equal_spec in H64. destruct H64 as [H64 Hk']. apply pair_equal_spec in H64. destruct H64 as [Hn' HM']. subst neg' M' k'.
      split; [reflexivity|]. split; [rewrite F0; ring|].
      unfold f64_is_finite. destruct (fields_compose s 0 0 Hs ltac:(lia) ltac:(lia)) as (_ & H2 & _).
      rewrite H2. reflexivity.
    + assert (Hfpos : 0 < f) by lia.
      pose proof (Z.log2_spec f Hfpos) as Hl. set (l := Z.log2 f) in *.
      assert (Hl0 : 0 <= l) by (unfold l; apply Z.log2_nonneg).
      assert (Hl22 : l < 23).
      { destruct (Z.lt_ge_cases l 23) as [|Hge]; [assumption|].
        assert (2 ^ 23 <= 2 ^ l) by (apply Z.pow_le_mono_r; lia). lia. }
      assert (Hsplit : 2 ^ 52 = 2 ^ l * 2 ^ (52 - l)) by (rewrite <- Z.pow_add_r by lia; f_equal; lia).
      assert (HQ : 0 < 2 ^ (52 - l)) by (apply Z.pow_pos_nonneg; lia).
      assert (HF : 0 <= f * 2 ^ (52 - l) - 2 ^ 52 < 2 ^ 52).
      { rewrite Hsplit. replace (2 ^ (Z.succ l)) with (2 * 2 ^ l) in Hl by (rewrite Z.pow_succ_r by lia; ring). nia. }
      rewrite f64_decomp_compose in H64 by lia.
      destruct (Z.eqb_spec (l - 149 + 1023) 0) as [Ez|_]; [lia|].
      apply pair_equal_spec in H64. destruct H64 as [H64 Hk']. apply pair_equal_spec in H64. destruct H64 as [Hn' HM']. subst neg' M' k'.
      split; [reflexivity|]. split.
      * replace (2 ^ 52 + (f * 2 ^ (52 - l) - 2 ^ 52)) with (f * 2 ^ (52 - l)) by ring.
        rewrite <- Z.mul_assoc, <- Z.pow_add_r by lia. f_equal. f_equal. lia.
      * unfold f64_is_finite.
        destruct (fields_compose s (l - 149 + 1023) (f * 2 ^ (52 - l) - 2 ^ 52) Hs ltac:(lia) HF) as (_ & H2 & _).
        rewrite H2. apply negb_true_iff. apply Z.eqb_neq. lia.
  - (* normal *)
    apply pair_equal_spec in H32. destruct H32 as [H32 Hk]. apply pair_equal_spec in H32. destruct H32 as [Hn HM]. subst neg M k.
    assert (H29 : 2 ^ 52 = 2 ^ 23 * 2 ^ 29) by reflexivity.
    assert (HF : 0 <= f * 2 ^ 29 < 2 ^ 52) by (rewrite H29; assert (0 < 2 ^ 29) by (apply Z.pow_pos_nonneg; lia); nia).
    rewrite f64_decomp_compose in H64 by lia.
    destruct (Z.eqb_spec (e - 127 + 1023) 0) as [Ez|_]; [lia|].
    apply pair_equal_spec in H64. destruct H64 as [H64 Hk']. apply pair_equal_spec in H64. destruct H64 as [Hn' HM']. subst neg' M' k'.
    split; [reflexivity|]. split.
    + rewrite H29. replace (2 ^ 23 * 2 ^ 29 + f * 2 ^ 29) with ((2 ^ 23 + f) * 2 ^ 29) by ring.
      rewrite <- Z.mul_assoc, <- Z.pow_add_r by lia. f_equal. f_equal. lia.
    + unfold f64_is_finite.
      destruct (fields_compose s (e - 127 + 1023) (f * 2 ^ 29) Hs ltac:(lia) HF) as (_ & H2 & _).
      rewrite H2. apply negb_true_iff. apply Z.eqb_neq. lia.
Qed.
