(* The correctly rounding reader dec2f64 maps the exact decimal expansion of a finite binary64 (T2J.f64_exact_lexeme) back to its
   bits: the formatter contract of C13 for the model's own printer, proved. *)
From Coq Require Import ZArith List Bool Lia.
From DG Require Import Json Num T2J JsonProofs NumProofs T2JProofs.
Import ListNotations.
Local Open Scope Z_scope.

(* the tail of fp_mag for binary64, after the three early exits *)
Definition fp_tail64 (N D : Z) : Z :=
  let k0 := Z.log2 N - Z.log2 D - 53 in
  let k1 := Z.max k0 (-1074) in
  let q1 := if 0 <=? k1 then N / (D * 2 ^ k1) else (N * 2 ^ (- k1)) / D in
  let k := if 2 ^ 53 <=? q1 then k1 + 1 else k1 in
  let num := if 0 <=? k then N else N * 2 ^ (- k) in
  let den := if 0 <=? k then D * 2 ^ k else D in
  let q := num / den in
  let r := num mod den in
  let q' := if 2 * r <? den then q else if den <? 2 * r then q + 1 else if Z.even q then q else q + 1 in
  let bits := (k - -1074) * 2 ^ 52 + q' in
  if 2047 * 2 ^ 52 <=? bits then 2047 * 2 ^ 52 else bits.

Lemma fp_mag64_unfold m e : dec2f64_mag m e =
  if m <=? 0 then 0 else
  if e + Z.log2 m / 3 + 1 <? -384 then 0 else
  if 366 <? e then 2047 * 2 ^ 52 else
  fp_tail64 (if 0 <=? e then m * 10 ^ e else m) (if 0 <=? e then 1 else 10 ^ (- e)).
Proof. reflexivity. Qed.

Lemma pow2_pos n : 0 <= n -> 0 < 2 ^ n.
Proof. intros. apply Z.pow_pos_nonneg; lia. Qed.

Lemma fp_tail_exact m A a d : 0 < A -> 0 <= a -> 0 <= d -> 2 ^ 52 <= m < 2 ^ 53 -> -1074 <= a - d <= 971 ->
  fp_tail64 (m * A * 2 ^ a) (A * 2 ^ d) = (a - d + 1074) * 2 ^ 52 + m.
Proof.
  intros HA Ha Hd Hm He.
  assert (P52 : 2 ^ 52 = 4503599627370496) by reflexivity.
  assert (P53 : 2 ^ 53 = 9007199254740992) by reflexivity.
  assert (Hm0 : 0 < m) by lia.
  assert (HmA : 0 < m * A) by (apply Z.mul_pos_pos; lia).
  assert (Lm : Z.log2 m = 52) by (apply Z.log2_unique; lia).
  pose proof (Z.log2_mul_below m A Hm0 HA) as Hb.
  pose proof (Z.log2_mul_above m A (Z.lt_le_incl _ _ Hm0) (Z.lt_le_incl _ _ HA)) as Hab.
  assert (LN : Z.log2 (m * A * 2 ^ a) = Z.log2 (m * A) + a) by (rewrite Z.log2_mul_pow2 by lia; lia).
  assert (LD : Z.log2 (A * 2 ^ d) = Z.log2 A + d) by (rewrite Z.log2_mul_pow2 by lia; lia).
  unfold fp_tail64. rewrite LN, LD.
  set (e := a - d) in *.
  set (k0 := Z.log2 (m * A) + a - (Z.log2 A + d) - 53).
  assert (Hk0 : k0 = e - 1 \/ k0 = e) by (unfold k0, e; lia).
  assert (Hk1 : exists j, (j = 0 \/ j = 1) /\ Z.max k0 (-1074) = e - j).
  { destruct Hk0 as [E|E]; rewrite E.
    - destruct (Z.eq_dec e (-1074)) as [E2|E2]; [exists 0; split; [left; reflexivity|lia] | exists 1; split; [right; reflexivity|lia]].
    - exists 0. split; [left; reflexivity|lia]. }
  destruct Hk1 as (j & Hj & Hmax). rewrite Hmax. clear Hmax Hk0. clearbody k0.
  assert (Hq1 : (if 0 <=? e - j then m * A * 2 ^ a / (A * 2 ^ d * 2 ^ (e - j)) else m * A * 2 ^ a * 2 ^ (- (e - j)) / (A * 2 ^ d)) = m * 2 ^ j).
  { destruct (Z.leb_spec 0 (e - j)) as [Hp|Hn].
    - replace (m * A * 2 ^ a) with (m * 2 ^ j * (A * 2 ^ d * 2 ^ (e - j))).
      + apply Z.div_mul. pose proof (pow2_pos d Hd). pose proof (pow2_pos (e - j) Hp). nia.
      + assert (Ea : 2 ^ a = 2 ^ j * (2 ^ d * 2 ^ (e - j))).
        { rewrite <- !Z.pow_add_r by lia. f_equal. unfold e. lia. }
        rewrite Ea. ring.
    - replace (m * A * 2 ^ a * 2 ^ (- (e - j))) with (m * 2 ^ j * (A * 2 ^ d)).
      + apply Z.div_mul. pose proof (pow2_pos d Hd). nia.
      + assert (Ea : 2 ^ a * 2 ^ (- (e - j)) = 2 ^ j * 2 ^ d).
        { rewrite <- !Z.pow_add_r by lia. f_equal. unfold e. lia. }
        replace (m * A * 2 ^ a * 2 ^ (- (e - j))) with (m * A * (2 ^ a * 2 ^ (- (e - j)))) by ring.
        rewrite Ea. ring. }
  rewrite Hq1. clear Hq1.
  assert (Hk : (if 2 ^ 53 <=? m * 2 ^ j then e - j + 1 else e - j) = e).
  { destruct Hj as [->| ->].
    - change (2 ^ 0) with 1. destruct (Z.leb_spec (2 ^ 53) (m * 1)); lia.
    - change (2 ^ 1) with 2. destruct (Z.leb_spec (2 ^ 53) (m * 2)); lia. }
  rewrite Hk. clear Hk.
  assert (Hqr : (if 0 <=? e then m * A * 2 ^ a else m * A * 2 ^ a * 2 ^ (- e)) = m * (if 0 <=? e then A * 2 ^ d * 2 ^ e else A * 2 ^ d)).
  { destruct (Z.leb_spec 0 e) as [Hp|Hn].
    - assert (Ea : 2 ^ a = 2 ^ d * 2 ^ e) by (rewrite <- Z.pow_add_r by lia; f_equal; unfold e; lia).
      rewrite Ea. ring.
    - assert (Ea : 2 ^ a * 2 ^ (- e) = 2 ^ d) by (rewrite <- Z.pow_add_r by lia; f_equal; unfold e; lia).
      replace (m * A * 2 ^ a * 2 ^ (- e)) with (m * A * (2 ^ a * 2 ^ (- e))) by ring. rewrite Ea. ring. }
  rewrite Hqr. clear Hqr.
  set (den := if 0 <=? e then A * 2 ^ d * 2 ^ e else A * 2 ^ d).
  assert (Hden : 0 < den).
  { unfold den. pose proof (pow2_pos d Hd). destruct (Z.leb_spec 0 e) as [Hp|Hn]; [pose proof (pow2_pos e Hp)|]; nia. }
  rewrite Z.div_mul by lia. rewrite Z.mod_mul by lia.
  change (2 * 0) with 0. destruct (Z.ltb_spec 0 den) as [_|]; [|lia].
  destruct (Z.leb_spec (2047 * 2 ^ 52) ((e - -1074) * 2 ^ 52 + m)) as [Hover|_]; [exfalso; nia|].
  lia.
Qed.

Lemma fp_tail_sub m A : 0 < A -> 0 < m < 2 ^ 52 -> fp_tail64 (m * A) (A * 2 ^ 1074) = m.
Proof.
  intros HA Hm.
  assert (P52 : 2 ^ 52 = 4503599627370496) by reflexivity.
  assert (P53 : 2 ^ 53 = 9007199254740992) by reflexivity.
  assert (Hm0 : 0 < m) by lia.
  assert (Lm : Z.log2 m <= 51).
  { assert (Z.log2 m < 52); [|lia]. apply Z.log2_lt_pow2; lia. }
  pose proof (Z.log2_mul_above m A (Z.lt_le_incl _ _ Hm0) (Z.lt_le_incl _ _ HA)) as Hab.
  assert (LD : Z.log2 (A * 2 ^ 1074) = Z.log2 A + 1074) by (rewrite Z.log2_mul_pow2 by lia; lia).
  unfold fp_tail64. rewrite LD.
  assert (HT : 0 < 2 ^ 1074) by (apply pow2_pos; lia).
  set (T := 2 ^ 1074) in *.
  rewrite Z.max_r by lia.
  change (0 <=? -1074) with false. cbn iota. change (- -1074) with 1074. fold T.
  replace (m * A * T) with (m * (A * T)) by ring.
  rewrite Z.div_mul by nia.
  destruct (Z.leb_spec (2 ^ 53) m) as [|_]; [lia|].
  change (0 <=? -1074) with false. cbn iota. change (- -1074) with 1074. fold T.
  replace (m * A * T) with (m * (A * T)) by ring.
  rewrite Z.div_mul by nia. rewrite Z.mod_mul by nia.
  change (2 * 0) with 0. destruct (Z.ltb_spec 0 (A * T)) as [_|]; [|nia].
  change (-1074 - -1074) with 0. rewrite Z.mul_0_l, Z.add_0_l.
  destruct (Z.leb_spec (2047 * 2 ^ 52) m) as [|_]; [lia|]. reflexivity.
Qed.

(* ---- the decimal the exact lexeme denotes ---- *)
Lemma span_digits_app_stop ds t : forallb is_digit ds = true ->
  match t with [] => True | c :: _ => is_digit c = false end -> span_digits (ds ++ t) = (ds, t).
Proof.
  induction ds as [|c ds IH]; intros Hd Ht.
  - cbn [app]. destruct t as [|c t']; [reflexivity|]. cbn [span_digits]. rewrite Ht. reflexivity.
  - cbn [forallb] in Hd. apply andb_true_iff in Hd. destruct Hd as [Hc Hd].
    cbn [app span_digits]. rewrite Hc, (IH Hd Ht). reflexivity.
Qed.

Lemma lexdec_shape (neg : bool) ds t E : forallb is_digit ds = true -> ds <> [] ->
  ((t = [] /\ E = 0) \/ (exists es, t = 101 :: 45 :: es /\ forallb is_digit es = true /\ E = - digits_val es 0)) ->
  num_okb ((if neg then [45] else []) ++ ds ++ t) = true ->
  lex_decimal ((if neg then [45] else []) ++ ds ++ t) = Some (neg, digits_val ds 0, E).
Proof.
  intros Hd Hne Ht Hok. unfold lex_decimal. rewrite Hok. cbn [negb].
  assert (Hstop : match t with [] => True | c :: _ => is_digit c = false end).
  { destruct Ht as [[-> _]|(es & -> & _ & _)]; [exact I|reflexivity]. }
  assert (Hsplit : (let '(ng, r0) := match (if neg then [45] else []) ++ ds ++ t with
                                     | c :: r => if c =? 45 then (true, r) else (false, (if neg then [45] else []) ++ ds ++ t)
                                     | [] => (false, (if neg then [45] else []) ++ ds ++ t)
                                     end in (ng, r0)) = (neg, ds ++ t)).
  { destruct neg; cbn [app].
    - reflexivity.
    - destruct ds as [|c ds']; [contradiction|]. cbn [app forallb] in *. apply andb_true_iff in Hd. destruct Hd as [Hc _].
      apply is_digit_range in Hc. destruct (Z.eqb_spec c 45); [lia|reflexivity]. }
  destruct (match (if neg then [45] else []) ++ ds ++ t with
            | c :: r => if c =? 45 then (true, r) else (false, (if neg then [45] else []) ++ ds ++ t)
            | [] => (false, (if neg then [45] else []) ++ ds ++ t)
            end) as [ng r0]. inversion Hsplit; subst ng r0. clear Hsplit.
  rewrite (span_digits_app_stop ds t Hd Hstop).
  destruct Ht as [[-> ->]|(es & -> & Hes & ->)].
  - cbn. rewrite app_nil_r. reflexivity.
  - change (101 =? 46) with false. cbn iota. change (45 =? 45) with true. cbn iota.
    rewrite (span_digits_all es Hes). cbn [fst length]. rewrite app_nil_r. f_equal. f_equal. cbn. lia.
Qed.

Lemma log2_pow5 n : 0 <= n -> 2 * n <= Z.log2 (5 ^ n).
Proof.
  intros Hn. rewrite <- (Z.log2_pow2 (2 * n)) by lia. apply Z.log2_le_mono.
  rewrite Z.pow_mul_r by lia. change (2 ^ 2) with 4. apply Z.pow_le_mono_l. lia.
Qed.

Lemma pow10_split n : 0 <= n -> 10 ^ n = 5 ^ n * 2 ^ n.
Proof. intros. change 10 with (5 * 2). apply Z.pow_mul_l. Qed.

Lemma fmt_nat_nonnil n : 0 <= n -> fmt_nat n <> [].
Proof. intros Hn E. destruct (fmt_nat_spec n Hn) as (_ & _ & Hh). rewrite E in Hh. discriminate. Qed.

(* the exact decimal (negative?, mantissa, exponent of ten) the lexeme spells *)
Definition exact_dec (b : Z) : bool * Z * Z :=
  let neg := 2 ^ 63 <=? b in
  let ex := (b / 2 ^ 52) mod 2048 in
  let fr := b mod 2 ^ 52 in
  let m := if ex =? 0 then fr else fr + 2 ^ 52 in
  let k := (if ex =? 0 then 1 else ex) - 1075 in
  (neg, if m =? 0 then 0 else if 0 <=? k then m * 2 ^ k else m * 5 ^ (- k), if (m =? 0) || (0 <=? k) then 0 else k).

Theorem f64_exact_decimal : forall b, lex_decimal (f64_exact_lexeme b) = Some (exact_dec b).
Proof.
  intros b. pose proof (num_okb_f64_exact b) as Hok. revert Hok. unfold f64_exact_lexeme, exact_dec.
  set (ex := (b / 2 ^ 52) mod 2048). set (fr := b mod 2 ^ 52). set (neg := 2 ^ 63 <=? b).
  assert (Hfr : 0 <= fr < 2 ^ 52) by (apply Z.mod_pos_bound; reflexivity).
  set (m := if ex =? 0 then fr else fr + 2 ^ 52).
  set (k := (if ex =? 0 then 1 else ex) - 1075).
  assert (Hm : 0 <= m) by (unfold m; destruct (ex =? 0); lia).
  clearbody m k.
  destruct (Z.eqb_spec m 0) as [Em|Nm].
  - intros Hok. cbn [orb]. change [48] with ([48] ++ []) in *.
    rewrite (lexdec_shape neg [48] [] 0 eq_refl ltac:(discriminate) (or_introl (conj eq_refl eq_refl)) Hok). reflexivity.
  - cbn [orb]. destruct (Z.leb_spec 0 k) as [Hk|Hk].
    + set (M := m * 2 ^ k).
      assert (HM : 0 <= M) by (unfold M; pose proof (pow2_pos k Hk); nia).
      destruct (fmt_nat_spec M HM) as (Hd & Hv & _).
      intros Hok. rewrite <- (app_nil_r (fmt_nat M)) in Hok |- *.
      rewrite (lexdec_shape neg (fmt_nat M) [] 0 Hd (fmt_nat_nonnil M HM) (or_introl (conj eq_refl eq_refl)) Hok).
      rewrite Hv. reflexivity.
    + set (n := - k). assert (Hn : 1 <= n) by (unfold n; lia).
      assert (Ekn : k = - n) by (unfold n; lia). clearbody n. subst k.
      assert (H5 : 0 < 5 ^ n) by (apply Z.pow_pos_nonneg; lia).
      set (M := m * 5 ^ n). assert (HM : 0 <= M) by (unfold M; nia).
      destruct (fmt_nat_spec M HM) as (Hd & Hv & _).
      assert (Hfi : fmt_int (- n) = 45 :: fmt_nat n).
      { unfold fmt_int. destruct (Z.ltb_spec (- n) 0); [|lia]. rewrite Z.opp_involutive. reflexivity. }
      rewrite Hfi. destruct (fmt_nat_spec n ltac:(lia)) as (Hdn & Hvn & _).
      intros Hok.
      rewrite (lexdec_shape neg (fmt_nat M) (101 :: 45 :: fmt_nat n) (- n) Hd (fmt_nat_nonnil M HM)
                 (or_intror (ex_intro _ (fmt_nat n) (conj eq_refl (conj Hdn (f_equal Z.opp (eq_sym Hvn)))))) Hok).
      rewrite Hv. reflexivity.
Qed.

Theorem f64_exact_value : forall b, 0 <= b < 2 ^ 64 -> f64_is_finite b = true -> dec2f64 (exact_dec b) = b.
Proof.
  intros b Hb Hf. unfold exact_dec, f64_is_finite in *.
  set (ex := (b / 2 ^ 52) mod 2048) in *. set (fr := b mod 2 ^ 52).
  set (neg := 2 ^ 63 <=? b).
  apply negb_true_iff in Hf. apply Z.eqb_neq in Hf.
  assert (Hfr : 0 <= fr < 2 ^ 52) by (apply Z.mod_pos_bound; reflexivity).
  assert (Hex : 0 <= ex <= 2046) by (pose proof (Z.mod_pos_bound (b / 2 ^ 52) 2048 eq_refl); fold ex in H; lia).
  assert (Hbits : b = (if neg then 2 ^ 63 else 0) + ex * 2 ^ 52 + fr).
  { unfold neg, ex, fr. change (2 ^ 52) with 4503599627370496. change (2 ^ 63) with 9223372036854775808.
    change (2 ^ 64) with 18446744073709551616 in Hb.
    destruct (Z.leb_spec 9223372036854775808 b); Z.div_mod_to_equations; lia. }
  set (m := if ex =? 0 then fr else fr + 2 ^ 52).
  set (k := (if ex =? 0 then 1 else ex) - 1075).
  assert (P52 : 2 ^ 52 = 4503599627370496) by reflexivity.
  assert (P53 : 2 ^ 53 = 9007199254740992) by reflexivity.
  cbn [dec2f64].
  destruct (Z.eqb_spec m 0) as [Em|Nm].
  - assert (E0 : ex = 0 /\ fr = 0) by (unfold m in Em; destruct (Z.eqb_spec ex 0); lia).
    destruct E0 as [Eex Efr]. cbn [orb]. rewrite fp_mag64_unfold. change (0 <=? 0) with true. cbn iota.
    rewrite Hbits, Eex, Efr. lia.
  - assert (Hm0 : 0 < m) by (unfold m; destruct (Z.eqb_spec ex 0); lia).
    cbn [orb]. destruct (Z.leb_spec 0 k) as [Hk|Hk].
    + assert (Hex1 : ex <> 0) by (unfold k in Hk; destruct (Z.eqb_spec ex 0); lia).
      assert (Em : m = fr + 2 ^ 52) by (unfold m; destruct (Z.eqb_spec ex 0); [contradiction|reflexivity]).
      assert (Ek : k = ex - 1075) by (unfold k; destruct (Z.eqb_spec ex 0); [contradiction|reflexivity]).
      clearbody m k.
      set (M := m * 2 ^ k). rewrite fp_mag64_unfold.
      assert (HMp : 0 < M) by (unfold M; pose proof (pow2_pos k Hk); nia).
      destruct (Z.leb_spec M 0) as [|_]; [lia|].
      assert (Hl : 0 <= Z.log2 M) by apply Z.log2_nonneg.
      destruct (Z.ltb_spec (0 + Z.log2 M / 3 + 1) (-384)) as [Ht|_].
      { exfalso. assert (0 <= Z.log2 M / 3) by (apply Z.div_pos; lia). lia. }
      change (366 <? 0) with false. change (0 <=? 0) with true. cbn iota.
      change (10 ^ 0) with 1. unfold M.
      replace (m * 2 ^ k * 1) with (m * 1 * 2 ^ k) by ring.
      change (fp_tail64 (m * 1 * 2 ^ k) 1) with (fp_tail64 (m * 1 * 2 ^ k) (1 * 2 ^ 0)).
      rewrite (fp_tail_exact m 1 k 0); [rewrite Hbits; lia | lia | lia | lia | lia | lia].
    + set (n := - k). assert (Hn : 1 <= n <= 1074) by (unfold n, k in *; destruct (Z.eqb_spec ex 0); lia).
      assert (Ekn : k = - n) by (unfold n; lia).
      assert (Emk : (ex = 0 /\ m = fr /\ n = 1074) \/ (ex <> 0 /\ m = fr + 2 ^ 52 /\ n = 1075 - ex)).
      { unfold m, n, k. destruct (Z.eqb_spec ex 0); [left|right]; repeat split; lia. }
      clearbody m k n. subst k.
      assert (H5 : 0 < 5 ^ n) by (apply Z.pow_pos_nonneg; lia).
      set (M := m * 5 ^ n).
      assert (HMp : 0 < M) by (unfold M; nia).
      rewrite fp_mag64_unfold.
      destruct (Z.leb_spec M 0) as [|_]; [lia|].
      assert (Hl : 2 * n <= Z.log2 M).
      { pose proof (log2_pow5 n ltac:(lia)). assert (Z.log2 (5 ^ n) <= Z.log2 M); [|lia].
        apply Z.log2_le_mono. unfold M. nia. }
      destruct (Z.ltb_spec (- n + Z.log2 M / 3 + 1) (-384)) as [Ht|_].
      { exfalso. assert ((2 * n) / 3 <= Z.log2 M / 3) by (apply Z.div_le_mono; lia).
        assert (2 * n - 2 <= 3 * ((2 * n) / 3)) by (Z.div_mod_to_equations; lia). lia. }
      destruct (Z.ltb_spec 366 (- n)) as [|_]; [lia|].
      destruct (Z.leb_spec 0 (- n)) as [|_]; [lia|].
      rewrite Z.opp_involutive, (pow10_split n) by lia.
      destruct Emk as [(Eex & Em & En)|(Nex & Em & En)].
      * unfold M. rewrite En in *. rewrite (fp_tail_sub m (5 ^ 1074) H5) by lia.
        rewrite Hbits, Eex. lia.
      * unfold M. replace (m * 5 ^ n) with (m * 5 ^ n * 2 ^ 0) by (change (2 ^ 0) with 1; ring).
        rewrite (fp_tail_exact m (5 ^ n) 0 n); [rewrite Hbits; lia | lia | lia | lia | lia | lia].
Qed.

Theorem f64_exact_contract_holds : forall b, 0 <= b < 2 ^ 64 -> f64_is_finite b = true ->
  lex2f64 (f64_exact_lexeme b) = Some b.
Proof.
  intros b Hb Hf. unfold lex2f64. rewrite f64_exact_decimal. cbn [option_map]. rewrite (f64_exact_value b Hb Hf). reflexivity.
Qed.
