(* C15: an invariant of the memoising traversal of proto/idl.go:parseMessage ([PIdl.qparse]) for ANY memo key:
   the descriptor attached for a requested message type was built from a declaration with the SAME MEMO KEY.
   Keyed by the fully-qualified name (injective) it is the requested declaration itself; keyed by the simple
   name — what the code does — only the last component agrees (the shape of finding 1501). *)
From Coq Require Import ZArith List Bool Lia.
From DG Require Import CaseFormat PIdl Check15 PIdlProofs.
Import ListNotations.
Local Open Scope Z_scope.

Definition nodes_t := list (qname * list (mfield Z)).

(* nodes only grow and never change the declaration they were built from *)
Definition ext (a b : nodes_t) : Prop :=
  forall i nm fs, nth_error a i = Some (nm, fs) -> exists fs', nth_error b i = Some (nm, fs').

Lemma ext_refl : forall a, ext a a.
Proof. intros a i nm fs H. exists fs. exact H. Qed.

Lemma ext_trans : forall a b c, ext a b -> ext b c -> ext a c.
Proof. intros a b c H1 H2 i nm fs H. destruct (H1 _ _ _ H) as [fs' H']. exact (H2 _ _ _ H'). Qed.

Lemma ext_app : forall a x, ext a (a ++ [x]).
Proof.
  intros a x i nm fs H. exists fs. rewrite nth_error_app1; [exact H|]. apply nth_error_Some. congruence.
Qed.

Lemma set_node_nth : forall n v (l : nodes_t) i,
  nth_error (set_node n v l) i = if (Nat.eqb i n && Nat.ltb n (length l))%bool then Some v else nth_error l i.
Proof.
  induction n as [|n IH]; intros v l i.
  - destruct l as [|x r]; cbn.
    + destruct i; reflexivity.
    + destruct i; reflexivity.
  - destruct l as [|x r]; cbn [set_node].
    + destruct i; cbn; [reflexivity|]. rewrite andb_false_r. reflexivity.
    + destruct i as [|i]; [reflexivity|]. cbn [nth_error length]. rewrite IH. reflexivity.
Qed.

Lemma ext_set_node : forall (l : nodes_t) n nm fs0 fs, nth_error l n = Some (nm, fs0) -> ext l (set_node n (nm, fs) l).
Proof.
  intros l n nm fs0 fs H i nm' fs' H'. rewrite set_node_nth.
  destruct (Nat.eqb_spec i n) as [E|E]; cbn [andb].
  - subst i. rewrite H in H'. inversion H'; subst.
    assert (L : (n < length l)%nat) by (apply nth_error_Some; congruence).
    apply Nat.ltb_lt in L. rewrite L. exists fs. reflexivity.
  - exists fs'. exact H'.
Qed.

Section Memo.
  Variable keyf : qname -> bytes.
  Variable tbl : msgtab.

  (* node i exists and was built from a declaration whose memo key is k *)
  Definition node_keyed (nodes : nodes_t) (i : Z) (k : bytes) : Prop :=
    0 <= i /\ exists nm fs, nth_error nodes (Z.to_nat i) = Some (nm, fs) /\ keyf nm = k.

  Definition cache_inv (st : qstate) : Prop :=
    forall k tg nd, cache_get (q_cache st) k = Some (tg, nd) -> node_keyed (q_nodes st) nd k.

  Lemma node_keyed_ext : forall a b i k, ext a b -> node_keyed a i k -> node_keyed b i k.
  Proof.
    intros a b i k E [P [nm [fs [H K]]]]. split; [exact P|]. destruct (E _ _ _ H) as [fs' H']. exists nm, fs'. split; assumption.
  Qed.

  Lemma cache_inv_ext : forall c a b, ext a b -> cache_inv {| q_cache := c; q_nodes := a |} -> cache_inv {| q_cache := c; q_nodes := b |}.
  Proof. intros c a b E I k tg nd H. cbn in *. apply (node_keyed_ext a); [exact E|]. exact (I k tg nd H). Qed.

  Definition res_ok (m : qname) (st : qstate) (r : Z * qstate) : Prop :=
    cache_inv (snd r) /\ ext (q_nodes st) (q_nodes (snd r)) /\ (fst r = -1 \/ node_keyed (q_nodes (snd r)) (fst r) (keyf m)).

  Definition rec_ok (rec : qname -> qstate -> Z * qstate) : Prop :=
    forall m st, cache_inv st -> res_ok m st (rec m st).

  Lemma qfield_step_inv : forall rec acc f, rec_ok rec -> cache_inv (snd acc) ->
    cache_inv (snd (qfield_step rec acc f)) /\ ext (q_nodes (snd acc)) (q_nodes (snd (qfield_step rec acc f))).
  Proof.
    intros rec [out s] f R I. cbn [snd] in I. unfold qfield_step.
    destruct (mf_map f).
    - destruct (mf_emsg f) as [v|].
      + pose proof (R v s I) as [I1 [E1 _]]. destruct (rec v s) as [i s1] eqn:Q1. cbn [snd fst] in *.
        destruct (mf_tmsg f) as [w|].
        * pose proof (R w s1 I1) as [I2 [E2 _]]. destruct (rec w s1) as [j s2] eqn:Q2. cbn [snd fst] in *.
          split; [exact I2 | exact (ext_trans _ _ _ E1 E2)].
        * cbn [snd]. split; assumption.
      + destruct (mf_tmsg f) as [w|].
        * pose proof (R w s I) as [I2 [E2 _]]. destruct (rec w s) as [j s2] eqn:Q2. cbn [snd fst] in *. split; assumption.
        * cbn [snd]. split; [exact I | apply ext_refl].
    - destruct (mf_tmsg f) as [w|].
      + pose proof (R w s I) as [I2 [E2 _]]. destruct (rec w s) as [j s2] eqn:Q2. cbn [snd fst] in *. split; assumption.
      + cbn [snd]. split; [exact I | apply ext_refl].
  Qed.

  Lemma qfields_inv : forall rec fs acc, rec_ok rec -> cache_inv (snd acc) ->
    cache_inv (snd (fold_left (qfield_step rec) fs acc)) /\ ext (q_nodes (snd acc)) (q_nodes (snd (fold_left (qfield_step rec) fs acc))).
  Proof.
    intros rec fs. induction fs as [|f r IH]; intros acc R I; cbn [fold_left].
    - split; [exact I | apply ext_refl].
    - destruct (qfield_step_inv rec acc f R I) as [I1 E1]. destruct (IH _ R I1) as [I2 E2].
      split; [exact I2 | exact (ext_trans _ _ _ E1 E2)].
  Qed.

  Lemma cache_get_set : forall c k v k', cache_get (fnm_set c k v) k' = if bytes_eqb k k' then Some v else cache_get c k'.
  Proof. intros. unfold cache_get. apply fnm_get_set. Qed.

  (* the miss branch of parseMessage *)
  Definition qmiss (fuel' : nat) (target : Z) (m : qname) (st : qstate) : Z * qstate :=
    let nd := Z.of_nat (length (q_nodes st)) in
    let st1 := {| q_cache := fnm_set (q_cache st) (keyf m) (target, nd); q_nodes := q_nodes st ++ [(m, [])] |} in
    let decls := match lookup_msg tbl m with Some fs => fs | None => [] end in
    let '(rfs, st2) := fold_left (qfield_step (qparse keyf tbl fuel' target)) decls ([], st1) in
    (nd, {| q_cache := q_cache st2; q_nodes := set_node (Z.to_nat nd) (m, rev rfs) (q_nodes st2) |}).

  Lemma nth_error_snoc : forall (l : nodes_t) x, nth_error (l ++ [x]) (Z.to_nat (Z.of_nat (length l))) = Some x.
  Proof. intros l x. rewrite Nat2Z.id. rewrite nth_error_app2 by lia. rewrite Nat.sub_diag. reflexivity. Qed.

  Lemma qmiss_ok : forall fuel' target m st,
    rec_ok (qparse keyf tbl fuel' target) -> cache_inv st -> res_ok m st (qmiss fuel' target m st).
  Proof.
    intros fuel' target m st R I. unfold qmiss.
    set (nd := Z.of_nat (length (q_nodes st))).
    set (st1 := {| q_cache := fnm_set (q_cache st) (keyf m) (target, nd); q_nodes := q_nodes st ++ [(m, [])] |}).
    set (decls := match lookup_msg tbl m with Some fs => fs | None => [] end).
    assert (I1 : cache_inv st1).
    { intros k tg n H. cbn [q_cache q_nodes st1] in *. rewrite cache_get_set in H.
      destruct (bytes_eqb (keyf m) k) eqn:E.
      - apply bytes_eqb_eq in E. inversion H; subst tg n. split; [unfold nd; lia|].
        exists m, []. split; [apply nth_error_snoc | exact E].
      - apply (node_keyed_ext (q_nodes st)); [apply ext_app | exact (I _ _ _ H)]. }
    pose proof (qfields_inv _ decls ([], st1) R I1) as [I2 E2].
    destruct (fold_left (qfield_step (qparse keyf tbl fuel' target)) decls ([], st1)) as [rfs st2] eqn:F.
    cbn [snd fst] in *.
    assert (N1 : nth_error (q_nodes st1) (Z.to_nat nd) = Some (m, [])) by (apply nth_error_snoc).
    destruct (E2 _ _ _ N1) as [fs2 N2].
    pose proof (ext_set_node (q_nodes st2) (Z.to_nat nd) m fs2 (rev rfs) N2) as E3.
    unfold res_ok. cbn [fst snd q_nodes q_cache].
    split; [|split].
    - apply (cache_inv_ext (q_cache st2) (q_nodes st2)); [exact E3|]. destruct st2; exact I2.
    - apply (ext_trans _ (q_nodes st1)); [apply ext_app|]. exact (ext_trans _ _ _ E2 E3).
    - right. split; [unfold nd; lia|]. destruct (E3 _ _ _ N2) as [fs3 N3]. exists m, fs3. split; [exact N3 | reflexivity].
  Qed.

  Lemma qparse_unfold_miss : forall fuel' target m st,
    (match cache_get (q_cache st) (keyf m) with
     | Some (tg, nd) => if tg =? target then Some nd else None
     | None => None end) = None ->
    qparse keyf tbl (S fuel') target m st = qmiss fuel' target m st.
  Proof. intros fuel' target m st H. cbn [qparse]. rewrite H. reflexivity. Qed.

  Lemma qparse_inv : forall fuel target, rec_ok (qparse keyf tbl fuel target).
  Proof.
    induction fuel as [|fuel IH]; intros target m st I.
    - cbn. split; [exact I|]. split; [apply ext_refl | left; reflexivity].
    - destruct (match cache_get (q_cache st) (keyf m) with
                | Some (tg, nd) => if tg =? target then Some nd else None
                | None => None end) as [nd|] eqn:H.
      + cbn [qparse]. rewrite H. cbn [fst snd]. split; [exact I|]. split; [apply ext_refl|]. right.
        destruct (cache_get (q_cache st) (keyf m)) as [[tg nd']|] eqn:C; [|discriminate].
        destruct (tg =? target); [|discriminate]. inversion H; subst. exact (I _ _ _ C).
      + rewrite (qparse_unfold_miss _ _ _ _ H). apply qmiss_ok; [apply IH | exact I].
  Qed.

  (* the descriptor attached for message type m was built from a declaration with the same memo key *)
  Lemma qparse_attaches_same_key : forall fuel target m st i st',
    cache_inv st -> qparse keyf tbl fuel target m st = (i, st') -> i <> -1 ->
    exists nm fs, nth_error (q_nodes st') (Z.to_nat i) = Some (nm, fs) /\ keyf nm = keyf m.
  Proof.
    intros fuel target m st i st' I H N. pose proof (qparse_inv fuel target m st I) as [_ [_ R]].
    rewrite H in R. cbn [fst snd] in R. destruct R as [R|[_ R]]; [contradiction | exact R].
  Qed.

  Lemma cache_inv_empty : cache_inv {| q_cache := []; q_nodes := [] |}.
  Proof. intros k tg nd H. discriminate. Qed.
End Memo.

(* with the simple key only the last component of the attached declaration is guaranteed *)
Lemma memo_simple_name_attaches_same_simple_name : forall tbl fuel target m st i st',
  cache_inv key_simple st -> qparse key_simple tbl fuel target m st = (i, st') -> i <> -1 ->
  exists nm fs, nth_error (q_nodes st') (Z.to_nat i) = Some (nm, fs) /\ last_comp nm = last_comp m.
Proof. intros. eapply qparse_attaches_same_key; eassumption. Qed.

(* ---- the whole parse: every method's request / response root obeys the same law ------------------- *)
Section MemoMethods.
  Variable keyf : qname -> bytes.
  Variable tbl : msgtab.

  Definition root_ok (nodes : nodes_t) (q : option qname) (i : Z) : Prop :=
    match q with Some m => i = -1 \/ node_keyed keyf nodes i (keyf m) | None => i = -1 end.

  Definition entry_ok (nodes : nodes_t) (e : pmethod * Z * Z) : Prop :=
    root_ok nodes (pm_in (fst (fst e))) (snd (fst e)) /\ root_ok nodes (pm_out (fst (fst e))) (snd e).

  Lemma root_ok_ext : forall a b q i, ext a b -> root_ok a q i -> root_ok b q i.
  Proof.
    intros a b [m|] i E H; cbn in *; [|exact H]. destruct H as [H|H]; [left; exact H | right].
    exact (node_keyed_ext keyf a b i _ E H).
  Qed.

  Lemma qparse_opt_ok : forall fuel target q st, cache_inv keyf st ->
    let r := qparse_opt keyf tbl fuel target q st in
    cache_inv keyf (snd r) /\ ext (q_nodes st) (q_nodes (snd r)) /\ root_ok (q_nodes (snd r)) q (fst r).
  Proof.
    intros fuel target [m|] st I; cbn [qparse_opt].
    - exact (qparse_inv keyf tbl fuel target m st I).
    - cbn. split; [exact I|]. split; [apply ext_refl | reflexivity].
  Qed.

  Lemma qmethods_fold_ok : forall fuel ms acc,
    cache_inv keyf (snd acc) -> Forall (entry_ok (q_nodes (snd acc))) (fst acc) ->
    let r := fold_left (qmethod_step keyf tbl fuel) ms acc in
    cache_inv keyf (snd r) /\ Forall (entry_ok (q_nodes (snd r))) (fst r).
  Proof.
    intros fuel ms. induction ms as [|pm r IH]; intros [out s] I F; cbn [fold_left]; [split; assumption|].
    apply IH; unfold qmethod_step; cbn [fst snd] in *;
      pose proof (qparse_opt_ok fuel 0 (pm_in pm) s I) as [I1 [E1 R1]];
      destruct (qparse_opt keyf tbl fuel 0 (pm_in pm) s) as [i s1]; cbn [fst snd] in *;
      pose proof (qparse_opt_ok fuel 1 (pm_out pm) s1 I1) as [I2 [E2 R2]];
      destruct (qparse_opt keyf tbl fuel 1 (pm_out pm) s1) as [o s2]; cbn [fst snd] in *.
    - exact I2.
    - apply Forall_app. split.
      + eapply Forall_impl; [|exact F]. intros e [A B].
        split; [exact (root_ok_ext _ _ _ _ (ext_trans _ _ _ E1 E2) A) | exact (root_ok_ext _ _ _ _ (ext_trans _ _ _ E1 E2) B)].
      + constructor; [|constructor]. split; cbn [fst snd]; [exact (root_ok_ext _ _ _ _ E2 R1) | exact R2].
  Qed.

  (* for every method, the attached request / response descriptor was built from a declaration whose memo key
     equals the key of the declared request / response type *)
  Lemma qmethods_attach_same_key : forall fuel ms,
    let r := qmethods keyf tbl fuel ms in Forall (entry_ok (q_nodes (snd r))) (fst r).
  Proof.
    intros fuel ms. unfold qmethods.
    apply (qmethods_fold_ok fuel ms ([], {| q_cache := []; q_nodes := [] |})); [apply cache_inv_empty | constructor].
  Qed.
End MemoMethods.

(* ---- every node is built from a DECLARED message, when the table is closed under its references --- *)
Section MemoDomain.
  Variable keyf : qname -> bytes.
  Variable tbl : msgtab.

  Definition declared (q : qname) : Prop := In q (map fst tbl).

  (* every message reference inside the table points to a message of the table *)
  Definition tbl_closed : Prop :=
    forall m fs f, In (m, fs) tbl -> In f fs ->
      (forall t, mf_tmsg f = Some t -> declared t) /\ (forall e, mf_emsg f = Some e -> declared e).

  Definition field_closed (f : mfield qname) : Prop :=
    (forall t, mf_tmsg f = Some t -> declared t) /\ (forall e, mf_emsg f = Some e -> declared e).

  Definition names_declared (nodes : nodes_t) : Prop :=
    forall i nm fs, nth_error nodes i = Some (nm, fs) -> declared nm.

  Definition rec_dom (rec : qname -> qstate -> Z * qstate) : Prop :=
    forall m st, declared m -> names_declared (q_nodes st) -> names_declared (q_nodes (snd (rec m st))).

  Lemma qfield_step_dom : forall rec acc f, rec_dom rec -> field_closed f -> names_declared (q_nodes (snd acc)) ->
    names_declared (q_nodes (snd (qfield_step rec acc f))).
  Proof.
    intros rec [out s] f R [Ct Ce] N. cbn [snd] in N. unfold qfield_step.
    destruct (mf_map f).
    - destruct (mf_emsg f) as [v|].
      + pose proof (R v s (Ce v eq_refl) N) as N1. destruct (rec v s) as [i s1]. cbn [snd] in *.
        destruct (mf_tmsg f) as [w|].
        * pose proof (R w s1 (Ct w eq_refl) N1) as N2. destruct (rec w s1) as [j s2]. exact N2.
        * exact N1.
      + destruct (mf_tmsg f) as [w|].
        * pose proof (R w s (Ct w eq_refl) N) as N2. destruct (rec w s) as [j s2]. exact N2.
        * exact N.
    - destruct (mf_tmsg f) as [w|].
      + pose proof (R w s (Ct w eq_refl) N) as N2. destruct (rec w s) as [j s2]. exact N2.
      + exact N.
  Qed.

  Lemma qfields_dom : forall rec fs acc, rec_dom rec -> Forall field_closed fs -> names_declared (q_nodes (snd acc)) ->
    names_declared (q_nodes (snd (fold_left (qfield_step rec) fs acc))).
  Proof.
    intros rec fs. induction fs as [|f r IH]; intros acc R C N; cbn [fold_left]; [exact N|].
    inversion C; subst. apply IH; [exact R | assumption |]. apply qfield_step_dom; assumption.
  Qed.

  Lemma names_declared_set_node : forall (l : nodes_t) n nm fs, declared nm -> names_declared l -> names_declared (set_node n (nm, fs) l).
  Proof.
    intros l n nm fs D N i nm' fs' H. rewrite set_node_nth in H.
    destruct ((Nat.eqb i n && Nat.ltb n (length l))%bool); [inversion H; subst; exact D | exact (N _ _ _ H)].
  Qed.

  Lemma qparse_dom : tbl_closed -> forall fuel target, rec_dom (qparse keyf tbl fuel target).
  Proof.
    intros CL. induction fuel as [|fuel IH]; intros target m st D N; [exact N|].
    destruct (match cache_get (q_cache st) (keyf m) with
              | Some (tg, nd) => if tg =? target then Some nd else None
              | None => None end) as [nd|] eqn:H.
    - cbn [qparse]. rewrite H. exact N.
    - rewrite (qparse_unfold_miss _ _ _ _ _ _ H). unfold qmiss.
      set (st1 := {| q_cache := fnm_set (q_cache st) (keyf m) (target, Z.of_nat (length (q_nodes st))); q_nodes := q_nodes st ++ [(m, [])] |}).
      assert (N1 : names_declared (q_nodes st1)).
      { intros i nm fs Hn. cbn [q_nodes st1] in Hn. destruct (Nat.lt_ge_cases i (length (q_nodes st))) as [L|L].
        - rewrite nth_error_app1 in Hn by exact L. exact (N _ _ _ Hn).
        - rewrite nth_error_app2 in Hn by exact L. destruct (i - length (q_nodes st))%nat as [|k]; cbn in Hn.
          + inversion Hn; subst. exact D.
          + destruct k; discriminate. }
      assert (C : Forall field_closed (match lookup_msg tbl m with Some fs => fs | None => [] end)).
      { destruct (lookup_msg tbl m) as [fs|] eqn:L; [|constructor]. apply lookup_msg_some_in in L.
        apply Forall_forall. intros f If. exact (CL m fs f L If). }
      pose proof (qfields_dom _ _ ([], st1) (IH target) C N1) as N2.
      destruct (fold_left (qfield_step (qparse keyf tbl fuel target)) _ ([], st1)) as [rfs st2].
      cbn [snd q_nodes] in *. apply names_declared_set_node; assumption.
  Qed.

  Lemma NoDup_map_injective_on : forall (A B : Type) (g : A -> B) l a b, NoDup (map g l) -> In a l -> In b l -> g a = g b -> a = b.
  Proof.
    intros A B g. induction l as [|x r IH]; intros a b N Ia Ib E; [destruct Ia|].
    cbn in N. inversion N as [|? ? N1 N2]; subst. destruct Ia as [Ia|Ia], Ib as [Ib|Ib].
    - congruence.
    - subst x. exfalso. apply N1. rewrite E. apply in_map. exact Ib.
    - subst x. exfalso. apply N1. rewrite <- E. apply in_map. exact Ia.
    - apply IH; assumption.
  Qed.

  (* If the memo keys of the declared messages are pairwise different, the descriptor attached for a declared
     message type is the one built from that very declaration. True for the fully-qualified key of any schema
     with unique names; false for the simple key as soon as two messages share a simple name. *)
  Lemma qparse_attaches_requested : forall fuel target m st i st',
    tbl_closed -> NoDup (map keyf (map fst tbl)) ->
    declared m -> names_declared (q_nodes st) -> cache_inv keyf st ->
    qparse keyf tbl fuel target m st = (i, st') -> i <> -1 ->
    exists fs, nth_error (q_nodes st') (Z.to_nat i) = Some (m, fs).
  Proof.
    intros fuel target m st i st' CL ND D N I H Ni.
    destruct (qparse_attaches_same_key keyf tbl fuel target m st i st' I H Ni) as [nm [fs [A B]]].
    pose proof (qparse_dom CL fuel target m st D N) as N'. rewrite H in N'. cbn [snd] in N'.
    assert (E : nm = m) by (apply (NoDup_map_injective_on _ _ keyf (map fst tbl)); [exact ND | exact (N' _ _ _ A) | exact D | exact B]).
    subst nm. exists fs. exact A.
  Qed.
End MemoDomain.

(* ---- the message table of a valid schema is closed under its references ---------------------------- *)

Lemma find_sym_in : forall tab n k, find_sym tab n = Some k -> In (n, k) tab.
Proof.
  induction tab as [|[m k0] r IH]; intros n k H; cbn in H; [discriminate|].
  destruct (qname_eqb m n) eqn:E.
  - apply qname_eqb_eq in E. inversion H; subst. left. reflexivity.
  - right. apply IH. exact H.
Qed.

Lemma msg_sym_in_table : forall s g F, In g s -> In (F, S_MSG) (file_syms g) -> In F (map fst (msg_table s)).
Proof.
  intros s g F Hg H. unfold file_syms in H. apply in_app_or in H. destruct H as [H|H].
  - unfold msg_table. rewrite flat_map_concat_map, concat_map, map_map, <- flat_map_concat_map.
    apply in_flat_map. exists g. split; [exact Hg|]. unfold file_msgs. rewrite decls_msgs_keys.
    apply in_map_iff. exists (F, S_MSG). split; [reflexivity|]. apply filter_In. split; [exact H | reflexivity].
  - apply in_map_iff in H. destruct H as [p [E _]]. inversion E.
Qed.

Lemma visible_msg_in_table : forall s f F, In f s -> find_sym (symtab_of s f) F = Some S_MSG -> In F (map fst (msg_table s)).
Proof.
  intros s f F Hf H. apply find_sym_in in H. unfold symtab_of in H. apply in_app_or in H. destruct H as [H|H].
  - exact (msg_sym_in_table s f F Hf H).
  - apply in_flat_map in H. destruct H as [g [Hg H]]. unfold imports_of in Hg. apply filter_In in Hg.
    exact (msg_sym_in_table s g F (proj1 Hg) H).
Qed.

Lemma elem_of_target_declared : forall s f m fd ek F, In f s -> elem_of (symtab_of s f) m fd = (ek, Some F) ->
  In F (map fst (msg_table s)).
Proof.
  intros s f m fd ek F Hf H. unfold elem_of in H. destruct (fd_kind fd =? 0); [|inversion H].
  destruct (resolve (symtab_of s f) m (fd_ref fd)) as [[F' k]|] eqn:R; [|inversion H].
  destruct (Z.eqb_spec k S_MSG); [|inversion H]. inversion H; subst.
  apply (visible_msg_in_table s f); [exact Hf|]. exact (proj1 (resolve_sound _ _ _ _ _ R)).
Qed.

Lemma label_of_ok : forall tab m fd, fdecl_ok tab m fd = true -> fd_label fd = 0 \/ fd_label fd = 1 \/ fd_label fd = 2.
Proof.
  intros tab m fd H. unfold fdecl_ok in H. repeat (apply andb_true_iff in H; destruct H as [H ?]).
  match goal with A : (0 <=? fd_label fd) = true, B : (fd_label fd <=? 2) = true |- _ => apply Z.leb_le in A; apply Z.leb_le in B; lia end.
Qed.

Lemma schema_ok_decl_ok : forall mode s f d, schema_ok mode s = true -> In f s -> In d (pf_decls f) -> decl_ok (symtab_of s f) d = true.
Proof.
  intros mode s f d H Hf Hd. unfold schema_ok in H. destruct s as [|f0 r]; [discriminate|].
  repeat (apply andb_true_iff in H; destruct H as [H ?]).
  match goal with A : forallb (fun g => forallb (decl_ok (symtab_of (f0 :: r) g)) (pf_decls g)) (f0 :: r) = true |- _ =>
    rewrite forallb_forall in A; specialize (A f Hf); rewrite forallb_forall in A; exact (A d Hd) end.
Qed.

Lemma msg_table_closed : forall mode s, schema_ok mode s = true -> tbl_closed (msg_table s).
Proof.
  intros mode s OK m fs f Hm Hf.
  destruct (msg_table_only_declared s m fs Hm) as [g [Hg [[fds [Hd E]]|[m0 [fds [fd [Hd [Hfd [Hmap [Em E]]]]]]]]]].
  - subst fs. apply in_map_iff in Hf. destruct Hf as [fd [E Hfd]]. subst f.
    pose proof (schema_ok_decl_ok mode s g _ OK Hg Hd) as DO. cbn in DO.
    apply andb_true_iff in DO. destruct DO as [_ DO]. rewrite forallb_forall in DO. specialize (DO fd Hfd).
    pose proof (label_of_ok _ _ _ DO) as L.
    unfold elab_field. destruct (elem_of (symtab_of s g) m fd) as [ek em] eqn:EO.
    assert (T : forall F, em = Some F -> declared (msg_table s) F).
    { intros F EF. subst em. exact (elem_of_target_declared s g m fd ek F Hg EO). }
    destruct L as [L|[L|L]]; rewrite L; cbn; split; intros t Ht; try discriminate; try (apply T; exact Ht).
    inversion Ht; subst t. unfold declared.
    change (m ++ [entry_name (fd_name fd)]) with (fst (m ++ [entry_name (fd_name fd)], entry_fields (symtab_of s g) m fd)).
    apply in_map. apply (msg_table_entry s g m fds fd); try assumption. unfold is_map_field. rewrite L. reflexivity.
  - subst fs. unfold entry_fields in Hf. destruct (elem_of (symtab_of s g) m0 fd) as [ek em] eqn:EO.
    assert (T : forall F, em = Some F -> declared (msg_table s) F).
    { intros F EF. subst em. exact (elem_of_target_declared s g m0 fd ek F Hg EO). }
    destruct Hf as [Hf|[Hf|[]]]; subst f; cbn; split; intros t Ht; try discriminate. apply T. exact Ht.
Qed.

(* the traversal with the memo keyed by the FULLY-QUALIFIED name attaches, for every valid schema whose
   fully-qualified names are distinct as strings, the descriptor built from the requested declaration *)
Lemma memo_full_name_attaches_requested : forall mode s fuel target m st i st',
  schema_ok mode s = true -> NoDup (map key_full (map fst (msg_table s))) ->
  declared (msg_table s) m -> names_declared (msg_table s) (q_nodes st) -> cache_inv key_full st ->
  qparse key_full (msg_table s) fuel target m st = (i, st') -> i <> -1 ->
  exists fs, nth_error (q_nodes st') (Z.to_nat i) = Some (m, fs).
Proof.
  intros mode s fuel target m st i st' OK ND D N I H Ni.
  exact (qparse_attaches_requested key_full (msg_table s) fuel target m st i st' (msg_table_closed mode s OK) ND D N I H Ni).
Qed.
