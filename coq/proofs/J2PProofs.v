(* C09 — proofs about model/J2P.v: the SAX machine as coded (conv/j2p/decode.go) refines the denotation. *)
From Coq Require Import ZArith List Bool Arith Lia.
From DG Require Import CaseFormat ProtoWireRef ProtoWireRefProofs ProtoSpecLen ProtoSpecLenProofs ProtoMsg ProtoMsgProofs
  Json JsonProofs Num Base64 J2P.
Import ListNotations.
Local Open Scope Z_scope.

(* ------------------------------------------------------------------ running event lists *)
Section Run.
  Variable disallow : bool.
  Variable S : schema.
  Variable junk : list Z.
  Notation run := (run disallow S junk).
  Notation step := (step disallow S junk).

  Lemma run_app a b st :
    run (a ++ b) st = match run a st with MOk st' => run b st' | x => x end.
  Proof.
    revert st. induction a as [|e a IH]; intros st; cbn [app J2P.run]; [reflexivity|].
    destruct (step e st); try reflexivity. apply IH.
  Qed.

  Lemma run_cons e r st : run (e :: r) st = match step e st with MOk st' => run r st' | x => x end.
  Proof. reflexivity. Qed.

  (* ---------------------------------------------------------------- skipping (unknown members) *)
  (* inside a container that sonic skips no callback changes the state *)
  Lemma skip_inner v : forall st d, m_skipd st = Datatypes.S d -> run (events v) st = MOk st.
  Proof.
    induction v as [| b | l | s | xs IH | ms IH] using json_ind'; intros st d Hd;
      try (cbn [events J2P.run]; unfold J2P.step; rewrite Hd; reflexivity).
    - (* array *)
      cbn [events]. rewrite run_cons. unfold J2P.step at 1. rewrite Hd.
      set (st1 := set_skipd st (Datatypes.S (Datatypes.S d))).
      rewrite run_app.
      assert (Hin : run (flat_map events xs) st1 = MOk st1).
      { clear - IH. assert (H1 : m_skipd st1 = Datatypes.S (Datatypes.S d)) by reflexivity.
        revert H1. generalize st1. induction IH as [|x xs Hx _ IHxs]; intros s1 H1; [reflexivity|].
        cbn [flat_map]. rewrite run_app, (Hx s1 _ H1). apply IHxs, H1. }
      rewrite Hin. cbn [J2P.run]. unfold J2P.step. cbn [m_skipd st1 set_skipd].
      destruct st; cbn in *. subst. reflexivity.
    - (* object *)
      cbn [events]. rewrite run_cons. unfold J2P.step at 1. rewrite Hd.
      set (st1 := set_skipd st (Datatypes.S (Datatypes.S d))).
      rewrite run_app.
      assert (Hin : run (flat_map (fun m => EvKey (fst m) :: events (snd m)) ms) st1 = MOk st1).
      { clear - IH. assert (H1 : m_skipd st1 = Datatypes.S (Datatypes.S d)) by reflexivity.
        revert H1. generalize st1. induction IH as [|x xs Hx _ IHxs]; intros s1 H1; [reflexivity|].
        cbn [flat_map]. rewrite run_app. rewrite run_cons. unfold J2P.step at 1. rewrite H1.
        rewrite (Hx s1 _ H1). apply IHxs, H1. }
      rewrite Hin. cbn [J2P.run]. unfold J2P.step. cbn [m_skipd st1 set_skipd].
      destruct st; cbn in *. subst. reflexivity.
  Qed.

  (* the value of an unknown member is consumed without any effect but clearing inskip *)
  Lemma skip_value v stk glob buf :
    run (events v) (mk_st stk glob true O buf) = MOk (mk_st stk glob false O buf).
  Proof.
    destruct v as [| b | l | s | xs | ms]; try reflexivity.
    - cbn [events]. rewrite run_cons. cbn. rewrite run_app.
      assert (Hin : forall s1, m_skipd s1 = 1%nat -> run (flat_map events xs) s1 = MOk s1).
      { induction xs as [|x xs IHxs]; intros s1 H1; [reflexivity|].
        cbn [flat_map]. rewrite run_app, (skip_inner x s1 _ H1). apply IHxs, H1. }
      rewrite Hin by reflexivity. reflexivity.
    - cbn [events]. rewrite run_cons. cbn. rewrite run_app.
      assert (Hin : forall s1, m_skipd s1 = 1%nat -> run (flat_map (fun m => EvKey (fst m) :: events (snd m)) ms) s1 = MOk s1).
      { induction ms as [|x xs IHxs]; intros s1 H1; [reflexivity|].
        cbn [flat_map]. rewrite run_app, run_cons. unfold J2P.step at 1. rewrite H1.
        rewrite (skip_inner (snd x) s1 _ H1). apply IHxs, H1. }
      rewrite Hin by reflexivity. reflexivity.
  Qed.
End Run.

(* ------------------------------------------------------------------ small facts *)
Lemma lt31 {A} (l : list A) : (plen l <? 2 ^ 31) = true -> (length l < 2 ^ 31)%nat.
Proof.
  intro H. apply Z.ltb_lt in H. unfold plen in H. apply Nat2Z.inj_lt. rewrite Nat2Z.inj_pow. exact H.
Qed.

Lemma plen_not_m1 {A} (l : list A) : (plen l =? -1) = false.
Proof. apply Z.eqb_neq. unfold plen. lia. Qed.

Lemma finish_ok junk pre x payload :
  (9 <= length junk)%nat -> (plen payload <? 2 ^ 31) = true ->
  finish junk (pre ++ [x] ++ payload) (plen pre) = Some (pre ++ varint_enc (plen payload) ++ payload).
Proof.
  intros Hj Hp. unfold finish.
  assert (H0 : (plen pre <? 0) = false) by (apply Z.ltb_ge; unfold plen; lia).
  rewrite H0. unfold plen at 1. rewrite Nat2Z.id.
  rewrite finish_spec_correct by (try apply lt31; assumption). reflexivity.
Qed.

Lemma wenc_single n w : wenc [(n, w)] = varint_enc (n * 8 + wt_of_wval w) ++ wenc_val w.
Proof. unfold wenc. cbn [flat_map]. unfold wenc_field. cbn [fst snd]. rewrite app_nil_r. reflexivity. Qed.

Lemma wenc_leaf n k l : wenc (wfld n (leaf_pval k l)) = varint_enc (n * 8 + leaf_wt k l) ++ leaf_bytes k l.
Proof. destruct l; cbn [leaf_pval wfld leaf_wt leaf_bytes]; rewrite wenc_single; reflexivity. Qed.

Lemma wenc_flat {A} (f : A -> list wfield) l : wenc (flat_map f l) = flat_map (fun x => wenc (f x)) l.
Proof. induction l as [|x l IH]; [reflexivity|]. cbn [flat_map]. rewrite wenc_app, IH. reflexivity. Qed.

Lemma ev_of_events v e : ev_of v = Some e -> events v = [e] /\ (match e with EvNum _ | EvStr _ | EvBool _ => True | _ => False end).
Proof. destruct v; cbn; intro H; inversion H; subst; split; auto. Qed.

(* what a strict scalar denotation gives: one scalar callback whose payload is the wire form of the value *)
Lemma denote_scalar_inv k v pv :
  denote_scalar true k v = ROk pv ->
  exists e l, events v = [e] /\ (match e with EvNum _ | EvStr _ | EvBool _ => True | _ => False end) /\
    pv = leaf_pval k l /\ scalar_payload k e = SBytes (leaf_bytes k l) /\ leaf_wt k l = kwire k /\
    is_str_ev e = (match l with LBytes _ => true | LScalar _ => false end) /\
    is_numeric k = (match l with LBytes _ => false | LScalar _ => true end).
Proof.
  unfold denote_scalar. destruct (ev_of v) as [e|] eqn:He.
  2:{ destruct v; discriminate. }
  destruct (ev_of_events _ _ He) as [Hev Hsc].
  destruct (denote_leaf k v) as [l| |]; cbn [res_bind]; try discriminate.
  destruct (leaf_agrees true k e l) eqn:Ha; [|discriminate].
  intro H; inversion H; subst pv. exists e, l.
  unfold leaf_agrees in Ha. cbn [negb orb] in Ha.
  apply andb_true_iff in Ha. destruct Ha as [Ha H4].
  apply andb_true_iff in Ha. destruct Ha as [Ha H3]. apply andb_true_iff in Ha. destruct Ha as [H1 H2].
  destruct (scalar_payload k e) as [b| |]; try discriminate.
  apply bytes_eqb_eq in H1. subst b. apply Z.eqb_eq in H2. apply Bool.eqb_prop in H3. apply Bool.eqb_prop in H4.
  repeat split; auto.
Qed.

(* ------------------------------------------------------------------ the refinement *)
Section Refine.
  Variable disallow : bool.
  Variable S : schema.
  Variable junk : list Z.
  Hypothesis Hjunk : (9 <= length junk)%nat.
  (* stack frames per JSON nesting level: 1 without map fields, 2 with (map frame + pair frame) *)
  Variable dw : nat.
  Hypothesis Hdw : (1 <= dw)%nat.
  Notation run := (J2P.run disallow S junk).

  Definition num_ok (n : Z) : Prop := ((1 <=? n) && (n <=? MAX_FIELD_NUMBER)) = true.

  Lemma append_tag_ok buf n wt : num_ok n -> append_tag buf n wt = Some (buf ++ varint_enc (n * 8 + wt)).
  Proof.
    unfold num_ok, append_tag. intro H. apply andb_true_iff in H. destruct H as [H1 H2].
    apply Z.leb_le in H1, H2.
    assert (E1 : (n <? 1) = false) by (apply Z.ltb_ge; lia).
    assert (E2 : (n >? MAX_FIELD_NUMBER) = false) by (rewrite Z.gtb_ltb; apply Z.ltb_ge; lia).
    rewrite E1, E2. reflexivity.
  Qed.

  (* OnBool/OnString/OnInt64/OnFloat64 in a consistent state: member value (globalFieldDesc set) or list element *)
  Lemma on_scalar_eval e top stk glob buf g p tagbytes :
    (glob = Some g \/ (glob = None /\ fr_typ top = T_ARR /\ fr_fd top = Some g /\ g_islist g = Some true)) ->
    (if is_str_ev e then append_tag buf (g_num g) (kwire (g_kind g)) = Some (buf ++ tagbytes)
     else match g_islist g with
          | Some true => tagbytes = []
          | Some false => append_tag buf (g_num g) (kwire (g_kind g)) = Some (buf ++ tagbytes)
          | None => False
          end) ->
    scalar_payload (g_kind g) e = SBytes p ->
    fr_typ top <> T_MAP ->
    on_scalar junk e (mk_st (top :: stk) glob false O buf)
    = MOk (mk_st (top :: stk) None false O (buf ++ tagbytes ++ p)).
  Proof.
    intros Hres Htag Hpay Htop.
    assert (Hm : (fr_typ top =? T_MAP) = false) by (apply Z.eqb_neq; exact Htop).
    unfold on_scalar. cbn [m_inskip m_glob m_stk m_buf top_of hd].
    destruct Hres as [Hg | (Hg & Ht & Hf & Hl)]; subst glob.
    - destruct (is_str_ev e); [|destruct (g_islist g) as [[|]|]].
      + rewrite Htag. cbn [set_buf m_buf m_stk m_glob m_inskip m_skipd]. rewrite Hpay.
        unfold on_value_end. cbn [set_buf m_buf m_stk m_glob m_inskip m_skipd]. rewrite Hm.
        unfold set_glob. cbn. rewrite <- app_assoc. reflexivity.
      + subst tagbytes. cbn [set_buf m_buf m_stk m_glob m_inskip m_skipd]. rewrite Hpay.
        unfold on_value_end. cbn [set_buf m_buf m_stk m_glob m_inskip m_skipd]. rewrite Hm.
        unfold set_glob. cbn. reflexivity.
      + rewrite Htag. cbn [set_buf m_buf m_stk m_glob m_inskip m_skipd]. rewrite Hpay.
        unfold on_value_end. cbn [set_buf m_buf m_stk m_glob m_inskip m_skipd]. rewrite Hm.
        unfold set_glob. cbn. rewrite <- app_assoc. reflexivity.
      + contradiction.
    - rewrite Hf, Hl, Ht. cbn [Z.eqb T_ARR Pos.eqb].
      destruct (is_str_ev e).
      + rewrite Htag. cbn [set_buf m_buf m_stk m_glob m_inskip m_skipd]. rewrite Hpay.
        unfold set_buf. cbn. rewrite <- app_assoc. reflexivity.
      + rewrite Hl in Htag. subst tagbytes. rewrite Hl, Hpay. unfold set_buf. cbn. reflexivity.
  Qed.

  Definition md_ok (md : mdesc) : Prop :=
    forallb (fun fd => match fd_label fd with LMap _ => false | _ => true end) (md_fields md) = true.
  Hypothesis Hmapdw : (forall name md, find_msg S name = Some md -> md_ok md) \/ (2 <= dw)%nat.
  Lemma md_ok_or name md : find_msg S name = Some md -> md_ok md \/ (2 <= dw)%nat.
  Proof. intro H. destruct Hmapdw as [Hn|Hn]; [left; exact (Hn _ _ H) | right; exact Hn]. Qed.

  Lemma field_not_map md k fd : md_ok md -> find_field_name md k = Some fd ->
    g_ismap (GField fd) = Some false.
  Proof.
    unfold md_ok, find_field_name. intros Hm Hf. apply find_some in Hf. destruct Hf as [Hin _].
    rewrite forallb_forall in Hm. specialize (Hm _ Hin). cbn [g_ismap]. destruct (fd_label fd); try discriminate; reflexivity.
  Qed.

  (* the top frame is the frame of a message object of type md *)
  Definition obj_frame (top : frame) (md : mdesc) : Prop :=
    fr_typ top = T_OBJ /\
    (fr_root top = Some md \/ (fr_root top = None /\ exists g, fr_fd top = Some g /\ g_message S g = Some (Some md))).

  Definition DEPTH : nat := 256.

  Definition members_spec (rec : mdesc -> list (list Z * json) -> res pmsg) : Prop :=
    forall md ms fs top stk glob buf,
      rec md ms = ROk fs -> (md_ok md \/ (2 <= dw)%nat) -> obj_frame top md ->
      Forall (fun m => (length (top :: stk) + dw * json_depth (snd m) <= DEPTH)%nat) ms ->
      run (flat_map member_events ms) (mk_st (top :: stk) glob false O buf)
      = MOk (mk_st (top :: stk) (if has_known md ms then None else glob) false O (buf ++ encode_msg fs)).

  Lemma depth_children {A} (f : A -> json) (l : list A) (L extra : nat) :
    (extra <= dw)%nat ->
    (L + dw * Datatypes.S (fold_right (fun x m => Nat.max (json_depth (f x)) m) O l) <= DEPTH)%nat ->
    Forall (fun x => (extra + L + dw * json_depth (f x) <= DEPTH)%nat) l.
  Proof.
    intros He H. apply Forall_forall. intros x Hin.
    pose proof (fold_max_ge (fun y => json_depth (f y)) l x Hin) as Hm. cbn beta in Hm.
    rewrite Nat.mul_succ_r in H.
    pose proof (Nat.mul_le_mono_l _ _ dw Hm). lia.
  Qed.

  Lemma depth_push (L k : nat) : (L + dw * Datatypes.S k <= DEPTH)%nat -> (STK_DEPTH <=? L)%nat = false.
  Proof. intro H. apply Nat.leb_gt. unfold STK_DEPTH. unfold DEPTH in H. rewrite Nat.mul_succ_r in H. lia. Qed.

  Section Level.
    Variable rec : mdesc -> list (list Z * json) -> res pmsg.
    Hypothesis Hrec : members_spec rec.

    (* a nested message: tag, speculative length byte, members, FinishSpeculativeLength, pop *)
    Lemma msg_value_ok fd name md' ms' fs' top stk glob buf :
      fd_type fd = TMsg name -> g_ismap (GField fd) = Some false -> find_msg S name = Some md' ->
      has_known md' ms' = true -> rec md' ms' = ROk fs' -> (plen (encode_msg fs') <? 2 ^ 31) = true ->
      num_ok (fd_num fd) ->
      (glob = Some (GField fd) \/ (glob = None /\ fr_typ top = T_ARR /\ fr_fd top = Some (GField fd))) ->
      fr_typ top <> T_MAP ->
      (length (top :: stk) + dw * json_depth (JObj ms') <= DEPTH)%nat ->
      run (events (JObj ms')) (mk_st (top :: stk) glob false O buf)
      = MOk (mk_st (top :: stk) None false O (buf ++ wenc (wfld (fd_num fd) (VMsg fs')))).
    Proof.
      intros Ht Hmap Hfm Hk Hr Hsz Hn Hres Htop Hd.
      assert (Hm : (fr_typ top =? T_MAP) = false) by (apply Z.eqb_neq; exact Htop).
      cbn [events]. rewrite run_cons.
      assert (Hstep : step disallow S junk EvObjBegin (mk_st (top :: stk) glob false O buf)
                = MOk (mk_st (mk_frame T_OBJ None (Some (GField fd)) (plen (buf ++ varint_enc (fd_num fd * 8 + 2))) :: top :: stk)
                             glob false O ((buf ++ varint_enc (fd_num fd * 8 + 2)) ++ [0]))).
      { unfold step. cbn [m_skipd]. unfold on_obj_begin. cbn [m_inskip m_glob m_stk m_buf top_of hd].
        assert (Hfd : match glob with Some g => Some g | None => if fr_typ top =? T_ARR then fr_fd top else None end = Some (GField fd)).
        { destruct Hres as [Hg | (Hg & Ha & Hf)]; subst glob; [reflexivity|]. rewrite Ha, Hf. reflexivity. }
        rewrite Hfd, Hmap. cbn [g_num]. rewrite (append_tag_ok _ _ _ Hn).
        unfold push. cbn [set_buf m_stk m_buf m_glob m_inskip m_skipd].
        assert (Hl : (STK_DEPTH <=? length (top :: stk))%nat = false).
        { cbn [json_depth] in Hd. exact (depth_push _ _ Hd). }
        rewrite Hl. reflexivity. }
      rewrite Hstep. clear Hstep. rewrite run_app.
      set (tag := varint_enc (fd_num fd * 8 + 2)).
      set (fr := mk_frame T_OBJ None (Some (GField fd)) (plen (buf ++ tag))).
      assert (Hof : obj_frame fr md').
      { split; [reflexivity|]. right. split; [reflexivity|]. exists (GField fd). split; [reflexivity|].
        cbn [g_message]. rewrite Ht, Hfm. reflexivity. }
      assert (Hdep : Forall (fun m => (length (fr :: top :: stk) + dw * json_depth (snd m) <= DEPTH)%nat) ms').
      { cbn [json_depth] in Hd. apply (depth_children (fun m : list Z * json => snd m) ms' (length (top :: stk)) 1 Hdw). exact Hd. }
      change (flat_map (fun m : list Z * json => EvKey (fst m) :: events (snd m)) ms') with (flat_map member_events ms').
      rewrite (Hrec md' ms' fs' fr (top :: stk) glob _ Hr (md_ok_or _ _ Hfm) Hof Hdep).
      rewrite Hk. cbn [J2P.run]. unfold step. cbn [m_skipd]. unfold on_obj_end.
      cbn [m_inskip top_of m_stk hd]. unfold fr at 1. cbn [fr_pos]. rewrite plen_not_m1.
      cbn [m_buf]. unfold fr at 1. cbn [fr_pos].
      rewrite <- (app_assoc (buf ++ tag) [0] (encode_msg fs')).
      rewrite (finish_ok junk (buf ++ tag) 0 (encode_msg fs') Hjunk Hsz).
      unfold on_value_end. cbn [set_buf m_stk m_glob m_buf m_inskip m_skipd].
      unfold fr at 1. cbn [fr_typ]. cbn [Z.eqb T_OBJ Pos.eqb]. rewrite Hm.
      unfold set_stk. cbn [m_stk m_glob m_buf m_inskip m_skipd].
      cbn [wfld]. rewrite wenc_single. cbn [wt_of_wval wenc_val]. unfold encode_msg, msg_wire, tag.
      rewrite <- !app_assoc. reflexivity.
    Qed.

    Lemma step_scalar e st : m_skipd st = O ->
      (match e with EvNum _ | EvStr _ | EvBool _ => True | _ => False end) ->
      step disallow S junk e st = on_scalar junk e st.
    Proof. intros Hs He. unfold step. rewrite Hs. destruct e; try contradiction; reflexivity. Qed.

    (* a singular scalar member: tag by kind, payload, onValueEnd clears globalFieldDesc *)
    Lemma scalar_member_ok fd k v pv top stk buf :
      fd_type fd = TScalar k -> fd_label fd = LSingular -> num_ok (fd_num fd) ->
      denote_scalar true k v = ROk pv -> fr_typ top <> T_MAP ->
      run (events v) (mk_st (top :: stk) (Some (GField fd)) false O buf)
      = MOk (mk_st (top :: stk) None false O (buf ++ wenc (wfld (fd_num fd) pv))).
    Proof.
      intros Ht Hl Hn Hd Htop.
      destruct (denote_scalar_inv _ _ _ Hd) as (e & l & Hev & Hsc & Hpv & Hpay & Hwt & Hstr & Hnum).
      rewrite Hev. cbn [J2P.run]. rewrite step_scalar by (auto; reflexivity).
      assert (Hk : g_kind (GField fd) = k) by (cbn [g_kind]; rewrite Hl, Ht; reflexivity).
      rewrite (on_scalar_eval e top stk (Some (GField fd)) buf (GField fd) (leaf_bytes k l) (varint_enc (fd_num fd * 8 + kwire k))).
      - subst pv. rewrite wenc_leaf, Hwt. reflexivity.
      - left; reflexivity.
      - rewrite Hk. cbn [g_islist g_num]. rewrite Hl. destruct (is_str_ev e); apply append_tag_ok; exact Hn.
      - rewrite Hk. exact Hpay.
      - exact Htop.
    Qed.

    Definition elems_bytes (n : Z) (t : ftype) (vs : list pval) : list Z :=
      if type_numeric t then flat_map packed_elem vs else wenc (flat_map (fun x => wfld n x) vs).

    (* the elements of an array value of a repeated field (the first one still sees globalFieldDesc) *)
    Lemma elems_ok fd p top stk :
      fd_label fd = LRepeated p -> num_ok (fd_num fd) ->
      fr_typ top = T_ARR -> fr_fd top = Some (GField fd) ->
      forall xs vs glob buf,
        den_elems true S rec (fd_type fd) xs = ROk vs ->
        (glob = Some (GField fd) \/ glob = None) ->
        Forall (fun x => (length (top :: stk) + dw * json_depth x <= DEPTH)%nat) xs ->
        run (flat_map events xs) (mk_st (top :: stk) glob false O buf)
        = MOk (mk_st (top :: stk) (match xs with [] => glob | _ => None end) false O (buf ++ elems_bytes (fd_num fd) (fd_type fd) vs)).
    Proof.
      intros Hl Hn Hta Htf.
      assert (Htop : fr_typ top <> T_MAP) by (rewrite Hta; discriminate).
      assert (Hil : g_islist (GField fd) = Some true) by (cbn [g_islist]; rewrite Hl; reflexivity).
      assert (Him : g_ismap (GField fd) = Some false) by (cbn [g_ismap]; rewrite Hl; reflexivity).
      induction xs as [|x xs IH]; intros vs glob buf Hd Hg Hdep.
      - cbn in Hd. inversion Hd; subst vs. cbn [flat_map J2P.run]. unfold elems_bytes.
        destruct (type_numeric (fd_type fd)); cbn; rewrite app_nil_r; reflexivity.
      - cbn [den_elems] in Hd.
        destruct (den_single true S rec (fd_type fd) x) as [v| |] eqn:Hx; cbn [res_bind] in Hd; try discriminate.
        destruct (den_elems true S rec (fd_type fd) xs) as [vs'| |] eqn:Hxs; cbn [res_bind] in Hd; try discriminate.
        inversion Hd; subst vs. clear Hd.
        inversion Hdep as [|? ? Hdx Hdxs]; subst.
        cbn [flat_map]. rewrite run_app.
        assert (Hres : glob = Some (GField fd) \/ (glob = None /\ fr_typ top = T_ARR /\ fr_fd top = Some (GField fd) /\ g_islist (GField fd) = Some true))
          by (destruct Hg; [left|right]; auto).
        assert (Hone : run (events x) (mk_st (top :: stk) glob false O buf)
                       = MOk (mk_st (top :: stk) None false O (buf ++ elems_bytes (fd_num fd) (fd_type fd) [v]))).
        { unfold den_single in Hx. destruct (fd_type fd) as [k|name] eqn:Ht.
          - (* scalar element *)
            destruct (denote_scalar_inv _ _ _ Hx) as (e & l & Hev & Hsc & Hpv & Hpay & Hwt & Hstr & Hnum).
            rewrite Hev. cbn [J2P.run]. rewrite step_scalar by (auto; reflexivity).
            assert (Hk : g_kind (GField fd) = k) by (cbn [g_kind]; rewrite Hl, Ht; reflexivity).
            unfold elems_bytes. cbn [type_numeric]. rewrite Hnum.
            destruct l as [z|b].
            + rewrite (on_scalar_eval e top stk glob buf (GField fd) (leaf_bytes k (LScalar z)) []).
              * subst v. cbn [flat_map leaf_pval packed_elem leaf_bytes app]. rewrite ?app_nil_r. reflexivity.
              * exact Hres.
              * rewrite Hstr, Hil. reflexivity.
              * rewrite Hk. exact Hpay.
              * exact Htop.
            + rewrite (on_scalar_eval e top stk glob buf (GField fd) (leaf_bytes k (LBytes b)) (varint_enc (fd_num fd * 8 + kwire k))).
              * subst v. cbn [flat_map]. rewrite app_nil_r, wenc_leaf, Hwt. reflexivity.
              * exact Hres.
              * rewrite Hstr, Hk. apply append_tag_ok. exact Hn.
              * rewrite Hk. exact Hpay.
              * exact Htop.
          - (* message element *)
            destruct x as [| | | | |ms']; try discriminate.
            destruct (find_msg S name) as [md'|] eqn:Hfm; [|discriminate].
            destruct (has_known md' ms') eqn:Hk; cbn [andb negb] in Hx; [|discriminate].
            destruct (rec md' ms') as [fs'| |] eqn:Hr; cbn [res_bind] in Hx; try discriminate.
            destruct (plen (encode_msg fs') <? 2 ^ 31) eqn:Hsz; cbn [andb negb] in Hx; [|discriminate].
            inversion Hx; subst v.
            assert (Hres' : glob = Some (GField fd) \/ (glob = None /\ fr_typ top = T_ARR /\ fr_fd top = Some (GField fd)))
              by (destruct Hg; [left|right]; auto).
            rewrite (msg_value_ok fd name md' ms' fs' top stk glob buf Ht Him Hfm Hk Hr Hsz Hn Hres' Htop Hdx).
            unfold elems_bytes. cbn [type_numeric flat_map]. rewrite app_nil_r. reflexivity. }
        rewrite Hone.
        rewrite (IH vs' None _ eq_refl (or_intror eq_refl) Hdxs).
        f_equal. f_equal.
        + destruct xs; reflexivity.
        + rewrite <- app_assoc. f_equal. unfold elems_bytes. destruct (type_numeric (fd_type fd)).
          * cbn [flat_map]. rewrite app_nil_r. reflexivity.
          * cbn [flat_map]. rewrite app_nil_r, wenc_app. reflexivity.
    Qed.

    Lemma den_elems_nil t xs : den_elems true S rec t xs = ROk [] -> xs = [].
    Proof.
      destruct xs as [|x xs]; [reflexivity|]. cbn [den_elems].
      destruct (den_single true S rec t x); cbn [res_bind]; try discriminate.
      destruct (den_elems true S rec t xs); cbn [res_bind]; discriminate.
    Qed.

    (* an array value of a repeated field: packed (tag, speculative length, elements, finish) or one record per element *)
    Lemma repeated_ok fd p xs vs top stk buf :
      fd_label fd = LRepeated p -> num_ok (fd_num fd) -> fr_typ top <> T_MAP ->
      den_elems true S rec (fd_type fd) xs = ROk vs -> vs <> [] ->
      (type_numeric (fd_type fd) = true -> (plen (flat_map packed_elem vs) <? 2 ^ 31) = true) ->
      (length (top :: stk) + dw * json_depth (JArr xs) <= DEPTH)%nat ->
      run (events (JArr xs)) (mk_st (top :: stk) (Some (GField fd)) false O buf)
      = MOk (mk_st (top :: stk) None false O (buf ++ wenc (wfld (fd_num fd) (VList (type_numeric (fd_type fd)) vs)))).
    Proof.
      intros Hl Hn Htop Hd Hne Hsz Hdep.
      assert (Hxs : xs <> []) by (intro; subst xs; cbn in Hd; inversion Hd; subst; contradiction).
      assert (Hpush : (STK_DEPTH <=? length (top :: stk))%nat = false).
      { cbn [json_depth] in Hdep. exact (depth_push _ _ Hdep). }
      assert (Hm : (fr_typ top =? T_MAP) = false) by (apply Z.eqb_neq; exact Htop).
      cbn [events]. rewrite run_cons. unfold step at 1. cbn [m_skipd]. unfold on_arr_begin.
      cbn [m_inskip m_glob g_ispacked]. rewrite Hl.
      destruct (type_numeric (fd_type fd)) eqn:Hnum.
      - (* packed *)
        cbn [m_buf g_num]. rewrite (append_tag_ok _ _ _ Hn). unfold push. cbn [set_buf m_stk m_buf m_glob m_inskip m_skipd].
        rewrite Hpush. unfold set_stk, set_buf. cbn [m_stk m_buf m_glob m_inskip m_skipd].
        set (tag := varint_enc (fd_num fd * 8 + 2)).
        set (fr := mk_frame T_ARR None (Some (GField fd)) (plen (buf ++ tag))).
        rewrite run_app.
        assert (Hdc : Forall (fun x => (length (fr :: top :: stk) + dw * json_depth x <= DEPTH)%nat) xs).
        { cbn [json_depth] in Hdep. apply (depth_children (fun x : json => x) xs (length (top :: stk)) 1 Hdw). exact Hdep. }
        rewrite (elems_ok fd p fr (top :: stk) Hl Hn eq_refl eq_refl xs vs (Some (GField fd)) _ Hd (or_introl eq_refl) Hdc).
        destruct xs as [|x0 xs0]; [contradiction|].
        cbn [J2P.run]. unfold step. cbn [m_skipd]. unfold on_arr_end. cbn [m_inskip top_of m_stk hd].
        unfold fr at 1. cbn [fr_pos]. rewrite plen_not_m1. unfold fr at 1. cbn [fr_fd g_ispacked]. rewrite Hl, Hnum.
        cbn [m_buf]. unfold fr at 1. cbn [fr_pos]. unfold elems_bytes. rewrite Hnum.
        rewrite <- (app_assoc (buf ++ tag) [0]).
        rewrite (finish_ok junk (buf ++ tag) 0 _ Hjunk (Hsz eq_refl)).
        unfold on_value_end. cbn [set_buf m_stk m_glob m_buf m_inskip m_skipd].
        unfold fr at 1. cbn [fr_typ]. cbn [Z.eqb T_OBJ T_ARR Pos.eqb orb].
        unfold set_stk. cbn [m_stk m_glob m_buf m_inskip m_skipd].
        cbn [wfld]. rewrite wenc_single. cbn [wt_of_wval wenc_val]. unfold tag. rewrite <- !app_assoc. reflexivity.
      - (* one record per element *)
        unfold push. cbn [m_stk]. rewrite Hpush. unfold set_stk. cbn [m_stk m_buf m_glob m_inskip m_skipd].
        set (fr := mk_frame T_ARR None (Some (GField fd)) (-1)).
        rewrite run_app.
        assert (Hdc : Forall (fun x => (length (fr :: top :: stk) + dw * json_depth x <= DEPTH)%nat) xs).
        { cbn [json_depth] in Hdep. apply (depth_children (fun x : json => x) xs (length (top :: stk)) 1 Hdw). exact Hdep. }
        rewrite (elems_ok fd p fr (top :: stk) Hl Hn eq_refl eq_refl xs vs (Some (GField fd)) _ Hd (or_introl eq_refl) Hdc).
        destruct xs as [|x0 xs0]; [contradiction|].
        cbn [J2P.run]. unfold step. cbn [m_skipd]. unfold on_arr_end. cbn [m_inskip top_of m_stk hd].
        unfold fr at 1. cbn [fr_pos Z.eqb Pos.eqb].
        unfold on_value_end. cbn [m_stk m_glob].
        unfold fr at 1. cbn [fr_typ]. cbn [Z.eqb T_OBJ T_ARR Pos.eqb orb].
        unfold set_stk. cbn [m_stk m_glob m_buf m_inskip m_skipd].
        unfold elems_bytes. rewrite Hnum. cbn [wfld]. reflexivity.
    Qed.


    (* ---------------------------------------------------------------- maps *)
    Lemma encode_map_key_app buf s kk :
      encode_map_key buf s kk = match encode_map_key [] s kk with Some b => Some (buf ++ b) | None => None end.
    Proof.
      unfold encode_map_key. cbn [app].
      repeat match goal with |- context [if ?c then _ else _] => destruct c; try reflexivity end.
    Qed.

    Lemma denote_key_inv kk s key : denote_key true kk s = ROk key ->
      encode_map_key [] s kk = Some (wenc_val (snd (key_field key))) /\ wt_of_wval (snd (key_field key)) = kwire kk.
    Proof.
      unfold denote_key. destruct (denote_key0 kk s) as [k0| |]; cbn [res_bind]; try discriminate.
      destruct (key_agrees true kk s k0) eqn:Ha; [|discriminate]. intro H; inversion H; subst k0.
      unfold key_agrees in Ha. cbn [negb orb] in Ha. apply andb_true_iff in Ha. destruct Ha as [H1 H2].
      destruct (encode_map_key [] s kk) as [b|]; [|discriminate].
      apply bytes_eqb_eq in H1. subst b. apply Z.eqb_eq in H2. auto.
    Qed.

    Lemma key_field_enc key : wenc_field (key_field key) = varint_enc (1 * 8 + wt_of_wval (snd (key_field key))) ++ wenc_val (snd (key_field key)).
    Proof. unfold wenc_field. rewrite key_field_fst. reflexivity. Qed.

    Lemma num_ok_1 : num_ok 1.  Proof. reflexivity. Qed.
    Lemma num_ok_2 : num_ok 2.  Proof. reflexivity. Qed.

    (* one map entry: pair tag, speculative length, key field, value field, pair length finished, pair frame popped *)
    Lemma entry_ok fd kk ks x key v stk glob buf :
      fd_label fd = LMap kk -> num_ok (fd_num fd) ->
      denote_key true kk ks = ROk key -> den_single true S rec (fd_type fd) x = ROk v ->
      (plen (wenc (key_field key :: wfld 2 v)) <? 2 ^ 31) = true ->
      let mapfr := mk_frame T_MAP None (Some (GField fd)) (-1) in
      (length (mapfr :: stk) + 1 + dw * json_depth x <= DEPTH)%nat ->
      run (member_events (ks, x)) (mk_st (mapfr :: stk) glob false O buf)
      = MOk (mk_st (mapfr :: stk) None false O (buf ++ wenc [(fd_num fd, WBytes (wenc (key_field key :: wfld 2 v)))])).
    Proof.
      intros Hl Hn Hk Hv Hsz mapfr Hdep.
      destruct (denote_key_inv _ _ _ Hk) as [Hkb Hkw].
      set (tag := varint_enc (fd_num fd * 8 + 2)).
      set (pre := buf ++ tag).
      set (hdr := wenc_field (key_field key)).
      set (pair := mk_frame T_MAP None (Some (GField fd)) (plen pre)).
      assert (Hpush : (STK_DEPTH <=? length (mapfr :: stk))%nat = false).
      { apply Nat.leb_gt. unfold STK_DEPTH. unfold DEPTH in Hdep. lia. }
      unfold member_events. cbn [fst snd]. rewrite run_cons.
      assert (Hkey : step disallow S junk (EvKey ks) (mk_st (mapfr :: stk) glob false O buf)
                     = MOk (mk_st (pair :: mapfr :: stk) (Some (GMapVal fd)) false O ((pre ++ [0]) ++ hdr))).
      { unfold step. cbn [m_skipd]. unfold on_key. cbn [top_of m_stk hd]. unfold mapfr. cbn [fr_root fr_typ fr_fd].
        cbn [Z.eqb T_OBJ T_MAP Pos.eqb]. rewrite Hl. cbn [m_buf]. rewrite (append_tag_ok _ _ _ Hn).
        fold tag. fold pre. rewrite (append_tag_ok _ _ _ num_ok_1).
        rewrite encode_map_key_app, Hkb. unfold push. cbn [set_buf m_stk m_buf m_glob m_inskip m_skipd].
        cbn [length] in Hpush. cbn [length]. rewrite Hpush. unfold set_stk, set_glob. cbn [m_stk m_buf m_glob m_inskip m_skipd].
        unfold hdr. rewrite key_field_enc, Hkw. rewrite <- !app_assoc. reflexivity. }
      rewrite Hkey. clear Hkey.
      assert (Hfin : forall vb, wenc (wfld 2 v) = vb ->
                finish junk (((pre ++ [0]) ++ hdr) ++ vb) (plen pre)
                = Some (buf ++ wenc [(fd_num fd, WBytes (wenc (key_field key :: wfld 2 v)))])).
      { intros vb Hvb. rewrite <- (app_assoc (pre ++ [0])), <- (app_assoc pre [0]).
        assert (HE : hdr ++ vb = wenc (key_field key :: wfld 2 v)) by (rewrite wenc_cons, Hvb; reflexivity).
        rewrite HE. rewrite (finish_ok junk pre 0 _ Hjunk Hsz). rewrite wenc_single. cbn [wt_of_wval wenc_val].
        unfold pre, tag. rewrite <- !app_assoc. reflexivity. }
      unfold den_single in Hv. destruct (fd_type fd) as [k|name] eqn:Ht.
      - (* scalar value *)
        destruct (denote_scalar_inv _ _ _ Hv) as (e & l & Hev & Hsc & Hpv & Hpay & Hwt & Hstr & Hnum).
        rewrite Hev. cbn [J2P.run]. rewrite step_scalar by (auto; reflexivity).
        unfold on_scalar. cbn [m_inskip m_glob m_stk m_buf top_of hd g_islist g_num g_kind kind_of_type]. rewrite Ht. cbn [kind_of_type].
        assert (Htag : (if is_str_ev e
                        then match append_tag ((pre ++ [0]) ++ hdr) 2 (kwire k) with Some b => MOk (set_buf (mk_st (pair :: mapfr :: stk) (Some (GMapVal fd)) false O ((pre ++ [0]) ++ hdr)) b) | None => MErr end
                        else match append_tag ((pre ++ [0]) ++ hdr) 2 (kwire k) with Some b => MOk (set_buf (mk_st (pair :: mapfr :: stk) (Some (GMapVal fd)) false O ((pre ++ [0]) ++ hdr)) b) | None => MErr end)
                       = MOk (mk_st (pair :: mapfr :: stk) (Some (GMapVal fd)) false O (((pre ++ [0]) ++ hdr) ++ varint_enc (2 * 8 + kwire k)))).
        { rewrite (append_tag_ok _ _ _ num_ok_2). destruct (is_str_ev e); reflexivity. }
        rewrite Htag. clear Htag. rewrite Hpay. unfold set_buf. cbn [m_buf m_stk m_glob m_inskip m_skipd].
        unfold on_value_end. cbn [m_stk m_glob m_buf]. unfold pair at 1. cbn [fr_typ Z.eqb T_MAP Pos.eqb].
        unfold pair at 1. cbn [fr_pos].
        rewrite <- (app_assoc ((pre ++ [0]) ++ hdr)).
        rewrite (Hfin (varint_enc (2 * 8 + kwire k) ++ leaf_bytes k l)).
        + unfold set_buf, set_stk, set_glob. cbn. reflexivity.
        + subst v. rewrite wenc_leaf, Hwt. reflexivity.
      - (* message value *)
        destruct x as [| | | | |ms']; try discriminate.
        destruct (find_msg S name) as [md'|] eqn:Hfm; [|discriminate].
        destruct (has_known md' ms') eqn:Hkn; cbn [andb negb] in Hv; [|discriminate].
        destruct (rec md' ms') as [fs'| |] eqn:Hr; cbn [res_bind] in Hv; try discriminate.
        destruct (plen (encode_msg fs') <? 2 ^ 31) eqn:Hsz2; cbn [andb negb] in Hv; [|discriminate].
        inversion Hv; subst v. clear Hv.
        set (b3 := (pre ++ [0]) ++ hdr).
        set (vtag := varint_enc (2 * 8 + 2)).
        set (objfr := mk_frame T_OBJ None (Some (GMapVal fd)) (plen (b3 ++ vtag))).
        cbn [events]. rewrite run_cons.
        assert (Hbeg : step disallow S junk EvObjBegin (mk_st (pair :: mapfr :: stk) (Some (GMapVal fd)) false O b3)
                       = MOk (mk_st (objfr :: pair :: mapfr :: stk) (Some (GMapVal fd)) false O ((b3 ++ vtag) ++ [0]))).
        { unfold step. cbn [m_skipd]. unfold on_obj_begin. cbn [m_inskip m_glob g_ismap g_num m_buf].
          rewrite (append_tag_ok _ _ _ num_ok_2). unfold push. cbn [set_buf m_stk m_buf m_glob m_inskip m_skipd].
          assert (Hp2 : (STK_DEPTH <=? length (pair :: mapfr :: stk))%nat = false).
          { apply Nat.leb_gt. unfold STK_DEPTH. unfold DEPTH in Hdep. cbn [json_depth] in Hdep. rewrite Nat.mul_succ_r in Hdep. cbn [length] in *. lia. }
          rewrite Hp2. reflexivity. }
        rewrite Hbeg. clear Hbeg. rewrite run_app.
        change (flat_map (fun m : list Z * json => EvKey (fst m) :: events (snd m)) ms') with (flat_map member_events ms').
        assert (Hof : obj_frame objfr md').
        { split; [reflexivity|]. right. split; [reflexivity|]. exists (GMapVal fd). split; [reflexivity|].
          cbn [g_message]. rewrite Ht, Hfm. reflexivity. }
        assert (Hdc : Forall (fun m => (length (objfr :: pair :: mapfr :: stk) + dw * json_depth (snd m) <= DEPTH)%nat) ms').
        { cbn [json_depth] in Hdep.
          assert (Hd' : (length (mapfr :: stk) + 1 + dw * Datatypes.S (fold_right (fun x m => Nat.max (json_depth (snd x)) m) O ms') <= DEPTH)%nat) by exact Hdep.
          pose proof (depth_children (fun m : list Z * json => snd m) ms' (length (mapfr :: stk) + 1) 1 Hdw Hd') as Hf.
          eapply Forall_impl; [|exact Hf]. cbn beta. intros a Ha. cbn [length] in *. lia. }
        rewrite (Hrec md' ms' fs' objfr (pair :: mapfr :: stk) _ _ Hr (md_ok_or _ _ Hfm) Hof Hdc).
        rewrite Hkn. cbn [J2P.run]. unfold step. cbn [m_skipd]. unfold on_obj_end.
        cbn [m_inskip top_of m_stk hd]. unfold objfr at 1. cbn [fr_pos]. rewrite plen_not_m1.
        cbn [m_buf]. unfold objfr at 1. cbn [fr_pos].
        rewrite <- (app_assoc (b3 ++ vtag) [0] (encode_msg fs')).
        rewrite (finish_ok junk (b3 ++ vtag) 0 (encode_msg fs') Hjunk Hsz2).
        unfold on_value_end. cbn [set_buf m_stk m_glob m_buf m_inskip m_skipd].
        unfold objfr at 1. cbn [fr_typ Z.eqb T_OBJ Pos.eqb]. unfold pair at 1. cbn [fr_typ Z.eqb T_MAP Pos.eqb].
        unfold pair at 1. cbn [fr_pos]. unfold b3.
        rewrite <- (app_assoc ((pre ++ [0]) ++ hdr)).
        rewrite (Hfin (vtag ++ varint_enc (plen (encode_msg fs')) ++ encode_msg fs')).
        + unfold set_buf, set_stk. cbn. reflexivity.
        + cbn [wfld]. rewrite wenc_single. cbn [wt_of_wval wenc_val]. unfold vtag, encode_msg, msg_wire. reflexivity.
    Qed.

    Lemma wenc_map {A} (f : A -> wfield) l : wenc (map f l) = flat_map (fun x => wenc [f x]) l.
    Proof. induction l as [|x l IH]; [reflexivity|]. cbn [map flat_map]. rewrite wenc_cons, IH. unfold wenc at 2. cbn [flat_map]. rewrite app_nil_r. reflexivity. Qed.

    Lemma entries_ok fd kk stk :
      fd_label fd = LMap kk -> num_ok (fd_num fd) ->
      let mapfr := mk_frame T_MAP None (Some (GField fd)) (-1) in
      forall ms kvs glob buf,
        den_entries true S rec kk (fd_type fd) ms = ROk kvs ->
        forallb (fun kx => plen (wenc (key_field (fst kx) :: wfld 2 (snd kx))) <? 2 ^ 31) kvs = true ->
        Forall (fun m => (length (mapfr :: stk) + 1 + dw * json_depth (snd m) <= DEPTH)%nat) ms ->
        run (flat_map member_events ms) (mk_st (mapfr :: stk) glob false O buf)
        = MOk (mk_st (mapfr :: stk) (match ms with [] => glob | _ => None end) false O (buf ++ wenc (wfld (fd_num fd) (VMap kvs)))).
    Proof.
      intros Hl Hn mapfr. subst mapfr. induction ms as [|[ks x] r IH]; intros kvs glob buf Hd Hsz Hdep.
      - cbn in Hd. inversion Hd; subst kvs. cbn. rewrite app_nil_r. reflexivity.
      - cbn [den_entries] in Hd.
        destruct (denote_key true kk ks) as [key| |] eqn:Hk; cbn [res_bind] in Hd; try discriminate.
        destruct (den_single true S rec (fd_type fd) x) as [v| |] eqn:Hv; cbn [res_bind] in Hd; try discriminate.
        destruct (den_entries true S rec kk (fd_type fd) r) as [kvs'| |] eqn:Hr; cbn [res_bind] in Hd; try discriminate.
        inversion Hd; subst kvs. clear Hd.
        cbn [forallb fst snd] in Hsz. apply andb_true_iff in Hsz. destruct Hsz as [Hs1 Hs2].
        inversion Hdep as [|? ? Hdx Hdr]; subst. cbn [snd] in Hdx.
        change (flat_map member_events ((ks, x) :: r)) with (member_events (ks, x) ++ flat_map member_events r).
        rewrite run_app.
        rewrite (entry_ok fd kk ks x key v stk glob buf Hl Hn Hk Hv Hs1 Hdx).
        rewrite (IH kvs' None _ eq_refl Hs2 Hdr).
        f_equal. f_equal.
        + destruct r; reflexivity.
        + rewrite <- app_assoc. f_equal. cbn [wfld map fst snd]. rewrite (wenc_cons _ (map _ kvs')).
          unfold wenc at 1. cbn [flat_map]. rewrite app_nil_r. reflexivity.
    Qed.

    Lemma den_entries_nil kk t ms : den_entries true S rec kk t ms = ROk [] -> ms = [].
    Proof.
      destruct ms as [|[k x] ms]; [reflexivity|]. cbn [den_entries].
      destruct (denote_key true kk k); cbn [res_bind]; try discriminate.
      destruct (den_single true S rec t x); cbn [res_bind]; try discriminate.
      destruct (den_entries true S rec kk t ms); cbn [res_bind]; discriminate.
    Qed.

    (* an object value of a map field: map frame, entries, pop *)
    Lemma map_field_ok fd kk ms kvs top stk buf :
      (2 <= dw)%nat ->
      fd_label fd = LMap kk -> num_ok (fd_num fd) ->
      den_entries true S rec kk (fd_type fd) ms = ROk kvs -> kvs <> [] ->
      forallb (fun kx => plen (wenc (key_field (fst kx) :: wfld 2 (snd kx))) <? 2 ^ 31) kvs = true ->
      (length (top :: stk) + dw * json_depth (JObj ms) <= DEPTH)%nat ->
      run (events (JObj ms)) (mk_st (top :: stk) (Some (GField fd)) false O buf)
      = MOk (mk_st (top :: stk) None false O (buf ++ wenc (wfld (fd_num fd) (VMap kvs)))).
    Proof.
      intros H2 Hl Hn Hd Hne Hsz Hdep.
      assert (Hms : ms <> []) by (intro; subst ms; cbn in Hd; inversion Hd; subst; contradiction).
      cbn [events]. rewrite run_cons. unfold step at 1. cbn [m_skipd]. unfold on_obj_begin.
      cbn [m_inskip m_glob g_ismap]. rewrite Hl. unfold push. cbn [m_stk].
      cbn [json_depth] in Hdep. rewrite (depth_push _ _ Hdep). unfold set_stk. cbn [m_stk m_buf m_glob m_inskip m_skipd].
      rewrite run_app.
      change (flat_map (fun m : list Z * json => EvKey (fst m) :: events (snd m)) ms) with (flat_map member_events ms).
      set (mapfr := mk_frame T_MAP None (Some (GField fd)) (-1)).
      assert (Hdc : Forall (fun m => (length (mapfr :: top :: stk) + 1 + dw * json_depth (snd m) <= DEPTH)%nat) ms).
      { pose proof (depth_children (fun m : list Z * json => snd m) ms (length (top :: stk)) 2 H2 Hdep) as Hf.
        eapply Forall_impl; [|exact Hf]. cbn beta. intros a Ha. cbn [length] in *. lia. }
      rewrite (entries_ok fd kk (top :: stk) Hl Hn ms kvs _ _ Hd Hsz Hdc).
      destruct ms as [|m0 ms0]; [contradiction|].
      cbn [J2P.run]. unfold step. cbn [m_skipd]. unfold on_obj_end. cbn [m_inskip top_of m_stk hd].
      cbn [fr_pos Z.eqb Pos.eqb]. unfold on_value_end. cbn [m_stk m_glob].
      cbn [fr_typ Z.eqb T_OBJ T_ARR T_MAP Pos.eqb orb].
      unfold set_stk. cbn. reflexivity.
    Qed.

    (* the value of a known, non-null member *)
    Lemma field_ok md k fd v ov top stk buf :
      (md_ok md \/ (2 <= dw)%nat) -> find_field_name md k = Some fd -> num_ok (fd_num fd) ->
      den_field true S rec fd v = ROk ov -> fr_typ top = T_OBJ ->
      (length (top :: stk) + dw * json_depth v <= DEPTH)%nat ->
      run (events v) (mk_st (top :: stk) (Some (GField fd)) false O buf)
      = MOk (mk_st (top :: stk) None false O (buf ++ match ov with Some pv => wenc (wfld (fd_num fd) pv) | None => [] end)).
    Proof.
      intros Hmd Hf Hn Hd Hto Hdep.
      assert (Htop : fr_typ top <> T_MAP) by (rewrite Hto; discriminate).
      assert (Hnm : fd_label fd = LSingular \/ (exists p, fd_label fd = LRepeated p) -> g_ismap (GField fd) = Some false)
        by (intros [H|[p H]]; cbn [g_ismap]; rewrite H; reflexivity).
      unfold den_field in Hd. destruct (fd_label fd) as [|p|kk] eqn:Hl.
      - (* singular *)
        destruct (den_single true S rec (fd_type fd) v) as [pv| |] eqn:Hs; cbn [res_bind] in Hd; try discriminate.
        inversion Hd; subst ov. unfold den_single in Hs. destruct (fd_type fd) as [kd|name] eqn:Ht.
        + apply (scalar_member_ok fd kd v pv top stk buf Ht Hl Hn Hs Htop).
        + destruct v as [| | | | |ms']; try discriminate.
          destruct (find_msg S name) as [md'|] eqn:Hfm; [|discriminate].
          destruct (has_known md' ms') eqn:Hk; cbn [andb negb] in Hs; [|discriminate].
          destruct (rec md' ms') as [fs'| |] eqn:Hr; cbn [res_bind] in Hs; try discriminate.
          destruct (plen (encode_msg fs') <? 2 ^ 31) eqn:Hsz; cbn [andb negb] in Hs; [|discriminate].
          inversion Hs; subst pv.
          apply (msg_value_ok fd name md' ms' fs' top stk _ buf Ht (Hnm (or_introl eq_refl)) Hfm Hk Hr Hsz Hn (or_introl eq_refl) Htop Hdep).
      - (* repeated *)
        destruct v as [| | | |xs|]; try discriminate.
        destruct (den_elems true S rec (fd_type fd) xs) as [vs| |] eqn:He; cbn [res_bind] in Hd; try discriminate.
        destruct vs as [|v0 vs0]; [discriminate|].
        destruct (type_numeric (fd_type fd)) eqn:Hnum; cbn [andb] in Hd.
        + destruct (plen (flat_map packed_elem (v0 :: vs0)) <? 2 ^ 31) eqn:Hsz; cbn [negb] in Hd; [|discriminate].
          inversion Hd; subst ov.
          assert (Hne : v0 :: vs0 <> []) by discriminate.
          rewrite (repeated_ok fd p xs (v0 :: vs0) top stk buf Hl Hn Htop He Hne (fun _ => Hsz) Hdep).
          rewrite Hnum. reflexivity.
        + inversion Hd; subst ov.
          assert (Hne : v0 :: vs0 <> []) by discriminate.
          assert (Hs' : type_numeric (fd_type fd) = true -> (plen (flat_map packed_elem (v0 :: vs0)) <? 2 ^ 31) = true)
            by (rewrite Hnum; discriminate).
          rewrite (repeated_ok fd p xs (v0 :: vs0) top stk buf Hl Hn Htop He Hne Hs' Hdep).
          rewrite Hnum. reflexivity.
      - (* map *)
        destruct Hmd as [Hmd|H2].
        + pose proof (field_not_map md k fd Hmd Hf) as Hc. cbn [g_ismap] in Hc. rewrite Hl in Hc. discriminate.
        + destruct v as [| | | | |ms]; try discriminate.
          destruct (den_entries true S rec kk (fd_type fd) ms) as [kvs| |] eqn:He; cbn [res_bind] in Hd; try discriminate.
          destruct kvs as [|kv0 kvs0]; [discriminate|]. cbn [andb] in Hd.
          destruct (forallb (fun kx => plen (wenc (key_field (fst kx) :: wfld 2 (snd kx))) <? 2 ^ 31) (kv0 :: kvs0)) eqn:Hsz;
            cbn [negb] in Hd; [|discriminate].
          inversion Hd; subst ov.
          assert (Hne : kv0 :: kvs0 <> []) by discriminate.
          exact (map_field_ok fd kk ms (kv0 :: kvs0) top stk buf H2 Hl Hn He Hne Hsz Hdep).
    Qed.

    Lemma on_key_obj top md key stk glob buf :
      obj_frame top md ->
      step disallow S junk (EvKey key) (mk_st (top :: stk) glob false O buf)
      = lookup_member disallow md key (mk_st (top :: stk) glob false O buf).
    Proof.
      intros [Ht Hr]. unfold step. cbn [m_skipd]. unfold on_key. cbn [top_of m_stk hd].
      destruct Hr as [Hr | (Hr & g & Hg & Hm)]; rewrite Hr; [reflexivity|].
      rewrite Ht. cbn [Z.eqb T_OBJ Pos.eqb]. rewrite Hg, Hm. reflexivity.
    Qed.

    Lemma encode_msg_cons n pv fs : encode_msg ((n, pv) :: fs) = wenc (wfld n pv) ++ encode_msg fs.
    Proof. unfold encode_msg, msg_wire. cbn [flat_map fst snd]. apply wenc_app. Qed.

    (* one nesting level of the denotation is refined, given the next smaller level *)
    Lemma members_level : members_spec (den_members true disallow S rec).
    Proof.
      unfold members_spec. intros md ms. induction ms as [|[k v] r IH]; intros fs top stk glob buf Hd Hmd Hof Hdep.
      - cbn in Hd. inversion Hd; subst fs. cbn. rewrite app_nil_r. reflexivity.
      - cbn [den_members] in Hd. inversion Hdep as [|? ? Hdv Hdr]; subst. cbn [snd] in Hdv.
        change (flat_map member_events ((k, v) :: r)) with ((EvKey k :: events v) ++ flat_map member_events r).
        rewrite <- app_comm_cons, run_cons.
        rewrite (on_key_obj top md k stk glob buf Hof). unfold lookup_member.
        cbn [has_known existsb fst].
        destruct (find_field_name md k) as [fd|] eqn:Hf.
        + (* known member *)
          destruct (json_is_null v) eqn:Hnull; [discriminate|].
          destruct ((1 <=? fd_num fd) && (fd_num fd <=? MAX_FIELD_NUMBER)) eqn:Hn; cbn [andb negb] in Hd; [|discriminate].
          destruct (den_field true S rec fd v) as [ov| |] eqn:Hfv; cbn [res_bind] in Hd; try discriminate.
          destruct (den_members true disallow S rec md r) as [fs'| |] eqn:Hr; cbn [res_bind] in Hd; try discriminate.
          inversion Hd; subst fs. clear Hd.
          unfold set_glob. cbn [m_stk m_glob m_buf m_inskip m_skipd]. rewrite run_app.
          destruct Hof as [Hto Hroot].
          rewrite (field_ok md k fd v ov top stk buf Hmd Hf Hn Hfv Hto Hdv).
          rewrite (IH fs' top stk None _ eq_refl Hmd (conj Hto Hroot) Hdr).
          cbn [orb]. f_equal. f_equal.
          * destruct (has_known md r); reflexivity.
          * rewrite <- app_assoc. f_equal. destruct ov; [rewrite encode_msg_cons|]; reflexivity.
        + (* unknown member: skipped *)
          destruct disallow eqn:Hdis; [discriminate|].
          unfold set_inskip. cbn [m_stk m_glob m_buf m_inskip m_skipd]. rewrite run_app.
          rewrite skip_value. cbn [orb].
          apply (IH fs top stk glob buf Hd Hmd Hof Hdr).
    Qed.
  End Level.

  Lemma members_all f : members_spec (denote_members true disallow S f).
  Proof.
    induction f as [|f IH].
    - unfold members_spec. intros. discriminate.
    - exact (members_level (denote_members true disallow S f) IH).
  Qed.

  (* the whole document *)
  Lemma sax_run_ok root md ms fs :
    find_msg S root = Some md ->
    denote_members true disallow S (json_depth (JObj ms)) md ms = ROk fs ->
    (dw * json_depth (JObj ms) <= DEPTH)%nat ->
    sax_run disallow S root junk (events (JObj ms)) = OOk (encode_msg fs).
  Proof.
    intros Hf Hd Hdep. unfold sax_run. rewrite Hf. cbn [events]. rewrite run_cons.
    unfold step at 1, init_state. cbn [m_skipd]. unfold on_obj_begin. cbn [m_inskip m_glob top_of m_stk hd fr_typ].
    cbn [Z.eqb T_OBJ T_ARR Pos.eqb]. rewrite run_app.
    change (flat_map (fun m : list Z * json => EvKey (fst m) :: events (snd m)) ms) with (flat_map member_events ms).
    set (top := mk_frame T_OBJ (Some md) None (-1)).
    assert (Hof : obj_frame top md) by (split; [reflexivity | left; reflexivity]).
    assert (Hdc : Forall (fun m => (length (top :: []) + dw * json_depth (snd m) <= DEPTH)%nat) ms).
    { cbn [json_depth] in Hdep. apply (depth_children (fun m : list Z * json => snd m) ms O 1 Hdw). exact Hdep. }
    rewrite (members_all _ md ms fs top [] None [] Hd (md_ok_or _ _ Hf) Hof Hdc).
    cbn [J2P.run]. unfold step. cbn [m_skipd]. unfold on_obj_end. cbn [m_inskip top_of m_stk hd].
    unfold top at 1. cbn [fr_pos Z.eqb Pos.eqb]. unfold on_value_end. cbn [m_stk m_glob].
    destruct (has_known md ms); cbn [m_stk length Nat.eqb m_buf app]; reflexivity.
  Qed.
End Refine.

Lemma nomap_md_ok S : nomap_schema S = true -> forall name md, find_msg S name = Some md -> md_ok md.
Proof.
  intros H name md Hf. unfold find_msg in Hf. apply find_some in Hf. destruct Hf as [Hin _].
  unfold nomap_schema in H. rewrite forallb_forall in H. exact (H _ Hin).
Qed.

(* REFINEMENT.  For every document of the strict domain — it denotes a message, has no null member, no empty
   container, no leaf / map key on which the converter's conversion differs (all decidable, evaluated per case by the
   checker) — nested at most to the converter's stack limit, the SAX machine as coded yields exactly the canonical
   encoding of the denoted message: every tag, every packed run, every map pair and every length prefix at every
   depth, for every size (finish_spec_correct inside the induction over the JSON AST), for every content of the
   spare capacity seen by FinishSpeculativeLength.
   The stack limit: 256 frames; a nesting level costs one frame (message, list) or two (map: map frame + pair frame),
   hence JSON depth <= 128 in general and <= 256 for schemas without map fields. *)
Theorem sax_refines_spec disallow S root ms m junk :
  (9 <= length junk)%nat ->
  denote_top true disallow S root (JObj ms) = ROk m ->
  (json_depth (JObj ms) <= 128)%nat ->
  sax_run disallow S root junk (events (JObj ms)) = OOk (encode_msg m).
Proof.
  intros Hj Hd Hdep. unfold denote_top in Hd.
  destruct (find_msg S root) as [md|] eqn:Hf; [|discriminate].
  destruct (denote_members true disallow S (json_depth (JObj ms)) md ms) as [fs| |] eqn:Hm; cbn [res_bind] in Hd; try discriminate.
  destruct (wf_msg S root fs); [|discriminate]. inversion Hd; subst m.
  assert (H2 : (1 <= 2)%nat) by lia.
  assert (Hmd : (forall name md, find_msg S name = Some md -> md_ok md) \/ (2 <= 2)%nat) by (right; lia).
  refine (sax_run_ok disallow S junk Hj 2%nat H2 Hmd root md ms fs Hf Hm _).
  unfold DEPTH. lia.
Qed.

Theorem sax_refines_spec_nomap disallow S root ms m junk :
  nomap_schema S = true -> (9 <= length junk)%nat ->
  denote_top true disallow S root (JObj ms) = ROk m ->
  (json_depth (JObj ms) <= 256)%nat ->
  sax_run disallow S root junk (events (JObj ms)) = OOk (encode_msg m).
Proof.
  intros Hnm Hj Hd Hdep. unfold denote_top in Hd.
  destruct (find_msg S root) as [md|] eqn:Hf; [|discriminate].
  destruct (denote_members true disallow S (json_depth (JObj ms)) md ms) as [fs| |] eqn:Hm; cbn [res_bind] in Hd; try discriminate.
  destruct (wf_msg S root fs); [|discriminate]. inversion Hd; subst m.
  assert (H1 : (1 <= 1)%nat) by lia.
  refine (sax_run_ok disallow S junk Hj 1%nat H1 (or_introl (nomap_md_ok S Hnm)) root md ms fs Hf Hm _).
  unfold DEPTH. lia.
Qed.

(* ------------------------------------------------------------------ the strict domain is inside the property's domain *)
Section StrictLax.
  Variable d : bool.
  Variable S : schema.

  Lemma scalar_sl k v pv : denote_scalar true k v = ROk pv -> denote_scalar false k v = ROk pv.
  Proof.
    unfold denote_scalar. destruct (ev_of v) as [e|]; [|auto].
    destruct (denote_leaf k v) as [l| |]; cbn [res_bind]; auto.
    destruct (leaf_agrees true k e l); [|discriminate]. unfold leaf_agrees. cbn [negb orb]. auto.
  Qed.

  Lemma key_sl kk s key : denote_key true kk s = ROk key -> denote_key false kk s = ROk key.
  Proof.
    unfold denote_key. destruct (denote_key0 kk s) as [k0| |]; cbn [res_bind]; auto.
    destruct (key_agrees true kk s k0); [|discriminate]. unfold key_agrees. cbn [negb orb]. auto.
  Qed.

  Section Level.
    Variables rt rf : mdesc -> list (list Z * json) -> res pmsg.
    Hypothesis Hr : forall md ms fs, rt md ms = ROk fs -> rf md ms = ROk fs.

    Lemma single_sl t v pv : den_single true S rt t v = ROk pv -> den_single false S rf t v = ROk pv.
    Proof.
      unfold den_single. destruct t as [k|name]; [apply scalar_sl|].
      destruct v; auto. destruct (find_msg S name) as [md|]; [|auto].
      cbn [andb]. destruct (has_known md ms); cbn [negb]; [|discriminate].
      destruct (rt md ms) as [fs| |] eqn:E; cbn [res_bind]; try discriminate.
      rewrite (Hr _ _ _ E). cbn [res_bind]. destruct (plen (encode_msg fs) <? 2 ^ 31); cbn [negb]; [auto|discriminate].
    Qed.

    Lemma elems_sl t xs vs : den_elems true S rt t xs = ROk vs -> den_elems false S rf t xs = ROk vs.
    Proof.
      revert vs. induction xs as [|x xs IH]; intros vs; cbn [den_elems]; [auto|].
      destruct (den_single true S rt t x) as [v| |] eqn:E; cbn [res_bind]; try discriminate.
      rewrite (single_sl _ _ _ E). cbn [res_bind].
      destruct (den_elems true S rt t xs) as [vs'| |]; cbn [res_bind]; try discriminate.
      rewrite (IH _ eq_refl). cbn [res_bind]. auto.
    Qed.

    Lemma entries_sl kk t ms kvs : den_entries true S rt kk t ms = ROk kvs -> den_entries false S rf kk t ms = ROk kvs.
    Proof.
      revert kvs. induction ms as [|[k x] ms IH]; intros kvs; cbn [den_entries]; [auto|].
      destruct (denote_key true kk k) as [key| |] eqn:Ek; cbn [res_bind]; try discriminate.
      rewrite (key_sl _ _ _ Ek). cbn [res_bind].
      destruct (den_single true S rt t x) as [v| |] eqn:E; cbn [res_bind]; try discriminate.
      rewrite (single_sl _ _ _ E). cbn [res_bind].
      destruct (den_entries true S rt kk t ms) as [r| |]; cbn [res_bind]; try discriminate.
      rewrite (IH _ eq_refl). cbn [res_bind]. auto.
    Qed.

    Lemma field_sl fd v ov : den_field true S rt fd v = ROk ov -> den_field false S rf fd v = ROk ov.
    Proof.
      unfold den_field. destruct (fd_label fd) as [|p|kk].
      - destruct (den_single true S rt (fd_type fd) v) as [pv| |] eqn:E; cbn [res_bind]; try discriminate.
        rewrite (single_sl _ _ _ E). auto.
      - destruct v; auto.
        destruct (den_elems true S rt (fd_type fd) xs) as [vs| |] eqn:E; cbn [res_bind]; try discriminate.
        rewrite (elems_sl _ _ _ E). cbn [res_bind andb]. destruct vs; [discriminate|].
        destruct (type_numeric (fd_type fd) && negb (plen (flat_map packed_elem (p0 :: vs)) <? 2 ^ 31)); [discriminate|auto].
      - destruct v; auto.
        destruct (den_entries true S rt kk (fd_type fd) ms) as [kvs| |] eqn:E; cbn [res_bind]; try discriminate.
        rewrite (entries_sl _ _ _ _ E). cbn [res_bind andb]. destruct kvs; [discriminate|].
        match goal with |- (if negb ?c then _ else _) = _ -> _ => destruct c end; cbn [negb]; [auto|discriminate].
    Qed.

    Lemma members_sl md ms fs : den_members true d S rt md ms = ROk fs -> den_members false d S rf md ms = ROk fs.
    Proof.
      revert fs. induction ms as [|[k v] r IH]; intros fs; cbn [den_members]; [auto|].
      destruct (find_field_name md k) as [fd|]; [|destruct d; auto].
      destruct (json_is_null v); [discriminate|]. cbn [andb].
      destruct (negb ((1 <=? fd_num fd) && (fd_num fd <=? MAX_FIELD_NUMBER))); [discriminate|].
      destruct (den_field true S rt fd v) as [ov| |] eqn:E; cbn [res_bind]; try discriminate.
      rewrite (field_sl _ _ _ E). cbn [res_bind].
      destruct (den_members true d S rt md r) as [fs'| |]; cbn [res_bind]; try discriminate.
      rewrite (IH _ eq_refl). auto.
    Qed.
  End Level.

  Lemma denote_members_sl f : forall md ms fs,
    denote_members true d S f md ms = ROk fs -> denote_members false d S f md ms = ROk fs.
  Proof.
    induction f as [|f IH]; intros md ms fs; cbn [denote_members]; [discriminate|].
    apply members_sl. exact IH.
  Qed.

  Theorem strict_in_domain root j m : denote_top true d S root j = ROk m -> pdenote d S root j = ROk m.
  Proof.
    unfold pdenote, denote_top. destruct (find_msg S root) as [md|]; [|auto]. destruct j; auto.
    destruct (denote_members true d S (json_depth (JObj ms)) md ms) as [fs| |] eqn:E; cbn [res_bind]; try discriminate.
    rewrite (denote_members_sl _ _ _ _ E). auto.
  Qed.
End StrictLax.

(* ------------------------------------------------------------------ consequences at the specification level *)
(* the specified output is accepted by the proved decoder and decodes to exactly the denoted message *)
Theorem j2p_output_decodes d S root j m fuel :
  pdenote d S root j = ROk m -> (depth (VMsg m) <= fuel)%nat ->
  j2p_spec d S root j = ROk (encode_msg m) /\ decode_msg S fuel root (encode_msg m) = Some m.
Proof.
  intros Hp Hf. split.
  - unfold j2p_spec. rewrite Hp. reflexivity.
  - unfold pdenote, denote_top in Hp. destruct (find_msg S root); [|discriminate]. destruct j; try discriminate.
    destruct (denote_members false d S (json_depth (JObj ms)) m0 ms) as [fs| |]; cbn [res_bind] in Hp; try discriminate.
    destruct (wf_msg S root fs) eqn:Hw; [|discriminate]. inversion Hp; subst m.
    apply decode_encode_msg; assumption.
Qed.

(* refinement + domain inclusion + decoding, in one statement *)
Theorem sax_refines_spec_decodes d S root ms m junk fuel :
  (9 <= length junk)%nat ->
  denote_top true d S root (JObj ms) = ROk m ->
  (json_depth (JObj ms) <= 128)%nat -> (depth (VMsg m) <= fuel)%nat ->
  exists b, sax_run d S root junk (events (JObj ms)) = OOk b /\
            j2p_spec d S root (JObj ms) = ROk b /\ decode_msg S fuel root b = Some m.
Proof.
  intros Hj Hd Hdep Hf. exists (encode_msg m).
  pose proof (strict_in_domain d S root (JObj ms) m Hd) as Hp.
  destruct (j2p_output_decodes d S root (JObj ms) m fuel Hp Hf) as [H1 H2].
  split; [exact (sax_refines_spec d S root ms m junk Hj Hd Hdep)|]. split; assumption.
Qed.

(* kind mismatch: a value whose JSON kind contradicts the field makes the denotation an error, wherever it occurs
   first in document order *)
Definition json_kind (v : json) : Z :=
  match v with JNull => 0 | JBool _ => 1 | JNum _ => 2 | JStr _ => 3 | JArr _ => 4 | JObj _ => 5 end.
(* the JSON kind a field of that label / type is written with *)
Definition expected_kind (fd : fdesc) : Z :=
  match fd_label fd with
  | LRepeated _ => 4
  | LMap _ => 5
  | LSingular =>
    match fd_type fd with
    | TMsg _ => 5
    | TScalar k => if k =? 8 then 1 else if (k =? 9) || (k =? 12) then 3 else 2
    end
  end.
Definition known_kind (k : Z) : bool := is_int_kind k || (k =? 1) || (k =? 2) || (k =? 8) || (k =? 9) || (k =? 12).

Lemma known_kind_cases k : known_kind k = true -> In k [3;4;5;6;7;13;15;16;17;18;1;2;8;9;12].
Proof.
  unfold known_kind, is_int_kind. rewrite !orb_true_iff, !Z.eqb_eq. cbn [In]. intuition.
Qed.

Lemma denote_scalar_mismatch strict k v :
  known_kind k = true -> json_kind v <> 0 ->
  json_kind v <> (if k =? 8 then 1 else if (k =? 9) || (k =? 12) then 3 else 2) ->
  denote_scalar strict k v = RErr.
Proof.
  intros Hk H0 Hne. apply known_kind_cases in Hk. cbn [In] in Hk.
  repeat (destruct Hk as [Hk|Hk]; [subst k; destruct v; cbn in *; solve [reflexivity | congruence]|]).
  contradiction.
Qed.

Theorem j2p_rejects_kind_mismatch strict d S rec md k v r fd :
  find_field_name md k = Some fd ->
  (strict = false \/ num_ok (fd_num fd)) ->
  json_kind v <> 0 -> json_kind v <> expected_kind fd ->
  (match fd_label fd, fd_type fd with LSingular, TScalar kd => known_kind kd = true | _, _ => True end) ->
  den_members strict d S rec md ((k, v) :: r) = RErr.
Proof.
  intros Hf Hn H0 Hne Hk. cbn [den_members]. rewrite Hf.
  assert (Hnull : json_is_null v = false) by (destruct v; cbn in *; congruence). rewrite Hnull.
  assert (Hnum : (strict && negb ((1 <=? fd_num fd) && (fd_num fd <=? MAX_FIELD_NUMBER))) = false).
  { destruct Hn as [Hs|Hs]; [subst; reflexivity|]. unfold num_ok in Hs. rewrite Hs. apply andb_false_r. }
  rewrite Hnum.
  assert (Hfld : den_field strict S rec fd v = RErr).
  { unfold den_field, expected_kind in *. destruct (fd_label fd).
    - unfold den_single. destruct (fd_type fd) as [kd|name].
      + rewrite denote_scalar_mismatch; auto.
      + destruct v; cbn in *; congruence.
    - destruct v; cbn in *; congruence.
    - destruct v; cbn in *; congruence. }
  rewrite Hfld. reflexivity.
Qed.

(* unknown members: skipped iff allowed, an error iff disallowed *)
Theorem j2p_unknown_member strict S rec md k v r :
  find_field_name md k = None ->
  den_members strict false S rec md ((k, v) :: r) = den_members strict false S rec md r /\
  den_members strict true S rec md ((k, v) :: r) = RErr.
Proof. intro Hf. cbn [den_members]. rewrite Hf. split; reflexivity. Qed.

(* the machine does the same: the unknown member's value (any JSON) is consumed without effect, or the run fails *)
Theorem sax_unknown_member S junk md k v stk glob buf top :
  obj_frame S top md -> find_field_name md k = None ->
  J2P.run false S junk (member_events (k, v)) (mk_st (top :: stk) glob false O buf) = MOk (mk_st (top :: stk) glob false O buf) /\
  J2P.run true S junk (member_events (k, v)) (mk_st (top :: stk) glob false O buf) = MErr.
Proof.
  intros Hof Hf. unfold member_events. cbn [fst snd]. split.
  - rewrite run_cons, (on_key_obj false S junk top md k stk glob buf Hof). unfold lookup_member. rewrite Hf.
    unfold set_inskip. cbn [m_stk m_glob m_buf m_inskip m_skipd]. apply skip_value.
  - rewrite run_cons, (on_key_obj true S junk top md k stk glob buf Hof). unfold lookup_member. rewrite Hf. reflexivity.
Qed.

(* ------------------------------------------------------------------ the strict leaf test is no hidden hypothesis for integers:
   for every integer kind, every plain integer lexeme in the range of the kind that sonic delivers through OnInt64
   (|z| < 2^63) passes it — the Go conversions int32(v), uint32(v), uint64(v) are the identity there, zig-zag and fixed
   widths are chosen by the kind on both sides *)
Lemma int_kind_cases k : is_int_kind k = true -> In k [3;4;5;6;7;13;15;16;17;18].
Proof. unfold is_int_kind. rewrite !orb_true_iff, !Z.eqb_eq. cbn [In]. intuition. Qed.

Lemma to_s32_id z : in_sb 32 z = true -> to_s 32 z = z.
Proof.
  unfold in_sb, to_s. rewrite andb_true_iff, Z.leb_le, Z.ltb_lt. intros [H1 H2].
  change (2 ^ (32 - 1)) with 2147483648 in *. change (2 ^ 32) with 4294967296.
  rewrite Z.mod_small by lia. lia.
Qed.

Lemma goconv_id k z : is_int_kind k = true -> scalar_okb k z = true -> goconv k z = z.
Proof.
  intros Hk Ho. apply int_kind_cases in Hk. cbn [In] in Hk.
  repeat (destruct Hk as [Hk|Hk]; [subst k; cbn in Ho; unfold goconv; cbn [Z.eqb Pos.eqb orb];
    try reflexivity;
    try (apply to_s32_id; exact Ho);
    try (unfold in_ub in Ho; apply andb_true_iff in Ho; destruct Ho as [H1 H2]; apply Z.leb_le in H1; apply Z.ltb_lt in H2;
         apply Z.mod_small; split; assumption)|]).
  contradiction.
Qed.

Theorem int_leaf_agrees k lex z :
  is_int_kind k = true -> lex_is_plain_int lex = true -> parse_int lex = Some z ->
  scalar_okb k z = true -> in_sb 64 z = true ->
  leaf_agrees true k (EvNum lex) (LScalar z) = true.
Proof.
  intros Hk Hp Hz Ho H64. unfold leaf_agrees. cbn [negb orb scalar_payload is_str_ev].
  unfold num_class. rewrite Hp, Hz, H64, Hk. rewrite (goconv_id k z Hk Ho).
  cbn [leaf_bytes leaf_wt]. rewrite bytes_eqb_refl. cbn [andb Bool.eqb].
  apply int_kind_cases in Hk. cbn [In] in Hk.
  repeat (destruct Hk as [Hk|Hk]; [subst k; reflexivity|]). contradiction.
Qed.
