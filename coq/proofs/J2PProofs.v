(* C09 — proofs about model/J2P.v: the SAX machine as coded (conv/j2p/decode.go) refines the denotation. *)
From Coq Require Import ZArith List Bool Arith Lia.
From DG Require Import CaseFormat ProtoWireRef ProtoWireRefProofs ProtoSpecLen ProtoSpecLenProofs ProtoMsg ProtoMsgProofs
  Json JsonProofs Num Base64 J2P.
Import ListNotations.
Local Open Scope Z_scope.

(* ------------------------------------------------------------------ running event lists *)
Section Run.
  Variable disallow : bool.
  Variable S : schema.
  Variable junk : list Z.
  Notation run := (run disallow S junk).
  Notation step := (step disallow S junk).

  Lemma run_app a b st :
    run (a ++ b) st = match run a st with MOk st' => run b st' | x => x end.
  Proof.
    revert st. induction a as [|e a IH]; intros st; cbn [app J2P.run]; [reflexivity|].
    destruct (step e st); try reflexivity. apply IH.
  Qed.

  Lemma run_one e st : run [e] st = step e st.
  Proof. cbn [J2P.run]. destruct (step e st); reflexivity. Qed.

  Lemma run_cons e r st : run (e :: r) st = match step e st with MOk st' => run r st' | x => x end.
  Proof. reflexivity. Qed.

  (* ---------------------------------------------------------------- skipping (unknown members) *)
  (* inside a container that sonic skips no callback changes the state *)
  Lemma skip_inner v : forall st d, m_skipd st = Datatypes.S d -> run (events v) st = MOk st.
  Proof.
    induction v as [| b | l | s | xs IH | ms IH] using json_ind'; intros st d Hd;
      try (cbn [events J2P.run]; unfold J2P.step; rewrite Hd; reflexivity).
    - (* array *)
      cbn [events]. rewrite run_cons. unfold J2P.step at 1. rewrite Hd.
      set (st1 := set_skipd st (Datatypes.S (Datatypes.S d))).
      rewrite run_app.
      assert (Hin : run (flat_map events xs) st1 = MOk st1).
      { clear - IH. assert (H1 : m_skipd st1 = Datatypes.S (Datatypes.S d)) by reflexivity.
        revert H1. generalize st1. induction IH as [|x xs Hx _ IHxs]; intros s1 H1; [reflexivity|].
        cbn [flat_map]. rewrite run_app, (Hx s1 _ H1). apply IHxs, H1. }
      rewrite Hin. cbn [J2P.run]. unfold J2P.step. cbn [m_skipd st1 set_skipd].
      destruct st; cbn in *. subst. reflexivity.
    - (* object *)
      cbn [events]. rewrite run_cons. unfold J2P.step at 1. rewrite Hd.
      set (st1 := set_skipd st (Datatypes.S (Datatypes.S d))).
      rewrite run_app.
      assert (Hin : run (flat_map (fun m => EvKey (fst m) :: events (snd m)) ms) st1 = MOk st1).
      { clear - IH. assert (H1 : m_skipd st1 = Datatypes.S (Datatypes.S d)) by reflexivity.
        revert H1. generalize st1. induction IH as [|x xs Hx _ IHxs]; intros s1 H1; [reflexivity|].
        cbn [flat_map]. rewrite run_app. rewrite run_cons. unfold J2P.step at 1. rewrite H1.
        rewrite (Hx s1 _ H1). apply IHxs, H1. }
      rewrite Hin. cbn [J2P.run]. unfold J2P.step. cbn [m_skipd st1 set_skipd].
      destruct st; cbn in *. subst. reflexivity.
  Qed.

  (* the value of an unknown member is consumed without any effect but clearing inskip *)
  Lemma skip_value v stk glob buf :
    run (events v) (mk_st stk glob true O buf) = MOk (mk_st stk glob false O buf).
  Proof.
    destruct v as [| b | l | s | xs | ms]; try reflexivity.
    - cbn [events]. rewrite run_cons. cbn. rewrite run_app.
      assert (Hin : forall s1, m_skipd s1 = 1%nat -> run (flat_map events xs) s1 = MOk s1).
      { induction xs as [|x xs IHxs]; intros s1 H1; [reflexivity|].
        cbn [flat_map]. rewrite run_app, (skip_inner x s1 _ H1). apply IHxs, H1. }
      rewrite Hin by reflexivity. reflexivity.
    - cbn [events]. rewrite run_cons. cbn. rewrite run_app.
      assert (Hin : forall s1, m_skipd s1 = 1%nat -> run (flat_map (fun m => EvKey (fst m) :: events (snd m)) ms) s1 = MOk s1).
      { induction ms as [|x xs IHxs]; intros s1 H1; [reflexivity|].
        cbn [flat_map]. rewrite run_app, run_cons. unfold J2P.step at 1. rewrite H1.
        rewrite (skip_inner (snd x) s1 _ H1). apply IHxs, H1. }
      rewrite Hin by reflexivity. reflexivity.
  Qed.
End Run.

(* ------------------------------------------------------------------ small facts *)
Lemma lt31 {A} (l : list A) : (plen l <? 2 ^ 31) = true -> (length l < 2 ^ 31)%nat.
Proof.
  intro H. apply Z.ltb_lt in H. unfold plen in H. apply Nat2Z.inj_lt. rewrite Nat2Z.inj_pow. exact H.
Qed.

Lemma plen_not_m1 {A} (l : list A) : (plen l =? -1) = false.
Proof. apply Z.eqb_neq. unfold plen. lia. Qed.

Lemma finish_ok junk pre x payload :
  (9 <= length junk)%nat -> (plen payload <? 2 ^ 31) = true ->
  finish junk (pre ++ [x] ++ payload) (plen pre) = Some (pre ++ varint_enc (plen payload) ++ payload).
Proof.
  intros Hj Hp. unfold finish.
  assert (H0 : (plen pre <? 0) = false) by (apply Z.ltb_ge; unfold plen; lia).
  rewrite H0. unfold plen at 1. rewrite Nat2Z.id.
  rewrite finish_spec_correct by (try apply lt31; assumption). reflexivity.
Qed.

Lemma wenc_single n w : wenc [(n, w)] = varint_enc (n * 8 + wt_of_wval w) ++ wenc_val w.
Proof. unfold wenc. cbn [flat_map]. unfold wenc_field. cbn [fst snd]. rewrite app_nil_r. reflexivity. Qed.

Lemma wenc_leaf n k l : wenc (wfld n (leaf_pval k l)) = varint_enc (n * 8 + leaf_wt k l) ++ leaf_bytes k l.
Proof. destruct l; cbn [leaf_pval wfld leaf_wt leaf_bytes]; rewrite wenc_single; reflexivity. Qed.

Lemma wenc_flat {A} (f : A -> list wfield) l : wenc (flat_map f l) = flat_map (fun x => wenc (f x)) l.
Proof. induction l as [|x l IH]; [reflexivity|]. cbn [flat_map]. rewrite wenc_app, IH. reflexivity. Qed.

Lemma ev_of_events v e : ev_of v = Some e -> events v = [e] /\ (match e with EvNum _ | EvStr _ | EvBool _ => True | _ => False end).
Proof. destruct v; cbn; intro H; inversion H; subst; split; auto. Qed.

(* what a strict scalar denotation gives: one scalar callback whose payload is the wire form of the value *)
Lemma denote_scalar_inv k v pv :
  denote_scalar true k v = ROk pv ->
  exists e l, events v = [e] /\ (match e with EvNum _ | EvStr _ | EvBool _ => True | _ => False end) /\
    pv = leaf_pval k l /\ scalar_payload k e = SBytes (leaf_bytes k l) /\ leaf_wt k l = kwire k /\
    is_str_ev e = (match l with LBytes _ => true | LScalar _ => false end) /\
    is_numeric k = (match l with LBytes _ => false | LScalar _ => true end).
Proof.
  unfold denote_scalar. destruct (ev_of v) as [e|] eqn:He.
  2:{ destruct v; discriminate. }
  destruct (ev_of_events _ _ He) as [Hev Hsc].
  destruct (denote_leaf k v) as [l| |]; cbn [res_bind]; try discriminate.
  destruct (leaf_agrees true k e l) eqn:Ha; [|discriminate].
  intro H; inversion H; subst pv. exists e, l.
  unfold leaf_agrees in Ha. cbn [negb orb] in Ha.
  apply andb_true_iff in Ha. destruct Ha as [Ha H4].
  apply andb_true_iff in Ha. destruct Ha as [Ha H3]. apply andb_true_iff in Ha. destruct Ha as [H1 H2].
  destruct (scalar_payload k e) as [b| |]; try discriminate.
  apply bytes_eqb_eq in H1. subst b. apply Z.eqb_eq in H2. apply Bool.eqb_prop in H3. apply Bool.eqb_prop in H4.
  repeat split; auto.
Qed.


(* the outcome demanded of a run by a three-valued denotation *)
Definition result {A} (r : res A) (got : mres) (post : A -> mres) : Prop :=
  match r with ROk x => got = post x | RErr => got = MErr | RUndef => True end.

Lemma leaf_err_payload k v e : denote_leaf k v = RErr -> ev_of v = Some e -> scalar_payload k e = SErr.
Proof.
  intros Hd He. destruct v; cbn in He; inversion He; subst e; clear He;
    unfold denote_leaf, is_int_kind in Hd; unfold scalar_payload, is_int_kind;
    repeat match goal with
           | H : context [?a =? ?b] |- _ => destruct (Z.eqb_spec a b); [subst; cbn in *; try discriminate; try reflexivity|]
           | |- context [?a =? ?b] => destruct (Z.eqb_spec a b); [subst; cbn in *; try discriminate; try reflexivity|]
           end; cbn in *; try discriminate; try reflexivity.
  all: repeat match goal with H : context [match ?x with _ => _ end] |- _ => destruct x; try discriminate end.
Qed.

Lemma msg_kind_payload e : (match e with EvNum _ | EvStr _ | EvBool _ => True | _ => False end) -> scalar_payload K_MESSAGE e = SErr.
Proof. destruct e; try contradiction; reflexivity. Qed.

(* ------------------------------------------------------------------ the refinement *)
Section Refine.
  Variable disallow : bool.
  Variable S : schema.
  Variable junk : list Z.
  Hypothesis Hjunk : (9 <= length junk)%nat.
  Notation run := (J2P.run disallow S junk).

  Definition num_ok (n : Z) : Prop := ((1 <=? n) && (n <=? MAX_FIELD_NUMBER)) = true.

  Lemma append_tag_ok buf n wt : num_ok n -> append_tag buf n wt = Some (buf ++ varint_enc (n * 8 + wt)).
  Proof.
    unfold num_ok, append_tag. intro H. apply andb_true_iff in H. destruct H as [H1 H2].
    apply Z.leb_le in H1, H2.
    assert (E1 : (n <? 1) = false) by (apply Z.ltb_ge; lia).
    assert (E2 : (n >? MAX_FIELD_NUMBER) = false) by (rewrite Z.gtb_ltb; apply Z.ltb_ge; lia).
    rewrite E1, E2. reflexivity.
  Qed.

  Lemma step_scalar e st : m_skipd st = O ->
    (match e with EvNum _ | EvStr _ | EvBool _ => True | _ => False end) ->
    step disallow S junk e st = on_scalar junk e st.
  Proof. intros Hs He. unfold step. rewrite Hs. destruct e; try contradiction; reflexivity. Qed.

  (* where a value sits: the value of a member / map pair (globalFieldDesc = its field) or an element of an array (the
     frame on top carries the repeated field) *)
  Inductive vctx (g : gdesc) (top : frame) (glob : option gdesc) : Prop :=
  | CtxMember : glob = Some g -> g_islist g = Some false -> g_ismap g = Some false -> vctx g top glob
  | CtxElem : glob = None -> fr_typ top = T_ARR -> fr_fd top = Some g -> g_islist g = Some true -> g_ismap g = Some false -> vctx g top glob.

  (* what happens when a value is complete: a map pair is closed (length finished, pair frame popped), otherwise nothing *)
  Definition close (top : frame) (stk : list frame) (b : list Z) : mres :=
    if fr_typ top =? T_MAP
    then match finish junk b (fr_pos top) with None => MPanic | Some b' => MOk (mk_st stk None false O b') end
    else MOk (mk_st (top :: stk) None false O b).

  Lemma ove_some g top stk b : on_value_end junk (mk_st (top :: stk) (Some g) false O b) = close top stk b.
  Proof.
    unfold on_value_end, close. cbn [m_stk m_glob m_buf]. destruct (fr_typ top =? T_MAP); [|reflexivity].
    destruct (finish junk b (fr_pos top)); reflexivity.
  Qed.

  Lemma ove_obj fr top stk b : fr_typ fr = T_OBJ ->
    on_value_end junk (mk_st (fr :: top :: stk) None false O b) = close top stk b.
  Proof.
    intro H. unfold on_value_end, close. cbn [m_stk m_glob m_buf]. rewrite H. cbn [Z.eqb T_OBJ Pos.eqb].
    destruct (fr_typ top =? T_MAP); [|reflexivity]. destruct (finish junk b (fr_pos top)); reflexivity.
  Qed.

  Lemma close_elem top stk b : fr_typ top = T_ARR -> close top stk b = MOk (mk_st (top :: stk) None false O b).
  Proof. intro H. unfold close. rewrite H. reflexivity. Qed.

  Lemma vctx_not_zero g top glob : vctx g top glob -> g <> GZero.
  Proof. intros [? H _|_ _ _ H _] E; subst g; discriminate. Qed.

  Definition packed_of (g : gdesc) : bool := match g_ispacked g with Some b => b | None => false end.
  Definition tag_of (g : gdesc) (e : ev) : list Z :=
    if is_str_ev e || negb (packed_of g) then varint_enc (g_num g * 8 + kwire (g_kind g)) else [].

  (* OnBool / OnString / OnInt64 / OnFloat64 on a consistent state *)
  Lemma on_scalar_eval e g top stk glob buf :
    vctx g top glob -> num_ok (g_num g) ->
    on_scalar junk e (mk_st (top :: stk) glob false O buf)
    = match scalar_payload (g_kind g) e with
      | SErr => MErr
      | SUnmod => MUnmod
      | SBytes p => close top stk (buf ++ tag_of g e ++ p)
      end.
  Proof.
    intros Hc Hn. pose proof (vctx_not_zero _ _ _ Hc) as Hz.
    unfold on_scalar. cbn [m_inskip m_glob m_stk m_buf top_of hd].
    destruct Hc as [Hg Hl Hm | Hg Ht Hf Hl Hm]; subst glob.
    - unfold check_scalar_field. cbn [m_glob]. destruct g; [congruence| |]; rewrite Hl, Hm; cbn [orb negb];
        unfold tag_of, packed_of.
      all: match goal with |- context [is_str_ev ?x || negb ?b] => destruct (is_str_ev x || negb b) end;
        try rewrite (append_tag_ok _ _ _ Hn); cbn [set_buf m_buf m_stk m_glob m_inskip m_skipd];
        match goal with |- context [scalar_payload ?k ?x] => destruct (scalar_payload k x) end; try reflexivity;
        unfold set_buf; cbn [m_buf m_stk m_glob m_inskip m_skipd]; rewrite ove_some, <- ?app_assoc; reflexivity.
    - assert (Hfd : (if is_str_ev e
                     then match fr_fd top with Some t => match g_islist t with Some true => Some t | _ => None end | None => None end
                     else if fr_typ top =? T_ARR then fr_fd top else None) = Some g).
      { rewrite Hf, Hl, Ht. destruct (is_str_ev e); reflexivity. }
      rewrite Hfd. unfold check_scalar_field. cbn [m_glob]. destruct g; [congruence| |]; cbn [negb];
        unfold tag_of, packed_of.
      all: match goal with |- context [is_str_ev ?x || negb ?b] => destruct (is_str_ev x || negb b) end;
        try rewrite (append_tag_ok _ _ _ Hn); cbn [set_buf m_buf m_stk m_glob m_inskip m_skipd];
        match goal with |- context [scalar_payload ?k ?x] => destruct (scalar_payload k x) end; try reflexivity;
        unfold set_buf; cbn [m_buf m_stk m_glob m_inskip m_skipd]; rewrite (close_elem _ _ _ Ht), <- ?app_assoc; reflexivity.
  Qed.

  (* an array where no repeated field is expected *)
  Lemma arr_rejected g top stk glob buf xs :
    vctx g top glob -> run (events (JArr xs)) (mk_st (top :: stk) glob false O buf) = MErr.
  Proof.
    intros Hc. cbn [events]. rewrite run_cons. unfold step. cbn [m_skipd]. unfold on_arr_begin. cbn [m_inskip m_glob].
    destruct Hc as [Hg Hl Hm | Hg Ht Hf Hl Hm]; subst glob; [rewrite Hl|]; reflexivity.
  Qed.

  (* an object where a scalar is expected *)
  Lemma obj_rejected g top stk glob buf ms :
    vctx g top glob -> (g_kind g =? K_MESSAGE) = false ->
    run (events (JObj ms)) (mk_st (top :: stk) glob false O buf) = MErr.
  Proof.
    intros Hc Hk. cbn [events]. rewrite run_cons. unfold step. cbn [m_skipd]. unfold on_obj_begin.
    cbn [m_inskip m_glob top_of m_stk hd].
    destruct Hc as [Hg Hl Hm | Hg Ht Hf Hl Hm]; subst glob; [|rewrite Ht, Hf; cbn [Z.eqb T_ARR Pos.eqb]];
      rewrite Hm, Hl, Hk; reflexivity.
  Qed.

  Definition g_type (g : gdesc) : option ftype :=
    match g with GZero => None | GField fd | GMapVal fd => Some (fd_type fd) end.

  Lemma g_kind_type g t : g_type g = Some t -> g_ismap g = Some false -> g_kind g = kind_of_type t.
  Proof.
    destruct g as [|fd|fd]; cbn; intros Ht Hm; inversion Ht; subst; try reflexivity.
    destruct (fd_label fd); try reflexivity; discriminate.
  Qed.

  Lemma g_message_type g t : g_type g = Some t ->
    g_message S g = Some (match t with TMsg name => find_msg S name | TScalar _ => None end).
  Proof. destruct g; cbn; intro Ht; inversion Ht; reflexivity. Qed.

  (* the top frame is the frame of a message object of type md *)
  Definition obj_frame (top : frame) (md : mdesc) : Prop :=
    fr_typ top = T_OBJ /\
    (fr_root top = Some md \/ (fr_root top = None /\ exists g, fr_fd top = Some g /\ g_message S g = Some (Some md))).

  Definition vbytes (pk : bool) (n : Z) (v : pval) : list Z := if pk then packed_elem v else wenc (wfld n v).

  Definition members_spec (rec : mdesc -> list (list Z * json) -> res pmsg) (recn : mdesc -> list (list Z * json) -> nat) : Prop :=
    forall md ms top stk buf,
      obj_frame top md -> (length (top :: stk) + recn md ms <= STK_DEPTH)%nat ->
      result (rec md ms) (run (flat_map member_events ms) (mk_st (top :: stk) None false O buf))
             (fun fs => MOk (mk_st (top :: stk) None false O (buf ++ encode_msg fs))).

  Lemma push_ok st fr : (length (m_stk st) < STK_DEPTH)%nat -> push st fr = MOk (set_stk st (fr :: m_stk st)).
  Proof. intro H. unfold push. apply Nat.leb_gt in H. rewrite H. reflexivity. Qed.

  Lemma num_ok_1 : num_ok 1.  Proof. reflexivity. Qed.
  Lemma num_ok_2 : num_ok 2.  Proof. reflexivity. Qed.

  Section Level.
    Variable rec : mdesc -> list (list Z * json) -> res pmsg.
    Variable recn : mdesc -> list (list Z * json) -> nat.
    Hypothesis Hrec : members_spec rec recn.

    (* one value of type t in a consistent context: the specified bytes and the close of the context, or an error *)
    Lemma single_ok g t x top stk glob buf :
      vctx g top glob -> g_type g = Some t -> num_ok (g_num g) ->
      (packed_of g = true -> type_numeric t = true) ->
      (length (top :: stk) + need_single S recn t x <= STK_DEPTH)%nat ->
      result (den_single true S rec t x) (run (events x) (mk_st (top :: stk) glob false O buf))
             (fun v => close top stk (buf ++ vbytes (packed_of g) (g_num g) v)).
    Proof.
      intros Hc Ht Hn Hpk Hdep.
      assert (Hm : g_ismap g = Some false) by (destruct Hc; assumption).
      pose proof (g_kind_type g t Ht Hm) as Hkind.
      destruct t as [k|name]; unfold den_single; cbn [andb kind_of_type] in *.
      - (* scalar type *)
        destruct (k =? K_MESSAGE) eqn:Hk11; [exact I|].
        unfold denote_scalar. destruct (ev_of x) as [e|] eqn:He.
        + destruct (ev_of_events _ _ He) as [Hev Hsc]. rewrite Hev, run_one.
          rewrite step_scalar by (auto; reflexivity). rewrite (on_scalar_eval e g top stk glob buf Hc Hn), Hkind.
          destruct (denote_leaf k x) as [l| |] eqn:Hl; cbn [res_bind].
          * destruct (leaf_agrees true k e l) eqn:Ha; [|exact I]. cbn [result].
            unfold leaf_agrees in Ha. cbn [negb orb] in Ha.
            apply andb_true_iff in Ha. destruct Ha as [Ha H4].
            apply andb_true_iff in Ha. destruct Ha as [Ha H3]. apply andb_true_iff in Ha. destruct Ha as [H1 H2].
            destruct (scalar_payload k e) as [b| |]; try discriminate.
            apply bytes_eqb_eq in H1. subst b. apply Z.eqb_eq in H2. apply Bool.eqb_prop in H3. apply Bool.eqb_prop in H4.
            f_equal. f_equal. unfold tag_of, vbytes. rewrite Hkind.
            destruct (packed_of g) eqn:Hp.
            -- specialize (Hpk eq_refl). cbn [type_numeric] in Hpk. rewrite Hpk in H4. destruct l; [|discriminate].
               rewrite H3. cbn [orb negb leaf_pval packed_elem leaf_bytes app]. reflexivity.
            -- rewrite orb_true_r. rewrite wenc_leaf, H2. reflexivity.
          * cbn [result]. rewrite (leaf_err_payload _ _ _ Hl He). reflexivity.
          * exact I.
        + destruct x; try discriminate He.
          * exact I.
          * cbn [result]. apply (arr_rejected g top stk glob buf xs Hc).
          * cbn [result]. apply (obj_rejected g top stk glob buf ms Hc). rewrite Hkind. exact Hk11.
      - (* message type *)
        assert (Hk : g_kind g = K_MESSAGE) by exact Hkind.
        assert (Hscal : forall e, (match e with EvNum _ | EvStr _ | EvBool _ => True | _ => False end) ->
                  run [e] (mk_st (top :: stk) glob false O buf) = MErr).
        { intros e He. rewrite run_one, step_scalar by (auto; reflexivity).
          rewrite (on_scalar_eval e g top stk glob buf Hc Hn), Hk, (msg_kind_payload e He). reflexivity. }
        destruct x as [| b | l | s0 | xs | ms].
        + exact I.
        + cbn [result events]. apply Hscal. exact I.
        + cbn [result events]. apply Hscal. exact I.
        + cbn [result events]. apply Hscal. exact I.
        + cbn [result]. apply (arr_rejected g top stk glob buf xs Hc).
        + destruct (find_msg S name) as [md'|] eqn:Hfm; [|exact I].
          cbn [need_single] in Hdep. rewrite Hfm in Hdep.
          set (tag := varint_enc (g_num g * 8 + 2)).
          set (fr := mk_frame T_OBJ None (Some g) (plen (buf ++ tag))).
          cbn [events]. rewrite run_cons.
          assert (Hstep : step disallow S junk EvObjBegin (mk_st (top :: stk) glob false O buf)
                    = MOk (mk_st (fr :: top :: stk) None false O ((buf ++ tag) ++ [0]))).
          { unfold step. cbn [m_skipd]. unfold on_obj_begin. cbn [m_inskip m_glob m_stk m_buf top_of hd].
            assert (Hfd : match glob with Some g0 => Some g0 | None => if fr_typ top =? T_ARR then fr_fd top else None end = Some g)
              by (destruct Hc as [Hg _ _|Hg Ha Hf _ _]; subst glob; [reflexivity | rewrite Ha, Hf; reflexivity]).
            rewrite Hfd, Hm.
            assert (Hl : exists b, g_islist g = Some b /\ (match glob with Some _ => b | None => false end) = false)
              by (destruct Hc as [Hg Hl _|Hg _ _ Hl _]; subst glob; [exists false | exists true]; auto).
            destruct Hl as (bl & Hl & Hg2). rewrite Hl, Hk, Hg2. cbn [Z.eqb K_MESSAGE Pos.eqb negb orb].
            rewrite (append_tag_ok _ _ _ Hn). rewrite push_ok by (cbn [set_buf m_stk]; unfold STK_DEPTH in *; lia).
            reflexivity. }
          rewrite Hstep. clear Hstep. rewrite run_app.
          change (flat_map (fun m : list Z * json => EvKey (fst m) :: events (snd m)) ms) with (flat_map member_events ms).
          assert (Hof : obj_frame fr md').
          { split; [reflexivity|]. right. split; [reflexivity|]. exists g. split; [reflexivity|].
            rewrite (g_message_type g _ Ht), Hfm. reflexivity. }
          assert (Hd2 : (length (fr :: top :: stk) + recn md' ms <= STK_DEPTH)%nat) by (cbn [length] in *; lia).
          pose proof (Hrec md' ms fr (top :: stk) ((buf ++ tag) ++ [0]) Hof Hd2) as Hmem.
          destruct (rec md' ms) as [fs| |]; cbn [res_bind result] in *.
          * destruct (plen (encode_msg fs) <? 2 ^ 31) eqn:Hsz; cbn [andb negb]; [|exact I]. cbn [result].
            rewrite Hmem, run_one. unfold step. cbn [m_skipd]. unfold on_obj_end.
            cbn [m_inskip top_of m_stk hd]. unfold fr at 1. cbn [fr_pos]. rewrite plen_not_m1.
            cbn [m_buf]. unfold fr at 1. cbn [fr_pos].
            rewrite <- (app_assoc (buf ++ tag) [0] (encode_msg fs)).
            rewrite (finish_ok junk (buf ++ tag) 0 (encode_msg fs) Hjunk Hsz).
            unfold set_buf. cbn [m_stk m_glob m_buf m_inskip m_skipd]. rewrite (ove_obj fr top stk _ eq_refl).
            f_equal. unfold vbytes.
            assert (Hp : packed_of g = false).
            { destruct (packed_of g) eqn:Hp; [|reflexivity]. specialize (Hpk eq_refl). discriminate. }
            rewrite Hp. cbn [wfld]. rewrite wenc_single. cbn [wt_of_wval wenc_val]. unfold encode_msg, msg_wire, tag.
            rewrite <- !app_assoc. reflexivity.
          * rewrite Hmem. reflexivity.
          * exact I.
    Qed.

    (* the elements of an array value of a repeated field *)
    Lemma elems_ok g t top stk :
      fr_typ top = T_ARR -> fr_fd top = Some g -> g_islist g = Some true -> g_ismap g = Some false ->
      g_type g = Some t -> num_ok (g_num g) -> (packed_of g = true -> type_numeric t = true) ->
      forall xs buf,
        (length (top :: stk) + fold_right (fun x m => Nat.max (need_single S recn t x) m) O xs <= STK_DEPTH)%nat ->
        result (den_elems true S rec t xs) (run (flat_map events xs) (mk_st (top :: stk) None false O buf))
               (fun vs => MOk (mk_st (top :: stk) None false O (buf ++ flat_map (vbytes (packed_of g) (g_num g)) vs))).
    Proof.
      intros Hta Htf Hl Hm Ht Hn Hpk.
      assert (Hc : vctx g top None) by (apply CtxElem; auto).
      induction xs as [|x xs IH]; intros buf Hdep.
      - cbn. rewrite app_nil_r. reflexivity.
      - cbn [den_elems flat_map fold_right] in *. rewrite run_app.
        assert (Hd1 : (length (top :: stk) + need_single S recn t x <= STK_DEPTH)%nat) by lia.
        pose proof (single_ok g t x top stk None buf Hc Ht Hn Hpk Hd1) as Hx.
        destruct (den_single true S rec t x) as [v| |]; cbn [res_bind result] in *; [|rewrite Hx; reflexivity|exact I].
        rewrite Hx, (close_elem _ _ _ Hta).
        assert (Hd2 : (length (top :: stk) + fold_right (fun x m => Nat.max (need_single S recn t x) m) O xs <= STK_DEPTH)%nat) by lia.
        specialize (IH (buf ++ vbytes (packed_of g) (g_num g) v) Hd2).
        destruct (den_elems true S rec t xs) as [vs| |]; cbn [res_bind result] in *; [|exact IH|exact I].
        rewrite IH. cbn [flat_map]. rewrite <- app_assoc. reflexivity.
    Qed.

    (* a scalar where an array / object is expected (repeated or map field) *)
    Lemma scalar_rejected g e top stk buf :
      g <> GZero -> (g_islist g = Some true \/ g_ismap g = Some true) ->
      on_scalar junk e (mk_st (top :: stk) (Some g) false O buf) = MErr.
    Proof.
      intros Hz Hlm. unfold on_scalar. cbn [m_inskip m_glob]. unfold check_scalar_field. cbn [m_glob].
      destruct g; [congruence| |]; destruct Hlm as [H|H]; rewrite H; cbn [orb negb]; try reflexivity;
        destruct (g_islist _) as [[|]|]; reflexivity.
    Qed.

    Lemma events_scalar x e : ev_of x = Some e -> events x = [e] /\ (match e with EvNum _ | EvStr _ | EvBool _ => True | _ => False end).
    Proof. apply ev_of_events. Qed.

    Lemma wenc_flat_map_unpacked n vs : flat_map (vbytes false n) vs = wenc (flat_map (fun x => wfld n x) vs).
    Proof. induction vs as [|v vs IH]; [reflexivity|]. cbn [flat_map]. rewrite wenc_app, IH. reflexivity. Qed.

    (* a member name that is no literal of the key kind: encodeMapKey fails *)
    Lemma denote_key_err kk s : denote_key true kk s = RErr -> encode_map_key [] s kk = None.
    Proof.
      unfold denote_key. destruct (denote_key0 kk s) as [k0| |] eqn:H0; cbn [res_bind].
      - destruct (key_agrees true kk s k0); discriminate.
      - intros _. unfold denote_key0, not_canonical, key_literal_accepted in H0. unfold encode_map_key.
        destruct (kk =? 9) eqn:E9; [destruct (utf8_valid s && jbytes_okb s); discriminate|].
        destruct (kk =? 8) eqn:E8.
        { apply Z.eqb_eq in E8. subst kk. cbn [Z.eqb Pos.eqb] in *.
          destruct (bytes_eqb s lit_true); [discriminate|]. destruct (bytes_eqb s lit_false); [discriminate|].
          destruct (go_parse_bool s); [discriminate|reflexivity]. }
        destruct (kk =? 5) eqn:E5.
        { apply Z.eqb_eq in E5. subst kk. cbn [Z.eqb Pos.eqb orb] in *.
          destruct (go_parse_int s 32); [|reflexivity].
          destruct (parse_int s); [destruct (bytes_eqb _ s && _)|]; discriminate. }
        destruct (kk =? 13) eqn:E13.
        { apply Z.eqb_eq in E13. subst kk. cbn [Z.eqb Pos.eqb orb] in *.
          destruct (go_parse_uint s 32); [|reflexivity].
          destruct (parse_int s); [destruct (bytes_eqb _ s && _)|]; discriminate. }
        destruct (kk =? 4) eqn:E4.
        { apply Z.eqb_eq in E4. subst kk. cbn [Z.eqb Pos.eqb orb] in *.
          destruct (go_parse_uint s 64); [|reflexivity].
          destruct (parse_int s); [destruct (bytes_eqb _ s && _)|]; discriminate. }
        destruct (kk =? 3) eqn:E3; [|reflexivity].
        apply Z.eqb_eq in E3. subst kk. cbn [Z.eqb Pos.eqb orb] in *.
        destruct (go_parse_int s 64); [|reflexivity].
        destruct (parse_int s); [destruct (bytes_eqb _ s && _)|]; discriminate.
      - discriminate.
    Qed.

    Lemma encode_map_key_app buf s kk :
      encode_map_key buf s kk = match encode_map_key [] s kk with Some b => Some (buf ++ b) | None => None end.
    Proof.
      unfold encode_map_key. cbn [app].
      repeat match goal with
             | |- context [if ?c then _ else _] => destruct c; try reflexivity
             | |- context [match ?c with Some _ => _ | None => _ end] => destruct c; try reflexivity
             end.
    Qed.

    Lemma denote_key_inv kk s key : denote_key true kk s = ROk key ->
      encode_map_key [] s kk = Some (wenc_val (snd (key_field key))) /\ wt_of_wval (snd (key_field key)) = kwire kk.
    Proof.
      unfold denote_key. destruct (denote_key0 kk s) as [k0| |]; cbn [res_bind]; try discriminate.
      destruct (key_agrees true kk s k0) eqn:Ha; [|discriminate]. intro H; inversion H; subst k0.
      unfold key_agrees in Ha. cbn [negb orb] in Ha. apply andb_true_iff in Ha. destruct Ha as [H1 H2].
      destruct (encode_map_key [] s kk) as [b|]; [|discriminate].
      apply bytes_eqb_eq in H1. subst b. apply Z.eqb_eq in H2. auto.
    Qed.

    Lemma key_field_enc key : wenc_field (key_field key) = varint_enc (1 * 8 + wt_of_wval (snd (key_field key))) ++ wenc_val (snd (key_field key)).
    Proof. unfold wenc_field. rewrite key_field_fst. reflexivity. Qed.

    (* the entries of an object value of a map field: per pair tag, speculative length, key field, value, pair closed *)
    Lemma entries_ok fd kk stk :
      fd_label fd = LMap kk -> num_ok (fd_num fd) ->
      let mapfr := mk_frame T_MAP None (Some (GField fd)) (-1) in
      forall ms buf,
        Forall (fun m => (length (mapfr :: stk) + 1 + need_single S recn (fd_type fd) (snd m) <= STK_DEPTH)%nat) ms ->
        result (den_entries true S rec kk (fd_type fd) ms)
               (run (flat_map member_events ms) (mk_st (mapfr :: stk) None false O buf))
               (fun kvs => MOk (mk_st (mapfr :: stk) None false O (buf ++ wenc (wfld (fd_num fd) (VMap kvs))))).
    Proof.
      intros Hl Hn mapfr. subst mapfr. induction ms as [|[ks x] r IH]; intros buf Hdep.
      - cbn. rewrite app_nil_r. reflexivity.
      - cbn [den_entries]. inversion Hdep as [|? ? Hdx Hdr]; subst. cbn [snd] in Hdx.
        change (flat_map member_events ((ks, x) :: r)) with ((EvKey ks :: events x) ++ flat_map member_events r).
        destruct (denote_key true kk ks) as [key| |] eqn:Hk; cbn [res_bind]; [| |exact I].
        2:{ (* the member name is no literal of the key kind: OnObjectKey fails in encodeMapKey *)
            cbn [result]. rewrite run_app, run_cons.
            assert (Hkey : step disallow S junk (EvKey ks) (mk_st (mk_frame T_MAP None (Some (GField fd)) (-1) :: stk) None false O buf) = MErr).
            { unfold step. cbn [m_skipd]. unfold on_key. cbn [top_of m_stk hd fr_root fr_typ fr_fd].
              cbn [Z.eqb T_OBJ T_MAP Pos.eqb]. rewrite Hl. cbn [m_buf]. rewrite (append_tag_ok _ _ _ Hn).
              rewrite (append_tag_ok _ _ _ num_ok_1). rewrite encode_map_key_app, (denote_key_err _ _ Hk). reflexivity. }
            rewrite Hkey. reflexivity. }
        destruct (denote_key_inv _ _ _ Hk) as [Hkb Hkw].
        set (mapfr := mk_frame T_MAP None (Some (GField fd)) (-1)) in *.
        set (tag := varint_enc (fd_num fd * 8 + 2)).
        set (pre := buf ++ tag).
        set (hdr := wenc_field (key_field key)).
        set (pair := mk_frame T_MAP None (Some (GField fd)) (plen pre)).
        rewrite run_app, run_cons.
        assert (Hkey : step disallow S junk (EvKey ks) (mk_st (mapfr :: stk) None false O buf)
                       = MOk (mk_st (pair :: mapfr :: stk) (Some (GMapVal fd)) false O ((pre ++ [0]) ++ hdr))).
        { unfold step. cbn [m_skipd]. unfold on_key. cbn [top_of m_stk hd]. unfold mapfr. cbn [fr_root fr_typ fr_fd].
          cbn [Z.eqb T_OBJ T_MAP Pos.eqb]. rewrite Hl. cbn [m_buf]. rewrite (append_tag_ok _ _ _ Hn).
          fold tag. fold pre. rewrite (append_tag_ok _ _ _ num_ok_1).
          rewrite encode_map_key_app, Hkb.
          rewrite push_ok by (cbn [set_buf m_stk length] in *; unfold STK_DEPTH in *; lia).
          unfold set_stk, set_glob, set_buf. cbn [m_stk m_buf m_glob m_inskip m_skipd].
          unfold hdr. rewrite key_field_enc, Hkw. rewrite <- !app_assoc. reflexivity. }
        rewrite Hkey. clear Hkey.
        assert (Hc : vctx (GMapVal fd) pair (Some (GMapVal fd))) by (apply CtxMember; reflexivity).
        assert (Hpk : packed_of (GMapVal fd) = true -> type_numeric (fd_type fd) = true) by (cbn; discriminate).
        assert (Hd1 : (length (pair :: mapfr :: stk) + need_single S recn (fd_type fd) x <= STK_DEPTH)%nat)
          by (cbn [length] in *; lia).
        pose proof (single_ok (GMapVal fd) (fd_type fd) x pair (mapfr :: stk) _ ((pre ++ [0]) ++ hdr) Hc eq_refl num_ok_2 Hpk Hd1) as Hx.
        destruct (den_single true S rec (fd_type fd) x) as [v| |]; cbn [res_bind result] in *; [|rewrite Hx; reflexivity|exact I].
        destruct (plen (wenc (key_field key :: wfld 2 v)) <? 2 ^ 31) eqn:Hsz; cbn [andb negb]; [|exact I].
        rewrite Hx. unfold close. unfold pair at 1. cbn [fr_typ Z.eqb T_MAP Pos.eqb]. unfold pair at 1. cbn [fr_pos packed_of g_ispacked vbytes g_num].
        rewrite <- (app_assoc (pre ++ [0])), <- (app_assoc pre [0]).
        assert (HE : hdr ++ wenc (wfld 2 v) = wenc (key_field key :: wfld 2 v)) by (rewrite wenc_cons; reflexivity).
        rewrite HE, (finish_ok junk pre 0 _ Hjunk Hsz).
        specialize (IH (pre ++ varint_enc (plen (wenc (key_field key :: wfld 2 v))) ++ wenc (key_field key :: wfld 2 v)) Hdr).
        destruct (den_entries true S rec kk (fd_type fd) r) as [kvs| |]; cbn [res_bind result] in *; [|exact IH|exact I].
        rewrite IH. f_equal. f_equal. cbn [wfld map fst snd]. rewrite (wenc_cons _ (map _ kvs)).
        unfold wenc_field at 1. cbn [fst snd wt_of_wval wenc_val]. unfold pre, tag. rewrite <- !app_assoc. reflexivity.
    Qed.

    Lemma Forall_max {A} (f : A -> nat) (l : list A) (P : nat) (L : nat) :
      (L + fold_right (fun x m => Nat.max (f x) m) O l <= P)%nat -> Forall (fun x => (L + f x <= P)%nat) l.
    Proof.
      intro H. apply Forall_forall. intros x Hin.
      pose proof (fold_max_ge f l x Hin) as Hm. lia.
    Qed.

    (* the value of a known, non-null member of a message object *)
    Lemma field_ok fd v top stk buf :
      num_ok (fd_num fd) -> json_is_null v = false -> fr_typ top = T_OBJ ->
      (length (top :: stk) + need_field S recn fd v <= STK_DEPTH)%nat ->
      result (den_field true S rec fd v) (run (events v) (mk_st (top :: stk) (Some (GField fd)) false O buf))
             (fun ov => MOk (mk_st (top :: stk) None false O (buf ++ match ov with Some pv => wenc (wfld (fd_num fd) pv) | None => [] end))).
    Proof.
      intros Hn Hnull Hto Hdep.
      assert (Hcl : forall b, close top stk b = MOk (mk_st (top :: stk) None false O b)) by (intro b; unfold close; rewrite Hto; reflexivity).
      unfold den_field, need_field in *. destruct (fd_label fd) as [|p|kk] eqn:Hl.
      - (* singular *)
        assert (Hc : vctx (GField fd) top (Some (GField fd))) by (apply CtxMember; cbn; rewrite ?Hl; reflexivity).
        assert (Hpk : packed_of (GField fd) = true -> type_numeric (fd_type fd) = true) by (cbn; rewrite Hl; discriminate).
        pose proof (single_ok (GField fd) (fd_type fd) v top stk _ buf Hc eq_refl Hn Hpk Hdep) as Hx.
        destruct (den_single true S rec (fd_type fd) v) as [pv| |]; cbn [res_bind result] in *; [|exact Hx|exact I].
        rewrite Hx, Hcl. unfold vbytes, packed_of. cbn [g_ispacked g_num]. rewrite Hl. reflexivity.
      - (* repeated *)
        assert (Hil : g_islist (GField fd) = Some true) by (cbn; rewrite Hl; reflexivity).
        assert (Him : g_ismap (GField fd) = Some false) by (cbn; rewrite Hl; reflexivity).
        assert (Hz : GField fd <> GZero) by discriminate.
        destruct v as [| b | l | s0 | xs | ms]; try discriminate Hnull.
        1-3: cbn [result events]; rewrite run_one, step_scalar by (auto; reflexivity);
             apply scalar_rejected; auto.
        + (* array *)
          cbn zeta. rewrite <- andb_assoc.
          destruct (type_numeric (fd_type fd) && negb p) eqn:Hg; cbn [andb]; [exact I|].
          assert (Hflag : type_numeric (fd_type fd) = p && type_numeric (fd_type fd))
            by (destruct (type_numeric (fd_type fd)), p; cbn in *; congruence).
          set (pk := p && type_numeric (fd_type fd)) in *. rewrite Hflag.
          assert (Hpo : packed_of (GField fd) = pk) by (unfold packed_of; cbn [g_ispacked]; rewrite Hl; reflexivity).
          assert (Hpk : packed_of (GField fd) = true -> type_numeric (fd_type fd) = true)
            by (rewrite Hpo; unfold pk; intro H; apply andb_true_iff in H; tauto).
          cbn [events]. rewrite run_cons. unfold step at 1. cbn [m_skipd]. unfold on_arr_begin.
          cbn [m_inskip m_glob]. rewrite Hil. cbn [g_ispacked]. rewrite Hl. fold pk.
          destruct pk eqn:Hpkv.
          * (* packed *)
            cbn [m_buf g_num]. rewrite (append_tag_ok _ _ _ Hn).
            rewrite push_ok by (cbn [set_buf m_stk]; unfold STK_DEPTH in *; lia).
            unfold set_stk, set_buf, set_glob. cbn [m_stk m_buf m_glob m_inskip m_skipd].
            set (tag := varint_enc (fd_num fd * 8 + 2)).
            set (fr := mk_frame T_ARR None (Some (GField fd)) (plen (buf ++ tag))).
            rewrite run_app.
            assert (Hd2 : (length (fr :: top :: stk) + fold_right (fun x m => Nat.max (need_single S recn (fd_type fd) x) m) O xs <= STK_DEPTH)%nat)
              by (cbn [length] in *; lia).
            pose proof (elems_ok (GField fd) (fd_type fd) fr (top :: stk) eq_refl eq_refl Hil Him eq_refl Hn Hpk xs ((buf ++ tag) ++ [0]) Hd2) as He.
            destruct (den_elems true S rec (fd_type fd) xs) as [vs| |]; cbn [res_bind result] in *; [|rewrite He; reflexivity|exact I].
            destruct vs as [|v0 vs0]; [exact I|].
            destruct (plen (flat_map packed_elem (v0 :: vs0)) <? 2 ^ 31) eqn:Hsz; cbn [andb negb]; [|exact I]. cbn [result].
            rewrite He, run_one. unfold step. cbn [m_skipd]. unfold on_arr_end. cbn [m_inskip top_of m_stk hd].
            unfold fr at 1. cbn [fr_pos]. rewrite plen_not_m1. unfold fr at 1. cbn [fr_fd g_ispacked]. rewrite Hl. fold pk. rewrite Hpkv.
            cbn [m_buf]. unfold fr at 1. cbn [fr_pos]. rewrite Hpo. unfold vbytes.
            rewrite <- (app_assoc (buf ++ tag) [0]).
            change (flat_map (fun v : pval => packed_elem v) (v0 :: vs0)) with (flat_map packed_elem (v0 :: vs0)).
            rewrite (finish_ok junk (buf ++ tag) 0 _ Hjunk Hsz).
            unfold on_value_end. cbn [set_buf m_stk m_glob m_buf m_inskip m_skipd].
            unfold fr at 1. cbn [fr_typ]. cbn [Z.eqb T_OBJ T_ARR Pos.eqb orb].
            unfold set_stk. cbn [m_stk m_glob m_buf m_inskip m_skipd].
            cbn [wfld]. rewrite wenc_single. cbn [wt_of_wval wenc_val]. unfold tag. rewrite <- !app_assoc. reflexivity.
          * (* one record per element *)
            rewrite push_ok by (cbn [m_stk]; unfold STK_DEPTH in *; lia).
            unfold set_stk, set_glob. cbn [m_stk m_buf m_glob m_inskip m_skipd].
            set (fr := mk_frame T_ARR None (Some (GField fd)) (-1)).
            rewrite run_app.
            assert (Hd2 : (length (fr :: top :: stk) + fold_right (fun x m => Nat.max (need_single S recn (fd_type fd) x) m) O xs <= STK_DEPTH)%nat)
              by (cbn [length] in *; lia).
            pose proof (elems_ok (GField fd) (fd_type fd) fr (top :: stk) eq_refl eq_refl Hil Him eq_refl Hn Hpk xs buf Hd2) as He.
            destruct (den_elems true S rec (fd_type fd) xs) as [vs| |]; cbn [res_bind result] in *; [|rewrite He; reflexivity|exact I].
            assert (Hend : run [EvArrEnd] (mk_st (fr :: top :: stk) None false O (buf ++ flat_map (vbytes (packed_of (GField fd)) (g_num (GField fd))) vs))
                           = MOk (mk_st (top :: stk) None false O (buf ++ wenc (flat_map (fun x => wfld (fd_num fd) x) vs)))).
            { rewrite run_one. unfold step. cbn [m_skipd]. unfold on_arr_end. cbn [m_inskip top_of m_stk hd].
              unfold fr at 1. cbn [fr_pos Z.eqb Pos.eqb]. unfold on_value_end. cbn [m_stk m_glob].
              unfold fr at 1. cbn [fr_typ]. cbn [Z.eqb T_OBJ T_ARR Pos.eqb orb].
              unfold set_stk. cbn [m_stk m_glob m_buf m_inskip m_skipd].
              rewrite Hpo. cbn [g_num]. rewrite wenc_flat_map_unpacked. reflexivity. }
            destruct vs as [|v0 vs0]; cbn [andb result].
            -- rewrite He, Hend. reflexivity.
            -- rewrite He, Hend. reflexivity.
        + (* object for a repeated field *)
          cbn [result events]. rewrite run_cons. unfold step. cbn [m_skipd]. unfold on_obj_begin. cbn [m_inskip m_glob].
          rewrite Him, Hil. rewrite orb_true_r. reflexivity.
      - (* map *)
        assert (Hil : g_islist (GField fd) = Some false) by (cbn; rewrite Hl; reflexivity).
        assert (Him : g_ismap (GField fd) = Some true) by (cbn; rewrite Hl; reflexivity).
        assert (Hz : GField fd <> GZero) by discriminate.
        destruct v as [| b | l | s0 | xs | ms]; try discriminate Hnull.
        1-3: cbn [result events]; rewrite run_one, step_scalar by (auto; reflexivity);
             apply scalar_rejected; auto.
        + cbn [result events]. rewrite run_cons. unfold step. cbn [m_skipd]. unfold on_arr_begin. cbn [m_inskip m_glob].
          rewrite Hil. reflexivity.
        + (* object *)
          assert (Hk : g_kind (GField fd) = K_MESSAGE) by (cbn; rewrite Hl; reflexivity).
          cbn [events]. rewrite run_cons. unfold step at 1. cbn [m_skipd]. unfold on_obj_begin.
          cbn [m_inskip m_glob]. rewrite Him, Hil, Hk. cbn [Z.eqb K_MESSAGE Pos.eqb negb orb].
          assert (Hlen : (length (top :: stk) < STK_DEPTH)%nat) by (destruct ms; unfold STK_DEPTH in *; lia).
          rewrite push_ok by exact Hlen.
          unfold set_stk, set_glob. cbn [m_stk m_buf m_glob m_inskip m_skipd].
          rewrite run_app.
          change (flat_map (fun m : list Z * json => EvKey (fst m) :: events (snd m)) ms) with (flat_map member_events ms).
          set (mapfr := mk_frame T_MAP None (Some (GField fd)) (-1)).
          assert (Hdc : Forall (fun m => (length (mapfr :: top :: stk) + 1 + need_single S recn (fd_type fd) (snd m) <= STK_DEPTH)%nat) ms).
          { destruct ms as [|m0 ms0]; [constructor|].
            assert (Hd' : (Datatypes.S (Datatypes.S (length (top :: stk))) + fold_right (fun x m => Nat.max (need_single S recn (fd_type fd) (snd x)) m) O (m0 :: ms0) <= STK_DEPTH)%nat) by lia.
            pose proof (Forall_max (fun m : list Z * json => need_single S recn (fd_type fd) (snd m)) (m0 :: ms0) STK_DEPTH _ Hd') as Hf.
            eapply Forall_impl; [|exact Hf]. cbn beta. intros a Ha. cbn [length] in *. lia. }
          pose proof (entries_ok fd kk (top :: stk) Hl Hn ms buf Hdc) as He. cbn zeta in He. fold mapfr in He.
          destruct (den_entries true S rec kk (fd_type fd) ms) as [kvs| |]; cbn [res_bind result] in *; [|rewrite He; reflexivity|exact I].
          assert (Hend : run [EvObjEnd] (mk_st (mapfr :: top :: stk) None false O (buf ++ wenc (wfld (fd_num fd) (VMap kvs))))
                         = MOk (mk_st (top :: stk) None false O (buf ++ wenc (wfld (fd_num fd) (VMap kvs))))).
          { rewrite run_one. unfold step. cbn [m_skipd]. unfold on_obj_end. cbn [m_inskip top_of m_stk hd].
            unfold mapfr at 1. cbn [fr_pos Z.eqb Pos.eqb]. unfold on_value_end. cbn [m_stk m_glob].
            unfold mapfr at 1. cbn [fr_typ Z.eqb T_OBJ T_ARR T_MAP Pos.eqb orb]. reflexivity. }
          destruct kvs as [|kv0 kvs0]; cbn [result]; rewrite He, Hend; [|reflexivity].
          cbn [wfld map]. unfold wenc. cbn [flat_map]. reflexivity.
    Qed.

    Lemma on_key_obj top md key stk glob buf :
      obj_frame top md ->
      step disallow S junk (EvKey key) (mk_st (top :: stk) glob false O buf)
      = lookup_member disallow md key (mk_st (top :: stk) glob false O buf).
    Proof.
      intros [Ht Hr]. unfold step. cbn [m_skipd]. unfold on_key. cbn [top_of m_stk hd].
      destruct Hr as [Hr | (Hr & g & Hg & Hm)]; rewrite Hr; [reflexivity|].
      rewrite Ht. cbn [Z.eqb T_OBJ Pos.eqb]. rewrite Hg, Hm. reflexivity.
    Qed.

    Lemma encode_msg_cons n pv fs : encode_msg ((n, pv) :: fs) = wenc (wfld n pv) ++ encode_msg fs.
    Proof. unfold encode_msg, msg_wire. cbn [flat_map fst snd]. apply wenc_app. Qed.

    (* one nesting level of the denotation is refined (success and error), given the next smaller level *)
    Lemma members_level : members_spec (den_members true disallow S rec) (need_members S recn).
    Proof.
      unfold members_spec. intros md ms. induction ms as [|[k v] r IH]; intros top stk buf Hof Hdep.
      - cbn. rewrite app_nil_r. reflexivity.
      - cbn [den_members need_members fold_right fst snd] in *.
        change (flat_map member_events ((k, v) :: r)) with ((EvKey k :: events v) ++ flat_map member_events r).
        rewrite <- app_comm_cons, run_cons.
        rewrite (on_key_obj top md k stk None buf Hof). unfold lookup_member.
        assert (Hto : fr_typ top = T_OBJ) by (destruct Hof; assumption).
        destruct (find_field_name md k) as [fd|] eqn:Hf.
        + unfold set_glob. cbn [m_stk m_glob m_buf m_inskip m_skipd].
          assert (Hdr : (length (top :: stk) + need_members S recn md r <= STK_DEPTH)%nat) by (unfold need_members; lia).
          destruct (json_is_null v) eqn:Hnull.
          * (* null member: absent *)
            destruct v; try discriminate Hnull. cbn [events app]. rewrite run_cons. unfold step at 1. cbn [m_skipd].
            unfold on_null. cbn [m_inskip m_glob]. rewrite ove_some. unfold close. rewrite Hto. cbn [Z.eqb T_OBJ T_MAP Pos.eqb].
            apply (IH top stk buf Hof Hdr).
          * destruct ((1 <=? fd_num fd) && (fd_num fd <=? MAX_FIELD_NUMBER)) eqn:Hn; cbn [andb negb]; [|exact I].
            rewrite run_app.
            assert (Hdv : (length (top :: stk) + need_field S recn fd v <= STK_DEPTH)%nat) by lia.
            pose proof (field_ok fd v top stk buf Hn Hnull Hto Hdv) as Hfv.
            destruct (den_field true S rec fd v) as [ov| |]; cbn [res_bind result] in *; [|rewrite Hfv; reflexivity|exact I].
            rewrite Hfv.
            specialize (IH top stk (buf ++ match ov with Some pv => wenc (wfld (fd_num fd) pv) | None => [] end) Hof Hdr).
            destruct (den_members true disallow S rec md r) as [fs'| |]; cbn [res_bind result] in *; [|exact IH|exact I].
            rewrite IH. f_equal. f_equal. rewrite <- app_assoc. f_equal.
            destruct ov; [rewrite encode_msg_cons|]; reflexivity.
        + assert (Hdr : (length (top :: stk) + need_members S recn md r <= STK_DEPTH)%nat) by (unfold need_members; lia).
          destruct disallow eqn:Hdis; [reflexivity|].
          unfold set_inskip. cbn [m_stk m_glob m_buf m_inskip m_skipd]. rewrite run_app.
          rewrite skip_value. apply (IH top stk buf Hof Hdr).
    Qed.
  End Level.

  Lemma members_all f : members_spec (denote_members true disallow S f) (need S f).
  Proof.
    induction f as [|f IH].
    - unfold members_spec. intros. exact I.
    - exact (members_level (denote_members true disallow S f) (need S f) IH).
  Qed.

  (* the whole document *)
  Lemma sax_run_result root md ms :
    find_msg S root = Some md ->
    (Datatypes.S (need S (json_depth (JObj ms)) md ms) <= STK_DEPTH)%nat ->
    match denote_members true disallow S (json_depth (JObj ms)) md ms with
    | ROk fs => sax_run disallow S root junk (events (JObj ms)) = OOk (encode_msg fs)
    | RErr => sax_run disallow S root junk (events (JObj ms)) = OErr
    | RUndef => True
    end.
  Proof.
    intros Hf Hdep. unfold sax_run. rewrite Hf. cbn [events]. rewrite run_cons.
    assert (Hbeg : step disallow S junk EvObjBegin (init_state md) = MOk (init_state md)) by reflexivity.
    rewrite Hbeg. unfold init_state. rewrite run_app.
    change (flat_map (fun m : list Z * json => EvKey (fst m) :: events (snd m)) ms) with (flat_map member_events ms).
    set (top := mk_frame T_OBJ (Some md) None (-1)).
    assert (Hof : obj_frame top md) by (split; [reflexivity | left; reflexivity]).
    assert (Hd : (length (top :: []) + need S (json_depth (JObj ms)) md ms <= STK_DEPTH)%nat) by (cbn [length]; lia).
    pose proof (members_all _ md ms top [] [] Hof Hd) as Hm.
    destruct (denote_members true disallow S (json_depth (JObj ms)) md ms) as [fs| |]; cbn [result] in Hm; [| |exact I].
    - rewrite Hm, run_one. unfold step. cbn [m_skipd]. unfold on_obj_end. cbn [m_inskip top_of m_stk hd].
      unfold top at 1. cbn [fr_pos Z.eqb Pos.eqb]. unfold on_value_end. cbn [m_stk m_glob length Nat.eqb m_buf app]. reflexivity.
    - rewrite Hm. reflexivity.
  Qed.

  (* a document that is not an object *)
  Lemma sax_run_nonobj root md j :
    find_msg S root = Some md -> (match j with JObj _ => False | _ => True end) ->
    sax_run disallow S root junk (events j) = OErr.
  Proof.
    intros Hf Hj. unfold sax_run. rewrite Hf. destruct j; try contradiction; reflexivity.
  Qed.
End Refine.

(* REFINEMENT.  For every document of the strict domain that needs at most the 256 frames of the visitor's stack the
   SAX machine (conv/j2p/decode.go as it stands) yields exactly the canonical encoding of the denoted message: every
   tag, packed run, map pair and length prefix at every depth, for every size, for every content of the spare capacity
   seen by FinishSpeculativeLength.  [frames_needed] is exact (one frame for the root, one per message / array, two
   per map level): the bound is the code's real limit, not an artefact of the proof. *)
Theorem sax_refines_spec disallow S root j m junk :
  (9 <= length junk)%nat ->
  denote_top true disallow S root j = ROk m ->
  (frames_needed S root j <= 256)%nat ->
  sax_run disallow S root junk (events j) = OOk (encode_msg m).
Proof.
  intros Hj Hd Hdep. unfold denote_top, frames_needed in *.
  destruct (find_msg S root) as [md|] eqn:Hf; [|discriminate]. destruct j; try discriminate.
  pose proof (sax_run_result disallow S junk Hj root md ms Hf Hdep) as H.
  destruct (denote_members true disallow S (json_depth (JObj ms)) md ms) as [fs| |]; cbn [res_bind] in Hd; try discriminate.
  destruct (wf_msg S root fs); [|discriminate]. inversion Hd; subst m. exact H.
Qed.

(* ERROR SIDE.  Where the strict denotation is an error — a member / element / map value whose JSON kind contradicts the
   field, an unknown member under DisallowUnknownField, a document that is not an object, at any depth, after any
   correct prefix — the machine fails too. *)
Theorem sax_error_sound disallow S root j junk :
  (9 <= length junk)%nat ->
  denote_top true disallow S root j = RErr ->
  (frames_needed S root j <= 256)%nat ->
  sax_run disallow S root junk (events j) = OErr.
Proof.
  intros Hj Hd Hdep. unfold denote_top, frames_needed in *.
  destruct (find_msg S root) as [md|] eqn:Hf; [|discriminate].
  destruct j; try (apply (sax_run_nonobj disallow S junk root md _ Hf); exact I).
  pose proof (sax_run_result disallow S junk Hj root md ms Hf Hdep) as H.
  destruct (denote_members true disallow S (json_depth (JObj ms)) md ms) as [fs| |]; cbn [res_bind] in Hd; try discriminate.
  - destruct (wf_msg S root fs); discriminate.
  - exact H.
Qed.

(* ------------------------------------------------------------------ strict vs. property domain: wherever the strict denotation
   is defined (ROk or RErr) the property's denotation is the same *)
Definition rr {A} (a b : res A) : Prop := a = RUndef \/ a = b.

Lemma rr_bind {A B} (a b : res A) (f g : A -> res B) :
  rr a b -> (forall x, rr (f x) (g x)) -> rr (res_bind a f) (res_bind b g).
Proof.
  intros [H|H] Hf; subst; [left; reflexivity|]. destruct b; cbn [res_bind]; [apply Hf | right; reflexivity | left; reflexivity].
Qed.
Lemma rr_refl {A} (a : res A) : rr a a.  Proof. right; reflexivity. Qed.
Lemma rr_undef {A} (b : res A) : rr RUndef b.  Proof. left; reflexivity. Qed.
Lemma rr_if {A} (c : bool) (x b : res A) : rr x b -> rr (if c then RUndef else x) b.
Proof. destruct c; [intros; apply rr_undef | auto]. Qed.

Section StrictLax.
  Variable d : bool.
  Variable S : schema.

  Lemma scalar_rr k v : rr (denote_scalar true k v) (denote_scalar false k v).
  Proof.
    unfold denote_scalar. destruct (ev_of v) as [e|]; [|apply rr_refl].
    apply rr_bind; [apply rr_refl|]. intro l. unfold leaf_agrees at 2. cbn [negb orb].
    destruct (leaf_agrees true k e l); [apply rr_refl | apply rr_undef].
  Qed.

  Lemma key_rr kk s : rr (denote_key true kk s) (denote_key false kk s).
  Proof.
    unfold denote_key. apply rr_bind; [apply rr_refl|]. intro key. unfold key_agrees at 2. cbn [negb orb].
    destruct (key_agrees true kk s key); [apply rr_refl | apply rr_undef].
  Qed.

  Section Level.
    Variables rt rf : mdesc -> list (list Z * json) -> res pmsg.
    Hypothesis Hr : forall md ms, rr (rt md ms) (rf md ms).

    Lemma single_rr t v : rr (den_single true S rt t v) (den_single false S rf t v).
    Proof.
      unfold den_single. destruct t as [k|name].
      - cbn [andb]. apply rr_if, scalar_rr.
      - destruct v; try apply rr_refl. destruct (find_msg S name) as [md|]; [|apply rr_refl].
        apply rr_bind; [apply Hr|]. intro fs. cbn [andb]. apply rr_if, rr_refl.
    Qed.

    Lemma elems_rr t xs : rr (den_elems true S rt t xs) (den_elems false S rf t xs).
    Proof.
      induction xs as [|x xs IH]; cbn [den_elems]; [apply rr_refl|].
      apply rr_bind; [apply single_rr|]. intro v. apply rr_bind; [exact IH|]. intro vs. apply rr_refl.
    Qed.

    Lemma entries_rr kk t ms : rr (den_entries true S rt kk t ms) (den_entries false S rf kk t ms).
    Proof.
      induction ms as [|[k x] ms IH]; cbn [den_entries]; [apply rr_refl|].
      apply rr_bind; [apply key_rr|]. intro key. apply rr_bind; [apply single_rr|]. intro v. cbn [andb].
      apply rr_if. apply rr_bind; [exact IH|]. intro kvs. apply rr_refl.
    Qed.

    Lemma field_rr fd v : rr (den_field true S rt fd v) (den_field false S rf fd v).
    Proof.
      unfold den_field. destruct (fd_label fd) as [|p|kk].
      - apply rr_bind; [apply single_rr|]. intro pv. apply rr_refl.
      - destruct v; try apply rr_refl. cbn zeta. cbn [andb]. apply rr_if.
        apply rr_bind; [apply elems_rr|]. intro vs. cbn [andb].
        destruct vs; [apply rr_if, rr_refl|]. cbn [andb]. apply rr_if, rr_refl.
      - destruct v; try apply rr_refl. apply rr_bind; [apply entries_rr|]. intro kvs. apply rr_refl.
    Qed.

    Lemma members_rr md ms : rr (den_members true d S rt md ms) (den_members false d S rf md ms).
    Proof.
      induction ms as [|[k v] r IH]; cbn [den_members]; [apply rr_refl|].
      destruct (find_field_name md k) as [fd|]; [|destruct d; [apply rr_refl | exact IH]].
      destruct (json_is_null v); [exact IH|]. cbn [andb]. apply rr_if.
      apply rr_bind; [apply field_rr|]. intro ov. apply rr_bind; [exact IH|]. intro fs. apply rr_refl.
    Qed.
  End Level.

  Lemma denote_members_rr f : forall md ms, rr (denote_members true d S f md ms) (denote_members false d S f md ms).
  Proof. induction f as [|f IH]; intros md ms; cbn [denote_members]; [apply rr_refl|]. apply members_rr. exact IH. Qed.

  Lemma denote_top_rr root j : rr (denote_top true d S root j) (pdenote d S root j).
  Proof.
    unfold pdenote, denote_top. destruct (find_msg S root) as [md|]; [|apply rr_refl]. destruct j; try apply rr_refl.
    apply rr_bind; [apply denote_members_rr|]. intro fs. apply rr_refl.
  Qed.

  Theorem strict_in_domain root j m : denote_top true d S root j = ROk m -> pdenote d S root j = ROk m.
  Proof. intro H. destruct (denote_top_rr root j) as [E|E]; congruence. Qed.
  Theorem strict_error_in_domain root j : denote_top true d S root j = RErr -> pdenote d S root j = RErr.
  Proof. intro H. destruct (denote_top_rr root j) as [E|E]; congruence. Qed.
End StrictLax.

(* ERROR <-> : on the strict domain (defined denotation, within the stack) the machine fails exactly when the
   property's denotation is an error, and succeeds — with the specified bytes — exactly when it is a message *)
Theorem sax_error_iff d S root j junk :
  (9 <= length junk)%nat -> denote_top true d S root j <> RUndef -> (frames_needed S root j <= 256)%nat ->
  (sax_run d S root junk (events j) = OErr <-> pdenote d S root j = RErr) /\
  (forall m, pdenote d S root j = ROk m -> sax_run d S root junk (events j) = OOk (encode_msg m)).
Proof.
  intros Hj Hdef Hdep. destruct (denote_top true d S root j) as [m| |] eqn:Hd; [| |congruence].
  - pose proof (strict_in_domain d S root j m Hd) as Hp. pose proof (sax_refines_spec d S root j m junk Hj Hd Hdep) as Hs.
    split; [split; intro H; congruence|]. intros m' Hm'. congruence.
  - pose proof (strict_error_in_domain d S root j Hd) as Hp. pose proof (sax_error_sound d S root j junk Hj Hd Hdep) as Hs.
    split; [split; auto|]. intros m' Hm'. congruence.
Qed.

(* the stack bound in terms of the JSON nesting depth alone: a level costs at most two frames *)
Section NeedDepth.
  Variable S : schema.
  Lemma fold_max_le {A} (f : A -> nat) (l : list A) (b : nat) : (forall x, In x l -> (f x <= b)%nat) ->
    (fold_right (fun x m => Nat.max (f x) m) O l <= b)%nat.
  Proof. induction l as [|x l IH]; intro H; cbn [fold_right]; [lia|]. pose proof (H x (or_introl eq_refl)). assert (forall y, In y l -> (f y <= b)%nat) by (intros; apply H; right; assumption). specialize (IH H1). lia. Qed.

  Lemma need_depth f : forall md ms, (need S f md ms <= 2 * fold_right (fun x m => Nat.max (json_depth (snd x)) m) O ms)%nat.
  Proof.
    induction f as [|f IH]; intros md ms; cbn [need]; [lia|].
    unfold need_members. apply fold_max_le. intros [k v] Hin. cbn [fst snd].
    pose proof (fold_max_ge (fun y : list Z * json => json_depth (snd y)) ms (k, v) Hin) as Hv. cbn [snd] in Hv.
    assert (Hs : forall t x, (need_single S (need S f) t x <= 2 * json_depth x)%nat).
    { intros t x. unfold need_single. destruct t; [lia|]. destruct x; try lia. destruct (find_msg S name); [|lia].
      specialize (IH m ms0). cbn [json_depth]. lia. }
    destruct (find_field_name md k) as [fd|]; [|lia]. unfold need_field.
    destruct (fd_label fd).
    - specialize (Hs (fd_type fd) v). lia.
    - destruct v; try lia. cbn [json_depth] in Hv.
      assert (H1 : (fold_right (fun x m => Nat.max (need_single S (need S f) (fd_type fd) x) m) O xs
                    <= 2 * fold_right (fun x m => Nat.max (json_depth x) m) O xs)%nat).
      { apply fold_max_le. intros x Hx. pose proof (fold_max_ge (fun y : json => json_depth y) xs x Hx). specialize (Hs (fd_type fd) x). lia. }
      lia.
    - destruct v; try lia. destruct ms0 as [|m0 ms0]; [cbn [json_depth] in Hv; lia|]. cbn [json_depth] in Hv.
      assert (H1 : (fold_right (fun x m => Nat.max (need_single S (need S f) (fd_type fd) (snd x)) m) O (m0 :: ms0)
                    <= 2 * fold_right (fun x m => Nat.max (json_depth (snd x)) m) O (m0 :: ms0))%nat).
      { apply fold_max_le. intros x Hx. pose proof (fold_max_ge (fun y : list Z * json => json_depth (snd y)) (m0 :: ms0) x Hx). specialize (Hs (fd_type fd) (snd x)). cbn beta in *. lia. }
      lia.
  Qed.

  Lemma frames_le_depth root j : (frames_needed S root j <= 2 * json_depth j)%nat.
  Proof.
    unfold frames_needed. destruct (find_msg S root); [|destruct j; cbn; lia]. destruct j; try (cbn; lia).
    pose proof (need_depth (json_depth (JObj ms)) m ms). cbn [json_depth] in *. lia.
  Qed.
End NeedDepth.

Corollary sax_refines_spec_depth disallow S root j m junk :
  (9 <= length junk)%nat -> denote_top true disallow S root j = ROk m -> (json_depth j <= 128)%nat ->
  sax_run disallow S root junk (events j) = OOk (encode_msg m).
Proof. intros Hj Hd Hdep. apply sax_refines_spec; auto. pose proof (frames_le_depth S root j). lia. Qed.

(* ------------------------------------------------------------------ consequences at the specification level *)
(* the specified output is accepted by the proved decoder and decodes to exactly the denoted message *)
Theorem j2p_output_decodes d S root j m fuel :
  pdenote d S root j = ROk m -> (depth (VMsg m) <= fuel)%nat ->
  j2p_spec d S root j = ROk (encode_msg m) /\ decode_msg S fuel root (encode_msg m) = Some m.
Proof.
  intros Hp Hf. split.
  - unfold j2p_spec. rewrite Hp. reflexivity.
  - unfold pdenote, denote_top in Hp. destruct (find_msg S root); [|discriminate]. destruct j; try discriminate.
    destruct (denote_members false d S (json_depth (JObj ms)) m0 ms) as [fs| |]; cbn [res_bind] in Hp; try discriminate.
    destruct (wf_msg S root fs) eqn:Hw; [|discriminate]. inversion Hp; subst m.
    apply decode_encode_msg; assumption.
Qed.

(* refinement + domain inclusion + decoding, in one statement *)
Theorem sax_refines_spec_decodes d S root j m junk fuel :
  (9 <= length junk)%nat ->
  denote_top true d S root j = ROk m ->
  (frames_needed S root j <= 256)%nat -> (depth (VMsg m) <= fuel)%nat ->
  exists b, sax_run d S root junk (events j) = OOk b /\
            j2p_spec d S root j = ROk b /\ decode_msg S fuel root b = Some m.
Proof.
  intros Hj Hd Hdep Hf. exists (encode_msg m).
  pose proof (strict_in_domain d S root j m Hd) as Hp.
  destruct (j2p_output_decodes d S root j m fuel Hp Hf) as [H1 H2].
  split; [exact (sax_refines_spec d S root j m junk Hj Hd Hdep)|]. split; assumption.
Qed.

(* kind mismatch: a value whose JSON kind contradicts the field makes the denotation an error, wherever it occurs
   first in document order *)
Definition json_kind (v : json) : Z :=
  match v with JNull => 0 | JBool _ => 1 | JNum _ => 2 | JStr _ => 3 | JArr _ => 4 | JObj _ => 5 end.
(* the JSON kind a field of that label / type is written with *)
Definition expected_kind (fd : fdesc) : Z :=
  match fd_label fd with
  | LRepeated _ => 4
  | LMap _ => 5
  | LSingular =>
    match fd_type fd with
    | TMsg _ => 5
    | TScalar k => if k =? 8 then 1 else if (k =? 9) || (k =? 12) then 3 else 2
    end
  end.
Definition known_kind (k : Z) : bool := is_int_kind k || (k =? 1) || (k =? 2) || (k =? 8) || (k =? 9) || (k =? 12).

Lemma known_kind_cases k : known_kind k = true -> In k [3;4;5;6;7;13;15;16;17;18;1;2;8;9;12].
Proof.
  unfold known_kind, is_int_kind. rewrite !orb_true_iff, !Z.eqb_eq. cbn [In]. intuition.
Qed.

Lemma denote_scalar_mismatch strict k v :
  known_kind k = true -> json_kind v <> 0 ->
  json_kind v <> (if k =? 8 then 1 else if (k =? 9) || (k =? 12) then 3 else 2) ->
  denote_scalar strict k v = RErr.
Proof.
  intros Hk H0 Hne. apply known_kind_cases in Hk. cbn [In] in Hk.
  repeat (destruct Hk as [Hk|Hk]; [subst k; destruct v; cbn in *; solve [reflexivity | congruence]|]).
  contradiction.
Qed.

Theorem j2p_rejects_kind_mismatch strict d S rec md k v r fd :
  find_field_name md k = Some fd ->
  (strict = false \/ num_ok (fd_num fd)) ->
  json_kind v <> 0 -> json_kind v <> expected_kind fd ->
  (match fd_label fd, fd_type fd with LSingular, TScalar kd => known_kind kd = true | _, _ => True end) ->
  den_members strict d S rec md ((k, v) :: r) = RErr.
Proof.
  intros Hf Hn H0 Hne Hk. cbn [den_members]. rewrite Hf.
  assert (Hnull : json_is_null v = false) by (destruct v; cbn in *; congruence). rewrite Hnull.
  assert (Hnum : (strict && negb ((1 <=? fd_num fd) && (fd_num fd <=? MAX_FIELD_NUMBER))) = false).
  { destruct Hn as [Hs|Hs]; [subst; reflexivity|]. unfold num_ok in Hs. rewrite Hs. apply andb_false_r. }
  rewrite Hnum.
  assert (Hfld : den_field strict S rec fd v = RErr).
  { unfold den_field, expected_kind in *. destruct (fd_label fd).
    - unfold den_single. destruct (fd_type fd) as [kd|name].
      + assert (H11 : (kd =? K_MESSAGE) = false)
          by (apply known_kind_cases in Hk; cbn [In] in Hk; repeat (destruct Hk as [Hk|Hk]; [subst kd; reflexivity|]); contradiction).
        rewrite H11, andb_false_r. rewrite denote_scalar_mismatch; auto.
      + destruct v; cbn in *; congruence.
    - destruct v; cbn in *; congruence.
    - destruct v; cbn in *; congruence. }
  rewrite Hfld. reflexivity.
Qed.

(* unknown members: skipped iff allowed, an error iff disallowed *)
Theorem j2p_unknown_member strict S rec md k v r :
  find_field_name md k = None ->
  den_members strict false S rec md ((k, v) :: r) = den_members strict false S rec md r /\
  den_members strict true S rec md ((k, v) :: r) = RErr.
Proof. intro Hf. cbn [den_members]. rewrite Hf. split; reflexivity. Qed.

(* the machine does the same: the unknown member's value (any JSON) is consumed without effect, or the run fails *)
Theorem sax_unknown_member S junk md k v stk glob buf top :
  obj_frame S top md -> find_field_name md k = None ->
  J2P.run false S junk (member_events (k, v)) (mk_st (top :: stk) glob false O buf) = MOk (mk_st (top :: stk) glob false O buf) /\
  J2P.run true S junk (member_events (k, v)) (mk_st (top :: stk) glob false O buf) = MErr.
Proof.
  intros Hof Hf. unfold member_events. cbn [fst snd]. split.
  - rewrite run_cons, (on_key_obj false S junk top md k stk glob buf Hof). unfold lookup_member. rewrite Hf.
    unfold set_inskip. cbn [m_stk m_glob m_buf m_inskip m_skipd]. apply skip_value.
  - rewrite run_cons, (on_key_obj true S junk top md k stk glob buf Hof). unfold lookup_member. rewrite Hf. reflexivity.
Qed.

(* ------------------------------------------------------------------ the strict leaf test is no hidden hypothesis for integers:
   for every integer kind, every plain integer lexeme in the range of the kind that sonic delivers through OnInt64
   (|z| < 2^63) passes it — the Go conversions int32(v), uint32(v), uint64(v) are the identity there, zig-zag and fixed
   widths are chosen by the kind on both sides *)
Lemma int_kind_cases k : is_int_kind k = true -> In k [3;4;5;6;7;13;15;16;17;18].
Proof. unfold is_int_kind. rewrite !orb_true_iff, !Z.eqb_eq. cbn [In]. intuition. Qed.

Lemma to_s32_id z : in_sb 32 z = true -> to_s 32 z = z.
Proof.
  unfold in_sb, to_s. rewrite andb_true_iff, Z.leb_le, Z.ltb_lt. intros [H1 H2].
  change (2 ^ (32 - 1)) with 2147483648 in *. change (2 ^ 32) with 4294967296.
  rewrite Z.mod_small by lia. lia.
Qed.

Lemma goconv_id k z : is_int_kind k = true -> scalar_okb k z = true -> goconv k z = z.
Proof.
  intros Hk Ho. apply int_kind_cases in Hk. cbn [In] in Hk.
  repeat (destruct Hk as [Hk|Hk]; [subst k; cbn in Ho; unfold goconv; cbn [Z.eqb Pos.eqb orb];
    try reflexivity;
    try (apply to_s32_id; exact Ho);
    try (unfold in_ub in Ho; apply andb_true_iff in Ho; destruct Ho as [H1 H2]; apply Z.leb_le in H1; apply Z.ltb_lt in H2;
         apply Z.mod_small; split; assumption)|]).
  contradiction.
Qed.

Theorem int_leaf_agrees k lex z :
  is_int_kind k = true -> lex_is_plain_int lex = true -> parse_int lex = Some z ->
  scalar_okb k z = true -> in_sb 64 z = true ->
  leaf_agrees true k (EvNum lex) (LScalar z) = true.
Proof.
  intros Hk Hp Hz Ho H64. unfold leaf_agrees. cbn [negb orb scalar_payload is_str_ev].
  unfold num_class. rewrite Hp, Hz, H64, Hk. rewrite (goconv_id k z Hk Ho).
  cbn [orb negb leaf_bytes leaf_wt]. rewrite bytes_eqb_refl. cbn [andb Bool.eqb].
  apply int_kind_cases in Hk. cbn [In] in Hk.
  repeat (destruct Hk as [Hk|Hk]; [subst k; reflexivity|]). contradiction.
Qed.

(* the code's limit: the 256th frame cannot be pushed (sp is a uint8), whatever the frame *)
Lemma push_full st fr : length (m_stk st) = 256%nat -> push st fr = MErr.
Proof. intro H. unfold push. rewrite H. reflexivity. Qed.
