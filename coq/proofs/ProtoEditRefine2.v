(* C10: get_by_path over nested messages returns the hole offsets that actx describes; the complete coded SetByPath on
   field paths of any depth refines pset. *)
From Coq Require Import ZArith List Bool Arith Lia.
From DG Require Import CaseFormat ProtoWireRef ProtoWireRefProofs ProtoMsg ProtoMsgProofs ProtoRelen ProtoRelenProofs
  ProtoEdit ProtoEditCoded ProtoEditProofs ProtoEditRefine.
Import ListNotations.
Local Open Scope Z_scope.

Lemma goint_small v : 0 <= v < 2 ^ 63 -> goint v = v.
Proof.
  intros H. unfold goint, to_s. change (2 ^ (64 - 1)) with 9223372036854775808. change (2 ^ 64) with 18446744073709551616.
  change (2 ^ 63) with 9223372036854775808 in H. rewrite Z.mod_small by lia. lia.
Qed.

Lemma c_len_enc pre v rest : 0 <= v < 2 ^ 63 ->
  c_len (pre ++ varint_enc v ++ rest) (blen pre) = EOk (v, blen pre + blen (varint_enc v)).
Proof.
  intros H. unfold c_len. rewrite at_app. change (2 ^ 63) with 9223372036854775808 in H.
  rewrite varint_dec_enc by (change (2 ^ 64) with 18446744073709551616; lia).
  fold (blen (varint_enc v)). pose proof (varint_enc_len_pos v).
  destruct (Z.ltb_spec (blen (varint_enc v)) 0); [lia|]. rewrite goint_small by (change (2 ^ 63) with 9223372036854775808; lia).
  reflexivity.
Qed.

(* the header in front of a message body: nothing for the root value, the length varint otherwise *)
Definition level_ok (isRoot : bool) (A hdr body B : list Z) : Prop :=
  (isRoot = true /\ A = [] /\ hdr = [] /\ B = []) \/ (isRoot = false /\ hdr = varint_enc (blen body)).

(* one field step of getByPath: ReadLength, narrowing of the buffer to the message, then searchFieldId on it *)
Lemma gstep_msg S name md id fd isRoot A hdr body B :
  level_ok isRoot A hdr body B ->
  find_msg S name = Some md -> find_field md id = Some fd ->
  blen (A ++ hdr ++ body ++ B) < 2 ^ 63 ->
  gstep all_fixes S (A ++ hdr ++ body ++ B) (blen A) (DMsg name) isRoot (PField id)
  = Some (A ++ hdr ++ body,
          ebind (search_field all_fixes (Datatypes.S (length (A ++ hdr ++ body ++ B))) (A ++ hdr ++ body)
                              (blen A + blen hdr) (fd_num fd) (blen A + blen hdr + blen body))
                (fun '(a, b, c) => EOk (a, b, c, -2)),
          td_of_field fd, td_type (td_of_field fd), 11).
Proof.
  intros Hlv Hm Hf Hsz. unfold gstep. cbn [td_msg]. rewrite Hm, Hf.
  destruct Hlv as [(-> & -> & -> & ->)|(-> & ->)].
  - cbn [app]. rewrite !app_nil_r. change (blen (@nil Z)) with 0. rewrite !Z.add_0_l. reflexivity.
  - pose proof (blen_nonneg body) as Hb0. pose proof (blen_nonneg A). pose proof (blen_nonneg B).
    pose proof (varint_enc_len_pos (blen body)) as Hl.
    rewrite !blen_app in Hsz.
    rewrite c_len_enc by lia.
    assert (Hn : narrow all_fixes (A ++ varint_enc (blen body) ++ body ++ B) (blen A + blen (varint_enc (blen body))) (blen body)
                 = A ++ varint_enc (blen body) ++ body).
    { unfold narrow. change (fx_bound all_fixes) with true. cbn [andb].
      destruct (Z.leb_spec 0 (blen body)); [|lia]. cbn [andb].
      rewrite !blen_app.
      destruct (Z.ltb_spec (blen body) (blen A + (blen (varint_enc (blen body)) + (blen body + blen B)) - (blen A + blen (varint_enc (blen body))))) as [Hlt|Hge].
      - replace (Z.to_nat (blen A + blen (varint_enc (blen body)) + blen body))
          with (length (A ++ varint_enc (blen body) ++ body)) by (rewrite !app_length; unfold blen; lia).
        replace (A ++ varint_enc (blen body) ++ body ++ B) with ((A ++ varint_enc (blen body) ++ body) ++ B)
          by (rewrite <- !app_assoc; reflexivity).
        apply firstn_app_len.
      - assert (B = []) by (apply blen_nil_iff; lia). subst B. rewrite app_nil_r. reflexivity. }
    rewrite Hn. reflexivity.
Qed.

(* ---------------------------------------------------------------- the offsets, outside-in *)
Fixpoint aaddrs (o : Z) (R1 : list Z) (l : list frame) (xo tk : list Z) : list Z :=
  match l with
  | [] => [o + blen R1 - blen tk]
  | f :: l' =>
    (o + blen R1) ::
    aaddrs (o + blen R1 + blen (fr_tag f) + blen (varint_enc (blen (fr_body f (wrapE (rev l') xo))))) (fr_pre f) l' xo tk
  end.
Fixpoint astart (o : Z) (R1 : list Z) (l : list frame) (xo : list Z) : Z :=
  match l with
  | [] => o + blen R1
  | f :: l' => astart (o + blen R1 + blen (fr_tag f) + blen (varint_enc (blen (fr_body f (wrapE (rev l') xo))))) (fr_pre f) l' xo
  end.

(* declared type of the field a path of field numbers ends at *)
Fixpoint atype (S : schema) (name : list Z) (ids : list Z) {struct ids} : option ftype :=
  match ids with
  | [] => None
  | id :: rest =>
    match find_msg S name with
    | None => None
    | Some md =>
      match find_field md id with
      | None => None
      | Some fd =>
        match fd_label fd with
        | LSingular =>
          match rest with
          | [] => Some (fd_type fd)
          | _ :: _ => match fd_type fd with TMsg name' => atype S name' rest | TScalar _ => None end
          end
        | _ => None
        end
      end
    end
  end.

Lemma wire_single_field S t v id : wf_fld S LSingular t v = true -> 1 <= id <= MAX_FIELD_NUMBER ->
  wf_wfield (id, sval v) = true.
Proof.
  intros Hv Hn. unfold wf_wfield. cbn [fst snd]. rewrite (sval_wf _ _ _ Hv).
  destruct (Z.leb_spec 1 id); [|lia]. destruct (Z.leb_spec id MAX_FIELD_NUMBER); [|lia]. reflexivity.
Qed.

(* getByPath over nested messages: the node / insertion point and the address chain are the offsets of actx *)
Lemma gwalk_msgs S ids : forall name fs R1 l R2 xo tk t isRoot A hdr B addr,
  wf_fld S LSingular (TMsg name) (VMsg fs) = true ->
  actx S name fs ids = Some (R1, l, R2, xo, tk) ->
  atype S name ids = Some t ->
  let body := wenc (msg_wire fs) in
  level_ok isRoot A hdr body B ->
  blen (A ++ hdr ++ body ++ B) < 2 ^ 63 ->
  let o := blen A + blen hdr in
  gwalk all_fixes S (A ++ hdr ++ body ++ B) (blen A) (DMsg name) isRoot (map PField ids) addr
  = match tk with
    | [] => GNotFoundLast (astart o R1 l xo) 11 (addr ++ aaddrs o R1 l xo tk)
    | _ => GFound (mk_gnode (astart o R1 l xo) (astart o R1 l xo + blen xo) (td_type (td_base t)) 0 0 (td_base t) false)
                  (addr ++ aaddrs o R1 l xo tk)
    end.
Proof.
  induction ids as [|id rest IH]; intros name fs R1 l R2 xo tk t isRoot A hdr B addr Hwf Hctx Hty body Hlv Hsz o; [discriminate|].
  cbn [actx] in Hctx. cbn [atype] in Hty.
  destruct (find_msg S name) as [md|] eqn:Hm; [|discriminate].
  destruct (find_field md id) as [fd|] eqn:Hf; [|discriminate].
  assert (Enum : fd_num fd = id).
  { unfold find_field in Hf. apply find_some in Hf. destruct Hf as [_ Hf']. apply Z.eqb_eq in Hf'. exact Hf'. }
  destruct (fd_label fd) eqn:Hl; try discriminate.
  destruct (wf_msg_fields S name md fs Hm Hwf) as (Hnd & Hlen & Hall).
  assert (Etd : td_of_field fd = td_base (fd_type fd)) by (unfold td_of_field; rewrite Hl; reflexivity).
  pose proof (blen_nonneg A) as HA0. pose proof (blen_nonneg hdr) as Hh0. pose proof (blen_nonneg B) as HB0.
  assert (Hsz1 : blen (A ++ hdr ++ body) < 2 ^ 63) by (rewrite !blen_app in *; lia).
  cbn [map gwalk]. rewrite (gstep_msg S name md id fd isRoot A hdr body B Hlv Hm Hf Hsz). rewrite Enum.
  destruct (fsplit id fs) as [[[a v] b]|] eqn:Hs.
  - (* the field is present *)
    destruct (fsplit_some _ _ _ _ _ Hs) as (Efs & Hno & Has & Hset).
    assert (Hin : In (id, v) fs) by (rewrite Efs; apply in_or_app; right; left; reflexivity).
    destruct (Hall _ Hin) as (fd' & Hf' & Hn & Hv). cbn [fst snd] in *. rewrite Hf in Hf'. injection Hf' as <-.
    rewrite Hl in Hv.
    assert (Ha : forall nv, In nv a -> exists fd, find_field md (fst nv) = Some fd /\ 1 <= fst nv <= MAX_FIELD_NUMBER /\
                                                  wf_fld S (fd_label fd) (fd_type fd) (snd nv) = true).
    { intros nv Hi. apply Hall. rewrite Efs. apply in_or_app. left. exact Hi. }
    destruct (msg_wire_facts S md a id Ha) as [Wa Na]. specialize (Na Hno).
    set (f := (id, sval v)).
    assert (Wf : wf_wfield f = true) by (apply (wire_single_field S (fd_type fd)); assumption).
    assert (Ebody : body = wenc (msg_wire a) ++ wenc_field f ++ wenc (msg_wire b)).
    { unfold body. rewrite Efs at 1. rewrite msg_wire_app, msg_wire_cons, !wenc_app.
      rewrite (wfld_single _ _ _ id Hv). rewrite wenc_cons. cbn [wenc flat_map]. rewrite app_nil_r. reflexivity. }
    assert (Ebuf1 : A ++ hdr ++ body = (A ++ hdr) ++ wenc (msg_wire a) ++ wenc_field f ++ wenc (msg_wire b))
      by (rewrite Ebody, <- !app_assoc; reflexivity).
    set (pos := o + blen (wenc (msg_wire a))).
    assert (Hsearch : search_field all_fixes (Datatypes.S (length (A ++ hdr ++ body ++ B))) (A ++ hdr ++ body)
                                   (blen A + blen hdr) id (blen A + blen hdr + blen body) = EOk (pos, pos, true)).
    { rewrite Ebuf1. rewrite <- blen_app. change id with (fst f).
      rewrite (search_field_found all_fixes (msg_wire a) (A ++ hdr) f (wenc (msg_wire b))); try assumption.
      - unfold pos, o. rewrite blen_app. reflexivity.
      - rewrite <- Ebuf1. exact Hsz1.
      - rewrite Ebody, !blen_app. pose proof (wenc_field_pos f). pose proof (blen_nonneg (wenc (msg_wire b))). lia.
      - pose proof (wenc_length_ge (msg_wire a)) as Hg. rewrite Ebody. rewrite !app_length. lia. }
    rewrite Hsearch. cbn [ebind negb].
    assert (Haddr0 : forall ad : list Z, match ad with [] => ad | _ :: _ => if fx_mapentry all_fixes && negb (-2 =? -2) then removelast ad ++ [-2] else ad end = ad)
      by (intros [|]; reflexivity).
    rewrite Haddr0.
    destruct rest as [|id2 rest].
    + (* the target *)
      injection Hctx as <- <- <- <- <-. injection Hty as <-.
      destruct (nt_facts S _ _ Hv) as (Hnm & Hnl & Hwt).
      cbn [map is_last]. rewrite Etd, Hnm, Hnl. cbn [orb].
      assert (Hpk : td_packed (td_base (fd_type fd)) = false) by (destruct (fd_type fd); reflexivity).
      rewrite Hpk.
      assert (Ed2 : forall d, (match td_base (fd_type fd) with DList _ e0 => e0 | _ => d end) = d)
        by (intros d; destruct (fd_type fd); reflexivity).
      unfold c_tag. rewrite Ebuf1. unfold pos, o. rewrite <- blen_app.
      rewrite (app_assoc (A ++ hdr) (wenc (msg_wire a))).
      rewrite <- blen_app.
      rewrite (c_tag_peek_field ((A ++ hdr) ++ wenc (msg_wire a)) f (wenc (msg_wire b)) Wf). cbn [ebind].
      rewrite !Ed2, Hwt, <- (sval_wt _ _ _ Hv). change (sval v) with (snd f).
      rewrite (c_skip_field all_fixes ((A ++ hdr) ++ wenc (msg_wire a)) f (wenc (msg_wire b)) Wf)
        by (rewrite <- app_assoc, <- Ebuf1; exact Hsz1).
      assert (Htk : tagb (id, sval v) <> []) by apply tagb_nonnil.
      assert (Hm2 : forall X Y : gres, match tagb (id, sval v) with [] => X | _ :: _ => Y end = Y)
        by (intros; destruct (tagb (id, sval v)); [contradiction|reflexivity]).
      rewrite Hm2. cbn [aaddrs astart].
      unfold o. rewrite wenc_field_tagb. unfold f. cbn [snd fst]. rewrite !blen_app.
      f_equal; [f_equal; lia | do 2 f_equal; lia].
    + (* an enclosing message: descend *)
      destruct (fd_type fd) as [|name'] eqn:Ht; [discriminate|].
      destruct v as [| |fs'| |]; try discriminate.
      destruct (actx S name' fs' (id2 :: rest)) as [[[[[R1' l'] R2'] xo'] tk']|] eqn:Hc; [|discriminate].
      injection Hctx as <- <- <- <- <-.
      destruct (actx_enc_pset S (id2 :: rest) name' fs' R1' l' R2' xo' tk' Hv Hc) as [Eenc _].
      cbn [map is_last]. change (PField id2 :: map PField rest) with (map PField (id2 :: rest)).
      set (body' := wenc (msg_wire fs')).
      assert (Ef : wenc_field f = mtag id ++ varint_enc (blen body') ++ body') by reflexivity.
      unfold c_tag. rewrite Ebuf1. unfold pos, o. rewrite <- blen_app.
      rewrite (app_assoc (A ++ hdr) (wenc (msg_wire a))). rewrite <- blen_app.
      rewrite (c_tag_peek_field ((A ++ hdr) ++ wenc (msg_wire a)) f (wenc (msg_wire b)) Wf). cbn [ebind].
      rewrite Etd. cbn [td_base].
      (* the buffer seen by the next level *)
      assert (Enext : ((A ++ hdr) ++ wenc (msg_wire a)) ++ wenc_field f ++ wenc (msg_wire b)
                      = (((A ++ hdr) ++ wenc (msg_wire a)) ++ mtag id) ++ varint_enc (blen body') ++ body' ++ wenc (msg_wire b))
        by (rewrite Ef, <- !app_assoc; reflexivity).
      rewrite Enext.
      assert (Erd : blen ((A ++ hdr) ++ wenc (msg_wire a)) + blen (tagb f) = blen (((A ++ hdr) ++ wenc (msg_wire a)) ++ mtag id))
        by (rewrite (blen_app _ (mtag id)); reflexivity).
      rewrite Erd. subst body'.
      rewrite (IH name' fs' R1' l' R2' xo' tk' t false (((A ++ hdr) ++ wenc (msg_wire a)) ++ mtag id)
                  (varint_enc (blen (wenc (msg_wire fs')))) (wenc (msg_wire b)) (addr ++ [blen ((A ++ hdr) ++ wenc (msg_wire a))]) Hv Hc Hty).
      * cbn [aaddrs astart]. unfold fr_body, fr_tag, fr_pre, fr_post. cbn [fst snd].
        assert (Eb : blen (R1' ++ wrapE (rev l') xo' ++ R2') = blen (wenc (msg_wire fs'))) by (rewrite Eenc; reflexivity).
        rewrite Eb.
        assert (Eo : blen (((A ++ hdr) ++ wenc (msg_wire a)) ++ mtag id) + blen (varint_enc (blen (wenc (msg_wire fs'))))
                     = blen (A ++ hdr) + blen (wenc (msg_wire a)) + blen (mtag id) + blen (varint_enc (blen (wenc (msg_wire fs')))))
          by (rewrite !blen_app; lia).
        rewrite Eo.
        assert (Ep : blen ((A ++ hdr) ++ wenc (msg_wire a)) = blen (A ++ hdr) + blen (wenc (msg_wire a))) by (rewrite !blen_app; lia).
        rewrite Ep. rewrite <- !app_assoc. cbn [app]. destruct tk'; reflexivity.
      * right. split; reflexivity.
      * rewrite <- Enext, <- app_assoc, <- Ebuf1. exact Hsz1.
  - (* the field is absent *)
    destruct rest as [|id2 rest]; [|destruct (fd_type fd); discriminate].
    injection Hctx as <- <- <- <- <-.
    destruct (fsplit_none _ _ Hs) as [Has Hno].
    destruct (msg_wire_facts S md fs id Hall) as [Wm Nm]. specialize (Nm Hno).
    assert (Hsearch : search_field all_fixes (Datatypes.S (length (A ++ hdr ++ body ++ B))) (A ++ hdr ++ body)
                                   (blen A + blen hdr) id (blen A + blen hdr + blen body)
                      = EOk (o + blen body, o + blen body, false)).
    { pose proof (search_field_absent all_fixes (msg_wire fs) (A ++ hdr) [] (Datatypes.S (length (A ++ hdr ++ body ++ B))) id Wm Nm) as Hs'.
      rewrite app_nil_r, <- app_assoc in Hs'. rewrite !blen_app in Hs'. unfold o, body. apply Hs'.
      - rewrite !blen_app in Hsz1. unfold body in Hsz1. lia.
      - pose proof (wenc_length_ge (msg_wire fs)). unfold body. rewrite !app_length. lia. }
    rewrite Hsearch. cbn [ebind negb map is_last aaddrs astart]. change (blen (@nil Z)) with 0.
    rewrite Z.sub_0_r. destruct addr; reflexivity.
Qed.
