(* C10: get_by_path over nested messages returns the hole offsets that actx describes; the complete coded SetByPath on
   field paths of any depth refines pset. *)
From Coq Require Import ZArith List Bool Arith Lia.
From DG Require Import CaseFormat ProtoWireRef ProtoWireRefProofs ProtoMsg ProtoMsgProofs ProtoRelen ProtoRelenProofs
  ProtoEdit ProtoEditCoded ProtoEditProofs ProtoEditRefine.
Import ListNotations.
Local Open Scope Z_scope.

Lemma goint_small v : 0 <= v < 2 ^ 63 -> goint v = v.
Proof.
  intros H. unfold goint, to_s. change (2 ^ (64 - 1)) with 9223372036854775808. change (2 ^ 64) with 18446744073709551616.
  change (2 ^ 63) with 9223372036854775808 in H. rewrite Z.mod_small by lia. lia.
Qed.

Lemma c_len_enc pre v rest : 0 <= v < 2 ^ 63 ->
  c_len (pre ++ varint_enc v ++ rest) (blen pre) = EOk (v, blen pre + blen (varint_enc v)).
Proof.
  intros H. unfold c_len. rewrite at_app. change (2 ^ 63) with 9223372036854775808 in H.
  rewrite varint_dec_enc by (change (2 ^ 64) with 18446744073709551616; lia).
  fold (blen (varint_enc v)). pose proof (varint_enc_len_pos v).
  destruct (Z.ltb_spec (blen (varint_enc v)) 0); [lia|]. rewrite goint_small by (change (2 ^ 63) with 9223372036854775808; lia).
  reflexivity.
Qed.

(* the header in front of a message body: nothing for the root value, the length varint otherwise *)
Definition level_ok (isRoot : bool) (A hdr body B : list Z) : Prop :=
  (isRoot = true /\ A = [] /\ hdr = [] /\ B = []) \/ (isRoot = false /\ hdr = varint_enc (blen body)).

(* one field step of getByPath: ReadLength, narrowing of the buffer to the message, then searchFieldId on it *)
Lemma gstep_msg S name md id fd isRoot A hdr body B :
  level_ok isRoot A hdr body B ->
  find_msg S name = Some md -> find_field md id = Some fd ->
  blen (A ++ hdr ++ body ++ B) < 2 ^ 63 ->
  gstep all_fixes S (A ++ hdr ++ body ++ B) (blen A) (DMsg name) isRoot (PField id)
  = Some (A ++ hdr ++ body,
          ebind (search_field all_fixes (Datatypes.S (length (A ++ hdr ++ body ++ B))) (A ++ hdr ++ body)
                              (blen A + blen hdr) (fd_num fd) (blen A + blen hdr + blen body))
                (fun '(a, b, c) => EOk (a, b, c, -2)),
          td_of_field fd, td_type (td_of_field fd), 11).
Proof.
  intros Hlv Hm Hf Hsz. unfold gstep. cbn [td_msg]. rewrite Hm, Hf.
  destruct Hlv as [(-> & -> & -> & ->)|(-> & ->)].
  - cbn [app]. rewrite !app_nil_r. change (blen (@nil Z)) with 0. rewrite !Z.add_0_l. reflexivity.
  - pose proof (blen_nonneg body) as Hb0. pose proof (blen_nonneg A). pose proof (blen_nonneg B).
    pose proof (varint_enc_len_pos (blen body)) as Hl.
    rewrite !blen_app in Hsz.
    rewrite c_len_enc by lia.
    assert (Hn : narrow all_fixes (A ++ varint_enc (blen body) ++ body ++ B) (blen A + blen (varint_enc (blen body))) (blen body)
                 = A ++ varint_enc (blen body) ++ body).
    { unfold narrow. change (fx_bound all_fixes) with true. cbn [andb].
      destruct (Z.leb_spec 0 (blen body)); [|lia]. cbn [andb].
      rewrite !blen_app.
      destruct (Z.ltb_spec (blen body) (blen A + (blen (varint_enc (blen body)) + (blen body + blen B)) - (blen A + blen (varint_enc (blen body))))) as [Hlt|Hge].
      - replace (Z.to_nat (blen A + blen (varint_enc (blen body)) + blen body))
          with (length (A ++ varint_enc (blen body) ++ body)) by (rewrite !app_length; unfold blen; lia).
        replace (A ++ varint_enc (blen body) ++ body ++ B) with ((A ++ varint_enc (blen body) ++ body) ++ B)
          by (rewrite <- !app_assoc; reflexivity).
        apply firstn_app_len.
      - assert (B = []) by (apply blen_nil_iff; lia). subst B. rewrite app_nil_r. reflexivity. }
    rewrite Hn. reflexivity.
Qed.

(* ---------------------------------------------------------------- the offsets, outside-in *)
Fixpoint aaddrs (o : Z) (R1 : list Z) (l : list frame) (xo tk : list Z) : list Z :=
  match l with
  | [] => [o + blen R1 - blen tk]
  | f :: l' =>
    (o + blen R1) ::
    aaddrs (o + blen R1 + blen (fr_tag f) + blen (varint_enc (blen (fr_body f (wrapE (rev l') xo))))) (fr_pre f) l' xo tk
  end.
Fixpoint astart (o : Z) (R1 : list Z) (l : list frame) (xo : list Z) : Z :=
  match l with
  | [] => o + blen R1
  | f :: l' => astart (o + blen R1 + blen (fr_tag f) + blen (varint_enc (blen (fr_body f (wrapE (rev l') xo))))) (fr_pre f) l' xo
  end.

(* declared type of the field a path of field numbers ends at *)
Fixpoint atype (S : schema) (name : list Z) (ids : list Z) {struct ids} : option ftype :=
  match ids with
  | [] => None
  | id :: rest =>
    match find_msg S name with
    | None => None
    | Some md =>
      match find_field md id with
      | None => None
      | Some fd =>
        match fd_label fd with
        | LSingular =>
          match rest with
          | [] => Some (fd_type fd)
          | _ :: _ => match fd_type fd with TMsg name' => atype S name' rest | TScalar _ => None end
          end
        | _ => None
        end
      end
    end
  end.

Lemma wire_single_field S t v id : wf_fld S LSingular t v = true -> 1 <= id <= MAX_FIELD_NUMBER ->
  wf_wfield (id, sval v) = true.
Proof.
  intros Hv Hn. unfold wf_wfield. cbn [fst snd]. rewrite (sval_wf _ _ _ Hv).
  destruct (Z.leb_spec 1 id); [|lia]. destruct (Z.leb_spec id MAX_FIELD_NUMBER); [|lia]. reflexivity.
Qed.

(* getByPath over nested messages: the node / insertion point and the address chain are the offsets of actx *)
Lemma gwalk_msgs S ids : forall name fs R1 l R2 xo tk t isRoot A hdr B addr,
  wf_fld S LSingular (TMsg name) (VMsg fs) = true ->
  actx S name fs ids = Some (R1, l, R2, xo, tk) ->
  atype S name ids = Some t ->
  let body := wenc (msg_wire fs) in
  level_ok isRoot A hdr body B ->
  blen (A ++ hdr ++ body ++ B) < 2 ^ 63 ->
  let o := blen A + blen hdr in
  gwalk all_fixes S (A ++ hdr ++ body ++ B) (blen A) (DMsg name) isRoot (map PField ids) addr
  = match tk with
    | [] => GNotFoundLast (astart o R1 l xo) 11 (addr ++ aaddrs o R1 l xo tk)
    | _ => GFound (mk_gnode (astart o R1 l xo) (astart o R1 l xo + blen xo) (td_type (td_base t)) 0 0 (td_base t) false)
                  (addr ++ aaddrs o R1 l xo tk)
    end.
Proof.
  induction ids as [|id rest IH]; intros name fs R1 l R2 xo tk t isRoot A hdr B addr Hwf Hctx Hty body Hlv Hsz o; [discriminate|].
  cbn [actx] in Hctx. cbn [atype] in Hty.
  destruct (find_msg S name) as [md|] eqn:Hm; [|discriminate].
  destruct (find_field md id) as [fd|] eqn:Hf; [|discriminate].
  assert (Enum : fd_num fd = id).
  { unfold find_field in Hf. apply find_some in Hf. destruct Hf as [_ Hf']. apply Z.eqb_eq in Hf'. exact Hf'. }
  destruct (fd_label fd) eqn:Hl; try discriminate.
  destruct (wf_msg_fields S name md fs Hm Hwf) as (Hnd & Hlen & Hall).
  assert (Etd : td_of_field fd = td_base (fd_type fd)) by (unfold td_of_field; rewrite Hl; reflexivity).
  pose proof (blen_nonneg A) as HA0. pose proof (blen_nonneg hdr) as Hh0. pose proof (blen_nonneg B) as HB0.
  assert (Hsz1 : blen (A ++ hdr ++ body) < 2 ^ 63) by (rewrite !blen_app in *; lia).
  cbn [map gwalk]. rewrite (gstep_msg S name md id fd isRoot A hdr body B Hlv Hm Hf Hsz). rewrite Enum.
  destruct (fsplit id fs) as [[[a v] b]|] eqn:Hs.
  - (* the field is present *)
    destruct (fsplit_some _ _ _ _ _ Hs) as (Efs & Hno & Has & Hset).
    assert (Hin : In (id, v) fs) by (rewrite Efs; apply in_or_app; right; left; reflexivity).
    destruct (Hall _ Hin) as (fd' & Hf' & Hn & Hv). cbn [fst snd] in *. rewrite Hf in Hf'. injection Hf' as <-.
    rewrite Hl in Hv.
    assert (Ha : forall nv, In nv a -> exists fd, find_field md (fst nv) = Some fd /\ 1 <= fst nv <= MAX_FIELD_NUMBER /\
                                                  wf_fld S (fd_label fd) (fd_type fd) (snd nv) = true).
    { intros nv Hi. apply Hall. rewrite Efs. apply in_or_app. left. exact Hi. }
    destruct (msg_wire_facts S md a id Ha) as [Wa Na]. specialize (Na Hno).
    set (f := (id, sval v)).
    assert (Wf : wf_wfield f = true) by (apply (wire_single_field S (fd_type fd)); assumption).
    assert (Ebody : body = wenc (msg_wire a) ++ wenc_field f ++ wenc (msg_wire b)).
    { unfold body. rewrite Efs at 1. rewrite msg_wire_app, msg_wire_cons, !wenc_app.
      rewrite (wfld_single _ _ _ id Hv). rewrite wenc_cons. cbn [wenc flat_map]. rewrite app_nil_r. reflexivity. }
    assert (Ebuf1 : A ++ hdr ++ body = (A ++ hdr) ++ wenc (msg_wire a) ++ wenc_field f ++ wenc (msg_wire b))
      by (rewrite Ebody, <- !app_assoc; reflexivity).
    set (pos := o + blen (wenc (msg_wire a))).
    assert (Hsearch : search_field all_fixes (Datatypes.S (length (A ++ hdr ++ body ++ B))) (A ++ hdr ++ body)
                                   (blen A + blen hdr) id (blen A + blen hdr + blen body) = EOk (pos, pos, true)).
    { rewrite Ebuf1. rewrite <- blen_app. change id with (fst f).
      rewrite (search_field_found all_fixes (msg_wire a) (A ++ hdr) f (wenc (msg_wire b))); try assumption.
      - unfold pos, o. rewrite blen_app. reflexivity.
      - rewrite <- Ebuf1. exact Hsz1.
      - rewrite Ebody, !blen_app. pose proof (wenc_field_pos f). pose proof (blen_nonneg (wenc (msg_wire b))). lia.
      - pose proof (wenc_length_ge (msg_wire a)) as Hg. rewrite Ebody. rewrite !app_length. lia. }
    rewrite Hsearch. cbn [ebind negb].
    assert (Haddr0 : forall ad : list Z, match ad with [] => ad | _ :: _ => if fx_mapentry all_fixes && negb (-2 =? -2) then removelast ad ++ [-2] else ad end = ad)
      by (intros [|]; reflexivity).
    rewrite Haddr0.
    destruct rest as [|id2 rest].
    + (* the target *)
      injection Hctx as <- <- <- <- <-. injection Hty as <-.
      destruct (nt_facts S _ _ Hv) as (Hnm & Hnl & Hwt).
      cbn [map is_last]. rewrite Etd, Hnm, Hnl. cbn [orb].
      assert (Hpk : td_packed (td_base (fd_type fd)) = false) by (destruct (fd_type fd); reflexivity).
      rewrite Hpk.
      assert (Ed2 : forall d, (match td_base (fd_type fd) with DList _ e0 => e0 | _ => d end) = d)
        by (intros d; destruct (fd_type fd); reflexivity).
      unfold c_tag. rewrite Ebuf1. unfold pos, o. rewrite <- blen_app.
      rewrite (app_assoc (A ++ hdr) (wenc (msg_wire a))).
      rewrite <- blen_app.
      rewrite (c_tag_peek_field ((A ++ hdr) ++ wenc (msg_wire a)) f (wenc (msg_wire b)) Wf). cbn [ebind].
      rewrite !Ed2, Hwt, <- (sval_wt _ _ _ Hv). change (sval v) with (snd f).
      rewrite (c_skip_field all_fixes ((A ++ hdr) ++ wenc (msg_wire a)) f (wenc (msg_wire b)) Wf)
        by (rewrite <- app_assoc, <- Ebuf1; exact Hsz1).
      assert (Htk : tagb (id, sval v) <> []) by apply tagb_nonnil.
      assert (Hm2 : forall X Y : gres, match tagb (id, sval v) with [] => X | _ :: _ => Y end = Y)
        by (intros; destruct (tagb (id, sval v)); [contradiction|reflexivity]).
      rewrite Hm2. cbn [aaddrs astart].
      unfold o. rewrite wenc_field_tagb. unfold f. cbn [snd fst]. rewrite !blen_app.
      f_equal; [f_equal; lia | do 2 f_equal; lia].
    + (* an enclosing message: descend *)
      destruct (fd_type fd) as [|name'] eqn:Ht; [discriminate|].
      destruct v as [| |fs'| |]; try discriminate.
      destruct (actx S name' fs' (id2 :: rest)) as [[[[[R1' l'] R2'] xo'] tk']|] eqn:Hc; [|discriminate].
      injection Hctx as <- <- <- <- <-.
      destruct (actx_enc_pset S (id2 :: rest) name' fs' R1' l' R2' xo' tk' Hv Hc) as [Eenc _].
      cbn [map is_last]. change (PField id2 :: map PField rest) with (map PField (id2 :: rest)).
      set (body' := wenc (msg_wire fs')).
      assert (Ef : wenc_field f = mtag id ++ varint_enc (blen body') ++ body') by reflexivity.
      unfold c_tag. rewrite Ebuf1. unfold pos, o. rewrite <- blen_app.
      rewrite (app_assoc (A ++ hdr) (wenc (msg_wire a))). rewrite <- blen_app.
      rewrite (c_tag_peek_field ((A ++ hdr) ++ wenc (msg_wire a)) f (wenc (msg_wire b)) Wf). cbn [ebind].
      rewrite Etd. cbn [td_base].
      (* the buffer seen by the next level *)
      assert (Enext : ((A ++ hdr) ++ wenc (msg_wire a)) ++ wenc_field f ++ wenc (msg_wire b)
                      = (((A ++ hdr) ++ wenc (msg_wire a)) ++ mtag id) ++ varint_enc (blen body') ++ body' ++ wenc (msg_wire b))
        by (rewrite Ef, <- !app_assoc; reflexivity).
      rewrite Enext.
      assert (Erd : blen ((A ++ hdr) ++ wenc (msg_wire a)) + blen (tagb f) = blen (((A ++ hdr) ++ wenc (msg_wire a)) ++ mtag id))
        by (rewrite (blen_app _ (mtag id)); reflexivity).
      rewrite Erd. subst body'.
      rewrite (IH name' fs' R1' l' R2' xo' tk' t false (((A ++ hdr) ++ wenc (msg_wire a)) ++ mtag id)
                  (varint_enc (blen (wenc (msg_wire fs')))) (wenc (msg_wire b)) (addr ++ [blen ((A ++ hdr) ++ wenc (msg_wire a))]) Hv Hc Hty).
      * cbn [aaddrs astart]. unfold fr_body, fr_tag, fr_pre, fr_post. cbn [fst snd].
        assert (Eb : blen (R1' ++ wrapE (rev l') xo' ++ R2') = blen (wenc (msg_wire fs'))) by (rewrite Eenc; reflexivity).
        rewrite Eb.
        assert (Eo : blen (((A ++ hdr) ++ wenc (msg_wire a)) ++ mtag id) + blen (varint_enc (blen (wenc (msg_wire fs'))))
                     = blen (A ++ hdr) + blen (wenc (msg_wire a)) + blen (mtag id) + blen (varint_enc (blen (wenc (msg_wire fs')))))
          by (rewrite !blen_app; lia).
        rewrite Eo.
        assert (Ep : blen ((A ++ hdr) ++ wenc (msg_wire a)) = blen (A ++ hdr) + blen (wenc (msg_wire a))) by (rewrite !blen_app; lia).
        rewrite Ep. rewrite <- !app_assoc. cbn [app]. destruct tk'; reflexivity.
      * right. split; reflexivity.
      * rewrite <- Enext, <- app_assoc, <- Ebuf1. exact Hsz1.
  - (* the field is absent *)
    destruct rest as [|id2 rest]; [|destruct (fd_type fd); discriminate].
    injection Hctx as <- <- <- <- <-.
    destruct (fsplit_none _ _ Hs) as [Has Hno].
    destruct (msg_wire_facts S md fs id Hall) as [Wm Nm]. specialize (Nm Hno).
    assert (Hsearch : search_field all_fixes (Datatypes.S (length (A ++ hdr ++ body ++ B))) (A ++ hdr ++ body)
                                   (blen A + blen hdr) id (blen A + blen hdr + blen body)
                      = EOk (o + blen body, o + blen body, false)).
    { pose proof (search_field_absent all_fixes (msg_wire fs) (A ++ hdr) [] (Datatypes.S (length (A ++ hdr ++ body ++ B))) id Wm Nm) as Hs'.
      rewrite app_nil_r, <- app_assoc in Hs'. rewrite !blen_app in Hs'. unfold o, body. apply Hs'.
      - rewrite !blen_app in Hsz1. unfold body in Hsz1. lia.
      - pose proof (wenc_length_ge (msg_wire fs)). unfold body. rewrite !app_length. lia. }
    rewrite Hsearch. cbn [ebind negb map is_last aaddrs astart]. change (blen (@nil Z)) with 0.
    rewrite Z.sub_0_r. destruct addr; reflexivity.
Qed.

(* ---------------------------------------------------------------- offsets outside-in = frame addresses inside-out *)
Lemma astart_ctxA l : forall o R1 xo, astart o R1 l xo = o + blen R1 + blen (ctxA (rev l) xo).
Proof.
  induction l as [|f l IH]; intros o R1 xo; cbn [astart rev ctxA].
  - change (blen (@nil Z)) with 0. lia.
  - rewrite IH, ctxA_snoc, !blen_app. lia.
Qed.

Lemma aaddrs_frames l : forall o R1 xo tk,
  rev (aaddrs o R1 l xo tk)
  = (astart o R1 l xo - blen tk) :: map (fun a => o + blen R1 + Z.of_nat a) (frame_addrs (rev l) xo).
Proof.
  induction l as [|f l IH]; intros o R1 xo tk; cbn [aaddrs astart rev frame_addrs map].
  - reflexivity.
  - rewrite IH. rewrite frame_addrs_snoc, map_app, map_map. cbn [map]. rewrite <- app_comm_cons.
    f_equal. rewrite Z.add_0_r. f_equal.
    apply map_ext. intros a. rewrite !app_length, !Nat2Z.inj_add. unfold blen. lia.
Qed.

Lemma aaddrs_length l : forall o R1 xo tk, length (aaddrs o R1 l xo tk) = Datatypes.S (length l).
Proof. induction l as [|f l IH]; intros; cbn [aaddrs length]; [reflexivity|]. rewrite IH. reflexivity. Qed.

Lemma actx_length S ids : forall name fs R1 l R2 xo tk,
  actx S name fs ids = Some (R1, l, R2, xo, tk) -> length ids = Datatypes.S (length l).
Proof.
  induction ids as [|id rest IH]; intros name fs R1 l R2 xo tk H; [discriminate|].
  cbn [actx] in H. destruct (find_msg S name) as [md|]; [|discriminate].
  destruct (find_field md id) as [fd|]; [|discriminate]. destruct (fd_label fd); try discriminate.
  destruct rest as [|id2 rest].
  - destruct (fsplit id fs) as [[[a v] b]|]; injection H as <- <- <- <- <-; reflexivity.
  - destruct (fd_type fd) as [|name']; [discriminate|]. destruct (fsplit id fs) as [[[a v] b]|]; [|discriminate].
    destruct v; try discriminate.
    destruct (actx S name' fs0 (id2 :: rest)) as [[[[[R1' l'] R2'] xo'] tk']|] eqn:Hc; [|discriminate].
    injection H as <- <- <- <- <-. specialize (IH _ _ _ _ _ _ _ Hc). cbn [length] in *. lia.
Qed.

Lemma levels_fields addr ids : length addr = length ids ->
  levels addr (map PField ids) = rev (map (fun a => (a, PT_FIELD)) addr).
Proof.
  intros H. unfold levels. f_equal. revert ids H. induction addr as [|a r IH]; intros [|i ids] H; try discriminate; [reflexivity|].
  cbn [map combine pt_of_step]. rewrite IH by (cbn in H; lia). reflexivity.
Qed.

(* ---------------------------------------------------------------- what the path means for the descriptor walks *)
Lemma actx_atype S ids : forall name fs R1 l R2 xo tk,
  actx S name fs ids = Some (R1, l, R2, xo, tk) ->
  exists t, atype S name ids = Some t /\
            path_type_lax S LSingular (TMsg name) (map PField ids) = Some (LSingular, t) /\
            (exists d0, desc_by_path S (DMsg name) (removelast (map PField ids)) = Some d0) /\
            last_step (map PField ids) = Some (PField (last ids 0)).
Proof.
  induction ids as [|id rest IH]; intros name fs R1 l R2 xo tk H; [discriminate|].
  cbn [actx] in H. cbn [atype map path_type_lax].
  destruct (find_msg S name) as [md|] eqn:Hm; [|discriminate]. cbn [resolve_field].
  destruct (find_field md id) as [fd|] eqn:Hf; [|discriminate]. destruct (fd_label fd) eqn:Hl; try discriminate.
  destruct rest as [|id2 rest].
  - exists (fd_type fd). repeat split; try reflexivity. exists (DMsg name). reflexivity.
  - destruct (fd_type fd) as [|name'] eqn:Ht; [discriminate|]. destruct (fsplit id fs) as [[[a v] b]|]; [|discriminate].
    destruct v; try discriminate.
    destruct (actx S name' fs0 (id2 :: rest)) as [[[[[R1' l'] R2'] xo'] tk']|] eqn:Hc; [|discriminate].
    destruct (IH _ _ _ _ _ _ _ Hc) as (t & Ha & Hp & (d0 & Hd) & Hls).
    exists t. split; [exact Ha|]. split; [exact Hp|]. split.
    + exists d0. change (map PField (id2 :: rest)) with (PField id2 :: map PField rest) in *.
      cbn [removelast desc_by_path]. rewrite Hm, Hf. unfold td_of_field. rewrite Hl, Ht. cbn [td_base]. exact Hd.
    + unfold last_step in *. cbn [map last] in *. exact Hls.
Qed.

(* field numbers of the schema are legal protobuf field numbers *)
Definition schema_ok (S : schema) : bool :=
  forallb (fun md => forallb (fun fd => (1 <=? fd_num fd) && (fd_num fd <=? MAX_FIELD_NUMBER)) (md_fields md)) S.

Lemma schema_ok_field S name md id fd : schema_ok S = true ->
  find_msg S name = Some md -> find_field md id = Some fd -> 1 <= id <= MAX_FIELD_NUMBER.
Proof.
  intros Hs Hm Hf. unfold find_msg in Hm. apply find_some in Hm as [Hin _].
  unfold find_field in Hf. apply find_some in Hf as [Hin2 He]. apply Z.eqb_eq in He. subst id.
  unfold schema_ok in Hs. rewrite forallb_forall in Hs. specialize (Hs md Hin). rewrite forallb_forall in Hs.
  specialize (Hs fd Hin2). apply andb_true_iff in Hs as [A B]. apply Z.leb_le in A, B. lia.
Qed.

(* a successful set carries a sub value that is well-formed for the declared type of the target *)
Lemma pset_at_target S ids : forall name fs x v' e t,
  schema_ok S = true ->
  pset_at S LSingular (TMsg name) (VMsg fs) (map PField ids) x = Some (v', e) ->
  atype S name ids = Some t ->
  wf_fld S LSingular t x = true /\ 1 <= last ids 0 <= MAX_FIELD_NUMBER.
Proof.
  induction ids as [|id rest IH]; intros name fs x v' e t Hs Hp Ht; [discriminate|].
  cbn [atype] in Ht. destruct (find_msg S name) as [md|] eqn:Hm; [|discriminate].
  destruct (find_field md id) as [fd|] eqn:Hf; [|discriminate].
  destruct (fd_label fd) eqn:Hl; try discriminate.
  cbn [map] in Hp. rewrite (pset_at_msg_step S name md fs id _ x fd Hm Hf) in Hp.
  destruct rest as [|id2 rest].
  - injection Ht as <-. cbn [last]. split; [|eapply schema_ok_field; eassumption].
    rewrite Hl in Hp. destruct (assoc_z (fd_num fd) fs); cbn [map pset_at] in Hp;
      destruct (wf_fld S LSingular (fd_type fd) x); try discriminate; reflexivity.
  - destruct (fd_type fd) as [|name'] eqn:Hty; [discriminate|].
    destruct (assoc_z (fd_num fd) fs) as [child|]; [|discriminate].
    rewrite Hl in Hp. change (map PField (id2 :: rest)) with (PField id2 :: map PField rest) in Hp.
    destruct child as [| |fs'| |]; try (cbn [pset_at] in Hp; discriminate).
    change (PField id2 :: map PField rest) with (map PField (id2 :: rest)) in Hp.
    destruct (pset_at S LSingular (TMsg name') (VMsg fs') (map PField (id2 :: rest)) x) as [[c' e']|] eqn:Hpc; [|discriminate].
    change (last (id :: id2 :: rest) 0) with (last (id2 :: rest) 0).
    eapply IH; eassumption.
Qed.

(* ---------------------------------------------------------------- the complete coded SetByPath on field paths of any depth *)
Theorem coded_set_refines_msgpath S root m ids x m' e R1 l R2 xo tk :
  schema_ok S = true ->
  wf_msg S root m = true -> blen (encode_msg m) < 2 ^ 63 ->
  actx S root m ids = Some (R1, l, R2, xo, tk) ->
  pset S root m (map PField ids) x = Some (m', e) ->
  frames_okE (rev l) xo (new_bytes ids tk x) ->
  coded_set all_fixes S root (encode_msg m) (map PField ids) (wenc_val (sval x)) = CRes 0 e (encode_msg m').
Proof.
  intros Hsc Hwf Hsz Hctx Hp Hok.
  destruct (actx_atype S ids root m R1 l R2 xo tk Hctx) as (t & Hat & Hpt & (d0 & Hd) & Hls).
  assert (Hpa : exists v' e', pset_at S LSingular (TMsg root) (VMsg m) (map PField ids) x = Some (v', e')).
  { unfold pset in Hp. destruct (pset_at S LSingular (TMsg root) (VMsg m) (map PField ids) x) as [[v' e']|]; [|discriminate].
    do 2 eexists. reflexivity. }
  destruct Hpa as (v' & e' & Hpa).
  destruct (pset_at_target S ids root m x v' e' t Hsc Hpa Hat) as [Hx Hidk].
  destruct (nt_facts S _ _ Hx) as (Hnm & Hnl & Hwt).
  pose proof (actx_length S ids root m R1 l R2 xo tk Hctx) as Hlen.
  pose proof (splice_relen_refines_pset S root m ids x m' e R1 l R2 xo tk (astart 0 R1 l xo - blen tk) Hwf Hctx Hp Hok) as Hfin.
  cbn zeta in Hfin. destruct Hfin as [Hfin He].
  unfold coded_set. rewrite Hpt. unfold coded_set_t. rewrite Hpt, Hls.
  assert (Hgw : get_by_path all_fixes S root (encode_msg m) (map PField ids)
                = gwalk all_fixes S ([] ++ [] ++ wenc (msg_wire m) ++ []) (blen (@nil Z)) (DMsg root) true (map PField ids) []).
  { unfold get_by_path. destruct ids; [discriminate|]. cbn [map app]. rewrite app_nil_r. reflexivity. }
  rewrite Hgw.
  rewrite (gwalk_msgs S ids root m R1 l R2 xo tk t true [] [] [] [] Hwf Hctx Hat).
  - change (blen (@nil Z)) with 0. cbn [app Z.add].
    assert (Hlv : levels (aaddrs 0 R1 l xo tk) (map PField ids)
                  = (astart 0 R1 l xo - blen tk, PT_FIELD)
                    :: map (fun a => (Z.of_nat (length R1 + a), PT_FIELD)) (frame_addrs (rev l) xo)).
    { rewrite levels_fields by (rewrite aaddrs_length; lia).
      rewrite <- map_rev, aaddrs_frames. cbn [map]. f_equal. rewrite map_map. apply map_ext.
      intros a. f_equal. rewrite Nat2Z.inj_add. unfold blen. lia. }
    assert (Es : Z.to_nat (astart 0 R1 l xo) = (length R1 + length (ctxA (rev l) xo))%nat)
      by (rewrite astart_ctxA; unfold blen; lia).
    destruct tk as [|tk0 tkr] eqn:Etk.
    + (* absent: appended at the end of the innermost message *)
      rewrite Hd. cbn [negb] in He. subst e.
      unfold set_not_found. change (11 =? 11) with true. cbv iota.
      unfold to_raw. rewrite Hnl, Hnm. cbn [orb]. rewrite Hwt, <- (sval_wt _ _ _ Hx).
      pose proof (wt_of_wval_cases (sval x)) as Hc. unfold MAX_FIELD_NUMBER in Hidk.
      rewrite Z.mod_small by (change (2 ^ 64) with 18446744073709551616; lia).
      rewrite Hlv. change (blen (@nil Z)) with 0 in *. rewrite Z.sub_0_r in *.
      unfold new_bytes, tagb in Hfin. cbn [fst snd] in Hfin.
      assert (Exo : xo = []).
      { clear -Hctx. revert root m R1 l R2 Hctx. induction ids as [|id rest IH]; intros; [discriminate|].
        cbn [actx] in Hctx. destruct (find_msg S root) as [md|]; [|discriminate].
        destruct (find_field md id) as [fd|]; [|discriminate]. destruct (fd_label fd); try discriminate.
        destruct rest as [|id2 rest].
        - destruct (fsplit id m) as [[[a v] b]|]; injection Hctx; intros; subst.
          + exfalso. eapply tagb_nonnil. eassumption.
          + reflexivity.
        - destruct (fd_type fd) as [|name']; [discriminate|]. destruct (fsplit id m) as [[[a v] b]|]; [|discriminate].
          destruct v; try discriminate.
          destruct (actx S name' fs (id2 :: rest)) as [[[[[R1' l'] R2'] xo'] tk']|] eqn:Hc; [|discriminate].
          injection Hctx; intros; subst. eapply IH. exact Hc. }
      subst xo. cbn [length] in Hfin. rewrite Nat.add_0_r in Hfin.
      rewrite Es. rewrite Hfin. reflexivity.
    + (* present: the value is replaced *)
      cbn [g_t g_start g_end].
      rewrite Z.eqb_refl.
      assert (Hnb : new_bytes ids (tk0 :: tkr) x = wenc_val (sval x)) by reflexivity.
      rewrite Hnb in Hfin. cbn [negb] in He. subst e.
      rewrite Hlv.
      assert (Ee : Z.to_nat (astart 0 R1 l xo + blen xo) = (length R1 + length (ctxA (rev l) xo) + length xo)%nat)
        by (rewrite astart_ctxA; unfold blen; lia).
      rewrite Es, Ee. cbn [last_step]. rewrite Hfin. reflexivity.
  - left. repeat split; reflexivity.
  - cbn [app]. rewrite app_nil_r. exact Hsz.
Qed.

(* ---------------------------------------------------------------- the size side condition follows from the buffer sizes *)
Definition tags_ok (l : list frame) : Prop :=
  Forall (fun f => exists id, 1 <= id <= MAX_FIELD_NUMBER /\ fr_tag f = mtag id) l.

Lemma frames_okE_from_sizes l : forall R1 R2 xo xn,
  tags_ok l ->
  blen (R1 ++ wrapE (rev l) xo ++ R2) < 2 ^ 64 -> blen (R1 ++ wrapE (rev l) xn ++ R2) < 2 ^ 64 ->
  frames_okE (rev l) xo xn.
Proof.
  induction l as [|f l IH]; intros R1 R2 xo xn Ht Ho Hn; [exact I|].
  inversion Ht as [|f' l' (id & Hid & Htag) Ht']; subst.
  cbn [rev] in *. rewrite wrapE_snoc in Ho, Hn. apply frames_okE_snoc.
  assert (Bo : blen (fr_body f (wrapE (rev l) xo)) < 2 ^ 64).
  { unfold encE1 in Ho. rewrite !blen_app in Ho. pose proof (blen_nonneg R1). pose proof (blen_nonneg R2).
    pose proof (blen_nonneg (fr_tag f)). pose proof (blen_nonneg (varint_enc (blen (fr_body f (wrapE (rev l) xo))))). lia. }
  assert (Bn : blen (fr_body f (wrapE (rev l) xn)) < 2 ^ 64).
  { unfold encE1 in Hn. rewrite !blen_app in Hn. pose proof (blen_nonneg R1). pose proof (blen_nonneg R2).
    pose proof (blen_nonneg (fr_tag f)). pose proof (blen_nonneg (varint_enc (blen (fr_body f (wrapE (rev l) xn))))). lia. }
  split; [|split; [|split; assumption]].
  - apply (IH (fr_pre f) (fr_post f)); [exact Ht'| |]; unfold fr_body in Bo, Bn; assumption.
  - exists (id * 8 + 2). split; [|exact Htag]. unfold MAX_FIELD_NUMBER in Hid. change (2 ^ 64) with 18446744073709551616. lia.
Qed.

Lemma actx_tags_ok S ids : forall name fs R1 l R2 xo tk,
  schema_ok S = true -> actx S name fs ids = Some (R1, l, R2, xo, tk) -> tags_ok l.
Proof.
  induction ids as [|id rest IH]; intros name fs R1 l R2 xo tk Hs H; [discriminate|].
  cbn [actx] in H. destruct (find_msg S name) as [md|] eqn:Hm; [|discriminate].
  destruct (find_field md id) as [fd|] eqn:Hf; [|discriminate]. destruct (fd_label fd); try discriminate.
  destruct rest as [|id2 rest].
  - destruct (fsplit id fs) as [[[a v] b]|]; injection H; intros; subst; constructor.
  - destruct (fd_type fd) as [|name']; [discriminate|]. destruct (fsplit id fs) as [[[a v] b]|]; [|discriminate].
    destruct v; try discriminate.
    destruct (actx S name' fs0 (id2 :: rest)) as [[[[[R1' l'] R2'] xo'] tk']|] eqn:Hc; [|discriminate].
    injection H; intros; subst. constructor; [|eapply IH; eassumption].
    exists id. split; [eapply schema_ok_field; eassumption|reflexivity].
Qed.

(* the theorem with natural hypotheses only: both buffers are shorter than 2^63 bytes *)
Theorem coded_set_refines_msgpath' S root m ids x m' e R1 l R2 xo tk :
  schema_ok S = true ->
  wf_msg S root m = true -> blen (encode_msg m) < 2 ^ 63 -> blen (encode_msg m') < 2 ^ 63 ->
  actx S root m ids = Some (R1, l, R2, xo, tk) ->
  pset S root m (map PField ids) x = Some (m', e) ->
  coded_set all_fixes S root (encode_msg m) (map PField ids) (wenc_val (sval x)) = CRes 0 e (encode_msg m').
Proof.
  intros Hsc Hwf Hsz Hsz' Hctx Hp.
  eapply coded_set_refines_msgpath; try eassumption.
  destruct (actx_enc_pset S ids root m R1 l R2 xo tk Hwf Hctx) as [Eenc Hset].
  unfold pset in Hp.
  destruct (pset_at S LSingular (TMsg root) (VMsg m) (map PField ids) x) as [[v' e']|] eqn:Hpa; [|discriminate].
  destruct (Hset x v' e' Hpa) as (fs' & -> & He & Eenc').
  destruct (wf_msg S root fs'); [|discriminate]. injection Hp as <- <-.
  apply (frames_okE_from_sizes l R1 R2).
  - eapply actx_tags_ok; eassumption.
  - unfold encode_msg in Hsz. rewrite Eenc in Hsz. change (2 ^ 63) with 9223372036854775808 in Hsz.
    change (2 ^ 64) with 18446744073709551616. lia.
  - unfold encode_msg in Hsz'. rewrite Eenc' in Hsz'. change (2 ^ 63) with 9223372036854775808 in Hsz'.
    change (2 ^ 64) with 18446744073709551616. lia.
Qed.

(* ---------------------------------------------------------------- histories of field-path sets at any depth *)
Definition coded_setp_bytes (S : schema) (root : list Z) (buf : list Z) (o : list Z * pval) : list Z :=
  match coded_set all_fixes S root buf (map PField (fst o)) (wenc_val (sval (snd o))) with
  | CRes 0 _ b => b
  | _ => buf
  end.
Definition spec_setp (S : schema) (root : list Z) (m : pmsg) (o : list Z * pval) : pmsg :=
  pstep_total S root m (OSet (map PField (fst o)) (snd o)).

(* every operation: a path of field numbers through present singular sub-messages to a singular field (present or
   absent), accepted by the specification; all buffers below 2^63 bytes *)
Fixpoint ops_in_msgpath_fragment (S : schema) (root : list Z) (m : pmsg) (ops : list (list Z * pval)) : Prop :=
  match ops with
  | [] => True
  | o :: r =>
    (exists c, actx S root m (fst o) = Some c) /\
    blen (encode_msg m) < 2 ^ 63 /\
    (exists m' e, pset S root m (map PField (fst o)) (snd o) = Some (m', e) /\ blen (encode_msg m') < 2 ^ 63) /\
    ops_in_msgpath_fragment S root (spec_setp S root m o) r
  end.

Theorem history_refines_msgpath S root ops : forall m,
  schema_ok S = true -> wf_msg S root m = true -> ops_in_msgpath_fragment S root m ops ->
  forall k, fold_left (coded_setp_bytes S root) (firstn k ops) (encode_msg m)
            = encode_msg (fold_left (spec_setp S root) (firstn k ops) m).
Proof.
  induction ops as [|o r IH]; intros m Hsc Hwf Hfr k.
  - rewrite firstn_nil. reflexivity.
  - destruct k as [|k]; [reflexivity|]. cbn [firstn fold_left].
    cbn [ops_in_msgpath_fragment] in Hfr. destruct Hfr as (([[[[R1 l] R2] xo] tk] & Hc) & Hsz & (m' & e & Hp & Hsz') & Hr).
    assert (Es : spec_setp S root m o = m').
    { unfold spec_setp, pstep_total. cbn [pstep_op]. rewrite Hp. reflexivity. }
    assert (Ec : coded_setp_bytes S root (encode_msg m) o = encode_msg m').
    { unfold coded_setp_bytes.
      rewrite (coded_set_refines_msgpath' S root m (fst o) (snd o) m' e R1 l R2 xo tk Hsc Hwf Hsz Hsz' Hc Hp). reflexivity. }
    rewrite Ec, Es. rewrite Es in Hr. apply IH; [exact Hsc| |exact Hr].
    eapply pset_wf. exact Hp.
Qed.

