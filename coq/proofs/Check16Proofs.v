(* C16 frame theorem over the expectation walker of Check16.v: whatever the options, every member that is present in the
   input is in the output with exactly its given value; only default / zero fills are added. *)
From Coq Require Import ZArith List Bool Lia.
From DG Require Import CaseFormat ThriftWire ThriftCut Requireness Check16.
Import ListNotations.
Local Open Scope Z_scope.

Lemma fills_only_fill decide trk fs : forall seen l, fills decide trk fs seen = EOk l ->
  forall n, In n l -> exists f, In f fs /\ (n = OVal f SDefault \/ n = OVal f SZero).
Proof.
  induction fs as [|f r IH]; intros seen l H n Hn; cbn [fills] in H.
  - inversion H; subst. destruct Hn.
  - assert (IH' : forall l', fills decide trk r seen = EOk l' -> In n l' -> exists g, In g (f :: r) /\ (n = OVal g SDefault \/ n = OVal g SZero)).
    { intros l' Hl' Hin. destruct (IH seen l' Hl' n Hin) as [g [Hg Hn']]. exists g. split; [right; exact Hg|exact Hn']. }
    destruct (mem_id (c_id f) seen || negb (trk f)); [apply (IH' l H Hn)|].
    destruct (decide f); try discriminate; [apply (IH' l H Hn)| |];
    (destruct (fills decide trk r seen) as [l'|] eqn:E; [|discriminate]; inversion H; subst l; destruct Hn as [<-|Hn];
     [exists f; split; [left; reflexivity|auto]|apply (IH' l' eq_refl Hn)]).
Qed.

Section Frame.
  Variable d : cdefs.
  Variable disallow : bool.
  Variable decide : cfld -> action.
  Variable trk : cfld -> bool.
  Variable null_seen : cfld -> bool.

  (* PRESENT FIELDS ARE UNTOUCHED: for every setting of the write / disallow options, the parse options and the null
     handling (all of them only enter through [decide], [trk], [null_seen], [disallow]) *)
  Theorem present_fields_untouched fu si ms l :
    expect16 d disallow decide trk null_seen (S fu) si ms = EOk l ->
    exists fs, cstruct d si = Some fs /\
    (forall id b j, In (PVal id b j) ms -> exists f, cfind id fs = Some f /\ In (OVal f (SGiven b j)) l) /\
    (forall id kids, In (PSub id kids) ms ->
       exists f ks, cfind id fs = Some f /\ expect16 d disallow decide trk null_seen fu (c_sub f) kids = EOk ks /\ In (OSub f ks) l) /\
    (forall f s, In (OVal f s) l -> (exists b j, s = SGiven b j /\ In (PVal (c_id f) b j) ms) \/ s = SDefault \/ s = SZero).
  Proof.
    cbn [expect16]. destruct (cstruct d si) as [fs|]; [|discriminate]. intros H. exists fs. split; [reflexivity|].
    revert l H. generalize (@nil Z) as seen. induction ms as [|m r IH]; intros seen l H.
    - split; [intros ? ? ? []|]. split; [intros ? ? []|]. intros f s Hin.
      destruct (fills_only_fill _ _ _ _ _ H _ Hin) as [g [_ [E|E]]]; inversion E; auto.
    - destruct m as [id|id b j|id kids|].
      + (* null *) destruct (cfind id fs) as [f|]; [|discriminate]. destruct (IH _ _ H) as [I1 [I2 I3]].
        split; [intros i b j [E|Hin]; [discriminate|apply I1; exact Hin]|].
        split; [intros i k [E|Hin]; [discriminate|apply I2; exact Hin]|].
        intros g s Hin. destruct (I3 g s Hin) as [[b [j [E Hp]]]|Hs]; [left; exists b, j; split; [exact E|right; exact Hp]|right; exact Hs].
      + (* value *) destruct (cfind id fs) as [f|] eqn:Ef; [|discriminate].
        match type of H with match ?W with _ => _ end = _ => destruct W as [l'|] eqn:Ew; [|discriminate] end.
        inversion H; subst l. destruct (IH _ _ Ew) as [I1 [I2 I3]].
        split; [intros i b' j' [E|Hin]; [inversion E; subst; exists f; split; [exact Ef|left; reflexivity]|
                                        destruct (I1 i b' j' Hin) as [g [Hg Hi]]; exists g; split; [exact Hg|right; exact Hi]]|].
        split; [intros i k [E|Hin]; [discriminate|destruct (I2 i k Hin) as [g [ks [Hg [He Hi]]]]; exists g, ks; repeat split; auto; right; exact Hi]|].
        intros g s [E|Hin].
        * inversion E; subst. left. exists b, j. split; [reflexivity|left].
          unfold cfind in Ef. apply find_some in Ef. destruct Ef as [_ Ee]. apply Z.eqb_eq in Ee. rewrite Ee. reflexivity.
        * destruct (I3 g s Hin) as [[b' [j' [E Hp]]]|Hs]; [left; exists b', j'; split; [exact E|right; exact Hp]|right; exact Hs].
      + (* nested struct *) destruct (cfind id fs) as [f|] eqn:Ef; [|discriminate].
        destruct (expect16 d disallow decide trk null_seen fu (c_sub f) kids) as [ks|] eqn:Ek; [|discriminate].
        match type of H with match ?W with _ => _ end = _ => destruct W as [l'|] eqn:Ew; [|discriminate] end.
        inversion H; subst l. destruct (IH _ _ Ew) as [I1 [I2 I3]].
        split; [intros i b' j' [E|Hin]; [discriminate|destruct (I1 i b' j' Hin) as [g [Hg Hi]]; exists g; split; [exact Hg|right; exact Hi]]|].
        split; [intros i k [E|Hin]; [inversion E; subst; exists f, ks; repeat split; auto; left; reflexivity|
                                    destruct (I2 i k Hin) as [g [ks' [Hg [He Hi]]]]; exists g, ks'; repeat split; auto; right; exact Hi]|].
        intros g s [E|Hin]; [discriminate|].
        destruct (I3 g s Hin) as [[b' [j' [E Hp]]]|Hs]; [left; exists b', j'; split; [exact E|right; exact Hp]|right; exact Hs].
      + (* unknown member *) destruct disallow; [discriminate|]. destruct (IH _ _ H) as [I1 [I2 I3]].
        split; [intros i b j [E|Hin]; [discriminate|apply I1; exact Hin]|].
        split; [intros i k [E|Hin]; [discriminate|apply I2; exact Hin]|].
        intros g s Hin. destruct (I3 g s Hin) as [[b [j [E Hp]]]|Hs]; [left; exists b, j; split; [exact E|right; exact Hp]|right; exact Hs].
  Qed.

  (* an unknown member is an error exactly when unknown fields are disallowed (first such member, before the struct end) *)
  Theorem unknown_member_error fu si ms l :
    In PUnknown ms -> expect16 d disallow decide trk null_seen (S fu) si ms = EOk l -> disallow = false.
  Proof.
    cbn [expect16]. destruct (cstruct d si) as [fs|]; [|discriminate]. intros Hin. revert l. generalize (@nil Z) as seen.
    induction ms as [|m r IH]; intros seen l H; [destruct Hin|].
    destruct Hin as [->|Hin].
    - destruct disallow; [discriminate|reflexivity].
    - destruct m as [id|id b j|id kids|].
      + destruct (cfind id fs); [|discriminate]. apply (IH Hin _ _ H).
      + destruct (cfind id fs); [|discriminate].
        match type of H with match ?W with _ => _ end = _ => destruct W as [l'|] eqn:Ew; [|discriminate] end. apply (IH Hin _ _ Ew).
      + destruct (cfind id fs) as [f|]; [|discriminate]. destruct (expect16 _ _ _ _ _ fu (c_sub f) kids); [|discriminate].
        match type of H with match ?W with _ => _ end = _ => destruct W as [l'|] eqn:Ew; [|discriminate] end. apply (IH Hin _ _ Ew).
      + destruct disallow; [discriminate|reflexivity].
  Qed.
End Frame.
