(* C19: reading a well-formed value as a generic Go value (ReadAnyWithDesc) and writing that Go value back with the
   same descriptor (WriteAnyWithDesc) yields the value again — for both byte representations, string and binary. *)
From Coq Require Import ZArith List Bool Lia.
From DG Require Import ProtoWireRef ProtoWireRefProofs ThriftWire ThriftWireProofs ThriftGeneric ThriftAny.
Import ListNotations.
Local Open Scope Z_scope.

Lemma to_s8_id z : in_sb 8 z = true -> to_s 8 z = z.
Proof.
  intros H. apply in_sb_true in H. unfold to_s. change (2 ^ (8 - 1)) with 128 in *. change (2 ^ 8) with 256.
  rewrite Z.mod_small by lia. lia.
Qed.

Lemma to_s8_mod z : in_sb 8 z = true -> to_s 8 (z mod 256) = z.
Proof.
  intros H. apply in_sb_true in H. unfold to_s. change (2 ^ (8 - 1)) with 128 in *. change (2 ^ 8) with 256.
  rewrite Zplus_mod_idemp_l. rewrite Z.mod_small by lia. lia.
Qed.

Lemma map_id_on {A} (f : A -> A) (l : list A) : Forall (fun x => f x = x) l -> map f l = l.
Proof. induction 1 as [|x l Hx _ IH]; cbn [map]; [reflexivity|]. rewrite Hx, IH. reflexivity. Qed.

Theorem write_read_any : forall u8 bin v, wf v = true -> write_any (read_any u8 bin v) = v.
Proof.
  intros u8 bin.
  induction v as [b|z|z|z|z|z|s|fs IH|kt vt es IH|et es IH|et es IH] using tval_ind'; intros Hw; cbn [read_any write_any]; try reflexivity.
  - (* byte *) cbn [wf] in Hw. change (T_BYTE =? T_BYTE) with true. cbn iota.
    destruct u8; [rewrite to_s8_mod|rewrite to_s8_id]; auto.
  - (* struct *) f_equal. rewrite map_map. apply map_id_on.
    cbn [wf] in Hw. rewrite forallb_forall in Hw. rewrite Forall_forall in *. intros f Hin. cbn [fst snd].
    specialize (Hw f Hin). apply andb_true_iff in Hw. destruct Hw as [_ Hwf]. rewrite (IH f Hin Hwf). destruct f; reflexivity.
  - (* map *) f_equal. rewrite map_map. apply map_id_on.
    cbn [wf] in Hw. apply andb_true_iff in Hw. destruct Hw as [_ Hall]. rewrite forallb_forall in Hall.
    rewrite Forall_forall in *. intros e Hin. cbn [fst snd]. specialize (Hall e Hin). destruct (IH e Hin) as [IHk IHv].
    repeat (apply andb_true_iff in Hall; destruct Hall as [Hall ?]).
    match goal with H : wf (snd e) = true |- _ => rewrite (IHv H) end.
    apply Z.eqb_eq in Hall. destruct e as [k x]. cbn [fst snd] in *. f_equal.
    destruct (kt =? T_STRING) eqn:Es.
    + apply Z.eqb_eq in Es. subst kt. destruct k; try discriminate Es. reflexivity.
    + destruct (is_int_type kt) eqn:Ei.
      * subst kt. destruct k; try discriminate Ei; cbn [int_of_key write_any retag type_of]; try reflexivity.
        change (0 =? T_BYTE) with false. change (0 =? T_I16) with false. change (0 =? T_I32) with false. cbn iota. cbn [retag].
        change (T_BYTE =? T_BYTE) with true. cbn iota. rewrite to_s8_mod; [reflexivity|].
        match goal with H : wf (VByte _) = true |- _ => exact H end.
      * match goal with H : wf k = true |- _ => rewrite (IHk H) end.
        subst kt. destruct k; reflexivity.
  - (* set *) f_equal. rewrite map_map. apply map_id_on.
    cbn [wf] in Hw. apply andb_true_iff in Hw. destruct Hw as [_ Hall]. rewrite forallb_forall in Hall.
    rewrite Forall_forall in *. intros e Hin. specialize (Hall e Hin). apply andb_true_iff in Hall. destruct Hall as [_ Hwf]. auto.
  - (* list *) f_equal. rewrite map_map. apply map_id_on.
    cbn [wf] in Hw. apply andb_true_iff in Hw. destruct Hw as [_ Hall]. rewrite forallb_forall in Hall.
    rewrite Forall_forall in *. intros e Hin. specialize (Hall e Hin). apply andb_true_iff in Hall. destruct Hall as [_ Hwf]. auto.
Qed.

(* ... hence the bytes written for the Go value that was read are the bytes that were read *)
Corollary write_read_any_bytes u8 bin v : wf v = true -> encode (write_any (read_any u8 bin v)) = encode v.
Proof. intros H. rewrite write_read_any by exact H. reflexivity. Qed.

(* and reading them back with the proved decoder yields the value *)
Corollary write_read_any_decodes u8 bin v r : wf v = true ->
  decode (depth v) (type_of v) (encode (write_any (read_any u8 bin v)) ++ r) = Some (v, r).
Proof. intros H. rewrite write_read_any by exact H. apply decode_encode; [exact H|lia]. Qed.
