(* (G) conv/j2p encodeMapKey, translated from the Go source on every build (gen/Gen_j2pkey.v: the strconv parsers are oracle inputs, the
   writes go through the generated proto/binary writers of gen/Gen_protobinary.v), against J2P.encode_map_key: which parser with which
   bit size each key kind uses, and the bytes appended. *)
From Coq Require Import ZArith List Bool Lia.
From DG Require Import GoSem GoSemLemmas ProtoWireRef ProtoWireRefProofs Gen_protowire GenProtowireProofs CaseFormat Check20h.
From DG Require Gen_protobinary Gen_j2pkey J2P Num Json ProtoMsg.
Import ListNotations.
Local Open Scope Z_scope.

Lemma digits_val_nonneg ds : forall acc, forallb Json.is_digit ds = true -> 0 <= acc -> 0 <= Num.digits_val ds acc.
Proof.
  unfold Num.digits_val. induction ds as [|d ds IH]; intros acc H Ha; [exact Ha|]. cbn [fold_left forallb] in *.
  apply andb_true_iff in H. destruct H as [Hd H]. apply IH; [exact H|]. unfold Json.is_digit in Hd. apply andb_true_iff in Hd. destruct Hd as [H1 H2]. apply Z.leb_le in H1. lia.
Qed.

Lemma parse_int_range s bits z : J2P.go_parse_int s bits = Some z -> - 2 ^ (bits - 1) <= z < 2 ^ (bits - 1).
Proof.
  unfold J2P.go_parse_int. destruct (match s with | [] => s | c :: r => if (c =? 43) || (c =? 45) then r else s end) as [|x r]; [discriminate|].
  destruct (forallb Json.is_digit (x :: r)); [|discriminate].
  cbv zeta. match goal with |- (if (?a <? ?lo) || (?hi <=? ?a) then None else Some ?a) = Some z -> _ =>
    intros H; destruct (a <? lo) eqn:E1; destruct (hi <=? a) eqn:E2; cbn [orb] in H; try discriminate; injection H as Hz; rewrite <- Hz;
    apply Z.ltb_ge in E1; apply Z.leb_gt in E2; exact (conj E1 E2) end.
Qed.

Lemma parse_uint_range s bits z : J2P.go_parse_uint s bits = Some z -> 0 <= z < 2 ^ bits.
Proof.
  unfold J2P.go_parse_uint. destruct s as [|x r]; [discriminate|]. destruct (forallb Json.is_digit (x :: r)) eqn:D; [|discriminate].
  destruct (Num.digits_val (x :: r) 0 <? 2 ^ bits) eqn:E; [|discriminate]. intros H. injection H as Hz. rewrite <- Hz. apply Z.ltb_lt in E.
  split; [exact (digits_val_nonneg (x :: r) 0 D ltac:(lia)) | exact E].
Qed.

Lemma wrapu64_mod z : wrapu 64 z = z mod 2 ^ 64. Proof. reflexivity. Qed.

(* the generated function, fed with the answers of the model's strconv parsers, IS the model's encode_map_key: same success / failure
   for every key text and key kind, and on success the same bytes appended; on failure the buffer is untouched; the cursor never moves *)
(* (string keys: the model tests UTF-8 validity with Json.utf8_valid, the generated WriteString with GoSem.utf8_valid, the mirror of
   utf8.ValidString; the two predicates are required to agree on the key - check 991 evaluates both on every case) *)
Theorem encodeMapKey_is_model buf rd key kk : ProtoMsg.plen key < 2 ^ 64 -> (kk = 9 -> GoSem.utf8_valid key = Json.utf8_valid key) ->
  match J2P.encode_map_key buf key kk with
  | Some b => exists eff, gen_key buf rd key kk = (0, eff, b, rd)
  | None => exists e eff, gen_key buf rd key kk = (e, eff, buf, rd) /\ e <> 0
  end.
Proof.
  intros Hk Hu. unfold J2P.encode_map_key, gen_key, Gen_j2pkey.visitorUserNode_encodeMapKey.
  destruct (kk =? 5) eqn:K5.
  { destruct (J2P.go_parse_int key 32) as [z|] eqn:P; cbn [ok_or].
    - pose proof (parse_int_range _ _ _ P) as R. change (2 ^ (32 - 1)) with 2147483648 in R.
      destruct (J2P.go_parse_uint key 32), (J2P.go_parse_uint key 64), (J2P.go_parse_int key 64), (J2P.go_parse_bool key); cbn [ok_or Z.eqb negb];
      unfold Gen_protobinary.BinaryProtocol_WriteInt32, BinaryEncoder_EncodeInt32;
      rewrite wraps_small by (change (2 ^ (32 - 1)) with 2147483648; lia); rewrite wrapu64_mod;
      rewrite AppendVarint_ref by (apply Z.mod_pos_bound; lia); eexists; reflexivity.
    - destruct (J2P.go_parse_uint key 32), (J2P.go_parse_uint key 64), (J2P.go_parse_int key 64), (J2P.go_parse_bool key); cbn [ok_or Z.eqb negb];
      eexists; eexists; (split; [reflexivity|discriminate]). }
  destruct (kk =? 13) eqn:K13.
  { destruct (J2P.go_parse_uint key 32) as [z|] eqn:P; cbn [ok_or].
    - pose proof (parse_uint_range _ _ _ P) as R. change (2 ^ 32) with 4294967296 in R.
      destruct (J2P.go_parse_int key 32), (J2P.go_parse_uint key 64), (J2P.go_parse_int key 64), (J2P.go_parse_bool key); cbn [ok_or Z.eqb negb];
      unfold Gen_protobinary.BinaryProtocol_WriteUint32, BinaryEncoder_EncodeUint32;
      rewrite wrapu_small by (change (2 ^ 32) with 4294967296; lia);
      rewrite AppendVarint_ref by (change (2 ^ 64) with 18446744073709551616; lia); eexists; reflexivity.
    - destruct (J2P.go_parse_int key 32), (J2P.go_parse_uint key 64), (J2P.go_parse_int key 64), (J2P.go_parse_bool key); cbn [ok_or Z.eqb negb];
      eexists; eexists; (split; [reflexivity|discriminate]). }
  destruct (kk =? 4) eqn:K4.
  { destruct (J2P.go_parse_uint key 64) as [z|] eqn:P; cbn [ok_or].
    - pose proof (parse_uint_range _ _ _ P) as R.
      destruct (J2P.go_parse_int key 32), (J2P.go_parse_uint key 32), (J2P.go_parse_int key 64), (J2P.go_parse_bool key); cbn [ok_or Z.eqb negb];
      unfold Gen_protobinary.BinaryProtocol_WriteUint64, BinaryEncoder_EncodeUint64;
      rewrite AppendVarint_ref by exact R; eexists; reflexivity.
    - destruct (J2P.go_parse_int key 32), (J2P.go_parse_uint key 32), (J2P.go_parse_int key 64), (J2P.go_parse_bool key); cbn [ok_or Z.eqb negb];
      eexists; eexists; (split; [reflexivity|discriminate]). }
  destruct (kk =? 3) eqn:K3.
  { destruct (J2P.go_parse_int key 64) as [z|] eqn:P; cbn [ok_or].
    - destruct (J2P.go_parse_int key 32), (J2P.go_parse_uint key 32), (J2P.go_parse_uint key 64), (J2P.go_parse_bool key); cbn [ok_or Z.eqb negb];
      unfold Gen_protobinary.BinaryProtocol_WriteInt64, BinaryEncoder_EncodeInt64; rewrite wrapu64_mod;
      rewrite AppendVarint_ref by (apply Z.mod_pos_bound; lia); eexists; reflexivity.
    - destruct (J2P.go_parse_int key 32), (J2P.go_parse_uint key 32), (J2P.go_parse_uint key 64), (J2P.go_parse_bool key); cbn [ok_or Z.eqb negb];
      eexists; eexists; (split; [reflexivity|discriminate]). }
  destruct (kk =? 8) eqn:K8.
  { destruct (J2P.go_parse_bool key) as [b|] eqn:P.
    - destruct (J2P.go_parse_int key 32), (J2P.go_parse_uint key 32), (J2P.go_parse_uint key 64), (J2P.go_parse_int key 64); cbn [ok_or Z.eqb negb];
      unfold Gen_protobinary.BinaryProtocol_WriteBool, Gen_protobinary.BinaryProtocol_WriteUint64, BinaryEncoder_EncodeUint64;
      destruct b; rewrite AppendVarint_ref by (change (2 ^ 64) with 18446744073709551616; lia); eexists; reflexivity.
    - destruct (J2P.go_parse_int key 32), (J2P.go_parse_uint key 32), (J2P.go_parse_uint key 64), (J2P.go_parse_int key 64); cbn [ok_or Z.eqb negb];
      eexists; eexists; (split; [reflexivity|discriminate]). }
  destruct (kk =? 9) eqn:K9.
  { apply Z.eqb_eq in K9. specialize (Hu K9). unfold Gen_protobinary.BinaryProtocol_WriteString, BinaryEncoder_EncodeString, J2P.lenpref. rewrite Hu.
    destruct (J2P.go_parse_int key 32), (J2P.go_parse_uint key 32), (J2P.go_parse_uint key 64), (J2P.go_parse_int key 64), (J2P.go_parse_bool key); cbn [ok_or];
    (destruct (Json.utf8_valid key); cbn [negb Z.eqb];
     [ assert (B : blen key = ProtoMsg.plen key) by reflexivity; rewrite wrapu_small by (rewrite B; unfold ProtoMsg.plen in *; lia);
       rewrite AppendVarint_ref by (rewrite B; unfold ProtoMsg.plen in *; lia); rewrite B, app_assoc; eexists; reflexivity
     | eexists; eexists; (split; [reflexivity|discriminate]) ]). }
  destruct (J2P.go_parse_int key 32), (J2P.go_parse_uint key 32), (J2P.go_parse_uint key 64), (J2P.go_parse_int key 64), (J2P.go_parse_bool key); cbn [ok_or];
  eexists; eexists; (split; [reflexivity|discriminate]).
Qed.

(* which parser, base and bit size each key kind uses (the first effect of the trace) *)
Theorem encodeMapKey_parsers buf rd key :
  (forall kk, kk = 5 \/ kk = 3 -> exists r, snd (fst (fst (gen_key buf rd key kk))) = [(Gen_j2pkey.Eff_ParseInt, [10; if kk =? 5 then 32 else 64])] /\ r = tt) /\
  (forall kk, kk = 13 \/ kk = 4 -> exists r, snd (fst (fst (gen_key buf rd key kk))) = [(Gen_j2pkey.Eff_ParseUint, [10; if kk =? 13 then 32 else 64])] /\ r = tt).
Proof.
  split; intros kk [-> | ->]; exists tt; (split; [|reflexivity]); unfold gen_key, Gen_j2pkey.visitorUserNode_encodeMapKey; cbn [Z.eqb Pos.eqb];
  destruct (J2P.go_parse_int key 32), (J2P.go_parse_uint key 32), (J2P.go_parse_uint key 64), (J2P.go_parse_int key 64), (J2P.go_parse_bool key); cbn [ok_or Z.eqb negb];
  reflexivity.
Qed.
