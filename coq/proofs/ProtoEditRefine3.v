(* C10: failed operations of the coded SetByPath on field paths of any depth (all repairs in): an ill-typed sub node on
   an existing value, and a path that runs into an absent intermediate message: error class 1, buffer unchanged; the
   specification fails as well. *)
From Coq Require Import ZArith List Bool Arith Lia.
From DG Require Import CaseFormat ProtoWireRef ProtoWireRefProofs ProtoMsg ProtoMsgProofs ProtoRelen ProtoRelenProofs
  ProtoEdit ProtoEditCoded ProtoEditProofs ProtoEditRefine ProtoEditRefine2.
Import ListNotations.
Local Open Scope Z_scope.

Lemma get_by_path_root S root m ids : ids <> [] ->
  get_by_path all_fixes S root (encode_msg m) (map PField ids)
  = gwalk all_fixes S ([] ++ [] ++ wenc (msg_wire m) ++ []) (blen (@nil Z)) (DMsg root) true (map PField ids) [].
Proof. intros H. unfold get_by_path. destruct ids; [contradiction|]. cbn [map app]. rewrite app_nil_r. reflexivity. Qed.

(* ---------------------------------------------------------------- a node of the wrong type on an existing value *)
Theorem coded_set_wrong_type_msgpath S root m ids R1 l R2 xo tk t sub nk :
  wf_msg S root m = true -> blen (encode_msg m) < 2 ^ 63 ->
  actx S root m ids = Some (R1, l, R2, xo, tk) -> tk <> [] ->
  atype S root ids = Some t -> nk <> td_type (td_base t) ->
  coded_set_t all_fixes S root (encode_msg m) (map PField ids) sub nk = CRes 1 true (encode_msg m).
Proof.
  intros Hwf Hsz Hctx Htk Hat Hnk.
  destruct (actx_atype S ids root m R1 l R2 xo tk Hctx) as (t' & Hat' & Hpt & _ & Hls).
  rewrite Hat in Hat'. injection Hat' as <-.
  pose proof (actx_length S ids root m R1 l R2 xo tk Hctx) as Hlen.
  unfold coded_set_t. rewrite Hpt, Hls.
  rewrite get_by_path_root by (intros ->; discriminate).
  rewrite (gwalk_msgs S ids root m R1 l R2 xo tk t true [] [] [] [] Hwf Hctx Hat).
  - destruct tk as [|z tk']; [contradiction|]. cbn [g_t].
    destruct (Z.eqb_spec (td_type (td_base t)) nk) as [E|E]; [symmetry in E; contradiction|]. reflexivity.
  - left. repeat split; reflexivity.
  - cbn [app]. rewrite app_nil_r. exact Hsz.
Qed.

(* the specification refuses a sub value that does not fit the declared type of an existing target *)
Lemma pset_at_illtyped S ids : forall name fs R1 l R2 xo tk t x,
  actx S name fs ids = Some (R1, l, R2, xo, tk) -> tk <> [] ->
  atype S name ids = Some t -> wf_fld S LSingular t x = false ->
  pset_at S LSingular (TMsg name) (VMsg fs) (map PField ids) x = None.
Proof.
  induction ids as [|id rest IH]; intros name fs R1 l R2 xo tk t x Hctx Htk Hat Hx; [discriminate|].
  cbn [actx] in Hctx. cbn [atype] in Hat.
  destruct (find_msg S name) as [md|] eqn:Hm; [|discriminate].
  destruct (find_field md id) as [fd|] eqn:Hf; [|discriminate].
  assert (Enum : fd_num fd = id).
  { unfold find_field in Hf. apply find_some in Hf. destruct Hf as [_ Hf']. apply Z.eqb_eq in Hf'. exact Hf'. }
  destruct (fd_label fd) eqn:Hl; try discriminate.
  cbn [map]. rewrite (pset_at_msg_step S name md fs id _ x fd Hm Hf). rewrite Enum.
  destruct rest as [|id2 rest].
  - injection Hat as <-.
    destruct (fsplit id fs) as [[[a v] b]|] eqn:Hs.
    + destruct (fsplit_some _ _ _ _ _ Hs) as (_ & _ & Has & _). rewrite Has, Hl. cbn [map pset_at]. rewrite Hx. reflexivity.
    + injection Hctx; intros; subst. contradiction.
  - destruct (fd_type fd) as [|name'] eqn:Ht; [discriminate|].
    destruct (fsplit id fs) as [[[a v] b]|] eqn:Hs; [|discriminate].
    destruct v as [| |fs'| |]; try discriminate.
    destruct (actx S name' fs' (id2 :: rest)) as [[[[[R1' l'] R2'] xo'] tk']|] eqn:Hc; [|discriminate].
    injection Hctx; intros; subst.
    destruct (fsplit_some _ _ _ _ _ Hs) as (_ & _ & Has & _). rewrite Has, Hl.
    change (map PField (id2 :: rest)) with (PField id2 :: map PField rest).
    change (PField id2 :: map PField rest) with (map PField (id2 :: rest)).
    rewrite (IH name' fs' R1' l' R2' xo tk t x Hc Htk Hat Hx). reflexivity.
Qed.

(* ---------------------------------------------------------------- the path runs into an ABSENT intermediate message *)
(* the path walks through present singular sub-messages and reaches, with steps still to go, a declared field that the
   message does not hold *)
Fixpoint absent_inner (S : schema) (name : list Z) (fs : pmsg) (ids : list Z) {struct ids} : bool :=
  match ids with
  | id :: ((_ :: _) as rest) =>
    match find_msg S name with
    | None => false
    | Some md =>
      match find_field md id with
      | None => false
      | Some fd =>
        match fd_label fd, fd_type fd with
        | LSingular, TMsg name' =>
          match fsplit id fs with
          | None => true
          | Some (_, VMsg fs', _) => absent_inner S name' fs' rest
          | Some _ => false
          end
        | _, _ => false
        end
      end
    end
  | _ => false
  end.

Lemma gwalk_absent_inner S ids : forall name fs isRoot A hdr B addr,
  wf_fld S LSingular (TMsg name) (VMsg fs) = true ->
  absent_inner S name fs ids = true ->
  let body := wenc (msg_wire fs) in
  level_ok isRoot A hdr body B ->
  blen (A ++ hdr ++ body ++ B) < 2 ^ 63 ->
  exists addr', gwalk all_fixes S (A ++ hdr ++ body ++ B) (blen A) (DMsg name) isRoot (map PField ids) addr = GErr true addr'.
Proof.
  induction ids as [|id rest IH]; intros name fs isRoot A hdr B addr Hwf Hab body Hlv Hsz; [discriminate|].
  destruct rest as [|id2 rest]; [discriminate|].
  cbn [absent_inner] in Hab.
  destruct (find_msg S name) as [md|] eqn:Hm; [|discriminate].
  destruct (find_field md id) as [fd|] eqn:Hf; [|discriminate].
  assert (Enum : fd_num fd = id).
  { unfold find_field in Hf. apply find_some in Hf. destruct Hf as [_ Hf']. apply Z.eqb_eq in Hf'. exact Hf'. }
  destruct (fd_label fd) eqn:Hl; try discriminate.
  destruct (fd_type fd) as [|name'] eqn:Ht; [discriminate|].
  destruct (wf_msg_fields S name md fs Hm Hwf) as (Hnd & Hlen & Hall).
  assert (Etd : td_of_field fd = DMsg name') by (unfold td_of_field; rewrite Hl, Ht; reflexivity).
  pose proof (blen_nonneg A) as HA0. pose proof (blen_nonneg hdr) as Hh0. pose proof (blen_nonneg B) as HB0.
  assert (Hsz1 : blen (A ++ hdr ++ body) < 2 ^ 63) by (rewrite !blen_app in *; lia).
  set (o := blen A + blen hdr).
  cbn [map gwalk]. rewrite (gstep_msg S name md id fd isRoot A hdr body B Hlv Hm Hf Hsz). rewrite Enum.
  assert (Haddr0 : forall ad : list Z, match ad with [] => ad | _ :: _ => if fx_mapentry all_fixes && negb (-2 =? -2) then removelast ad ++ [-2] else ad end = ad)
    by (intros [|]; reflexivity).
  destruct (fsplit id fs) as [[[a v] b]|] eqn:Hs.
  - destruct v as [| |fs'| |]; try discriminate.
    destruct (fsplit_some _ _ _ _ _ Hs) as (Efs & Hno & Has & Hset).
    assert (Hin : In (id, VMsg fs') fs) by (rewrite Efs; apply in_or_app; right; left; reflexivity).
    destruct (Hall _ Hin) as (fd' & Hf' & Hn & Hv). cbn [fst snd] in *. rewrite Hf in Hf'. injection Hf' as <-.
    rewrite Hl, Ht in Hv.
    assert (Ha : forall nv, In nv a -> exists fd, find_field md (fst nv) = Some fd /\ 1 <= fst nv <= MAX_FIELD_NUMBER /\
                                                  wf_fld S (fd_label fd) (fd_type fd) (snd nv) = true).
    { intros nv Hi. apply Hall. rewrite Efs. apply in_or_app. left. exact Hi. }
    destruct (msg_wire_facts S md a id Ha) as [Wa Na]. specialize (Na Hno).
    set (f := (id, sval (VMsg fs'))).
    assert (Wf : wf_wfield f = true) by (apply (wire_single_field S (TMsg name')); assumption).
    assert (Ebody : body = wenc (msg_wire a) ++ wenc_field f ++ wenc (msg_wire b)).
    { unfold body. rewrite Efs at 1. rewrite msg_wire_app, msg_wire_cons, !wenc_app.
      rewrite (wfld_single _ _ _ id Hv). rewrite wenc_cons. cbn [wenc flat_map]. rewrite app_nil_r. reflexivity. }
    assert (Ebuf1 : A ++ hdr ++ body = (A ++ hdr) ++ wenc (msg_wire a) ++ wenc_field f ++ wenc (msg_wire b))
      by (rewrite Ebody, <- !app_assoc; reflexivity).
    set (pos := o + blen (wenc (msg_wire a))).
    assert (Hsearch : search_field all_fixes (Datatypes.S (length (A ++ hdr ++ body ++ B))) (A ++ hdr ++ body)
                                   (blen A + blen hdr) id (blen A + blen hdr + blen body) = EOk (pos, pos, true)).
    { rewrite Ebuf1. rewrite <- blen_app. change id with (fst f).
      rewrite (search_field_found all_fixes (msg_wire a) (A ++ hdr) f (wenc (msg_wire b))); try assumption.
      - unfold pos, o. rewrite blen_app. reflexivity.
      - rewrite <- Ebuf1. exact Hsz1.
      - rewrite Ebody, !blen_app. pose proof (wenc_field_pos f). pose proof (blen_nonneg (wenc (msg_wire b))). lia.
      - pose proof (wenc_length_ge (msg_wire a)) as Hg. rewrite Ebody. rewrite !app_length. lia. }
    rewrite Hsearch. cbn [ebind negb]. rewrite Haddr0.
    cbn [map is_last]. change (PField id2 :: map PField rest) with (map PField (id2 :: rest)).
    assert (Ef : wenc_field f = mtag id ++ varint_enc (blen (wenc (msg_wire fs'))) ++ wenc (msg_wire fs')) by reflexivity.
    unfold c_tag. rewrite Ebuf1. unfold pos, o. rewrite <- blen_app.
    rewrite (app_assoc (A ++ hdr) (wenc (msg_wire a))). rewrite <- blen_app.
    rewrite (c_tag_peek_field ((A ++ hdr) ++ wenc (msg_wire a)) f (wenc (msg_wire b)) Wf). cbn [ebind].
    rewrite Etd.
    assert (Enext : ((A ++ hdr) ++ wenc (msg_wire a)) ++ wenc_field f ++ wenc (msg_wire b)
                    = (((A ++ hdr) ++ wenc (msg_wire a)) ++ mtag id) ++ varint_enc (blen (wenc (msg_wire fs'))) ++ wenc (msg_wire fs') ++ wenc (msg_wire b))
      by (rewrite Ef, <- !app_assoc; reflexivity).
    rewrite Enext.
    assert (Erd : blen ((A ++ hdr) ++ wenc (msg_wire a)) + blen (tagb f) = blen (((A ++ hdr) ++ wenc (msg_wire a)) ++ mtag id))
      by (rewrite (blen_app _ (mtag id)); reflexivity).
    rewrite Erd.
    apply (IH name' fs' false (((A ++ hdr) ++ wenc (msg_wire a)) ++ mtag id) (varint_enc (blen (wenc (msg_wire fs'))))
              (wenc (msg_wire b)) (addr ++ [blen ((A ++ hdr) ++ wenc (msg_wire a))]) Hv Hab).
    + right. split; reflexivity.
    + rewrite <- Enext, <- app_assoc, <- Ebuf1. exact Hsz1.
  - destruct (fsplit_none _ _ Hs) as [Has Hno].
    destruct (msg_wire_facts S md fs id Hall) as [Wm Nm]. specialize (Nm Hno).
    assert (Hsearch : search_field all_fixes (Datatypes.S (length (A ++ hdr ++ body ++ B))) (A ++ hdr ++ body)
                                   (blen A + blen hdr) id (blen A + blen hdr + blen body)
                      = EOk (o + blen body, o + blen body, false)).
    { pose proof (search_field_absent all_fixes (msg_wire fs) (A ++ hdr) [] (Datatypes.S (length (A ++ hdr ++ body ++ B))) id Wm Nm) as Hs'.
      rewrite app_nil_r, <- app_assoc in Hs'. rewrite !blen_app in Hs'. unfold o, body. apply Hs'.
      - rewrite !blen_app in Hsz1. unfold body in Hsz1. lia.
      - pose proof (wenc_length_ge (msg_wire fs)). unfold body. rewrite !app_length. lia. }
    rewrite Hsearch. cbn [ebind negb map is_last]. eexists. reflexivity.
Qed.

Lemma pset_at_absent_inner S ids : forall name fs x,
  absent_inner S name fs ids = true ->
  pset_at S LSingular (TMsg name) (VMsg fs) (map PField ids) x = None.
Proof.
  induction ids as [|id rest IH]; intros name fs x Hab; [discriminate|].
  destruct rest as [|id2 rest]; [discriminate|].
  cbn [absent_inner] in Hab.
  destruct (find_msg S name) as [md|] eqn:Hm; [|discriminate].
  destruct (find_field md id) as [fd|] eqn:Hf; [|discriminate].
  assert (Enum : fd_num fd = id).
  { unfold find_field in Hf. apply find_some in Hf. destruct Hf as [_ Hf']. apply Z.eqb_eq in Hf'. exact Hf'. }
  destruct (fd_label fd) eqn:Hl; try discriminate.
  destruct (fd_type fd) as [|name'] eqn:Ht; [discriminate|].
  cbn [map]. rewrite (pset_at_msg_step S name md fs id _ x fd Hm Hf). rewrite Enum.
  destruct (fsplit id fs) as [[[a v] b]|] eqn:Hs.
  - destruct v as [| |fs'| |]; try discriminate.
    destruct (fsplit_some _ _ _ _ _ Hs) as (_ & _ & Has & _). rewrite Has, Hl, Ht.
    change (PField id2 :: map PField rest) with (map PField (id2 :: rest)).
    rewrite (IH name' fs' x Hab). reflexivity.
  - destruct (fsplit_none _ _ Hs) as [Has _]. rewrite Has. reflexivity.
Qed.

(* the coded entry point: error class 1, buffer unchanged; the specification fails too *)
Theorem coded_set_absent_inner_msgpath S root m ids t sub nk x :
  wf_msg S root m = true -> blen (encode_msg m) < 2 ^ 63 ->
  absent_inner S root m ids = true ->
  path_type_lax S LSingular (TMsg root) (map PField ids) = Some (LSingular, t) ->
  coded_set_t all_fixes S root (encode_msg m) (map PField ids) sub nk = CRes 1 false (encode_msg m) /\
  pset S root m (map PField ids) x = None.
Proof.
  intros Hwf Hsz Hab Hpt. split.
  - unfold coded_set_t. rewrite Hpt.
    assert (Hne : ids <> []) by (intros ->; discriminate).
    destruct ids as [|id rest]; [contradiction|].
    destruct (last_step (map PField (id :: rest))) as [lst|] eqn:Hls.
    + rewrite get_by_path_root by discriminate.
      destruct (gwalk_absent_inner S (id :: rest) root m true [] [] [] [] Hwf Hab) as (addr' & Hg).
      * left. repeat split; reflexivity.
      * cbn [app]. rewrite app_nil_r. exact Hsz.
      * rewrite Hg. reflexivity.
    + exfalso. unfold last_step in Hls. clear -Hls. revert id Hls. induction rest as [|q r IH]; intros id Hls; [discriminate|].
      cbn [map last] in *. eapply IH. exact Hls.
  - unfold pset. rewrite (pset_at_absent_inner S ids root m x Hab). reflexivity.
Qed.
