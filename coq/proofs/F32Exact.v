(* binary32: dec2f32 maps the exact decimal of a float widened to double (P2J.widen32) back to the float's bits. *)
From Coq Require Import ZArith List Bool Lia.
From DG Require Import CaseFormat ProtoWireRef ProtoMsg Json Num T2J P2J RoundTripP JsonProofs NumProofs T2JProofs FpExact F64Exact.
Import ListNotations.
Local Open Scope Z_scope.

Lemma decomp64 s EX FR : (s = 0 \/ s = 1) -> 0 <= EX < 2048 -> 0 <= FR < 2 ^ 52 ->
  let B := s * 2 ^ 63 + EX * 2 ^ 52 + FR in
  (B / 2 ^ 52) mod 2048 = EX /\ B mod 2 ^ 52 = FR /\ (2 ^ 63 <=? B) = (s =? 1) /\ 0 <= B < 2 ^ 64.
Proof.
  intros Hs HEX HFR B. unfold B. change (2 ^ 52) with 4503599627370496 in *. change (2 ^ 63) with 9223372036854775808.
  change (2 ^ 64) with 18446744073709551616.
  destruct Hs as [-> | ->]; cbn [Z.eqb Pos.eqb].
  - destruct (Z.leb_spec 9223372036854775808 (0 * 9223372036854775808 + EX * 4503599627370496 + FR));
      repeat split; try (Z.div_mod_to_equations; lia); lia.
  - destruct (Z.leb_spec 9223372036854775808 (1 * 9223372036854775808 + EX * 4503599627370496 + FR));
      repeat split; try (Z.div_mod_to_equations; lia); lia.
Qed.

Lemma exact_dec_of s EX FR : (s = 0 \/ s = 1) -> 0 <= EX < 2048 -> 0 <= FR < 2 ^ 52 ->
  exact_dec (s * 2 ^ 63 + EX * 2 ^ 52 + FR) =
  (s =? 1,
   (if (if EX =? 0 then FR else FR + 2 ^ 52) =? 0 then 0
    else if 0 <=? (if EX =? 0 then 1 else EX) - 1075 then (if EX =? 0 then FR else FR + 2 ^ 52) * 2 ^ ((if EX =? 0 then 1 else EX) - 1075)
    else (if EX =? 0 then FR else FR + 2 ^ 52) * 5 ^ (- ((if EX =? 0 then 1 else EX) - 1075))),
   if ((if EX =? 0 then FR else FR + 2 ^ 52) =? 0) || (0 <=? (if EX =? 0 then 1 else EX) - 1075) then 0 else (if EX =? 0 then 1 else EX) - 1075).
Proof.
  intros Hs HE HF. destruct (decomp64 s EX FR Hs HE HF) as (H1 & H2 & H3 & _).
  unfold exact_dec. cbv zeta. rewrite H1, H2, H3. reflexivity.
Qed.

Lemma fp_mag32_unfold m e : dec2f32_mag m e =
  if m <=? 0 then 0 else
  if e + Z.log2 m / 3 + 1 <? -66 then 0 else
  if 58 <? e then 255 * 2 ^ 23 else
  fp_tail 24 (-149) (if 0 <=? e then m * 10 ^ e else m) (if 0 <=? e then 1 else 10 ^ (- e)).
Proof. reflexivity. Qed.

Theorem f32_exact_value : forall x, 0 <= x < 2 ^ 32 -> f32_is_finite x = true ->
  f64_is_finite (widen32 x) = true /\ 0 <= widen32 x < 2 ^ 64 /\ dec2f32 (exact_dec (widen32 x)) = x.
Proof.
  intros x Hx Hf. unfold f32_is_finite in Hf. unfold widen32.
  set (s := x / 2 ^ 31). set (e8 := (x / 2 ^ 23) mod 256) in *. set (f := x mod 2 ^ 23).
  apply negb_true_iff in Hf. apply Z.eqb_neq in Hf.
  assert (Hs : s = 0 \/ s = 1).
  { unfold s. change (2 ^ 31) with 2147483648. change (2 ^ 32) with 4294967296 in Hx. Z.div_mod_to_equations. lia. }
  assert (Hfb : 0 <= f < 2 ^ 23) by (apply Z.mod_pos_bound; reflexivity).
  assert (He8 : 0 <= e8 <= 254) by (pose proof (Z.mod_pos_bound (x / 2 ^ 23) 256 eq_refl); fold e8 in H; lia).
  assert (Hxx : x = s * 2 ^ 31 + e8 * 2 ^ 23 + f).
  { unfold s, e8, f. change (2 ^ 31) with 2147483648. change (2 ^ 23) with 8388608. change (2 ^ 32) with 4294967296 in Hx.
    Z.div_mod_to_equations. lia. }
  assert (P23 : 2 ^ 23 = 8388608) by reflexivity.
  assert (P24 : 2 ^ 24 = 16777216) by reflexivity.
  assert (P29 : 2 ^ 29 = 536870912) by reflexivity.
  assert (P52 : 2 ^ 52 = 4503599627370496) by reflexivity.
  assert (Hneg : (if s =? 1 then 2 ^ 31 else 0) = s * 2 ^ 31) by (destruct Hs as [-> | ->]; reflexivity).
  clearbody s e8 f.
  destruct (Z.eqb_spec e8 255) as [|_]; [lia|].
  destruct (Z.eqb_spec e8 0) as [E0|N0].
  - destruct (Z.eqb_spec f 0) as [F0|NF].
    + (* zero *)
      replace (s * 2 ^ 63) with (s * 2 ^ 63 + 0 * 2 ^ 52 + 0) by lia.
      destruct (decomp64 s 0 0 Hs ltac:(lia) ltac:(lia)) as (H1 & H2 & H3 & H4).
      split; [unfold f64_is_finite; rewrite H1; reflexivity|]. split; [exact H4|].
      rewrite (exact_dec_of s 0 0 Hs) by lia. cbn [Z.eqb orb]. cbn [dec2f32]. rewrite fp_mag32_unfold. change (0 <=? 0) with true. cbn iota.
      rewrite Hneg, Hxx, E0, F0. lia.
    + (* subnormal float: a normal double *)
      set (l := Z.log2 f).
      assert (Hf0 : 0 < f) by lia.
      destruct (Z.log2_spec f Hf0) as [Hl1 Hl2]. fold l in Hl1, Hl2.
      assert (Hl : 0 <= l <= 22).
      { split; [apply Z.log2_nonneg|]. assert (l < 23); [|lia]. apply Z.log2_lt_pow2; lia. }
      clearbody l.
      assert (HG : 2 ^ 52 <= f * 2 ^ (52 - l) < 2 ^ 53).
      { assert (E : 2 ^ 52 = 2 ^ l * 2 ^ (52 - l)) by (rewrite <- Z.pow_add_r by lia; f_equal; lia).
        assert (E2 : 2 ^ 53 = 2 ^ Z.succ l * 2 ^ (52 - l)) by (rewrite <- Z.pow_add_r by lia; f_equal; lia).
        pose proof (pow2_pos (52 - l) ltac:(lia)). rewrite E, E2. nia. }
      set (G := f * 2 ^ (52 - l)) in *.
      replace (s * 2 ^ 63 + (l - 149 + 1023) * 2 ^ 52 + (G - 2 ^ 52)) with (s * 2 ^ 63 + (l + 874) * 2 ^ 52 + (G - 2 ^ 52)) by lia.
      change (2 ^ 53) with 9007199254740992 in HG.
      destruct (decomp64 s (l + 874) (G - 2 ^ 52) Hs ltac:(lia) ltac:(lia)) as (H1 & H2 & H3 & H4).
      split; [unfold f64_is_finite; rewrite H1; destruct (Z.eqb_spec (l + 874) 2047); [lia|reflexivity]|]. split; [exact H4|].
      rewrite (exact_dec_of s (l + 874) (G - 2 ^ 52) Hs) by lia.
      destruct (Z.eqb_spec (l + 874) 0) as [|_]; [lia|].
      replace (G - 2 ^ 52 + 2 ^ 52) with G by lia.
      destruct (Z.eqb_spec G 0) as [|_]; [lia|]. cbn [orb].
      destruct (Z.leb_spec 0 (l + 874 - 1075)) as [|_]; [lia|].
      set (n := 201 - l). replace (- (l + 874 - 1075)) with n by (unfold n; lia). replace (l + 874 - 1075) with (- n) by (unfold n; lia).
      assert (Hn : 179 <= n <= 201) by (unfold n; lia).
      assert (H5 : 0 < 5 ^ n) by (apply Z.pow_pos_nonneg; lia).
      cbn [dec2f32]. rewrite fp_mag32_unfold.
      assert (HM : 0 < G * 5 ^ n) by nia.
      destruct (Z.leb_spec (G * 5 ^ n) 0) as [|_]; [lia|].
      assert (HlM : 2 * n + 52 <= Z.log2 (G * 5 ^ n)).
      { pose proof (log2_pow5 n ltac:(lia)).
        pose proof (Z.log2_mul_below G (5 ^ n) ltac:(lia) H5).
        assert (52 <= Z.log2 G) by (apply Z.log2_le_pow2; lia). lia. }
      destruct (Z.ltb_spec (- n + Z.log2 (G * 5 ^ n) / 3 + 1) (-66)) as [Ht|_].
      { exfalso. assert ((2 * n + 52) / 3 <= Z.log2 (G * 5 ^ n) / 3) by (apply Z.div_le_mono; lia).
        assert (2 * n + 50 <= 3 * ((2 * n + 52) / 3)) by (Z.div_mod_to_equations; lia). lia. }
      destruct (Z.ltb_spec 58 (- n)) as [|_]; [lia|].
      destruct (Z.leb_spec 0 (- n)) as [|_]; [lia|].
      rewrite Z.opp_involutive, (pow10_split n) by lia.
      unfold G. replace (f * 2 ^ (52 - l) * 5 ^ n) with (f * 5 ^ n * 2 ^ (52 - l)) by ring.
      rewrite (FpExact.fp_tail_sub 24 (-149) f (5 ^ n) (52 - l) n); [rewrite Hneg, Hxx, E0; lia | lia | lia | lia | lia | lia | unfold n; lia | lia | lia].
  - (* normal float *)
    replace (s * 2 ^ 63 + (e8 - 127 + 1023) * 2 ^ 52 + f * 2 ^ 29) with (s * 2 ^ 63 + (e8 + 896) * 2 ^ 52 + f * 2 ^ 29) by lia.
    destruct (decomp64 s (e8 + 896) (f * 2 ^ 29) Hs ltac:(lia) ltac:(lia)) as (H1 & H2 & H3 & H4).
    split; [unfold f64_is_finite; rewrite H1; destruct (Z.eqb_spec (e8 + 896) 2047); [lia|reflexivity]|]. split; [exact H4|].
    rewrite (exact_dec_of s (e8 + 896) (f * 2 ^ 29) Hs) by lia.
    destruct (Z.eqb_spec (e8 + 896) 0) as [|_]; [lia|].
    set (m32 := f + 2 ^ 23).
    assert (Hm64 : f * 2 ^ 29 + 2 ^ 52 = m32 * 2 ^ 29) by (unfold m32; lia).
    rewrite Hm64.
    assert (Hm32 : 2 ^ 23 <= m32 < 2 ^ 24) by (unfold m32; lia).
    destruct (Z.eqb_spec (m32 * 2 ^ 29) 0) as [|_]; [lia|]. cbn [orb].
    replace (e8 + 896 - 1075) with (e8 - 179) by lia.
    cbn [dec2f32]. rewrite fp_mag32_unfold.
    destruct (Z.leb_spec 0 (e8 - 179)) as [Hk|Hk].
    + set (k := e8 - 179) in *.
      assert (HM : 0 < m32 * 2 ^ 29 * 2 ^ k) by (pose proof (pow2_pos k Hk); nia).
      destruct (Z.leb_spec (m32 * 2 ^ 29 * 2 ^ k) 0) as [|_]; [lia|].
      destruct (Z.ltb_spec (0 + Z.log2 (m32 * 2 ^ 29 * 2 ^ k) / 3 + 1) (-66)) as [Ht|_].
      { exfalso. pose proof (Z.log2_nonneg (m32 * 2 ^ 29 * 2 ^ k)).
        assert (0 <= Z.log2 (m32 * 2 ^ 29 * 2 ^ k) / 3) by (apply Z.div_pos; lia). lia. }
      change (58 <? 0) with false. change (0 <=? 0) with true. cbn iota. change (10 ^ 0) with 1.
      replace (m32 * 2 ^ 29 * 2 ^ k * 1) with (m32 * 1 * 2 ^ (29 + k)) by (rewrite Z.pow_add_r by lia; ring).
      change (fp_tail 24 (-149) (m32 * 1 * 2 ^ (29 + k)) 1) with (fp_tail 24 (-149) (m32 * 1 * 2 ^ (29 + k)) (1 * 2 ^ 0)).
      rewrite (FpExact.fp_tail_exact 24 (-149) m32 1 (29 + k) 0); [rewrite Hneg, Hxx; unfold m32, k; lia | lia | lia | lia | lia | exact Hm32 | unfold k; lia].
    + set (n := 179 - e8). replace (- (e8 - 179)) with n by (unfold n; lia). replace (e8 - 179) with (- n) by (unfold n; lia).
      assert (Hn : 1 <= n <= 178) by (unfold n; lia).
      assert (H5 : 0 < 5 ^ n) by (apply Z.pow_pos_nonneg; lia).
      assert (HM : 0 < m32 * 2 ^ 29 * 5 ^ n) by nia.
      destruct (Z.leb_spec (m32 * 2 ^ 29 * 5 ^ n) 0) as [|_]; [lia|].
      assert (HlM : 2 * n + 52 <= Z.log2 (m32 * 2 ^ 29 * 5 ^ n)).
      { pose proof (log2_pow5 n ltac:(lia)).
        pose proof (Z.log2_mul_below (m32 * 2 ^ 29) (5 ^ n) ltac:(lia) H5).
        assert (52 <= Z.log2 (m32 * 2 ^ 29)) by (apply Z.log2_le_pow2; lia). lia. }
      destruct (Z.ltb_spec (- n + Z.log2 (m32 * 2 ^ 29 * 5 ^ n) / 3 + 1) (-66)) as [Ht|_].
      { exfalso. assert ((2 * n + 52) / 3 <= Z.log2 (m32 * 2 ^ 29 * 5 ^ n) / 3) by (apply Z.div_le_mono; lia).
        assert (2 * n + 50 <= 3 * ((2 * n + 52) / 3)) by (Z.div_mod_to_equations; lia). lia. }
      destruct (Z.ltb_spec 58 (- n)) as [|_]; [lia|].
      destruct (Z.leb_spec 0 (- n)) as [|_]; [lia|].
      rewrite (pow10_split n) by lia.
      replace (m32 * 2 ^ 29 * 5 ^ n) with (m32 * 5 ^ n * 2 ^ 29) by ring.
      rewrite (FpExact.fp_tail_exact 24 (-149) m32 (5 ^ n) 29 n); [rewrite Hneg, Hxx; unfold m32, n; lia | lia | lia | lia | lia | exact Hm32 | unfold n; lia].
Qed.
