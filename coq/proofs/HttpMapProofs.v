(* Proofs about the HTTP-mapping decision model (model/HttpMap.v). *)
From Coq Require Import ZArith List Bool Lia.
From DG Require Import ThriftWire Json HttpMap.
Import ListNotations.
Local Open Scope Z_scope.

(* ------------------------------------------------------------------------------------------------ *)
(* first_source: characterisation                                                                    *)
(* ------------------------------------------------------------------------------------------------ *)

Lemma first_source_from_sound :
  forall anns fstruct rq k i v,
  first_source_from k anns fstruct rq = Some (i, v) ->
  exists j a, i = (k + j)%nat /\ nth_error anns j = Some a /\ source_value a fstruct rq = Some v /\
              (forall j' a', (j' < j)%nat -> nth_error anns j' = Some a' -> source_value a' fstruct rq = None).
Proof.
  induction anns as [|a r IH]; intros fstruct rq k i v H; simpl in H.
  - discriminate.
  - destruct (source_value a fstruct rq) as [x|] eqn:E.
    + inversion H; subst. exists O, a. repeat split.
      * lia.
      * exact E.
      * intros j' a' Hlt; lia.
    + apply IH in H. destruct H as (j & a0 & Hi & Hn & Hv & Hbefore).
      exists (S j), a0. repeat split.
      * lia.
      * exact Hn.
      * exact Hv.
      * intros j' a' Hlt Hn'. destruct j' as [|j'].
        -- simpl in Hn'. inversion Hn'; subst. exact E.
        -- simpl in Hn'. apply (Hbefore j' a'); [lia | exact Hn'].
Qed.

Lemma first_source_from_complete :
  forall anns fstruct rq k j a v,
  nth_error anns j = Some a -> source_value a fstruct rq = Some v ->
  (forall j' a', (j' < j)%nat -> nth_error anns j' = Some a' -> source_value a' fstruct rq = None) ->
  first_source_from k anns fstruct rq = Some ((k + j)%nat, v).
Proof.
  induction anns as [|a0 r IH]; intros fstruct rq k j a v Hn Hv Hb.
  - destruct j; discriminate.
  - destruct j as [|j]; simpl in Hn.
    + inversion Hn; subst. simpl. rewrite Hv. f_equal. f_equal. lia.
    + simpl. rewrite (Hb O a0) by (try lia; reflexivity).
      rewrite (IH fstruct rq (S k) j a v Hn Hv).
      * f_equal. f_equal. lia.
      * intros j' a' Hlt Hn'. apply (Hb (S j') a'); [lia | exact Hn'].
Qed.

Lemma first_source_from_none :
  forall anns fstruct rq k,
  first_source_from k anns fstruct rq = None <-> (forall a, In a anns -> source_value a fstruct rq = None).
Proof.
  induction anns as [|a r IH]; intros fstruct rq k; simpl.
  - split; [intros _ a [] | reflexivity].
  - destruct (source_value a fstruct rq) eqn:E.
    + split; [discriminate | intros H; specialize (H a (or_introl eq_refl)); congruence].
    + rewrite IH. split.
      * intros H x [Hx|Hx]; [subst; exact E | apply H; exact Hx].
      * intros H x Hx. apply H. right. exact Hx.
Qed.

(* if listed source number i has a value and no earlier listed source has one, the field takes exactly that value *)
Lemma first_source_is_first :
  forall anns fstruct rq i a v,
  nth_error anns i = Some a -> source_value a fstruct rq = Some v ->
  (forall j a', (j < i)%nat -> nth_error anns j = Some a' -> source_value a' fstruct rq = None) ->
  first_source anns fstruct rq = Some (i, v).
Proof.
  intros anns fstruct rq i a v Hn Hv Hb. unfold first_source.
  rewrite (first_source_from_complete anns fstruct rq O i a v Hn Hv Hb). reflexivity.
Qed.

(* ... and conversely the winner is a listed source with a value, all earlier ones having none *)
Lemma first_source_winner :
  forall anns fstruct rq i v,
  first_source anns fstruct rq = Some (i, v) ->
  exists a, nth_error anns i = Some a /\ source_value a fstruct rq = Some v /\
            (forall j a', (j < i)%nat -> nth_error anns j = Some a' -> source_value a' fstruct rq = None).
Proof.
  intros anns fstruct rq i v H. unfold first_source in H. apply first_source_from_sound in H.
  destruct H as (j & a & Hi & Hn & Hv & Hb). simpl in Hi. subst i. exists a. auto.
Qed.

(* two requests that agree on the listed sources 0..i *)
Definition agree_upto (i : nat) (anns : list ann) (fstruct : bool) (rq rq' : request) : Prop :=
  forall j a, (j <= i)%nat -> nth_error anns j = Some a -> source_value a fstruct rq = source_value a fstruct rq'.

(* later sources are irrelevant: whatever the sources listed after the winner contain, the winner and its value stay *)
Lemma first_source_later_irrelevant :
  forall anns fstruct rq rq' i v,
  first_source anns fstruct rq = Some (i, v) -> agree_upto i anns fstruct rq rq' ->
  first_source anns fstruct rq' = Some (i, v).
Proof.
  intros anns fstruct rq rq' i v H Hag.
  destruct (first_source_winner _ _ _ _ _ H) as (a & Hn & Hv & Hb).
  apply first_source_is_first with (a := a).
  - exact Hn.
  - rewrite <- (Hag i a (le_n i) Hn). exact Hv.
  - intros j a' Hlt Hn'. rewrite <- (Hag j a') by (try lia; exact Hn'). apply (Hb j a' Hlt Hn').
Qed.

Lemma map_field_later_irrelevant :
  forall o nobody f rq rq' i v,
  first_source (f_anns f) (is_struct (f_ty f)) rq = Some (i, v) ->
  agree_upto i (f_anns f) (is_struct (f_ty f)) rq rq' ->
  map_field o nobody f rq' = map_field o nobody f rq.
Proof.
  intros o nobody f rq rq' i v H Hag. unfold map_field.
  rewrite (first_source_later_irrelevant _ _ _ _ _ _ H Hag). rewrite H. reflexivity.
Qed.

(* the decision when source i wins with a non-empty text: write the conversion of exactly that text *)
Lemma map_field_first_wins :
  forall o nobody f rq i a v,
  nth_error (f_anns f) i = Some a ->
  source_value a (is_struct (f_ty f)) rq = Some (SText v) -> v <> [] ->
  (forall j a', (j < i)%nat -> nth_error (f_anns f) j = Some a' -> source_value a' (is_struct (f_ty f)) rq = None) ->
  map_field o nobody f rq = DWrite i v.
Proof.
  intros o nobody f rq i a v Hn Hv Hne Hb. unfold map_field.
  rewrite (first_source_is_first _ _ _ _ _ _ Hn Hv Hb).
  destruct v; [contradiction | reflexivity].
Qed.

(* a keyed source "has a value" exactly when its getter returns a non-empty string *)
Lemma keyed_source_value :
  forall a fstruct rq, is_keyed (a_kind a) = true ->
  source_value a fstruct rq = (if nonempty (getter (a_kind a) rq (a_key a)) then Some (SText (getter (a_kind a) rq (a_key a))) else None).
Proof. intros a fstruct rq H. unfold source_value. rewrite H. reflexivity. Qed.

(* ------------------------------------------------------------------------------------------------ *)
(* fallback table                                                                                    *)
(* ------------------------------------------------------------------------------------------------ *)

(* the decision table written out: nobody, ReadHttpValueFallback, requiredness, WriteRequire/Default/OptionalField *)
Definition fallback_table_lit (nobody rhf : bool) (req : Z) (wr wd wo : bool) : decision :=
  match nobody, rhf with
  | true, _ =>
    if req =? R_REQUIRED then (if wr then DWriteDefaultOrEmpty else DError E_NOTFOUND)
    else if req =? R_DEFAULT then (if wd then DWriteDefaultOrEmpty else DSkipOwed)
    else (if wo then DWriteDefaultOrEmpty else DSkip)
  | false, true => DFallbackToBody
  | false, false =>
    if req =? R_REQUIRED then (if wr then DWriteDefaultOrEmpty else DError E_MISS)
    else if req =? R_DEFAULT then (if wd then DWriteDefaultOrEmpty else DSkip)
    else (if wo then DWriteDefaultOrEmpty else DSkip)
  end.

Lemma no_source_rule_table :
  forall o nobody req, req = R_DEFAULT \/ req = R_REQUIRED \/ req = R_OPTIONAL ->
  no_source_rule o nobody req = fallback_table_lit nobody (o_rhf o) req (o_wr o) (o_wd o) (o_wo o).
Proof.
  intros o nobody req Hreq. unfold no_source_rule, empty_rule, fallback_table_lit.
  destruct Hreq as [H|[H|H]]; subst req; unfold R_DEFAULT, R_REQUIRED, R_OPTIONAL; simpl;
  destruct nobody, (o_rhf o), (o_wr o), (o_wd o), (o_wo o); reflexivity.
Qed.

Lemma map_field_no_source :
  forall o nobody f rq,
  (forall a, In a (f_anns f) -> source_value a (is_struct (f_ty f)) rq = None) ->
  map_field o nobody f rq = no_source_rule o nobody (f_req f).
Proof.
  intros o nobody f rq H. unfold map_field, first_source.
  destruct (first_source_from 0 (f_anns f) (is_struct (f_ty f)) rq) as [[i v]|] eqn:E.
  - apply first_source_from_sound in E. destruct E as (j & a & _ & Hn & Hv & _).
    apply nth_error_In in Hn. rewrite (H a Hn) in Hv. discriminate.
  - reflexivity.
Qed.

(* ------------------------------------------------------------------------------------------------ *)
(* frame: fields without HTTP annotations                                                            *)
(* ------------------------------------------------------------------------------------------------ *)

Section Frame.
  Variable o : hopts.
  Variable fl : flavour.
  Variable conv_text : tdesc -> list Z -> option tval.
  Variable conv_json : tdesc -> json -> option tval.

  (* with seeking off, an owed field missing from the body is handled by the plain requiredness rule, in every flavour *)
  Lemma unset_rule_no_traceback :
    forall rq rec root f, o_tb o = false ->
    unset_rule o fl rq conv_text conv_json rec root f = of_empty_rule o (f_ty f) (f_req f).
  Proof.
    intros rq rec root f Htb. unfold unset_rule. rewrite Htb. simpl.
    destruct fl; try reflexivity.
    unfold of_empty_rule, empty_rule.
    destruct (f_req f =? R_REQUIRED) eqn:E1; destruct (o_wr o); simpl; reflexivity.
  Qed.

  (* one level: an un-annotated field of a struct converted from a JSON object gets the plain body conversion,
     whatever the HTTP sources contain, if the member is present or seeking is off *)
  Lemma field_result_unannotated :
    forall rq rec root ms f,
    f_anns f = [] -> (o_tb o = false \/ in_body ms f = true) ->
    field_result o fl rq conv_text conv_json rec root false ms f = plain_field_result o conv_json rec ms f.
  Proof.
    intros rq rec root ms f Hann Hcase. unfold field_result, plain_field_result. rewrite Hann. simpl.
    unfold in_body in Hcase.
    destruct (find_member (f_name f) ms) as [j|] eqn:Em.
    - reflexivity.
    - destruct Hcase as [Htb|Hin]; [|discriminate].
      destruct (negb (f_req f =? R_OPTIONAL)); [|reflexivity].
      apply unset_rule_no_traceback. exact Htb.
  Qed.

  (* the plain conversion never looks at the request: two different requests give the same result *)
  Lemma field_result_frame :
    forall rq rq' rec root ms f,
    f_anns f = [] -> (o_tb o = false \/ in_body ms f = true) ->
    field_result o fl rq conv_text conv_json rec root false ms f =
    field_result o fl rq' conv_text conv_json rec root false ms f.
  Proof. intros. rewrite !field_result_unannotated by assumption. reflexivity. Qed.
End Frame.

(* ------------------------------------------------------------------------------------------------ *)
(* deep frame: a struct without any annotation at any depth, seeking off: independent of the request *)
(* ------------------------------------------------------------------------------------------------ *)

Fixpoint ty_noann (t : tdesc) : bool :=
  match t with
  | TStruct fs => forallb (fun f => match f with FD _ _ _ a ty => negb (nonempty a) && ty_noann ty end) fs
  | _ => true      (* containers are converted by conv_json, which has no access to the request *)
  end.

Lemma ty_noann_field :
  forall fs f, ty_noann (TStruct fs) = true -> In f fs -> f_anns f = [] /\ ty_noann (f_ty f) = true.
Proof.
  intros fs f H Hin. simpl in H. rewrite forallb_forall in H. specialize (H f Hin).
  destruct f as [i n r a t]. simpl. apply andb_true_iff in H. destruct H as [Ha Ht].
  split; [destruct a; [reflexivity | discriminate] | exact Ht].
Qed.

Lemma insert_by_id_in : forall f l x, In x (insert_by_id f l) <-> x = f \/ In x l.
Proof.
  intros f l x. unfold insert_by_id. induction l as [|g r IH]; simpl.
  - intuition.
  - destruct (f_id f <=? f_id g); simpl.
    + intuition.
    + rewrite IH. intuition.
Qed.

Lemma sort_by_id_in : forall l x, In x (sort_by_id l) <-> In x l.
Proof.
  induction l as [|f r IH]; intros x; simpl.
  - reflexivity.
  - unfold sort_by_id in *. simpl. rewrite insert_by_id_in. rewrite IH. intuition.
Qed.

Lemma member_fields_in : forall fs ms x, In x (member_fields fs ms) -> In x fs.
Proof.
  intros fs ms x H. unfold member_fields in H. apply in_flat_map in H. destruct H as (m & _ & Hx).
  destruct (find (fun f => zlist_eqb (f_name f) (fst m)) fs) as [f|] eqn:E; [|contradiction].
  destruct Hx as [Hx|[]]. subst. apply find_some in E. apply E.
Qed.

Lemma processing_order_in : forall fs ms x, In x (processing_order fs ms) -> In x fs.
Proof.
  intros fs ms x H. unfold processing_order in H. rewrite !in_app_iff in H. destruct H as [H|[H|H]].
  - apply filter_In in H. apply H.
  - apply filter_In in H. destruct H as [H _]. eapply member_fields_in; exact H.
  - apply (proj1 (sort_by_id_in _ _)) in H. apply filter_In in H. apply H.
Qed.

Section DeepFrame.
  Variable o : hopts.
  Variable fl : flavour.
  Variable conv_text : tdesc -> list Z -> option tval.
  Variable conv_json : tdesc -> json -> option tval.
  Hypothesis Htb : o_tb o = false.

  Lemma conv_struct_frame :
    forall fuel rq rq' fs j, ty_noann (TStruct fs) = true ->
    conv_struct o fl rq conv_text conv_json fuel fs j = conv_struct o fl rq' conv_text conv_json fuel fs j.
  Proof.
    induction fuel as [|n IH]; intros rq rq' fs j Hna; simpl.
    - reflexivity.
    - destruct j; try reflexivity. f_equal. unfold struct_result. f_equal.
      apply map_ext_in. intros f Hin. f_equal.
      apply processing_order_in in Hin.
      destruct (ty_noann_field fs f Hna Hin) as [Hann Hty].
      rewrite !field_result_unannotated by (auto).
      unfold plain_field_result. destruct (find_member (f_name f) ms) as [x|]; [|reflexivity].
      unfold conv_value. destruct (f_ty f) as [c b|e|e|k v|gs] eqn:Et; try reflexivity.
      apply IH. exact Hty.
  Qed.

  (* whole request: a root struct without annotations at any depth is converted from the body alone *)
  Lemma http_j2t_frame :
    forall fuel rq rq' fs body, ty_noann (TStruct fs) = true -> body <> None ->
    http_j2t o fl rq conv_text conv_json fuel fs body = http_j2t o fl rq' conv_text conv_json fuel fs body.
  Proof.
    intros fuel rq rq' fs body Hna Hb. unfold http_j2t.
    destruct body as [j|]; [|contradiction].
    destruct j; try reflexivity. unfold struct_result. f_equal.
    apply map_ext_in. intros f Hin. f_equal.
    apply processing_order_in in Hin.
    destruct (ty_noann_field fs f Hna Hin) as [Hann Hty].
    rewrite !field_result_unannotated by (auto).
    unfold plain_field_result. destruct (find_member (f_name f) ms) as [x|]; [|reflexivity].
    unfold conv_value. destruct (f_ty f) as [c b|e|e|k v|gs] eqn:Et; try reflexivity.
    apply conv_struct_frame. exact Hty.
  Qed.
End DeepFrame.

(* ------------------------------------------------------------------------------------------------ *)
(* fallback outcome at the field level                                                               *)
(* ------------------------------------------------------------------------------------------------ *)

Section FallbackOutcome.
  Variable o : hopts.
  Variable fl : flavour.
  Variable rq : request.
  Variable conv_text : tdesc -> list Z -> option tval.
  Variable conv_json : tdesc -> json -> option tval.
  Variable rec : list fdesc -> json -> fres.

  Hypothesis no_src : forall f a, In a (f_anns f) -> source_value a (is_struct (f_ty f)) rq = None.

  (* JSON body present, no source has a value, ReadHttpValueFallback: the member of the body if there is one, else the unset-field rule *)
  Lemma fallback_to_body :
    forall root ms f, f_anns f <> [] -> o_rhf o = true ->
    field_result o fl rq conv_text conv_json rec root false ms f =
    match find_member (f_name f) ms with
    | Some j => conv_value conv_json rec (f_ty f) j
    | None => unset_rule o fl rq conv_text conv_json rec root f
    end.
  Proof.
    intros root ms f Hne Hrhf. unfold field_result.
    assert (Hn : nonempty (f_anns f) = true) by (destruct (f_anns f); [contradiction | reflexivity]).
    rewrite Hn.
    rewrite map_field_no_source by (intros x Hx; apply (no_src f); exact Hx).
    unfold no_source_rule. rewrite Hrhf. reflexivity.
  Qed.

  (* JSON body present, no source has a value, no fallback: the requiredness rule decides; the body member is NOT used *)
  Lemma no_fallback_rule :
    forall root ms f, f_anns f <> [] -> o_rhf o = false ->
    field_result o fl rq conv_text conv_json rec root false ms f = of_empty_rule o (f_ty f) (f_req f).
  Proof.
    intros root ms f Hne Hrhf. unfold field_result.
    assert (Hn : nonempty (f_anns f) = true) by (destruct (f_anns f); [contradiction | reflexivity]).
    rewrite Hn.
    rewrite map_field_no_source by (intros x Hx; apply (no_src f); exact Hx).
    unfold no_source_rule. rewrite Hrhf. unfold of_empty_rule.
    destruct (empty_rule o (f_req f)) eqn:E; try reflexivity;
    unfold empty_rule in E;
    destruct ((f_req f =? R_REQUIRED) && negb (o_wr o)); try discriminate;
    destruct ((f_req f =? R_OPTIONAL) && negb (o_wo o)); try discriminate;
    destruct ((f_req f =? R_DEFAULT) && negb (o_wd o)); discriminate.
  Qed.

  (* empty body, no source has a value *)
  Lemma nobody_rule :
    forall root ms f, f_anns f <> [] ->
    (f_req f = R_DEFAULT \/ f_req f = R_REQUIRED \/ f_req f = R_OPTIONAL) ->
    field_result o fl rq conv_text conv_json rec root true ms f =
    match fallback_table_lit true (o_rhf o) (f_req f) (o_wr o) (o_wd o) (o_wo o) with
    | DError c => FError c
    | DWriteDefaultOrEmpty => FValue (zero_of (f_ty f))
    | DSkipOwed => nobody_unset_rule o rq conv_text conv_json rec f
    | _ => FAbsent
    end.
  Proof.
    intros root ms f Hne Hreq. unfold field_result.
    assert (Hn : nonempty (f_anns f) = true) by (destruct (f_anns f); [contradiction | reflexivity]).
    rewrite Hn.
    rewrite map_field_no_source by (intros x Hx; apply (no_src f); exact Hx).
    unfold no_source_rule, fallback_table_lit.
    destruct Hreq as [H|[H|H]]; rewrite H; unfold R_REQUIRED, R_DEFAULT, R_OPTIONAL; simpl;
    destruct (o_wr o), (o_wd o), (o_wo o); reflexivity.
  Qed.
End FallbackOutcome.

(* ------------------------------------------------------------------------------------------------ *)
(* response side                                                                                     *)
(* ------------------------------------------------------------------------------------------------ *)

Lemma resp_loop_delivered :
  forall o anns text k key v,
  resp_loop o anns text = RODelivered k key v ->
  exists i a, nth_error anns i = Some a /\ resp_ann a text = RDeliver k key v /\
              (forall j a', (j < i)%nat -> nth_error anns j = Some a' -> resp_ann a' text = RFail) /\
              (i = O \/ o_omit o = true).
Proof.
  intros o anns text k key v. induction anns as [|a r IH]; simpl; intros H.
  - destruct (o_whf o); discriminate.
  - destruct (resp_ann a text) as [k' key' v'| |] eqn:E.
    + inversion H; subst. exists O, a. repeat split; auto. intros j a' Hlt; lia.
    + discriminate.
    + destruct (o_omit o) eqn:Eo; [|discriminate].
      destruct (IH H) as (i & a0 & Hn & Hd & Hb & _).
      exists (S i), a0. repeat split; auto.
      intros j a' Hlt Hn'. destruct j as [|j]; simpl in Hn'.
      * inversion Hn'; subst. exact E.
      * apply (Hb j a'); [lia | exact Hn'].
Qed.

(* the field ends up in the JSON body exactly when no mapping took it, none failed fatally, and the fallback option is on *)
Lemma resp_loop_body :
  forall o anns text,
  resp_loop o anns text = ROBody <->
  (o_whf o = true /\ (forall a, In a anns -> resp_ann a text = RFail) /\ (anns = [] \/ o_omit o = true)).
Proof.
  intros o anns text. induction anns as [|a r IH]; simpl.
  - destruct (o_whf o).
    + split; [intros _; repeat split; auto; intros a [] | reflexivity].
    + split; [discriminate | intros (H & _); discriminate].
  - destruct (resp_ann a text) as [k key v| |] eqn:E.
    + split; [discriminate|]. intros (_ & H & _). specialize (H a (or_introl eq_refl)). congruence.
    + split; [discriminate|]. intros (_ & H & _). specialize (H a (or_introl eq_refl)). congruence.
    + destruct (o_omit o) eqn:Eo.
      * rewrite IH. split.
        -- intros (Hw & Hall & _). repeat split; auto. intros x [Hx|Hx]; [subst; exact E | apply Hall; exact Hx].
        -- intros (Hw & Hall & _). repeat split; auto.
      * split; [discriminate|]. intros (_ & _ & [H|H]); discriminate.
Qed.

Lemma resp_field_delivered_not_in_body :
  forall o f text k key v, resp_field o f text = RODelivered k key v -> in_json_body (resp_field o f text) = false.
Proof. intros o f text k key v H. rewrite H. reflexivity. Qed.

Lemma resp_field_in_body :
  forall o f text,
  in_json_body (resp_field o f text) = true <->
  (f_anns f = [] \/
   (o_whf o = true /\ (forall a, In a (f_anns f) -> resp_ann a text = RFail) /\ o_omit o = true)).
Proof.
  intros o f text. unfold resp_field. destruct (f_anns f) as [|a r] eqn:Ea; simpl nonempty; cbv iota.
  - simpl. split; auto.
  - assert (Hb : in_json_body (resp_loop o (a :: r) text) = true <-> resp_loop o (a :: r) text = ROBody).
    { destruct (resp_loop o (a :: r) text); simpl; split; intros H; try discriminate; reflexivity. }
    rewrite Hb, resp_loop_body. split.
    + intros (Hw & Hall & [H|H]); [discriminate | right; auto].
    + intros [H|(Hw & Hall & Ho)]; [discriminate | auto].
Qed.

(* header / cookie / raw-body annotations always deliver; http_code delivers exactly when the text is an integer *)
Lemma resp_ann_targets :
  forall a text,
  (a_kind a = K_HEADER -> resp_ann a text = RDeliver K_HEADER (a_key a) text) /\
  (a_kind a = K_COOKIE -> resp_ann a text = RDeliver K_COOKIE (a_key a) text) /\
  (a_kind a = K_RAW_BODY -> resp_ann a text = RDeliver K_RAW_BODY [] text) /\
  (a_kind a = K_HTTP_CODE -> resp_ann a text = if atoi_ok text then RDeliver K_HTTP_CODE [] text else RFail).
Proof.
  intros a text. unfold resp_ann. repeat split; intros H; rewrite H; reflexivity.
Qed.

(* a field whose FIRST annotation is header / cookie / raw-body is delivered there and is not in the body, under every option *)
Lemma resp_first_target_wins :
  forall o f text a r,
  f_anns f = a :: r -> (a_kind a = K_HEADER \/ a_kind a = K_COOKIE \/ a_kind a = K_RAW_BODY) ->
  exists k key, resp_field o f text = RODelivered k key text /\ in_json_body (resp_field o f text) = false.
Proof.
  intros o f text a r Ha Hk. unfold resp_field. rewrite Ha. simpl.
  destruct (resp_ann_targets a text) as (H1 & H2 & H3 & _).
  destruct Hk as [H|[H|H]].
  - rewrite (H1 H). eexists; eexists; split; reflexivity.
  - rewrite (H2 H). eexists; eexists; split; reflexivity.
  - rewrite (H3 H). eexists; eexists; split; reflexivity.
Qed.
