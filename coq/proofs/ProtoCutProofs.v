(* Theorems about Protobuf cutting (ProtoCut.v). *)
From Coq Require Import ZArith List Bool Lia.
From DG Require Import ProtoWireRef ProtoWireRefProofs CaseFormat ThriftCut ProtoCut.
Import ListNotations.
Local Open Scope Z_scope.

Definition wf_num (f : wfield) : Z := match f with WF n _ _ => n end.
Definition tree_num (t : wtree) : Z := match t with TLeaf n _ _ | TMsg n _ _ => n end.
Definition p_in_both (ffs tfs : list pfield) (num : Z) : bool :=
  match pfind num ffs, pfind num tfs with Some _, Some _ => true | _, _ => false end.

(* at every message level the output holds exactly the source fields whose NUMBER is declared by both schemas, in source
   order; scalar-kind fields keep their raw bytes (values unchanged), message-kind fields hold the projection of their
   payload *)
Lemma pproj_fields_exact dis rec ffs tfs fs out : pproj_fields dis rec ffs tfs fs = COk out ->
  Forall2 (fun f t => match f with WF num wt raw =>
             exists ff tf, pfind num ffs = Some ff /\ pfind num tfs = Some tf /\ pf_kind ff = pf_kind tf /\
               ((pf_kind ff <> K_MESSAGE /\ t = TLeaf num wt raw) \/
                (pf_kind ff = K_MESSAGE /\ wt = 2 /\ exists kids, rec (pf_sub ff) (pf_sub tf) (payload raw) = COk kids /\ t = TMsg num wt kids)) end)
          (filter (fun f => p_in_both ffs tfs (wf_num f)) fs) out.
Proof.
  revert out. induction fs as [|[num wt raw] r IH]; intros out H; cbn [pproj_fields] in H.
  - inversion H. constructor.
  - cbn [filter wf_num]. unfold p_in_both at 1.
    destruct (pfind num ffs) as [ff|] eqn:Ef.
    + destruct (pfind num tfs) as [tf|] eqn:Et; [|apply IH; exact H].
      destruct (Z.eqb_spec (pf_kind ff) (pf_kind tf)) as [Ek|Ek]; cbn [negb] in H; [|discriminate].
      destruct (Z.eqb_spec (pf_kind ff) K_MESSAGE) as [Em|Em].
      * destruct (Z.eqb_spec wt 2) as [Ew|Ew]; cbn [negb] in H; [|discriminate].
        destruct (rec (pf_sub ff) (pf_sub tf) (payload raw)) as [kids|] eqn:Er; [|discriminate].
        destruct (pproj_fields dis rec ffs tfs r) as [l|]; [|discriminate]. inversion H; subst out.
        constructor; [|apply IH; reflexivity]. exists ff, tf. repeat split; auto. right. repeat split; auto. exists kids. auto.
      * destruct (pproj_fields dis rec ffs tfs r) as [l|]; [|discriminate]. inversion H; subst out.
        constructor; [|apply IH; reflexivity]. exists ff, tf. repeat split; auto.
    + destruct dis; [discriminate|]. apply IH. exact H.
Qed.

Lemma pproj_fields_numbers dis rec ffs tfs fs out : pproj_fields dis rec ffs tfs fs = COk out ->
  map tree_num out = filter (p_in_both ffs tfs) (map wf_num fs).
Proof.
  intros H. apply pproj_fields_exact in H.
  assert (E : map wf_num (filter (fun f => p_in_both ffs tfs (wf_num f)) fs) = filter (p_in_both ffs tfs) (map wf_num fs)).
  { clear. induction fs as [|f r IH]; [reflexivity|]. cbn [filter map]. destruct (p_in_both ffs tfs (wf_num f)); cbn [map]; rewrite IH; reflexivity. }
  rewrite <- E. clear E. induction H as [|f t l1 l2 Hft H IH]; [reflexivity|]. cbn [map]. f_equal; [|exact IH].
  destruct f as [num wt raw]. destruct Hft as [ff [tf [_ [_ [_ [[_ ->]|[_ [_ [kids [_ ->]]]]]]]]]]; reflexivity.
Qed.

(* unknown members: an error exactly when disallowed (at the level where the unknown number occurs) *)
Lemma pproj_fields_unknown dis rec ffs tfs fs :
  (exists f, In f fs /\ pfind (wf_num f) ffs = None) -> dis = true ->
  forall out, pproj_fields dis rec ffs tfs fs <> COk out.
Proof.
  intros [f [Hin Hf]] -> out. revert out. induction fs as [|[num wt raw] r IH]; intros out; [destruct Hin|].
  cbn [pproj_fields]. destruct Hin as [<-|Hin].
  - cbn [wf_num] in Hf. rewrite Hf. discriminate.
  - destruct (pfind num ffs) as [ff|]; [|discriminate].
    destruct (pfind num tfs) as [tf|]; [|apply IH; exact Hin].
    destruct (negb _); [discriminate|]. destruct (_ =? K_MESSAGE).
    + destruct (negb _); [discriminate|]. destruct (rec _ _ _); [|discriminate].
      destruct (pproj_fields true rec ffs tfs r) eqn:E; [|discriminate]. exfalso. exact (IH Hin _ eq_refl).
    + destruct (pproj_fields true rec ffs tfs r) eqn:E; [|discriminate]. exfalso. exact (IH Hin _ eq_refl).
Qed.

(* ---- the generic wire decoder reads back canonically encoded fields ---- *)
Definition enc_wfield (f : wfield) : list Z := match f with WF num wt raw => varint_enc (num * 8 + wt) ++ raw end.
(* canonical (L)V bytes, as the reference encoder writes them *)
Definition raw_canon (wt : Z) (raw : list Z) : Prop :=
  (wt = 0 /\ exists v, 0 <= v < 2 ^ 64 /\ raw = varint_enc v) \/
  (wt = 1 /\ length raw = 8%nat) \/ (wt = 5 /\ length raw = 4%nat) \/
  (wt = 2 /\ exists p, Z.of_nat (length p) < 2 ^ 63 /\ raw = varint_enc (Z.of_nat (length p)) ++ p).
Definition wfield_ok (f : wfield) : Prop := match f with WF num wt raw => 1 <= num <= 536870911 /\ raw_canon wt raw end.

Lemma take_n_app a r : take_n (Z.of_nat (length a)) (a ++ r) = Some (a, r).
Proof.
  unfold take_n. destruct (Z.ltb_spec (Z.of_nat (length a)) 0); [lia|].
  destruct (Z.gtb_spec (Z.of_nat (length a)) (Z.of_nat (length (a ++ r)))); [rewrite app_length in *; lia|].
  cbn [orb]. rewrite Nat2Z.id. rewrite firstn_app, Nat.sub_diag, firstn_all. cbn [firstn]. rewrite app_nil_r.
  rewrite skipn_app, Nat.sub_diag, skipn_all. reflexivity.
Qed.

Lemma wire_value_canon wt raw r : raw_canon wt raw -> wire_value wt (raw ++ r) = Some (raw, r).
Proof.
  intros [[-> [v [Hv ->]]]|[[-> Hl]|[[-> Hl]|[-> [p [Hp ->]]]]]]; unfold wire_value; cbn [Z.eqb].
  - rewrite varint_dec_enc by exact Hv. destruct (Z.ltb_spec (Z.of_nat (length (varint_enc v))) 0); [lia|]. apply take_n_app.
  - change 8 with (Z.of_nat 8). rewrite <- Hl. apply take_n_app.
  - change 4 with (Z.of_nat 4). rewrite <- Hl. apply take_n_app.
  - rewrite <- app_assoc. rewrite varint_dec_enc by lia.
    destruct (Z.ltb_spec (Z.of_nat (length (varint_enc (Z.of_nat (length p))))) 0); [lia|].
    rewrite app_assoc. rewrite <- Nat2Z.inj_add, <- app_length. apply take_n_app.
Qed.

Lemma skipn_app_exact {A} (a r : list A) : skipn (length a) (a ++ r) = r.
Proof. rewrite skipn_app, Nat.sub_diag, skipn_all. reflexivity. Qed.

Theorem wire_fields_enc fs : Forall wfield_ok fs -> forall fuel, (length fs < fuel)%nat ->
  wire_fields fuel (flat_map enc_wfield fs) = Some fs.
Proof.
  induction fs as [|[num wt raw] r IH]; intros HF fuel Hfuel; destruct fuel as [|fuel]; try (cbn in Hfuel; lia).
  - reflexivity.
  - inversion HF as [|? ? Hok HF']; subst. cbn [wfield_ok] in Hok. destruct Hok as [Hn Hc]. cbn [flat_map enc_wfield wire_fields].
    assert (Hwt : 0 <= wt < 8) by (destruct Hc as [[-> _]|[[-> _]|[[-> _]|[-> _]]]]; lia).
    assert (Htag : 0 <= num * 8 + wt < 2 ^ 64) by lia.
    pose proof (venc_nonempty 9 (num * 8 + wt)) as Hne. unfold varint_enc.
    destruct ((venc 10 (num * 8 + wt) ++ raw) ++ flat_map enc_wfield r) as [|b0 rest0] eqn:Eb.
    { destruct (venc 10 (num * 8 + wt)); [contradiction|discriminate]. }
    rewrite <- Eb. clear Eb b0 rest0. rewrite <- app_assoc. fold (varint_enc (num * 8 + wt)).
    rewrite varint_dec_enc by exact Htag.
    destruct (Z.ltb_spec (Z.of_nat (length (varint_enc (num * 8 + wt)))) 0); [lia|].
    assert (Hdiv : (num * 8 + wt) / 8 = num) by (symmetry; apply (Z.div_unique _ 8 num wt); lia).
    assert (Hmod : (num * 8 + wt) mod 8 = wt) by (symmetry; apply (Z.mod_unique _ 8 num wt); lia).
    rewrite Hdiv, Hmod.
    destruct (Z.ltb_spec num 1); [lia|]. destruct (Z.gtb_spec num 2147483647); [lia|]. cbn [orb].
    rewrite Nat2Z.id, skipn_app_exact. rewrite wire_value_canon by exact Hc.
    rewrite IH; [reflexivity|exact HF'|cbn in Hfuel; lia].
Qed.
