(* C10: the byte-level transcription of SetByPath (ProtoEditCoded, all repairs in) refines the specification pset
   rendered by encode_msg.  Stage 1: the cursor primitives on canonical encodings (chained skip). *)
From Coq Require Import ZArith List Bool Arith Lia.
From DG Require Import CaseFormat ProtoWireRef ProtoWireRefProofs ProtoMsg ProtoMsgProofs ProtoRelen ProtoRelenProofs
  ProtoEdit ProtoEditCoded ProtoEditProofs.
Import ListNotations.
Local Open Scope Z_scope.

Lemma blen_plen {A} (l : list A) : blen l = plen l.
Proof. reflexivity. Qed.

Lemma at_app (pre r : list Z) : at_ (pre ++ r) (blen pre) = r.
Proof. unfold at_, blen. rewrite Nat2Z.id. apply skipn_app_len. Qed.

Lemma at_app2 (pre a r : list Z) : at_ (pre ++ a ++ r) (blen pre + blen a) = r.
Proof. rewrite app_assoc, <- blen_app. apply at_app. Qed.

Definition tagb (f : wfield) : list Z := varint_enc (fst f * 8 + wt_of_wval (snd f)).
Lemma wenc_field_tagb f : wenc_field f = tagb f ++ wenc_val (snd f).
Proof. reflexivity. Qed.

Lemma wf_wfield_tag f : wf_wfield f = true ->
  0 <= fst f * 8 + wt_of_wval (snd f) < 2 ^ 64 /\ 1 <= fst f <= MAX_FIELD_NUMBER.
Proof.
  unfold wf_wfield. intros H. apply andb_true_iff in H as [H _]. apply andb_true_iff in H as [A B].
  apply Z.leb_le in A, B. unfold MAX_FIELD_NUMBER in *.
  pose proof (wt_of_wval_cases (snd f)) as C. split; [|lia].
  change (2 ^ 64) with 18446744073709551616. lia.
Qed.

(* the tag of a canonical record is read back: number, wire type, tag length *)
Lemma c_tag_peek_field pre f rest : wf_wfield f = true ->
  c_tag_peek (pre ++ wenc_field f ++ rest) (blen pre) = EOk (fst f, wt_of_wval (snd f), blen (tagb f)).
Proof.
  intros Hwf. destruct (wf_wfield_tag f Hwf) as [Ht Hn]. unfold MAX_FIELD_NUMBER in Hn.
  unfold c_tag_peek. rewrite at_app, wenc_field_tagb, <- app_assoc. unfold tagb at 1.
  rewrite varint_dec_enc by exact Ht. fold (tagb f). fold (blen (tagb f)).
  pose proof (varint_enc_len_pos (fst f * 8 + wt_of_wval (snd f))) as Hl. fold (tagb f) in Hl.
  destruct (Z.ltb_spec (blen (tagb f)) 0); [lia|].
  pose proof (wt_of_wval_cases (snd f)) as C.
  assert (E1 : (fst f * 8 + wt_of_wval (snd f)) / 8 = fst f) by (symmetry; apply Z.div_unique with (r := wt_of_wval (snd f)); lia).
  assert (E2 : (fst f * 8 + wt_of_wval (snd f)) mod 8 = wt_of_wval (snd f)) by (symmetry; apply Z.mod_unique with (q := fst f); lia).
  rewrite E1, E2.
  destruct (Z.gtb_spec (fst f) 2147483647); [lia|].
  destruct (Z.ltb_spec (fst f) 1); [lia|]. reflexivity.
Qed.

(* ... and Skip moves the cursor exactly over the value *)
Lemma c_skip_field fx pre f rest : wf_wfield f = true ->
  blen (pre ++ wenc_field f ++ rest) < 2 ^ 63 ->
  c_skip fx (pre ++ wenc_field f ++ rest) (blen pre + blen (tagb f)) (wt_of_wval (snd f))
  = EOk (blen pre + blen (wenc_field f)).
Proof.
  intros Hwf Hsz. rewrite wenc_field_tagb in *. rewrite <- app_assoc in *.
  set (buf := pre ++ tagb f ++ wenc_val (snd f) ++ rest) in *.
  assert (Hat : at_ buf (blen pre + blen (tagb f)) = wenc_val (snd f) ++ rest) by (unfold buf; apply at_app2).
  assert (Hbl : blen buf = blen pre + blen (tagb f) + blen (wenc_val (snd f)) + blen rest)
    by (unfold buf; rewrite !blen_app; lia).
  pose proof (blen_nonneg pre). pose proof (blen_nonneg (tagb f)). pose proof (blen_nonneg rest).
  unfold wf_wfield in Hwf. apply andb_true_iff in Hwf as [_ Hv].
  unfold c_skip. destruct (snd f) as [v|v|v|bs] eqn:Ev; cbn [wt_of_wval wenc_val wf_wval] in *.
  - apply andb_true_iff in Hv as [A B]. apply Z.leb_le in A. apply Z.ltb_lt in B.
    change (0 =? 0) with true. cbv iota. rewrite Hat, varint_dec_enc by lia. fold (blen (varint_enc v)).
    pose proof (varint_enc_len_pos v). destruct (Z.ltb_spec (blen (varint_enc v)) 0); [lia|].
    rewrite !blen_app. f_equal. lia.
  - assert (H8 : blen (le_enc 8 v) = 8) by (rewrite blen_plen, le_enc_plen; reflexivity).
    rewrite H8 in Hbl. change (1 =? 0) with false. change (1 =? 5) with false. change (1 =? 1) with true. cbv iota.
    unfold c_next. change (8 <=? 0) with false. cbv iota. rewrite Hbl.
    destruct (Z.gtb_spec (blen pre + blen (tagb f) + 8) (blen pre + blen (tagb f) + 8 + blen rest)); [lia|].
    rewrite !blen_app, H8. f_equal. lia.
  - assert (H4 : blen (le_enc 4 v) = 4) by (rewrite blen_plen, le_enc_plen; reflexivity).
    rewrite H4 in Hbl. change (5 =? 0) with false. change (5 =? 5) with true. cbv iota.
    unfold c_next. change (4 <=? 0) with false. cbv iota. rewrite Hbl.
    destruct (Z.gtb_spec (blen pre + blen (tagb f) + 4) (blen pre + blen (tagb f) + 4 + blen rest)); [lia|].
    rewrite !blen_app, H4. f_equal. lia.
  - apply Z.ltb_lt in Hv. change (2 =? 0) with false. change (2 =? 5) with false. change (2 =? 1) with false.
    change (2 =? 2) with true. cbv iota. rewrite Hat, <- app_assoc.
    pose proof (plen_nonneg bs) as Hb0.
    rewrite varint_dec_enc by lia. fold (blen (varint_enc (plen bs))).
    pose proof (varint_enc_len_pos (plen bs)) as Hl.
    destruct (Z.ltb_spec (blen (varint_enc (plen bs))) 0); [lia|].
    rewrite !blen_app in Hbl. change (blen bs) with (plen bs) in *.
    assert (Hgo : goint (plen bs) = plen bs).
    { unfold goint, to_s. change (2 ^ (64 - 1)) with 9223372036854775808. change (2 ^ 64) with 18446744073709551616.
      change (2 ^ 63) with 9223372036854775808 in Hsz.
      rewrite Z.mod_small by lia. lia. }
    rewrite Hgo.
    assert (Hc : (plen bs >? blen buf - (blen pre + blen (tagb f)) - blen (varint_enc (plen bs))) = false).
    { destruct (Z.gtb_spec (plen bs) (blen buf - (blen pre + blen (tagb f)) - blen (varint_enc (plen bs)))); [lia|reflexivity]. }
    rewrite Hc, andb_false_r. unfold c_next.
    destruct (Z.leb_spec (plen bs + blen (varint_enc (plen bs))) 0); [lia|].
    destruct (Z.gtb_spec (blen pre + blen (tagb f) + (plen bs + blen (varint_enc (plen bs)))) (blen buf)); [lia|].
    rewrite !blen_app. change (blen bs) with (plen bs). f_equal. lia.
Qed.

(* ---------------------------------------------------------------- searchFieldId by chained skip *)
Definition no_num (id : Z) (w : list wfield) : bool := forallb (fun g => negb (fst g =? id)) w.

Lemma wenc_field_pos f : 1 <= blen (wenc_field f).
Proof. destruct (wenc_field_cons f) as (b & t & E). rewrite E. unfold blen. cbn [length]. lia. Qed.

Lemma search_field_found fx w1 : forall pre f rest fuel stop,
  wf_wire w1 = true -> wf_wfield f = true -> no_num (fst f) w1 = true ->
  blen (pre ++ wenc w1 ++ wenc_field f ++ rest) < 2 ^ 63 ->
  blen pre + blen (wenc w1) < stop -> (length w1 < fuel)%nat ->
  search_field fx fuel (pre ++ wenc w1 ++ wenc_field f ++ rest) (blen pre) (fst f) stop
  = EOk (blen pre + blen (wenc w1), blen pre + blen (wenc w1), true).
Proof.
  induction w1 as [|g w1 IH]; intros pre f rest fuel stop Hw Hf Hno Hsz Hstop Hfuel.
  - cbn [wenc flat_map app] in *. change (blen (@nil Z)) with 0 in *. rewrite Z.add_0_r in *.
    destruct fuel as [|fuel]; [cbn in Hfuel; lia|]. cbn [search_field].
    destruct (Z.ltb_spec (blen pre) stop); [|lia].
    rewrite c_tag_peek_field by exact Hf. cbn [ebind]. rewrite Z.eqb_refl. reflexivity.
  - cbn [wf_wire forallb] in Hw. apply andb_true_iff in Hw as [Hg Hw].
    cbn [no_num forallb] in Hno. apply andb_true_iff in Hno as [Hgn Hno]. apply negb_true_iff in Hgn.
    rewrite wenc_cons in *. rewrite <- !app_assoc in *.
    destruct fuel as [|fuel]; [cbn in Hfuel; lia|]. cbn [search_field].
    pose proof (wenc_field_pos g) as Hgp. pose proof (blen_nonneg (wenc w1)) as Hw1.
    rewrite blen_app in Hstop.
    destruct (Z.ltb_spec (blen pre) stop); [|lia].
    rewrite c_tag_peek_field by exact Hg. cbn [ebind]. rewrite Hgn.
    rewrite (c_skip_field fx pre g _ Hg Hsz). cbn [as_node ebind].
    rewrite <- blen_app.
    rewrite (app_assoc pre (wenc_field g)).
    rewrite (IH (pre ++ wenc_field g) f rest fuel stop); try assumption.
    + rewrite !blen_app. f_equal. f_equal. f_equal; lia.
    + rewrite <- app_assoc. exact Hsz.
    + rewrite blen_app. lia.
    + cbn [length] in Hfuel. lia.
Qed.

Lemma search_field_absent fx w : forall pre rest fuel id,
  wf_wire w = true -> no_num id w = true ->
  blen (pre ++ wenc w ++ rest) < 2 ^ 63 -> (length w < fuel)%nat ->
  search_field fx fuel (pre ++ wenc w ++ rest) (blen pre) id (blen pre + blen (wenc w))
  = EOk (blen pre + blen (wenc w), blen pre + blen (wenc w), false).
Proof.
  induction w as [|g w IH]; intros pre rest fuel id Hw Hno Hsz Hfuel.
  - cbn [wenc flat_map]. change (blen (@nil Z)) with 0. rewrite Z.add_0_r.
    destruct fuel as [|fuel]; [cbn in Hfuel; lia|]. cbn [search_field]. rewrite Z.ltb_irrefl. reflexivity.
  - cbn [wf_wire forallb] in Hw. apply andb_true_iff in Hw as [Hg Hw].
    cbn [no_num forallb] in Hno. apply andb_true_iff in Hno as [Hgn Hno]. apply negb_true_iff in Hgn.
    rewrite wenc_cons in *. rewrite <- !app_assoc in *.
    destruct fuel as [|fuel]; [cbn in Hfuel; lia|]. cbn [search_field].
    pose proof (wenc_field_pos g) as Hgp. pose proof (blen_nonneg (wenc w)) as Hw1.
    rewrite blen_app.
    destruct (Z.ltb_spec (blen pre) (blen pre + (blen (wenc_field g) + blen (wenc w)))); [|lia].
    rewrite c_tag_peek_field by exact Hg. cbn [ebind]. rewrite Hgn.
    rewrite (c_skip_field fx pre g _ Hg Hsz). cbn [as_node ebind].
    rewrite <- blen_app. rewrite (app_assoc pre (wenc_field g)).
    replace (blen pre + (blen (wenc_field g) + blen (wenc w))) with (blen (pre ++ wenc_field g) + blen (wenc w))
      by (rewrite blen_app; lia).
    apply IH; try assumption.
    + rewrite <- app_assoc. exact Hsz.
    + cbn [length] in Hfuel. lia.
Qed.

(* ---------------------------------------------------------------- updateByteLen with the repairs in: exact re-encoding *)
Lemma relen_step_g_false_local A B t L body' diff :
  0 <= t < 2 ^ 64 -> 0 <= L < 2 ^ 64 -> blen body' = L + diff -> blen body' < 2 ^ 64 ->
  exists ip,
  relen_step_g false (A ++ varint_enc t ++ varint_enc L ++ body' ++ B) diff (length A)
  = (A ++ varint_enc t ++ varint_enc (blen body') ++ body' ++ B,
     diff + (blen (varint_enc (blen body')) - blen (varint_enc L)), ip).
Proof.
  intros Ht HL Hb Hb2. set (tag := varint_enc t). unfold relen_step_g.
  rewrite skipn_app_len.
  unfold tag at 1. rewrite varint_dec_enc by exact Ht. fold tag.
  rewrite Nat2Z.id, skipn_app_len.
  rewrite varint_dec_enc by exact HL. rewrite Nat2Z.id.
  fold (blen tag). fold (blen (varint_enc L)).
  rewrite <- Hb. rewrite andb_false_r.
  pose proof (varint_enc_len_pos L) as HvL. pose proof (blen_nonneg body') as Hnn.
  rewrite Z.mod_small by lia.
  pose proof (varint_enc_len_pos (blen body')) as HvN.
  assert (Hsk : skipn (length A + length tag + length (varint_enc L)) (A ++ tag ++ varint_enc L ++ body' ++ B) = body' ++ B).
  { replace (length A + length tag + length (varint_enc L))%nat
      with (length A + (length tag + length (varint_enc L)))%nat by lia.
    rewrite skipn_app. rewrite (skipn_all2 A) by lia. cbn [app].
    replace (length A + (length tag + length (varint_enc L)) - length A)%nat
      with (length tag + length (varint_enc L))%nat by lia.
    apply skipn_app_plus. }
  destruct (Z.eqb_spec (blen (varint_enc (blen body')) - blen (varint_enc L)) 0) as [E|E].
  - exists true. unfold overwrite.
    assert (Hlen : length (varint_enc (blen body')) = length (varint_enc L))
      by (apply Nat2Z.inj; change (blen (varint_enc (blen body')) = blen (varint_enc L)); lia).
    rewrite Hlen, Hsk.
    replace (length A + length tag)%nat with (length (A ++ tag)) by (rewrite app_length; lia).
    rewrite (app_assoc A tag), firstn_app_len. rewrite <- !app_assoc.
    f_equal. f_equal. lia.
  - exists false. rewrite Hsk.
    replace (length A + length tag)%nat with (length (A ++ tag)) by (rewrite app_length; lia).
    rewrite (app_assoc A tag), firstn_app_len. rewrite <- !app_assoc. reflexivity.
Qed.

Fixpoint frames_okE (fr : list frame) (xo xn : list Z) : Prop :=
  match fr with
  | [] => True
  | f :: outer => frame_ok f /\ blen (fr_body f xo) < 2 ^ 64 /\ blen (fr_body f xn) < 2 ^ 64 /\
                  frames_okE outer (encE1 f xo) (encE1 f xn)
  end.

(* every ancestor is a message reached through a field step: with all repairs in, the coded loop re-encodes exactly *)
Lemma relen_coded_g_fields_chain fr : forall xo xn R1 R2 pk,
  frames_okE fr xo xn ->
  rs_buf (fold_left (relen_coded_step_g all_fixes)
                    (map (fun a => (Z.of_nat (length R1 + a), PT_FIELD)) (frame_addrs fr xo))
                    (mk_rstate (R1 ++ wrapS fr xo xn ++ R2) (blen xn - blen xo) 1 pk))
  = R1 ++ wrapE fr xn ++ R2.
Proof.
  induction fr as [|f outer IH]; intros xo xn R1 R2 pk Hok.
  - reflexivity.
  - cbn [frames_okE] in Hok. destruct Hok as ((t & Ht & Htag) & HLo & HLn & Hok).
    cbn [wrapS frame_addrs map wrapE fold_left].
    set (yo := encE1 f xo).
    rewrite wrapS_decomp.
    unfold relen_coded_step_g at 2. cbn [rs_prev rs_buf rs_diff rs_packed].
    change (1 =? 1) with true. cbn [orb]. change (fx_emptied all_fixes) with true. change (fx_mapentry all_fixes) with true.
    cbv iota. change (1 =? 2) with false.
    rewrite Nat2Z.id. unfold encS1. rewrite Htag.
    destruct (relen_step_g_false_local (R1 ++ ctxA outer yo) (ctxB outer yo ++ R2) t
                (blen (fr_body f xo)) (fr_body f xn) (blen xn - blen xo) Ht) as (ip & Hstep).
    + split; [apply blen_nonneg|exact HLo].
    + unfold fr_body. rewrite !blen_app. lia.
    + exact HLn.
    + rewrite app_length in Hstep. rewrite <- !app_assoc in Hstep. rewrite <- !app_assoc.
      rewrite Hstep. cbn [negb andb]. rewrite andb_false_r. cbn [prev_of_pt PT_FIELD].
      change (0 =? PT_KEY) with false. change (0 =? PT_INDEX) with false. cbv iota.
      specialize (IH yo (encE1 f xn) R1 R2 false Hok).
      rewrite wrapS_decomp in IH. rewrite <- !app_assoc in IH.
      assert (Hd : blen xn - blen xo + (blen (varint_enc (blen (fr_body f xn))) - blen (varint_enc (blen (fr_body f xo))))
                   = blen (encE1 f xn) - blen yo).
      { unfold yo, encE1. rewrite !blen_app. unfold fr_body. rewrite !blen_app. lia. }
      rewrite Hd.
      assert (He : varint_enc t ++ varint_enc (blen (fr_body f xn)) ++ fr_body f xn ++ ctxB outer yo ++ R2
                   = encE1 f xn ++ ctxB outer yo ++ R2).
      { unfold encE1. rewrite Htag, <- !app_assoc. reflexivity. }
      rewrite He. exact IH.
Qed.

(* ---------------------------------------------------------------- frames listed outside-in (snoc view of the inside-out lists) *)
Lemma wrapE_snoc l f : forall x, wrapE (l ++ [f]) x = encE1 f (wrapE l x).
Proof. induction l as [|g l IH]; intros x; cbn [app wrapE]; [reflexivity|apply IH]. Qed.

Lemma wrapS_snoc l f : forall xo xn, wrapS (l ++ [f]) xo xn = encS1 f (wrapE l xo) (wrapS l xo xn).
Proof. induction l as [|g l IH]; intros xo xn; cbn [app wrapS wrapE]; [reflexivity|apply IH]. Qed.

Lemma ctxA_snoc l f : forall xo,
  ctxA (l ++ [f]) xo = fr_tag f ++ varint_enc (blen (fr_body f (wrapE l xo))) ++ fr_pre f ++ ctxA l xo.
Proof.
  induction l as [|g l IH]; intros xo; cbn [app ctxA wrapE].
  - rewrite app_nil_r. reflexivity.
  - rewrite IH. rewrite <- !app_assoc. reflexivity.
Qed.

Lemma frame_addrs_snoc l f : forall xo,
  frame_addrs (l ++ [f]) xo
  = map (fun a => (length (fr_tag f ++ varint_enc (blen (fr_body f (wrapE l xo))) ++ fr_pre f) + a)%nat) (frame_addrs l xo) ++ [0%nat].
Proof.
  induction l as [|g l IH]; intros xo; cbn [app frame_addrs wrapE map].
  - reflexivity.
  - rewrite IH, ctxA_snoc. f_equal. rewrite !app_length. lia.
Qed.

Lemma frames_okE_snoc l f : forall xo xn,
  frames_okE (l ++ [f]) xo xn <->
  (frames_okE l xo xn /\ frame_ok f /\ blen (fr_body f (wrapE l xo)) < 2 ^ 64 /\ blen (fr_body f (wrapE l xn)) < 2 ^ 64).
Proof.
  induction l as [|g l IH]; intros xo xn; cbn [app frames_okE wrapE].
  - tauto.
  - rewrite IH. tauto.
Qed.

(* ---------------------------------------------------------------- the AST side: where a path of field numbers lands *)
Fixpoint fsplit (id : Z) (fs : pmsg) : option (pmsg * pval * pmsg) :=
  match fs with
  | [] => None
  | (n, v) :: r =>
    if n =? id then Some ([], v, r)
    else match fsplit id r with Some (a, x, b) => Some ((n, v) :: a, x, b) | None => None end
  end.

Lemma fsplit_some id fs : forall a x b, fsplit id fs = Some (a, x, b) ->
  fs = a ++ (id, x) :: b /\ forallb (fun nv => negb (fst nv =? id)) a = true /\
  assoc_z id fs = Some x /\ (forall y, set_assoc id y fs = a ++ (id, y) :: b).
Proof.
  induction fs as [|[n v] r IH]; intros a x b H; cbn [fsplit] in H; [discriminate|].
  destruct (Z.eqb_spec n id) as [->|Hne].
  - inversion H; subst. cbn [app forallb assoc_z set_assoc]. rewrite Z.eqb_refl. repeat split; reflexivity.
  - destruct (fsplit id r) as [[[a' x'] b']|] eqn:E; [|discriminate]. inversion H; subst.
    destruct (IH _ _ _ eq_refl) as (E1 & E2 & E3 & E4).
    cbn [app forallb fst assoc_z set_assoc].
    destruct (Z.eqb_spec n id); [contradiction|]. cbn [negb andb].
    repeat split; try assumption; [rewrite E1 at 1; reflexivity|]. intros y. rewrite E4. reflexivity.
Qed.

Lemma fsplit_none id fs : fsplit id fs = None ->
  assoc_z id fs = None /\ forallb (fun nv => negb (fst nv =? id)) fs = true.
Proof.
  induction fs as [|[n v] r IH]; intros H; cbn [fsplit] in H; [split; reflexivity|].
  destruct (Z.eqb_spec n id) as [->|Hne]; [discriminate|].
  destruct (fsplit id r) as [[[a' x'] b']|] eqn:E; [discriminate|].
  destruct (IH eq_refl) as [E1 E2]. cbn [assoc_z forallb fst].
  destruct (Z.eqb_spec n id); [contradiction|]. cbn [negb andb]. split; assumption.
Qed.

Definition mtag (id : Z) : list Z := varint_enc (id * 8 + 2).

(* R1 (bytes in front of the hole at this level, target tag included at the innermost level), enclosing message
   fields outside-in, R2, the old value bytes xo, the target's tag bytes tk ([] when the field is absent) *)
Fixpoint actx (S : schema) (name : list Z) (fs : pmsg) (ids : list Z) {struct ids}
  : option (list Z * list frame * list Z * list Z * list Z) :=
  match ids with
  | [] => None
  | id :: rest =>
    match find_msg S name with
    | None => None
    | Some md =>
      match find_field md id with
      | None => None
      | Some fd =>
        match fd_label fd with
        | LSingular =>
          match rest with
          | [] =>
            match fsplit id fs with
            | Some (a, v, b) =>
              Some (wenc (msg_wire a) ++ tagb (id, sval v), [], wenc (msg_wire b), wenc_val (sval v), tagb (id, sval v))
            | None => Some (wenc (msg_wire fs), [], [], [], [])
            end
          | _ :: _ =>
            match fd_type fd, fsplit id fs with
            | TMsg name', Some (a, VMsg fs', b) =>
              match actx S name' fs' rest with
              | Some (R1', l', R2', xo, tk) =>
                Some (wenc (msg_wire a), (R1', mtag id, R2') :: l', wenc (msg_wire b), xo, tk)
              | None => None
              end
            | _, _ => None
            end
          end
        | _ => None
        end
      end
    end
  end.

Lemma msg_wire_app a b : msg_wire (a ++ b) = msg_wire a ++ msg_wire b.
Proof. unfold msg_wire. apply flat_map_app. Qed.

Lemma msg_wire_cons n v b : msg_wire ((n, v) :: b) = wfld n v ++ msg_wire b.
Proof. reflexivity. Qed.

(* what wf_msg gives for the fields of a message *)
Lemma wf_msg_fields S name md fs :
  find_msg S name = Some md -> wf_fld S LSingular (TMsg name) (VMsg fs) = true ->
  nodupb Z.eqb (map fst fs) = true /\
  plen (wenc (msg_wire fs)) < 2 ^ 64 /\
  (forall nv, In nv fs -> exists fd, find_field md (fst nv) = Some fd /\ 1 <= fst nv <= MAX_FIELD_NUMBER /\
                                     wf_fld S (fd_label fd) (fd_type fd) (snd nv) = true).
Proof.
  intros Hm H. cbn [wf_fld] in H. rewrite Hm in H.
  apply andb_true_iff in H as [H Hall]. apply andb_true_iff in H as [Hnd Hlen].
  split; [exact Hnd|]. split; [apply Z.ltb_lt; exact Hlen|].
  intros nv Hin. rewrite forallb_forall in Hall. specialize (Hall nv Hin). cbn beta in Hall.
  destruct (find_field md (fst nv)) as [fd|]; [|discriminate]. exists fd. split; [reflexivity|].
  apply andb_true_iff in Hall as [Hall Hv]. apply andb_true_iff in Hall as [A B].
  apply Z.leb_le in A, B. repeat split; assumption.
Qed.

(* a well-formed field value emits well-formed records, all numbered n *)
Lemma wfld_wire S lbl t v n : wf_fld S lbl t v = true -> 1 <= n <= MAX_FIELD_NUMBER ->
  wf_wire (wfld n v) = true /\ forallb (fun g => fst g =? n) (wfld n v) = true.
Proof.
  intros H Hn. destruct (wfld_fvals S lbl t v n H) as [E _]. rewrite E. split.
  - apply map_pair_wf; [exact Hn|]. eapply fvals_wf; exact H.
  - rewrite forallb_forall. intros g Hg. apply in_map_iff in Hg. destruct Hg as (w & <- & _). cbn [fst]. apply Z.eqb_refl.
Qed.

Lemma msg_wire_facts S md fs id :
  (forall nv, In nv fs -> exists fd, find_field md (fst nv) = Some fd /\ 1 <= fst nv <= MAX_FIELD_NUMBER /\
                                     wf_fld S (fd_label fd) (fd_type fd) (snd nv) = true) ->
  wf_wire (msg_wire fs) = true /\
  (forallb (fun nv => negb (fst nv =? id)) fs = true -> no_num id (msg_wire fs) = true).
Proof.
  induction fs as [|[n v] r IH]; intros Hall; [split; [reflexivity|intros; reflexivity]|].
  destruct (Hall (n, v) (or_introl eq_refl)) as (fd & _ & Hn & Hv). cbn [fst snd] in *.
  destruct (wfld_wire S _ _ v n Hv Hn) as [W1 W2].
  destruct IH as [I1 I2]; [intros nv Hin; apply Hall; right; exact Hin|].
  rewrite msg_wire_cons. split.
  - unfold wf_wire in *. rewrite forallb_app, W1, I1. reflexivity.
  - intros Hno. cbn [forallb fst] in Hno. apply andb_true_iff in Hno as [Hne Hno].
    specialize (I2 Hno). unfold no_num in *. rewrite forallb_app. apply andb_true_iff. split; [|exact I2].
    rewrite forallb_forall in *. intros g Hg. specialize (W2 g Hg). apply Z.eqb_eq in W2. rewrite W2. exact Hne.
Qed.

(* wire type of the single record of a well-formed singular value: a function of the declared type *)
Definition wt_t (t : ftype) : Z :=
  match t with TScalar k => if is_byteskind k then 2 else wt_of_kind k | TMsg _ => 2 end.

Lemma sval_wt S t v : wf_fld S LSingular t v = true -> wt_of_wval (sval v) = wt_t t.
Proof.
  destruct v as [k x|k b|fs| |]; cbn [wf_fld]; intros H; try discriminate.
  - destruct t as [k'|]; [|discriminate].
    apply andb_true_iff in H as [H _]. apply andb_true_iff in H as [Hk Hn]. apply Z.eqb_eq in Hk. subst k'.
    cbn [wt_t sval]. rewrite (numeric_not_bytes _ Hn).
    pose proof (is_numeric_cases k Hn) as Hc. cbn [In] in Hc.
    repeat (destruct Hc as [<-|Hc]; [reflexivity|]). contradiction.
  - destruct t as [k'|]; [|discriminate].
    apply andb_true_iff in H as [H _]. apply andb_true_iff in H as [Hk Hb]. apply Z.eqb_eq in Hk. subst k'.
    cbn [wt_t sval wt_of_wval]. rewrite Hb. reflexivity.
  - destruct t as [|name]; [discriminate|]. reflexivity.
Qed.

Definition new_bytes (ids : list Z) (tk : list Z) (x : pval) : list Z :=
  match tk with
  | [] => tagb (last ids 0, sval x) ++ wenc_val (sval x)
  | _ => wenc_val (sval x)
  end.

Lemma tagb_nonnil f : tagb f <> [].
Proof. unfold tagb. destruct (varint_enc_cons (fst f * 8 + wt_of_wval (snd f))) as (b & t & E). rewrite E. discriminate. Qed.

Lemma pset_at_msg_step S name md fs id rest x fd :
  find_msg S name = Some md -> find_field md id = Some fd ->
  pset_at S LSingular (TMsg name) (VMsg fs) (PField id :: rest) x =
  match assoc_z (fd_num fd) fs with
  | Some child =>
    match pset_at S (fd_label fd) (fd_type fd) child rest x with
    | Some (c', e) => Some (VMsg (set_assoc (fd_num fd) c' fs), e)
    | None => None
    end
  | None =>
    match rest with
    | [] => if wf_fld S (fd_label fd) (fd_type fd) x then Some (VMsg (fs ++ [(fd_num fd, x)]), false) else None
    | _ => None
    end
  end.
Proof. intros Hm Hf. cbn [pset_at]. rewrite Hm. cbn [resolve_field]. rewrite Hf. reflexivity. Qed.

(* the encoding of the message around the hole, before and after the specified edit *)
Lemma actx_enc_pset S ids : forall name fs R1 l R2 xo tk,
  wf_fld S LSingular (TMsg name) (VMsg fs) = true ->
  actx S name fs ids = Some (R1, l, R2, xo, tk) ->
  wenc (msg_wire fs) = R1 ++ wrapE (rev l) xo ++ R2 /\
  (forall x v' e, pset_at S LSingular (TMsg name) (VMsg fs) (map PField ids) x = Some (v', e) ->
     exists fs', v' = VMsg fs' /\ e = negb (match tk with [] => true | _ => false end) /\
                 wenc (msg_wire fs') = R1 ++ wrapE (rev l) (new_bytes ids tk x) ++ R2).
Proof.
  induction ids as [|id rest IH]; intros name fs R1 l R2 xo tk Hwf Hctx; [discriminate|].
  cbn [actx] in Hctx. destruct (find_msg S name) as [md|] eqn:Hm; [|discriminate].
  destruct (find_field md id) as [fd|] eqn:Hf; [|discriminate].
  assert (Enum : fd_num fd = id).
  { unfold find_field in Hf. apply find_some in Hf. destruct Hf as [_ Hf']. apply Z.eqb_eq in Hf'. exact Hf'. }
  subst id. set (id := fd_num fd) in *.
  destruct (fd_label fd) eqn:Hl; try discriminate.
  destruct (wf_msg_fields S name md fs Hm Hwf) as (Hnd & Hlen & Hall).
  destruct rest as [|id2 rest].
  - (* the target level *)
    destruct (fsplit id fs) as [[[a v] b]|] eqn:Hs.
    + inversion Hctx; subst; clear Hctx.
      destruct (fsplit_some _ _ _ _ _ Hs) as (Efs & Hno & Has & Hset).
      assert (Hin : In (id, v) fs) by (rewrite Efs; apply in_or_app; right; left; reflexivity).
      destruct (Hall _ Hin) as (fd' & Hf' & Hn & Hv). cbn [fst snd] in *. rewrite Hf in Hf'. inversion Hf'; subst fd'.
      rewrite Hl in Hv.
      split.
      * rewrite Efs at 1. rewrite msg_wire_app, msg_wire_cons, !wenc_app.
        rewrite (wfld_single _ _ _ id Hv). cbn [rev wrapE]. rewrite wenc_cons. cbn [wenc flat_map]. rewrite app_nil_r.
        rewrite wenc_field_tagb. cbn [snd]. rewrite <- !app_assoc. reflexivity.
      * intros x v' e Hp. cbn [map] in Hp. rewrite (pset_at_msg_step S name md fs id _ x fd Hm Hf) in Hp. fold id in Hp. rewrite Has in Hp.
        rewrite Hl in Hp. cbn [pset_at] in Hp.
        destruct (wf_fld S LSingular (fd_type fd) x) eqn:Hx; [|discriminate]. injection Hp as <- <-.
        exists (set_assoc id x fs). split; [reflexivity|].
        assert (Htk : tagb (id, sval v) <> []) by apply tagb_nonnil.
        split; [destruct (tagb (id, sval v)); [contradiction|reflexivity]|].
        rewrite Hset, msg_wire_app, msg_wire_cons, !wenc_app.
        rewrite (wfld_single _ _ _ id Hx). cbn [rev wrapE]. rewrite wenc_cons. cbn [wenc flat_map]. rewrite app_nil_r.
        rewrite wenc_field_tagb. cbn [snd].
        assert (Et : tagb (id, sval x) = tagb (id, sval v)).
        { unfold tagb. cbn [fst snd]. rewrite (sval_wt _ _ _ Hx), (sval_wt _ _ _ Hv). reflexivity. }
        rewrite Et. unfold new_bytes. destruct (tagb (id, sval v)) eqn:Etk; [contradiction|].
        rewrite <- !app_assoc. reflexivity.
    + inversion Hctx; subst; clear Hctx.
      destruct (fsplit_none _ _ Hs) as [Has Hno].
      split; [cbn [rev wrapE]; rewrite !app_nil_r; reflexivity|].
      intros x v' e Hp. cbn [map] in Hp. rewrite (pset_at_msg_step S name md fs id _ x fd Hm Hf) in Hp. fold id in Hp. rewrite Has in Hp.
      rewrite Hl in Hp.
      destruct (wf_fld S LSingular (fd_type fd) x) eqn:Hx; [|discriminate]. injection Hp as <- <-.
      exists (fs ++ [(id, x)]). split; [reflexivity|]. split; [reflexivity|].
      rewrite msg_wire_app, wenc_app. cbn [rev wrapE new_bytes last]. rewrite app_nil_r.
      unfold msg_wire. cbn [flat_map fst snd]. rewrite app_nil_r.
      rewrite (wfld_single _ _ _ id Hx). rewrite wenc_cons. cbn [wenc flat_map]. rewrite app_nil_r.
      rewrite wenc_field_tagb. reflexivity.
  - (* an enclosing message *)
    destruct (fd_type fd) as [|name'] eqn:Ht; [discriminate|].
    destruct (fsplit id fs) as [[[a v] b]|] eqn:Hs; [|discriminate].
    destruct v as [| |fs'| |]; try discriminate.
    destruct (actx S name' fs' (id2 :: rest)) as [[[[[R1' l'] R2'] xo'] tk']|] eqn:Hc; [|discriminate].
    inversion Hctx; subst; clear Hctx.
    destruct (fsplit_some _ _ _ _ _ Hs) as (Efs & Hno & Has & Hset).
    assert (Hin : In (id, VMsg fs') fs) by (rewrite Efs; apply in_or_app; right; left; reflexivity).
    destruct (Hall _ Hin) as (fd' & Hf' & Hn & Hv). cbn [fst snd] in *. rewrite Hf in Hf'. inversion Hf'; subst fd'.
    rewrite Hl, Ht in Hv.
    destruct (IH name' fs' R1' l' R2' xo tk Hv Hc) as [Eenc Hset'].
    assert (Ewrap : forall y, encE1 (R1', mtag id, R2') (wrapE (rev l') y)
                             = wenc_field (id, WBytes (R1' ++ wrapE (rev l') y ++ R2'))).
    { intros y. unfold encE1, fr_body, fr_tag, fr_pre, fr_post. cbn [fst snd]. reflexivity. }
    split.
    + rewrite Efs at 1. rewrite msg_wire_app, msg_wire_cons, !wenc_app. cbn [wfld].
      rewrite wenc_cons. cbn [wenc flat_map]. rewrite app_nil_r.
      cbn [rev]. rewrite wrapE_snoc, Ewrap. fold (msg_wire fs'). rewrite Eenc. rewrite <- ?app_assoc. reflexivity.
    + intros x v' e Hp. cbn [map] in Hp. rewrite (pset_at_msg_step S name md fs id _ x fd Hm Hf) in Hp. fold id in Hp. rewrite Has in Hp.
      rewrite Hl, Ht in Hp. change (PField id2 :: map PField rest) with (map PField (id2 :: rest)) in Hp.
      destruct (pset_at S LSingular (TMsg name') (VMsg fs') (map PField (id2 :: rest)) x) as [[c' e']|] eqn:Hpc; [|discriminate].
      injection Hp as <- <-.
      destruct (Hset' x c' e' Hpc) as (fs'' & -> & He & Eenc').
      exists (set_assoc id (VMsg fs'') fs). split; [reflexivity|]. split; [exact He|].
      rewrite Hset, msg_wire_app, msg_wire_cons, !wenc_app. cbn [wfld].
      rewrite wenc_cons. cbn [wenc flat_map]. rewrite app_nil_r.
      cbn [rev]. rewrite wrapE_snoc, Ewrap. fold (msg_wire fs''). rewrite Eenc'.
      assert (El : new_bytes (id :: id2 :: rest) tk x = new_bytes (id2 :: rest) tk x) by reflexivity.
      rewrite El. rewrite <- ?app_assoc. reflexivity.
Qed.

(* ---------------------------------------------------------------- splice + re-length = re-encoding, every depth *)
Lemma finish_refines fr xo xn R1 R2 ak :
  frames_okE fr xo xn ->
  let buf := R1 ++ wrapE fr xo ++ R2 in
  let s := (length R1 + length (ctxA fr xo))%nat in
  let b1 := splice buf s (s + length xo) xn in
  relen_coded_g all_fixes b1 (blen b1 - blen buf) false
    ((ak, PT_FIELD) :: map (fun a => (Z.of_nat (length R1 + a), PT_FIELD)) (frame_addrs fr xo))
  = R1 ++ wrapE fr xn ++ R2.
Proof.
  intros Hok buf s b1.
  assert (Hb1 : b1 = R1 ++ wrapS fr xo xn ++ R2).
  { unfold b1, splice, buf, s. rewrite wrapE_wrapS, !wrapS_decomp. rewrite <- !app_assoc.
    rewrite <- app_length. rewrite (app_assoc R1 (ctxA fr xo)), firstn_app_len.
    rewrite <- app_length. rewrite (app_assoc (R1 ++ ctxA fr xo) xo), skipn_app_len.
    rewrite <- !app_assoc. reflexivity. }
  assert (Hd : blen b1 - blen buf = blen xn - blen xo).
  { rewrite Hb1. unfold buf. rewrite wrapE_wrapS, !wrapS_decomp, !blen_app. lia. }
  rewrite Hd, Hb1. unfold relen_coded_g. cbn [fold_left].
  unfold relen_coded_step_g at 2. cbn [rs_prev rs_buf rs_diff rs_packed].
  change (0 =? 1) with false. change (0 =? 3) with false. change (0 =? 2) with false.
  rewrite andb_false_r. cbn [andb orb]. cbv iota. cbn [prev_of_pt PT_FIELD].
  change (0 =? PT_KEY) with false. change (0 =? PT_INDEX) with false. cbv iota.
  apply relen_coded_g_fields_chain. exact Hok.
Qed.

(* Every depth: once the walk has located the hole (context of actx: offsets of the enclosing message tags and the span
   of the old value), "splice the new bytes, then run the coded updateByteLen over the recorded addresses" yields exactly
   the canonical encoding of the specified result pset. *)
Theorem splice_relen_refines_pset S root m ids x m' e R1 l R2 xo tk ak :
  wf_msg S root m = true ->
  actx S root m ids = Some (R1, l, R2, xo, tk) ->
  pset S root m (map PField ids) x = Some (m', e) ->
  frames_okE (rev l) xo (new_bytes ids tk x) ->
  let buf := encode_msg m in
  let s := (length R1 + length (ctxA (rev l) xo))%nat in
  let b1 := splice buf s (s + length xo) (new_bytes ids tk x) in
  relen_coded_g all_fixes b1 (blen b1 - blen buf) false
    ((ak, PT_FIELD) :: map (fun a => (Z.of_nat (length R1 + a), PT_FIELD)) (frame_addrs (rev l) xo))
  = encode_msg m' /\ e = negb (match tk with [] => true | _ => false end).
Proof.
  intros Hwf Hctx Hp Hok buf s b1.
  destruct (actx_enc_pset S ids root m R1 l R2 xo tk Hwf Hctx) as [Eenc Hset].
  unfold pset in Hp.
  destruct (pset_at S LSingular (TMsg root) (VMsg m) (map PField ids) x) as [[v' e']|] eqn:Hpa; [|discriminate].
  destruct (Hset x v' e' Hpa) as (fs' & -> & He & Eenc').
  destruct (wf_msg S root fs'); [|discriminate]. injection Hp as <- <-.
  split; [|exact He].
  unfold b1, s, buf, encode_msg. rewrite Eenc. rewrite finish_refines by exact Hok. symmetry. exact Eenc'.
Qed.

(* ---------------------------------------------------------------- the complete entry point for a field of the root message *)
Lemma nt_facts S t v : wf_fld S LSingular t v = true ->
  (td_type (td_base t) =? T_MAP) = false /\ (td_type (td_base t) =? T_LIST) = false /\
  wire_of_type (td_type (td_base t)) = wt_t t.
Proof.
  destruct v as [k x|k b|fs| |]; cbn [wf_fld]; intros H; try discriminate.
  - destruct t as [k'|]; [|discriminate].
    apply andb_true_iff in H as [H _]. apply andb_true_iff in H as [Hk Hn]. apply Z.eqb_eq in Hk. subst k'.
    cbn [td_base td_type wt_t]. rewrite (numeric_not_bytes _ Hn).
    pose proof (is_numeric_cases k Hn) as Hc. cbn [In] in Hc.
    repeat (destruct Hc as [<-|Hc]; [repeat split; reflexivity|]). contradiction.
  - destruct t as [k'|]; [|discriminate].
    apply andb_true_iff in H as [H _]. apply andb_true_iff in H as [Hk Hb]. apply Z.eqb_eq in Hk. subst k'.
    cbn [td_base td_type wt_t]. rewrite Hb. unfold is_byteskind in Hb. apply orb_true_iff in Hb.
    destruct Hb as [Hb|Hb]; apply Z.eqb_eq in Hb; subst k; repeat split; reflexivity.
  - destruct t as [|name]; [discriminate|]. repeat split; reflexivity.
Qed.

Theorem coded_set_refines_root_field S root m id x m' e md fd :
  wf_msg S root m = true -> blen (encode_msg m) < 2 ^ 63 ->
  find_msg S root = Some md -> find_field md id = Some fd -> fd_label fd = LSingular ->
  pset S root m [PField id] x = Some (m', e) ->
  coded_set all_fixes S root (encode_msg m) [PField id] (wenc_val (sval x)) = CRes 0 e (encode_msg m').
Proof.
  intros Hwf Hsz Hm Hf Hl Hp.
  assert (Enum : fd_num fd = id).
  { unfold find_field in Hf. apply find_some in Hf. destruct Hf as [_ Hf']. apply Z.eqb_eq in Hf'. exact Hf'. }
  destruct (wf_msg_fields S root md m Hm Hwf) as (Hnd & Hlen & Hall).
  (* the sub value is well-formed for the field's type *)
  assert (Hx : wf_fld S LSingular (fd_type fd) x = true).
  { unfold pset in Hp. change [PField id] with (map PField [id]) in Hp. cbn [map] in Hp.
    rewrite (pset_at_msg_step S root md m id [] x fd Hm Hf) in Hp. rewrite Enum, Hl in Hp.
    destruct (assoc_z id m); cbn [pset_at] in Hp; destruct (wf_fld S LSingular (fd_type fd) x); try discriminate; reflexivity. }
  destruct (nt_facts S _ _ Hx) as (Hnm & Hnl & Hwt).
  assert (Hctx : exists R1 R2 xo tk, actx S root m [id] = Some (R1, [], R2, xo, tk)).
  { cbn [actx]. rewrite Hm, Hf, Hl. destruct (fsplit id m) as [[[a v] b]|]; do 4 eexists; reflexivity. }
  destruct Hctx as (R1 & R2 & xo & tk & Hctx).
  pose proof (splice_relen_refines_pset S root m [id] x m' e R1 [] R2 xo tk) as Hfin.
  cbn [map rev frame_addrs ctxA length] in Hfin.
  unfold coded_set.
  assert (Hpt0 : True) by exact I.
  assert (Hpt : path_type_lax S LSingular (TMsg root) [PField id] = Some (LSingular, fd_type fd)).
  { cbn [path_type_lax]. rewrite Hm. cbn [resolve_field]. rewrite Hf, Hl. reflexivity. }
  rewrite Hpt. unfold coded_set_t. rewrite Hpt. cbn [last_step map last].
  unfold get_by_path. cbn [gwalk]. unfold gstep. cbn [td_msg]. rewrite Hm, Hf.
  change (blen (@nil Z)) with 0 in *.
  cbn [actx] in Hctx. rewrite Hm, Hf, Hl in Hctx.
  destruct (fsplit id m) as [[[a v] b]|] eqn:Hs.
  - (* the field is present: replace its value *)
    injection Hctx as <- <- <- <-.
    destruct (fsplit_some _ _ _ _ _ Hs) as (Efs & Hno & Has & Hset).
    assert (Hin : In (id, v) m) by (rewrite Efs; apply in_or_app; right; left; reflexivity).
    destruct (Hall _ Hin) as (fd' & Hf' & Hn & Hv). cbn [fst snd] in *. rewrite Hf in Hf'. injection Hf' as <-.
    rewrite Hl in Hv.
    assert (Ha : forall nv, In nv a -> exists fd, find_field md (fst nv) = Some fd /\ 1 <= fst nv <= MAX_FIELD_NUMBER /\
                                                  wf_fld S (fd_label fd) (fd_type fd) (snd nv) = true).
    { intros nv Hi. apply Hall. rewrite Efs. apply in_or_app. left. exact Hi. }
    destruct (msg_wire_facts S md a id Ha) as [Wa Na]. specialize (Na Hno).
    set (f := (id, sval v)).
    assert (Wf : wf_wfield f = true).
    { unfold wf_wfield, f. cbn [fst snd]. rewrite (sval_wf _ _ _ Hv).
      destruct (Z.leb_spec 1 id); [|lia]. destruct (Z.leb_spec id MAX_FIELD_NUMBER); [|lia]. reflexivity. }
    assert (Ebuf : encode_msg m = [] ++ wenc (msg_wire a) ++ wenc_field f ++ wenc (msg_wire b)).
    { unfold encode_msg. rewrite Efs at 1. rewrite msg_wire_app, msg_wire_cons, !wenc_app.
      rewrite (wfld_single _ _ _ id Hv). rewrite wenc_cons. cbn [wenc flat_map app]. rewrite app_nil_r. reflexivity. }
    rewrite Enum.
    assert (Hsearch : search_field all_fixes (Datatypes.S (length (encode_msg m))) (encode_msg m) 0 id (0 + blen (encode_msg m))
                      = EOk (blen (wenc (msg_wire a)), blen (wenc (msg_wire a)), true)).
    { rewrite Ebuf at 2 3. change 0 with (blen (@nil Z)) at 1.
      change f with (fst f, snd f) at 1. change id with (fst f).
      rewrite (search_field_found all_fixes (msg_wire a) [] f (wenc (msg_wire b))); try assumption.
      - reflexivity.
      - rewrite <- Ebuf. exact Hsz.
      - rewrite <- Ebuf. rewrite Ebuf. rewrite !blen_app. change (blen (@nil Z)) with 0.
        pose proof (wenc_field_pos f). pose proof (blen_nonneg (wenc (msg_wire b))). lia.
      - pose proof (wenc_length_ge (msg_wire a)) as Hg. rewrite Ebuf. rewrite !app_length. cbn [length]. lia. }
    rewrite Hsearch. cbn [ebind app is_last]. cbn [negb].
    assert (Etd : td_of_field fd = td_base (fd_type fd)) by (unfold td_of_field; rewrite Hl; reflexivity).
    rewrite Etd. rewrite Hnm, Hnl. cbn [orb].
    assert (Hpk : td_packed (td_base (fd_type fd)) = false) by (destruct (fd_type fd); reflexivity).
    rewrite Hpk.
    assert (Ebuf2 : encode_msg m = wenc (msg_wire a) ++ wenc_field f ++ wenc (msg_wire b)) by exact Ebuf.
    unfold c_tag. rewrite Ebuf2 at 1. rewrite (c_tag_peek_field (wenc (msg_wire a)) f (wenc (msg_wire b)) Wf). cbn [ebind].
    assert (Ed2 : forall d, (match td_base (fd_type fd) with DList _ e0 => e0 | _ => d end) = d)
      by (intros d; destruct (fd_type fd); reflexivity).
    rewrite !Ed2, Hwt, <- (sval_wt _ _ _ Hv).
    change (sval v) with (snd f). rewrite Ebuf2 at 1.
    rewrite (c_skip_field all_fixes (wenc (msg_wire a)) f (wenc (msg_wire b)) Wf) by (rewrite <- Ebuf2; exact Hsz).
    cbn [g_t g_start g_end]. rewrite Z.eqb_refl.
    unfold levels. cbn [map pt_of_step combine rev app].
    specialize (Hfin (blen (wenc (msg_wire a))) Hwf).
    cbn [actx] in Hfin. rewrite Hm, Hf, Hl, Hs in Hfin. specialize (Hfin eq_refl Hp I).
    cbn zeta in Hfin. destruct Hfin as [Hfin He].
    assert (Htk : tagb (id, sval v) <> []) by apply tagb_nonnil.
    unfold new_bytes in Hfin. destruct (tagb (id, sval v)) eqn:Etk; [contradiction|]. rewrite <- Etk in *.
    cbn [negb] in He. subst e.
    assert (E1 : Z.to_nat (blen (wenc (msg_wire a)) + blen (tagb f)) = (length (wenc (msg_wire a) ++ tagb (id, sval v)) + 0)%nat).
    { unfold f, blen. rewrite app_length. lia. }
    assert (E2 : Z.to_nat (blen (wenc (msg_wire a)) + blen (wenc_field f))
                 = (length (wenc (msg_wire a) ++ tagb (id, sval v)) + 0 + length (wenc_val (sval v)))%nat).
    { rewrite wenc_field_tagb. unfold f, blen. cbn [snd]. rewrite !app_length. lia. }
    rewrite E1, E2. rewrite Hfin. reflexivity.
  - (* the field is absent: it is appended to the message *)
    injection Hctx as <- <- <- <-.
    destruct (fsplit_none _ _ Hs) as [Has Hno].
    destruct (msg_wire_facts S md m id Hall) as [Wm Nm]. specialize (Nm Hno).
    rewrite Enum.
    assert (Hsearch : search_field all_fixes (Datatypes.S (length (encode_msg m))) (encode_msg m) 0 id (0 + blen (encode_msg m))
                      = EOk (blen (encode_msg m), blen (encode_msg m), false)).
    { pose proof (search_field_absent all_fixes (msg_wire m) [] [] (Datatypes.S (length (encode_msg m))) id Wm Nm) as Hs'.
      cbn [app] in Hs'. rewrite app_nil_r in Hs'. change (blen (@nil Z)) with 0 in Hs'. apply Hs'.
      - exact Hsz.
      - pose proof (wenc_length_ge (msg_wire m)). unfold encode_msg. lia. }
    rewrite Hsearch. cbn [ebind app is_last negb].
    cbn [removelast desc_by_path].
    unfold set_not_found. change (11 =? 11) with true. cbv iota.
    unfold to_raw. rewrite Hnl, Hnm. cbn [orb]. rewrite Hwt, <- (sval_wt _ _ _ Hx).
    assert (Hin' : 1 <= id <= MAX_FIELD_NUMBER).
    { unfold pset in Hp. change [PField id] with (map PField [id]) in Hp. cbn [map] in Hp.
      rewrite (pset_at_msg_step S root md m id [] x fd Hm Hf) in Hp. rewrite Enum, Has, Hl, Hx in Hp.
      destruct (wf_msg S root (m ++ [(id, x)])) eqn:Hw'; [|discriminate].
      destruct (wf_msg_fields S root md _ Hm Hw') as (_ & _ & Hall').
      assert (Hi : In (id, x) (m ++ [(id, x)])) by (apply in_or_app; right; left; reflexivity).
      destruct (Hall' (id, x) Hi) as (fdx & _ & Hn' & _). exact Hn'. }
    pose proof (wt_of_wval_cases (sval x)) as Hc. unfold MAX_FIELD_NUMBER in Hin'.
    rewrite Z.mod_small by (change (2 ^ 64) with 18446744073709551616; lia).
    unfold levels. cbn [map pt_of_step combine rev app].
    specialize (Hfin (blen (encode_msg m)) Hwf).
    cbn [actx] in Hfin. rewrite Hm, Hf, Hl, Hs in Hfin. specialize (Hfin eq_refl Hp I).
    cbn zeta in Hfin. destruct Hfin as [Hfin He]. cbn [negb] in He. subst e.
    unfold new_bytes in Hfin. cbn [last] in Hfin. unfold tagb in Hfin. cbn [fst snd] in Hfin.
    assert (E1 : Z.to_nat (blen (encode_msg m)) = (length (wenc (msg_wire m)) + 0)%nat) by (unfold blen, encode_msg; lia).
    rewrite E1. cbn [length] in Hfin. rewrite !Nat.add_0_r in Hfin. rewrite ?Nat.add_0_r.
    unfold encode_msg in *. rewrite Hfin. reflexivity.
Qed.

(* ---------------------------------------------------------------- histories of root-field sets: every intermediate BUFFER
   is the canonical encoding of the model state *)
Definition coded_set_bytes (S : schema) (root : list Z) (buf : list Z) (o : Z * pval) : list Z :=
  match coded_set all_fixes S root buf [PField (fst o)] (wenc_val (sval (snd o))) with
  | CRes 0 _ b => b
  | _ => buf
  end.
Definition spec_set (S : schema) (root : list Z) (m : pmsg) (o : Z * pval) : pmsg :=
  pstep_total S root m (OSet [PField (fst o)] (snd o)).

(* every operation of the list addresses a singular field of the root, succeeds in the specification, and the
   buffers stay below 2^63 bytes *)
Fixpoint ops_in_fragment (S : schema) (root : list Z) (m : pmsg) (ops : list (Z * pval)) : Prop :=
  match ops with
  | [] => True
  | o :: r =>
    (exists md fd, find_msg S root = Some md /\ find_field md (fst o) = Some fd /\ fd_label fd = LSingular) /\
    blen (encode_msg m) < 2 ^ 63 /\
    (exists m' e, pset S root m [PField (fst o)] (snd o) = Some (m', e)) /\
    ops_in_fragment S root (spec_set S root m o) r
  end.

Theorem history_refines_root_fields S root ops : forall m,
  wf_msg S root m = true -> ops_in_fragment S root m ops ->
  forall k, fold_left (coded_set_bytes S root) (firstn k ops) (encode_msg m)
            = encode_msg (fold_left (spec_set S root) (firstn k ops) m).
Proof.
  induction ops as [|o r IH]; intros m Hwf Hfr k.
  - rewrite firstn_nil. reflexivity.
  - destruct k as [|k]; [reflexivity|]. cbn [firstn fold_left].
    cbn [ops_in_fragment] in Hfr. destruct Hfr as ((md & fd & Hm & Hf & Hl) & Hsz & (m' & e & Hp) & Hr).
    assert (Es : spec_set S root m o = m').
    { unfold spec_set, pstep_total. cbn [pstep_op]. rewrite Hp. reflexivity. }
    assert (Ec : coded_set_bytes S root (encode_msg m) o = encode_msg m').
    { unfold coded_set_bytes. rewrite (coded_set_refines_root_field S root m (fst o) (snd o) m' e md fd Hwf Hsz Hm Hf Hl Hp).
      reflexivity. }
    rewrite Ec, Es. rewrite Es in Hr. apply IH; [|exact Hr].
    eapply pset_wf. exact Hp.
Qed.
