(* Round-trip theorems for model/ProtoMsg.v:
   - wire level: wdec (wenc w) = Some w, and field-wise with an arbitrary tail;
   - typed level: decode_msg S fuel name (encode_msg m) = Some m for every well-formed m. *)
From Coq Require Import ZArith List Bool Lia.
From DG Require Import CaseFormat ProtoWireRef ProtoWireRefProofs ProtoMsg.
Import ListNotations.
Local Open Scope Z_scope.

(* ------------------------------------------------------------------ list helpers *)
Lemma skipn_app_len {A} (a r : list A) : skipn (length a) (a ++ r) = r.
Proof. induction a; cbn; auto. Qed.
Lemma firstn_app_len {A} (a r : list A) : firstn (length a) (a ++ r) = a.
Proof. induction a; cbn; f_equal; auto. Qed.

Lemma plen_nonneg {A} (l : list A) : 0 <= plen l.
Proof. unfold plen. lia. Qed.
Lemma plen_app {A} (a b : list A) : plen (a ++ b) = plen a + plen b.
Proof. unfold plen. rewrite app_length. lia. Qed.

Lemma take_app (x r : list Z) : take (plen x) (x ++ r) = Some (x, r).
Proof.
  unfold take. rewrite plen_app. pose proof (plen_nonneg x). pose proof (plen_nonneg r).
  destruct (Z.leb_spec 0 (plen x)); [|lia].
  destruct (Z.leb_spec (plen x) (plen x + plen r)); [|lia]. cbn [andb].
  unfold plen. rewrite Nat2Z.id, firstn_app_len, skipn_app_len. reflexivity.
Qed.

Lemma bytes_eqb_refl (a : list Z) : bytes_eqb a a = true.
Proof. unfold bytes_eqb. induction a; cbn; auto. rewrite Z.eqb_refl. auto. Qed.
Lemma bytes_eqb_eq (a b : list Z) : bytes_eqb a b = true -> a = b.
Proof.
  unfold bytes_eqb. revert b. induction a as [|x a IH]; intros [|y b] H; cbn in H; try discriminate; auto.
  apply andb_true_iff in H. destruct H as [H1 H2]. apply Z.eqb_eq in H1. subst. f_equal. auto.
Qed.

(* ------------------------------------------------------------------ wire level *)
Lemma varint_enc_cons v : exists b t, varint_enc v = b :: t.
Proof. unfold varint_enc. cbn [venc]. destruct (v <? 128); eauto. Qed.

Lemma varint_dec_enc' v r : 0 <= v < 2 ^ 64 ->
  varint_dec (varint_enc v ++ r) = (v, plen (varint_enc v)).
Proof. intros. apply varint_dec_enc. assumption. Qed.

Lemma le_enc_plen n v : plen (le_enc n v) = Z.of_nat n.
Proof. unfold plen. rewrite le_enc_length. reflexivity. Qed.

Lemma wdec_val_enc w r : wf_wval w = true ->
  wdec_val (wt_of_wval w) (wenc_val w ++ r) = Some (w, r).
Proof.
  intros H. destruct w as [v|v|v|bs]; cbn [wf_wval wt_of_wval wenc_val] in *; unfold wdec_val.
  - apply andb_true_iff in H. destruct H as [H0 H1]. apply Z.leb_le in H0. apply Z.ltb_lt in H1.
    cbn [Z.eqb Pos.eqb]. rewrite varint_dec_enc' by lia.
    pose proof (plen_nonneg (varint_enc v)).
    destruct (Z.ltb_spec (plen (varint_enc v)) 0); [lia|].
    unfold plen. rewrite Nat2Z.id, skipn_app_len. reflexivity.
  - apply andb_true_iff in H. destruct H as [H0 H1]. apply Z.leb_le in H0. apply Z.ltb_lt in H1.
    cbn [Z.eqb Pos.eqb].
    replace 8 with (plen (le_enc 8 v)) at 1 by apply le_enc_plen.
    rewrite take_app. rewrite <- (app_nil_r (le_enc 8 v)) at 1.
    rewrite le_dec_enc; [reflexivity|]. change (256 ^ Z.of_nat 8) with (2 ^ 64). lia.
  - apply andb_true_iff in H. destruct H as [H0 H1]. apply Z.leb_le in H0. apply Z.ltb_lt in H1.
    cbn [Z.eqb Pos.eqb].
    replace 4 with (plen (le_enc 4 v)) at 1 by apply le_enc_plen.
    rewrite take_app. rewrite <- (app_nil_r (le_enc 4 v)) at 1.
    rewrite le_dec_enc; [reflexivity|]. change (256 ^ Z.of_nat 4) with (2 ^ 32). lia.
  - apply Z.ltb_lt in H. pose proof (plen_nonneg bs).
    cbn [Z.eqb Pos.eqb]. rewrite <- app_assoc. rewrite varint_dec_enc' by lia.
    pose proof (plen_nonneg (varint_enc (plen bs))).
    destruct (Z.ltb_spec (plen (varint_enc (plen bs))) 0); [lia|].
    unfold plen at 2. rewrite Nat2Z.id, skipn_app_len, take_app. reflexivity.
Qed.

Lemma wt_of_wval_cases w : wt_of_wval w = 0 \/ wt_of_wval w = 1 \/ wt_of_wval w = 2 \/ wt_of_wval w = 5.
Proof. destruct w; cbn; auto. Qed.

(* one field followed by anything *)
Theorem wdec_field_enc f r : wf_wfield f = true ->
  wdec_field (wenc_field f ++ r) = Some (f, r).
Proof.
  destruct f as [n w]. unfold wf_wfield, wenc_field, wdec_field, MAX_FIELD_NUMBER. cbn [fst snd].
  intros H. apply andb_true_iff in H. destruct H as [H Hw]. apply andb_true_iff in H. destruct H as [H1 H2].
  apply Z.leb_le in H1. apply Z.leb_le in H2.
  pose proof (wt_of_wval_cases w) as Hc.
  rewrite <- app_assoc. rewrite varint_dec_enc' by (change (2 ^ 64) with 18446744073709551616; lia).
  pose proof (plen_nonneg (varint_enc (n * 8 + wt_of_wval w))).
  destruct (Z.ltb_spec (plen (varint_enc (n * 8 + wt_of_wval w))) 0); [lia|].
  assert (Hd : (n * 8 + wt_of_wval w) / 8 = n) by (Z.div_mod_to_equations; lia).
  assert (Hm : (n * 8 + wt_of_wval w) mod 8 = wt_of_wval w) by (Z.div_mod_to_equations; lia).
  rewrite Hd, Hm.
  destruct (Z.ltb_spec n 1); [lia|]. destruct (Z.gtb_spec n 536870911); [lia|]. cbn [orb].
  unfold plen. rewrite Nat2Z.id, skipn_app_len. rewrite wdec_val_enc by exact Hw. reflexivity.
Qed.

Lemma wenc_field_cons f : exists b t, wenc_field f = b :: t.
Proof.
  unfold wenc_field. destruct (varint_enc_cons (fst f * 8 + wt_of_wval (snd f))) as [b [t E]].
  rewrite E. cbn. eauto.
Qed.

Lemma wenc_cons f w : wenc (f :: w) = wenc_field f ++ wenc w.
Proof. reflexivity. Qed.
Lemma wenc_app a b : wenc (a ++ b) = wenc a ++ wenc b.
Proof. unfold wenc. apply flat_map_app. Qed.

Lemma wdec_loop_enc w : forall fuel, wf_wire w = true -> (length w <= fuel)%nat ->
  wdec_loop fuel (wenc w) = Some w.
Proof.
  induction w as [|f w IH]; intros fuel Hw Hf.
  - destruct fuel; reflexivity.
  - cbn [wf_wire forallb] in Hw. apply andb_true_iff in Hw. destruct Hw as [Hf1 Hw].
    rewrite wenc_cons. destruct (wenc_field_cons f) as [b [t E]].
    destruct fuel as [|fuel]; [cbn in Hf; lia|].
    rewrite E. cbn [app wdec_loop]. change (b :: t ++ wenc w) with ((b :: t) ++ wenc w). rewrite <- E.
    rewrite wdec_field_enc by exact Hf1.
    rewrite IH; [reflexivity|exact Hw|cbn in Hf; lia].
Qed.

Lemma wenc_length_ge w : (length w <= length (wenc w))%nat.
Proof.
  induction w as [|f w IH]; [cbn; lia|].
  rewrite wenc_cons, app_length. destruct (wenc_field_cons f) as [b [t E]]. rewrite E. cbn. lia.
Qed.

(* whole messages: every wire tree decodes back to itself *)
Theorem wdec_wenc w : wf_wire w = true -> wdec (wenc w) = Some w.
Proof. intros H. unfold wdec. apply wdec_loop_enc; [exact H|apply wenc_length_ge]. Qed.

(* concatenation of encodings decodes to the concatenation (the merge law at wire level) *)
Theorem wdec_wenc_app a b : wf_wire a = true -> wf_wire b = true ->
  wdec (wenc a ++ wenc b) = Some (a ++ b).
Proof.
  intros Ha Hb. rewrite <- wenc_app. apply wdec_wenc. unfold wf_wire in *. rewrite forallb_app, Ha, Hb. reflexivity.
Qed.

(* ------------------------------------------------------------------ scalars *)
Lemma is_numeric_cases k : is_numeric k = true -> In k [1;2;3;4;5;6;7;8;13;14;15;16;17;18].
Proof.
  unfold is_numeric, wt_of_kind.
  repeat match goal with |- context [k =? ?c] => destruct (Z.eqb_spec k c) as [E|?]; [rewrite E; cbn; intros H; first [discriminate H | tauto]|] end.
  intros H. cbn in H. discriminate H.
Qed.

Lemma numeric_not_bytes k : is_numeric k = true -> is_byteskind k = false.
Proof. intros H. apply is_numeric_cases in H. cbn in H. intuition (subst; reflexivity). Qed.

Lemma to_s32_mod64 v : - 2147483648 <= v < 2147483648 -> to_s 32 (v mod 18446744073709551616) = v.
Proof. intros H. unfold to_s. change (2 ^ (32 - 1)) with 2147483648. change (2 ^ 32) with 4294967296. Z.div_mod_to_equations. lia. Qed.
Lemma to_s64_mod64 v : - 9223372036854775808 <= v < 9223372036854775808 -> to_s 64 (v mod 18446744073709551616) = v.
Proof. intros H. unfold to_s. change (2 ^ (64 - 1)) with 9223372036854775808. change (2 ^ 64) with 18446744073709551616. Z.div_mod_to_equations. lia. Qed.
Lemma to_s32_mod32 v : - 2147483648 <= v < 2147483648 -> to_s 32 (v mod 4294967296) = v.
Proof. intros H. unfold to_s. change (2 ^ (32 - 1)) with 2147483648. change (2 ^ 32) with 4294967296. Z.div_mod_to_equations. lia. Qed.

Lemma zigzag_enc_range32 v : - 2147483648 <= v < 2147483648 -> 0 <= zigzag_enc v < 4294967296.
Proof. unfold zigzag_enc. destruct (Z.ltb_spec v 0); lia. Qed.
Lemma zigzag_enc_range64 v : - 9223372036854775808 <= v < 9223372036854775808 -> 0 <= zigzag_enc v < 18446744073709551616.
Proof. unfold zigzag_enc. destruct (Z.ltb_spec v 0); lia. Qed.

Ltac kill_bounds H :=
  unfold in_sb, in_ub in H;
  change (2 ^ (32 - 1)) with 2147483648 in H; change (2 ^ (64 - 1)) with 9223372036854775808 in H;
  change (2 ^ 32) with 4294967296 in H; change (2 ^ 64) with 18446744073709551616 in H;
  apply andb_true_iff in H; destruct H as [?Hlo ?Hhi];
  try apply Z.leb_le in Hlo; try apply Z.ltb_lt in Hhi.

Lemma leb_ltb_true a v b : a <= v < b -> (a <=? v) && (v <? b) = true.
Proof. intros [H1 H2]. apply andb_true_iff. split; [apply Z.leb_le|apply Z.ltb_lt]; assumption. Qed.

(* every numeric kind: the canonical wire value reads back as the value, and is a legal wire value *)
Lemma scalar_rt k v : is_numeric k = true -> scalar_okb k v = true ->
  scalar_of_wire k (scalar_to_wire k v) = Some v /\ wf_wval (scalar_to_wire k v) = true /\
  wt_of_wval (scalar_to_wire k v) = wt_of_kind k.
Proof.
  intros Hn Hok. apply is_numeric_cases in Hn. cbn [In] in Hn.
  change (2 ^ 64) with 18446744073709551616 in *. 
  repeat (destruct Hn as [<-|Hn]); try contradiction;
  unfold scalar_okb in Hok; cbn [Z.eqb Pos.eqb orb] in Hok;
  unfold scalar_of_wire, scalar_to_wire, scalar_of_u, is_numeric, wt_of_kind;
  cbn [Z.eqb Pos.eqb orb andb wt_of_wval wf_wval];
  change (2 ^ 64) with 18446744073709551616; change (2 ^ 32) with 4294967296.
  (* 1 double *)
  - kill_bounds Hok. rewrite Z.mod_small by lia. repeat split. apply leb_ltb_true; lia.
  (* 2 float *)
  - kill_bounds Hok. rewrite Z.mod_small by lia. repeat split. apply leb_ltb_true; lia.
  (* 3 int64 *)
  - kill_bounds Hok. rewrite to_s64_mod64 by lia. repeat split. apply leb_ltb_true. apply Z.mod_pos_bound. lia.
  (* 4 uint64 *)
  - kill_bounds Hok. rewrite Z.mod_small by lia. repeat split. apply leb_ltb_true; lia.
  (* 5 int32 *)
  - kill_bounds Hok. rewrite to_s32_mod64 by lia. repeat split. apply leb_ltb_true. apply Z.mod_pos_bound. lia.
  (* 6 fixed64 *)
  - kill_bounds Hok. rewrite Z.mod_small by lia. repeat split. apply leb_ltb_true; lia.
  (* 7 fixed32 *)
  - kill_bounds Hok. rewrite Z.mod_small by lia. repeat split. apply leb_ltb_true; lia.
  (* 8 bool *)
  - apply orb_true_iff in Hok. destruct Hok as [E|E]; apply Z.eqb_eq in E; subst v; cbn; auto.
  (* 13 uint32 *)
  - kill_bounds Hok. rewrite (Z.mod_small v 18446744073709551616) by lia. rewrite Z.mod_small by lia.
    repeat split. apply leb_ltb_true; lia.
  (* 14 enum *)
  - kill_bounds Hok. rewrite to_s32_mod64 by lia. repeat split. apply leb_ltb_true. apply Z.mod_pos_bound. lia.
  (* 15 sfixed32 *)
  - kill_bounds Hok. rewrite to_s32_mod32 by lia. repeat split. apply leb_ltb_true. apply Z.mod_pos_bound. lia.
  (* 16 sfixed64 *)
  - kill_bounds Hok. rewrite to_s64_mod64 by lia. repeat split. apply leb_ltb_true. apply Z.mod_pos_bound. lia.
  (* 17 sint32 *)
  - kill_bounds Hok. pose proof (zigzag_enc_range32 v ltac:(lia)).
    rewrite Z.mod_small by lia. rewrite zigzag_dec_enc. repeat split. apply leb_ltb_true; lia.
  (* 18 sint64 *)
  - kill_bounds Hok. pose proof (zigzag_enc_range64 v ltac:(lia)).
    rewrite zigzag_dec_enc. repeat split. apply leb_ltb_true; lia.
Qed.

(* ------------------------------------------------------------------ grouping *)
Lemma group_run n vs w : vs <> [] ->
  group (map (pair n) vs ++ w) = (n, vs ++ gvals n (group w)) :: gremove n (group w).
Proof.
  induction vs as [|x vs IH]; intros Hne; [contradiction|].
  destruct vs as [|y vs].
  - reflexivity.
  - specialize (IH ltac:(discriminate)).
    change (map (pair n) (x :: y :: vs) ++ w) with ((n, x) :: (map (pair n) (y :: vs) ++ w)).
    cbn [group]. rewrite IH. cbn [gvals gremove]. rewrite Z.eqb_refl. reflexivity.
Qed.

Section GroupCanon.
  Context {A : Type} (F : A -> list wval).
  Let G (fs : list (Z * A)) : groups := map (fun nv => (fst nv, F (snd nv))) fs.

  Lemma gvals_absent n fs : (forall m, In m (map fst fs) -> (n =? m) = false) -> gvals n (G fs) = [].
  Proof.
    induction fs as [|[m a] fs IH]; intros H; [reflexivity|].
    cbn [G map fst snd gvals]. rewrite Z.eqb_sym. rewrite H by (left; reflexivity).
    apply IH. intros m' Hm. apply H. right. exact Hm.
  Qed.
  Lemma gremove_absent n fs : (forall m, In m (map fst fs) -> (n =? m) = false) -> gremove n (G fs) = G fs.
  Proof.
    induction fs as [|[m a] fs IH]; intros H; [reflexivity|].
    cbn [G map fst snd gremove]. rewrite Z.eqb_sym. rewrite H by (left; reflexivity).
    f_equal. apply IH. intros m' Hm. apply H. right. exact Hm.
  Qed.

  (* canonical field sequences (distinct numbers, every field emits at least one record) group field by field *)
  Lemma group_canonical fs :
    nodupb Z.eqb (map fst fs) = true -> Forall (fun nv => F (snd nv) <> []) fs ->
    group (flat_map (fun nv => map (pair (fst nv)) (F (snd nv))) fs) = G fs.
  Proof.
    induction fs as [|[n a] fs IH]; intros Hnd Hne; [reflexivity|].
    cbn [map fst nodupb] in Hnd. apply andb_true_iff in Hnd. destruct Hnd as [Hx Hnd].
    inversion Hne as [|? ? Hne1 Hne2]; subst.
    cbn [flat_map fst snd]. rewrite group_run by exact Hne1. rewrite IH by assumption.
    assert (Habs : forall m, In m (map fst fs) -> (n =? m) = false).
    { intros m Hm. apply negb_true_iff in Hx. destruct (n =? m) eqn:E; [|reflexivity].
      exfalso. assert (existsb (Z.eqb n) (map fst fs) = true) by (apply existsb_exists; eauto). congruence. }
    rewrite gvals_absent, gremove_absent by exact Habs. rewrite app_nil_r. reflexivity.
  Qed.
End GroupCanon.

(* ------------------------------------------------------------------ induction principle for the nested AST *)
Section PvalInd.
  Variable P : pval -> Prop.
  Hypothesis Hs : forall k v, P (VScalar k v).
  Hypothesis Hb : forall k b, P (VBytes k b).
  Hypothesis Hm : forall fs, Forall (fun nv => P (snd nv)) fs -> P (VMsg fs).
  Hypothesis Hl : forall p vs, Forall P vs -> P (VList p vs).
  Hypothesis Hk : forall kvs, Forall (fun kx => P (snd kx)) kvs -> P (VMap kvs).
  Fixpoint pval_ind' (v : pval) : P v :=
    match v with
    | VScalar k x => Hs k x
    | VBytes k b => Hb k b
    | VMsg fs => Hm fs ((fix go (l : list (Z * pval)) : Forall (fun nv => P (snd nv)) l :=
                           match l with [] => Forall_nil _ | nv :: r => Forall_cons nv (pval_ind' (snd nv)) (go r) end) fs)
    | VList p vs => Hl p vs ((fix go (l : list pval) : Forall P l :=
                           match l with [] => Forall_nil _ | x :: r => Forall_cons x (pval_ind' x) (go r) end) vs)
    | VMap kvs => Hk kvs ((fix go (l : list (mkey * pval)) : Forall (fun kx => P (snd kx)) l :=
                           match l with [] => Forall_nil _ | kx :: r => Forall_cons kx (pval_ind' (snd kx)) (go r) end) kvs)
    end.
End PvalInd.

(* ------------------------------------------------------------------ the records a well-formed field value emits *)
(* wire value of a singular value / element *)
Definition sval (v : pval) : wval :=
  match v with
  | VScalar k x => scalar_to_wire k x
  | VBytes _ b => WBytes b
  | VMsg fs => WBytes (encode_msg fs)
  | _ => WBytes []
  end.
Definition entry_wval (kx : mkey * pval) : wval := WBytes (wenc [key_field (fst kx); (2, sval (snd kx))]).
Definition fvals (v : pval) : list wval :=
  match v with
  | VList true vs => [WBytes (flat_map packed_elem vs)]
  | VList false vs => map sval vs
  | VMap kvs => map entry_wval kvs
  | _ => [sval v]
  end.

Lemma wfld_single S t v n : wf_fld S LSingular t v = true -> wfld n v = [(n, sval v)].
Proof. destruct v; cbn [wf_fld]; intros H; try discriminate; reflexivity. Qed.

Lemma forallb_Forall {A} (f : A -> bool) l : forallb f l = true -> Forall (fun x => f x = true) l.
Proof. intros H. apply Forall_forall. apply forallb_forall. exact H. Qed.

Lemma flat_map_singletons {A B} (f : A -> list B) (g : A -> B) l :
  Forall (fun x => f x = [g x]) l -> flat_map f l = map g l.
Proof. induction 1 as [|x l H _ IH]; cbn; [reflexivity|]. rewrite H, IH. reflexivity. Qed.

Lemma wfld_fvals S lbl t v n : wf_fld S lbl t v = true ->
  wfld n v = map (pair n) (fvals v) /\ fvals v <> [].
Proof.
  destruct lbl as [|p|kk]; intros H.
  - rewrite (wfld_single _ _ _ _ H). destruct v; cbn [wf_fld] in H; try discriminate; cbn; split; auto; discriminate.
  - destruct v as [| | |q vs|]; cbn [wf_fld] in H; try discriminate.
    repeat (apply andb_true_iff in H; destruct H as [H ?H]).
    destruct q; cbn [wfld fvals].
    + split; [reflexivity|discriminate].
    + split.
      * rewrite map_map. apply flat_map_singletons.
        apply forallb_Forall in H0. eapply Forall_impl; [|exact H0].
        intros x Hx. cbn beta in Hx. apply (wfld_single _ _ _ n Hx).
      * destruct vs; [discriminate|cbn; discriminate].
  - destruct v as [| | | |kvs]; cbn [wf_fld] in H; try discriminate.
    repeat (apply andb_true_iff in H; destruct H as [H ?H]).
    cbn [wfld fvals]. split.
    + rewrite map_map. apply map_ext_in. intros [k x] Hin. unfold entry_wval. cbn [fst snd].
      apply forallb_Forall in H0. rewrite Forall_forall in H0. specialize (H0 _ Hin). cbn [fst snd] in H0.
      apply andb_true_iff in H0 as [H0 Hlen]. apply andb_true_iff in H0 as [Hkey Hwf].
      rewrite (wfld_single _ _ _ 2 Hwf). reflexivity.
    + destruct kvs; [discriminate|cbn; discriminate].
Qed.

Lemma sval_wf S t v : wf_fld S LSingular t v = true -> wf_wval (sval v) = true.
Proof.
  destruct v as [k x|k b|fs| |]; cbn [wf_fld]; intros H; try discriminate.
  - destruct t as [k'|]; [|discriminate].
    apply andb_true_iff in H as [H Hok]. apply andb_true_iff in H as [_ Hn].
    apply (scalar_rt k x Hn Hok).
  - destruct t as [k'|]; [|discriminate].
    apply andb_true_iff in H as [_ Hlen]. exact Hlen.
  - destruct t as [|name]; [discriminate|]. destruct (find_msg S name); [|discriminate].
    apply andb_true_iff in H as [H _]. apply andb_true_iff in H as [_ Hlen]. exact Hlen.
Qed.

Lemma fvals_wf S lbl t v : wf_fld S lbl t v = true -> forallb wf_wval (fvals v) = true.
Proof.
  destruct lbl as [|p|kk]; intros H.
  - assert (E : fvals v = [sval v]) by (destruct v; cbn [wf_fld] in H; try discriminate; reflexivity).
    rewrite E. cbn [forallb]. rewrite (sval_wf _ _ _ H). reflexivity.
  - destruct v as [| | |q vs|]; cbn [wf_fld] in H; try discriminate.
    apply andb_true_iff in H as [H Hall]. apply andb_true_iff in H as [H Hlen].
    destruct q; cbn [fvals].
    + cbn [negb orb] in Hlen. cbn [forallb wf_wval]. rewrite Hlen. reflexivity.
    + rewrite forallb_forall. intros w Hw. apply in_map_iff in Hw. destruct Hw as [x [<- Hx]].
      rewrite forallb_forall in Hall. apply (sval_wf S t). apply Hall. exact Hx.
  - destruct v as [| | | |kvs]; cbn [wf_fld] in H; try discriminate.
    apply andb_true_iff in H as [_ Hall]. cbn [fvals].
    rewrite forallb_forall. intros w Hw. apply in_map_iff in Hw. destruct Hw as [[k x] [<- Hx]].
    rewrite forallb_forall in Hall. specialize (Hall _ Hx). cbn [fst snd] in Hall.
    apply andb_true_iff in Hall as [Hall Hlen]. apply andb_true_iff in Hall as [Hkey Hwf].
    unfold entry_wval. cbn [fst snd wf_wval]. rewrite (wfld_single _ _ _ 2 Hwf) in Hlen. exact Hlen.
Qed.

Lemma map_pair_wf n vs : 1 <= n <= MAX_FIELD_NUMBER -> forallb wf_wval vs = true ->
  wf_wire (map (pair n) vs) = true.
Proof.
  intros Hn H. unfold wf_wire. rewrite forallb_forall. intros f Hf. apply in_map_iff in Hf.
  destruct Hf as [w [<- Hw]]. unfold wf_wfield. cbn [fst snd].
  rewrite forallb_forall in H. rewrite (H _ Hw).
  destruct (Z.leb_spec 1 n); [|lia]. destruct (Z.leb_spec n MAX_FIELD_NUMBER); [|lia]. reflexivity.
Qed.

(* ------------------------------------------------------------------ packed payloads *)
Lemma scalar_to_wire_cases k x :
  exists u, scalar_to_wire k x = WVarint u \/ scalar_to_wire k x = WFix64 u \/ scalar_to_wire k x = WFix32 u.
Proof.
  unfold scalar_to_wire.
  destruct ((k =? 17) || (k =? 18)); [eauto|].
  destruct (wt_of_kind k =? 0); [eauto|]. destruct (wt_of_kind k =? 1); eauto.
Qed.

Lemma scalar_enc_cons k x : exists b t, wenc_val (scalar_to_wire k x) = b :: t.
Proof.
  destruct (scalar_to_wire_cases k x) as [u [E|[E|E]]]; rewrite E; cbn [wenc_val].
  - apply varint_enc_cons.
  - cbn. eauto.
  - cbn. eauto.
Qed.

Lemma unpack_enc k xs : is_numeric k = true -> Forall (fun x => scalar_okb k x = true) xs ->
  forall fuel, (length xs <= fuel)%nat ->
  unpack fuel k (flat_map (fun x => wenc_val (scalar_to_wire k x)) xs) = Some xs.
Proof.
  intros Hn Hall. induction Hall as [|x xs Hx _ IH]; intros fuel Hf.
  - destruct fuel; reflexivity.
  - cbn [flat_map]. destruct (scalar_enc_cons k x) as [b [t E]].
    destruct fuel as [|fuel]; [cbn in Hf; lia|].
    rewrite E. cbn [app unpack]. change (b :: t ++ ?r) with ((b :: t) ++ r). rewrite <- E.
    destruct (scalar_rt k x Hn Hx) as [Hrt [Hwf Hwt]].
    rewrite <- Hwt. rewrite wdec_val_enc by exact Hwf. rewrite Hrt.
    rewrite IH by (cbn in Hf; lia). reflexivity.
Qed.

Lemma flat_map_length_ge {A B} (f : A -> list B) l :
  (forall x, exists b t, f x = b :: t) -> (length l <= length (flat_map f l))%nat.
Proof.
  intros H. induction l as [|x l IH]; [cbn; lia|].
  cbn [flat_map]. rewrite app_length. destruct (H x) as [b [t E]]. rewrite E. cbn. lia.
Qed.

(* the elements of a well-formed packed list are scalars of the element kind *)
Lemma packed_elems_scalars S k vs :
  forallb (fun x => wf_fld S LSingular (TScalar k) x) vs = true -> is_numeric k = true ->
  exists xs, vs = map (VScalar k) xs /\ Forall (fun x => scalar_okb k x = true) xs.
Proof.
  intros H Hn. induction vs as [|v vs IH].
  - exists []. split; [reflexivity|constructor].
  - cbn [forallb] in H. apply andb_true_iff in H as [Hv H]. destruct (IH H) as [xs [E Hall]].
    destruct v as [k' x|k' b| | |]; cbn [wf_fld] in Hv; try discriminate.
    + apply andb_true_iff in Hv as [Hv Hok]. apply andb_true_iff in Hv as [Hk _]. apply Z.eqb_eq in Hk. subst k'.
      exists (x :: xs). split; [cbn; rewrite E; reflexivity|constructor; assumption].
    + apply andb_true_iff in Hv as [Hv _]. apply andb_true_iff in Hv as [Hk Hb]. apply Z.eqb_eq in Hk. subst k'.
      rewrite (numeric_not_bytes _ Hn) in Hb. discriminate.
Qed.

(* ------------------------------------------------------------------ maps *)
Lemma mkey_eqb_sym a b : mkey_eqb a b = mkey_eqb b a.
Proof.
  destruct a as [k x|x], b as [k' y|y]; cbn; auto.
  - rewrite (Z.eqb_sym k k'), (Z.eqb_sym x y). reflexivity.
  - unfold bytes_eqb. revert y. induction x as [|a x IH]; intros [|b y]; cbn; auto.
    rewrite (Z.eqb_sym a b), IH. reflexivity.
Qed.

Lemma upsert_absent k v l : (forall ky, In ky l -> mkey_eqb k (fst ky) = false) -> upsert k v l = l ++ [(k, v)].
Proof.
  induction l as [|[k' v'] l IH]; intros H; [reflexivity|].
  cbn [upsert]. pose proof (H (k', v') (or_introl eq_refl)) as H0. cbn [fst] in H0. rewrite H0. cbn [app]. f_equal.
  apply IH. intros ky Hky. apply H. right. exact Hky.
Qed.

Lemma dec_map_canonical rec kk t kvs :
  (forall kx, In kx kvs -> dec_entry rec kk t (wenc [key_field (fst kx); (2, sval (snd kx))]) = Some kx) ->
  nodupb mkey_eqb (map fst kvs) = true ->
  dec_map rec kk t (map entry_wval kvs) = Some kvs.
Proof.
  intros Hent Hnd. unfold dec_map.
  enough (G : forall acc, (forall kx, In kx kvs -> forall ky, In ky acc -> mkey_eqb (fst kx) (fst ky) = false) ->
    fold_left (fun acc v => match acc with
                 | None => None
                 | Some l => match v with
                             | WBytes b => match dec_entry rec kk t b with Some (k, x) => Some (upsert k x l) | None => None end
                             | _ => Some l end end) (map entry_wval kvs) (Some acc) = Some (acc ++ kvs)).
  { apply (G []). intros ? ? ? []. }
  induction kvs as [|[k x] kvs IH]; intros acc Hdis.
  - cbn. rewrite app_nil_r. reflexivity.
  - cbn [map fold_left entry_wval]. rewrite (Hent (k, x)) by (left; reflexivity).
    rewrite upsert_absent by (intros ky Hky; apply (Hdis (k, x)); [left; reflexivity|exact Hky]).
    cbn [map fst nodupb] in Hnd. apply andb_true_iff in Hnd as [Hk Hnd].
    rewrite IH.
    + rewrite <- app_assoc. reflexivity.
    + intros kx Hkx. apply Hent. right. exact Hkx.
    + exact Hnd.
    + intros kx Hkx ky Hky. apply in_app_or in Hky. destruct Hky as [Hky|[<-|[]]].
      * apply (Hdis kx); [right; exact Hkx|exact Hky].
      * cbn [fst]. rewrite mkey_eqb_sym. apply negb_true_iff in Hk.
        destruct (mkey_eqb k (fst kx)) eqn:E; [|reflexivity]. exfalso.
        assert (existsb (mkey_eqb k) (map fst kvs) = true).
        { apply existsb_exists. exists (fst kx). split; [apply in_map; exact Hkx|exact E]. }
        congruence.
Qed.

(* ------------------------------------------------------------------ singular values, keys, entries *)
Lemma dec_single_scalar rec k x : is_numeric k = true -> scalar_okb k x = true ->
  dec_single rec (TScalar k) [scalar_to_wire k x] = Some (Some (VScalar k x)).
Proof.
  intros Hn Hok. unfold dec_single, last_some. rewrite (numeric_not_bytes _ Hn). cbn [fold_left].
  destruct (scalar_rt k x Hn Hok) as [E _]. rewrite E. reflexivity.
Qed.

Lemma dec_single_bytes rec k b : is_byteskind k = true ->
  dec_single rec (TScalar k) [WBytes b] = Some (Some (VBytes k b)).
Proof. intros H. unfold dec_single, last_some. rewrite H. reflexivity. Qed.

Lemma key_field_fst k : fst (key_field k) = 1.
Proof. destruct k; reflexivity. Qed.

Lemma dec_key_ok kk k : key_okb kk k = true -> dec_key kk [snd (key_field k)] = k.
Proof.
  destruct k as [k' v|bs]; cbn [key_okb key_field snd]; intros H.
  - apply andb_true_iff in H as [H Hok]. apply andb_true_iff in H as [Hk Hn]. apply Z.eqb_eq in Hk. subst k'.
    unfold dec_key, last_some.
    destruct (Z.eqb_spec kk 9) as [->|_]; [cbn in Hn; discriminate|].
    cbn [fold_left]. destruct (scalar_rt kk v Hn Hok) as [E _]. rewrite E. reflexivity.
  - apply andb_true_iff in H as [Hk _]. apply Z.eqb_eq in Hk. subst kk. reflexivity.
Qed.

Lemma key_field_wf kk k : key_okb kk k = true -> wf_wval (snd (key_field k)) = true.
Proof.
  destruct k as [k' v|bs]; cbn [key_okb key_field snd]; intros H.
  - apply andb_true_iff in H as [H Hok]. apply andb_true_iff in H as [Hk Hn]. apply Z.eqb_eq in Hk. subst k'.
    apply (scalar_rt kk v Hn Hok).
  - apply andb_true_iff in H as [_ Hl]. exact Hl.
Qed.

Lemma dec_entry_ok rec S kk t k x :
  key_okb kk k = true -> wf_fld S LSingular t x = true ->
  dec_single rec t [sval x] = Some (Some x) ->
  dec_entry rec kk t (wenc [key_field k; (2, sval x)]) = Some (k, x).
Proof.
  intros Hk Hx Hd. unfold dec_entry.
  rewrite wdec_wenc.
  - pose proof (key_field_fst k) as E1. destruct (key_field k) as [n1 kw] eqn:Ek. cbn [fst] in E1. subst n1.
    cbn [group gvals gremove Z.eqb Pos.eqb]. rewrite Hd.
    replace kw with (snd (key_field k)) by (rewrite Ek; reflexivity).
    rewrite (dec_key_ok _ _ Hk). reflexivity.
  - unfold wf_wire, wf_wfield. cbn [forallb fst snd]. rewrite key_field_fst.
    rewrite (key_field_wf _ _ Hk), (sval_wf _ _ _ Hx). reflexivity.
Qed.

(* ------------------------------------------------------------------ element runs *)
Lemma dec_single_msg_inv rec name fs :
  dec_single rec (TMsg name) [WBytes (encode_msg fs)] = Some (Some (VMsg fs)) ->
  rec name (encode_msg fs) = Some fs.
Proof.
  unfold dec_single. cbn [payloads flat_map app concat]. rewrite app_nil_r.
  destruct (rec name (encode_msg fs)) as [fs'|]; [|discriminate]. intros H. inversion H. reflexivity.
Qed.

Lemma dec_elems_ok rec S t vs :
  Forall (fun x => wf_fld S LSingular t x = true /\ dec_single rec t [sval x] = Some (Some x)) vs ->
  dec_elems rec t (map sval vs) = Some vs.
Proof.
  intros Hall. destruct t as [k|name]; unfold dec_elems.
  - destruct (is_byteskind k) eqn:Eb.
    + f_equal. induction Hall as [|x vs [Hx _] _ IH]; [reflexivity|].
      destruct x as [k' x'|k' b| | |]; cbn [wf_fld] in Hx; try discriminate.
      * apply andb_true_iff in Hx as [Hx _]. apply andb_true_iff in Hx as [Hk Hn]. apply Z.eqb_eq in Hk. subst k'.
        rewrite (numeric_not_bytes _ Hn) in Eb. discriminate.
      * apply andb_true_iff in Hx as [Hx _]. apply andb_true_iff in Hx as [Hk _]. apply Z.eqb_eq in Hk. subst k'.
        cbn [map sval flat_map app]. rewrite IH. reflexivity.
    + enough (G : exists xs, flat_map_opt (rep_scalar_vals k) (map sval vs) = Some xs /\ map (VScalar k) xs = vs).
      { destruct G as [xs [E1 E2]]. rewrite E1, E2. reflexivity. }
      induction Hall as [|x vs [Hx _] _ [xs [E1 E2]]]; [exists []; split; reflexivity|].
      destruct x as [k' x'|k' b| | |]; cbn [wf_fld] in Hx; try discriminate.
      * apply andb_true_iff in Hx as [Hx Hok]. apply andb_true_iff in Hx as [Hk Hn]. apply Z.eqb_eq in Hk. subst k'.
        exists (x' :: xs). cbn [map sval flat_map_opt]. rewrite E1, E2.
        destruct (scalar_rt k x' Hn Hok) as [Hrt _].
        assert (Er : rep_scalar_vals k (scalar_to_wire k x') = Some [x']).
        { destruct (scalar_to_wire_cases k x') as [u [E|[E|E]]]; rewrite E in *; cbn [rep_scalar_vals]; rewrite Hrt; reflexivity. }
        rewrite Er. split; reflexivity.
      * apply andb_true_iff in Hx as [Hx _]. apply andb_true_iff in Hx as [Hk Hb]. apply Z.eqb_eq in Hk. subst k'.
        congruence.
  - induction Hall as [|x vs [Hx Hd] _ IH]; [reflexivity|].
    destruct x as [| |fs| |]; cbn [wf_fld] in Hx; try discriminate.
    cbn [map sval flat_map_opt]. rewrite (dec_single_msg_inv _ _ _ Hd). rewrite IH. reflexivity.
Qed.

(* ------------------------------------------------------------------ messages *)
Lemma dec_groups_fields rec md fs :
  Forall (fun nv => exists fd, find_field md (fst nv) = Some fd /\
                               dec_field rec fd (fvals (snd nv)) = Some (Some (snd nv))) fs ->
  dec_groups rec md (map (fun nv => (fst nv, fvals (snd nv))) fs) = Some fs.
Proof.
  induction 1 as [|[n v] fs [fd [Hf Hd]] _ IH]; [reflexivity|].
  cbn [map fst snd dec_groups] in *. rewrite Hf, Hd, IH. reflexivity.
Qed.

Lemma forallb_flat_map {A B} (p : B -> bool) (f : A -> list B) l :
  forallb p (flat_map f l) = forallb (fun x => forallb p (f x)) l.
Proof. induction l as [|x l IH]; [reflexivity|]. cbn [flat_map forallb]. rewrite forallb_app, IH. reflexivity. Qed.

Lemma fold_max_ge {A} (g : A -> nat) l x : In x l -> (g x <= fold_right (fun y m => Nat.max (g y) m) O l)%nat.
Proof.
  induction l as [|y l IH]; intros H; [destruct H|]. cbn [fold_right].
  destruct H as [->|H]; [lia|]. specialize (IH H). lia.
Qed.

Definition sfd (t : ftype) : fdesc := mk_fdesc 0 [] [] LSingular t.

(* the statement proved by induction on the value: a field holding v, encoded canonically, decodes to v *)
Definition field_rt (v : pval) : Prop :=
  forall S fd fuel, wf_fld S (fd_label fd) (fd_type fd) v = true -> (depth v <= fuel)%nat ->
  dec_field (decode_msg S fuel) fd (fvals v) = Some (Some v).

Lemma field_rt_all v : field_rt v.
Proof.
  induction v as [k x|k b|fs IH|q vs IH|kvs IH] using pval_ind'; intros S fd fuel Hwf Hdep;
    unfold dec_field; destruct (fd_label fd) as [|p|kk]; cbn [wf_fld] in Hwf; try discriminate.
  - (* scalar *)
    destruct (fd_type fd) as [k'|]; [|discriminate].
    apply andb_true_iff in Hwf as [Hwf Hok]. apply andb_true_iff in Hwf as [Hk Hn]. apply Z.eqb_eq in Hk. subst k'.
    apply dec_single_scalar; assumption.
  - (* string / bytes *)
    destruct (fd_type fd) as [k'|]; [|discriminate].
    apply andb_true_iff in Hwf as [Hwf _]. apply andb_true_iff in Hwf as [Hk Hb]. apply Z.eqb_eq in Hk. subst k'.
    apply dec_single_bytes; assumption.
  - (* message *)
    destruct (fd_type fd) as [|name]; [discriminate|].
    destruct (find_msg S name) as [md|] eqn:Hfind; [|discriminate].
    apply andb_true_iff in Hwf as [Hwf Hall]. apply andb_true_iff in Hwf as [Hnd Hlen].
    cbn [depth] in Hdep. destruct fuel as [|f]; [lia|].
    cbn [fvals sval]. unfold dec_single. cbn [payloads flat_map app concat]. rewrite app_nil_r.
    cbn [decode_msg]. rewrite Hfind.
    rewrite forallb_forall in Hall. rewrite Forall_forall in IH.
    (* per field facts *)
    assert (Hper : forall nv, In nv fs ->
              wfld (fst nv) (snd nv) = map (pair (fst nv)) (fvals (snd nv)) /\ fvals (snd nv) <> [] /\
              wf_wire (map (pair (fst nv)) (fvals (snd nv))) = true /\
              exists fd', find_field md (fst nv) = Some fd' /\
                          dec_field (decode_msg S f) fd' (fvals (snd nv)) = Some (Some (snd nv))).
    { intros nv Hin. specialize (Hall nv Hin). cbn beta in Hall.
      destruct (find_field md (fst nv)) as [fd'|] eqn:Hff; [|discriminate].
      apply andb_true_iff in Hall as [Hall Hv]. apply andb_true_iff in Hall as [Hlo Hhi].
      apply Z.leb_le in Hlo. apply Z.leb_le in Hhi.
      destruct (wfld_fvals _ _ _ _ (fst nv) Hv) as [E1 E2].
      split; [exact E1|]. split; [exact E2|]. split.
      - apply map_pair_wf; [lia|]. apply (fvals_wf _ _ _ _ Hv).
      - exists fd'. split; [reflexivity|]. apply (IH nv Hin); [exact Hv|].
        pose proof (fold_max_ge (fun nv => depth (snd nv)) fs nv Hin). cbn beta in H. lia. }
    assert (Ew : msg_wire fs = flat_map (fun nv => map (pair (fst nv)) (fvals (snd nv))) fs).
    { unfold msg_wire. clear - Hper. induction fs as [|nv fs IHfs]; [reflexivity|].
      cbn [flat_map]. rewrite (proj1 (Hper nv (or_introl eq_refl))). f_equal.
      apply IHfs. intros nv' Hin. apply Hper. right. exact Hin. }
    unfold encode_msg. rewrite wdec_wenc.
    + rewrite Ew. rewrite group_canonical.
      * rewrite dec_groups_fields; [reflexivity|].
        apply Forall_forall. intros nv Hin. apply (Hper nv Hin).
      * exact Hnd.
      * apply Forall_forall. intros nv Hin. apply (Hper nv Hin).
    + rewrite Ew. unfold wf_wire. rewrite forallb_flat_map. apply forallb_forall. intros nv Hin.
      apply (Hper nv Hin).
  - (* repeated *)
    apply andb_true_iff in Hwf as [Hwf Hall]. apply andb_true_iff in Hwf as [Hwf Hlen].
    apply andb_true_iff in Hwf as [Hq Hne]. apply eqb_prop in Hq.
    cbn [depth] in Hdep.
    destruct q; cbn [fvals].
    + (* packed *)
      symmetry in Hq. apply andb_true_iff in Hq as [Hp Hnum]. subst p.
      destruct (fd_type fd) as [k|]; [|discriminate]. cbn [type_numeric] in Hnum.
      destruct (packed_elems_scalars _ _ _ Hall Hnum) as [xs [-> Hxs]].
      unfold dec_elems. rewrite (numeric_not_bytes _ Hnum). cbn [flat_map_opt rep_scalar_vals].
      assert (Ep : flat_map packed_elem (map (VScalar k) xs) = flat_map (fun x => wenc_val (scalar_to_wire k x)) xs).
      { clear. induction xs as [|x xs IHx]; [reflexivity|]. cbn [map flat_map packed_elem]. rewrite IHx. reflexivity. }
      rewrite Ep. rewrite unpack_enc; [|exact Hnum|exact Hxs|].
      * rewrite app_nil_r. cbn [type_numeric]. rewrite Hnum. cbn [andb].
        destruct xs as [|x xs]; [discriminate|]. reflexivity.
      * apply flat_map_length_ge. intros x. apply scalar_enc_cons.
    + (* one record per element *)
      rewrite (dec_elems_ok _ S).
      * rewrite <- Hq. destruct vs as [|x vs]; [discriminate|]. reflexivity.
      * rewrite forallb_forall in Hall. rewrite Forall_forall in IH. apply Forall_forall. intros x Hin.
        split; [apply Hall; exact Hin|].
        pose proof (IH x Hin S (sfd (fd_type fd)) fuel) as Hx. cbn [sfd fd_label fd_type] in Hx.
        specialize (Hx (Hall x Hin)).
        assert (Hd : (depth x <= fuel)%nat) by (pose proof (fold_max_ge depth vs x Hin); lia).
        specialize (Hx Hd). unfold dec_field in Hx. cbn [fd_label fd_type] in Hx.
        assert (Ef : fvals x = [sval x]).
        { specialize (Hall x Hin). destruct x; cbn [wf_fld] in Hall; try discriminate; reflexivity. }
        rewrite Ef in Hx. exact Hx.
  - (* map *)
    apply andb_true_iff in Hwf as [Hwf Hall]. apply andb_true_iff in Hwf as [Hne Hnd].
    cbn [depth] in Hdep. cbn [fvals].
    rewrite forallb_forall in Hall. rewrite Forall_forall in IH.
    rewrite dec_map_canonical.
    + destruct kvs as [|kx kvs]; [discriminate|]. reflexivity.
    + intros [k x] Hin. cbn [fst snd]. specialize (Hall _ Hin). cbn [fst snd] in Hall.
      apply andb_true_iff in Hall as [Hall _]. apply andb_true_iff in Hall as [Hkey Hx].
      apply (dec_entry_ok _ S); [exact Hkey|exact Hx|].
      pose proof (IH (k, x) Hin S (sfd (fd_type fd)) fuel) as Hq. cbn [sfd fd_label fd_type snd] in Hq.
      specialize (Hq Hx).
      assert (Hd : (depth x <= fuel)%nat).
      { pose proof (fold_max_ge (fun kx => depth (snd kx)) kvs (k, x) Hin) as Hm. cbn [snd] in Hm. lia. }
      specialize (Hq Hd). unfold dec_field in Hq. cbn [fd_label fd_type] in Hq.
      assert (Ef : fvals x = [sval x]) by (destruct x; cbn [wf_fld] in Hx; try discriminate; reflexivity).
      rewrite Ef in Hq. exact Hq.
    + exact Hnd.
Qed.

(* ------------------------------------------------------------------ main theorems *)
Theorem decode_encode_msg S name fs fuel :
  wf_msg S name fs = true -> (depth (VMsg fs) <= fuel)%nat ->
  decode_msg S fuel name (encode_msg fs) = Some fs.
Proof.
  intros Hwf Hd.
  pose proof (field_rt_all (VMsg fs) S (sfd (TMsg name)) fuel Hwf Hd) as H.
  unfold dec_field in H. cbn [sfd fd_label fd_type fvals sval] in H.
  apply dec_single_msg_inv in H. exact H.
Qed.

(* ------------------------------------------------------------------ nesting depth is bounded by the encoded length *)
Lemma fold_max_le {A} (g : A -> nat) l b : (forall x, In x l -> (g x <= b)%nat) ->
  (fold_right (fun y m => Nat.max (g y) m) O l <= b)%nat.
Proof.
  induction l as [|y l IH]; intros H; cbn [fold_right]; [lia|].
  pose proof (H y (or_introl eq_refl)). specialize (IH (fun x Hx => H x (or_intror Hx))). lia.
Qed.

Lemma wenc_flat_map_ge {A} (f : A -> list wfield) l x : In x l ->
  (length (wenc (f x)) <= length (wenc (flat_map f l)))%nat.
Proof.
  induction l as [|y l IH]; intros H; [destruct H|]. cbn [flat_map]. rewrite wenc_app, app_length.
  destruct H as [->|H]; [lia|]. specialize (IH H). lia.
Qed.

Lemma wenc_bytes_field_ge n b : (2 + length b <= length (wenc [(n, WBytes b)]))%nat.
Proof.
  cbn [wenc flat_map]. rewrite app_nil_r. unfold wenc_field. cbn [fst snd wt_of_wval wenc_val].
  rewrite !app_length.
  destruct (varint_enc_cons (n * 8 + 2)) as [b1 [t1 E1]]. destruct (varint_enc_cons (plen b)) as [b2 [t2 E2]].
  rewrite E1, E2. cbn [length]. lia.
Qed.

Lemma depth_le_length v : forall S lbl t n, wf_fld S lbl t v = true ->
  (depth v <= length (wenc (wfld n v)))%nat.
Proof.
  induction v as [k x|k b|fs IH|q vs IH|kvs IH] using pval_ind'; intros S lbl t n Hwf;
    destruct lbl as [|p|kk]; cbn [wf_fld] in Hwf; try discriminate; cbn [depth]; try lia.
  - (* message *)
    destruct t as [|name]; [discriminate|]. destruct (find_msg S name) as [md|]; [|discriminate].
    apply andb_true_iff in Hwf as [_ Hall]. rewrite forallb_forall in Hall. rewrite Forall_forall in IH.
    cbn [wfld]. pose proof (wenc_bytes_field_ge n (wenc (flat_map (fun nv => wfld (fst nv) (snd nv)) fs))) as Hge.
    assert (Hm : (fold_right (fun nv m => Nat.max (depth (snd nv)) m) O fs <=
                  length (wenc (flat_map (fun nv => wfld (fst nv) (snd nv)) fs)))%nat).
    { apply fold_max_le. intros nv Hin. specialize (Hall nv Hin). cbn beta in Hall.
      destruct (find_field md (fst nv)) as [fd|]; [|discriminate].
      apply andb_true_iff in Hall as [_ Hv].
      pose proof (IH nv Hin _ _ _ (fst nv) Hv).
      pose proof (wenc_flat_map_ge (fun nv => wfld (fst nv) (snd nv)) fs nv Hin). cbn beta in *. lia. }
    lia.
  - (* list *)
    apply andb_true_iff in Hwf as [Hwf Hall]. apply andb_true_iff in Hwf as [Hwf _].
    apply andb_true_iff in Hwf as [Hq _]. apply eqb_prop in Hq.
    rewrite forallb_forall in Hall. rewrite Forall_forall in IH.
    destruct q; cbn [wfld].
    + (* packed: elements are scalars *)
      symmetry in Hq. apply andb_true_iff in Hq as [_ Hnum].
      destruct t as [k|]; [|discriminate]. cbn [type_numeric] in Hnum.
      assert (Hz : (fold_right (fun x m => Nat.max (depth x) m) O vs <= 0)%nat).
      { apply fold_max_le. intros x Hin. specialize (Hall x Hin). cbn beta in Hall.
        destruct x; cbn [wf_fld] in Hall; try discriminate; cbn; lia. }
      lia.
    + apply fold_max_le. intros x Hin.
      pose proof (IH x Hin _ _ _ n (Hall x Hin)).
      pose proof (wenc_flat_map_ge (fun x => wfld n x) vs x Hin). cbn beta in *. lia.
  - (* map *)
    apply andb_true_iff in Hwf as [_ Hall]. rewrite forallb_forall in Hall. rewrite Forall_forall in IH.
    cbn [wfld]. apply fold_max_le. intros [k x] Hin. cbn [snd].
    specialize (Hall _ Hin). cbn [fst snd] in Hall.
    apply andb_true_iff in Hall as [Hall _]. apply andb_true_iff in Hall as [_ Hx].
    pose proof (IH (k, x) Hin _ _ _ 2 Hx) as Hd. cbn [snd] in Hd.
    set (inner := wenc (key_field k :: wfld 2 x)).
    assert (H1 : (length (wenc (wfld 2 x)) <= length inner)%nat).
    { unfold inner. rewrite wenc_cons, app_length. lia. }
    pose proof (wenc_bytes_field_ge n inner) as H2.
    assert (H3 : (length (wenc [(n, WBytes inner)]) <=
                  length (wenc (map (fun kx => (n, WBytes (wenc (key_field (fst kx) :: wfld 2 (snd kx))))) kvs)))%nat).
    { subst inner. clear - Hin. induction kvs as [|kx kvs IHk]; [destruct Hin|].
      cbn [map]. rewrite (wenc_cons _ (map _ kvs)), app_length. destruct Hin as [->|Hin].
      - rewrite (wenc_cons _ []), app_length. cbn [fst snd wenc flat_map length]. lia.
      - specialize (IHk Hin). eapply Nat.le_trans; [exact IHk|apply Nat.le_add_l]. }
    lia.
Qed.

(* the top-level decoder (fuel from the input length) on canonical encodings *)
Theorem decode_top_encode S name fs :
  wf_msg S name fs = true -> decode_top S name (encode_msg fs) = Some fs.
Proof.
  intros Hwf. unfold decode_top. apply decode_encode_msg; [exact Hwf|].
  pose proof (depth_le_length (VMsg fs) S LSingular (TMsg name) 1 Hwf) as H.
  pose proof (wenc_bytes_field_ge 1 (encode_msg fs)) as H2.
  cbn [depth] in *. cbn [wfld] in H.
  (* depth = S max; the one-field wrapper is longer than the payload by the tag and length bytes *)
  unfold wf_msg in Hwf. cbn [wf_fld] in Hwf.
  destruct (find_msg S name) as [md|]; [|discriminate].
  apply andb_true_iff in Hwf as [_ Hall]. rewrite forallb_forall in Hall.
  assert (Hm : (fold_right (fun nv m => Nat.max (depth (snd nv)) m) O fs <= length (encode_msg fs))%nat).
  { apply fold_max_le. intros nv Hin. specialize (Hall nv Hin). cbn beta in Hall.
    destruct (find_field md (fst nv)) as [fd|]; [|discriminate].
    apply andb_true_iff in Hall as [_ Hv].
    pose proof (depth_le_length (snd nv) _ _ _ (fst nv) Hv).
    pose proof (wenc_flat_map_ge (fun nv => wfld (fst nv) (snd nv)) fs nv Hin). cbn beta in *.
    unfold encode_msg, msg_wire. lia. }
  lia.
Qed.
