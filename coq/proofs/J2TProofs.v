(* C02 — JSON -> Thrift binary (model/J2T.v): the type-directed encoder inverts the canonical JSON of a
   conforming value, works on the AST only, rejects kind mismatches / unknown members, and drops nulls. *)
From Coq Require Import ZArith List Bool Lia.
From DG Require Import ProtoWireRef ThriftWire ThriftWireProofs Json JsonProofs Num NumProofs Base64 Base64Proofs J2T.
Import ListNotations.
Local Open Scope Z_scope.

(* ------------------------------------------------------------------ rconcat *)

Lemma rconcat_map {A B} (f : B -> res) (g : A -> B) (l : list A) :
  rconcat f (map g l) = rconcat (fun x => f (g x)) l.
Proof. induction l as [|x l IH]; cbn [map rconcat]; [reflexivity|]. rewrite IH. reflexivity. Qed.

Lemma rconcat_ext {A} (f g : A -> res) (l : list A) :
  (forall x, In x l -> f x = g x) -> rconcat f l = rconcat g l.
Proof.
  induction l as [|x l IH]; intros H; cbn [rconcat]; [reflexivity|].
  rewrite (H x (or_introl eq_refl)), IH; [reflexivity|]. intros y Hy. apply H. right. exact Hy.
Qed.

Lemma rconcat_ok_flat {A} (f : A -> res) (h : A -> list Z) (l : list A) :
  (forall x, In x l -> f x = Ok (h x)) -> rconcat f l = Ok (flat_map h l).
Proof.
  induction l as [|x l IH]; intros H; cbn [rconcat flat_map]; [reflexivity|].
  rewrite (H x (or_introl eq_refl)), IH; [reflexivity|]. intros y Hy. apply H. right. exact Hy.
Qed.

Lemma rconcat_app {A} (f : A -> res) (l1 l2 : list A) :
  rconcat f (l1 ++ l2) =
  match rconcat f l1 with
  | Err c => Err c
  | Ok a => match rconcat f l2 with Err c => Err c | Ok b => Ok (a ++ b) end
  end.
Proof.
  induction l1 as [|x l1 IH]; cbn [app rconcat].
  - destruct (rconcat f l2); reflexivity.
  - destruct (f x) as [b|c]; [|reflexivity]. rewrite IH.
    destruct (rconcat f l1) as [a|c]; [|reflexivity].
    destruct (rconcat f l2) as [b2|c]; [|reflexivity]. rewrite app_assoc. reflexivity.
Qed.

(* one failing element makes the whole concatenation fail (with the first error) *)
Lemma rconcat_err {A} (f : A -> res) (l : list A) (x : A) (c : Z) :
  In x l -> f x = Err c -> exists c', rconcat f l = Err c'.
Proof.
  induction l as [|y l IH]; intros Hin Hx; [destruct Hin|]. cbn [rconcat].
  destruct Hin as [->|Hin].
  - rewrite Hx. eexists; reflexivity.
  - destruct (f y) as [b|c0]; [|eexists; reflexivity].
    destruct (IH Hin Hx) as [c' ->]. eexists; reflexivity.
Qed.

(* an element that contributes nothing can be removed *)
Lemma rconcat_skip {A} (f : A -> res) (l1 : list A) (x : A) (l2 : list A) :
  f x = Ok [] -> rconcat f (l1 ++ x :: l2) = rconcat f (l1 ++ l2).
Proof.
  intros Hx. rewrite !rconcat_app. cbn [rconcat]. rewrite Hx.
  destruct (rconcat f l1) as [a|c]; [|reflexivity].
  destruct (rconcat f l2) as [b|c]; reflexivity.
Qed.

(* ------------------------------------------------------------------ unfolding equations *)

Section Unfold.
  Variable P : policy.
  Variable D : defs.
  Variable o : jopts.

  Lemma j2t_val_list_eq : forall e s xs, j2t_val P D o (TList e) s (JArr xs) =
    if nonempty xs && (max_level <=? s) then Err E_DEPTH else
    rbind (rconcat (fun x => if is_null x then Ok [] else j2t_val P D o e (s + 1) x) xs)
          (fun body => Ok (tcode e :: enc_int 4 (count_nonnull xs) ++ body)).
  Proof. reflexivity. Qed.

  Lemma j2t_val_set_eq : forall e s xs, j2t_val P D o (TSet e) s (JArr xs) =
    if nonempty xs && (max_level <=? s) then Err E_DEPTH else
    rbind (rconcat (fun x => if is_null x then Ok [] else j2t_val P D o e (s + 1) x) xs)
          (fun body => Ok (tcode e :: enc_int 4 (count_nonnull xs) ++ body)).
  Proof. reflexivity. Qed.

  Definition map_entry (k v : ty) (s : Z) (m : list Z * json) : res :=
    rbind (key_bytes P k (fst m)) (fun kb =>
      if is_null (snd m) then Ok [] else rbind (j2t_val P D o v (s + 1) (snd m)) (fun vb => Ok (kb ++ vb))).

  Lemma j2t_val_map_eq : forall k v s ms, j2t_val P D o (TMap k v) s (JObj ms) =
    if nonempty ms && (max_level <=? s) then Err E_DEPTH else
    rbind (rconcat (map_entry k v s) ms)
          (fun body => Ok (tcode k :: tcode v :: enc_int 4 (count_nonnull (map snd ms)) ++ body)).
  Proof. reflexivity. Qed.

  Definition struct_member (sd : sdef) (s : Z) (m : list Z * json) : res :=
    match find_field sd (fst m) with
    | None => if o_disallow_unknown o then Err E_UNKNOWN else Ok []
    | Some f =>
      if o_vm o && f_vm f then
        (if is_null (snd m) then (if p_vm_quirks P then Err E_KIND else Ok [])
         else rbind (vm_val P (f_ty f) (snd m)) (fun vb => Ok (tcode (f_ty f) :: enc_int 2 (f_id f) ++ vb)))
      else if is_null (snd m) then Ok []
      else rbind (j2t_val P D o (f_ty f) (s + 1) (snd m))
                 (fun vb => Ok (tcode (f_ty f) :: enc_int 2 (f_id f) ++ vb))
    end.

  Lemma j2t_val_struct_eq : forall i sd s ms, nth_error D i = Some sd ->
    j2t_val P D o (TStruct i) s (JObj ms) =
    if nonempty ms && (max_level <=? s) then Err E_DEPTH else
    rbind (rconcat (struct_member sd s) ms) (fun body => Ok (body ++ [0])).
  Proof. intros i sd s ms H. cbn [j2t_val]. rewrite H. reflexivity. Qed.
End Unfold.

(* ------------------------------------------------------------------ small facts *)

Lemma nonempty_app_cons {A} (l1 : list A) x l2 : nonempty (l1 ++ x :: l2) = true.
Proof. destruct l1; reflexivity. Qed.

Lemma depth_test_false {A} (l : list A) s : s < max_level -> nonempty l && (max_level <=? s) = false.
Proof. intros H. destruct (Z.leb_spec max_level s); [lia|]. apply andb_false_r. Qed.

Lemma count_nonnull_skip l1 l2 : count_nonnull (l1 ++ JNull :: l2) = count_nonnull (l1 ++ l2).
Proof. unfold count_nonnull. rewrite !filter_app. cbn [filter is_null negb]. reflexivity. Qed.

Lemma ty_eqb_eq : forall a b, ty_eqb a b = true -> a = b.
Proof.
  induction a; destruct b; cbn [ty_eqb]; intros H; try discriminate; try reflexivity.
  - apply Nat.eqb_eq in H. congruence.
  - f_equal. apply IHa. exact H.
  - f_equal. apply IHa. exact H.
  - apply andb_true_iff in H. destruct H as [H1 H2]. f_equal; [apply IHa1|apply IHa2]; assumption.
Qed.

Lemma num_strict_fmt_int : forall t n k z, int_width t = Some (n, k) -> in_sb k z = true ->
  num_strict t (fmt_int z) = Ok (enc_int n z).
Proof.
  intros t n k z Hw Hin. unfold num_strict. rewrite num_okb_fmt_int. cbn [negb].
  destruct t; try discriminate; cbn [int_width] in *; inversion Hw; subst;
    rewrite fmt_int_plain, parse_int_fmt_int, Hin; reflexivity.
Qed.

(* ------------------------------------------------------------------ (1) the encoder inverts the canonical JSON *)

Lemma fold_max_In {A} (g : A -> nat) (l : list A) (x : A) :
  In x l -> (g x <= fold_right (fun a m => Nat.max (g a) m) O l)%nat.
Proof.
  induction l as [|a l IH]; intros H; [destruct H|]. cbn [fold_right].
  destruct H as [->|H]; [lia|]. specialize (IH H). lia.
Qed.

Section Denoted.
  Variable dlex : Z -> list Z.
  Variable D : defs.
  Variable o : jopts.

  Lemma conf_type_of : forall v t, conf dlex D t v = true -> type_of v = tcode t.
  Proof. destruct v, t; intros H; try reflexivity; cbn in H; discriminate. Qed.

  Lemma json_of_not_null : forall v t, conf dlex D t v = true -> is_null (json_of dlex D o t v) = false.
  Proof.
    destruct v, t; intros H; try (cbn in H; discriminate); try reflexivity.
    - cbn. destruct (o_nob64 o); reflexivity.
    - cbn in *. destruct (nth_error D i); [reflexivity|discriminate].
  Qed.

  Lemma count_nonnull_json_of {A} (g : A -> json) (l : list A) :
    (forall x, In x l -> is_null (g x) = false) -> count_nonnull (map g l) = zlen l.
  Proof.
    intros H. unfold count_nonnull, zlen. f_equal.
    induction l as [|x l IH]; [reflexivity|]. cbn [map filter].
    rewrite (H x (or_introl eq_refl)). cbn [negb length]. f_equal. apply IH.
    intros y Hy. apply H. right. exact Hy.
  Qed.

  Lemma dbl_strict : forall b, dbl_ok dlex b = true -> num_strict TDouble (dlex b) = Ok (enc_int 8 b).
  Proof.
    intros b H. unfold dbl_ok in H. apply andb_true_iff in H. destruct H as [H H3].
    apply andb_true_iff in H. destruct H as [H1 H2].
    unfold num_strict. rewrite H1. cbn [negb].
    destruct (lex2f64 (dlex b)) as [b'|]; [|discriminate]. apply Z.eqb_eq in H3. subst b'.
    rewrite H2. reflexivity.
  Qed.

  Lemma key_bytes_denoted : forall k kv, is_key_ty k = true -> conf dlex D k kv = true ->
    key_bytes strict k (key_text dlex kv) = Ok (encode kv).
  Proof.
    intros k kv Hk Hc.
    destruct kv, k; try (cbn in Hc; discriminate); try (cbn in Hk; discriminate); cbn [conf] in Hc;
      cbn [key_bytes key_text encode strict p_key_prefix p_num].
    - rewrite num_okb_fmt_int. apply (num_strict_fmt_int TByte 1%nat 8); [reflexivity|exact Hc].
    - rewrite num_okb_fmt_int. apply (num_strict_fmt_int TI16 2%nat 16); [reflexivity|exact Hc].
    - rewrite num_okb_fmt_int. apply (num_strict_fmt_int TI32 4%nat 32); [reflexivity|exact Hc].
    - rewrite num_okb_fmt_int. apply (num_strict_fmt_int TI64 8%nat 64); [reflexivity|exact Hc].
    - pose proof Hc as Hc'. unfold dbl_ok in Hc'. apply andb_true_iff in Hc'. destruct Hc' as [Hc' _].
      apply andb_true_iff in Hc'. destruct Hc' as [-> _]. apply dbl_strict. exact Hc.
    - reflexivity.
    - reflexivity.
  Qed.

  (* api.js_conv under the strict policy agrees with the plain conversion on the canonical JSON of a conforming scalar *)
  Lemma vm_val_denoted : forall t x, vm_ty_ok t = true -> conf dlex D t x = true ->
    vm_val strict t (json_of dlex D o t x) = Ok (encode x).
  Proof.
    intros t x Ht Hc.
    destruct x, t; try (cbn in Hc; discriminate); try (cbn in Ht; discriminate); cbn [conf] in Hc;
      cbn [json_of vm_val is_num_ty strict p_num encode].
    - rewrite (num_strict_fmt_int TByte 1%nat 8 z eq_refl Hc). reflexivity.
    - rewrite (num_strict_fmt_int TI16 2%nat 16 z eq_refl Hc). reflexivity.
    - rewrite (num_strict_fmt_int TI32 4%nat 32 z eq_refl Hc). reflexivity.
    - rewrite (num_strict_fmt_int TI64 8%nat 64 z eq_refl Hc). reflexivity.
    - rewrite (dbl_strict _ Hc). reflexivity.
    - reflexivity.
  Qed.

  Lemma jbytes_Forall_byte : forall x, jbytes_okb x = true -> Forall byte x.
  Proof. intros x H. apply Forall_jbytes in H. exact H. Qed.

  Theorem j2t_val_encodes_denoted : forall v t s,
    conf dlex D t v = true -> s + Z.of_nat (depth v) - 1 <= max_level ->
    j2t_val strict D o t s (json_of dlex D o t v) = Ok (encode v).
  Proof.
    induction v as [b|z|z|z|z|b|x|fs IH|kt vt es IH|et es IH|et es IH] using tval_ind'; intros t s Hc Hd.
    - (* bool *)
      destruct t; cbn [conf] in Hc; try discriminate. cbn [json_of j2t_val encode].
      apply orb_true_iff in Hc. destruct Hc as [Hc|Hc]; apply Z.eqb_eq in Hc; subst b; reflexivity.
    - destruct t; cbn [conf] in Hc; try discriminate. cbn [json_of j2t_val encode is_num_ty strict p_num].
      apply (num_strict_fmt_int TByte 1%nat 8); [reflexivity|exact Hc].
    - destruct t; cbn [conf] in Hc; try discriminate. cbn [json_of j2t_val encode is_num_ty strict p_num].
      apply (num_strict_fmt_int TI16 2%nat 16); [reflexivity|exact Hc].
    - destruct t; cbn [conf] in Hc; try discriminate. cbn [json_of j2t_val encode is_num_ty strict p_num].
      apply (num_strict_fmt_int TI32 4%nat 32); [reflexivity|exact Hc].
    - destruct t; cbn [conf] in Hc; try discriminate. cbn [json_of j2t_val encode is_num_ty strict p_num].
      apply (num_strict_fmt_int TI64 8%nat 64); [reflexivity|exact Hc].
    - destruct t; cbn [conf] in Hc; try discriminate. cbn [json_of j2t_val encode is_num_ty strict p_num].
      apply dbl_strict. exact Hc.
    - (* string / binary *)
      destruct t; cbn [conf] in Hc; try discriminate; cbn [json_of].
      + reflexivity.
      + destruct (o_nob64 o) eqn:Hn; cbn [j2t_val]; rewrite Hn; [reflexivity|].
        rewrite (b64_decode_encode x (jbytes_Forall_byte x Hc)). reflexivity.
    - (* struct *)
      destruct t; cbn [conf] in Hc; try discriminate. cbn [json_of].
      destruct (nth_error D i) as [sd|] eqn:Hsd; [|discriminate].
      rewrite (j2t_val_struct_eq strict D o i sd s _ Hsd).
      rewrite forallb_forall in Hc. rewrite Forall_forall in IH.
      assert (Hdep : forall f, In f fs -> s + 1 + Z.of_nat (depth (snd f)) - 1 <= max_level).
      { intros f Hf. cbn [depth] in Hd. pose proof (fold_max_In (fun f => depth (snd f)) fs f Hf) as Hm. cbn beta in Hm. lia. }
      replace (nonempty _ && (max_level <=? s)) with false.
      2:{ destruct fs as [|f fs']; [reflexivity|]. cbn [map nonempty andb].
          specialize (Hdep f (or_introl eq_refl)). symmetry. apply Z.leb_gt.
          assert (1 <= Z.of_nat (depth (snd f))) by (destruct (snd f); cbn [depth]; lia). lia. }
      rewrite rconcat_map.
      rewrite (rconcat_ok_flat _ (fun f => type_of (snd f) :: enc_int 2 (fst f) ++ encode (snd f))).
      + reflexivity.
      + intros f Hf. specialize (Hc f Hf). unfold struct_member.
        destruct (find_id sd (fst f)) as [fd|]; [|discriminate]. cbn [fst snd].
        apply andb_true_iff in Hc. destruct Hc as [Hc Hcv].
        apply andb_true_iff in Hc. destruct Hc as [Hc Hff].
        apply andb_true_iff in Hc. destruct Hc as [Hc Hvm].
        apply andb_true_iff in Hc. destruct Hc as [Hc _].
        apply andb_true_iff in Hc. destruct Hc as [Hc _].
        destruct (find_field sd (key1 fd)) as [fd'|]; [|discriminate].
        apply andb_true_iff in Hff. destruct Hff as [Hff Hvm'].
        apply andb_true_iff in Hff. destruct Hff as [Hid Hty].
        apply ty_eqb_eq in Hty. apply Z.eqb_eq in Hid. apply Z.eqb_eq in Hc. apply eqb_prop in Hvm'.
        rewrite Hty, Hid, Hc, Hvm'.
        rewrite (json_of_not_null _ _ Hcv).
        destruct (o_vm o && f_vm fd) eqn:Hov.
        * apply andb_true_iff in Hov. destruct Hov as [_ Hfv]. rewrite Hfv in Hvm. cbn [negb orb] in Hvm.
          rewrite (vm_val_denoted _ _ Hvm Hcv). cbn [rbind].
          rewrite (conf_type_of _ _ Hcv). reflexivity.
        * rewrite (IH f Hf (f_ty fd) (s + 1) Hcv (Hdep f Hf)). cbn [rbind].
          rewrite (conf_type_of _ _ Hcv). reflexivity.
    - (* map *)
      destruct t; cbn [conf] in Hc; try discriminate. cbn [json_of].
      apply andb_true_iff in Hc. destruct Hc as [Hc Hes].
      apply andb_true_iff in Hc. destruct Hc as [Hc Hkt].
      apply andb_true_iff in Hc. destruct Hc as [Hk1 Hv1].
      apply Z.eqb_eq in Hk1. apply Z.eqb_eq in Hv1. subst kt vt.
      rewrite j2t_val_map_eq.
      rewrite forallb_forall in Hes. rewrite Forall_forall in IH.
      assert (Hdep : forall e, In e es -> s + 1 + Z.of_nat (depth (snd e)) - 1 <= max_level).
      { intros e He. cbn [depth] in Hd.
        pose proof (fold_max_In (fun e => Nat.max (depth (fst e)) (depth (snd e))) es e He) as Hm. cbn beta in Hm. lia. }
      replace (nonempty _ && (max_level <=? s)) with false.
      2:{ destruct es as [|e es']; [reflexivity|]. cbn [map nonempty andb].
          specialize (Hdep e (or_introl eq_refl)). symmetry. apply Z.leb_gt.
          assert (1 <= Z.of_nat (depth (snd e))) by (destruct (snd e); cbn [depth]; lia). lia. }
      rewrite map_map. cbn [snd].
      rewrite (count_nonnull_json_of (fun e => json_of dlex D o t2 (snd e))).
      2:{ intros e He. specialize (Hes e He). apply andb_true_iff in Hes. destruct Hes as [_ Hes].
          apply json_of_not_null. exact Hes. }
      rewrite rconcat_map.
      rewrite (rconcat_ok_flat _ (fun e => encode (fst e) ++ encode (snd e))).
      + reflexivity.
      + intros e He. specialize (Hes e He). unfold map_entry. cbn [fst snd].
        apply andb_true_iff in Hes. destruct Hes as [Hes Hv]. apply andb_true_iff in Hes. destruct Hes as [Hk _].
        rewrite (key_bytes_denoted t1 (fst e) Hkt Hk). cbn [rbind].
        rewrite (json_of_not_null _ _ Hv).
        destruct (IH e He) as [_ IHv]. rewrite (IHv t2 (s + 1) Hv (Hdep e He)). reflexivity.
    - (* set *)
      destruct t; cbn [conf] in Hc; try discriminate. cbn [json_of].
      apply andb_true_iff in Hc. destruct Hc as [Het Hes]. apply Z.eqb_eq in Het. subst et.
      rewrite j2t_val_set_eq. rewrite forallb_forall in Hes. rewrite Forall_forall in IH.
      assert (Hdep : forall e, In e es -> s + 1 + Z.of_nat (depth e) - 1 <= max_level).
      { intros e He. cbn [depth] in Hd. pose proof (fold_max_In depth es e He). lia. }
      replace (nonempty _ && (max_level <=? s)) with false.
      2:{ destruct es as [|e es']; [reflexivity|]. cbn [map nonempty andb].
          specialize (Hdep e (or_introl eq_refl)). symmetry. apply Z.leb_gt.
          assert (1 <= Z.of_nat (depth e)) by (destruct e; cbn [depth]; lia). lia. }
      rewrite (count_nonnull_json_of (json_of dlex D o t)).
      2:{ intros e He. apply json_of_not_null. apply Hes. exact He. }
      rewrite rconcat_map. rewrite (rconcat_ok_flat _ encode).
      + reflexivity.
      + intros e He. rewrite (json_of_not_null _ _ (Hes e He)). apply IH; [exact He|apply Hes; exact He|apply Hdep; exact He].
    - (* list *)
      destruct t; cbn [conf] in Hc; try discriminate. cbn [json_of].
      apply andb_true_iff in Hc. destruct Hc as [Het Hes]. apply Z.eqb_eq in Het. subst et.
      rewrite j2t_val_list_eq. rewrite forallb_forall in Hes. rewrite Forall_forall in IH.
      assert (Hdep : forall e, In e es -> s + 1 + Z.of_nat (depth e) - 1 <= max_level).
      { intros e He. cbn [depth] in Hd. pose proof (fold_max_In depth es e He). lia. }
      replace (nonempty _ && (max_level <=? s)) with false.
      2:{ destruct es as [|e es']; [reflexivity|]. cbn [map nonempty andb].
          specialize (Hdep e (or_introl eq_refl)). symmetry. apply Z.leb_gt.
          assert (1 <= Z.of_nat (depth e)) by (destruct e; cbn [depth]; lia). lia. }
      rewrite (count_nonnull_json_of (json_of dlex D o t)).
      2:{ intros e He. apply json_of_not_null. apply Hes. exact He. }
      rewrite rconcat_map. rewrite (rconcat_ok_flat _ encode).
      + reflexivity.
      + intros e He. rewrite (json_of_not_null _ _ (Hes e He)). apply IH; [exact He|apply Hes; exact He|apply Hdep; exact He].
  Qed.
End Denoted.

Corollary j2t_encodes_denoted_top : forall dlex D o v t,
  conf dlex D t v = true -> Z.of_nat (depth v) <= max_level ->
  j2t D o t (json_of dlex D o t v) = Ok (encode v).
Proof. intros. unfold j2t. apply j2t_val_encodes_denoted; [assumption|lia]. Qed.

(* ------------------------------------------------------------------ (2) text level *)

Lemma j2t_text_ast_only_lemma : forall P D o t t1 t2,
  option_map fst (json_parse_prefix t1) = option_map fst (json_parse_prefix t2) ->
  j2t_text P D o t t1 = j2t_text P D o t t2.
Proof.
  intros P D o t t1 t2 H. unfold j2t_text.
  destruct (json_parse_prefix t1) as [[j1 r1]|], (json_parse_prefix t2) as [[j2 r2]|]; cbn in H;
    try discriminate; [|reflexivity]. inversion H. reflexivity.
Qed.

Lemma j2t_text_print_lemma : forall P D o t j r, json_wf j = true -> stop r = true ->
  j2t_text P D o t (json_print j ++ r) = j2t_val P D o t 1 j.
Proof. intros. unfold j2t_text. rewrite json_parse_prefix_print by assumption. reflexivity. Qed.

Lemma b64_char_byte : forall n, 0 <= n < 64 -> jbyte_okb (b64_char n) = true.
Proof.
  intros n Hn. apply (Z_range_forallb (fun n => jbyte_okb (b64_char n)) 64); [vm_compute; reflexivity|exact Hn].
Qed.

Lemma b64_encode_jbytes : forall bs, Forall byte bs -> jbytes_okb (b64_encode bs) = true.
Proof.
  unfold jbytes_okb.
  induction bs as [| a | a b | a b c r IH] using list_ind3; intros Hb.
  - reflexivity.
  - inversion Hb as [|? ? Ha _]; subst. cbn [b64_encode forallb].
    rewrite (b64_char_byte _ (idx0 a Ha)), (b64_char_byte _ (idx1' a Ha)). reflexivity.
  - inversion Hb as [|? ? Ha Hb']; subst. inversion Hb' as [|? ? Hbb _]; subst. cbn [b64_encode forallb].
    rewrite (b64_char_byte _ (idx0 a Ha)), (b64_char_byte _ (idx1 a b Ha Hbb)), (b64_char_byte _ (idx2' b Hbb)). reflexivity.
  - inversion Hb as [|? ? Ha Hb']; subst. inversion Hb' as [|? ? Hbb Hb'']; subst. inversion Hb'' as [|? ? Hc Hr]; subst.
    cbn [b64_encode forallb].
    rewrite (b64_char_byte _ (idx0 a Ha)), (b64_char_byte _ (idx1 a b Ha Hbb)),
            (b64_char_byte _ (idx2 b c Hbb Hc)), (b64_char_byte _ (idx3 c Hc)), (IH Hr). reflexivity.
Qed.

(* the canonical JSON of a conforming value is a well-formed AST (so the printer/parser round trip applies) *)
Lemma json_of_wf : forall dlex D o v t, conf dlex D t v = true -> json_wf (json_of dlex D o t v) = true.
Proof.
  intros dlex D o.
  induction v as [b|z|z|z|z|b|x|fs IH|kt vt es IH|et es IH|et es IH] using tval_ind'; intros t Hc.
  - destruct t; cbn [conf] in Hc; try discriminate. reflexivity.
  - destruct t; cbn [conf] in Hc; try discriminate. cbn [json_of json_wf]. apply num_okb_fmt_int.
  - destruct t; cbn [conf] in Hc; try discriminate. cbn [json_of json_wf]. apply num_okb_fmt_int.
  - destruct t; cbn [conf] in Hc; try discriminate. cbn [json_of json_wf]. apply num_okb_fmt_int.
  - destruct t; cbn [conf] in Hc; try discriminate. cbn [json_of json_wf]. apply num_okb_fmt_int.
  - destruct t; cbn [conf] in Hc; try discriminate. cbn [json_of json_wf].
    unfold dbl_ok in Hc. apply andb_true_iff in Hc. destruct Hc as [Hc _].
    apply andb_true_iff in Hc. destruct Hc as [Hc _]. exact Hc.
  - destruct t; cbn [conf] in Hc; try discriminate; cbn [json_of].
    + exact Hc.
    + destruct (o_nob64 o); cbn [json_wf]; [exact Hc|]. apply b64_encode_jbytes. apply Forall_jbytes in Hc. exact Hc.
  - destruct t; cbn [conf] in Hc; try discriminate. cbn [json_of].
    destruct (nth_error D i) as [sd|]; [|discriminate]. cbn [json_wf].
    rewrite forallb_forall in Hc. rewrite Forall_forall in IH.
    apply forallb_forall. intros m Hm. apply in_map_iff in Hm. destruct Hm as [f [<- Hf]].
    specialize (Hc f Hf). destruct (find_id sd (fst f)) as [fd|]; [|discriminate]. cbn [fst snd].
    apply andb_true_iff in Hc. destruct Hc as [Hc Hcv].
    apply andb_true_iff in Hc. destruct Hc as [Hc _].
    apply andb_true_iff in Hc. destruct Hc as [Hc _].
    apply andb_true_iff in Hc. destruct Hc as [_ Hk].
    rewrite Hk. cbn [andb]. apply (IH f Hf). exact Hcv.
  - destruct t; cbn [conf] in Hc; try discriminate. cbn [json_of json_wf].
    apply andb_true_iff in Hc. destruct Hc as [_ Hes].
    rewrite forallb_forall in Hes. rewrite Forall_forall in IH.
    apply forallb_forall. intros m Hm. apply in_map_iff in Hm. destruct Hm as [e [<- He]].
    specialize (Hes e He). cbn [fst snd].
    apply andb_true_iff in Hes. destruct Hes as [Hes Hv]. apply andb_true_iff in Hes. destruct Hes as [_ Hk].
    rewrite Hk. cbn [andb]. destruct (IH e He) as [_ IHv]. apply IHv. exact Hv.
  - destruct t; cbn [conf] in Hc; try discriminate. cbn [json_of json_wf].
    apply andb_true_iff in Hc. destruct Hc as [_ Hes]. rewrite forallb_forall in Hes. rewrite Forall_forall in IH.
    apply forallb_forall. intros m Hm. apply in_map_iff in Hm. destruct Hm as [e [<- He]]. apply (IH e He). apply Hes. exact He.
  - destruct t; cbn [conf] in Hc; try discriminate. cbn [json_of json_wf].
    apply andb_true_iff in Hc. destruct Hc as [_ Hes]. rewrite forallb_forall in Hes. rewrite Forall_forall in IH.
    apply forallb_forall. intros m Hm. apply in_map_iff in Hm. destruct Hm as [e [<- He]]. apply (IH e He). apply Hes. exact He.
Qed.

Theorem j2t_text_encodes_denoted_lemma : forall dlex D o v t r,
  conf dlex D t v = true -> Z.of_nat (depth v) <= max_level -> stop r = true ->
  j2t_text strict D o t (json_print (json_of dlex D o t v) ++ r) = Ok (encode v).
Proof.
  intros dlex D o v t r Hc Hd Hr.
  rewrite j2t_text_print_lemma; [|apply json_of_wf; exact Hc|exact Hr].
  apply j2t_val_encodes_denoted; [exact Hc|lia].
Qed.

(* ------------------------------------------------------------------ (3) kind mismatches are rejected, at any depth *)

Lemma j2t_rejects_kind_mismatch_lemma : forall P D o t s j, kind_ok o t j = false -> exists c, j2t_val P D o t s j = Err c.
Proof.
  intros P D o t s j H.
  destruct j, t; cbn [kind_ok] in H; try discriminate; cbn [j2t_val is_num_ty andb]; try (eexists; reflexivity);
    rewrite H; eexists; reflexivity.
Qed.

(* the JSON kinds api.js_conv looks at: a string or a number (anything else is a mismatch) *)
Definition vm_kind_ok (j : json) : bool := match j with JStr _ | JNum _ => true | _ => false end.

Section Reject.
  Variable P : policy.
  Variable D : defs.
  Variable o : jopts.

  (* a known, non-null member whose conversion fails makes the struct conversion fail *)
  Lemma j2t_child_error_lemma : forall i sd s ms k x f c,
    nth_error D i = Some sd -> In (k, x) ms -> find_field sd k = Some f -> o_vm o && f_vm f = false ->
    is_null x = false -> j2t_val P D o (f_ty f) (s + 1) x = Err c ->
    exists c', j2t_val P D o (TStruct i) s (JObj ms) = Err c'.
  Proof.
    intros i sd s ms k x f c Hsd Hin Hf Hvm Hn He. rewrite (j2t_val_struct_eq P D o i sd s ms Hsd).
    destruct (nonempty ms && (max_level <=? s)); [eexists; reflexivity|].
    destruct (rconcat_err (struct_member P D o sd s) ms (k, x) c Hin) as [c' Hc'].
    - unfold struct_member. cbn [fst snd]. rewrite Hf, Hvm, Hn, He. reflexivity.
    - rewrite Hc'. eexists; reflexivity.
  Qed.

  (* the same for an api.js_conv member (value mapping enabled): its conversion is vm_val *)
  Lemma j2t_vm_child_error_lemma : forall i sd s ms k x f c,
    nth_error D i = Some sd -> In (k, x) ms -> find_field sd k = Some f -> o_vm o && f_vm f = true ->
    is_null x = false -> vm_val P (f_ty f) x = Err c ->
    exists c', j2t_val P D o (TStruct i) s (JObj ms) = Err c'.
  Proof.
    intros i sd s ms k x f c Hsd Hin Hf Hvm Hn He. rewrite (j2t_val_struct_eq P D o i sd s ms Hsd).
    destruct (nonempty ms && (max_level <=? s)); [eexists; reflexivity|].
    destruct (rconcat_err (struct_member P D o sd s) ms (k, x) c Hin) as [c' Hc'].
    - unfold struct_member. cbn [fst snd]. rewrite Hf, Hvm, Hn, He. reflexivity.
    - rewrite Hc'. eexists; reflexivity.
  Qed.

  Lemma j2t_vm_member_mismatch_rejected_lemma : forall i sd s ms k x f,
    nth_error D i = Some sd -> In (k, x) ms -> find_field sd k = Some f -> o_vm o && f_vm f = true ->
    is_null x = false -> vm_kind_ok x = false ->
    exists c, j2t_val P D o (TStruct i) s (JObj ms) = Err c.
  Proof.
    intros i sd s ms k x f Hsd Hin Hf Hvm Hn Hk.
    apply (j2t_vm_child_error_lemma i sd s ms k x f E_KIND Hsd Hin Hf Hvm Hn).
    destruct x; cbn [vm_kind_ok] in Hk; try discriminate; reflexivity.
  Qed.

  (* api.js_conv on a type it does not support (bool, containers) is an error whatever the value *)
  Lemma j2t_vm_member_type_unsupported_lemma : forall i sd s ms k x f,
    nth_error D i = Some sd -> In (k, x) ms -> find_field sd k = Some f -> o_vm o && f_vm f = true ->
    is_null x = false -> vm_ty_ok (f_ty f) = false -> f_ty f <> TBinary ->
    exists c, j2t_val P D o (TStruct i) s (JObj ms) = Err c.
  Proof.
    intros i sd s ms k x f Hsd Hin Hf Hvm Hn Ht Hb.
    apply (j2t_vm_child_error_lemma i sd s ms k x f E_KIND Hsd Hin Hf Hvm Hn).
    destruct x, (f_ty f); try reflexivity; try (cbn in Ht; discriminate); congruence.
  Qed.

  (* finding: with the code's quirk a null api.js_conv member is an error instead of being omitted *)
  Lemma j2t_vm_null_quirk_rejected_lemma : forall i sd s ms k f,
    nth_error D i = Some sd -> In (k, JNull) ms -> find_field sd k = Some f -> o_vm o && f_vm f = true ->
    p_vm_quirks P = true -> exists c, j2t_val P D o (TStruct i) s (JObj ms) = Err c.
  Proof.
    intros i sd s ms k f Hsd Hin Hf Hvm Hq. rewrite (j2t_val_struct_eq P D o i sd s ms Hsd).
    destruct (nonempty ms && (max_level <=? s)); [eexists; reflexivity|].
    destruct (rconcat_err (struct_member P D o sd s) ms (k, JNull) E_KIND Hin) as [c' Hc'].
    - unfold struct_member. cbn [fst snd is_null]. rewrite Hf, Hvm, Hq. reflexivity.
    - rewrite Hc'. eexists; reflexivity.
  Qed.

  Lemma j2t_elem_error_list_lemma : forall e s xs x c, In x xs -> is_null x = false ->
    j2t_val P D o e (s + 1) x = Err c -> exists c', j2t_val P D o (TList e) s (JArr xs) = Err c'.
  Proof.
    intros e s xs x c Hin Hn He. rewrite j2t_val_list_eq.
    destruct (nonempty xs && (max_level <=? s)); [eexists; reflexivity|].
    destruct (rconcat_err (fun x => if is_null x then Ok [] else j2t_val P D o e (s + 1) x) xs x c Hin) as [c' Hc'].
    - rewrite Hn. exact He.
    - rewrite Hc'. eexists; reflexivity.
  Qed.

  Lemma j2t_elem_error_set_lemma : forall e s xs x c, In x xs -> is_null x = false ->
    j2t_val P D o e (s + 1) x = Err c -> exists c', j2t_val P D o (TSet e) s (JArr xs) = Err c'.
  Proof.
    intros e s xs x c Hin Hn He. rewrite j2t_val_set_eq.
    destruct (nonempty xs && (max_level <=? s)); [eexists; reflexivity|].
    destruct (rconcat_err (fun x => if is_null x then Ok [] else j2t_val P D o e (s + 1) x) xs x c Hin) as [c' Hc'].
    - rewrite Hn. exact He.
    - rewrite Hc'. eexists; reflexivity.
  Qed.

  Lemma j2t_map_value_error_lemma : forall k v s ms kk x c, In (kk, x) ms -> is_null x = false ->
    j2t_val P D o v (s + 1) x = Err c -> exists c', j2t_val P D o (TMap k v) s (JObj ms) = Err c'.
  Proof.
    intros k v s ms kk x c Hin Hn He. rewrite j2t_val_map_eq.
    destruct (nonempty ms && (max_level <=? s)); [eexists; reflexivity|].
    assert (Hm : exists c0, map_entry P D o k v s (kk, x) = Err c0).
    { unfold map_entry. cbn [fst snd]. destruct (key_bytes P k kk) as [kb|c0]; cbn [rbind]; [|eexists; reflexivity].
      rewrite Hn, He. eexists; reflexivity. }
    destruct Hm as [c0 Hm].
    destruct (rconcat_err (map_entry P D o k v s) ms (kk, x) c0 Hin Hm) as [c' Hc'].
    rewrite Hc'. eexists; reflexivity.
  Qed.

  Lemma j2t_map_key_error_lemma : forall k v s ms kk x c, In (kk, x) ms ->
    key_bytes P k kk = Err c -> exists c', j2t_val P D o (TMap k v) s (JObj ms) = Err c'.
  Proof.
    intros k v s ms kk x c Hin He. rewrite j2t_val_map_eq.
    destruct (nonempty ms && (max_level <=? s)); [eexists; reflexivity|].
    destruct (rconcat_err (map_entry P D o k v s) ms (kk, x) c Hin) as [c' Hc'].
    - unfold map_entry. cbn [fst snd]. rewrite He. reflexivity.
    - rewrite Hc'. eexists; reflexivity.
  Qed.

  Lemma j2t_member_mismatch_rejected_lemma : forall i sd s ms k x f,
    nth_error D i = Some sd -> In (k, x) ms -> find_field sd k = Some f -> o_vm o && f_vm f = false ->
    is_null x = false -> kind_ok o (f_ty f) x = false -> exists c, j2t_val P D o (TStruct i) s (JObj ms) = Err c.
  Proof.
    intros i sd s ms k x f Hsd Hin Hf Hvm Hn Hk.
    destruct (j2t_rejects_kind_mismatch_lemma P D o (f_ty f) (s + 1) x Hk) as [c Hc].
    exact (j2t_child_error_lemma i sd s ms k x f c Hsd Hin Hf Hvm Hn Hc).
  Qed.

  Lemma j2t_list_elem_mismatch_rejected_lemma : forall e s xs x, In x xs -> is_null x = false ->
    kind_ok o e x = false -> exists c, j2t_val P D o (TList e) s (JArr xs) = Err c.
  Proof.
    intros e s xs x Hin Hn Hk. destruct (j2t_rejects_kind_mismatch_lemma P D o e (s + 1) x Hk) as [c Hc].
    exact (j2t_elem_error_list_lemma e s xs x c Hin Hn Hc).
  Qed.

  Lemma j2t_set_elem_mismatch_rejected_lemma : forall e s xs x, In x xs -> is_null x = false ->
    kind_ok o e x = false -> exists c, j2t_val P D o (TSet e) s (JArr xs) = Err c.
  Proof.
    intros e s xs x Hin Hn Hk. destruct (j2t_rejects_kind_mismatch_lemma P D o e (s + 1) x Hk) as [c Hc].
    exact (j2t_elem_error_set_lemma e s xs x c Hin Hn Hc).
  Qed.

  Lemma j2t_map_value_mismatch_rejected_lemma : forall k v s ms kk x, In (kk, x) ms -> is_null x = false ->
    kind_ok o v x = false -> exists c, j2t_val P D o (TMap k v) s (JObj ms) = Err c.
  Proof.
    intros k v s ms kk x Hin Hn Hk. destruct (j2t_rejects_kind_mismatch_lemma P D o v (s + 1) x Hk) as [c Hc].
    exact (j2t_map_value_error_lemma k v s ms kk x c Hin Hn Hc).
  Qed.

  (* composition: a mismatch two levels down (struct member inside a struct member) is still an error *)
  Lemma j2t_member_mismatch_rejected_nested_lemma : forall i sd s ms k f i' sd' ms' k' x' f',
    nth_error D i = Some sd -> In (k, JObj ms') ms -> find_field sd k = Some f -> o_vm o && f_vm f = false ->
    f_ty f = TStruct i' ->
    nth_error D i' = Some sd' -> In (k', x') ms' -> find_field sd' k' = Some f' -> o_vm o && f_vm f' = false ->
    is_null x' = false ->
    kind_ok o (f_ty f') x' = false -> exists c, j2t_val P D o (TStruct i) s (JObj ms) = Err c.
  Proof.
    intros i sd s ms k f i' sd' ms' k' x' f' Hsd Hin Hf Hvm Hty Hsd' Hin' Hf' Hvm' Hn' Hk'.
    destruct (j2t_member_mismatch_rejected_lemma i' sd' (s + 1) ms' k' x' f' Hsd' Hin' Hf' Hvm' Hn' Hk') as [c Hc].
    rewrite <- Hty in Hc.
    exact (j2t_child_error_lemma i sd s ms k (JObj ms') f c Hsd Hin Hf Hvm eq_refl Hc).
  Qed.

  (* ---------------------------------------------------------------- (5) unknown members under DisallowUnknownField *)
  Lemma j2t_unknown_rejected_lemma : forall i sd s ms k x,
    nth_error D i = Some sd -> find_field sd k = None -> o_disallow_unknown o = true -> In (k, x) ms ->
    exists c, j2t_val P D o (TStruct i) s (JObj ms) = Err c.
  Proof.
    intros i sd s ms k x Hsd Hf Ho Hin. rewrite (j2t_val_struct_eq P D o i sd s ms Hsd).
    destruct (nonempty ms && (max_level <=? s)); [eexists; reflexivity|].
    destruct (rconcat_err (struct_member P D o sd s) ms (k, x) E_UNKNOWN Hin) as [c' Hc'].
    - unfold struct_member. cbn [fst]. rewrite Hf, Ho. reflexivity.
    - rewrite Hc'. eexists; reflexivity.
  Qed.

  (* ---------------------------------------------------------------- (4) nulls and unknown members contribute nothing *)
  Lemma j2t_null_omitted_gen : forall i sd s ms1 ms2 k,
    nth_error D i = Some sd -> (find_field sd k <> None \/ o_disallow_unknown o = false) ->
    (p_vm_quirks P = false \/ o_vm o = false) -> s < max_level ->
    j2t_val P D o (TStruct i) s (JObj (ms1 ++ (k, JNull) :: ms2)) = j2t_val P D o (TStruct i) s (JObj (ms1 ++ ms2)).
  Proof.
    intros i sd s ms1 ms2 k Hsd Hk Hq Hs. rewrite !(j2t_val_struct_eq P D o i sd s _ Hsd).
    rewrite !depth_test_false by exact Hs. rewrite rconcat_skip; [reflexivity|].
    unfold struct_member. cbn [fst snd is_null].
    destruct (find_field sd k) as [f|].
    - destruct Hq as [Hq|Hq]; rewrite Hq; [|reflexivity]. destruct (o_vm o && f_vm f); reflexivity.
    - destruct Hk as [Hk|Hk]; [congruence|]. rewrite Hk. reflexivity.
  Qed.

  Lemma j2t_null_omitted_lemma : forall i sd s ms1 ms2 k,
    nth_error D i = Some sd -> (find_field sd k <> None \/ o_disallow_unknown o = false) ->
    p_vm_quirks P = false -> s < max_level ->
    j2t_val P D o (TStruct i) s (JObj (ms1 ++ (k, JNull) :: ms2)) = j2t_val P D o (TStruct i) s (JObj (ms1 ++ ms2)).
  Proof. intros i sd s ms1 ms2 k Hsd Hk Hq Hs. apply (j2t_null_omitted_gen i sd); auto. Qed.

  Lemma j2t_null_omitted_novm_lemma : forall i sd s ms1 ms2 k,
    nth_error D i = Some sd -> (find_field sd k <> None \/ o_disallow_unknown o = false) ->
    o_vm o = false -> s < max_level ->
    j2t_val P D o (TStruct i) s (JObj (ms1 ++ (k, JNull) :: ms2)) = j2t_val P D o (TStruct i) s (JObj (ms1 ++ ms2)).
  Proof. intros i sd s ms1 ms2 k Hsd Hk Hq Hs. apply (j2t_null_omitted_gen i sd); auto. Qed.

  Lemma j2t_unknown_skipped_lemma : forall i sd s ms1 ms2 k x,
    nth_error D i = Some sd -> find_field sd k = None -> o_disallow_unknown o = false -> s < max_level ->
    j2t_val P D o (TStruct i) s (JObj (ms1 ++ (k, x) :: ms2)) = j2t_val P D o (TStruct i) s (JObj (ms1 ++ ms2)).
  Proof.
    intros i sd s ms1 ms2 k x Hsd Hf Ho Hs. rewrite !(j2t_val_struct_eq P D o i sd s _ Hsd).
    rewrite !depth_test_false by exact Hs. rewrite rconcat_skip; [reflexivity|].
    unfold struct_member. cbn [fst]. rewrite Hf, Ho. reflexivity.
  Qed.

  Lemma j2t_null_map_entry_omitted_lemma : forall k v s ms1 ms2 kk kb,
    key_bytes P k kk = Ok kb -> s < max_level ->
    j2t_val P D o (TMap k v) s (JObj (ms1 ++ (kk, JNull) :: ms2)) = j2t_val P D o (TMap k v) s (JObj (ms1 ++ ms2)).
  Proof.
    intros k v s ms1 ms2 kk kb Hk Hs. rewrite !j2t_val_map_eq.
    rewrite !depth_test_false by exact Hs. rewrite rconcat_skip.
    - rewrite !map_app. cbn [map snd]. rewrite count_nonnull_skip. reflexivity.
    - unfold map_entry. cbn [fst snd is_null]. rewrite Hk. reflexivity.
  Qed.

  Lemma j2t_null_elem_omitted_list_lemma : forall e s xs1 xs2, s < max_level ->
    j2t_val P D o (TList e) s (JArr (xs1 ++ JNull :: xs2)) = j2t_val P D o (TList e) s (JArr (xs1 ++ xs2)).
  Proof.
    intros e s xs1 xs2 Hs. rewrite !j2t_val_list_eq. rewrite !depth_test_false by exact Hs.
    rewrite rconcat_skip by reflexivity. rewrite count_nonnull_skip. reflexivity.
  Qed.

  Lemma j2t_null_elem_omitted_set_lemma : forall e s xs1 xs2, s < max_level ->
    j2t_val P D o (TSet e) s (JArr (xs1 ++ JNull :: xs2)) = j2t_val P D o (TSet e) s (JArr (xs1 ++ xs2)).
  Proof.
    intros e s xs1 xs2 Hs. rewrite !j2t_val_set_eq. rewrite !depth_test_false by exact Hs.
    rewrite rconcat_skip by reflexivity. rewrite count_nonnull_skip. reflexivity.
  Qed.
End Reject.

(* ---- BinaryConv.do in front of the converter (j2t_do) ---- *)
Lemma j2t_do_text : forall P D o t c r, (is_str_ty t = false \/ c = 34) ->
  j2t_do P D o t (c :: r) = j2t_text P D o t (c :: r).
Proof.
  intros P D o t c r [H|H]; unfold j2t_do.
  - rewrite H. reflexivity.
  - subst c. rewrite Z.eqb_refl. cbn [negb]. rewrite andb_false_r. reflexivity.
Qed.

Lemma j2t_do_unquoted : forall P D o t c r, is_str_ty t = true -> c <> 34 ->
  j2t_do P D o t (c :: r) = j2t_val P D o t 1 (JStr (c :: r)).
Proof.
  intros P D o t c r Ht Hc. unfold j2t_do. rewrite Ht. destruct (Z.eqb_spec c 34); [contradiction|]. reflexivity.
Qed.

Lemma j2t_do_empty : forall P D o t, j2t_do P D o t [] = match t with TStruct _ => Ok [0] | _ => Err E_PARSE end.
Proof. reflexivity. Qed.

(* the canonical document of a conforming value goes through BinaryConv.do unchanged: for a string-typed root it starts with the quote *)
Theorem j2t_do_encodes_denoted_lemma : forall dlex D o v t r,
  conf dlex D t v = true -> Z.of_nat (depth v) <= max_level -> stop r = true ->
  j2t_do strict D o t (json_print (json_of dlex D o t v) ++ r) = Ok (encode v).
Proof.
  intros dlex D o v t r Hc Hd Hr.
  pose proof (j2t_text_encodes_denoted_lemma dlex D o v t r Hc Hd Hr) as Ht.
  pose proof (json_of_wf dlex D o v t Hc) as Hw.
  destruct (print_starts _ Hw) as (c & tl & E & _).
  rewrite E in *. cbn [app] in *.
  rewrite j2t_do_text; [exact Ht|].
  destruct (is_str_ty t) eqn:Es; [right | left; reflexivity].
  destruct t; try discriminate Es; destruct v; cbn in Hc; try discriminate Hc;
    cbn [json_of json_print quote_ref] in E;
    repeat match type of E with context [if ?b then _ else _] => destruct b end;
    cbn [json_print quote_ref] in E; injection E; intros; subst; reflexivity.
Qed.
